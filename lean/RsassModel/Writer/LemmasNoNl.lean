/-
Writer family (C07) — compressed output contains no line break (helper lemmas).
-/
import RsassModel.Writer.LemmasFrame
namespace Writer

def noNl (l : Bytes) : Bool := l.all (· ≠ 10)

def optNoNl : Option Atom → Bool
  | none => true
  | some a => noNl a.c

mutual
/-- no atom of the tree (as written in compressed style) contains a line break; property
values are exempt (`Property::write` replaces line breaks), comment text and at-rule
arguments are exempt when the corresponding deviation is off -/
def nodeNoNl (q : WQuirks) : Node → Bool
  | .comment text => !q.commentReindentCompressed || noNl text
  | .import_ a => noNl a.c
  | .prop name _ => noNl name
  | .custom name value _ => noNl name && noNl value
  | .rule sel body => optNoNl sel && nodesNoNl q body
  | .media args body => noNl args.c && nodesNoNl q body
  | .atLeaf name args => noNl name && (!q.atArgsRawCompressed || optNoNl args)
  | .atBlock name args body => noNl name && (!q.atArgsRawCompressed || optNoNl args) && nodesNoNl q body
  | .separator => true
def nodesNoNl (q : WQuirks) : Nodes → Bool
  | .nil => true
  | .cons n ns => nodeNoNl q n && nodesNoNl q ns
end

theorem noNl_append (a b : Bytes) : noNl (a ++ b) = (noNl a && noNl b) := by
  simp [noNl, List.all_append]

theorem noNl_reverse (a : Bytes) : noNl a.reverse = noNl a := by simp [noNl]

theorem noNl_addStr {b : Buf} {l : Bytes} (hl : noNl l = true) (hb : noNl b.rev = true) :
    noNl (b.addStr l).rev = true := by
  rw [addStr_rev, noNl_append, noNl_reverse, hl, hb]; rfl

theorem noNl_tail {x : UInt8} {r : Bytes} (h : noNl (x :: r) = true) : noNl r = true := by
  simp only [noNl, List.all_cons, Bool.and_eq_true] at h ⊢; exact h.2

theorem noNl_popNl {b : Buf} (h : noNl b.rev = true) : noNl b.popNl.rev = true := by
  unfold Buf.popNl; split
  · next r heq => rw [heq] at h; exact noNl_tail h
  · exact h

theorem noNl_popSemi (s : Style) {r : Bytes} (h : noNl r = true) : noNl (popSemi s r) = true := by
  unfold popSemi; split
  · exact noNl_tail h
  · exact h

theorem noNl_map_nl (l : Bytes) : noNl (l.map fun x => if x = 10 then 32 else x) = true := by
  simp only [noNl, List.all_map, List.all_eq_true]
  intro x _
  simp only [Function.comp]
  split <;> simp_all

theorem splitNl_noNl {l : Bytes} (h : noNl l = true) : splitNl l = [l] := by
  induction l with
  | nil => rfl
  | cons x l ih =>
    simp only [noNl, List.all_cons, Bool.and_eq_true, decide_eq_true_eq] at h
    have := ih (by simpa [noNl] using h.2)
    simp [splitNl, h.1, this]

theorem commentText_noNl (q : WQuirks) (indent : Nat) {text : Bytes}
    (h : (!q.commentReindentCompressed || noNl text) = true) :
    noNl (commentText q .compressed indent text) = true := by
  unfold commentText
  cases hq : q.commentReindentCompressed with
  | false => simp [Style.isCompressed, noNl_map_nl]
  | true =>
    simp only [hq, Bool.not_true, Bool.false_or] at h
    have hl : (lines text).drop 1 = [] := by
      unfold lines
      rw [splitNl_noNl h]
      cases text <;> simp
    simp [Style.isCompressed, hl, listMin, h]

theorem atArgsText_noNl (q : WQuirks) {a : Atom}
    (h : (!q.atArgsRawCompressed || noNl a.c) = true) : noNl (atArgsText q .compressed a) = true := by
  unfold atArgsText
  cases hq : q.atArgsRawCompressed with
  | false => simp [Style.isCompressed, noNl_map_nl]
  | true => simpa [hq, Style.isCompressed, Atom.get] using h

theorem doIndentNoNl_c (b : Buf) : b.doIndentNoNl .compressed = b := by
  rw [doIndentNoNl_eq]; simp [Buf.addStr]

theorem noNl_startBlock {b : Buf} (h : noNl b.rev = true) : noNl (b.startBlock .compressed).rev = true := by
  simp only [Buf.startBlock, Buf.addOne]
  exact noNl_addStr (by decide) h

theorem noNl_endBlock {b : Buf} (h : noNl b.rev = true) : noNl (b.endBlock .compressed).rev = true := by
  rw [endBlock_rev_c]
  have := noNl_popSemi .compressed (noNl_popNl h)
  simp only [noNl, List.all_cons, Bool.and_eq_true] at this ⊢
  exact ⟨by decide, this⟩

theorem noNl_writeComment (q : WQuirks) (text : Bytes) {b : Buf} (hb : noNl b.rev = true)
    (h : (!q.commentReindentCompressed || noNl text) = true) :
    noNl (writeComment q .compressed text b).rev = true := by
  unfold writeComment
  split
  · simpa [Buf.addOne, addStr_rev] using hb
  · simp only [doIndentNoNl_c, Buf.addOne]
    exact noNl_addStr (by decide) (noNl_addStr (commentText_noNl q _ h) (noNl_addStr (by decide) hb))

theorem noNl_writeAtHead (q : WQuirks) (name : Bytes) (args : Option Atom) {b : Buf} (hb : noNl b.rev = true)
    (hn : noNl name = true) (ha : (!q.atArgsRawCompressed || optNoNl args) = true) :
    noNl (writeAtHead q .compressed name args b).rev = true := by
  unfold writeAtHead
  simp only [doIndentNoNl_c]
  have h1 := noNl_addStr hn (noNl_addStr (l := [64]) (by decide) hb)
  cases args with
  | none => exact h1
  | some a => exact noNl_addStr (atArgsText_noNl q (by simpa [optNoNl] using ha)) (noNl_addStr (by decide) h1)

mutual
theorem noNl_writeNode (q : WQuirks) : ∀ (n : Node) (b : Buf), noNl b.rev = true → nodeNoNl q n = true →
    noNl (writeNode q .compressed n b).rev = true
  | .comment text, b, hb, h => by
    simp only [nodeNoNl] at h
    simpa only [writeNode] using noNl_writeComment q text hb h
  | .import_ a, b, hb, h => by
    simp only [nodeNoNl] at h
    simp only [writeNode, doIndentNoNl_c, Buf.addOne]
    exact noNl_addStr (by decide) (noNl_addStr h (noNl_addStr (by decide) hb))
  | .prop name value, b, hb, h => by
    simp only [nodeNoNl] at h
    simp only [writeNode, doIndentNoNl_c, Buf.addOne]
    exact noNl_addStr (by decide) (noNl_addStr (noNl_map_nl _) (noNl_addStr (by decide) (noNl_addStr h hb)))
  | .custom name value quoted, b, hb, h => by
    simp only [nodeNoNl, Bool.and_eq_true] at h
    simp only [writeNode, doIndentNoNl_c, Buf.addOne, Style.isCompressed]
    simp only [Bool.not_true, Bool.and_false, Bool.false_eq_true, if_false]
    exact noNl_addStr (by decide) (noNl_addStr h.2 (noNl_addStr (by decide) (noNl_addStr h.1 hb)))
  | .rule sel body, b, hb, h => by
    simp only [nodeNoNl, Bool.and_eq_true] at h
    simp only [writeNode]
    split
    · exact hb
    · cases sel with
      | none => exact hb
      | some a =>
        simp only [doIndentNoNl_c]
        have h2 : noNl (if (a.get .compressed).isEmpty = true then b.addStr [42]
            else b.addStr (a.get .compressed)).rev = true := by
          split
          · exact noNl_addStr (by decide) hb
          · exact noNl_addStr (by simpa [optNoNl, Atom.get] using h.1) hb
        exact noNl_endBlock (noNl_writeNodes q body _ (noNl_startBlock h2) h.2)
  | .media args body, b, hb, h => by
    simp only [nodeNoNl, Bool.and_eq_true] at h
    simp only [writeNode]
    split
    · exact hb
    · simp only [doIndentNoNl_c]
      have h2 := noNl_addStr (l := args.get .compressed) h.1 (noNl_addStr (l := [64, 109, 101, 100, 105, 97, 32]) (by decide) hb)
      exact noNl_endBlock (noNl_writeNodes q body _ (noNl_startBlock h2) h.2)
  | .atLeaf name args, b, hb, h => by
    simp only [nodeNoNl, Bool.and_eq_true] at h
    simp only [writeNode, Buf.addOne]
    exact noNl_addStr (by decide) (noNl_writeAtHead q name args hb h.1 h.2)
  | .atBlock name args body, b, hb, h => by
    simp only [nodeNoNl, Bool.and_eq_true] at h
    simp only [writeNode]
    have h1 := noNl_writeAtHead q name args hb h.1.1 h.1.2
    cases hsc : singleComment body with
    | some c =>
      simp only []
      have hc : (!q.commentReindentCompressed || noNl c) = true := by
        cases body with
        | nil => simp [singleComment] at hsc
        | cons n ns =>
          cases n <;> cases ns <;> simp [singleComment] at hsc
          subst hsc
          simpa [nodesNoNl, nodeNoNl] using h.2
      simp only [Buf.addOne]
      exact noNl_addStr (by decide) (noNl_popNl (noNl_writeComment q c (noNl_addStr (by decide) h1) hc))
    | none =>
      simp only []
      exact noNl_endBlock (noNl_writeNodes q body _ (noNl_startBlock h1) h.2)
  | .separator, b, hb, _ => by
    simpa only [writeNode, Buf.optNl] using hb
theorem noNl_writeNodes (q : WQuirks) : ∀ (ns : Nodes) (b : Buf), noNl b.rev = true → nodesNoNl q ns = true →
    noNl (writeNodes q .compressed ns b).rev = true
  | .nil, b, hb, _ => hb
  | .cons n ns, b, hb, h => by
    simp only [nodesNoNl, Bool.and_eq_true] at h
    simp only [writeNodes]
    exact noNl_writeNodes q ns _ (noNl_writeNode q n b hb h.1) h.2
end

/-! ### custom-property values exempted (clause 4 says "outside custom-property values") -/

mutual
/-- the tree with every custom-property value blanked: what is left of the output when the
custom-property values are taken out -/
def blankNode : Node → Node
  | .custom name _ quoted => .custom name [] quoted
  | .rule sel body => .rule sel (blankNodes body)
  | .media args body => .media args (blankNodes body)
  | .atBlock name args body => .atBlock name args (blankNodes body)
  | .comment t => .comment t
  | .import_ a => .import_ a
  | .prop n v => .prop n v
  | .atLeaf n a => .atLeaf n a
  | .separator => .separator
def blankNodes : Nodes → Nodes
  | .nil => .nil
  | .cons n ns => .cons (blankNode n) (blankNodes ns)
end

mutual
/-- `nodeNoNl` without any demand on custom-property values -/
def nodeNoNlX (q : WQuirks) : Node → Bool
  | .comment text => !q.commentReindentCompressed || noNl text
  | .import_ a => noNl a.c
  | .prop name _ => noNl name
  | .custom name _ _ => noNl name
  | .rule sel body => optNoNl sel && nodesNoNlX q body
  | .media args body => noNl args.c && nodesNoNlX q body
  | .atLeaf name args => noNl name && (!q.atArgsRawCompressed || optNoNl args)
  | .atBlock name args body => noNl name && (!q.atArgsRawCompressed || optNoNl args) && nodesNoNlX q body
  | .separator => true
def nodesNoNlX (q : WQuirks) : Nodes → Bool
  | .nil => true
  | .cons n ns => nodeNoNlX q n && nodesNoNlX q ns
end

mutual
theorem nodeNoNl_blank (q : WQuirks) : ∀ n : Node, nodeNoNl q (blankNode n) = nodeNoNlX q n
  | .custom name _ quoted => by simp [blankNode, nodeNoNl, nodeNoNlX, noNl]
  | .rule sel body => by simp [blankNode, nodeNoNl, nodeNoNlX, nodesNoNl_blank q body]
  | .media args body => by simp [blankNode, nodeNoNl, nodeNoNlX, nodesNoNl_blank q body]
  | .atBlock name args body => by simp [blankNode, nodeNoNl, nodeNoNlX, nodesNoNl_blank q body]
  | .comment t => by simp [blankNode, nodeNoNl, nodeNoNlX]
  | .import_ a => by simp [blankNode, nodeNoNl, nodeNoNlX]
  | .prop n v => by simp [blankNode, nodeNoNl, nodeNoNlX]
  | .atLeaf n a => by simp [blankNode, nodeNoNl, nodeNoNlX]
  | .separator => by simp [blankNode, nodeNoNl, nodeNoNlX]
theorem nodesNoNl_blank (q : WQuirks) : ∀ ns : Nodes, nodesNoNl q (blankNodes ns) = nodesNoNlX q ns
  | .nil => by simp [blankNodes, nodesNoNl, nodesNoNlX]
  | .cons n ns => by simp [blankNodes, nodesNoNl, nodesNoNlX, nodeNoNl_blank q n, nodesNoNl_blank q ns]
end

theorem isImport_blank (n : Node) : isImport (blankNode n) = isImport n := by
  cases n <;> simp [blankNode, isImport]

theorem ofList_map_blank (l : List Node) : Nodes.ofList (l.map blankNode) = blankNodes (Nodes.ofList l) := by
  induction l with
  | nil => simp [Nodes.ofList, blankNodes]
  | cons n l ih => simp [Nodes.ofList, blankNodes, ih]

theorem filter_map_blank (p : Node → Bool) (hp : ∀ n, p (blankNode n) = p n) (l : List Node) :
    (l.map blankNode).filter p = (l.filter p).map blankNode := by
  induction l with
  | nil => rfl
  | cons n l ih =>
    simp only [List.map_cons, List.filter_cons, hp n]
    split <;> simp [ih]

theorem hoist_map_blank (l : List Node) : hoistImports (l.map blankNode) = (hoistImports l).map blankNode := by
  unfold hoistImports
  rw [filter_map_blank _ isImport_blank, filter_map_blank _ (fun n => by rw [isImport_blank]), List.map_append]

end Writer
