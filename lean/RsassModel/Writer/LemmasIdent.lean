/-
Writer family (C09) — whole identifiers: the escape normaliser applied to every code point of
an identifier written with escapes, and the re-reading of the result (proof-only file).
-/
import RsassModel.Writer.Ident
namespace Writer.Ident

/-- an identifier all of whose code points are written as escapes, as the reader writes it back:
`normalized_first_escaped_char` for the first, `normalized_escaped_char` for the others -/
def normIdent : List Nat → List Out
  | [] => []
  | c :: rest => normFirst thrCode c :: rest.map (normRest thrCode)

def rereadRest : List Out → Option (List Out)
  | [] => some []
  | o :: r => match reread thrCode false o, rereadRest r with
    | some a, some b => some (a :: b)
    | _, _ => none

/-- reading a written identifier back, piece by piece -/
def rereadIdent : List Out → Option (List Out)
  | [] => some []
  | o :: r => match reread thrCode true o, rereadRest r with
    | some a, some b => some (a :: b)
    | _, _ => none

theorem rereadRest_norm (h : ∀ c, reread thrCode false (normRest thrCode c) = some (normRest thrCode c))
    (cs : List Nat) : rereadRest (cs.map (normRest thrCode)) = some (cs.map (normRest thrCode)) := by
  induction cs with
  | nil => rfl
  | cons c cs ih => simp [rereadRest, h c, ih]

end Writer.Ident
