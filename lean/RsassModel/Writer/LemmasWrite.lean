/-
Writer family (C07) — the balance invariant through the `write` functions, by mutual
structural recursion over the tree.
-/
import RsassModel.Writer.LemmasBalance
namespace Writer

theorem cmtOk_scan {a : Bytes} (ha : cmtOk a = true) :
    ∃ m, (m = Mode.cmt ∨ m = Mode.cmtStar) ∧ scanFrom ⟨.cmt, [], true⟩ a = ⟨m, [], true⟩ := by
  unfold cmtOk at ha
  generalize scanFrom ⟨.cmt, [], true⟩ a = s at ha
  obtain ⟨m, stk, ok⟩ := s
  simp at ha
  obtain ⟨⟨h1, h2⟩, h3⟩ := ha
  subst h2; subst h3
  exact ⟨m, h1, rfl⟩

theorem addOne_indent (b : Buf) (s : Style) (n c : Bytes) : (b.addOne s n c).indent = b.indent := by
  cases s <;> rfl

theorem bnd_addOne_neutral {st} {b : Buf} (s : Style) {n c : Bytes} (hn : Neutral n) (hc : Neutral c)
    (hne : c.getLast? ≠ some 10) (hc0 : c ≠ []) (h : Nrm st b.rev) : Bnd s st (b.addOne s n c).rev := by
  cases s
  · exact ⟨nrm0_addStr_neutral hn h, by intro h; cases h⟩
  · refine ⟨nrm0_addStr_neutral hc h, ?_⟩
    intro _
    simp only [Buf.addOne, addStr_rev]
    cases hcr : c.reverse with
    | nil => simp at hcr; exact absurd hcr hc0
    | cons x r =>
      have : c.getLast? = some x := by
        rw [← List.head?_reverse, hcr]; rfl
      simp; intro hx; subst hx; exact hne this

theorem bnd_semi {st} {b : Buf} (s : Style) (h : Nrm st b.rev) :
    Bnd s st (b.addOne s [59, 10] [59]).rev :=
  bnd_addOne_neutral s neutral_semi_nl neutral_semi (by decide) (by decide) h

theorem closeComment_bnd (s : Style) {st} {b3 : Buf} {m : Mode} (hm : m = Mode.cmt ∨ m = Mode.cmtStar)
    (h3 : scanR b3.rev = ⟨m, st, true⟩) : Bnd s st (b3.addOne s [42, 47, 10] [42, 47]).rev := by
  cases s
  · refine ⟨?_, by intro h; cases h⟩
    simp only [Nrm0, Buf.addOne, addStr_rev, scanR_append, h3]
    rcases hm with rfl | rfl <;> rfl
  · refine ⟨?_, by intro _; simp [Buf.addOne, addStr_rev]⟩
    simp only [Nrm0, Buf.addOne, addStr_rev, scanR_append, h3]
    rcases hm with rfl | rfl <;> rfl

theorem writeComment_bnd (q : WQuirks) (s : Style) (text : Bytes) {st} {b : Buf}
    (h : Bnd s st b.rev)
    (hok : (skipComment text || cmtOk (commentText q s b.indent text)) = true) :
    Bnd s st (writeComment q s text b).rev ∧ (writeComment q s text b).indent = b.indent := by
  unfold writeComment
  split
  · refine ⟨?_, addOne_indent _ _ _ _⟩
    cases s
    · exact ⟨nrm0_addStr_neutral neutral_nl h.1.nrm, by intro h; cases h⟩
    · simpa [Buf.addOne, Bnd, Nrm0, addStr_rev] using h
  · next hne =>
    simp only [hne, Bool.false_or] at hok
    obtain ⟨m, hm, hscan⟩ := cmtOk_scan hok
    refine ⟨?_, by simp [addOne_indent, addStr_indent, doIndentNoNl_indent]⟩
    have h1 := doIndentNoNl_nrm0 s h.1
    have h2 : scanR ((b.doIndentNoNl s).addStr [47, 42]).rev = ⟨.cmt, st, true⟩ := by
      rw [addStr_rev, scanR_append, h1]; rfl
    have hf := scanFrom_frame .cmt m [] [] st _ hscan
    simp only [List.nil_append] at hf
    have h3 : scanR (((b.doIndentNoNl s).addStr [47, 42]).addStr (commentText q s b.indent text)).rev
        = ⟨m, st, true⟩ := by
      rw [addStr_rev, scanR_append, h2, hf]
    exact closeComment_bnd s hm h3

theorem atArgs_ok (q : WQuirks) (s : Style) {a : Atom} (h : atomOk (a.get s) = true) :
    atomOk (atArgsText q s a) = true := by
  unfold atArgsText
  split
  · exact atomOk_map_nl h
  · exact h

theorem writeAtHead_nrm (q : WQuirks) (s : Style) (name : Bytes) (args : Option Atom) {st} {b : Buf}
    (h : Bnd s st b.rev) (hn : atomOk name = true) (ha : optAtomOk s args = true) :
    Nrm st (writeAtHead q s name args b).rev ∧ (writeAtHead q s name args b).indent = b.indent := by
  unfold writeAtHead
  have h1 := doIndentNoNl_nrm0 s h.1
  have h2 := nrm0_addStr_neutral neutral_at h1.nrm
  have h3 := nrm_addStr_atom hn h2
  cases args with
  | none => exact ⟨h3, by simp [addStr_indent, doIndentNoNl_indent]⟩
  | some a =>
    have h4 := nrm0_addStr_neutral neutral_sp h3
    have h5 := nrm_addStr_atom (atArgs_ok q s (by simpa [optAtomOk] using ha)) h4
    exact ⟨h5, by simp [addStr_indent, doIndentNoNl_indent]⟩

theorem block_bnd (q : WQuirks) (s : Style) (body : Nodes) {st} {b2 : Buf} (h2 : Nrm st b2.rev)
    (ih : ∀ (b : Buf) (st : List Br), Bnd s st b.rev → nodesOk q s b.indent body = true →
      Bnd s st (writeNodes q s body b).rev ∧ (writeNodes q s body b).indent = b.indent)
    (hok : nodesOk q s (b2.indent + 2) body = true) :
    Bnd s st ((writeNodes q s body (b2.startBlock s)).endBlock s).rev ∧
      ((writeNodes q s body (b2.startBlock s)).endBlock s).indent = b2.indent := by
  obtain ⟨hb, hi⟩ := startBlock_bnd s h2
  obtain ⟨hw, hwi⟩ := ih (b2.startBlock s) (.brace :: st) hb (by rw [hi]; exact hok)
  obtain ⟨he, hei⟩ := endBlock_bnd s hw
  exact ⟨he, by rw [hei, hwi, hi]; omega⟩

theorem openInline_bnd (s : Style) {st} {b : Buf} (h : Nrm st b.rev) :
    Bnd s (.brace :: st) (b.addOne s [32, 123, 32] [123]).rev := by
  obtain ⟨p, hp⟩ := h
  cases s
  · refine ⟨?_, by intro h; cases h⟩
    simp only [Nrm0, Buf.addOne, addStr_rev, scanR_append, hp]; cases p <;> rfl
  · refine ⟨?_, by intro _; simp [Buf.addOne, addStr_rev]⟩
    simp only [Nrm0, Buf.addOne, addStr_rev, scanR_append, hp]; cases p <;> rfl

theorem closeInline_bnd (s : Style) {st} {b : Buf} (h : Nrm (.brace :: st) b.rev) :
    Bnd s st (b.addOne s [32, 125, 10] [125]).rev := by
  obtain ⟨p, hp⟩ := h
  cases s
  · refine ⟨?_, by intro h; cases h⟩
    simp only [Nrm0, Buf.addOne, addStr_rev, scanR_append, hp]; cases p <;> rfl
  · refine ⟨?_, by intro _; simp [Buf.addOne, addStr_rev]⟩
    simp only [Nrm0, Buf.addOne, addStr_rev, scanR_append, hp]; cases p <;> rfl

theorem optNl_bnd (s : Style) {st} {b : Buf} (h : Bnd s st b.rev) :
    Bnd s st (b.optNl s).rev ∧ (b.optNl s).indent = b.indent := by
  unfold Buf.optNl
  split
  · exact ⟨h, rfl⟩
  · exact ⟨h, rfl⟩
  · exact ⟨h, rfl⟩
  · exact ⟨⟨nrm0_addStr_neutral neutral_nl h.1.nrm, by intro h; cases h⟩, rfl⟩

mutual
theorem writeNode_bnd (q : WQuirks) (s : Style) : ∀ (n : Node) (b : Buf) (st : List Br),
    Bnd s st b.rev → nodeOk q s b.indent n = true →
    Bnd s st (writeNode q s n b).rev ∧ (writeNode q s n b).indent = b.indent
  | .comment text, b, st, h, hok => by
    simp only [nodeOk] at hok
    simpa only [writeNode] using writeComment_bnd q s text h hok
  | .import_ a, b, st, h, hok => by
    simp only [nodeOk] at hok
    simp only [writeNode]
    have h1 := doIndentNoNl_nrm0 s h.1
    have h2 := nrm0_addStr_neutral neutral_import h1.nrm
    have h3 := nrm_addStr_atom hok h2
    exact ⟨bnd_semi s h3, by simp [addOne_indent, addStr_indent, doIndentNoNl_indent]⟩
  | .prop name value, b, st, h, hok => by
    simp only [nodeOk, Bool.and_eq_true] at hok
    simp only [writeNode]
    have h1 := doIndentNoNl_nrm0 s h.1
    have h2 := nrm_addStr_atom hok.1 h1
    have h3 : Nrm0 st (((b.doIndentNoNl s).addStr name).addOne s [58, 32] [58]).rev := by
      cases s
      · exact nrm0_addStr_neutral neutral_colon_sp h2
      · exact nrm0_addStr_neutral neutral_colon h2
    have h4 := nrm_addStr_atom (atomOk_map_nl hok.2) h3
    exact ⟨bnd_semi s h4, by simp [addOne_indent, addStr_indent, doIndentNoNl_indent]⟩
  | .custom name value quoted, b, st, h, hok => by
    simp only [nodeOk, Bool.and_eq_true] at hok
    simp only [writeNode]
    have h1 := doIndentNoNl_nrm0 s h.1
    have h2 := nrm_addStr_atom hok.1 h1
    have h3 := nrm0_addStr_neutral neutral_colon h2
    split
    · have h4 := nrm0_addStr_neutral neutral_sp h3.nrm
      have h5 := nrm_addStr_atom hok.2 h4
      exact ⟨bnd_semi s h5, by simp [addOne_indent, addStr_indent, doIndentNoNl_indent]⟩
    · have h5 := nrm_addStr_atom hok.2 h3
      exact ⟨bnd_semi s h5, by simp [addOne_indent, addStr_indent, doIndentNoNl_indent]⟩
  | .rule sel body, b, st, h, hok => by
    simp only [writeNode]
    split
    · exact ⟨h, rfl⟩
    · next hne =>
      cases sel with
      | none => exact ⟨h, rfl⟩
      | some a =>
        simp only [nodeOk, hne, Option.isNone_some, Bool.false_or, Bool.and_eq_true, optAtomOk] at hok
        have h1 := doIndentNoNl_nrm0 s h.1
        have h2 : Nrm st (if (a.get s).isEmpty = true then (b.doIndentNoNl s).addStr [42]
            else (b.doIndentNoNl s).addStr (a.get s)).rev := by
          split
          · exact ⟨.none, by rw [addStr_rev, scanR_append, h1]; rfl⟩
          · exact nrm_addStr_atom hok.1 h1
        have hi2 : (if (a.get s).isEmpty = true then (b.doIndentNoNl s).addStr [42]
            else (b.doIndentNoNl s).addStr (a.get s)).indent = b.indent := by
          split <;> simp [addStr_indent, doIndentNoNl_indent]
        have := block_bnd q s body h2 (fun b st => writeNodes_bnd q s body b st) (by rw [hi2]; exact hok.2)
        exact ⟨this.1, by rw [this.2, hi2]⟩
  | .media args body, b, st, h, hok => by
    simp only [writeNode]
    split
    · exact ⟨h, rfl⟩
    · next hne =>
      simp only [nodeOk, hne, Bool.false_or, Bool.and_eq_true] at hok
      have h1 := doIndentNoNl_nrm0 s h.1
      have h2 := nrm0_addStr_neutral neutral_media h1.nrm
      have h3 := nrm_addStr_atom hok.1 h2
      have hi : (((b.doIndentNoNl s).addStr [64, 109, 101, 100, 105, 97, 32]).addStr (args.get s)).indent
          = b.indent := by simp [addStr_indent, doIndentNoNl_indent]
      have := block_bnd q s body h3 (fun b st => writeNodes_bnd q s body b st) (by rw [hi]; exact hok.2)
      exact ⟨this.1, by rw [this.2, hi]⟩
  | .atLeaf name args, b, st, h, hok => by
    simp only [nodeOk, Bool.and_eq_true] at hok
    simp only [writeNode]
    have h1 := writeAtHead_nrm q s name args h hok.1 hok.2
    exact ⟨bnd_semi s h1.1, by rw [addOne_indent, h1.2]⟩
  | .atBlock name args body, b, st, h, hok => by
    simp only [nodeOk, Bool.and_eq_true] at hok
    simp only [writeNode]
    have h1 := writeAtHead_nrm q s name args h hok.1.1 hok.1.2
    cases hsc : singleComment body with
    | some c =>
      simp only [hsc] at hok ⊢
      have h2 := openInline_bnd s h1.1
      have h3 := writeComment_bnd q s c h2 (by rw [addOne_indent, h1.2]; exact hok.2)
      have h4 := popNl_nrm h3.1.1
      exact ⟨closeInline_bnd s h4, by rw [addOne_indent, popNl_indent, h3.2, addOne_indent, h1.2]⟩
    | none =>
      simp only [hsc] at hok ⊢
      have := block_bnd q s body h1.1 (fun b st => writeNodes_bnd q s body b st) (by rw [h1.2]; exact hok.2)
      exact ⟨this.1, by rw [this.2, h1.2]⟩
  | .separator, b, st, h, hok => by
    simpa only [writeNode] using optNl_bnd s h
theorem writeNodes_bnd (q : WQuirks) (s : Style) : ∀ (ns : Nodes) (b : Buf) (st : List Br),
    Bnd s st b.rev → nodesOk q s b.indent ns = true →
    Bnd s st (writeNodes q s ns b).rev ∧ (writeNodes q s ns b).indent = b.indent
  | .nil, b, st, h, _ => ⟨h, rfl⟩
  | .cons n ns, b, st, h, hok => by
    simp only [nodesOk, Bool.and_eq_true] at hok
    simp only [writeNodes]
    have h1 := writeNode_bnd q s n b st h hok.1
    have h2 := writeNodes_bnd q s ns (writeNode q s n b) st h1.1 (by rw [h1.2]; exact hok.2)
    exact ⟨h2.1, by rw [h2.2, h1.2]⟩
end

end Writer
