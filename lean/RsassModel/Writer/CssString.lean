/-
Writer family (C09) — `impl Display for CssString` (rsass/src/css/string.rs) and the string
reader of the plain-CSS parser (rsass/src/parser/css/strings.rs `css_string_dq`,
`normalized_escaped_char_q`, `hex_number`), on the level of *escape tokens*: an escape is one
token carrying its code point and whether a terminating space was written; the hexadecimal
digits themselves are produced/consumed in the driver and tied by the correspondence run.
(Own copy for the writer family; the Str/* family models string escaping for C27 separately.)
Import-free model file.
-/
namespace Writer.Str

structure SQuirks where
  /-- (repaired by 46a3464) css/string.rs Display: a private-use escape `\e000` was not
  terminated when a hex digit, space or tab follows. -/
  escapeUnterminated : Bool := false
  /-- (repaired by 60db3d6) parser/css/strings.rs `css_string_dq`/`css_string_sq`: `is_not("\"")` is the first
  alternative and consumes backslashes, so `\"` and hex escapes are never decoded: an escaped
  quote ends the string (parse error), an escape is kept as raw text. -/
  readerIgnoresEscapes : Bool := false
  deriving DecidableEq, Repr

def SQuirks.spec : SQuirks := {}
/-- the code as it is (since 60db3d6) -/
def SQuirks.asis : SQuirks := {}
/-- the code between 46a3464 and 60db3d6 -/
def SQuirks.r1 : SQuirks := { readerIgnoresEscapes := true }
/-- the code before 46a3464 -/
def SQuirks.old : SQuirks := { escapeUnterminated := true, readerIgnoresEscapes := true }

inductive Tok
  /-- a character written as itself -/
  | ch (c : Nat)
  /-- `\"` (the quote character escaped) -/
  | bsq
  /-- `\` + hex digits of `c` (+ one space when `sp`) -/
  | esc (c : Nat) (sp : Bool)
  deriving DecidableEq, Repr

def isHexDigit (c : Nat) : Bool :=
  (48 ≤ c && c ≤ 57) || (97 ≤ c && c ≤ 102) || (65 ≤ c && c ≤ 70)

def hexVal (c : Nat) : Nat :=
  if c ≤ 57 then c - 48 else if c ≤ 70 then c - 55 else c - 87

/-- `is_private_use` -/
def isPrivateUse (c : Nat) : Bool :=
  (0xE000 ≤ c && c ≤ 0xF8FF) || (0xF0000 ≤ c && c ≤ 0xFFFFD) || (0x100000 ≤ c && c ≤ 0x10FFFD)

/-- would the next character be read as part of a preceding escape? -/
def needsTerm : List Nat → Bool
  | [] => false
  | n :: _ => isHexDigit n || n = 32 || n = 9

/-- `Display for CssString` with `Quotes::Double`, the part between the quotes -/
def showQ (q : SQuirks) : List Nat → List Tok
  | [] => []
  | c :: rest =>
    if c = 34 then .bsq :: showQ q rest
    else if isPrivateUse c then .esc c (needsTerm rest && !q.escapeUnterminated) :: showQ q rest
    else .ch c :: showQ q rest

/-- CSS reading of the content of a quoted string (what the property demands of the reader):
`pend` is an escape whose hex digits may still continue. -/
def readAux : Option Nat → List Tok → List Nat
  | none, [] => []
  | some c, [] => [c]
  | none, .ch d :: r => d :: readAux none r
  | none, .bsq :: r => 34 :: readAux none r
  | none, .esc c sp :: r => if sp then c :: readAux none r else readAux (some c) r
  | some c, .ch d :: r =>
    if isHexDigit d then readAux (some (c * 16 + hexVal d)) r
    else if d = 32 || d = 9 then c :: readAux none r
    else c :: d :: readAux none r
  | some c, .bsq :: r => c :: 34 :: readAux none r
  | some c, .esc c2 sp :: r => if sp then c :: c2 :: readAux none r else c :: readAux (some c2) r

def readQ (toks : List Tok) : List Nat := readAux none toks

/-- the reader as it is: escapes are not decoded — an escaped quote ends the string early
(the rest is a parse error), other tokens are kept as their raw text -/
def readRaw (q : SQuirks) (toks : List Tok) : Option (List Tok) :=
  if q.readerIgnoresEscapes then (if toks.contains .bsq then none else some toks)
  else some toks

end Writer.Str
