/-
Writer family (C07/C08/C09) — the CSS output buffer.
Mirrors rsass/src/output/cssbuf.rs (`CssBuf`) and `Format::get_indent`
(rsass/src/output/format.rs).  Import-free model file.

The buffer is kept **reversed** (`rev`: last byte first): every style-dependent decision of
`CssBuf` looks at the *end* of the buffer (`last()`, `pop()`, `ends_with("\n\n")`), so the
reversed list makes those operations `head?`/`tail` and the proofs structural.
`Buf.bytes` gives the bytes in output order.
-/
namespace Writer

abbrev Bytes := List UInt8

inductive Style | expanded | compressed
  deriving DecidableEq, Repr

def Style.isCompressed : Style → Bool
  | .compressed => true
  | .expanded => false

/-- An atom (selector text, value text, at-rule arguments …) is opaque to the writer; it
comes with the text `Display` produces in each style. -/
structure Atom where
  e : Bytes
  c : Bytes
  deriving DecidableEq, Repr

def Atom.get (a : Atom) : Style → Bytes
  | .expanded => a.e
  | .compressed => a.c

structure Buf where
  rev : Bytes
  indent : Nat
  deriving DecidableEq, Repr

def Buf.empty : Buf := ⟨[], 0⟩

/-- `CssBuf::take` -/
def Buf.bytes (b : Buf) : Bytes := b.rev.reverse

/-- `CssBuf::add_str` -/
def Buf.addStr (b : Buf) (s : Bytes) : Buf := { b with rev := s.reverse ++ b.rev }

/-- `CssBuf::add_one(normal, compressed)` -/
def Buf.addOne (b : Buf) (s : Style) (normal compressed : Bytes) : Buf :=
  b.addStr (match s with | .compressed => compressed | .expanded => normal)

/-- the preallocated `INDENT` constant of `Format::get_indent`: a newline and 80 spaces -/
def indentTable : Bytes := 10 :: List.replicate 80 32

/-- `Format::get_indent(len)`, branch by branch: compressed → `""` (before anything else, so in
*every* case); else the slice `INDENT[..=len]` when `len` is within the 80 preallocated columns;
else (0a71721) the string is built: a newline and `len` spaces. -/
def getIndent (s : Style) (len : Nat) : Bytes :=
  if s.isCompressed then []
  else if len + 1 ≤ indentTable.length then indentTable.take (len + 1)
  else 10 :: List.replicate len 32

theorem getIndent_compressed (len : Nat) : getIndent .compressed len = [] := rfl

/-- both expanded branches give a newline followed by `len` spaces -/
theorem getIndent_expanded (len : Nat) : getIndent .expanded len = 10 :: List.replicate len 32 := by
  unfold getIndent indentTable
  simp only [Style.isCompressed, Bool.false_eq_true, if_false, List.length_cons, List.length_replicate]
  split
  · next h =>
    rw [List.take_succ_cons, List.take_replicate]
    congr 2; omega
  · rfl

/-- `CssBuf::do_indent` -/
def Buf.doIndent (b : Buf) (s : Style) : Buf := b.addStr (getIndent s b.indent)

/-- `CssBuf::do_indent_no_nl` -/
def Buf.doIndentNoNl (b : Buf) (s : Style) : Buf :=
  let stuff := getIndent s b.indent
  if stuff.length > 1 then b.addStr stuff.tail else b

/-- `CssBuf::pop_nl` -/
def Buf.popNl (b : Buf) : Buf :=
  match b.rev with
  | 10 :: r => { b with rev := r }
  | _ => b

/-- the `if compressed && last == ';' { pop }` of `end_block` (and of `into_buffer`) -/
def popSemi (s : Style) (rev : Bytes) : Bytes :=
  match s, rev with
  | .compressed, 59 :: r => r
  | _, r => r

/-- `CssBuf::start_block` -/
def Buf.startBlock (b : Buf) (s : Style) : Buf :=
  let b := b.addOne s [32, 123, 10] [123]      -- " {\n" | "{"
  { b with indent := b.indent + 2 }

/-- `CssBuf::end_block` -/
def Buf.endBlock (b : Buf) (s : Style) : Buf :=
  let b := b.popNl
  let b := { b with rev := popSemi s b.rev }
  let b := { b with indent := b.indent - 2 }
  let b := if b.rev.head? ≠ some 123 then b.doIndent s else b
  b.addOne s [125, 10] [125]                   -- "}\n" | "}"

/-- `CssBuf::opt_nl` -/
def Buf.optNl (b : Buf) (s : Style) : Buf :=
  match s, b.rev with
  | .compressed, _ => b
  | .expanded, [] => b
  | .expanded, 10 :: 10 :: _ => b
  | .expanded, _ => b.addStr [10]

end Writer
