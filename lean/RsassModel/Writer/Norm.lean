/-
Writer family (C08) — the normalisation under which the two output styles are compared in
the writer theorem: the encoding mark is removed, every white-space byte is removed, and a
`;` that is followed by `}` or by the end of the output is removed.
(This is coarser than the tokenizer of the property's oracle in props/C08.py in one respect:
white space is dropped everywhere, also between two words. It keeps `;` between declarations,
every brace, and every other byte.)  Import-free model file.
-/
import RsassModel.Writer.Tree
namespace Writer

def isWs (x : UInt8) : Bool := x = 32 || x = 10 || x = 9 || x = 13 || x = 12

/-- remove white space -/
def F (r : Bytes) : Bytes := r.filter fun x => !isWs x

/-- On a reversed white-space-free buffer: drop each `;` that (in output order) is followed
by `}` — `afterBrace` says that the bytes seen so far (i.e. those that follow in output order)
begin with `}` or are the end of the output. -/
def dsbAux : Bool → Bytes → Bytes
  | _, [] => []
  | afterBrace, x :: r =>
    if x = 125 then 125 :: dsbAux true r
    else if x = 59 && afterBrace then dsbAux true r
    else x :: dsbAux false r

/-- normal form of a reversed buffer (trailing `;` kept) -/
def D (rev : Bytes) : Bytes := dsbAux false (F rev)
/-- normal form of a reversed complete output (trailing `;` dropped) -/
def NR (rev : Bytes) : Bytes := dsbAux true (F rev)

def bom : Bytes := [0xEF, 0xBB, 0xBF]

/-- remove the byte-order mark, or the `@charset "UTF-8";\n` line of a non-ASCII output -/
def stripMark (out : Bytes) : Bytes :=
  if bom.isPrefixOf out then out.drop 3
  else if !isAscii out && (mark .expanded).isPrefixOf out then out.drop (mark .expanded).length
  else out

/-- the normalisation, on bytes in output order -/
def norm (out : Bytes) : Bytes := (NR (stripMark out).reverse).reverse

/-- two texts of an atom are equal up to white space (and empty together) -/
def atomEq (a : Atom) : Bool := F a.e == F a.c && (a.e.isEmpty == a.c.isEmpty)

def optAtomEq : Option Atom → Bool
  | none => true
  | some a => atomEq a

mutual
def nodeEq : Node → Bool
  | .comment _ => true
  | .import_ a => atomEq a
  | .prop _ value => atomEq value
  | .custom _ _ _ => true
  | .rule sel body => optAtomEq sel && nodesEq body
  | .media args body => atomEq args && nodesEq body
  | .atLeaf _ args => optAtomEq args
  | .atBlock _ args body => optAtomEq args && nodesEq body
  | .separator => true
def nodesEq : Nodes → Bool
  | .nil => true
  | .cons n ns => nodeEq n && nodesEq ns
end

end Writer
