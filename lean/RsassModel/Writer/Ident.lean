/-
Writer family (C09) — the identifier escape normaliser of the two readers:
rsass/src/parser/strings.rs (scss source) and rsass/src/parser/css/strings.rs (plain css)
`normalized_first_escaped_char` / `normalized_escaped_char`, and `selector_plain_part`.
An escaped code point is written back raw, as `\c`, or as `\{hex} `; which one depends on
character classes.  Below the threshold `0xa1` the Unicode predicates the Rust uses
(`is_alphabetic`, `is_numeric`, `is_control`) are ASCII letters / ASCII digits /
U+0000–U+001F ∪ U+007F–U+009F, and from the threshold on the result is raw whatever they say,
so the model is exact for every code point.  Import-free model file.
-/
namespace Writer.Ident

/-- how the reader writes an escaped code point back -/
inductive Out
  | raw (c : Nat)      -- the character itself
  | bs (c : Nat)       -- `\c`
  | hex (c : Nat)      -- `\{c:x} `
  deriving DecidableEq, Repr

def isAlpha (c : Nat) : Bool := (65 ≤ c && c ≤ 90) || (97 ≤ c && c ≤ 122)
def isDigit (c : Nat) : Bool := 48 ≤ c && c ≤ 57
/-- `char::is_control` (general category Cc) -/
def isControl (c : Nat) : Bool := c ≤ 31 || (127 ≤ c && c ≤ 159)

/-- `normalized_first_escaped_char` with the threshold `thr` (the code: `0xa1` in both readers) -/
def normFirst (thr c : Nat) : Out :=
  if isAlpha c || c ≥ thr then .raw c
  else if !isControl c && !isDigit c && c ≠ 10 && c ≠ 9 then .bs c
  else .hex c

/-- `normalized_escaped_char` -/
def normRest (thr c : Nat) : Out :=
  if isAlpha c || isDigit c || c = 45 || c ≥ thr then .raw c
  else if !isControl c && c ≠ 10 && c ≠ 9 then .bs c
  else .hex c

/-- the threshold of both readers -/
def thrCode : Nat := 0xa1

def isHexDigit (c : Nat) : Bool := isDigit c || (97 ≤ c && c ≤ 102) || (65 ≤ c && c ≤ 70)

/-- Reading back what was written, at the same position: a raw character is an identifier
character (`selector_plain_part`: alphanumeric, `-`, `_`, non-ASCII) and stays; `\c` (c not a hex
digit) and `\{hex} ` are escapes of `c` and are normalised again.  `none`: not readable as part
of an identifier. -/
def reread (thr : Nat) (first : Bool) : Out → Option Out
  | .raw c =>
    if isAlpha c || c ≥ 128 || ((isDigit c || c = 45) && !first) then some (.raw c) else none
  | .bs c => if isHexDigit c then none else some (if first then normFirst thr c else normRest thr c)
  | .hex c => some (if first then normFirst thr c else normRest thr c)

end Writer.Ident
