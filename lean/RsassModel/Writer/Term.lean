/- Writer family — parser of the tree term used on the protocol (shared by the C07/C08/C09 drivers).
   tree := node* ; node := C x<hex> | I x<e> x<c> | P x<name> x<e> x<c> | V x<name> x<val> <0|1>
         | R (- | x<e> x<c>) ( node* ) | M x<e> x<c> ( node* ) | L x<name> (- | x<e> x<c>)
         | B x<name> (- | x<e> x<c>) ( node* ) | S          (tokens separated by one space) -/
import RsassModel.Basic.Proto
import RsassModel.Writer.Scan
namespace Writer.Term
open Writer


def unx (t : String) : Option Bytes :=
  match t.toList with
  | 'x' :: h => some (Proto.bytesOfHex (String.ofList h)).toList
  | _ => none

def optAtom : List String → Option (Option Atom × List String)
  | "-" :: r => some (none, r)
  | a :: b :: r => match unx a, unx b with
    | some a, some b => some (some ⟨a, b⟩, r)
    | _, _ => none
  | _ => none

mutual
def parseNode : Nat → List String → Option (Node × List String)
  | 0, _ => none
  | fuel + 1, toks =>
    match toks with
    | "S" :: r => some (.separator, r)
    | "C" :: t :: r => (unx t).map fun b => (.comment b, r)
    | "I" :: a :: b :: r => match unx a, unx b with
      | some a, some b => some (.import_ ⟨a, b⟩, r)
      | _, _ => none
    | "P" :: n :: a :: b :: r => match unx n, unx a, unx b with
      | some n, some a, some b => some (.prop n ⟨a, b⟩, r)
      | _, _, _ => none
    | "V" :: n :: v :: qd :: r => match unx n, unx v with
      | some n, some v => some (.custom n v (qd == "1"), r)
      | _, _ => none
    | "R" :: r => match optAtom r with
      | some (sel, "(" :: r) => match parseNodes fuel r with
        | some (body, r) => some (.rule sel body, r)
        | none => none
      | _ => none
    | "M" :: a :: b :: "(" :: r => match unx a, unx b, parseNodes fuel r with
      | some a, some b, some (body, r) => some (.media ⟨a, b⟩ body, r)
      | _, _, _ => none
    | "L" :: n :: r => match unx n, optAtom r with
      | some n, some (args, r) => some (.atLeaf n args, r)
      | _, _ => none
    | "B" :: n :: r => match unx n, optAtom r with
      | some n, some (args, "(" :: r) => match parseNodes fuel r with
        | some (body, r) => some (.atBlock n args body, r)
        | none => none
      | _, _ => none
    | _ => none
def parseNodes : Nat → List String → Option (Nodes × List String)
  | 0, _ => none
  | fuel + 1, toks =>
    match toks with
    | ")" :: r => some (.nil, r)
    | toks => match parseNode fuel toks with
      | some (n, r) => match parseNodes fuel r with
        | some (ns, r) => some (.cons n ns, r)
        | none => none
      | none => none
end

def parseTop (toks : List String) : Option (List Node) :=
  match parseNodes (2 * toks.length + 4) (toks ++ [")"]) with
  | some (ns, []) => some ns.toList
  | _ => none


def quirksOf (qs : List String) : WQuirks :=
  { commentReindentCompressed := qs.contains "commentReindentCompressed"
    atArgsRawCompressed := qs.contains "atArgsRawCompressed"
    atomsUnchecked := qs.contains "atomsUnchecked" }

def parseTree (tree : String) : Option (List Node) :=
  parseTop ((tree.splitOn " ").filter (· ≠ ""))

end Writer.Term
