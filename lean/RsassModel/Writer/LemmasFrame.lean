/-
Writer family (C07) — lemmas about `frame` (the tail of `CssData::into_buffer`).
-/
import RsassModel.Writer.LemmasWrite
namespace Writer

/-- normal-or-escape mode with stack `st`: closed under popping bytes of class `other` -/
def NrmE (st : List Br) (r : Bytes) : Prop :=
  ∃ m, m.normalOrEsc = true ∧ scanR r = ⟨m, st, true⟩

theorem Nrm.nrmE {st r} (h : Nrm st r) : NrmE st r := by
  obtain ⟨p, hp⟩ := h; exact ⟨_, rfl, hp⟩

theorem nrmE_tail {st} {x : UInt8} {r : Bytes} (hx : cls x = .other) (h : NrmE st (x :: r)) :
    NrmE st r := by
  obtain ⟨m, hm, hs⟩ := h
  simp only [scanR] at hs
  obtain ⟨m', hm', hs'⟩ := step_other_inv_weak _ x hx m st hm hs
  exact ⟨m', hm', hs'⟩

theorem nrmE_dropNl {st} {r : Bytes} (h : NrmE st r) : NrmE st (r.dropWhile (· = 10)) := by
  induction r with
  | nil => exact h
  | cons x r ih =>
    simp only [List.dropWhile]
    split
    · next hx => simp at hx; subst hx; exact ih (nrmE_tail cls_nl h)
    · exact h

theorem nrmE_popSemi {st} {r : Bytes} (s : Style) (h : NrmE st r) : NrmE st (popSemi s r) := by
  unfold popSemi
  split
  · exact nrmE_tail cls_semi h
  · exact h

theorem scanR_mark (s : Style) : scanR (mark s).reverse = St.init := by
  cases s <;> rfl

theorem nrmE_mark {st} {r : Bytes} (s : Style) (h : NrmE st r) : NrmE st (r ++ (mark s).reverse) := by
  obtain ⟨m, hm, hs⟩ := h
  refine ⟨m, hm, ?_⟩
  rw [scanR_append', scanR_mark, ← scanR_eq, hs]

theorem frame_balanced {r : Bytes} (s : Style) (h : Nrm [] r) : balanced (frame s r) = true := by
  unfold frame
  simp only []
  have h0 : NrmE [] (if isAscii r = true then r else r ++ (mark s).reverse) := by
    split
    · exact h.nrmE
    · exact nrmE_mark s h.nrmE
  have h2 := nrmE_popSemi s (nrmE_dropNl h0)
  generalize popSemi s (List.dropWhile (fun x => decide (x = 10))
    (if isAscii r = true then r else r ++ (mark s).reverse)) = r2 at h2
  split
  · next he =>
    have : r2 = [] := by simpa using he
    subst this; rfl
  · obtain ⟨m, hm, hs⟩ := h2
    unfold balanced
    have : scanFrom St.init (10 :: r2).reverse = step (scanR r2) 10 := by
      rw [← scanR_eq]; rfl
    simp only [this, hs]
    cases m <;> simp [Mode.normalOrEsc] at hm <;> simp [step, cls_nl]

/-! ### the final newline -/

theorem head_dropNl (r : Bytes) : (r.dropWhile (· = 10)).head? ≠ some 10 := by
  induction r with
  | nil => simp
  | cons x r ih =>
    simp only [List.dropWhile]
    split
    · exact ih
    · next hx => simp at hx; simp [hx]

/-! ### ASCII and the encoding mark -/

theorem isAscii_append (a b : Bytes) : isAscii (a ++ b) = (isAscii a && isAscii b) := by
  simp [isAscii, List.all_append]

theorem isAscii_dropWhile (p : UInt8 → Bool) (r : Bytes) (h : isAscii r = true) :
    isAscii (r.dropWhile p) = true := by
  simp only [isAscii, List.all_eq_true] at *
  intro x hx
  exact h x (List.dropWhile_subset p hx)

theorem isAscii_popSemi (s : Style) (r : Bytes) (h : isAscii r = true) : isAscii (popSemi s r) = true := by
  unfold popSemi
  split
  · simp only [isAscii, List.all_cons, Bool.and_eq_true] at h; exact h.2
  · exact h

theorem isAscii_reverse (r : Bytes) : isAscii r.reverse = isAscii r := by
  simp [isAscii]

/-- dropping trailing newlines does not reach beyond a byte that is not a newline -/
theorem dropNl_append {r m : Bytes} (h : isAscii r = false) :
    ∃ t, t ≠ [] ∧ isAscii t = false ∧ (r ++ m).dropWhile (· = 10) = t ++ m := by
  induction r with
  | nil => simp [isAscii] at h
  | cons x r ih =>
    simp only [List.cons_append, List.dropWhile]
    split
    · next hx =>
      simp at hx; subst hx
      have : isAscii r = false := by
        simp only [isAscii, List.all_cons] at h ⊢
        simpa using h
      exact ih this
    · exact ⟨x :: r, by simp, h, rfl⟩

end Writer
