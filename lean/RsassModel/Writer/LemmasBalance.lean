/-
Writer family (C07) — the balance invariant through every `CssBuf` operation and every
`write` function (helper lemmas for `Theorems/C07.lean`).
-/
import RsassModel.Writer.LemmasScan
namespace Writer

/-- the buffer scans to normal mode with stack `st` -/
def Nrm (st : List Br) (r : Bytes) : Prop := ∃ p, scanR r = ⟨.normal p, st, true⟩
/-- … and nothing is pending -/
def Nrm0 (st : List Br) (r : Bytes) : Prop := scanR r = ⟨.normal .none, st, true⟩
/-- invariant at item boundaries -/
def Bnd (s : Style) (st : List Br) (r : Bytes) : Prop :=
  Nrm0 st r ∧ (s = .compressed → r.head? ≠ some 10)

theorem Nrm0.nrm {st r} (h : Nrm0 st r) : Nrm st r := ⟨_, h⟩

theorem addStr_rev (b : Buf) (l : Bytes) : (b.addStr l).rev = l.reverse ++ b.rev := rfl
theorem addStr_indent (b : Buf) (l : Bytes) : (b.addStr l).indent = b.indent := rfl

/-- a literal piece that leaves the stack alone and ends with nothing pending -/
def Neutral (l : Bytes) : Prop :=
  ∀ p st, scanFrom ⟨.normal p, st, true⟩ l = ⟨.normal .none, st, true⟩

theorem nrm0_addStr_neutral {l : Bytes} (hl : Neutral l) {st} {b : Buf} (h : Nrm st b.rev) :
    Nrm0 st (b.addStr l).rev := by
  obtain ⟨p, hp⟩ := h
  simp [Nrm0, addStr_rev, scanR_append, hp, hl p st]

theorem neutral_colon_sp : Neutral [58, 32] := by intro p st; cases p <;> rfl
theorem neutral_colon : Neutral [58] := by intro p st; cases p <;> rfl
theorem neutral_semi_nl : Neutral [59, 10] := by intro p st; cases p <;> rfl
theorem neutral_semi : Neutral [59] := by intro p st; cases p <;> rfl
theorem neutral_sp : Neutral [32] := by intro p st; cases p <;> rfl
theorem neutral_nl : Neutral [10] := by intro p st; cases p <;> rfl
theorem neutral_at : Neutral [64] := by intro p st; cases p <;> rfl
theorem neutral_star : Neutral [42] → True := fun _ => trivial
theorem neutral_import : Neutral [64, 105, 109, 112, 111, 114, 116, 32] := by
  intro p st; cases p <;> rfl
theorem neutral_media : Neutral [64, 109, 101, 100, 105, 97, 32] := by intro p st; cases p <;> rfl

theorem scan_spaces (p : Pend) (st : List Br) (k : Nat) :
    ∃ p', scanFrom ⟨.normal p, st, true⟩ (List.replicate k 32) = ⟨.normal p', st, true⟩ ∧
      (p = .none → p' = .none) := by
  induction k generalizing p with
  | zero => exact ⟨p, rfl, id⟩
  | succ k ih =>
    obtain ⟨p', h, hp⟩ := ih .none
    refine ⟨p', ?_, fun _ => hp rfl⟩
    rw [List.replicate_succ, scanFrom_cons]
    have : step ⟨.normal p, st, true⟩ 32 = ⟨.normal .none, st, true⟩ := by cases p <;> rfl
    rw [this]; exact h

theorem nrm0_spaces {st} {b : Buf} (k : Nat) (h : Nrm0 st b.rev) :
    Nrm0 st (b.addStr (List.replicate k 32)).rev := by
  obtain ⟨p', hs, hp⟩ := scan_spaces .none st k
  unfold Nrm0 at *
  rw [addStr_rev, scanR_append, h, hs, hp rfl]

theorem nrm_spaces {st} {b : Buf} (k : Nat) (h : Nrm st b.rev) :
    Nrm st (b.addStr (List.replicate k 32)).rev := by
  obtain ⟨p, hp0⟩ := h
  obtain ⟨p', hs, _⟩ := scan_spaces p st k
  exact ⟨p', by rw [addStr_rev, scanR_append, hp0, hs]⟩

/-! ### CssBuf operations -/

theorem doIndentNoNl_rev (b : Buf) (s : Style) :
    (b.doIndentNoNl s).rev = (if s = .expanded then List.replicate b.indent 32 else []) ++ b.rev := by
  cases s
  · simp only [Buf.doIndentNoNl, getIndent_expanded]
    by_cases h : b.indent = 0
    · simp [h]
    · have : 0 < b.indent := by omega
      simp [this, addStr_rev]
  · simp [Buf.doIndentNoNl, getIndent_compressed]

theorem doIndentNoNl_indent (b : Buf) (s : Style) : (b.doIndentNoNl s).indent = b.indent := by
  unfold Buf.doIndentNoNl; simp only []; split <;> rfl

theorem doIndentNoNl_eq (b : Buf) (s : Style) :
    b.doIndentNoNl s = b.addStr (if s = .expanded then List.replicate b.indent 32 else []) := by
  have h1 := doIndentNoNl_rev b s
  have h2 := doIndentNoNl_indent b s
  cases s <;> (cases hb : b.doIndentNoNl _; simp_all [Buf.addStr])

theorem doIndentNoNl_nrm0 {st} {b : Buf} (s : Style) (h : Nrm0 st b.rev) :
    Nrm0 st (b.doIndentNoNl s).rev := by
  rw [doIndentNoNl_eq]
  cases s
  · simpa using nrm0_spaces b.indent h
  · simpa [Nrm0, addStr_rev] using h

theorem doIndentNoNl_head_c (b : Buf) : (b.doIndentNoNl .compressed).rev = b.rev := by
  rw [doIndentNoNl_rev]; simp

theorem doIndentNoNl_bnd {st} {b : Buf} (s : Style) (h : Bnd s st b.rev) :
    Bnd s st (b.doIndentNoNl s).rev := by
  refine ⟨doIndentNoNl_nrm0 s h.1, ?_⟩
  intro hs; subst hs; rw [doIndentNoNl_head_c]; exact h.2 rfl

/-- an atom appended at a boundary -/
theorem atomOk_scan {a : Bytes} (ha : atomOk a = true) :
    ∃ p, scanFrom St.init a = ⟨.normal p, [], true⟩ := by
  unfold atomOk at ha
  generalize scanFrom St.init a = s at ha
  obtain ⟨m, stk, ok⟩ := s
  cases m <;> simp [Mode.isNormal] at ha
  obtain ⟨h1, h2⟩ := ha
  subst h1; subst h2
  exact ⟨_, rfl⟩

theorem nrm_addStr_atom {a : Bytes} (ha : atomOk a = true) {st} {b : Buf} (h : Nrm0 st b.rev) :
    Nrm st (b.addStr a).rev := by
  obtain ⟨p, hp⟩ := atomOk_scan ha
  have := scanFrom_frame (.normal .none) (.normal p) [] [] st a hp
  simp only [List.nil_append] at this
  exact ⟨p, by rw [addStr_rev, scanR_append, h, this]⟩

/-! ### bytes of the same class scan alike -/

theorem step_cls {x y : UInt8} (h : cls x = cls y) (st : St) : step st x = step st y := by
  unfold step; rw [h]

theorem scanFrom_map_cls (f : UInt8 → UInt8) (hf : ∀ x, cls (f x) = cls x) (st : St) (l : Bytes) :
    scanFrom st (l.map f) = scanFrom st l := by
  induction l generalizing st with
  | nil => rfl
  | cons x l ih => rw [List.map_cons, scanFrom_cons, scanFrom_cons, step_cls (hf x), ih]

theorem cls_nl_to_sp (x : UInt8) : cls (if x = 10 then 32 else x) = cls x := by
  split
  · next h => subst h; decide
  · rfl

theorem atomOk_map_nl {a : Bytes} (ha : atomOk a = true) :
    atomOk (a.map fun x => if x = 10 then 32 else x) = true := by
  unfold atomOk at *
  rw [scanFrom_map_cls _ cls_nl_to_sp]; exact ha

/-! ### blocks -/

theorem startBlock_bnd {st} {b : Buf} (s : Style) (h : Nrm st b.rev) :
    Bnd s (.brace :: st) (b.startBlock s).rev ∧ (b.startBlock s).indent = b.indent + 2 := by
  obtain ⟨p, hp⟩ := h
  cases s
  · refine ⟨⟨?_, by intro h; cases h⟩, rfl⟩
    simp only [Nrm0, Buf.startBlock, Buf.addOne, addStr_rev, scanR_append, hp]
    cases p <;> rfl
  · refine ⟨⟨?_, by intro _; simp [Buf.startBlock, Buf.addOne, addStr_rev]⟩, rfl⟩
    simp only [Nrm0, Buf.startBlock, Buf.addOne, addStr_rev, scanR_append, hp]
    cases p <;> rfl

theorem popNl_nrm {st} {b : Buf} (h : Nrm0 st b.rev) : Nrm st b.popNl.rev := by
  unfold Buf.popNl
  split
  · next r heq =>
    simp only []
    rw [heq] at h
    simp only [Nrm0, scanR] at h
    exact step_other_inv _ 10 cls_nl st h
  · exact h.nrm

theorem popNl_indent (b : Buf) : b.popNl.indent = b.indent := by
  unfold Buf.popNl; split <;> rfl

theorem popNl_c {b : Buf} (h : b.rev.head? ≠ some 10) : b.popNl = b := by
  unfold Buf.popNl
  split
  · next r heq => rw [heq] at h; simp at h
  · rfl

theorem popSemi_nrm {st} {r : Bytes} (s : Style) (h : Nrm0 st r) : Nrm st (popSemi s r) := by
  unfold popSemi
  split
  · next r' =>
    simp only [Nrm0, scanR] at h
    exact step_other_inv _ 59 cls_semi st h
  · exact h.nrm

theorem popSemi_e (r : Bytes) : popSemi .expanded r = r := by
  unfold popSemi; split <;> simp_all

theorem close_e {st} {r : Bytes} (h : Nrm (.brace :: st) r) : Nrm0 st (10 :: 125 :: r) := by
  obtain ⟨p, hp⟩ := h
  simp only [Nrm0, scanR, hp]; cases p <;> rfl

theorem close_c {st} {r : Bytes} (h : Nrm (.brace :: st) r) : Nrm0 st (125 :: r) := by
  obtain ⟨p, hp⟩ := h
  simp only [Nrm0, scanR, hp]; cases p <;> rfl

theorem nrm_nl_spaces {st} {r : Bytes} (k : Nat) (h : Nrm st r) :
    Nrm st ((List.replicate k (32 : UInt8)).reverse ++ 10 :: r) := by
  obtain ⟨p, hp⟩ := h
  obtain ⟨p', hs, _⟩ := scan_spaces .none st k
  have : scanR (10 :: r) = ⟨.normal .none, st, true⟩ := by
    simp only [scanR, hp]; cases p <;> rfl
  exact ⟨p', by rw [scanR_append, this, hs]⟩

theorem endBlock_rev_e (b : Buf) : (b.endBlock .expanded).rev =
    10 :: 125 :: (if b.popNl.rev.head? ≠ some 123
      then (List.replicate (b.indent - 2) (32 : UInt8)).reverse ++ 10 :: b.popNl.rev
      else b.popNl.rev) := by
  unfold Buf.endBlock
  simp only [popSemi_e, popNl_indent, Buf.addOne, Buf.doIndent, getIndent_expanded, addStr_rev]
  split <;> simp [addStr_rev]

theorem endBlock_rev_c (b : Buf) : (b.endBlock .compressed).rev =
    125 :: popSemi .compressed b.popNl.rev := by
  unfold Buf.endBlock
  simp only [popNl_indent, Buf.addOne, Buf.doIndent, getIndent_compressed, addStr_rev]
  split <;> simp [addStr_rev]

theorem endBlock_indent (b : Buf) (s : Style) : (b.endBlock s).indent = b.indent - 2 := by
  unfold Buf.endBlock
  simp only [popNl_indent, Buf.addOne, Buf.doIndent, addStr_indent]
  split <;> simp [addStr_indent]

/-- `end_block` closes the brace opened by `start_block` -/
theorem endBlock_bnd {st} {b : Buf} (s : Style) (h : Bnd s (.brace :: st) b.rev) :
    Bnd s st (b.endBlock s).rev ∧ (b.endBlock s).indent = b.indent - 2 := by
  refine ⟨?_, endBlock_indent b s⟩
  cases s
  · rw [endBlock_rev_e]
    refine ⟨close_e ?_, by intro h; cases h⟩
    have hp := popNl_nrm h.1
    split
    · exact nrm_nl_spaces _ hp
    · exact hp
  · rw [endBlock_rev_c]
    refine ⟨close_c ?_, by intro _; simp⟩
    rw [popNl_c (h.2 rfl)]
    exact popSemi_nrm _ h.1

end Writer
