/-
Writer family (C07/C08/C09) — the CSS tree and its `write` functions, `CssData::into_buffer`.
Mirrors rsass/src/css/{item,rule,atrule,mediarule,comment}.rs and
rsass/src/output/cssdata.rs.  Import-free model file (only other model files).

The three Rust body types (`Item`, `BodyItem`, `AtRuleBodyItem`) are one `Node` here: the
per-variant `write` functions are the same functions.  Atoms are opaque byte strings
(what `Display`/`write_to` of the selector / value / media query produced).
Not modelled: `css::Function` (`@function` pass-through).
-/
import RsassModel.Writer.Buf
namespace Writer

/-- Deviation flags (DESIGN 4.4).  `spec` = all off. -/
structure WQuirks where
  /-- (repaired by b20c1a1) css/comment.rs `Comment::write`: in compressed style the re-indentation still runs with
  `get_indent(..) = ""`: `Greater` deletes the line breaks, `Equal` keeps them and `Less`
  does `text.replace("", "\n")`, i.e. inserts a line break between all characters.
  Off: compressed style writes the comment text with every line break replaced by a space. -/
  commentReindentCompressed : Bool := false
  /-- (repaired by b5e4a2e) css/atrule.rs `AtRule::write`: the argument text is written as it is, line breaks
  included (only `Property::write` does `.replace('\n', " ")`).
  Off: in compressed style line breaks in at-rule arguments are replaced by a space. -/
  atArgsRawCompressed : Bool := false
  /-- css/rule.rs `Property::write` & al.: atom text is written unchecked, so an interpolated
  value such as `{` unbalances the output.  Off: `compile` refuses (error) a tree with an atom
  whose braces/brackets do not balance outside strings, comments and url(). -/
  atomsUnchecked : Bool := false
  deriving DecidableEq, Repr

def WQuirks.spec : WQuirks := {}
/-- the code as it is (since b20c1a1 and b5e4a2e) -/
def WQuirks.asis : WQuirks := { atomsUnchecked := true }
/-- the code before b20c1a1 / b5e4a2e -/
def WQuirks.old : WQuirks :=
  { commentReindentCompressed := true, atArgsRawCompressed := true, atomsUnchecked := true }

mutual
inductive Node
  /-- `Comment(String)`: text between `/*` and `*/` -/
  | comment (text : Bytes)
  /-- `Import`: `a` = `name` followed by ` args` when present -/
  | import_ (a : Atom)
  /-- `Property { name, value }` -/
  | prop (name : Bytes) (value : Atom)
  /-- `CustomProperty { name, value }`; `quoted` = `value.quotes() != None` -/
  | custom (name : Bytes) (value : Bytes) (quoted : Bool)
  /-- `Rule`; `sel = none` is `Opt::None` (only placeholder selectors: nothing is written) -/
  | rule (sel : Option Atom) (body : Nodes)
  /-- `MediaRule` -/
  | media (args : Atom) (body : Nodes)
  /-- `AtRule` with `body: None` (`args = none`: `args.is_null()`) -/
  | atLeaf (name : Bytes) (args : Option Atom)
  /-- `AtRule` with `body: Some(..)` -/
  | atBlock (name : Bytes) (args : Option Atom) (body : Nodes)
  /-- `Item::Separator` -/
  | separator
inductive Nodes
  | nil
  | cons (n : Node) (ns : Nodes)
end

def Nodes.isEmpty : Nodes → Bool
  | .nil => true
  | .cons _ _ => false

/-- `if let [AtRuleBodyItem::Comment(c)] = &body[..]` -/
def singleComment : Nodes → Option Bytes
  | .cons (.comment c) .nil => some c
  | _ => none

def Nodes.toList : Nodes → List Node
  | .nil => []
  | .cons n ns => n :: ns.toList

def Nodes.ofList : List Node → Nodes
  | [] => .nil
  | n :: ns => .cons n (Nodes.ofList ns)

/-! ### byte-string helpers used by `Comment::write` -/

/-- `s.split('\n')` -/
def splitNl : Bytes → List Bytes
  | [] => [[]]
  | x :: xs =>
    if x = 10 then [] :: splitNl xs
    else match splitNl xs with
      | [] => [[x]]          -- unreachable: `splitNl` is never empty
      | l :: ls => (x :: l) :: ls

def joinNl : List Bytes → Bytes
  | [] => []
  | [l] => l
  | l :: ls => l ++ 10 :: joinNl ls

def stripCr (l : Bytes) : Bytes :=
  match l.reverse with
  | 13 :: r => r.reverse
  | _ => l

/-- `str::lines()`: split at `\n`, a final empty piece is dropped, a `\r` before a `\n` is
stripped (not one at the very end). -/
def lines (s : Bytes) : List Bytes :=
  let ps := splitNl s
  let initial := ps.dropLast.map stripCr
  match ps.getLast? with
  | some [] => initial
  | some l => initial ++ [l]
  | none => initial

def countSpaces : Bytes → Nat
  | 32 :: r => countSpaces r + 1
  | _ => 0

/-- the closure in `Comment::write`: existing indentation of a continuation line -/
def lineIndent (l : Bytes) : Nat :=
  let i := countSpaces l
  match l[i]? with
  | none => i
  | some 42 => i
  | some _ => i - 2

def listMin : List Nat → Option Nat
  | [] => none
  | x :: xs => match listMin xs with
    | none => some x
    | some m => some (min x m)

/-- `text.replace('\n', start)` -/
def replaceNl (start : Bytes) (text : Bytes) : Bytes :=
  text.flatMap fun x => if x = 10 then start else [x]

/-- strip `k` leading spaces if there are that many -/
def dropSpaces : Nat → Bytes → Option Bytes
  | 0, l => some l
  | _ + 1, [] => none
  | k + 1, x :: r => if x = 32 then dropSpaces k r else none

/-- `text.replace("\n" + k spaces, "\n")`: matches start at a line break and cannot overlap,
so this is: on every line but the first, drop `k` leading spaces where present. -/
def unindent (k : Nat) (text : Bytes) : Bytes :=
  match splitNl text with
  | [] => []
  | l :: ls => joinNl (l :: ls.map fun x => (dropSpaces k x).getD x)

def isUtf8Cont (x : UInt8) : Bool := x ≥ 128 && x < 192

/-- `text.replace("", to)`: Rust inserts `to` at every character boundary (and both ends). -/
def replaceEmpty (to : Bytes) (text : Bytes) : Bytes :=
  (text.flatMap fun x => if isUtf8Cont x then [x] else to ++ [x]) ++ to

/-- the text `Comment::write` puts between `/*` and `*/` -/
def commentText (q : WQuirks) (s : Style) (indent : Nat) (text : Bytes) : Bytes :=
  if s.isCompressed && !q.commentReindentCompressed then
    text.map fun x => if x = 10 then 32 else x
  else
    let existing := (listMin ((lines text).drop 1 |>.map lineIndent)).getD indent
    if indent > existing then
      replaceNl (getIndent s (indent - existing)) text
    else if indent < existing then
      match getIndent s (existing - indent - 1) with
      | [] => replaceEmpty [10] text
      | _ :: spaces => unindent spaces.length text
    else text

/-- text written for at-rule arguments -/
def atArgsText (q : WQuirks) (s : Style) (a : Atom) : Bytes :=
  if s.isCompressed && !q.atArgsRawCompressed then
    (a.get s).map fun x => if x = 10 then 32 else x
  else a.get s

/-- `# sourceMappingURL=` -/
def srcMapPrefix : Bytes := [35, 32, 115, 111, 117, 114, 99, 101, 77, 97, 112, 112, 105, 110, 103, 85, 82, 76, 61]
/-- `# sourceURL=` -/
def srcUrlPrefix : Bytes := [35, 32, 115, 111, 117, 114, 99, 101, 85, 82, 76, 61]

/-- the comments `Comment::write` ignores (since 01d06ad only the source-map comments; before,
every comment starting with `#`) -/
def skipComment (text : Bytes) : Bool := srcMapPrefix.isPrefixOf text || srcUrlPrefix.isPrefixOf text

/-- `Comment::write` -/
def writeComment (q : WQuirks) (s : Style) (text : Bytes) (b : Buf) : Buf :=
  if skipComment text then b.addOne s [10] []               -- source-map comment
  else
    let body := commentText q s b.indent text
    let b := b.doIndentNoNl s
    let b := b.addStr [47, 42]                             -- "/*"
    let b := b.addStr body
    b.addOne s [42, 47, 10] [42, 47]                       -- "*/\n" | "*/"

/-- the head of `AtRule::write`: `@name` and ` args` -/
def writeAtHead (q : WQuirks) (s : Style) (name : Bytes) (args : Option Atom) (b : Buf) : Buf :=
  let b := b.doIndentNoNl s
  let b := (b.addStr [64]).addStr name                     -- "@{name}"
  match args with
  | none => b
  | some a => (b.addStr [32]).addStr (atArgsText q s a)

mutual
/-- `Item::write` / `BodyItem::write` / `AtRuleBodyItem::write` -/
def writeNode (q : WQuirks) (s : Style) : Node → Buf → Buf
  | .comment text, b => writeComment q s text b
  | .import_ a, b =>                                       -- `Import::write`
    let b := b.doIndentNoNl s
    let b := (b.addStr [64, 105, 109, 112, 111, 114, 116, 32]).addStr (a.get s)  -- "@import "
    b.addOne s [59, 10] [59]
  | .prop name value, b =>                                 -- `Property::write`
    let b := b.doIndentNoNl s
    let b := b.addStr name
    let b := b.addOne s [58, 32] [58]
    let b := b.addStr ((value.get s).map fun x => if x = 10 then 32 else x)
    b.addOne s [59, 10] [59]
  | .custom name value quoted, b =>                        -- `CustomProperty::write`
    let b := b.doIndentNoNl s
    let b := b.addStr name
    let b := b.addStr [58]
    let b := if quoted && !s.isCompressed then b.addStr [32] else b
    let b := b.addStr value
    b.addOne s [59, 10] [59]
  | .rule sel body, b =>                                   -- `Rule::write`
    if body.isEmpty then b else
    match sel with
    | none => b
    | some a =>
      let b := b.doIndentNoNl s
      let b := if (a.get s).isEmpty then b.addStr [42] else b.addStr (a.get s)
      let b := b.startBlock s
      let b := writeNodes q s body b
      b.endBlock s
  | .media args body, b =>                                 -- `MediaRule::write`
    if body.isEmpty then b else
    let b := b.doIndentNoNl s
    let b := b.addStr [64, 109, 101, 100, 105, 97, 32]     -- "@media "
    let b := b.addStr (args.get s)
    let b := b.startBlock s
    let b := writeNodes q s body b
    b.endBlock s
  | .atLeaf name args, b =>                                -- `AtRule::write`, `body: None`
    (writeAtHead q s name args b).addOne s [59, 10] [59]
  | .atBlock name args body, b =>                          -- `AtRule::write`, `body: Some`
    let b := writeAtHead q s name args b
    match singleComment body with
    | some c =>
      let b := b.addOne s [32, 123, 32] [123]              -- " { " | "{"
      let b := writeComment q s c b
      let b := b.popNl
      b.addOne s [32, 125, 10] [125]                       -- " }\n" | "}"
    | none =>
      let b := b.startBlock s
      let b := writeNodes q s body b
      b.endBlock s
  | .separator, b => b.optNl s                             -- `Item::Separator`
def writeNodes (q : WQuirks) (s : Style) : Nodes → Buf → Buf
  | .nil, b => b
  | .cons n ns, b => writeNodes q s ns (writeNode q s n b)
end

def isImport : Node → Bool
  | .import_ _ => true
  | _ => false

/-- `CssData::push_item`: imports go to `imports`, the rest to `body`;
`into_buffer` writes `imports` first. -/
def hoistImports (items : List Node) : List Node :=
  items.filter isImport ++ items.filter (fun n => !isImport n)

def isAscii (l : Bytes) : Bool := l.all (· < 128)

/-- the encoding mark: BOM (compressed) or `@charset "UTF-8";\n` (expanded) -/
def mark : Style → Bytes
  | .compressed => [0xEF, 0xBB, 0xBF]
  | .expanded => [64, 99, 104, 97, 114, 115, 101, 116, 32, 34, 85, 84, 70, 45, 56, 34, 59, 10]

/-- the tail of `CssData::into_buffer`, on the reversed buffer; result in output order -/
def frame (s : Style) (rev : Bytes) : Bytes :=
  let r := if isAscii rev then rev else rev ++ (mark s).reverse
  let r := r.dropWhile (· = 10)
  let r := popSemi s r
  (if r.isEmpty then r else 10 :: r).reverse

/-- `CssData::into_buffer` -/
def intoBuffer (q : WQuirks) (s : Style) (items : List Node) : Bytes :=
  frame s (writeNodes q s (Nodes.ofList (hoistImports items)) Buf.empty).rev

end Writer
