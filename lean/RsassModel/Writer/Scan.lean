/-
Writer family (C07) — the byte scanner that defines "braces and brackets balance outside
strings, comments and url()", and the checks on atoms the balance theorem needs.
Import-free model file.  The same automaton is `scan_balance` in props/C07.py.
-/
import RsassModel.Writer.Tree
namespace Writer

/-- byte classes the scanner distinguishes -/
inductive Cls
  | dquote | squote | star | slash | lparen | rparen | lbrace | rbrace | lbrack | rbrack
  | bslash | cu | cr | cl | other
  deriving DecidableEq, Repr

def cls (x : UInt8) : Cls :=
  if x = 34 then .dquote else if x = 39 then .squote else if x = 42 then .star
  else if x = 47 then .slash else if x = 40 then .lparen else if x = 41 then .rparen
  else if x = 123 then .lbrace else if x = 125 then .rbrace
  else if x = 91 then .lbrack else if x = 93 then .rbrack
  else if x = 92 then .bslash
  else if x = 117 || x = 85 then .cu else if x = 114 || x = 82 then .cr
  else if x = 108 || x = 76 then .cl else .other

/-- what the scanner remembers about the bytes just before, in normal mode
(`afterEsc`: the previous byte was escaped by a backslash; behaves like `none`) -/
inductive Pend | none | slash | u | ur | url | afterEsc
  deriving DecidableEq, Repr

inductive Mode
  | normal (p : Pend)
  | esc                       -- after a backslash outside strings
  | dq | dqEsc | sq | sqEsc   -- inside "…" / '…'
  | cmt | cmtStar             -- inside /* … */
  | url | urlEsc | urlDq | urlDqEsc | urlSq | urlSqEsc   -- inside url( … )
  deriving DecidableEq, Repr

inductive Br | brace | bracket
  deriving DecidableEq, Repr

structure St where
  mode : Mode
  stack : List Br
  ok : Bool
  deriving DecidableEq, Repr

def St.init : St := ⟨.normal .none, [], true⟩

def closeBr (want : Br) (stack : List Br) (ok : Bool) : St :=
  match stack with
  | top :: rest => ⟨.normal .none, rest, ok && (top == want)⟩
  | [] => ⟨.normal .none, [], false⟩

def step (st : St) (x : UInt8) : St :=
  match st.mode, cls x with
  | .normal _, .dquote => { st with mode := .dq }
  | .normal _, .squote => { st with mode := .sq }
  | .normal .slash, .star => { st with mode := .cmt }
  | .normal .url, .lparen => { st with mode := .url }
  | .normal _, .lbrace => ⟨.normal .none, .brace :: st.stack, st.ok⟩
  | .normal _, .lbrack => ⟨.normal .none, .bracket :: st.stack, st.ok⟩
  | .normal _, .rbrace => closeBr .brace st.stack st.ok
  | .normal _, .rbrack => closeBr .bracket st.stack st.ok
  | .normal _, .bslash => { st with mode := .esc }
  | .normal _, .slash => { st with mode := .normal .slash }
  | .normal _, .cu => { st with mode := .normal .u }
  | .normal .u, .cr => { st with mode := .normal .ur }
  | .normal .ur, .cl => { st with mode := .normal .url }
  | .normal _, _ => { st with mode := .normal .none }
  | .esc, _ => { st with mode := .normal .afterEsc }
  | .dq, .dquote => { st with mode := .normal .none }
  | .dq, .bslash => { st with mode := .dqEsc }
  | .dq, _ => st
  | .dqEsc, _ => { st with mode := .dq }
  | .sq, .squote => { st with mode := .normal .none }
  | .sq, .bslash => { st with mode := .sqEsc }
  | .sq, _ => st
  | .sqEsc, _ => { st with mode := .sq }
  | .cmt, .star => { st with mode := .cmtStar }
  | .cmt, _ => st
  | .cmtStar, .slash => { st with mode := .normal .none }
  | .cmtStar, .star => st
  | .cmtStar, _ => { st with mode := .cmt }
  | .url, .rparen => { st with mode := .normal .none }
  | .url, .bslash => { st with mode := .urlEsc }
  | .url, .dquote => { st with mode := .urlDq }
  | .url, .squote => { st with mode := .urlSq }
  | .url, _ => st
  | .urlEsc, _ => { st with mode := .url }
  | .urlDq, .dquote => { st with mode := .url }
  | .urlDq, .bslash => { st with mode := .urlDqEsc }
  | .urlDq, _ => st
  | .urlDqEsc, _ => { st with mode := .urlDq }
  | .urlSq, .squote => { st with mode := .url }
  | .urlSq, .bslash => { st with mode := .urlSqEsc }
  | .urlSq, _ => st
  | .urlSqEsc, _ => { st with mode := .urlSq }

/-- scan bytes in output order -/
def scanFrom (st : St) (l : Bytes) : St := l.foldl step st

/-- scan a reversed buffer -/
def scanR : Bytes → St
  | [] => St.init
  | x :: r => step (scanR r) x

/-- The property's clause: braces and brackets balance outside strings, comments, url(). -/
def balanced (out : Bytes) : Bool :=
  let st := scanFrom St.init out
  st.ok && st.stack.isEmpty

def Mode.isNormal : Mode → Bool
  | .normal _ => true
  | _ => false

/-- an atom is *closed*: scanned in normal mode it returns to normal mode with every
brace/bracket it opened closed again and none closed that it did not open. -/
def atomOk (a : Bytes) : Bool :=
  let st := scanFrom St.init a
  st.mode.isNormal && st.ok && st.stack.isEmpty

/-- comment text is closed: scanned inside a comment it stays inside the comment -/
def cmtOk (a : Bytes) : Bool :=
  let st := scanFrom ⟨.cmt, [], true⟩ a
  (st.mode == .cmt || st.mode == .cmtStar) && st.ok && st.stack.isEmpty

def optAtomOk (s : Style) : Option Atom → Bool
  | none => true
  | some a => atomOk (a.get s)

mutual
/-- every atom of the tree is closed (for the text it has in style `s` at this indentation) -/
def nodeOk (q : WQuirks) (s : Style) (indent : Nat) : Node → Bool
  | .comment text => skipComment text || cmtOk (commentText q s indent text)
  | .import_ a => atomOk (a.get s)
  | .prop name value => atomOk name && atomOk (value.get s)
  | .custom name value _ => atomOk name && atomOk value
  | .rule sel body =>
    body.isEmpty || sel.isNone || (optAtomOk s sel && nodesOk q s (indent + 2) body)
  | .media args body =>
    body.isEmpty || (atomOk (args.get s) && nodesOk q s (indent + 2) body)
  | .atLeaf name args => atomOk name && optAtomOk s args
  | .atBlock name args body =>
    atomOk name && optAtomOk s args &&
      (match singleComment body with
       | some c => skipComment c || cmtOk (commentText q s indent c)
       | none => nodesOk q s (indent + 2) body)
  | .separator => true
def nodesOk (q : WQuirks) (s : Style) (indent : Nat) : Nodes → Bool
  | .nil => true
  | .cons n ns => nodeOk q s indent n && nodesOk q s indent ns
end

/-- What the property demands of a compilation (`atomsUnchecked` off): a tree with an atom
that is not closed is refused.  As is (`atomsUnchecked` on): written regardless. -/
def compile (q : WQuirks) (s : Style) (items : List Node) : Option Bytes :=
  if q.atomsUnchecked || nodesOk q s 0 (Nodes.ofList (hoistImports items)) then
    some (intoBuffer q s items)
  else none

end Writer
