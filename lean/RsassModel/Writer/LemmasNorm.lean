/-
Writer family (C08) — the two styles write the same normal form (helper lemmas).
-/
import RsassModel.Writer.Norm
import RsassModel.Writer.LemmasBalance
namespace Writer

theorem F_append (a b : Bytes) : F (a ++ b) = F a ++ F b := by simp [F]
theorem F_reverse (a : Bytes) : F a.reverse = (F a).reverse := by simp [F, List.filter_reverse]
theorem F_cons_ws {x : UInt8} (h : isWs x = true) (r : Bytes) : F (x :: r) = F r := by
  simp [F, h]
theorem F_cons_nws {x : UInt8} (h : isWs x = false) (r : Bytes) : F (x :: r) = x :: F r := by
  simp [F, h]

theorem F_single_append (x : UInt8) (l : Bytes) : F [x] ++ F l = F (x :: l) := by
  rw [← F_append]; rfl

theorem F_replicate_sp (k : Nat) : F (List.replicate k 32) = [] := by
  induction k with
  | zero => rfl
  | succ k ih => rw [List.replicate_succ, F_cons_ws (by decide), ih]

/-! ### `dsbAux` -/

theorem dsb_true_eq (y : Bytes) : dsbAux true y = dsbAux false (y.dropWhile (· = 59)) := by
  induction y with
  | nil => rfl
  | cons x y ih =>
    by_cases h : x = 59
    · subst h; simp [dsbAux, ih]
    · simp only [List.dropWhile, h, decide_false]
      simp [dsbAux, h]

theorem dsb_dropWhile (y : Bytes) :
    dsbAux false (y.dropWhile (· = 59)) = (dsbAux false y).dropWhile (· = 59) := by
  induction y with
  | nil => rfl
  | cons x y ih =>
    by_cases h : x = 59
    · subst h; simp [dsbAux, ih]
    · simp only [List.dropWhile, h, decide_false]
      by_cases h2 : x = 125
      · subst h2; simp [dsbAux]
      · simp [dsbAux, h, h2]

/-- `dsbAux` of a longer buffer depends on the rest only through its normal form -/
theorem dsb_congr {y1 y2 : Bytes} (h : dsbAux false y1 = dsbAux false y2) (a : Bytes) (fl : Bool) :
    dsbAux fl (a ++ y1) = dsbAux fl (a ++ y2) := by
  induction a generalizing fl with
  | nil =>
    cases fl
    · exact h
    · simp only [List.nil_append, dsb_true_eq, dsb_dropWhile, h]
  | cons x a ih =>
    simp only [List.cons_append, dsbAux]
    split
    · rw [ih]
    · split
      · rw [ih]
      · rw [ih]

/-- invariant: the two buffers have the same normal form -/
def Same (re rc : Bytes) : Prop := D re = D rc

theorem same_addStr {re rc : Bytes} (h : Same re rc) {pe pc : Bytes} (hp : F pe = F pc) :
    Same (pe.reverse ++ re) (pc.reverse ++ rc) := by
  unfold Same D at *
  rw [F_append, F_append, F_reverse, F_reverse, hp]
  exact dsb_congr h _ _

theorem same_addStr_b {be bc : Buf} (h : Same be.rev bc.rev) {pe pc : Bytes} (hp : F pe = F pc) :
    Same (be.addStr pe).rev (bc.addStr pc).rev := same_addStr h hp

theorem F_popNl (b : Buf) : F b.popNl.rev = F b.rev := by
  unfold Buf.popNl; split
  · next r heq => rw [heq, F_cons_ws (by decide)]
  · rfl

theorem same_popNl {be bc : Buf} (h : Same be.rev bc.rev) : Same be.popNl.rev bc.popNl.rev := by
  unfold Same D at *; rw [F_popNl, F_popNl]; exact h

theorem NR_popSemi (s : Style) (r : Bytes) : dsbAux true (F (popSemi s r)) = dsbAux true (F r) := by
  unfold popSemi; split
  · next r' => rw [F_cons_nws (by decide)]; simp [dsbAux]
  · rfl

/-- closing a block: `}` after the popped buffers -/
theorem same_close {xe xc : Bytes} (h : Same xe xc) (s : Style) :
    Same (125 :: xe) (125 :: popSemi s xc) := by
  unfold Same D at *
  rw [F_cons_nws (by decide), F_cons_nws (by decide)]
  simp only [dsbAux, if_true]
  rw [NR_popSemi, dsb_true_eq, dsb_true_eq, dsb_dropWhile, dsb_dropWhile, h]

theorem same_ws_e {re rc : Bytes} (h : Same re rc) {p : Bytes} (hp : F p = []) : Same (p.reverse ++ re) rc := by
  have := same_addStr h (pe := p) (pc := []) (by rw [hp]; rfl)
  simpa using this

theorem doIndentNoNl_same {be bc : Buf} (h : Same be.rev bc.rev) :
    Same (be.doIndentNoNl .expanded).rev (bc.doIndentNoNl .compressed).rev := by
  rw [doIndentNoNl_eq, doIndentNoNl_eq]
  exact same_addStr_b h (by simp [F_replicate_sp]; rfl)

theorem startBlock_same {be bc : Buf} (h : Same be.rev bc.rev) :
    Same (be.startBlock .expanded).rev (bc.startBlock .compressed).rev := by
  simp only [Buf.startBlock, Buf.addOne]
  exact same_addStr_b h (by decide)

theorem endBlock_same {be bc : Buf} (h : Same be.rev bc.rev) :
    Same (be.endBlock .expanded).rev (bc.endBlock .compressed).rev := by
  rw [endBlock_rev_e, endBlock_rev_c]
  have h1 := same_popNl h
  have h2 : Same (if be.popNl.rev.head? ≠ some 123
      then (List.replicate (be.indent - 2) (32 : UInt8)).reverse ++ 10 :: be.popNl.rev
      else be.popNl.rev) bc.popNl.rev := by
    split
    · have := same_ws_e h1 (p := 10 :: List.replicate (be.indent - 2) 32)
        (by rw [F_cons_ws (by decide), F_replicate_sp])
      simpa using this
    · exact h1
  have h3 := same_close h2 .compressed
  unfold Same D at h3 ⊢
  rw [F_cons_ws (by decide)]
  exact h3

/-! ### comment text -/

theorem F_map_nl (l : Bytes) : F (l.map fun x => if x = 10 then 32 else x) = F l := by
  induction l with
  | nil => rfl
  | cons x l ih =>
    rw [List.map_cons]
    by_cases h : x = 10
    · subst h; rw [if_pos rfl, F_cons_ws (by decide), F_cons_ws (by decide), ih]
    · rw [if_neg h]
      cases hw : isWs x
      · rw [F_cons_nws hw, F_cons_nws hw, ih]
      · rw [F_cons_ws hw, F_cons_ws hw, ih]

theorem F_replaceNl (start text : Bytes) (hs : F start = []) : F (replaceNl start text) = F text := by
  induction text with
  | nil => rfl
  | cons x l ih =>
    simp only [replaceNl, List.flatMap_cons] at ih ⊢
    by_cases h : x = 10
    · subst h; rw [if_pos rfl, F_append, hs, F_cons_ws (by decide)]; exact ih
    · rw [if_neg h, F_append, ih]; exact F_single_append x l

theorem F_replaceEmpty (text : Bytes) : F (replaceEmpty [10] text) = F text := by
  unfold replaceEmpty
  rw [F_append]
  have : F [10] = [] := by decide
  rw [this, List.append_nil]
  induction text with
  | nil => rfl
  | cons x l ih =>
    rw [List.flatMap_cons, F_append, ih]
    split
    · exact F_single_append x l
    · rw [F_append, this, List.nil_append]; exact F_single_append x l

theorem F_getIndent (s : Style) (k : Nat) : F (getIndent s k) = [] := by
  cases s
  · rw [getIndent_expanded, F_cons_ws (by decide), F_replicate_sp]
  · rfl

theorem F_joinNl (ls : List Bytes) : F (joinNl ls) = (ls.map F).flatten := by
  induction ls with
  | nil => rfl
  | cons l ls ih =>
    cases ls with
    | nil => simp [joinNl]
    | cons l2 ls2 =>
      simp only [joinNl, F_append, F_cons_ws (show isWs 10 = true by decide)] at ih ⊢
      rw [ih]; simp

theorem joinNl_splitNl (t : Bytes) : joinNl (splitNl t) = t := by
  induction t with
  | nil => rfl
  | cons x t ih =>
    simp only [splitNl]
    split
    · next h =>
      subst h
      cases hs : splitNl t with
      | nil => rw [hs] at ih; simp [joinNl] at ih; subst ih; simp [splitNl] at hs
      | cons l ls => rw [hs] at ih; simp [joinNl, ih]
    · cases hs : splitNl t with
      | nil => rw [hs] at ih; simp [joinNl] at ih; subst ih; simp [splitNl] at hs
      | cons l ls =>
        rw [hs] at ih
        cases ls with
        | nil => simp [joinNl] at ih ⊢; exact ih
        | cons l2 ls2 => simp [joinNl] at ih ⊢; exact ih

theorem F_dropSpaces (k : Nat) (l : Bytes) : F ((dropSpaces k l).getD l) = F l := by
  induction k generalizing l with
  | zero => rfl
  | succ k ih =>
    cases l with
    | nil => rfl
    | cons x r =>
      simp only [dropSpaces]
      split
      · next h =>
        subst h
        cases hd : dropSpaces k r with
        | none => rfl
        | some r' =>
          have := ih r
          rw [hd] at this
          simp only [Option.getD_some] at this ⊢
          rw [this, F_cons_ws (by decide)]
      · rfl

theorem F_unindent (k : Nat) (text : Bytes) : F (unindent k text) = F text := by
  unfold unindent
  cases hs : splitNl text with
  | nil =>
    have := joinNl_splitNl text
    rw [hs] at this; simp [joinNl] at this; subst this; rfl
  | cons l ls =>
    have h := joinNl_splitNl text
    rw [hs] at h
    simp only []
    rw [F_joinNl]
    conv => rhs; rw [← h, F_joinNl]
    simp only [List.map_cons, List.map_map]
    congr 2
    apply List.map_congr_left
    intro x _
    exact F_dropSpaces k x

theorem F_commentText (q : WQuirks) (s : Style) (indent : Nat) (text : Bytes) :
    F (commentText q s indent text) = F text := by
  unfold commentText
  split
  · exact F_map_nl text
  · simp only []
    split
    · exact F_replaceNl _ _ (F_getIndent _ _)
    · split
      · split
        · exact F_replaceEmpty text
        · exact F_unindent _ _
      · rfl

end Writer
