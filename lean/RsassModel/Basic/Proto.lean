/-
Line protocol shared by every model driver: tab-separated fields, strings hex-encoded
(UTF-8 bytes).  Import-free (core only) so drivers link as `lean_exe`.
-/
namespace Proto

def hexDigit (n : Nat) : Char :=
  if n < 10 then Char.ofNat (48 + n) else Char.ofNat (87 + n)

def hexVal (c : Char) : Nat :=
  if '0' ≤ c ∧ c ≤ '9' then c.toNat - 48
  else if 'a' ≤ c ∧ c ≤ 'f' then c.toNat - 87
  else if 'A' ≤ c ∧ c ≤ 'F' then c.toNat - 55
  else 0

def hexOfBytes (b : ByteArray) : String :=
  String.ofList (b.toList.flatMap fun x => [hexDigit (x.toNat / 16), hexDigit (x.toNat % 16)])

def bytesOfHexAux : List Char → List UInt8
  | a :: b :: rest => UInt8.ofNat (hexVal a * 16 + hexVal b) :: bytesOfHexAux rest
  | _ => []

def bytesOfHex (s : String) : ByteArray := ByteArray.mk (bytesOfHexAux s.toList).toArray

/-- hex of the UTF-8 encoding of `s` -/
def hexOfString (s : String) : String := hexOfBytes s.toUTF8

/-- decode hex to a string (invalid UTF-8 gives the empty string) -/
def stringOfHex (s : String) : String :=
  match String.fromUTF8? (bytesOfHex s) with
  | some r => r
  | none => ""

def fields (line : String) : List String := line.splitOn "\t"

def stripNl (line : String) : String :=
  let l := line.toList
  let l := if l.getLast? = some '\n' then l.dropLast else l
  let l := if l.getLast? = some '\r' then l.dropLast else l
  String.ofList l

/-- `quirks` is the list of deviation flags switched on for this run (first line
`quirks\tflag,flag,...`); `handle quirks op args` answers one case. -/
partial def loop (h : IO.FS.Stream) (out : IO.FS.Stream) (quirks : List String)
    (handle : List String → String → List String → String) : IO Unit := do
  let line ← h.getLine
  if line.isEmpty then return ()
  let line := stripNl line
  match fields line with
  | "quirks" :: rest =>
      let qs := (rest.headD "").splitOn ","
      loop h out (qs.filter (· ≠ "")) handle
  | op :: args =>
      out.putStrLn (handle quirks op args)
      loop h out quirks handle
  | [] =>
      out.putStrLn "bad-op"
      loop h out quirks handle

def run (handle : List String → String → List String → String) : IO Unit := do
  let i ← IO.getStdin
  let o ← IO.getStdout
  loop i o [] handle
  o.flush

end Proto
