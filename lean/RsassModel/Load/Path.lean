/-
Loader family (C02, C03, C04, C39) — path text.

Paths and URLs are modelled as lists of code points (`List Nat`), so that every
definition reduces in the kernel (`decide`, `rfl`) — core `String` does not.

Rust mirrored:
* `relative` (rsass/src/input/context.rs): `base[..=rfind('/')] ++ url`, or `url` when the
  importing file's name has no `/`.
* the `(base, name)` split in `Context::do_find_file`: `url.split_at(rfind('/') + 1)`.
* `canon`: not in the code — the canonical form demanded by the property (`./` removed,
  `d/../` folded); used by the `spec` configuration only.
* `resolvePath`: the *loader parameter* — how `FsLoader::find_file`'s `base.join(url).is_file()`
  behaves on a POSIX file system without symlinks (and how the harness's virtual loader is
  written): `.`/empty components are skipped, `..` pops, and every intermediate prefix has to
  be an existing directory.
-/
namespace Load

abbrev Str := List Nat

def slash : Nat := 47
def dot : Nat := 46
def underscore : Nat := 95

/-- the part of `s` up to and including the last `/` (empty when there is none) -/
def dirOf (s : Str) : Str := (s.reverse.dropWhile (· != slash)).reverse

/-- the part of `s` after the last `/` -/
def nameOf (s : Str) : Str := (s.reverse.takeWhile (· != slash)).reverse

theorem dirOf_append_nameOf (s : Str) : dirOf s ++ nameOf s = s := by
  unfold dirOf nameOf
  rw [← List.reverse_append, List.takeWhile_append_dropWhile, List.reverse_reverse]

/-- `relative(&from, url)` of context.rs, `importer` = `from.next().file_url()` -/
def relative (importer url : Str) : Str := dirOf importer ++ url

def endsWith (s suf : Str) : Bool := suf.reverse.isPrefixOf s.reverse
def startsWith (s pre : Str) : Bool := pre.isPrefixOf s

/-- split on `/` (always at least one segment) -/
def segments : Str → List Str
  | [] => [[]]
  | c :: cs =>
    if c == slash then [] :: segments cs
    else match segments cs with
      | [] => [[c]]
      | seg :: rest => (c :: seg) :: rest

def joinSegs : List Str → Str
  | [] => []
  | [s] => s
  | s :: rest => s ++ slash :: joinSegs rest

def dotSeg : Str := [dot]
def dotdotSeg : Str := [dot, dot]

/-- fold `.`, empty and `x/..` segments; `acc` is the reversed stack of kept segments -/
def canonSegs : List Str → List Str → List Str
  | [], acc => acc.reverse
  | seg :: rest, acc =>
    if seg == [] || seg == dotSeg then canonSegs rest acc
    else if seg == dotdotSeg then
      match acc with
      | top :: acc' => if top == dotdotSeg then canonSegs rest (seg :: acc) else canonSegs rest acc'
      | [] => canonSegs rest [seg]
    else canonSegs rest (seg :: acc)

/-- canonical spelling of a relative path: `./a` ↦ `a`, `d/../a` ↦ `a` -/
def canon (s : Str) : Str := joinSegs (canonSegs (segments s) [])

/-- `needle` occurs in `s` -/
def hasInfix : Str → Str → Bool
  | [], needle => needle.isEmpty
  | c :: cs, needle => needle.isPrefixOf (c :: cs) || hasInfix cs needle

def schemeSep : Str := [58, 47, 47]  -- "://"

/-- the loop of `normalize` (context.rs, commit 51f269b): `.` dropped, `..` pops a kept
segment that is neither empty nor `..`, everything else is kept.  `acc` = kept segments,
reversed; `first` = this is segment 0.  With `dropEmpty` (commit 3fe5f5c) an empty segment
that is neither the first nor the last one is dropped as well. -/
def normalizeSegs (dropEmpty : Bool) : List Str → Bool → List Str → List Str
  | [], _, acc => acc.reverse
  | seg :: rest, first, acc =>
    if seg == dotSeg then normalizeSegs dropEmpty rest false acc
    else if dropEmpty && seg.isEmpty && !first && !rest.isEmpty then
      normalizeSegs dropEmpty rest false acc
    else if seg == dotdotSeg then
      match acc with
      | top :: acc' =>
        if !top.isEmpty && top != dotdotSeg then normalizeSegs dropEmpty rest false acc'
        else normalizeSegs dropEmpty rest false (seg :: acc)
      | [] => normalizeSegs dropEmpty rest false [seg]
    else normalizeSegs dropEmpty rest false (seg :: acc)

/-- `fn normalize(url)`: unchanged when it contains `://`, or has no `.`/`..` segment and
(since 3fe5f5c) no `//` -/
def normalize (dropEmpty : Bool) (url : Str) : Str :=
  let segs := segments url
  if hasInfix url schemeSep then url
  else if segs.any (fun s => s == dotSeg || s == dotdotSeg)
      || (dropEmpty && (segs.drop 1).dropLast.any (·.isEmpty)) then
    joinSegs (normalizeSegs dropEmpty segs true [])
  else url

/-! ### the file-system side of the loader (parameter) -/

/-- `d` (segments) is a directory: a proper prefix of the segment list of some file -/
def isDir (files : List Str) (d : List Str) : Bool :=
  files.any fun p =>
    let segs := segments p
    decide (d.length < segs.length) && (segs.take d.length == d)

/-- walk the components; `cur` is the current directory (segments, in order) -/
def resolveSegs (files : List Str) : List Str → List Str → Option (List Str)
  | [], _ => none
  | [c], cur =>
    if c == [] || c == dotSeg || c == dotdotSeg then none else some (cur ++ [c])
  | c :: rest, cur =>
    if c == [] || c == dotSeg then resolveSegs files rest cur
    else if c == dotdotSeg then
      if cur.isEmpty then none else resolveSegs files rest cur.dropLast
    else
      if isDir files (cur ++ [c]) then resolveSegs files rest (cur ++ [c]) else none

/-- the file (canonical path) that the text `full` names in a file system holding exactly
`files` (canonical paths), if any -/
def resolvePath (files : List Str) (full : Str) : Option Str :=
  if full.head? == some slash then none
  else match resolveSegs files (segments full) [] with
    | none => none
    | some segs => let p := joinSegs segs; if files.contains p then some p else none

end Load
