/-
Loader family — lemmas about `scan` / `findScan` / `findFile` (helper lemmas for the C04 and
C39 theorem files).
-/
import RsassModel.Load.Find
namespace Load

/-- no fault is ever injected -/
def NoFaults (E : Env) : Prop := ∀ i, E.fail i = none

/-- does this probe find a file, and which -/
def Probe.hit (E : Env) (p : Probe) : Option (Str × Str) :=
  (loaderHit E.paths p.roots p.name).map fun phys => (p.name, phys)

/-- what a scan found: (name handed to the loader, file) -/
def ScanRes.hit : ScanRes → Option (Str × Str)
  | .found n p _ => some (n, p)
  | _ => none

def ScanRes.isFault : ScanRes → Bool
  | .fault _ => true
  | _ => false

def ScanRes.calls : ScanRes → List Call
  | .found _ _ c | .missing c | .fault c => c

/-- scanning `A ++ B` is scanning `A` and, when nothing was found, `B` -/
theorem scan_append (E : Env) (A B : List Probe) (calls : List Call) :
    scan E (A ++ B) calls =
      match scan E A calls with
      | .missing c => scan E B c
      | r => r := by
  induction A generalizing calls with
  | nil => simp [scan]
  | cons p ps ih =>
    simp only [List.cons_append, scan]
    split
    · rfl
    · split
      · exact ih _
      · split <;> rfl

/-- without faults a scan returns the first probe that hits -/
theorem scan_hit (E : Env) (h : NoFaults E) (ps : List Probe) (calls : List Call) :
    (scan E ps calls).hit = ps.findSome? (Probe.hit E) ∧ (scan E ps calls).isFault = false := by
  induction ps generalizing calls with
  | nil => simp [scan, ScanRes.hit, ScanRes.isFault]
  | cons p ps ih =>
    have hf : E.fail calls.length = none := h _
    simp only [scan, hf, List.findSome?_cons, Probe.hit]
    cases hl : loaderHit E.paths p.roots p.name with
    | none => simpa using ih _
    | some phys => simp [ScanRes.hit, ScanRes.isFault]

theorem scan_missing_iff (E : Env) (h : NoFaults E) (ps : List Probe) (calls : List Call) :
    (∃ c, scan E ps calls = .missing c) ↔ ∀ p ∈ ps, Probe.hit E p = none := by
  have := scan_hit E h ps calls
  constructor
  · rintro ⟨c, hc⟩
    rw [hc] at this
    simpa [ScanRes.hit, List.findSome?_eq_none_iff] using this.1.symm
  · intro hall
    have hnone : ps.findSome? (Probe.hit E) = none := by
      simpa [List.findSome?_eq_none_iff] using hall
    cases hs : scan E ps calls with
    | missing c => exact ⟨c, rfl⟩
    | found n p c => rw [hs] at this; simp [ScanRes.hit, hnone] at this
    | fault c => rw [hs] at this; simp [ScanRes.isFault] at this

/-- every scan only appends to the call log -/
theorem scan_calls_prefix (E : Env) (ps : List Probe) (calls : List Call) :
    ∃ ext, (scan E ps calls).calls = calls ++ ext := by
  induction ps generalizing calls with
  | nil => exact ⟨[], by simp [scan, ScanRes.calls]⟩
  | cons p ps ih =>
    simp only [scan]
    split
    · exact ⟨_, rfl⟩
    · split
      · obtain ⟨ext, he⟩ := ih (calls ++ [⟨p.label, false⟩])
        exact ⟨[⟨p.label, false⟩] ++ ext, by simp [he]⟩
      · split <;> exact ⟨_, rfl⟩

/-- every probe of one `find_file`, in order, for any configuration: the candidates of the
relative url over the search path, then (unless switched off, or the two urls coincide) the
candidates of the unchanged url over the search path -/
def allProbesAux (cm noFb : Bool) (roots : List Str) (k : Kind) (u u' : Str) : List Probe :=
  mkProbes cm roots (namesFor k u') ++
    (if noFb || u' == u then [] else mkProbes cm roots (namesFor k u))

def allProbes (q : LoadQuirks) (E : Env) (self : Str) (k : Kind) (url : Str) : List Probe :=
  allProbesAux q.candidateMajor q.noLoadPathFallback E.roots k (normUrl q url)
    (relUrl q self (normUrl q url))

theorem findScan_eq_scan (q : LoadQuirks) (E : Env) (self : Str) (k : Kind) (url : Str)
    (calls : List Call) :
    findScan q E self k url calls = scan E (allProbes q E self k url) calls := by
  simp only [findScan, allProbes, allProbesAux, scan_append]
  split
  · split <;> simp_all [scan]
  · split <;> simp_all

/-- the probes of the specification, in order: for the url relative to the importing file,
each search location in order (base directory = the root importer's directory, then the load
paths) and in it every candidate; then the same for the unchanged url -/
def specProbes (E : Env) (self : Str) (k : Kind) (url : Str) : List Probe :=
  allProbes LoadQuirks.spec E self k url

theorem findScan_spec_eq (E : Env) (self : Str) (k : Kind) (url : Str) (calls : List Call) :
    findScan LoadQuirks.spec E self k url calls = scan E (specProbes E self k url) calls :=
  findScan_eq_scan _ _ _ _ _ _

/-- whether a probe hits does not depend on what the call is logged as -/
theorem findSome_hit_congr (E : Env) (A B : List Probe)
    (h : A.map (fun p => (p.name, p.roots)) = B.map (fun p => (p.name, p.roots))) :
    A.findSome? (Probe.hit E) = B.findSome? (Probe.hit E) := by
  induction A generalizing B with
  | nil => cases B with
    | nil => rfl
    | cons b B => simp at h
  | cons a A ih =>
    cases B with
    | nil => simp at h
    | cons b B =>
      simp only [List.map_cons, List.cons.injEq, Prod.mk.injEq] at h
      obtain ⟨⟨hn, hr⟩, ht⟩ := h
      simp only [List.findSome?_cons, Probe.hit, hn, hr]
      rw [ih B ht]

/-- with a single search location the two probing orders visit the same (name, location)
sequence -/
theorem mkProbes_single (r : Str) (cands : List Str) :
    (mkProbes true [r] cands).map (fun p => (p.name, p.roots)) =
      (mkProbes false [r] cands).map (fun p => (p.name, p.roots)) := by
  simp [mkProbes, Function.comp_def]

theorem allProbesAux_single (noFb : Bool) (r : Str) (k : Kind) (u u' : Str) :
    (allProbesAux true noFb [r] k u u').map (fun p => (p.name, p.roots)) =
      (allProbesAux false noFb [r] k u u').map (fun p => (p.name, p.roots)) := by
  simp only [allProbesAux, List.map_append, mkProbes_single]
  split
  · rfl
  · rw [mkProbes_single]

end Load
