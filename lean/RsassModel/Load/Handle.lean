/-
Loader family — protocol handler shared by the drivers of C02, C03, C04 and C39.

`load <limit> <rootname> <roots> <faults> <files>` (see harness/src/ops/c02.rs for the
fields) is answered with `asis\tspec`, each `class|trace|markers` where class is
`ok|loop|err|abort`, trace the comma-joined loader calls (`<url>+` hit, `<url>-` miss; `*`
when the lookup code is no longer the one modelled as-is) and markers the comma-joined
`f<tag>`, `r<tag>_<j>=<value>`, `@<url>`.  With faults, `|<class>|<markers>` of a later
fault-free compilation is appended.
-/
import RsassModel.Basic.Proto
import RsassModel.Load.Graph
namespace Load

def strOf (s : String) : Str := s.toList.map Char.toNat
def toString' (s : Str) : String := String.ofList (s.map Char.ofNat)

def parseItem (it : String) : Option Item :=
  match it.toList with
  | ['m'] => some .mark
  | 'i' :: u => some (.load .import (u.map Char.toNat) false)
  | 'I' :: u => some (.load .import (u.map Char.toNat) true)
  | 'u' :: u => some (.load .use (u.map Char.toNat) false)
  | 'f' :: u => some (.load .forward (u.map Char.toNat) false)
  | 'l' :: u => some (.load .loadCss (u.map Char.toNat) false)
  | 'U' :: u => some (.loadWith .use (u.map Char.toNat))
  | 'F' :: u => some (.loadWith .forward (u.map Char.toNat))
  | 'b' :: r =>
    match (String.ofList r).splitOn "." with
    | [k, t] => match k.toNat?, t.toNat? with
      | some k, some t => some (.bump k t)
      | _, _ => none
    | _ => none
  | _ => none

def parseItems (s : String) : Option (List Item) :=
  ((s.splitOn ",").filter (· ≠ "")).mapM parseItem

def parseFiles (s : String) : Option (List (Str × File)) :=
  let ents := (s.splitOn ";").filter (· ≠ "")
  let rec go : List String → Nat → Option (List (Str × File))
    | [], _ => some []
    | e :: es, tag =>
      match e.splitOn "=" with
      | [p, items] =>
        match parseItems items, go es (tag + 1) with
        | some its, some rest => some ((strOf p, ⟨tag, its⟩) :: rest)
        | _, _ => none
      | _ => none
  go ents 0

def parseRoots (s : String) : List Str :=
  ((s.splitOn ",").filter (· ≠ "")).map fun r => if r == "." then [] else strOf r

def parseFaults (s : String) : Option (List (Nat × Fault)) :=
  if s == "-" then some []
  else (s.splitOn ",").mapM fun p =>
    let cs := p.toList
    match cs.getLast?, (String.ofList cs.dropLast).toNat? with
    | some 'L', some n => some (n, Fault.lookup)
    | some 'R', some n => some (n, Fault.read)
    | _, _ => none

def quirksOf (qs : List String) : LoadQuirks :=
  { loadKeyTextual := qs.contains "loadKeyTextual",
    loadCssUnlockEarly := qs.contains "loadCssUnlockEarly",
    noLoadPathFallback := qs.contains "noLoadPathFallback",
    candidateMajor := qs.contains "candidateMajor",
    normalizeKeepsEmpty := qs.contains "normalizeKeepsEmpty",
    importFreshCache := qs.contains "importFreshCache",
    forwardingModuleCopied := qs.contains "forwardingModuleCopied",
    reconfigureIgnored := qs.contains "reconfigureIgnored",
    dirUrlKeepsSlash := qs.contains "dirUrlKeepsSlash" }

def showCall (c : Call) : String := toString' c.url ++ (if c.hit then "+" else "-")

def showMarker : Marker → String
  | .file t => s!"f{t}"
  | .read t j v => s!"r{t}_{j}={v}"
  | .cssImport u => "@" ++ toString' u

def showMarkers (s : St) : String := ",".intercalate ((s.imports ++ s.out).map showMarker)

def classOf : Err → String
  | .loop => "loop"
  | .fuel => "abort"
  | _ => "err"

/-- `class|markers` -/
def showShort : Res → String
  | .ok s => "ok|" ++ showMarkers s
  | .err e _ => classOf e ++ "|"

/-- `class|trace|markers`; `traceKnown = false` prints `*` for the trace -/
def showRes (traceKnown : Bool) : Res → String
  | .ok s => "ok|" ++ (if traceKnown then ",".intercalate (s.calls.map showCall) else "*") ++ "|" ++ showMarkers s
  | .err .fuel _ => "abort||"
  | .err e s => classOf e ++ "|" ++ (if traceKnown then ",".intercalate (s.calls.map showCall) else "*") ++ "|"

/-- depth allowance for the as-is model: a run that is still descending after this many nested
files is a diverging one (textual keys never repeat once they start growing, unlocked
`load-css` bodies never lock) -/
def asisFuel (W : World) : Nat := 4 * W.files.length + 16

def answer (q : LoadQuirks) (files : List (Str × File)) (roots : List Str)
    (faults : List (Nat × Fault)) (root : Str) (fuel : List (Str × File) → Nat) (traceKnown : Bool) : String :=
  let W : World := ⟨files, roots, fun i => faults.lookup i⟩
  let r := showRes traceKnown (run q W (fuel files) root)
  if faults.isEmpty then r
  else
    let W0 : World := ⟨files, roots, fun _ => none⟩
    r ++ "|" ++ showShort (run q W0 (fuel files) root)

def handle (quirks : List String) (op : String) (args : List String) : String :=
  match op == "load" || op == "loadfs", args with
  | true, [_limit, root, roots, faults, files] =>
    match parseFiles files, parseFaults faults with
    | some fs, some fl =>
      let q := quirksOf quirks
      -- every (search path, name) probe is logged by the virtual loader; the recording wrapper
      -- around the real FsLoader (op loadfs) sees single probes only on trees without find_first
      let known := op == "load" || q.candidateMajor
      let rs := parseRoots roots
      answer q fs rs fl (strOf root) (fun f => 4 * f.length + 16) known
        ++ "\t" ++ answer LoadQuirks.spec fs rs fl (strOf root) (fun f => f.length + 2) true
    | _, _ => "bad-args"
  | true, _ => "bad-args"
  | false, _ => "bad-op"

end Load
