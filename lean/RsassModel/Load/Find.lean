/-
Loader family — file lookup (C04; used by C02, C03, C39).

Rust mirrored:
* `Context::find_file` (rsass/src/input/context.rs): the two candidate-name tables
  (`names`), `relative`, the call of `do_find_file`, `SourceFile::read` (format from the
  name's suffix, read error), the name given to the loaded file (`from.url(&path)`).
* `Context::do_find_file`: a url ending in `.css`/`.sass`/`.scss` is looked up as it is,
  otherwise each candidate name is handed to `Loader::find_file` until one exists.
* `FsLoader::find_file` (rsass/src/input/fsloader.rs): an empty url is never found; each
  search path in order, `base.join(url).is_file()`.
* `Loader::find_file` returning `Err` / the returned reader failing: the fault oracle
  `World.fail : call index → Option Fault`.

Deviation flags (`LoadQuirks`): `spec` = all off = what the properties demand.
-/
import RsassModel.Load.Path
namespace Load

def extScss : Str := [46, 115, 99, 115, 115]  -- ".scss"
def extCss : Str := [46, 99, 115, 115]  -- ".css"
def extSass : Str := [46, 115, 97, 115, 115]  -- ".sass"
def extImportScss : Str := [46, 105, 109, 112, 111, 114, 116, 46, 115, 99, 115, 115]  -- ".import.scss"
def slashIndexScss : Str := [47, 105, 110, 100, 101, 120, 46, 115, 99, 115, 115]  -- "/index.scss"
def slashUIndexScss : Str := [47, 95, 105, 110, 100, 101, 120, 46, 115, 99, 115, 115]  -- "/_index.scss"
def slashIndexImportScss : Str := [47, 105, 110, 100, 101, 120, 46, 105, 109, 112, 111, 114, 116, 46, 115, 99, 115, 115]  -- "/index.import.scss"
def slashUIndexImportScss : Str := [47, 95, 105, 110, 100, 101, 120, 46, 105, 109, 112, 111, 114, 116, 46, 115, 99, 115, 115]  -- "/_index.import.scss"
def httpPre : Str := [104, 116, 116, 112, 58, 47, 47]  -- "http://"
def httpsPre : Str := [104, 116, 116, 112, 115, 58, 47, 47]  -- "https://"
def slashSlash : Str := [47, 47]  -- "//"
def urlOpen : Str := [117, 114, 108, 40]  -- "url("
def closeParen : Str := [41]  -- ")"

/-- why a load is attempted (`SourceKind`; `loadCss` = `SourceKind::Call("load-css", _)`) -/
inductive Kind | import | use | forward | loadCss
  deriving DecidableEq, Repr

/-- `Fault.lookup`: `Loader::find_file` returns `Err`; `Fault.read`: the file is returned but
its reader fails -/
inductive Fault | lookup | read
  deriving DecidableEq, Repr

/-- Deviations of the code from the properties; one flag per call site. -/
structure LoadQuirks where
  /-- C02/C03: the name of a loaded file — the key of `Context.loading` and of
  `CssData.modules`, and the base of later relative lookups — is the text handed to the
  loader (`./a.scss`, `d/../a.scss` and `a.scss` are three keys), not the file's identity -/
  loadKeyTextual : Bool := false
  /-- C02: `MixinDecl::LoadCss` unlocks the file before its body is evaluated -/
  loadCssUnlockEarly : Bool := false
  /-- C04: `find_file` looks the url up relative to the importing file only; it is never
  tried unchanged in the load paths -/
  noLoadPathFallback : Bool := false
  /-- C04: the candidate loop is in `Context::do_find_file` and the search-path loop inside
  `FsLoader::find_file`, so an earlier candidate in a later load path beats a later candidate
  in the importer's directory -/
  candidateMajor : Bool := false
  /-- C02/C03 (between commits 51f269b and 3fe5f5c): `normalize` keeps empty path segments, so
  `d//../a` and `m//lib` are still extra names of `a` and `m/lib` -/
  normalizeKeepsEmpty : Bool := false
  /-- C03: `Item::Import` evaluates the imported file into a fresh `CssData` (`thead`), whose
  module cache is empty and is thrown away afterwards: a module used inside an imported file is
  executed again -/
  importFreshCache : Bool := false
  /-- C03: `Scope::do_use` → `with_forwarded` (variablescope.rs): a module that has forwarded
  something is merged into a *fresh copy* at every `@use`, so its users do not share its
  variables -/
  forwardingModuleCopied : Bool := false
  /-- C37 (before commit 23c2f01): `@use … with (…)` of an already loaded module silently took
  the loaded module; since then it is an error -/
  reconfigureIgnored : Bool := false
  /-- C02/C03 (open): a relative url that normalises to a directory keeps its trailing slash
  (`@use "."` in `w/b.scss` → `w/` → the name `w//_index.scss`, an alias of `w/_index.scss`) -/
  dirUrlKeepsSlash : Bool := false
  deriving DecidableEq, Repr

def LoadQuirks.spec : LoadQuirks := {}
def LoadQuirks.asis : LoadQuirks :=
  { loadKeyTextual := true, loadCssUnlockEarly := true, noLoadPathFallback := true,
    candidateMajor := true, normalizeKeepsEmpty := true, importFreshCache := true,
    forwardingModuleCopied := true, reconfigureIgnored := true, dirUrlKeepsSlash := true }

/-- the code after the first round of repairs — 56921f7 (fallback lookup) and 51f269b
(normalised urls) — and before the second -/
def LoadQuirks.mid : LoadQuirks :=
  { loadCssUnlockEarly := true, candidateMajor := true, normalizeKeepsEmpty := true,
    importFreshCache := true, forwardingModuleCopied := true, reconfigureIgnored := true,
    dirUrlKeepsSlash := true }

/-- the code today: also 3fe5f5c (empty segments), a803597 (load-css stays locked) and
31d0dab (`Loader::find_first`: location-major lookup) -/
def LoadQuirks.now : LoadQuirks :=
  { importFreshCache := true, forwardingModuleCopied := true, dirUrlKeepsSlash := true }

/-- the `names` tables of `Context::find_file`; `base` is empty or ends with a slash -/
def candidates (k : Kind) (base name : Str) : List Str :=
  if k = .import then
    [ base ++ name ++ extImportScss,
      base ++ underscore :: name ++ extImportScss,
      base ++ name ++ extScss,
      base ++ underscore :: name ++ extScss,
      base ++ name ++ slashIndexImportScss,
      base ++ name ++ slashUIndexImportScss,
      base ++ name ++ slashIndexScss,
      base ++ name ++ slashUIndexScss,
      base ++ name ++ extCss,
      base ++ underscore :: name ++ extCss ]
  else
    [ base ++ name ++ extScss,
      base ++ underscore :: name ++ extScss,
      base ++ name ++ slashIndexScss,
      base ++ name ++ slashUIndexScss,
      base ++ name ++ extCss,
      base ++ underscore :: name ++ extCss ]

def hasExt (url : Str) : Bool :=
  endsWith url extCss || endsWith url extSass || endsWith url extScss

/-- the names `do_find_file` asks the loader for, in order -/
def namesFor (k : Kind) (url : Str) : List Str :=
  if hasExt url then [url] else candidates k (dirOf url) (nameOf url)

/-- one loader call as the recording loader sees it -/
structure Call where
  url : Str
  hit : Bool
  deriving DecidableEq, Repr

/-- a file of the (virtual) file system: its tag (position in the case's file table) and the
canonical paths of all files are what lookups need; bodies live in `Graph.lean` -/
structure Probe where
  /-- what the call is logged as -/
  label : Str
  /-- the name the file gets when this probe hits -/
  name : Str
  /-- the search prefixes this probe tries, in order -/
  roots : List Str
  deriving Repr

/-- external behaviour of one compilation: the files that exist (canonical paths), the
loader's search prefixes (first = base directory, then the load paths), the fault oracle -/
structure Env where
  paths : List Str
  roots : List Str
  fail : Nat → Option Fault

/-- `FsLoader::find_file` restricted to the prefixes `roots` -/
def loaderHit (paths : List Str) (roots : List Str) (url : Str) : Option Str :=
  if url.isEmpty then none
  else roots.findSome? fun r => resolvePath paths (r ++ url)

/-- candidate-major probing (the code as it is): one loader call per candidate, the loader
walks its search paths.  Location-major probing (the property): every candidate in the
first location, then every candidate in the next one. -/
def mkProbes (candidateMajor : Bool) (roots : List Str) (cands : List Str) : List Probe :=
  if candidateMajor then cands.map fun c => ⟨c, c, roots⟩
  else roots.flatMap fun r => cands.map fun c => ⟨r ++ c, c, [r]⟩

inductive ScanRes
  /-- `name`: as handed to the loader; `phys`: the file it denotes -/
  | found (name phys : Str) (calls : List Call)
  | missing (calls : List Call)
  | fault (calls : List Call)
  deriving Repr

/-- the `for name in names` loop of `do_find_file` with the fault oracle; the call index of
a probe is the number of calls made before it -/
def scan (E : Env) : List Probe → List Call → ScanRes
  | [], calls => .missing calls
  | p :: ps, calls =>
    if E.fail calls.length = some .lookup then .fault (calls ++ [⟨p.label, false⟩])
    else match loaderHit E.paths p.roots p.name with
      | none => scan E ps (calls ++ [⟨p.label, false⟩])
      | some phys =>
        if E.fail calls.length = some .read then .fault (calls ++ [⟨p.label, true⟩])
        else .found p.name phys (calls ++ [⟨p.label, true⟩])

inductive FindRes
  | found (name : Str) (calls : List Call)
  | missing (calls : List Call)
  /-- the loader or the reader failed -/
  | fault (calls : List Call)
  /-- `LoadError::UnknownFormat`: the found name ends neither in `.scss` nor in `.css` -/
  | badFormat (calls : List Call)
  deriving Repr

def FindRes.calls : FindRes → List Call
  | .found _ c | .missing c | .fault c | .badFormat c => c

/-- the url as `find_file` uses it: as written (before commit 51f269b), else normalised -/
def normUrl (q : LoadQuirks) (url : Str) : Str :=
  if q.loadKeyTextual then url else normalize (!q.normalizeKeepsEmpty) url

/-- `relative(&from, url)`: `url` when the importing file's name has no `/`, else its directory
++ url — normalised again since commit 51f269b -/
def relUrl (q : LoadQuirks) (self url : Str) : Str :=
  if (dirOf self).isEmpty then url
  else if q.loadKeyTextual then dirOf self ++ url
  else
    let u := normalize (!q.normalizeKeepsEmpty) (dirOf self ++ url)
    -- demanded by the property, absent from the code: `w/` (a directory) is the url `w`
    if !q.dirUrlKeepsSlash && 1 < u.length && u.getLast? == some slash && url.getLast? != some slash
    then u.dropLast else u

/-- the lookups of `Context::find_file`: `do_find_file(relative(from, url))` and, since commit
56921f7, `do_find_file(url)` when that finds nothing and the two urls differ -/
def findScan (q : LoadQuirks) (E : Env) (self : Str) (k : Kind) (url : Str)
    (calls : List Call) : ScanRes :=
  let url := normUrl q url
  let url' := relUrl q self url
  match scan E (mkProbes q.candidateMajor E.roots (namesFor k url')) calls with
  | .missing calls' =>
    if q.noLoadPathFallback || url' == url then .missing calls'
    else scan E (mkProbes q.candidateMajor E.roots (namesFor k url)) calls'
  | a => a

/-- `SourceFormat::try_from(name)` succeeds -/
def okFormat (name : Str) : Bool := endsWith name extScss || endsWith name extCss

/-- `Context::find_file` up to (not including) `lock_loading`. `self` is the name of the
file containing the load statement. -/
def findFile (q : LoadQuirks) (E : Env) (self : Str) (k : Kind) (url : Str)
    (calls : List Call) : FindRes :=
  match findScan q E self k url calls with
  | .missing c => .missing c
  | .fault c => .fault c
  | .found name _ c =>
    -- SourceFile::read: SourceFormat::try_from(name) first, then the read
    if okFormat name then .found name c else .badFormat c

/-- the plain-CSS `@import` fallback test of `Item::Import` in transform.rs -/
def cssFallback (url : Str) (unquoted : Bool) : Bool :=
  startsWith url httpPre || startsWith url httpsPre || startsWith url slashSlash
    || endsWith url extCss
    || (unquoted && endsWith url closeParen && startsWith url urlOpen)

end Load
