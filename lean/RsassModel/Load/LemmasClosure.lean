/-
Loader family — a concrete, finite, *checkable* set of names for the real finder.

`C02.load_terminates` needs a finite list `K` containing every name that lookups can return.
For `fsFinder` such a list cannot be given once and for all from the file table alone (an alias
like `sub//_index.scss`, or a url containing `://`, is a name that is not a path of the table),
but for every concrete world it can be *computed and checked*: `closedUnder q W K` decides
whether every load statement in the body of every name in `K` resolves — in the fault-free
world — to a name in `K`.  Faults only turn results into errors, never into other names
(`findFile_found_quiet`), so a closed `K` bounds the names of every run, with any fault oracle.
-/
import RsassModel.Load.LemmasFind
import RsassModel.Load.LemmasGraph
namespace Load

/-- the same world with a loader that never fails -/
def World.quiet (W : World) : World := { W with fail := fun _ => none }

/-- a scan that finds a file under some fault oracle finds the same file without faults -/
theorem scan_found_quiet (E E0 : Env) (hp : E0.paths = E.paths) (h0 : NoFaults E0)
    (ps : List Probe) (calls calls0 : List Call) (n p : Str) (c : List Call)
    (h : scan E ps calls = .found n p c) : ∃ c0, scan E0 ps calls0 = .found n p c0 := by
  induction ps generalizing calls calls0 with
  | nil => simp [scan] at h
  | cons pr ps ih =>
    have hf : E0.fail calls0.length = none := h0 _
    simp only [scan] at h ⊢
    rw [hf, hp]
    split at h
    · cases h
    · cases hl : loaderHit E.paths pr.roots pr.name with
      | none => rw [hl] at h; simp only [] at h ⊢; simpa using ih _ _ h
      | some phys =>
        rw [hl] at h
        simp only [] at h ⊢
        split at h
        · cases h
        · cases h; exact ⟨calls0 ++ [⟨pr.label, true⟩], by simp⟩

theorem findFile_found_quiet (q : LoadQuirks) (W : World) (self : Str) (k : Kind) (url : Str)
    (calls : List Call) (name : Str) (c : List Call)
    (h : findFile q W.env self k url calls = .found name c) :
    ∃ c0, findFile q W.quiet.env self k url [] = .found name c0 := by
  unfold findFile at h ⊢
  split at h
  · cases h
  · cases h
  · next n p c' hs =>
    rw [findScan_eq_scan] at hs
    obtain ⟨c0, h0⟩ := scan_found_quiet W.env W.quiet.env rfl (fun _ => rfl) _ calls [] n p c' hs
    have : allProbes q W.quiet.env self k url = allProbes q W.env self k url := rfl
    rw [findScan_eq_scan, this, h0]
    split at h
    · next hok => cases h; exact ⟨c0, by simp [hok]⟩
    · cases h

/-- the names that the load statements of the file `n` resolve to (fault-free) -/
def namesFrom (q : LoadQuirks) (W : World) (n : Str) : List Str :=
  (bodyItems (fsFinder q W) n).filterMap fun it =>
    match it.target with
    | none => none
    | some (k, url) =>
      match findFile q W.quiet.env n k url [] with
      | .found name _ => some name
      | _ => none

/-- every load statement in the body of every name of `K` resolves to a name of `K` -/
def closedUnder (q : LoadQuirks) (W : World) (K : List Str) : Bool :=
  K.all fun n => (namesFrom q W n).all fun m => K.contains m

/-- breadth-first closure of `K` under `namesFrom`, `n` rounds -/
def reach (q : LoadQuirks) (W : World) : Nat → List Str → List Str
  | 0, K => K
  | n + 1, K => reach q W n (K ++ (K.flatMap (namesFrom q W)).filter fun m => !K.contains m).eraseDups

theorem closedUnder_found {q : LoadQuirks} {W : World} {K : List Str} (hc : closedUnder q W K = true)
    {self : Str} (hs : self ∈ K) {it : Item} (hit : it ∈ bodyItems (fsFinder q W) self)
    {k : Kind} {url : Str} (ht : it.target = some (k, url)) {calls : List Call} {name : Str}
    {c : List Call} (hf : (fsFinder q W).find self k url calls = .found name c) : name ∈ K := by
  obtain ⟨c0, h0⟩ := findFile_found_quiet q W self k url calls name c hf
  have hall := List.all_eq_true.mp hc self hs
  have hmem : name ∈ namesFrom q W self := by
    unfold namesFrom
    rw [List.mem_filterMap]
    exact ⟨it, hit, by simp [ht, h0]⟩
  have := List.all_eq_true.mp hall name hmem
  simpa using this

end Load
