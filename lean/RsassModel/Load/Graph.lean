/-
Loader family — the load graph (C02, C03, C39; bodies for C04).

Rust mirrored:
* `Context::transform`, `lock_loading`, `unlock_loading` (rsass/src/input/context.rs):
  `loading` keyed by the file's name; inserting a name that is present is `ImportLoop`.
* `Item::Use`, `Item::Forward`, `Item::Import` in `handle_item` (rsass/src/output/transform.rs):
  `find_file` (which locks), `CssData::load_module` (cache lookup *after* the lock), body,
  `unlock_loading`; the plain-CSS import fallback.
* `CssData::load_module` (rsass/src/output/cssdata.rs): cache keyed by the file's name.
* `MixinDecl::LoadCss` (rsass/src/sass/mixin.rs): `find_file`, `unlock_loading`, and only then
  the body is run by `Item::MixinCall`.

A stylesheet is a list of `Item`s: load statements, a marker rule naming the file, and a
read-and-increment of a module variable through a `@use` namespace (C03's observable).
The semantics is generic in a `Finder` (name resolution + which body runs under a name), so
that the theorems hold for every file system, search path, spelling scheme and fault oracle;
`fsFinder` (below) instantiates it with `findFile`.
Recursion depth is bounded by `fuel`; every nested file body costs one unit.
-/
import RsassModel.Load.Find
namespace Load

inductive Item
  /-- `@import`/`@use`/`@forward`/`meta.load-css` of `url`; `unquoted`: written without quotes
  (only `@import url(..)`) -/
  | load (k : Kind) (url : Str) (unquoted : Bool)
  /-- `@use "url" as m<j> with ($cfg: 1)` / `@forward "url" with ($cfg: 1)` (`k` is `use` or
  `forward`) -/
  | loadWith (k : Kind) (url : Str)
  /-- a style rule `.f<tag>{a:b}` naming the file it is written in -/
  | mark
  /-- `.r<tag>_<j>{v: m<k>.$c<t>}  m<k>.$c<t>: m<k>.$c<t> + 1;` — read and increment the
  counter variable of the module bound by item `k` of this file, expected to be file `t` -/
  | bump (k t : Nat)
  deriving DecidableEq, Repr

structure File where
  tag : Nat
  items : List Item
  deriving Repr

/-- name resolution as seen by the load graph -/
structure Finder where
  /-- `find self kind url calls` — `Context::find_file` before the lock -/
  find : Str → Kind → Str → List Call → FindRes
  /-- the file that runs under a name -/
  body : Str → File

inductive Marker
  | file (tag : Nat)
  | read (tag j val : Nat)
  | cssImport (url : Str)
  deriving DecidableEq, Repr

inductive Err | loop | notFound | fault | format | badBump | fuel | config
  deriving DecidableEq, Repr

structure St where
  /-- `Context.loading` (keys) -/
  loading : List Str := []
  /-- `CssData.modules`: name ↦ module id -/
  modules : List (Str × Nat) := []
  /-- module id ↦ tag of the module's file -/
  modTags : List Nat := []
  /-- module id ↦ value of its counter variable -/
  counters : List Nat := []
  /-- module id ↦ the module's scope has a forward scope (its body ran an `@forward`) -/
  modFwd : List Bool := []
  /-- the scope of the body being executed has a forward scope -/
  fwdSeen : Bool := false
  /-- every `Loader::find_file` call so far -/
  calls : List Call := []
  /-- `CssData.imports` -/
  imports : List Marker := []
  /-- `CssData.body` -/
  out : List Marker := []
  /-- ghost: names whose body was run as a module, newest first -/
  execLog : List Str := []
  /-- ghost: (name, module id) handed to each completed `@use`/`@forward`, newest first -/
  useLog : List (Str × Nat) := []
  deriving Repr

inductive Res
  | ok (s : St)
  | err (e : Err) (s : St)
  deriving Repr

/-- `lock_loading` -/
def lock (name : Str) (s : St) : Option St :=
  if name ∈ s.loading then none else some { s with loading := name :: s.loading }

/-- `unlock_loading` -/
def unlock (name : Str) (s : St) : St := { s with loading := s.loading.erase name }

def isCssName (name : Str) : Bool := endsWith name extCss && !endsWith name extScss

/-- `CssData::load_module(path, init)`: cache hit, or run the body and insert.  Returns the
module id. `enter name s` runs the body of the file `name`. -/
def loadModule (F : Finder) (enter : Str → St → Res) (name : Str) (s : St) : Res × Nat :=
  match s.modules.lookup name with
  | some id => (.ok s, id)
  | none =>
    match enter name { s with execLog := name :: s.execLog, fwdSeen := false } with
    | .ok s' =>
      let id := s'.modTags.length
      (.ok { s' with modules := (name, id) :: s'.modules,
                     modTags := s'.modTags ++ [(F.body name).tag],
                     counters := s'.counters ++ [0],
                     modFwd := s'.modFwd ++ [s'.fwdSeen],
                     fwdSeen := s.fwdSeen }, id)
    | .err e s' => (.err e s', 0)

/-- a body that is not a module (`@import`, `load-css`) runs in a sub-scope with its own
(empty) forward slot -/
def enterSub (enter : Str → St → Res) (name : Str) (s : St) : Res :=
  match enter name { s with fwdSeen := false } with
  | .ok s' => .ok { s' with fwdSeen := s.fwdSeen }
  | .err e s' => .err e s'

/-- `Scope::do_use`: the module itself, or — as is, when it has forwarded members — a fresh
merged copy holding the current values -/
def bindModule (q : LoadQuirks) (id : Nat) (s : St) : St × Nat :=
  if q.forwardingModuleCopied && s.modFwd.getD id false then
    ({ s with modTags := s.modTags ++ [s.modTags.getD id 0],
              counters := s.counters ++ [s.counters.getD id 0],
              modFwd := s.modFwd ++ [false] }, s.modTags.length)
  else (s, id)

abbrev Binds := List (Nat × Nat)

/-- `let mut thead = CssData::new()` of `Item::Import`: as is, the imported body sees an empty
module cache … -/
def cacheIn (q : LoadQuirks) (s : St) : St :=
  if q.importFreshCache then { s with modules := [] } else s

/-- … and what it caches is dropped with `thead` -/
def cacheOut (q : LoadQuirks) (s s' : St) : St :=
  if q.importFreshCache then { s' with modules := s.modules } else s'

/-- `Item::Use` after `find_file` returned the (locked) file `name` -/
def runUse (q : LoadQuirks) (F : Finder) (enter : Str → St → Res) (name : Str) (j : Nat)
    (b : Binds) (s : St) : Res × Binds :=
  match loadModule F enter name s with
  | (.ok s', id) =>
    let r := bindModule q id { s' with useLog := (name, id) :: s'.useLog }
    (.ok (unlock name r.1), (j, r.2) :: b)
  | (.err e s', _) => (.err e s', b)

/-- `Item::Forward` after `find_file` -/
def runForward (F : Finder) (enter : Str → St → Res) (name : Str) (b : Binds) (s : St) :
    Res × Binds :=
  match loadModule F enter name s with
  | (.ok s', id) =>
    (.ok (unlock name { s' with useLog := (name, id) :: s'.useLog, fwdSeen := true }), b)
  | (.err e s', _) => (.err e s', b)

/-- `Item::Import` after `find_file` -/
def runImport (q : LoadQuirks) (enter : Str → St → Res) (name : Str) (s : St) : Res :=
  match enterSub enter name (cacheIn q s) with
  | .ok s' => .ok (unlock name (cacheOut q s s'))
  | .err e s' => .err e s'

/-- `MixinDecl::LoadCss` + the mixin call: as is the file is unlocked before its body runs -/
def runLoadCss (q : LoadQuirks) (enter : Str → St → Res) (name : Str) (s : St) : Res :=
  if q.loadCssUnlockEarly then enterSub enter name (unlock name s)
  else match enterSub enter name s with
    | .ok s' => .ok (unlock name s')
    | .err e s' => .err e s'

/-- the four load sites, once `find_file` has found and locked `name` -/
def runFound (q : LoadQuirks) (F : Finder) (enter : Str → St → Res) (name : Str) (j : Nat)
    (b : Binds) (s : St) : Kind → Res × Binds
  | .use => runUse q F enter name j b s
  | .forward => runForward F enter name b s
  | .import => (runImport q enter name s, b)
  | .loadCss => (runLoadCss q enter name s, b)

/-- one statement of the file `self` (item index `j`); returns the new namespace bindings -/
def execItem (q : LoadQuirks) (F : Finder) (enter : Str → St → Res) (self : Str) (j : Nat)
    (b : Binds) (s : St) : Item → Res × Binds
  | .mark => (.ok { s with out := s.out ++ [.file (F.body self).tag] }, b)
  | .bump k t =>
    match b.lookup k with
    | none => (.err .badBump s, b)
    | some id =>
      if s.modTags[id]? = some t then
        let v := s.counters.getD id 0
        (.ok { s with out := s.out ++ [.read (F.body self).tag j v],
                      counters := s.counters.set id (v + 1) }, b)
      else (.err .badBump s, b)
  | .load k url unquoted =>
    match F.find self k url s.calls with
    | .fault calls => (.err .fault { s with calls := calls }, b)
    | .badFormat calls => (.err .format { s with calls := calls }, b)
    | .missing calls =>
      if k = .import ∧ cssFallback url unquoted then
        (.ok { s with calls := calls, imports := s.imports ++ [.cssImport url] }, b)
      else (.err .notFound { s with calls := calls }, b)
    | .found name calls =>
      match lock name { s with calls := calls } with
      | none => (.err .loop { s with calls := calls }, b)
      | some s1 => runFound q F enter name j b s1 k
  | .loadWith k url =>
    match F.find self k url s.calls with
    | .fault calls => (.err .fault { s with calls := calls }, b)
    | .badFormat calls => (.err .format { s with calls := calls }, b)
    | .missing calls => (.err .notFound { s with calls := calls }, b)
    | .found name calls =>
      match lock name { s with calls := calls } with
      | none => (.err .loop { s with calls := calls }, b)
      | some s1 =>
        -- `dest.head().is_loaded(path)` (commit 23c2f01): a loaded module can't be configured —
        -- checked by `Item::Use` only; `@forward … with` of a loaded module takes the cached one
        if !q.reconfigureIgnored && k == .use && (s1.modules.lookup name).isSome then
          (.err .config s1, b)
        else runFound q F enter name j b s1 k

/-- the load statement an item is, if any -/
def Item.target : Item → Option (Kind × Str)
  | .load k url _ => some (k, url)
  | .loadWith k url => some (k, url)
  | _ => none

/-- `handle_body`: the statements in order, stopping at the first error -/
def execItems (q : LoadQuirks) (F : Finder) (enter : Str → St → Res) (self : Str) :
    List Item → Nat → Binds → St → Res
  | [], _, _, s => .ok s
  | it :: rest, j, b, s =>
    match execItem q F enter self j b s it with
    | (.ok s', b') => execItems q F enter self rest (j + 1) b' s'
    | (.err e s', _) => .err e s'

/-- what of a file is executed: a `.css` file is parsed as CSS (`handle_css`), its rules are
copied and it loads nothing -/
def bodyItems (F : Finder) (name : Str) : List Item :=
  if isCssName name then (F.body name).items.filter (· == .mark) else (F.body name).items

/-- `handle_parsed` of the file `name`, at most `fuel` files deep -/
def execBody (q : LoadQuirks) (F : Finder) : Nat → Str → St → Res
  | 0, _, s => .err .fuel s
  | fuel + 1, name, s =>
    execItems q F (execBody q F fuel) name (bodyItems F name) 0 [] s

/-- `Context::transform` of the root file -/
def compile (q : LoadQuirks) (F : Finder) (fuel : Nat) (root : Str) : Res :=
  match execBody q F fuel root { loading := [root] } with
  | .ok s => .ok (unlock root s)
  | .err e s => .err e s

/-! ### the concrete finder -/

/-- file table of a case: canonical path ↦ file -/
structure World where
  files : List (Str × File)
  roots : List Str
  fail : Nat → Option Fault

def World.env (W : World) : Env := ⟨W.files.map (·.1), W.roots, W.fail⟩

def World.fileAt (W : World) (phys : Str) : File := (W.files.lookup phys).getD ⟨0, []⟩

/-- names are loader-relative text (what was handed to the loader when the file was found) -/
def fsFinder (q : LoadQuirks) (W : World) : Finder where
  find := findFile q W.env
  body := fun name =>
    match loaderHit W.env.paths W.roots name with
    | some phys => W.fileAt phys
    | none => W.fileAt name

/-- depth that no terminating compilation of the world exceeds (see `C02.load_terminates`) -/
def World.fuel (W : World) : Nat := W.files.length + 2

def run (q : LoadQuirks) (W : World) (fuel : Nat) (root : Str) : Res :=
  compile q (fsFinder q W) fuel root

end Load
