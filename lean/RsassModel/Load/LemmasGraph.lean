/-
Loader family — lemmas about the load graph semantics (`Load/Graph.lean`), used by the
theorem files of C02, C03 and C39.
-/
import RsassModel.Load.Graph
namespace Load

/-! ### small facts -/

theorem lock_some {name : Str} {s s1 : St} (h : lock name s = some s1) :
    name ∉ s.loading ∧ s1.loading = name :: s.loading := by
  unfold lock at h
  split at h
  · cases h
  · exact ⟨by assumption, by cases h; rfl⟩

theorem lock_none {name : Str} {s : St} : lock name s = none ↔ name ∈ s.loading := by
  unfold lock; split <;> simp_all

@[simp] theorem unlock_loading (name : Str) (s : St) :
    (unlock name s).loading = s.loading.erase name := rfl

/-- the property of a body runner that all balance facts need: a successful run leaves
`loading` as it found it -/
def Balanced (enter : Str → St → Res) : Prop :=
  ∀ n s1 s2, enter n s1 = .ok s2 → s2.loading = s1.loading

theorem enterSub_balanced {enter : Str → St → Res} (h : Balanced enter) : Balanced (enterSub enter) := by
  intro n s1 s2 he
  unfold enterSub at he
  split at he
  · next s' hs => cases he; have := h n _ s' hs; simpa using this
  · next hne => simp_all

theorem loadModule_loading {F : Finder} {enter : Str → St → Res} (h : Balanced enter)
    {name : Str} {s s' : St} {id : Nat} (hl : loadModule F enter name s = (.ok s', id)) :
    s'.loading = s.loading := by
  unfold loadModule at hl
  split at hl
  · cases hl; rfl
  · split at hl
    · next s2 hs => cases hl; have := h name _ s2 hs; simpa using this
    · cases hl

theorem bindModule_loading (q : LoadQuirks) (id : Nat) (s : St) :
    (bindModule q id s).1.loading = s.loading := by
  unfold bindModule; split <;> rfl

/-- one statement leaves `loading` as it found it (whatever the deviation flags) -/
theorem execItem_loading {q : LoadQuirks} {F : Finder} {enter : Str → St → Res} (h : Balanced enter)
    {self : Str} {j : Nat} {b b' : Binds} {s s' : St} {it : Item}
    (he : execItem q F enter self j b s it = (.ok s', b')) : s'.loading = s.loading := by
  cases it with
  | mark => simp [execItem] at he; obtain ⟨rfl, _⟩ := he; rfl
  | bump k t =>
    simp only [execItem] at he
    split at he
    · cases he
    · split at he
      · simp at he; obtain ⟨rfl, _⟩ := he; rfl
      · cases he
  | load k url uq =>
    simp only [execItem] at he
    split at he
    · cases he
    · cases he
    · split at he
      · simp at he; obtain ⟨rfl, _⟩ := he; rfl
      · cases he
    · next name calls hf =>
      split at he
      · cases he
      · next s1 hlock =>
        obtain ⟨hnot, hl1⟩ := lock_some hlock
        simp only at hl1
        cases k with
        | use =>
          simp only at he
          split at he
          · next s2 id hm =>
            have := loadModule_loading h hm
            simp only [Prod.mk.injEq, Res.ok.injEq] at he
            obtain ⟨rfl, _⟩ := he
            simp [bindModule_loading, this, hl1]
          · next hne => simp only [Prod.mk.injEq] at he; obtain ⟨rfl, _⟩ := he; exact absurd rfl (hne _ _)
        | forward =>
          simp only at he
          split at he
          · next s2 id hm =>
            have := loadModule_loading h hm
            simp only [Prod.mk.injEq, Res.ok.injEq] at he
            obtain ⟨rfl, _⟩ := he
            simp [this, hl1]
          · next hne => simp only [Prod.mk.injEq] at he; obtain ⟨rfl, _⟩ := he; exact absurd rfl (hne _ _)
        | «import» =>
          simp only at he
          split at he
          · next s2 hs =>
            have := enterSub_balanced h _ _ _ hs
            simp only [Prod.mk.injEq, Res.ok.injEq] at he
            obtain ⟨rfl, _⟩ := he
            split at this <;> split <;> simp_all
          · cases he
        | loadCss =>
          simp only at he
          split at he
          · simp only [Prod.mk.injEq] at he
            obtain ⟨hs, _⟩ := he
            have := enterSub_balanced h _ _ _ hs
            simp_all
          · split at he
            · next s2 hs =>
              have := enterSub_balanced h _ _ _ hs
              simp only [Prod.mk.injEq, Res.ok.injEq] at he
              obtain ⟨rfl, _⟩ := he
              simp [this, hl1]
            · cases he

theorem execItems_loading {q : LoadQuirks} {F : Finder} {enter : Str → St → Res} (h : Balanced enter)
    {self : Str} (items : List Item) {j : Nat} {b : Binds} {s s' : St}
    (he : execItems q F enter self items j b s = .ok s') : s'.loading = s.loading := by
  induction items generalizing j b s with
  | nil => simp [execItems] at he; rw [he]
  | cons it rest ih =>
    simp only [execItems] at he
    split at he
    · next s1 b1 h1 => rw [ih he, execItem_loading h h1]
    · cases he

/-- a body that runs to completion leaves `loading` exactly as it found it -/
theorem execBody_balanced (q : LoadQuirks) (F : Finder) (fuel : Nat) : Balanced (execBody q F fuel) := by
  induction fuel with
  | zero => intro n s1 s2 h; simp [execBody] at h
  | succ fuel ih => intro n s1 s2 h; exact execItems_loading ih _ h

end Load
