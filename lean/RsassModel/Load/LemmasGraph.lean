/-
Loader family — lemmas about the load graph semantics (`Load/Graph.lean`), used by the
theorem files of C02, C03 and C39.
-/
import RsassModel.Load.Graph
namespace Load

/-! ### small facts -/

theorem lock_some {name : Str} {s s1 : St} (h : lock name s = some s1) :
    name ∉ s.loading ∧ s1.loading = name :: s.loading := by
  unfold lock at h
  split at h
  · cases h
  · exact ⟨by assumption, by cases h; rfl⟩

theorem lock_fields {name : Str} {s s1 : St} (h : lock name s = some s1) :
    s1.execLog = s.execLog ∧ s1.modules = s.modules := by
  unfold lock at h
  split at h
  · cases h
  · cases h; exact ⟨rfl, rfl⟩

theorem lock_none {name : Str} {s : St} : lock name s = none ↔ name ∈ s.loading := by
  unfold lock; split <;> simp_all

@[simp] theorem unlock_loading (name : Str) (s : St) :
    (unlock name s).loading = s.loading.erase name := rfl

/-- the property of a body runner that all balance facts need: a successful run leaves
`loading` as it found it -/
def Balanced (enter : Str → St → Res) : Prop :=
  ∀ n s1 s2, enter n s1 = .ok s2 → s2.loading = s1.loading

theorem enterSub_balanced {enter : Str → St → Res} (h : Balanced enter) : Balanced (enterSub enter) := by
  intro n s1 s2 he
  unfold enterSub at he
  split at he
  · next s' hs => cases he; have := h n _ s' hs; simpa using this
  · simp at he

theorem loadModule_loading {F : Finder} {enter : Str → St → Res} (h : Balanced enter)
    {name : Str} {s s' : St} {id : Nat} (hl : loadModule F enter name s = (.ok s', id)) :
    s'.loading = s.loading := by
  unfold loadModule at hl
  split at hl
  · cases hl; rfl
  · split at hl
    · next s2 hs => cases hl; have := h name _ s2 hs; simpa using this
    · cases hl

theorem bindModule_loading (q : LoadQuirks) (id : Nat) (s : St) :
    (bindModule q id s).1.loading = s.loading := by
  unfold bindModule; split <;> rfl

@[simp] theorem cacheIn_loading (q : LoadQuirks) (s : St) : (cacheIn q s).loading = s.loading := by
  unfold cacheIn; split <;> rfl

@[simp] theorem cacheOut_loading (q : LoadQuirks) (s s' : St) : (cacheOut q s s').loading = s'.loading := by
  unfold cacheOut; split <;> rfl

/-- a load site, entered with the file locked at the head of `loading`, ends with the file
unlocked again -/
theorem runFound_loading {q : LoadQuirks} {F : Finder} {enter : Str → St → Res} (h : Balanced enter)
    {name : Str} {j : Nat} {b b' : Binds} {s1 s' : St} {L : List Str} {k : Kind}
    (hl1 : s1.loading = name :: L)
    (he : runFound q F enter name j b s1 k = (.ok s', b')) : s'.loading = L := by
  cases k with
  | use =>
    simp only [runFound, runUse] at he
    split at he
    · next s2 id hm =>
      have := loadModule_loading h hm
      simp only [Prod.mk.injEq, Res.ok.injEq] at he
      obtain ⟨rfl, _⟩ := he
      simp [bindModule_loading, this, hl1]
    · simp at he
  | forward =>
    simp only [runFound, runForward] at he
    split at he
    · next s2 id hm =>
      have := loadModule_loading h hm
      simp only [Prod.mk.injEq, Res.ok.injEq] at he
      obtain ⟨rfl, _⟩ := he
      simp [this, hl1]
    · simp at he
  | «import» =>
    simp only [runFound, runImport, Prod.mk.injEq] at he
    obtain ⟨he, _⟩ := he
    split at he
    · next s2 hs =>
      have := enterSub_balanced h _ _ _ hs
      simp only [Res.ok.injEq] at he
      subst he
      simp [this, hl1]
    · simp at he
  | loadCss =>
    simp only [runFound, runLoadCss, Prod.mk.injEq] at he
    obtain ⟨he, _⟩ := he
    split at he
    · have := enterSub_balanced h _ _ _ he
      simp [this, hl1]
    · split at he
      · next s2 hs =>
        have := enterSub_balanced h _ _ _ hs
        simp only [Res.ok.injEq] at he
        subst he
        simp [this, hl1]
      · simp at he

/-- one statement leaves `loading` as it found it (whatever the deviation flags) -/
theorem execItem_loading {q : LoadQuirks} {F : Finder} {enter : Str → St → Res} (h : Balanced enter)
    {self : Str} {j : Nat} {b b' : Binds} {s s' : St} {it : Item}
    (he : execItem q F enter self j b s it = (.ok s', b')) : s'.loading = s.loading := by
  cases it with
  | mark => simp [execItem] at he; obtain ⟨rfl, _⟩ := he; rfl
  | bump k t =>
    simp only [execItem] at he
    split at he
    · simp at he
    · split at he
      · simp at he; obtain ⟨rfl, _⟩ := he; rfl
      · simp at he
  | load k url uq =>
    simp only [execItem] at he
    split at he
    · simp at he
    · simp at he
    · split at he
      · simp at he; obtain ⟨rfl, _⟩ := he; rfl
      · simp at he
    · next name calls hf =>
      split at he
      · simp at he
      · next s1 hlock =>
        obtain ⟨hnot, hl1⟩ := lock_some hlock
        exact runFound_loading h hl1 he
  | loadWith k url =>
    simp only [execItem] at he
    split at he
    · simp at he
    · simp at he
    · simp at he
    · next name calls hf =>
      split at he
      · simp at he
      · next s1 hlock =>
        obtain ⟨hnot, hl1⟩ := lock_some hlock
        split at he
        · simp at he
        · exact runFound_loading h hl1 he

theorem execItems_loading {q : LoadQuirks} {F : Finder} {enter : Str → St → Res} (h : Balanced enter)
    {self : Str} (items : List Item) {j : Nat} {b : Binds} {s s' : St}
    (he : execItems q F enter self items j b s = .ok s') : s'.loading = s.loading := by
  induction items generalizing j b s with
  | nil => simp [execItems] at he; rw [he]
  | cons it rest ih =>
    simp only [execItems] at he
    split at he
    · next s1 b1 h1 => rw [ih he, execItem_loading h h1]
    · simp at he

/-- a body that runs to completion leaves `loading` exactly as it found it -/
theorem execBody_balanced (q : LoadQuirks) (F : Finder) (fuel : Nat) : Balanced (execBody q F fuel) := by
  induction fuel with
  | zero => intro n s1 s2 h; simp [execBody] at h
  | succ fuel ih => intro n s1 s2 h; exact execItems_loading ih _ h

/-! ### a class of errors that never arises -/

/-- the result is an error of the class `bad` -/
def Res.isBad (bad : Err → Bool) : Res → Bool
  | .ok _ => false
  | .err e _ => bad e

/-- `bad` errors are not produced by a statement itself, except possibly the loop error -/
def OnlyNested (bad : Err → Bool) : Prop :=
  bad .fault = false ∧ bad .format = false ∧ bad .notFound = false ∧ bad .badBump = false
    ∧ bad .config = false

theorem enterSub_bad {bad : Err → Bool} {enter : Str → St → Res} {name : Str} {s : St}
    (h : (enter name { s with fwdSeen := false }).isBad bad = false) :
    (enterSub enter name s).isBad bad = false := by
  unfold enterSub
  split
  · rfl
  · next e s' hs => rw [hs] at h; exact h

theorem loadModule_bad {bad : Err → Bool} {F : Finder} {enter : Str → St → Res} {name : Str} {s : St}
    (h : ∀ s1 : St, s1.loading = s.loading → (enter name s1).isBad bad = false) :
    (loadModule F enter name s).1.isBad bad = false := by
  unfold loadModule
  split
  · rfl
  · split
    · rfl
    · next e s' hs =>
      have := h _ (by rfl : ({ s with execLog := name :: s.execLog, fwdSeen := false } : St).loading = s.loading)
      rw [hs] at this; exact this

/-- a load site produces no `bad` error when entering the body does not (load-css locked
during its body: `loadCssUnlockEarly` off) -/
theorem runFound_bad {bad : Err → Bool} {q : LoadQuirks} (hq : q.loadCssUnlockEarly = false)
    {F : Finder} {enter : Str → St → Res} {name : Str} {j : Nat} {b : Binds} {s1 : St} {k : Kind}
    (h : ∀ s2 : St, s2.loading = s1.loading → (enter name s2).isBad bad = false) :
    (runFound q F enter name j b s1 k).1.isBad bad = false := by
  cases k with
  | use =>
    simp only [runFound, runUse]
    have := loadModule_bad (F := F) (bad := bad) (enter := enter) (name := name) (s := s1) h
    split
    · rfl
    · next e s' _ hm => rw [hm] at this; exact this
  | forward =>
    simp only [runFound, runForward]
    have := loadModule_bad (F := F) (bad := bad) (enter := enter) (name := name) (s := s1) h
    split
    · rfl
    · next e s' _ hm => rw [hm] at this; exact this
  | «import» =>
    simp only [runFound, runImport]
    have := enterSub_bad (bad := bad) (enter := enter) (name := name) (s := cacheIn q s1)
      (h _ (by simp))
    split
    · rfl
    · next e s' hs => rw [hs] at this; exact this
  | loadCss =>
    simp only [runFound, runLoadCss, hq, Bool.false_eq_true, if_false]
    have := enterSub_bad (bad := bad) (enter := enter) (name := name) (s := s1) (h _ rfl)
    split
    · rfl
    · next e s' hs => rw [hs] at this; exact this

/-- Generic invariant lemma for a statement list.  `Pre n L'` is what is known when the body of
`n` is entered with `loading = L'`; a statement of `self` (running with `loading = L`) that finds
`n` unlocked must establish it; when the loop error is `bad`, found files must be unlocked. -/
theorem execItems_bad {bad : Err → Bool} (hb : OnlyNested bad) {q : LoadQuirks}
    (hq : q.loadCssUnlockEarly = false) {F : Finder} {enter : Str → St → Res} (hbal : Balanced enter)
    (Pre : Str → List Str → Prop)
    (henter : ∀ n (s1 : St), Pre n s1.loading → (enter n s1).isBad bad = false)
    {self : Str} (L : List Str) (items : List Item)
    (hstep : ∀ it k url calls n c, it ∈ items → it.target = some (k, url) →
      F.find self k url calls = .found n c → n ∉ L → Pre n (n :: L))
    (hloop : bad .loop = true → ∀ it k url calls n c, it ∈ items → it.target = some (k, url) →
      F.find self k url calls = .found n c → n ∉ L)
    {j : Nat} {b : Binds} {s : St} (hL : s.loading = L) :
    (execItems q F enter self items j b s).isBad bad = false := by
  induction items generalizing j b s with
  | nil => rfl
  | cons it rest ih =>
    simp only [execItems]
    split
    · next s' b' h1 =>
      apply ih
      · intro it' k url calls n c hm; exact hstep it' k url calls n c (List.mem_cons_of_mem _ hm)
      · intro hl it' k url calls n c hm; exact hloop hl it' k url calls n c (List.mem_cons_of_mem _ hm)
      · rw [execItem_loading hbal h1, hL]
    · next e s' _ h1 =>
      -- the statement itself failed: show the error is not `bad`
      obtain ⟨hf, hfo, hnf, hbb, hcf⟩ := hb
      cases it with
      | mark => simp [execItem] at h1
      | bump k t =>
        simp only [execItem] at h1
        split at h1
        · simp at h1; obtain ⟨⟨rfl, _⟩, _⟩ := h1; exact hbb
        · split at h1
          · simp at h1
          · simp at h1; obtain ⟨⟨rfl, _⟩, _⟩ := h1; exact hbb
      | load k url uq =>
        simp only [execItem] at h1
        split at h1
        · simp at h1; obtain ⟨⟨rfl, _⟩, _⟩ := h1; exact hf
        · simp at h1; obtain ⟨⟨rfl, _⟩, _⟩ := h1; exact hfo
        · split at h1
          · simp at h1
          · simp at h1; obtain ⟨⟨rfl, _⟩, _⟩ := h1; exact hnf
        · next name calls hfind =>
          split at h1
          · next hlock =>
            simp at h1; obtain ⟨⟨rfl, _⟩, _⟩ := h1
            have hin : name ∈ L := by
              have := lock_none.mp hlock; simpa [hL] using this
            cases hbl : bad .loop with
            | false => simp [Res.isBad, hbl]
            | true => exact absurd hin (hloop hbl _ k url s.calls name calls (List.mem_cons_self ..) rfl hfind)
          · next s1 hlock =>
            obtain ⟨hnot, hl1⟩ := lock_some hlock
            simp only [hL] at hnot hl1
            have hpre := hstep _ k url s.calls name calls (List.mem_cons_self ..) rfl hfind hnot
            have := runFound_bad (bad := bad) hq (F := F) (enter := enter) (name := name) (j := j)
              (b := b) (s1 := s1) (k := k)
              (fun s2 h2 => henter name s2 (by rw [h2, hl1]; exact hpre))
            rw [h1] at this; exact this
      | loadWith k url =>
        simp only [execItem] at h1
        split at h1
        · simp at h1; obtain ⟨⟨rfl, _⟩, _⟩ := h1; exact hf
        · simp at h1; obtain ⟨⟨rfl, _⟩, _⟩ := h1; exact hfo
        · simp at h1; obtain ⟨⟨rfl, _⟩, _⟩ := h1; exact hnf
        · next name calls hfind =>
          split at h1
          · next hlock =>
            simp at h1; obtain ⟨⟨rfl, _⟩, _⟩ := h1
            have hin : name ∈ L := by
              have := lock_none.mp hlock; simpa [hL] using this
            cases hbl : bad .loop with
            | false => simp [Res.isBad, hbl]
            | true => exact absurd hin (hloop hbl _ k url s.calls name calls (List.mem_cons_self ..) rfl hfind)
          · next s1 hlock =>
            obtain ⟨hnot, hl1⟩ := lock_some hlock
            simp only [hL] at hnot hl1
            split at h1
            · simp at h1; obtain ⟨⟨rfl, _⟩, _⟩ := h1; exact hcf
            · have hpre := hstep _ k url s.calls name calls (List.mem_cons_self ..) rfl hfind hnot
              have := runFound_bad (bad := bad) hq (F := F) (enter := enter) (name := name) (j := j)
                (b := b) (s1 := s1) (k := k)
                (fun s2 h2 => henter name s2 (by rw [h2, hl1]; exact hpre))
              rw [h1] at this; exact this

/-! ### the termination measure -/

/-- how many of the names `K` are not being loaded -/
def room : List Str → List Str → Nat
  | [], _ => 0
  | k :: K, L => (if k ∈ L then 0 else 1) + room K L

theorem room_le (K L : List Str) : room K L ≤ K.length := by
  induction K with
  | nil => simp [room]
  | cons k K ih => simp only [room, List.length_cons]; split <;> omega

theorem room_cons_le (K L : List Str) (n : Str) : room K (n :: L) ≤ room K L := by
  induction K with
  | nil => simp [room]
  | cons k K ih =>
    simp only [room]
    by_cases h1 : k ∈ L
    · have : k ∈ n :: L := List.mem_cons_of_mem _ h1
      simp [h1, this, ih]
    · by_cases h2 : k ∈ n :: L
      · simp [h1, h2]; omega
      · simp [h1, h2, ih]

theorem room_cons_lt {K L : List Str} {n : Str} (hn : n ∈ K) (hnl : n ∉ L) :
    room K (n :: L) < room K L := by
  induction K with
  | nil => cases hn
  | cons k K ih =>
    simp only [room]
    by_cases hk : k = n
    · subst hk
      have := room_cons_le K L k
      simp [hnl]; omega
    · have hn' : n ∈ K := by
        cases hn with
        | head => exact absurd rfl hk
        | tail _ h => exact h
      have := ih hn'
      by_cases h1 : k ∈ L
      · have : k ∈ n :: L := List.mem_cons_of_mem _ h1
        simp [h1, this]; omega
      · have h2 : k ∉ n :: L := by simp [hk, h1]
        simp [h1, h2]; omega

/-! ### the module cache only grows (when `@import` does not swap it: `importFreshCache` off) -/

/-- what is cached stays cached, under the same module id -/
def CacheLe (s s' : St) : Prop :=
  ∀ k id, s.modules.lookup k = some id → s'.modules.lookup k = some id

theorem CacheLe.refl (s : St) : CacheLe s s := fun _ _ h => h
theorem CacheLe.trans {a b c : St} (h1 : CacheLe a b) (h2 : CacheLe b c) : CacheLe a c :=
  fun k id h => h2 k id (h1 k id h)

def CacheMono (enter : Str → St → Res) : Prop :=
  ∀ n s1 s2, enter n s1 = .ok s2 → CacheLe s1 s2

theorem enterSub_cacheMono {enter : Str → St → Res} (h : CacheMono enter) : CacheMono (enterSub enter) := by
  intro n s1 s2 he
  unfold enterSub at he
  split at he
  · next s' hs =>
    cases he
    have := h n _ s' hs
    intro k id hk
    exact this k id hk
  · simp at he

theorem loadModule_cacheLe {F : Finder} {enter : Str → St → Res} (h : CacheMono enter)
    {name : Str} {s s' : St} {id : Nat} (hl : loadModule F enter name s = (.ok s', id)) :
    CacheLe s s' ∧ s'.modules.lookup name = some id := by
  unfold loadModule at hl
  split at hl
  · next id' hc => cases hl; exact ⟨CacheLe.refl _, hc⟩
  · next hnone =>
    split at hl
    · next s2 hs =>
      cases hl
      have hmono := h name _ s2 hs
      refine ⟨?_, by simp [List.lookup]⟩
      intro k id hk
      have hk2 := hmono k id hk
      by_cases hkn : k = name
      · subst hkn; rw [hnone] at hk; cases hk
      · have : (k == name) = false := by simpa using hkn
        simp [List.lookup, this, hk2]
    · cases hl

theorem runFound_cacheLe {q : LoadQuirks} (hq : q.importFreshCache = false) {F : Finder}
    {enter : Str → St → Res} (h : CacheMono enter) {name : Str} {j : Nat} {b b' : Binds} {s1 s' : St}
    {k : Kind} (he : runFound q F enter name j b s1 k = (.ok s', b')) : CacheLe s1 s' := by
  cases k with
  | use =>
    simp only [runFound, runUse] at he
    split at he
    · next s2 id hm =>
      have := (loadModule_cacheLe h hm).1
      simp only [Prod.mk.injEq, Res.ok.injEq] at he
      obtain ⟨rfl, _⟩ := he
      intro k id hk
      have := this k id hk
      unfold bindModule; split <;> simpa [unlock] using this
    · simp at he
  | forward =>
    simp only [runFound, runForward] at he
    split at he
    · next s2 id hm =>
      have := (loadModule_cacheLe h hm).1
      simp only [Prod.mk.injEq, Res.ok.injEq] at he
      obtain ⟨rfl, _⟩ := he
      intro k id hk
      simpa [unlock] using this k id hk
    · simp at he
  | «import» =>
    simp only [runFound, runImport, Prod.mk.injEq, cacheIn, cacheOut, hq] at he
    obtain ⟨he, _⟩ := he
    split at he
    · next s2 hs =>
      have := enterSub_cacheMono h _ _ _ hs
      simp only [Res.ok.injEq] at he
      subst he
      intro k id hk
      simpa [unlock] using this k id hk
    · simp at he
  | loadCss =>
    simp only [runFound, runLoadCss, Prod.mk.injEq] at he
    obtain ⟨he, _⟩ := he
    split at he
    · have := enterSub_cacheMono h _ _ _ he
      intro k id hk
      exact this k id (by simpa [unlock] using hk)
    · split at he
      · next s2 hs =>
        have := enterSub_cacheMono h _ _ _ hs
        simp only [Res.ok.injEq] at he
        subst he
        intro k id hk
        simpa [unlock] using this k id hk
      · simp at he

theorem execItem_cacheLe {q : LoadQuirks} (hq : q.importFreshCache = false) {F : Finder}
    {enter : Str → St → Res} (h : CacheMono enter)
    {self : Str} {j : Nat} {b b' : Binds} {s s' : St} {it : Item}
    (he : execItem q F enter self j b s it = (.ok s', b')) : CacheLe s s' := by
  cases it with
  | mark => simp [execItem] at he; obtain ⟨rfl, _⟩ := he; exact fun _ _ h => h
  | bump k t =>
    simp only [execItem] at he
    split at he
    · simp at he
    · split at he
      · simp at he; obtain ⟨rfl, _⟩ := he; exact fun _ _ h => h
      · simp at he
  | load k url uq =>
    simp only [execItem] at he
    split at he
    · simp at he
    · simp at he
    · split at he
      · simp at he; obtain ⟨rfl, _⟩ := he; exact fun _ _ h => h
      · simp at he
    · next name calls hf =>
      split at he
      · simp at he
      · next s1 hlock =>
        have := runFound_cacheLe hq h he
        unfold lock at hlock
        split at hlock
        · cases hlock
        · cases hlock; exact this
  | loadWith k url =>
    simp only [execItem] at he
    split at he
    · simp at he
    · simp at he
    · simp at he
    · next name calls hf =>
      split at he
      · simp at he
      · next s1 hlock =>
        split at he
        · simp at he
        · have := runFound_cacheLe hq h he
          unfold lock at hlock
          split at hlock
          · cases hlock
          · cases hlock; exact this

theorem execItems_cacheLe {q : LoadQuirks} (hq : q.importFreshCache = false) {F : Finder}
    {enter : Str → St → Res} (h : CacheMono enter)
    {self : Str} (items : List Item) {j : Nat} {b : Binds} {s s' : St}
    (he : execItems q F enter self items j b s = .ok s') : CacheLe s s' := by
  induction items generalizing j b s with
  | nil => simp [execItems] at he; rw [he]; exact CacheLe.refl _
  | cons it rest ih =>
    simp only [execItems] at he
    split at he
    · next s1 b1 h1 => exact CacheLe.trans (execItem_cacheLe hq h h1) (ih he)
    · simp at he

/-- whatever a body does, every cached module stays cached under the same id -/
theorem execBody_cacheMono (q : LoadQuirks) (hq : q.importFreshCache = false) (F : Finder) (fuel : Nat) :
    CacheMono (execBody q F fuel) := by
  induction fuel with
  | zero => intro n s1 s2 h; simp [execBody] at h
  | succ fuel ih => intro n s1 s2 h; exact execItems_cacheLe hq ih _ h

/-! ### a predicate on the call log that every successful lookup preserves -/

def CallsPres (P : List Call → Prop) (enter : Str → St → Res) : Prop :=
  ∀ n s1 s2, P s1.calls → enter n s1 = .ok s2 → P s2.calls

/-- lookups that do not fail keep `P` -/
def FindPres (P : List Call → Prop) (F : Finder) : Prop :=
  ∀ self k url calls, P calls →
    (∀ n c, F.find self k url calls = .found n c → P c) ∧
    (∀ c, F.find self k url calls = .missing c → P c)

theorem enterSub_callsPres {P : List Call → Prop} {enter : Str → St → Res} (h : CallsPres P enter) :
    CallsPres P (enterSub enter) := by
  intro n s1 s2 hp he
  unfold enterSub at he
  split at he
  · next s' hs => cases he; exact h n _ s' (by simpa using hp) hs
  · simp at he

theorem loadModule_calls {P : List Call → Prop} {F : Finder} {enter : Str → St → Res}
    (h : CallsPres P enter) {name : Str} {s s' : St} {id : Nat} (hp : P s.calls)
    (hl : loadModule F enter name s = (.ok s', id)) : P s'.calls := by
  unfold loadModule at hl
  split at hl
  · cases hl; exact hp
  · split at hl
    · next s2 hs => cases hl; exact h name _ s2 (by simpa using hp) hs
    · cases hl

theorem runFound_calls {P : List Call → Prop} {q : LoadQuirks} {F : Finder} {enter : Str → St → Res}
    (h : CallsPres P enter) {name : Str} {j : Nat} {b b' : Binds} {s1 s' : St} {k : Kind}
    (hp : P s1.calls) (he : runFound q F enter name j b s1 k = (.ok s', b')) : P s'.calls := by
  cases k with
  | use =>
    simp only [runFound, runUse] at he
    split at he
    · next s2 id hm =>
      have := loadModule_calls h hp hm
      simp only [Prod.mk.injEq, Res.ok.injEq] at he
      obtain ⟨rfl, _⟩ := he
      unfold bindModule; split <;> simpa [unlock] using this
    · simp at he
  | forward =>
    simp only [runFound, runForward] at he
    split at he
    · next s2 id hm =>
      have := loadModule_calls h hp hm
      simp only [Prod.mk.injEq, Res.ok.injEq] at he
      obtain ⟨rfl, _⟩ := he
      simpa [unlock] using this
    · simp at he
  | «import» =>
    simp only [runFound, runImport, Prod.mk.injEq] at he
    obtain ⟨he, _⟩ := he
    split at he
    · next s2 hs =>
      have := enterSub_callsPres h _ _ _ (by unfold cacheIn; split <;> exact hp) hs
      simp only [Res.ok.injEq] at he
      subst he
      unfold cacheOut; split <;> simpa [unlock] using this
    · simp at he
  | loadCss =>
    simp only [runFound, runLoadCss, Prod.mk.injEq] at he
    obtain ⟨he, _⟩ := he
    split at he
    · exact enterSub_callsPres h _ _ _ (by simpa [unlock] using hp) he
    · split at he
      · next s2 hs =>
        have := enterSub_callsPres h _ _ _ hp hs
        simp only [Res.ok.injEq] at he
        subst he
        simpa [unlock] using this
      · simp at he

theorem execItem_calls {P : List Call → Prop} {q : LoadQuirks} {F : Finder} (hF : FindPres P F)
    {enter : Str → St → Res} (h : CallsPres P enter)
    {self : Str} {j : Nat} {b b' : Binds} {s s' : St} {it : Item} (hp : P s.calls)
    (he : execItem q F enter self j b s it = (.ok s', b')) : P s'.calls := by
  cases it with
  | mark => simp [execItem] at he; obtain ⟨rfl, _⟩ := he; exact hp
  | bump k t =>
    simp only [execItem] at he
    split at he
    · simp at he
    · split at he
      · simp at he; obtain ⟨rfl, _⟩ := he; exact hp
      · simp at he
  | load k url uq =>
    simp only [execItem] at he
    split at he
    · simp at he
    · simp at he
    · next calls hf =>
      split at he
      · simp at he; obtain ⟨rfl, _⟩ := he; exact (hF self k url s.calls hp).2 calls hf
      · simp at he
    · next name calls hf =>
      have hc := (hF self k url s.calls hp).1 name calls hf
      split at he
      · simp at he
      · next s1 hlock =>
        unfold lock at hlock
        split at hlock
        · cases hlock
        · cases hlock; exact runFound_calls h hc he
  | loadWith k url =>
    simp only [execItem] at he
    split at he
    · simp at he
    · simp at he
    · simp at he
    · next name calls hf =>
      have hc := (hF self k url s.calls hp).1 name calls hf
      split at he
      · simp at he
      · next s1 hlock =>
        split at he
        · simp at he
        · unfold lock at hlock
          split at hlock
          · cases hlock
          · cases hlock; exact runFound_calls h hc he

theorem execItems_calls {P : List Call → Prop} {q : LoadQuirks} {F : Finder} (hF : FindPres P F)
    {enter : Str → St → Res} (h : CallsPres P enter)
    {self : Str} (items : List Item) {j : Nat} {b : Binds} {s s' : St} (hp : P s.calls)
    (he : execItems q F enter self items j b s = .ok s') : P s'.calls := by
  induction items generalizing j b s with
  | nil => simp [execItems] at he; rw [← he]; exact hp
  | cons it rest ih =>
    simp only [execItems] at he
    split at he
    · next s1 b1 h1 => exact ih (execItem_calls hF h hp h1) he
    · simp at he

theorem execBody_callsPres (P : List Call → Prop) (q : LoadQuirks) (F : Finder) (hF : FindPres P F)
    (fuel : Nat) : CallsPres P (execBody q F fuel) := by
  induction fuel with
  | zero => intro n s1 s2 _ h; simp [execBody] at h
  | succ fuel ih => intro n s1 s2 hp h; exact execItems_calls hF ih _ hp h

def Res.markers : Res → List Marker
  | .ok s => s.imports ++ s.out
  | .err _ _ => []

def Res.errOf : Res → Option Err
  | .ok _ => none
  | .err e _ => some e

end Load

namespace Load

/-! ### the execution log: a name is run as a module at most once (needs `importFreshCache` off) -/

/-- `n` is in the module cache -/
def CachedIn (s : St) (n : Str) : Prop := ∃ id, s.modules.lookup n = some id

/-- invariant: no name was run as a module twice, and every name that was is either cached
(its run is complete) or still being loaded (its run is in progress) -/
def LogInv (s : St) : Prop :=
  s.execLog.Nodup ∧ ∀ n ∈ s.execLog, CachedIn s n ∨ n ∈ s.loading

/-- every module run since `s` is complete (cached) in `s'` -/
def LogNew (s s' : St) : Prop := ∀ x ∈ s'.execLog, x ∈ s.execLog ∨ CachedIn s' x

def LogOK (enter : Str → St → Res) : Prop :=
  ∀ n s s', LogInv s → enter n s = .ok s' → s'.execLog.Nodup ∧ LogNew s s'

theorem LogNew.trans {a b c : St} (h1 : LogNew a b) (h2 : LogNew b c) (hc : CacheLe b c) : LogNew a c := by
  intro x hx
  rcases h2 x hx with h | h
  · rcases h1 x h with h' | ⟨id, h'⟩
    · exact Or.inl h'
    · exact Or.inr ⟨id, hc x id h'⟩
  · exact Or.inr h

/-- the invariant is re-established after a balanced, cache-monotone run -/
theorem LogInv.after {s s' : St} (h : LogInv s) (hn : s'.execLog.Nodup) (hnew : LogNew s s')
    (hc : CacheLe s s') (hl : s'.loading = s.loading) : LogInv s' := by
  refine ⟨hn, fun n hn' => ?_⟩
  rcases hnew n hn' with h1 | h1
  · rcases h.2 n h1 with ⟨id, h2⟩ | h2
    · exact Or.inl ⟨id, hc n id h2⟩
    · exact Or.inr (by rw [hl]; exact h2)
  · exact Or.inl h1

theorem enterSub_logOK {enter : Str → St → Res} (h : LogOK enter) : LogOK (enterSub enter) := by
  intro n s s' hinv he
  unfold enterSub at he
  split at he
  · next s2 hs =>
    cases he
    have := h n _ s2 (show LogInv { s with fwdSeen := false } from hinv) hs
    exact this
  · simp at he

/-- `load_module` on a state where `name` has just been locked (`loading = name :: L`, `name ∉ L`) -/
theorem loadModule_log {F : Finder} {enter : Str → St → Res} (hlog : LogOK enter)
    {name : Str} {s1 s' : St} {id : Nat} {L : List Str}
    (hl1 : s1.loading = name :: L) (hn : name ∉ L)
    (hnd : s1.execLog.Nodup) (hJ : ∀ n ∈ s1.execLog, CachedIn s1 n ∨ n ∈ L)
    (he : loadModule F enter name s1 = (.ok s', id)) :
    s'.execLog.Nodup ∧ LogNew s1 s' ∧ CachedIn s' name := by
  unfold loadModule at he
  split at he
  · next id' hc =>
    cases he
    exact ⟨hnd, fun x hx => Or.inl hx, ⟨_, hc⟩⟩
  · next hnone =>
    split at he
    · next s2 hs =>
      cases he
      have hnotin : name ∉ s1.execLog := by
        intro hin
        rcases hJ name hin with ⟨id', hc⟩ | hL
        · rw [hnone] at hc; cases hc
        · exact hn hL
      have hinv0 : LogInv { s1 with execLog := name :: s1.execLog, fwdSeen := false } := by
        refine ⟨List.nodup_cons.mpr ⟨hnotin, hnd⟩, fun n hn' => ?_⟩
        simp only [List.mem_cons] at hn'
        rcases hn' with rfl | hn'
        · exact Or.inr (by simp [hl1])
        · rcases hJ n hn' with h | h
          · exact Or.inl h
          · exact Or.inr (by simp [hl1, h])
      obtain ⟨hnd2, hnew2⟩ := hlog name _ s2 hinv0 hs
      refine ⟨hnd2, fun x hx => ?_, ⟨s2.modTags.length, by simp [List.lookup]⟩⟩
      by_cases hxn : x = name
      · subst hxn; exact Or.inr ⟨s2.modTags.length, by simp [List.lookup]⟩
      · rcases hnew2 x hx with h | ⟨id', h⟩
        · simp only [List.mem_cons] at h
          rcases h with h | h
          · exact absurd h hxn
          · exact Or.inl h
        · have : (x == name) = false := by simpa using hxn
          exact Or.inr ⟨id', by simp [List.lookup, this, h]⟩
    · cases he

theorem runFound_log {q : LoadQuirks} (hq : q.importFreshCache = false) {F : Finder}
    {enter : Str → St → Res} (hlog : LogOK enter)
    {name : Str} {j : Nat} {b b' : Binds} {s1 s' : St} {k : Kind} {L : List Str}
    (hl1 : s1.loading = name :: L) (hn : name ∉ L)
    (hnd : s1.execLog.Nodup) (hJ : ∀ n ∈ s1.execLog, CachedIn s1 n ∨ n ∈ L)
    (he : runFound q F enter name j b s1 k = (.ok s', b')) :
    s'.execLog.Nodup ∧ LogNew s1 s' := by
  have hinv1 : LogInv s1 :=
    ⟨hnd, fun n hn' => (hJ n hn').imp id (fun h => by rw [hl1]; exact List.mem_cons_of_mem _ h)⟩
  cases k with
  | use =>
    simp only [runFound, runUse] at he
    split at he
    · next s2 id hm =>
      obtain ⟨h1, h2, _⟩ := loadModule_log hlog hl1 hn hnd hJ hm
      simp only [Prod.mk.injEq, Res.ok.injEq] at he
      obtain ⟨rfl, _⟩ := he
      unfold bindModule
      split <;> exact ⟨h1, h2⟩
    · simp at he
  | forward =>
    simp only [runFound, runForward] at he
    split at he
    · next s2 id hm =>
      obtain ⟨h1, h2, _⟩ := loadModule_log hlog hl1 hn hnd hJ hm
      simp only [Prod.mk.injEq, Res.ok.injEq] at he
      obtain ⟨rfl, _⟩ := he
      exact ⟨h1, h2⟩
    · simp at he
  | «import» =>
    simp only [runFound, runImport, Prod.mk.injEq, cacheIn, cacheOut, hq] at he
    obtain ⟨he, _⟩ := he
    split at he
    · next s2 hs =>
      have := enterSub_logOK hlog _ _ _ hinv1 hs
      simp only [Res.ok.injEq] at he
      subst he
      exact this
    · simp at he
  | loadCss =>
    simp only [runFound, runLoadCss, Prod.mk.injEq] at he
    obtain ⟨he, _⟩ := he
    split at he
    · have hinvU : LogInv (unlock name s1) :=
        ⟨hnd, fun n hn' => (hJ n hn').imp id (fun h => by simp [hl1, h])⟩
      exact enterSub_logOK hlog name (unlock name s1) s' hinvU he
    · split at he
      · next s2 hs =>
        have := enterSub_logOK hlog _ _ _ hinv1 hs
        simp only [Res.ok.injEq] at he
        subst he
        exact this
      · simp at he

theorem execItem_log {q : LoadQuirks} (hq : q.importFreshCache = false) {F : Finder}
    {enter : Str → St → Res} (hlog : LogOK enter)
    {self : Str} {j : Nat} {b b' : Binds} {s s' : St} {it : Item} (hinv : LogInv s)
    (he : execItem q F enter self j b s it = (.ok s', b')) : s'.execLog.Nodup ∧ LogNew s s' := by
  have same : ∀ t : St, t.execLog = s.execLog → t.execLog.Nodup ∧ LogNew s t :=
    fun t ht => ⟨ht ▸ hinv.1, fun x hx => Or.inl (ht ▸ hx)⟩
  have found : ∀ (name : Str) (calls : List Call) (s1 : St) (k : Kind),
      lock name { s with calls := calls } = some s1 →
      runFound q F enter name j b s1 k = (.ok s', b') → s'.execLog.Nodup ∧ LogNew s s' := by
    intro name calls s1 k hlock hr
    obtain ⟨hnot, hl⟩ := lock_some hlock
    obtain ⟨he1, hm1⟩ := lock_fields hlock
    simp only at hnot hl he1 hm1
    have hJ : ∀ n ∈ s1.execLog, CachedIn s1 n ∨ n ∈ s.loading := by
      intro n hn'
      rw [he1] at hn'
      rcases hinv.2 n hn' with ⟨id, h⟩ | h
      · exact Or.inl ⟨id, by rw [hm1]; exact h⟩
      · exact Or.inr h
    obtain ⟨h1, h2⟩ := runFound_log hq hlog hl hnot (he1 ▸ hinv.1) hJ hr
    exact ⟨h1, fun x hx => (h2 x hx).imp (fun h => he1 ▸ h) id⟩
  cases it with
  | mark => simp [execItem] at he; obtain ⟨rfl, _⟩ := he; exact same _ rfl
  | bump k t =>
    simp only [execItem] at he
    split at he
    · simp at he
    · split at he
      · simp at he; obtain ⟨rfl, _⟩ := he; exact same _ rfl
      · simp at he
  | load k url uq =>
    simp only [execItem] at he
    split at he
    · simp at he
    · simp at he
    · split at he
      · simp at he; obtain ⟨rfl, _⟩ := he; exact same _ rfl
      · simp at he
    · next name calls hf =>
      split at he
      · simp at he
      · next s1 hlock => exact found name calls s1 k hlock he
  | loadWith k url =>
    simp only [execItem] at he
    split at he
    · simp at he
    · simp at he
    · simp at he
    · next name calls hf =>
      split at he
      · simp at he
      · next s1 hlock =>
        split at he
        · simp at he
        · exact found name calls s1 k hlock he

theorem execItems_log {q : LoadQuirks} (hq : q.importFreshCache = false) {F : Finder}
    {enter : Str → St → Res} (hbal : Balanced enter) (hmono : CacheMono enter) (hlog : LogOK enter)
    {self : Str} (items : List Item) {j : Nat} {b : Binds} {s s' : St} (hinv : LogInv s)
    (he : execItems q F enter self items j b s = .ok s') : s'.execLog.Nodup ∧ LogNew s s' := by
  induction items generalizing j b s with
  | nil => simp [execItems] at he; subst he; exact ⟨hinv.1, fun x hx => Or.inl hx⟩
  | cons it rest ih =>
    simp only [execItems] at he
    split at he
    · next s1 b1 h1 =>
      obtain ⟨hnd1, hnew1⟩ := execItem_log hq hlog hinv h1
      have hc1 := execItem_cacheLe hq hmono h1
      have hinv1 := hinv.after hnd1 hnew1 hc1 (execItem_loading hbal h1)
      obtain ⟨hnd2, hnew2⟩ := ih hinv1 he
      exact ⟨hnd2, hnew1.trans hnew2 (execItems_cacheLe hq hmono _ he)⟩
    · simp at he

theorem execBody_logOK (q : LoadQuirks) (hq : q.importFreshCache = false) (F : Finder) (fuel : Nat) :
    LogOK (execBody q F fuel) := by
  induction fuel with
  | zero => intro n s s' _ h; simp [execBody] at h
  | succ fuel ih =>
    intro n s s' hinv h
    exact execItems_log hq (execBody_balanced q F fuel) (execBody_cacheMono q hq F fuel) ih _ hinv h

end Load
