/-
`NumCmpLaws` hold for the exact carrier `XRat` (so the hypotheses of the C12 theorems are
satisfiable, and the refutations can be computed by `decide`).
-/
import RsassModel.Num.XRat
namespace Num
namespace XRat
open NumCmpOps

theorem abs_sub_comm' (a b : XRat) : XRat.abs (XRat.sub a b) = XRat.abs (XRat.sub b a) := by
  simp only [XRat.abs, XRat.sub, XRat.mk.injEq]
  refine ⟨?_, Nat.mul_comm _ _⟩
  have : (a.num * ↑b.den - b.num * ↑a.den).natAbs = (b.num * ↑a.den - a.num * ↑b.den).natAbs := by omega
  rw [this]

theorem feq_comm' (a b : XRat) : XRat.feq a b = XRat.feq b a := by
  unfold XRat.feq
  by_cases h : a.den = 0 ∧ b.den = 0
  · have h' : b.den = 0 ∧ a.den = 0 := ⟨h.2, h.1⟩
    simp only [h, h', and_self, if_true]
    rw [Bool.and_comm (!nan a) (!nan b)]
    congr 1
    exact decide_eq_decide.mpr ⟨fun e => e.symm, fun e => e.symm⟩
  · have h' : ¬ (b.den = 0 ∧ a.den = 0) := fun e => h ⟨e.2, e.1⟩
    simp only [h, h', if_false]
    rw [Bool.and_comm (!nan a) (!nan b)]
    congr 1
    exact decide_eq_decide.mpr ⟨fun e => e.symm, fun e => e.symm⟩

theorem feq_refl' (a : XRat) (h : nan a = false) : XRat.feq a a = true := by
  unfold XRat.feq
  simp [h]

theorem lt_irrefl' (a : XRat) : XRat.lt a a = false := by
  unfold XRat.lt
  simp

theorem lt_asymm' (a b : XRat) (h : XRat.lt a b = true) : XRat.lt b a = false := by
  unfold XRat.lt at *
  by_cases hd : a.den = 0 ∧ b.den = 0
  · have hd' : b.den = 0 ∧ a.den = 0 := ⟨hd.2, hd.1⟩
    simp only [hd, hd', and_self, if_true, Bool.and_eq_true, decide_eq_true_eq] at h ⊢
    have : ¬ (b.num.sign < a.num.sign) := by omega
    simp [this]
  · have hd' : ¬ (b.den = 0 ∧ a.den = 0) := fun e => hd ⟨e.2, e.1⟩
    simp only [hd, hd', if_false, Bool.and_eq_true, decide_eq_true_eq] at h ⊢
    have : ¬ (b.num * ↑a.den < a.num * ↑b.den) := by omega
    simp [this]

theorem lt_not_feq' (a b : XRat) (h : XRat.lt a b = true) : XRat.feq a b = false := by
  unfold XRat.lt at h
  unfold XRat.feq
  by_cases hd : a.den = 0 ∧ b.den = 0
  · simp only [hd, and_self, if_true, Bool.and_eq_true, decide_eq_true_eq] at h ⊢
    have : ¬ (a.num.sign = b.num.sign) := by omega
    simp [this]
  · simp only [hd, if_false, Bool.and_eq_true, decide_eq_true_eq] at h ⊢
    have : ¬ (a.num * ↑b.den = b.num * ↑a.den) := by omega
    simp [this]

theorem total' (a b : XRat) (ha : nan a = false) (hb : nan b = false) :
    XRat.lt a b = true ∨ XRat.feq a b = true ∨ XRat.lt b a = true := by
  unfold XRat.lt XRat.feq
  by_cases hd : a.den = 0 ∧ b.den = 0
  · have hd' : b.den = 0 ∧ a.den = 0 := ⟨hd.2, hd.1⟩
    simp only [ha, hb, hd, hd', and_self, if_true, Bool.not_false, Bool.true_and, decide_eq_true_eq]
    omega
  · have hd' : ¬ (b.den = 0 ∧ a.den = 0) := fun e => hd ⟨e.2, e.1⟩
    simp only [ha, hb, hd, hd', if_false, Bool.not_false, Bool.true_and, decide_eq_true_eq]
    omega

/-- The comparison laws hold for exact extended rationals. -/
theorem laws : NumCmpLaws XRat where
  abs_sub_comm := abs_sub_comm'
  feq_comm := feq_comm'
  feq_refl := feq_refl'
  lt_irrefl := lt_irrefl'
  lt_asymm := lt_asymm'
  lt_not_feq := lt_not_feq'
  total := total'

end XRat
end Num
