/-
C10 — helper lemmas, part 7: a canonical decimal numeral (natural integer part,
fractional digits `< 10` without trailing zero) is determined by its value.
-/
import RsassModel.Num.FormatLemmasShape
namespace Num
open NumOps

theorem fracVal_lt_one (ds : List ℕ) (h : ∀ d ∈ ds, d < 10) : fracVal ds < 1 := by
  induction ds with
  | nil => simp [fracVal]
  | cons d ds ih =>
    have h1 := ih (fun e he => h e (List.mem_cons_of_mem _ he))
    have h2 : d < 10 := h d List.mem_cons_self
    have h3 : (d : ℚ) ≤ 9 := by exact_mod_cast (by omega : d ≤ 9)
    simp only [fracVal]
    rw [div_lt_one (by norm_num)]
    linarith

theorem noTrailingZero_tail (d : ℕ) (ds : List ℕ) (h : NoTrailingZero (d :: ds)) :
    NoTrailingZero ds := by
  rcases h with h | ⟨ds', c, h, hc⟩
  · exact absurd h (by simp)
  · cases ds' with
    | nil =>
      simp at h
      left; exact h.2
    | cons a t =>
      simp at h
      right; exact ⟨t, c, h.2, hc⟩

/-- canonical fractional digit lists (digits `< 10`, no trailing zero) are determined by
their value -/
theorem fracVal_inj (ds : List ℕ) : ∀ ds' : List ℕ, (∀ d ∈ ds, d < 10) → (∀ d ∈ ds', d < 10) →
    NoTrailingZero ds → NoTrailingZero ds' → fracVal ds = fracVal ds' → ds = ds' := by
  induction ds with
  | nil =>
    intro ds' _ _ _ h2 he
    by_contra hne
    have := fracVal_pos ds' h2 (fun h => hne h.symm)
    simp [fracVal] at he
    linarith
  | cons d ds ih =>
    intro ds' h1 h1' h2 h2' he
    cases ds' with
    | nil =>
      have := fracVal_pos (d :: ds) h2 (by simp)
      simp only [fracVal] at he this
      linarith
    | cons d' t =>
      simp only [fracVal] at he
      have a1 := fracVal_lt_one ds (fun e he => h1 e (List.mem_cons_of_mem _ he))
      have a2 := fracVal_lt_one t (fun e he => h1' e (List.mem_cons_of_mem _ he))
      have b1 := fracVal_nonneg ds
      have b2 := fracVal_nonneg t
      have he' : (d : ℚ) + fracVal ds = (d' : ℚ) + fracVal t := by
        have := congrArg (· * 10) he
        simpa using this
      have hd : d = d' := by
        have c1 : (d : ℚ) < (d' : ℚ) + 1 := by linarith
        have c2 : (d' : ℚ) < (d : ℚ) + 1 := by linarith
        have c1' : d < d' + 1 := by exact_mod_cast c1
        have c2' : d' < d + 1 := by exact_mod_cast c2
        omega
      subst hd
      have hv : fracVal ds = fracVal t := by linarith
      rw [ih t (fun e he => h1 e (List.mem_cons_of_mem _ he))
        (fun e he => h1' e (List.mem_cons_of_mem _ he))
        (noTrailingZero_tail _ _ h2) (noTrailingZero_tail _ _ h2') hv]

/-- a canonical numeral (natural integer part, canonical fractional digits) is
determined by its value -/
theorem numeral_unique (w w' : ℕ) (ds ds' : List ℕ) (h1 : ∀ d ∈ ds, d < 10)
    (h1' : ∀ d ∈ ds', d < 10) (h2 : NoTrailingZero ds) (h2' : NoTrailingZero ds')
    (he : (w : ℚ) + fracVal ds = (w' : ℚ) + fracVal ds') : w = w' ∧ ds = ds' := by
  have a1 := fracVal_lt_one ds h1
  have a2 := fracVal_lt_one ds' h1'
  have b1 := fracVal_nonneg ds
  have b2 := fracVal_nonneg ds'
  have hw : w = w' := by
    have c1 : (w : ℚ) < (w' : ℚ) + 1 := by linarith
    have c2 : (w' : ℚ) < (w : ℚ) + 1 := by linarith
    have c1' : w < w' + 1 := by exact_mod_cast c1
    have c2' : w' < w + 1 := by exact_mod_cast c2
    omega
  subst hw
  exact ⟨rfl, fracVal_inj ds ds' h1 h1' h2 h2' (by linarith)⟩

end Num
