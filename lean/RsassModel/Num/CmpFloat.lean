/-
`Float` instance of `NumCmpOps`: compiled driver only, never in a theorem.  Performs the
IEEE operations `Number::eq`, `f64::partial_cmp` and `cmp_chan` perform.
-/
import RsassModel.Num.Cmp
namespace Num

instance : NumCmpOps Float where
  sub a b := a - b
  mul a b := a * b
  div a b := a / b
  abs := Float.abs
  lt a b := a < b
  feq a b := a == b
  isNaN := Float.isNaN
  isFinite := Float.isFinite
  eps := Float.ofBits 0x3cb0000000000000
  chanTol := Float.ofBits 0x3e7ad7f29abcaf48

end Num
