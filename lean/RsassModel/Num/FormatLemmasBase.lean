/-
C10 — helper lemmas, part 1: the exact-rational `NumOps` instance seen through Mathlib's
ordered-field vocabulary (`|x|`, `⌊x⌋`, `Int.fract`) and the value of a digit list.
Proof-only file (imports single Mathlib modules; never linked into a driver).
-/
import RsassModel.Num.RatInst
import RsassModel.Num.Format
import Mathlib.Data.Rat.Floor
import Mathlib.Tactic.Linarith
import Mathlib.Tactic.Ring
import Mathlib.Tactic.FieldSimp
import Mathlib.Tactic.Positivity
import Mathlib.Tactic.NormNum
namespace Num
open NumOps

theorem ratFloor_eq (q : ℚ) : q.floor = ⌊q⌋ := rfl
theorem ratCeil_eq (q : ℚ) : q.ceil = ⌈q⌉ := by
  rw [Rat.ceil_eq_neg_floor_neg, ratFloor_eq, Int.floor_neg, neg_neg]

theorem ratAbs_eq (x : ℚ) : ratAbs x = |x| := by
  unfold ratAbs
  split_ifs with h
  · exact (abs_of_neg h).symm
  · exact (abs_of_nonneg (not_lt.mp h)).symm

theorem ratTruncNat_cast (x : ℚ) : ((ratTruncNat x : ℕ) : ℚ) = (⌊|x|⌋ : ℤ) := by
  unfold ratTruncNat
  rw [ratAbs_eq, ratFloor_eq]
  have h : 0 ≤ ⌊|x|⌋ := Int.floor_nonneg.mpr (abs_nonneg x)
  have : ((⌊|x|⌋.toNat : ℤ) : ℚ) = (⌊|x|⌋ : ℚ) := by rw [Int.toNat_of_nonneg h]
  exact_mod_cast this

/-! ### the instance, unfolded -/
theorem rat_isNaN (x : ℚ) : isNaN x = false := rfl
theorem rat_isInf (x : ℚ) : isInf x = false := rfl
theorem rat_signBit (x : ℚ) : signBit x = decide (x < 0) := rfl
theorem rat_fract (x : ℚ) : fract x = x - ratTrunc x := rfl
theorem rat_truncAbs (x : ℚ) : truncAbs x = (ratTruncNat x : ℚ) := rfl
theorem rat_isZero (x : ℚ) : isZero x = decide (x = 0) := rfl
theorem rat_mul10 (x : ℚ) : mul10 x = x * 10 := rfl
theorem rat_digit (x : ℚ) : digit x = ratTruncNat x := rfl
theorem rat_roundAbs (x : ℚ) : roundAbs x = ratTruncNat (ratAbs x + 1 / 2) := rfl
theorem rat_geHalf (x : ℚ) : geHalf x = decide (1 / 2 ≤ ratAbs x) := rfl
theorem rat_addOne (x : ℚ) : addOne x = x + 1 := rfl
theorem rat_showWhole (x : ℚ) : showWhole x = decDigits (ratTruncNat x) := rfl
theorem rat_log10ceil (x : ℚ) : log10ceil x = log10ceilNat x.ceil.toNat := rfl

theorem isZero_iff (x : ℚ) : isZero x = true ↔ x = 0 := by
  rw [rat_isZero]; exact decide_eq_true_iff

/-- `fract` keeps the sign; its magnitude is the fractional part of `|x|`. -/
theorem abs_fract (x : ℚ) : |fract x| = Int.fract |x| := by
  rw [rat_fract]
  unfold ratTrunc
  rw [ratTruncNat_cast]
  split_ifs with h
  · rw [abs_of_neg h]
    have : x - -((⌊-x⌋ : ℤ) : ℚ) = -(Int.fract (-x)) := by
      unfold Int.fract; ring
    rw [this, abs_neg, abs_of_nonneg (Int.fract_nonneg _)]
  · have h' : 0 ≤ x := not_lt.mp h
    rw [abs_of_nonneg h']
    exact abs_of_nonneg (Int.fract_nonneg _)

theorem abs_fract_lt_one (x : ℚ) : |fract x| < 1 := by
  rw [abs_fract]; exact Int.fract_lt_one _

/-- `trunc().abs()` and `|fract()|` split `|x|`. -/
theorem truncNat_add_abs_fract (x : ℚ) : ((ratTruncNat x : ℕ) : ℚ) + |fract x| = |x| := by
  rw [abs_fract, ratTruncNat_cast]; exact Int.floor_add_fract _

theorem truncAbs_add_abs_fract (x : ℚ) : truncAbs x + |fract x| = |x| :=
  truncNat_add_abs_fract x

theorem digit_add_abs_fract (y : ℚ) : ((digit y : ℕ) : ℚ) + |fract y| = |y| :=
  truncNat_add_abs_fract y

theorem digit_lt_ten (y : ℚ) (h : |y| < 10) : digit y < 10 := by
  have h1 := digit_add_abs_fract y
  have h2 := abs_nonneg (fract y)
  have : ((digit y : ℕ) : ℚ) < 10 := by linarith
  exact_mod_cast this

theorem abs_mul10 (f : ℚ) : |mul10 f| = |f| * 10 := by
  rw [rat_mul10, abs_mul]; norm_num

/-! ### value of a digit list -/
theorem fracVal_append_singleton (ds : List ℕ) (e : ℕ) :
    fracVal (ds ++ [e]) = fracVal ds + (e : ℚ) / 10 ^ (ds.length + 1) := by
  induction ds with
  | nil => simp [fracVal]
  | cons d ds ih =>
    simp only [List.cons_append, fracVal, ih, List.length_cons]
    rw [pow_succ (10 : ℚ) (ds.length + 1)]
    field_simp
    ring

end Num
