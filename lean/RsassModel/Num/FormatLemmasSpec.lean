/-
C10 — helper lemmas, part 4: the rounding interval for `fracDigits` itself (repaired
model, and the code as it is whenever at least one decimal is allowed), integrality of
the printed value at `k` places, and the closed form `⌊|x|·10^k + ½⌋ / 10^k`.
-/
import RsassModel.Num.FormatLemmasRound
namespace Num
open NumOps

/-- the number of decimals `fracDigits` allows: `min (16 - ⌈log10 whole⌉) precision` -/
def decimalsOf {α} [NumOps α] (p : ℕ) (x : α) : ℕ := min (16 - log10ceil (truncAbs x)) p

/-- ROUNDING INTERVAL.  Whenever the zero-decimals deviation cannot fire (flag off, or at
least one decimal allowed) the printed magnitude is within half a unit of the `k`-th
place of `|x|`, the lower end excluded: ties go away from zero. -/
theorem fracDigits_interval (q : FmtQuirks) (p : ℕ) (x : ℚ)
    (h : q.precisionZeroOneDigit = false ∨ 1 ≤ decimalsOf p x) :
    -(1 / (2 * 10 ^ decimalsOf p x) : ℚ) < printedAbs (fracDigits q p x) - |x| ∧
      printedAbs (fracDigits q p x) - |x| ≤ 1 / (2 * 10 ^ decimalsOf p x) := by
  have hx := truncAbs_add_abs_fract x
  have hpos : (0 : ℚ) < 1 / (2 * 10 ^ decimalsOf p x) := by positivity
  rw [fracDigits_eq]
  by_cases hz : isZero (fract x) = true
  · have h0 : fract x = 0 := (isZero_iff _).mp hz
    rw [h0, abs_zero, add_zero] at hx
    simp only [hz, if_true, printedAbs, fracVal, add_zero, hx, sub_self]
    exact ⟨by linarith, le_of_lt hpos⟩
  · simp only [hz, if_false, Bool.false_eq_true]
    by_cases hk : decimalsOf p x = 0
    · have hq : q.precisionZeroOneDigit = false := by
        rcases h with h | h
        · exact h
        · omega
      have hk' : min (16 - log10ceil (truncAbs x)) p = 0 := hk
      simp only [hk', hq, beq_self_eq_true, Bool.not_false, and_self, if_true, hk,
        pow_zero, mul_one]
      have hlt := abs_fract_lt_one x
      have hnn := abs_nonneg (fract x)
      by_cases hg : geHalf (fract x) = true
      · have hg' : (1 : ℚ) / 2 ≤ |fract x| := by
          rw [rat_geHalf, ratAbs_eq] at hg; exact of_decide_eq_true hg
        simp only [hg, if_true, printedAbs, fracVal, add_zero, rat_addOne]
        constructor <;> linarith
      · have hg' : |fract x| < (1 : ℚ) / 2 := by
          rw [rat_geHalf, ratAbs_eq] at hg
          exact not_le.mp (fun hh => hg (decide_eq_true hh))
        simp only [hg, if_false, Bool.false_eq_true, printedAbs, fracVal, add_zero]
        constructor <;> linarith
    · have hk1 : 1 ≤ decimalsOf p x := by omega
      have hk' : ¬ (((min (16 - log10ceil (truncAbs x)) p == 0) = true) ∧
          (!q.precisionZeroOneDigit) = true) := by
        intro hh
        have : min (16 - log10ceil (truncAbs x)) p = 0 := by simpa using hh.1
        exact hk this
      simp only [hk', if_false]
      have hi := fracTail_interval (decimalsOf p x - 1) (fract x) (truncAbs x)
        (abs_fract_lt_one x)
      have hs : decimalsOf p x - 1 + 1 = decimalsOf p x := by omega
      rw [hs, hx] at hi
      exact hi

/-! ### integrality at `k` places -/

theorem fracVal_scaled (ds : List ℕ) : ∀ j, ds.length ≤ j → ∃ m : ℕ, fracVal ds * 10 ^ j = m := by
  induction ds with
  | nil => intro j _; exact ⟨0, by simp [fracVal]⟩
  | cons d ds ih =>
    intro j hj
    obtain ⟨j', rfl⟩ : ∃ j', j = j' + 1 := ⟨j - 1, by simp at hj; omega⟩
    obtain ⟨m, hm⟩ := ih j' (by simp at hj; omega)
    refine ⟨d * 10 ^ j' + m, ?_⟩
    simp only [fracVal]
    rw [pow_succ]; push_cast; rw [← hm]; field_simp

/-- the integer part printed is `trunc|x|` or that plus one (any carrier) -/
theorem fracDigits_whole {α} [NumOps α] (q : FmtQuirks) (p : ℕ) (s : α) :
    (fracDigits q p s).2 = truncAbs s ∨ (fracDigits q p s).2 = addOne (truncAbs s) := by
  rw [fracDigits_eq]
  split
  · exact Or.inl rfl
  · split
    · split
      · exact Or.inr rfl
      · exact Or.inl rfl
    · unfold fracTail
      generalize digitLoop _ (fract s) [] = r
      obtain ⟨dec, fr⟩ := r
      simp only []
      split
      · exact Or.inl rfl
      · split
        · generalize carry dec = cr
          obtain ⟨d2, up⟩ := cr
          simp only []
          cases up
          · exact Or.inl rfl
          · exact Or.inr rfl
        · split <;> exact Or.inl rfl

theorem fracDigits_whole_nat (q : FmtQuirks) (p : ℕ) (x : ℚ) :
    ∃ w : ℕ, (fracDigits q p x).2 = w := by
  rcases fracDigits_whole q p x with h | h
  · exact ⟨ratTruncNat x, by rw [h, rat_truncAbs]⟩
  · exact ⟨ratTruncNat x + 1, by rw [h, rat_addOne, rat_truncAbs]; push_cast; rfl⟩

/-- a value on the `10^-k` grid inside the half-open rounding interval of `X` IS
`⌊X·10^k + ½⌋ / 10^k` -/
theorem round_exact_of_interval (P X : ℚ) (k : ℕ) (m : ℤ) (hm : P * 10 ^ k = m)
    (h1 : -(1 / (2 * 10 ^ k) : ℚ) < P - X) (h2 : P - X ≤ 1 / (2 * 10 ^ k)) :
    P = (⌊X * 10 ^ k + 1 / 2⌋ : ℤ) / 10 ^ k := by
  have hp : (0 : ℚ) < 10 ^ k := by positivity
  have e : (1 / (2 * 10 ^ k) : ℚ) * 10 ^ k = 1 / 2 := by field_simp
  have a1 := mul_lt_mul_of_pos_right h1 hp
  have a2 := mul_le_mul_of_nonneg_right h2 (le_of_lt hp)
  rw [neg_mul, e, sub_mul, hm] at a1
  rw [e, sub_mul, hm] at a2
  have hfl : ⌊X * 10 ^ k + 1 / 2⌋ = m := by
    rw [Int.floor_eq_iff]
    constructor <;> linarith
  rw [hfl, eq_div_iff (ne_of_gt hp)]
  exact hm

/-- the printed magnitude is an integer multiple of `10^-j` for any `j` at least the
number of fractional digits -/
theorem printedAbs_scaled (q : FmtQuirks) (p : ℕ) (x : ℚ) (j : ℕ)
    (hj : (fracDigits q p x).1.length ≤ j) :
    ∃ m : ℤ, printedAbs (fracDigits q p x) * 10 ^ j = m := by
  obtain ⟨w, hw⟩ := fracDigits_whole_nat q p x
  obtain ⟨m, hm⟩ := fracVal_scaled (fracDigits q p x).1 j hj
  refine ⟨w * 10 ^ j + m, ?_⟩
  unfold printedAbs
  rw [add_mul, hw, hm]; push_cast; ring

end Num
