/-
Exact extended rationals: the carrier the C12 theorems are instantiated with.
`⟨n, d⟩` with `d > 0` is `n/d`; `⟨n, 0⟩` is `+∞` (`n > 0`), `-∞` (`n < 0`) or NaN (`n = 0`),
so that `0/0 = NaN`, `∞ - ∞ = NaN`, `x/0 = ±∞` hold exactly as in IEEE arithmetic
(signed zeros are not distinguished).  No normalisation, comparisons by
cross-multiplication: everything reduces in the kernel (`decide`).
-/
import RsassModel.Num.Cmp
namespace Num

structure XRat where
  num : Int
  den : Nat
  deriving DecidableEq, Repr

namespace XRat

def ofInt (n : Int) : XRat := ⟨n, 1⟩
def nan (a : XRat) : Bool := a.num == 0 && a.den == 0
def sub (a b : XRat) : XRat := ⟨a.num * b.den - b.num * a.den, a.den * b.den⟩
def mul (a b : XRat) : XRat := ⟨a.num * b.num, a.den * b.den⟩
/-- `1/b` (`1/0 = +∞`, `1/±∞ = 0`, `1/NaN = NaN`) -/
def recip (b : XRat) : XRat :=
  if b.num = 0 then ⟨b.den, 0⟩ else ⟨b.num.sign * b.den, b.num.natAbs⟩
def div (a b : XRat) : XRat := mul a (recip b)
def abs (a : XRat) : XRat := ⟨a.num.natAbs, a.den⟩
def lt (a b : XRat) : Bool :=
  !nan a && !nan b &&
    (if a.den = 0 ∧ b.den = 0 then decide (a.num.sign < b.num.sign)
     else decide (a.num * b.den < b.num * a.den))
def feq (a b : XRat) : Bool :=
  !nan a && !nan b &&
    (if a.den = 0 ∧ b.den = 0 then decide (a.num.sign = b.num.sign)
     else decide (a.num * b.den = b.num * a.den))

instance : NumCmpOps XRat where
  sub := sub
  mul := mul
  div := div
  abs := abs
  lt := lt
  feq := feq
  isNaN := nan
  isFinite a := a.den != 0
  eps := ⟨1, 2 ^ 52⟩
  chanTol := ⟨1, 10 ^ 7⟩

end XRat
end Num
