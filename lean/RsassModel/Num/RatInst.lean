/-
Exact-rational instance of `NumOps` (core `Rat`): the carrier the C10 rounding theorems
are stated about.  Every operation is the mathematical meaning of the corresponding
`f64` operation (no rounding error, no NaN/infinity, no negative zero), so that what is
proved about `fmtNumber` on `Rat` is the property of the ALGORITHM of
`impl Display for Formatted<Number>`; the distance between `f64` and exact arithmetic is
covered by the differential check (props/C10.py, oracle with the explicit error term).
Mathlib-free on purpose; everything reduces in the kernel (`decide +kernel`).
-/
import RsassModel.Num.Ops
namespace Num

/-- `|x|` -/
def ratAbs (x : Rat) : Rat := if x < 0 then -x else x

/-- `⌊|x|⌋` as a natural number (`trunc().abs()`, `(x as i8).abs()`) -/
def ratTruncNat (x : Rat) : Nat := (ratAbs x).floor.toNat

/-- `trunc()`: rounding towards zero, keeps the sign -/
def ratTrunc (x : Rat) : Rat := if x < 0 then -(ratTruncNat x : Rat) else (ratTruncNat x : Rat)

/-- decimal digits of `n`, most significant first, by repeated division (`fuel` bounds
the number of digits; `fuel = n + 1` is always enough). -/
def decDigitsAux : Nat → Nat → List Nat → List Nat
  | 0, _, acc => acc
  | fuel + 1, n, acc =>
    if n < 10 then n :: acc else decDigitsAux fuel (n / 10) (n % 10 :: acc)

/-- `{}` of a natural number: `0 ↦ [0]`, `1234 ↦ [1,2,3,4]` -/
def decDigits (n : Nat) : List Nat := decDigitsAux (n + 1) n []

/-- number of decimal digits, with `numDigits 0 = 0` -/
def numDigits (n : Nat) : Nat := if n = 0 then 0 else (decDigits n).length

/-- `⌈log10 n⌉` for `n ≥ 1` (the least `j` with `n ≤ 10^j`), and `0` for `n = 0`
(`(-inf).ceil() as usize` saturates to 0): the number of digits of `n - 1`. -/
def log10ceilNat (n : Nat) : Nat := numDigits (n - 1)

instance : NumOps Rat where
  isNaN _ := false
  isInf _ := false
  signBit x := decide (x < 0)
  fract x := x - ratTrunc x
  truncAbs x := (ratTruncNat x : Rat)
  isZero x := decide (x = 0)
  mul10 x := x * 10
  digit x := ratTruncNat x
  roundAbs x := ratTruncNat (ratAbs x + 1 / 2)
  -- ⌈log10 x⌉ = least j with x ≤ 10^j = least j with ⌈x⌉ ≤ 10^j
  log10ceil x := log10ceilNat x.ceil.toNat
  geHalf x := decide (1 / 2 ≤ ratAbs x)
  addOne x := x + 1
  showWhole x := decDigits (ratTruncNat x)

/-- value of a list of fractional digits, most significant first: `Σ dᵢ / 10^(i+1)` -/
def fracVal : List Nat → Rat
  | [] => 0
  | d :: ds => ((d : Rat) + fracVal ds) / 10

/-- the magnitude `fracDigits` prints: integer part plus fractional digits -/
def printedAbs (r : List Nat × Rat) : Rat := r.2 + fracVal r.1

end Num
