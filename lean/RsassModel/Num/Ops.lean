/-
Number carrier abstraction (DESIGN 4.1).  rsass numbers are `f64`; the numeric models
are written once over `NumOps` and instantiated with `Float` (driver: performs the very
IEEE operations the Rust code performs) and with exact rationals (theorems).
Only the operations `impl Display for Formatted<Number>` uses are listed here.
-/
namespace Num

class NumOps (α : Type) where
  isNaN : α → Bool
  isInf : α → Bool
  /-- `is_sign_negative()` -/
  signBit : α → Bool
  /-- `fract()` -/
  fract : α → α
  /-- `trunc().abs()` -/
  truncAbs : α → α
  /-- `x == 0.` -/
  isZero : α → Bool
  /-- `x * 10.` -/
  mul10 : α → α
  /-- `(x as i8).abs()` for the values the formatter passes (|x| < 10) -/
  digit : α → Nat
  /-- `x.round().abs() as u8` (round half away from zero) -/
  roundAbs : α → Nat
  /-- `x.log10().ceil() as usize` (saturating cast: -inf ↦ 0) -/
  log10ceil : α → Nat
  /-- `x.abs() >= 0.5` -/
  geHalf : α → Bool
  /-- `x + 1.` -/
  addOne : α → α
  /-- `{}` of a non-negative integral value: its decimal digits -/
  showWhole : α → List Nat

end Num
