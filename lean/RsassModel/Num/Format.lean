/-
C10 — model of `impl Display for Formatted<Number>` (rsass/src/value/number.rs),
line by line, over any `NumOps` carrier.  The fractional digits are kept as a list,
most significant first, exactly like the `dec` string of the Rust code.
-/
import RsassModel.Num.Ops
namespace Num
open NumOps

/-- Deviations of the code from the property, switched per run (DESIGN 4.4). -/
structure FmtQuirks where
  /-- with zero decimals allowed (precision 0, or 16 significant digits already used by the
  integer part) one fractional digit is still printed (`for _ in 1..0` + final digit) -/
  precisionZeroOneDigit : Bool := false

def fmtAsIs : FmtQuirks := { precisionZeroOneDigit := true }
def fmtSpec : FmtQuirks := {}

/-- the `for _ in 1..n` loop: at most `n` further digits; stops early once the
remaining fraction is exactly zero.  Returns the digits (in order) and what is left. -/
def digitLoop {α} [NumOps α] : Nat → α → List Nat → List Nat × α
  | 0, frac, acc => (acc, frac)
  | n + 1, frac, acc =>
    let f := mul10 frac
    let acc := acc ++ [digit f]
    let f := fract f
    if isZero f then (acc, f) else digitLoop n f acc

/-- `loop { match dec.pop() { Some('9') => (), None => {whole += 1; break}, Some(c) => {push(c+1); break} } }`
returns the new digits and whether the carry reached the integer part -/
def carry (dec : List Nat) : List Nat × Bool :=
  match (dec.reverse.dropWhile (· == 9)) with
  | [] => ([], true)
  | c :: rest => (((c + 1) :: rest).reverse, false)

/-- `loop { match dec.pop() { Some('0') => (), None => break, Some(c) => {push(c); break} } }` -/
def stripZeros (dec : List Nat) : List Nat := (dec.reverse.dropWhile (· == 0)).reverse

/-- the fractional digits and the (possibly bumped) integer part -/
def fracDigits {α} [NumOps α] (q : FmtQuirks) (precision : Nat) (s : α) : List Nat × α :=
  let frac := fract s
  let whole := truncAbs s
  if isZero frac then ([], whole)
  else
    let maxDecimals := 16 - log10ceil whole
    let decimals := min maxDecimals precision
    if decimals == 0 ∧ !q.precisionZeroOneDigit then
      -- repaired behaviour: no room for decimals, round to an integer, half away from zero
      if geHalf frac then ([], addOne whole) else ([], whole)
    else
    let n := decimals - 1
    let (dec, frac) := digitLoop n frac []
    if isZero frac then (dec, whole)
    else
      let e := roundAbs (mul10 frac)
      if e == 10 then
        let (dec, up) := carry dec
        (dec, if up then addOne whole else whole)
      else if e == 0 then (stripZeros dec, whole)
      else (dec ++ [e], whole)

def digitChar (d : Nat) : Char := Char.ofNat (48 + d)

def showDigits (ds : List Nat) : String := String.ofList (ds.map digitChar)

/-- the text `Formatted<Number>` displays -/
def fmtNumber {α} [NumOps α] (q : FmtQuirks) (compressed : Bool) (precision : Nat) (s : α) : String :=
  if isNaN s then "NaN"
  else if isInf s then (if signBit s then "-infinity" else "infinity")
  else
    let (dec, whole) := fracDigits q precision s
    let sign := if signBit s ∧ (!isZero whole ∨ !dec.isEmpty) then "-" else ""
    let w := if isZero whole ∧ compressed ∧ !dec.isEmpty then "" else showDigits (showWhole whole)
    let d := if dec.isEmpty then "" else "." ++ showDigits dec
    sign ++ w ++ d

end Num
