/-
C12 — number comparison.  Mirrors `rsass/src/value/number.rs`:

    impl PartialEq for Number  { fn eq(&self, other) -> bool {
        let (a, b) = (self.value, other.value);
        let diff = (a - b).abs();
        a == b || (diff.is_finite() && diff <= f64::EPSILON * a.abs().max(b.abs())) } }
    (until commit f2e4863: `(self.value - other.value).abs() / self.value.abs() <= f64::EPSILON`)
    impl PartialOrd for Number { fn partial_cmp(&self, other) -> Option<Ordering> {
        if self == other { Some(Equal) } else { self.value.partial_cmp(&other.value) } } }

and `cmp_chan` of `rsass/src/value/colors/rgba.rs`.  Written over an abstract carrier
(`NumCmpOps`, separate from `NumOps` which only lists what the formatter needs); the
driver instantiates it with `Float`, the theorems with exact extended rationals
(`Num.XRat`, where 0/0 is NaN and n/0 is ±∞ exactly as the code relies on).
-/
namespace Num

class NumCmpOps (ν : Type) where
  /-- `a - b` -/
  sub : ν → ν → ν
  /-- `a * b` -/
  mul : ν → ν → ν
  /-- `a / b` -/
  div : ν → ν → ν
  /-- `a.abs()` -/
  abs : ν → ν
  /-- IEEE `a < b` (false when either is NaN) -/
  lt : ν → ν → Bool
  /-- IEEE `a == b` (false when either is NaN) -/
  feq : ν → ν → Bool
  isNaN : ν → Bool
  /-- `f64::is_finite` -/
  isFinite : ν → Bool
  /-- `f64::EPSILON` = 2⁻⁵² -/
  eps : ν
  /-- the `1e-7` of `cmp_chan` -/
  chanTol : ν

open NumCmpOps

/-- IEEE `a <= b` -/
def fle {ν} [NumCmpOps ν] (a b : ν) : Bool := lt a b || feq a b

/-- `f64::partial_cmp` -/
def ieeeCmp {ν} [NumCmpOps ν] (a b : ν) : Option Ordering :=
  if lt a b then some .lt else if feq a b then some .eq else if lt b a then some .gt else none

/-- Deviation flags of the number comparison (`spec` = all off). -/
structure CmpQuirks where
  /-- `Number::eq` divides by `|self|` only: `|a-b|/|a| ≤ ε` (number.rs `impl PartialEq`) -/
  numEqAsymmetric : Bool := false
  deriving DecidableEq, Repr

def cmpSpec : CmpQuirks := {}
def cmpAsis : CmpQuirks := { numEqAsymmetric := true }

/-- `Number::eq`.
Before commit f2e4863 (flag `numEqAsymmetric`): `|a-b| / |a| <= ε`.
Now (spec; commits f2e4863 + ad53320):
`a == b || (|a-b|.is_finite() && |a-b| <= ε * max(|a|,|b|))`, written here with
`|a-b| <= ε·|a| || |a-b| <= ε·|b|` for the `max` form — the two agree on every pair of f64s
(multiplication by ε is monotone, `f64::max` of two non-NaN values is one of them, and a NaN
operand makes `|a-b|` NaN, which is not finite); the correspondence run checks this bit-exactly. -/
def numEq {ν} [NumCmpOps ν] (q : CmpQuirks) (a b : ν) : Bool :=
  if q.numEqAsymmetric then fle (div (abs (sub a b)) (abs a)) eps
  else feq a b || (isFinite (abs (sub a b)) &&
    (fle (abs (sub a b)) (mul eps (abs a)) || fle (abs (sub a b)) (mul eps (abs b))))

/-- `Number::partial_cmp` -/
def numCmp {ν} [NumCmpOps ν] (q : CmpQuirks) (a b : ν) : Option Ordering :=
  if numEq q a b then some .eq else ieeeCmp a b

/-- `cmp_chan(a, b)` of rgba.rs (`partial_cmp().unwrap()` cannot fail in the last arm). -/
def cmpChan {ν} [NumCmpOps ν] (a b : ν) : Ordering :=
  if lt (abs (sub a b)) chanTol then .eq
  else match isNaN a, isNaN b with
    | true, true => .eq
    | true, false => .lt
    | false, true => .gt
    | false, false => if lt a b then .lt else if feq a b then .eq else .gt

/-- The facts about the carrier that the C12 theorems use.  They are proved for `XRat`;
for f64 they are the IEEE-754 facts `|a-b| = |b-a|`, `==` symmetric, `<` irreflexive and
asymmetric, and totality of `<`/`==` on non-NaN values (trusted base: "f64 is IEEE"). -/
structure NumCmpLaws (ν : Type) [NumCmpOps ν] : Prop where
  abs_sub_comm : ∀ a b : ν, abs (sub a b) = abs (sub b a)
  feq_comm : ∀ a b : ν, feq a b = feq b a
  feq_refl : ∀ a : ν, isNaN a = false → feq a a = true
  lt_irrefl : ∀ a : ν, lt a a = false
  lt_asymm : ∀ a b : ν, lt a b = true → lt b a = false
  lt_not_feq : ∀ a b : ν, lt a b = true → feq a b = false
  total : ∀ a b : ν, isNaN a = false → isNaN b = false →
    lt a b = true ∨ feq a b = true ∨ lt b a = true

end Num
