/-
C10 — helper lemmas, part 5: decimal digits of a natural number (`decDigits`, the
`showWhole` of the exact instance), digit count and `⌈log10⌉` (`log10ceilNat`), and the
relation between the two that decides how many significant digits the cap
`16 - ⌈log10 whole⌉` really allows.
-/
import RsassModel.Num.FormatLemmasBase
namespace Num
open NumOps

/-- value of a list of integer digits, most significant first -/
def natVal : List ℕ → ℕ
  | [] => 0
  | d :: ds => d * 10 ^ ds.length + natVal ds

theorem decDigitsAux_spec (fuel : ℕ) : ∀ (n : ℕ) (acc : List ℕ), n < fuel →
    ∃ L, (decDigitsAux fuel n acc).length = acc.length + L ∧ 1 ≤ L ∧ n < 10 ^ L ∧
      (1 ≤ n → 10 ^ (L - 1) ≤ n) ∧
      natVal (decDigitsAux fuel n acc) = n * 10 ^ acc.length + natVal acc ∧
      (∀ d ∈ decDigitsAux fuel n acc, d < 10 ∨ d ∈ acc) := by
  induction fuel with
  | zero => intro n acc h; omega
  | succ fuel ih =>
    intro n acc hn
    unfold decDigitsAux
    by_cases h10 : n < 10
    · simp only [h10, if_true]
      refine ⟨1, by simp, le_refl _, by simpa using h10, by simp, by simp [natVal], ?_⟩
      intro d hd
      rcases List.mem_cons.mp hd with h | h
      · left; omega
      · right; exact h
    · simp only [h10, if_false]
      have hlt : n / 10 < fuel := by omega
      obtain ⟨L, h1, h2, h3, h4, h5, h6⟩ := ih (n / 10) (n % 10 :: acc) hlt
      refine ⟨L + 1, by rw [h1]; simp; omega, by omega, ?_, ?_, ?_, ?_⟩
      · rw [Nat.pow_succ]; omega
      · intro _
        have := h4 (by omega)
        have e : 10 ^ (L + 1 - 1) = 10 ^ (L - 1) * 10 := by
          rw [← Nat.pow_succ]; congr 1; omega
        rw [e]; omega
      · rw [h5]
        simp only [natVal, List.length_cons, Nat.pow_succ]
        have := Nat.div_add_mod n 10
        have hm : n / 10 * (10 ^ acc.length * 10) = (n / 10 * 10) * 10 ^ acc.length := by
          rw [Nat.mul_comm (10 ^ acc.length) 10, Nat.mul_assoc]
        have hn' : n * 10 ^ acc.length = (n / 10 * 10 + n % 10) * 10 ^ acc.length := by
          congr 1; omega
        rw [hm, hn', Nat.add_mul]; omega
      · intro d hd
        rcases h6 d hd with h | h
        · exact Or.inl h
        · rcases List.mem_cons.mp h with h | h
          · left; omega
          · exact Or.inr h

/-- `decDigits n` are the decimal digits of `n`: every digit `< 10`, they denote `n`,
and their number `L ≥ 1` satisfies `n < 10^L`, and `10^(L-1) ≤ n` unless `n = 0`. -/
theorem decDigits_spec (n : ℕ) :
    (∀ d ∈ decDigits n, d < 10) ∧ natVal (decDigits n) = n ∧ 1 ≤ (decDigits n).length ∧
      n < 10 ^ (decDigits n).length ∧ (1 ≤ n → 10 ^ ((decDigits n).length - 1) ≤ n) := by
  obtain ⟨L, h1, h2, h3, h4, h5, h6⟩ := decDigitsAux_spec (n + 1) n [] (by omega)
  unfold decDigits
  simp only [List.length_nil, Nat.zero_add] at h1
  refine ⟨?_, by simpa [natVal] using h5, by omega, by rw [h1]; exact h3, by rw [h1]; exact h4⟩
  intro d hd
  rcases h6 d hd with h | h
  · exact h
  · simp at h

theorem numDigits_zero : numDigits 0 = 0 := rfl

theorem numDigits_spec (n : ℕ) (h : 1 ≤ n) :
    1 ≤ numDigits n ∧ 10 ^ (numDigits n - 1) ≤ n ∧ n < 10 ^ numDigits n := by
  obtain ⟨_, _, h1, h2, h3⟩ := decDigits_spec n
  have : numDigits n = (decDigits n).length := by
    unfold numDigits; rw [if_neg (by omega)]
  rw [this]; exact ⟨h1, h3 h, h2⟩

/-- digit count is determined by the bracketing powers of ten -/
theorem numDigits_unique (n L : ℕ) (hL : 1 ≤ L) (h1 : 10 ^ (L - 1) ≤ n) (h2 : n < 10 ^ L) :
    numDigits n = L := by
  have hn : 1 ≤ n := le_trans (Nat.one_le_pow _ _ (by norm_num)) h1
  obtain ⟨a1, a2, a3⟩ := numDigits_spec n hn
  have b1 : numDigits n - 1 < L :=
    (Nat.pow_lt_pow_iff_right (by norm_num : 1 < 10)).mp (lt_of_le_of_lt a2 h2)
  have b2 : L - 1 < numDigits n :=
    (Nat.pow_lt_pow_iff_right (by norm_num : 1 < 10)).mp (lt_of_le_of_lt h1 a3)
  omega

/-- `log10ceilNat n` is `⌈log10 n⌉`: the least `j` with `n ≤ 10^j`. -/
theorem log10ceilNat_le_iff (n j : ℕ) (h : 1 ≤ n) : log10ceilNat n ≤ j ↔ n ≤ 10 ^ j := by
  unfold log10ceilNat
  by_cases h1 : n = 1
  · subst h1
    simp [numDigits_zero, Nat.one_le_pow]
  · obtain ⟨a1, a2, a3⟩ := numDigits_spec (n - 1) (by omega)
    constructor
    · intro hj
      have : 10 ^ numDigits (n - 1) ≤ 10 ^ j := Nat.pow_le_pow_right (by norm_num) hj
      omega
    · intro hn
      by_contra hc
      have : 10 ^ j ≤ 10 ^ (numDigits (n - 1) - 1) :=
        Nat.pow_le_pow_right (by norm_num) (by omega)
      omega

theorem log10ceilNat_zero : log10ceilNat 0 = 0 := rfl

theorem log10ceilNat_pow (j : ℕ) : log10ceilNat (10 ^ j) = j := by
  have h1 : 1 ≤ 10 ^ j := Nat.one_le_pow _ _ (by norm_num)
  apply le_antisymm
  · exact (log10ceilNat_le_iff _ _ h1).mpr (le_refl _)
  · by_contra hc
    have hlt : log10ceilNat (10 ^ j) < j := by omega
    have := (log10ceilNat_le_iff (10 ^ j) (log10ceilNat (10 ^ j)) h1).mp (le_refl _)
    have := (Nat.pow_le_pow_iff_right (by norm_num : 1 < 10)).mp this
    omega

theorem numDigits_pow (j : ℕ) : numDigits (10 ^ j) = j + 1 :=
  numDigits_unique _ _ (by omega) (by simp) (Nat.pow_lt_pow_right (by norm_num) (by omega))

/-- SIGNIFICANT DIGITS vs THE CAP.  For `w ≥ 1` the digit count of `w` is `⌈log10 w⌉`,
except for exact powers of ten, which have one digit more. -/
theorem numDigits_eq_log10ceil (w : ℕ) (h : 1 ≤ w) (hp : ∀ j, w ≠ 10 ^ j) :
    numDigits w = log10ceilNat w := by
  have hc := (log10ceilNat_le_iff w (log10ceilNat w) h).mp (le_refl _)
  have hc' : w < 10 ^ log10ceilNat w := lt_of_le_of_ne hc (hp _)
  have hpos : 1 ≤ log10ceilNat w := by
    by_contra h0
    have : log10ceilNat w = 0 := by omega
    rw [this] at hc'; simp at hc'; omega
  apply numDigits_unique _ _ hpos _ hc'
  by_contra hlt
  have : w ≤ 10 ^ (log10ceilNat w - 1) := by omega
  have := (log10ceilNat_le_iff w _ h).mpr this
  omega

theorem numDigits_le_log10ceil_succ (w : ℕ) (h : 1 ≤ w) :
    numDigits w ≤ log10ceilNat w + 1 := by
  by_cases hp : ∃ j, w = 10 ^ j
  · obtain ⟨j, rfl⟩ := hp
    rw [numDigits_pow, log10ceilNat_pow]
  · rw [numDigits_eq_log10ceil w h (fun j hj => hp ⟨j, hj⟩)]; omega

/-! ### the instance on natural-number arguments -/

theorem ratTruncNat_natCast (n : ℕ) : ratTruncNat (n : ℚ) = n := by
  have h := ratTruncNat_cast (n : ℚ)
  rw [abs_of_nonneg (Nat.cast_nonneg n)] at h
  have : ⌊(n : ℚ)⌋ = (n : ℤ) := Int.floor_natCast n
  rw [this] at h
  exact_mod_cast h

theorem log10ceil_natCast (n : ℕ) : log10ceil (n : ℚ) = log10ceilNat n := by
  rw [rat_log10ceil, ratCeil_eq]
  have : ⌈(n : ℚ)⌉ = (n : ℤ) := Int.ceil_natCast n
  rw [this]; simp

theorem log10ceil_truncAbs (x : ℚ) : log10ceil (truncAbs x) = log10ceilNat (ratTruncNat x) := by
  rw [rat_truncAbs, log10ceil_natCast]

theorem showWhole_natCast (n : ℕ) : showWhole (n : ℚ) = decDigits n := by
  rw [rat_showWhole, ratTruncNat_natCast]

end Num
