/-
C10 — helper lemmas, part 2: (A) the digit-loop invariant, (C) `carry` adds exactly one
unit in the last place, (D) `stripZeros` keeps the value, and shape facts (digits < 10,
last digit non-zero) of the three.
-/
import RsassModel.Num.FormatLemmasBase
namespace Num
open NumOps

/-! ### (A) digit loop -/

/-- Loop invariant of `for _ in 1..n { frac *= 10; push digit; frac = fract }`:
starting from `|f| < 1` the loop appends digits `ds` and leaves `r` with
`|f| = 0.ds + |r|/10^|ds|`, `|r| < 1`, every digit `< 10`, at most `n` digits, and it
stops early only on an exact zero remainder — and then the last digit is not `0`. -/
theorem digitLoop_inv (n : ℕ) : ∀ (f : ℚ) (acc : List ℕ), |f| < 1 →
    ∃ ds r, digitLoop n f acc = (acc ++ ds, r) ∧ |r| < 1 ∧
      |f| = fracVal ds + |r| / 10 ^ ds.length ∧ ds.length ≤ n ∧ (∀ d ∈ ds, d < 10) ∧
      (r = 0 ∨ ds.length = n) ∧
      (f ≠ 0 → r = 0 → ∃ ds' d, ds = ds' ++ [d] ∧ d ≠ 0) := by
  induction n with
  | zero =>
    intro f acc hf
    refine ⟨[], f, by simp [digitLoop], hf, by simp [fracVal], by simp, by simp, Or.inr rfl, ?_⟩
    intro h1 h2; exact absurd h2 h1
  | succ n ih =>
    intro f acc hf
    have hstep := digit_add_abs_fract (mul10 f)
    rw [abs_mul10] at hstep
    have hd10 : digit (mul10 f) < 10 := by
      apply digit_lt_ten; rw [abs_mul10]; linarith
    have hf'1 := abs_fract_lt_one (mul10 f)
    by_cases hz : isZero (fract (mul10 f)) = true
    · have hz0 : fract (mul10 f) = 0 := (isZero_iff _).mp hz
      refine ⟨[digit (mul10 f)], fract (mul10 f), by simp [digitLoop, hz], hf'1, ?_, by simp,
        by simpa using hd10, Or.inl hz0, ?_⟩
      · rw [hz0] at hstep ⊢
        simp only [abs_zero, add_zero, fracVal, List.length_singleton, zero_div] at hstep ⊢
        linarith
      · intro hf0 _
        refine ⟨[], digit (mul10 f), rfl, ?_⟩
        intro h0
        rw [hz0, h0] at hstep
        simp at hstep
        exact hf0 hstep
    · obtain ⟨ds, r, heq, hr1, hval, hlen, hlt, hor, hlast⟩ :=
        ih (fract (mul10 f)) (acc ++ [digit (mul10 f)]) hf'1
      have hnz : fract (mul10 f) ≠ 0 := fun h => hz ((isZero_iff _).mpr h)
      refine ⟨digit (mul10 f) :: ds, r, ?_, hr1, ?_, by simp; omega, ?_, ?_, ?_⟩
      · simp [digitLoop, hz, heq]
      · simp only [fracVal, List.length_cons]
        rw [hval] at hstep
        rw [pow_succ]
        have hp : (0 : ℚ) < 10 ^ ds.length := by positivity
        field_simp
        field_simp at hstep
        linarith
      · intro d hd
        rcases List.mem_cons.mp hd with h | h
        · rw [h]; exact hd10
        · exact hlt d h
      · rcases hor with h | h
        · exact Or.inl h
        · right; simp [h]
      · intro _ hr0
        obtain ⟨ds', d, h1, h2⟩ := hlast hnz hr0
        exact ⟨digit (mul10 f) :: ds', d, by simp [h1], h2⟩

/-! ### (C) carry -/

/-- `carry` on the reversed list (what the `pop` loop sees). -/
def carryRev (l : List ℕ) : List ℕ × Bool :=
  match l.dropWhile (· == 9) with
  | [] => ([], true)
  | c :: rest => (((c + 1) :: rest).reverse, false)

theorem carry_eq_carryRev (dec : List ℕ) : carry dec = carryRev dec.reverse := rfl

theorem carryRev_nine (l : List ℕ) : carryRev (9 :: l) = carryRev l := by
  simp [carryRev, List.dropWhile]

theorem carryRev_not_nine (a : ℕ) (l : List ℕ) (h : a ≠ 9) :
    carryRev (a :: l) = (((a + 1) :: l).reverse, false) := by
  have h9 : (a == 9) = false := by simp [h]
  simp [carryRev, List.dropWhile, h9]

theorem carryRev_val (l : List ℕ) :
    fracVal (carryRev l).1 + (if (carryRev l).2 then 1 else 0)
      = fracVal l.reverse + 1 / 10 ^ l.length := by
  induction l with
  | nil => simp [carryRev, fracVal]
  | cons a l ih =>
    by_cases h : a = 9
    · subst h
      rw [carryRev_nine, ih]
      simp only [List.reverse_cons, fracVal_append_singleton, List.length_reverse,
        List.length_cons]
      rw [pow_succ]
      have hp : (0 : ℚ) < 10 ^ l.length := by positivity
      field_simp
      push_cast
      ring
    · rw [carryRev_not_nine a l h]
      simp only [List.reverse_cons, fracVal_append_singleton, List.length_reverse,
        List.length_cons, Bool.false_eq_true, if_false, add_zero]
      push_cast
      ring

/-- (C) `carry` adds exactly one unit in the last place; the unit that falls off the
front is reported as carry into the integer part. -/
theorem carry_val (dec : List ℕ) :
    fracVal (carry dec).1 + (if (carry dec).2 then 1 else 0)
      = fracVal dec + 1 / 10 ^ dec.length := by
  have := carryRev_val dec.reverse
  rw [List.reverse_reverse, List.length_reverse] at this
  rw [carry_eq_carryRev]; exact this

theorem carryRev_shape (l : List ℕ) :
    (carryRev l).1 = [] ∨ ∃ ds c, (carryRev l).1 = ds ++ [c + 1] ∧ c ≠ 9 ∧ c ∈ l ∧
      ∀ d ∈ ds, d ∈ l := by
  induction l with
  | nil => left; simp [carryRev]
  | cons a l ih =>
    by_cases h : a = 9
    · subst h
      rw [carryRev_nine]
      rcases ih with h | ⟨ds, c, h1, h2, h3, h4⟩
      · exact Or.inl h
      · exact Or.inr ⟨ds, c, h1, h2, List.mem_cons_of_mem _ h3,
          fun d hd => List.mem_cons_of_mem _ (h4 d hd)⟩
    · right
      rw [carryRev_not_nine a l h]
      exact ⟨l.reverse, a, by simp, h, List.mem_cons_self, fun d hd =>
        List.mem_cons_of_mem _ (List.mem_reverse.mp hd)⟩

/-- after a carry the digit list is empty or ends in a non-zero digit, and stays `< 10` -/
theorem carry_shape (dec : List ℕ) (hlt : ∀ d ∈ dec, d < 10) :
    ((carry dec).1 = [] ∨ ∃ ds c, (carry dec).1 = ds ++ [c] ∧ c ≠ 0) ∧
      ∀ d ∈ (carry dec).1, d < 10 := by
  rw [carry_eq_carryRev]
  rcases carryRev_shape dec.reverse with h | ⟨ds, c, h1, h2, h3, h4⟩
  · rw [h]; simp
  · rw [h1]
    refine ⟨Or.inr ⟨ds, c + 1, rfl, by omega⟩, ?_⟩
    intro d hd
    rcases List.mem_append.mp hd with h | h
    · exact hlt d (List.mem_reverse.mp (h4 d h))
    · have hc := hlt c (List.mem_reverse.mp h3)
      simp at h; omega

/-- the carry reaches the integer part only with no fractional digit left -/
theorem carry_up_nil (dec : List ℕ) (h : (carry dec).2 = true) : (carry dec).1 = [] := by
  unfold carry at h ⊢
  split <;> simp_all

/-! ### (D) stripZeros -/

theorem dropWhile_zero_val (l : List ℕ) :
    fracVal (l.dropWhile (· == 0)).reverse = fracVal l.reverse := by
  induction l with
  | nil => rfl
  | cons a l ih =>
    by_cases h : a = 0
    · subst h
      simp only [List.dropWhile, beq_self_eq_true, ih, List.reverse_cons,
        fracVal_append_singleton]
      simp
    · have h0 : (a == 0) = false := by simp [h]
      simp [List.dropWhile, h0]

/-- (D) dropping trailing zeros keeps the value -/
theorem stripZeros_val (dec : List ℕ) : fracVal (stripZeros dec) = fracVal dec := by
  unfold stripZeros
  simpa using dropWhile_zero_val dec.reverse

theorem dropWhile_zero_shape (l : List ℕ) :
    (l.dropWhile (· == 0) = [] ∨ ∃ c rest, l.dropWhile (· == 0) = c :: rest ∧ c ≠ 0) ∧
      ∀ d ∈ l.dropWhile (· == 0), d ∈ l := by
  induction l with
  | nil => simp
  | cons a l ih =>
    by_cases h : a = 0
    · subst h
      simp only [List.dropWhile, beq_self_eq_true]
      exact ⟨ih.1, fun d hd => List.mem_cons_of_mem _ (ih.2 d hd)⟩
    · have h0 : (a == 0) = false := by simp [h]
      simp [List.dropWhile, h0, h]

theorem stripZeros_shape (dec : List ℕ) :
    (stripZeros dec = [] ∨ ∃ ds c, stripZeros dec = ds ++ [c] ∧ c ≠ 0) ∧
      ∀ d ∈ stripZeros dec, d ∈ dec := by
  unfold stripZeros
  obtain ⟨h1, h2⟩ := dropWhile_zero_shape dec.reverse
  constructor
  · rcases h1 with h | ⟨c, rest, h, hc⟩
    · left; simp [h]
    · right; exact ⟨rest.reverse, c, by simp [h], hc⟩
  · intro d hd
    exact List.mem_reverse.mp (h2 d (List.mem_reverse.mp hd))

end Num
