/-
C10 — helper lemmas, part 3: (B) the final rounded digit and the assembly — what
`fracDigits` prints lies in the half-open interval `(|x| - ½·10^-k, |x| + ½·10^-k]`,
i.e. it is `|x|` rounded to `k` places with ties away from zero.
-/
import RsassModel.Num.FormatLemmasLoop
namespace Num
open NumOps

/-- what `fracDigits` does once at least one decimal is allowed (`n = decimals - 1`):
digit loop, final rounded digit, carry or zero stripping. -/
def fracTail {α} [NumOps α] (n : ℕ) (frac whole : α) : List ℕ × α :=
  let (dec, fr) := digitLoop n frac []
  if isZero fr then (dec, whole)
  else
    let e := roundAbs (mul10 fr)
    if e == 10 then
      let (dec, up) := carry dec
      (dec, if up then addOne whole else whole)
    else if e == 0 then (stripZeros dec, whole)
    else (dec ++ [e], whole)

/-- `fracDigits`, restated with `fracTail` (definitional). -/
theorem fracDigits_eq {α} [NumOps α] (q : FmtQuirks) (p : ℕ) (s : α) :
    fracDigits q p s =
      if isZero (fract s) then ([], truncAbs s)
      else if (min (16 - log10ceil (truncAbs s)) p == 0) ∧ !q.precisionZeroOneDigit then
        (if geHalf (fract s) then ([], addOne (truncAbs s)) else ([], truncAbs s))
      else fracTail (min (16 - log10ceil (truncAbs s)) p - 1) (fract s) (truncAbs s) := rfl

/-! ### (B) the final digit -/

/-- `round().abs()` is `⌊|y| + ½⌋`: round half away from zero. -/
theorem roundAbs_bounds (y : ℚ) :
    ((roundAbs y : ℕ) : ℚ) ≤ |y| + 1 / 2 ∧ |y| + 1 / 2 < ((roundAbs y : ℕ) : ℚ) + 1 := by
  rw [rat_roundAbs, ratTruncNat_cast, ratAbs_eq,
    abs_of_nonneg (by positivity : (0 : ℚ) ≤ |y| + 1 / 2)]
  exact ⟨Int.floor_le _, Int.lt_floor_add_one _⟩

/-- (B) for a remainder `|r| < 1` the final digit `e = round(10 r)` is in `0..10` and
`e/10` is within `1/20` of `|r|`, the upper end attained only by ties. -/
theorem final_digit (r : ℚ) (hr : |r| < 1) :
    roundAbs (mul10 r) ≤ 10 ∧
      -(1 / 20 : ℚ) < ((roundAbs (mul10 r) : ℕ) : ℚ) / 10 - |r| ∧
      ((roundAbs (mul10 r) : ℕ) : ℚ) / 10 - |r| ≤ 1 / 20 := by
  obtain ⟨h1, h2⟩ := roundAbs_bounds (mul10 r)
  rw [abs_mul10] at h1 h2
  refine ⟨?_, by linarith, by linarith⟩
  have : ((roundAbs (mul10 r) : ℕ) : ℚ) < 11 := by linarith
  have : roundAbs (mul10 r) < 11 := by exact_mod_cast this
  omega

/-! ### assembly -/

/-- the value `fracTail` prints, when the digit loop leaves a non-zero remainder `r`
after `ds`: always `whole + 0.ds + e/10^(|ds|+1)` — whichever of the three branches
(carry, strip, append) is taken. -/
theorem fracTail_val (n : ℕ) (f w : ℚ) (ds : List ℕ) (r : ℚ)
    (hl : digitLoop n f [] = (ds, r)) (hr : r ≠ 0) :
    printedAbs (fracTail n f w)
      = w + fracVal ds + ((roundAbs (mul10 r) : ℕ) : ℚ) / 10 ^ (ds.length + 1) := by
  have hz : ¬ isZero r = true := fun h => hr ((isZero_iff r).mp h)
  unfold fracTail
  rw [hl]
  simp only [hz, if_false, Bool.false_eq_true]
  have hp : (0 : ℚ) < 10 ^ ds.length := by positivity
  by_cases h10 : roundAbs (mul10 r) = 10
  · simp only [h10, beq_self_eq_true, if_true]
    have hc := carry_val ds
    generalize carry ds = cr at hc
    obtain ⟨d2, up⟩ := cr
    simp only [printedAbs] at hc ⊢
    rw [pow_succ]
    cases up
    · simp only [Bool.false_eq_true, if_false, add_zero] at hc ⊢
      rw [hc]; push_cast; field_simp; ring
    · simp only [if_true, rat_addOne] at hc ⊢
      have : fracVal d2 = fracVal ds + 1 / 10 ^ ds.length - 1 := by linarith
      rw [this]; push_cast; field_simp; ring
  · have h10' : (roundAbs (mul10 r) == 10) = false := by simp [h10]
    simp only [h10', Bool.false_eq_true, if_false]
    by_cases h0 : roundAbs (mul10 r) = 0
    · simp only [h0, beq_self_eq_true, if_true, printedAbs, stripZeros_val]
      simp
    · have h0' : (roundAbs (mul10 r) == 0) = false := by simp [h0]
      simp only [h0', Bool.false_eq_true, if_false, printedAbs, fracVal_append_singleton]
      ring

/-- The printed magnitude of `fracTail (k-1)` is `w + |f|` rounded to `k` places, half
away from zero: it lies in `(w + |f| - ½·10^-k, w + |f| + ½·10^-k]`. -/
theorem fracTail_interval (n : ℕ) (f w : ℚ) (hf : |f| < 1) :
    -(1 / (2 * 10 ^ (n + 1)) : ℚ) < printedAbs (fracTail n f w) - (w + |f|) ∧
      printedAbs (fracTail n f w) - (w + |f|) ≤ 1 / (2 * 10 ^ (n + 1)) := by
  obtain ⟨ds, r, heq, hr1, hval, hlen, hlt, hor, hlast⟩ := digitLoop_inv n f [] hf
  rw [List.nil_append] at heq
  have hpn : (0 : ℚ) < 1 / (2 * 10 ^ (n + 1)) := by positivity
  by_cases hr : r = 0
  · have hz : isZero r = true := (isZero_iff r).mpr hr
    have : fracTail n f w = (ds, w) := by
      unfold fracTail; rw [heq]; simp only [hz, if_true]
    rw [this, hval, hr]
    simp only [printedAbs, abs_zero, zero_div, add_zero, sub_self]
    exact ⟨by linarith, le_of_lt hpn⟩
  · have hn : ds.length = n := by
      rcases hor with h | h
      · exact absurd h hr
      · exact h
    rw [fracTail_val n f w ds r heq hr, hval, hn]
    obtain ⟨_, hb1, hb2⟩ := final_digit r hr1
    have hp : (0 : ℚ) < 10 ^ n := by positivity
    have key : w + fracVal ds + ((roundAbs (mul10 r) : ℕ) : ℚ) / 10 ^ (n + 1)
        - (w + (fracVal ds + |r| / 10 ^ n))
        = (((roundAbs (mul10 r) : ℕ) : ℚ) / 10 - |r|) / 10 ^ n := by
      rw [pow_succ]; field_simp; ring
    have h20 : (1 : ℚ) / (2 * 10 ^ (n + 1)) = (1 / 20) / 10 ^ n := by
      rw [pow_succ]; field_simp; ring
    rw [key, h20, ← neg_div]
    exact ⟨div_lt_div_of_pos_right hb1 hp, div_le_div_of_nonneg_right hb2 (le_of_lt hp)⟩

end Num
