/-
`Float` instance of `NumOps`: used by the compiled driver only (never in a theorem).
`showWhole` reproduces Rust's `{}` for a non-negative integral f64: exact digits below
2^53, otherwise the shortest digit string that reads back to the same double, padded
with zeros (computed exactly on `Nat` from the bit pattern).
-/
import RsassModel.Num.Ops
namespace Num

def natDigits (n : Nat) : List Nat := (Nat.toDigits 10 n).map fun c => c.toNat - 48

/-- digits of the shortest decimal integer in the rounding interval of `m * 2^e`
(`2^52 ≤ m < 2^53`, `e ≥ 1`), closest to the value. -/
def shortestBig (m e : Nat) : List Nat := Id.run do
  let V := 4 * m * 2 ^ e
  let up := 2 ^ (e + 1)
  let dn := if m == 2 ^ 52 then 2 ^ e else 2 ^ (e + 1)
  let H := V + up
  let L := V - dn
  let incl := m % 2 == 0
  -- find the largest k with a multiple of 10^k in the interval
  let maxk := (Nat.toDigits 10 (m * 2 ^ e)).length
  let mut best : Option (Nat × Nat) := none
  for i in [0:maxk + 1] do
    let k := maxk - i
    if best.isNone then
      let P := 4 * 10 ^ k
      let clo := if incl then (L + P - 1) / P else L / P + 1
      let chi := if incl then H / P else (if H % P == 0 then H / P - 1 else H / P)
      if clo ≤ chi ∧ chi > 0 then
        -- closest to V/P, clamped
        let c0 := (2 * V + P) / (2 * P)
        let c := if c0 < clo then clo else if c0 > chi then chi else c0
        best := some (c, k)
  match best with
  | some (c, k) => natDigits c ++ List.replicate k 0
  | none => natDigits (m * 2 ^ e)

def showWholeFloat (x : Float) : List Nat :=
  if x < 9007199254740992.0 then natDigits x.toUInt64.toNat
  else
    let bits := x.toBits.toNat
    let ex := (bits / 2 ^ 52) % 2048
    let mant := bits % 2 ^ 52 + 2 ^ 52
    -- value = mant * 2^(ex - 1075)
    shortestBig mant (ex - 1075)

def fractF (x : Float) : Float := x - (if x < 0 then x.ceil else x.floor)
def truncF (x : Float) : Float := if x < 0 then x.ceil else x.floor

instance : NumOps Float where
  isNaN := Float.isNaN
  isInf := Float.isInf
  signBit x := x.toBits >>> 63 == 1
  fract := fractF
  truncAbs x := (truncF x).abs
  isZero x := x == 0.0
  mul10 x := x * 10.0
  digit x := (truncF x).abs.toUInt8.toNat
  roundAbs x := x.round.abs.toUInt8.toNat
  log10ceil x := x.log10.ceil.toUInt64.toNat
  geHalf x := x.abs >= 0.5
  addOne x := x + 1.0
  showWhole := showWholeFloat

end Num
