/-
C10 — helper lemmas, part 6: shape of the printed text on the exact instance — every
digit `< 10`, the last fractional digit non-zero, the integer part unchanged whenever a
fractional digit is printed, and the character list of `fmtNumber`.
-/
import RsassModel.Num.FormatLemmasSpec
import RsassModel.Num.FormatLemmasDigits
namespace Num
open NumOps

/-- a digit list is empty or ends in a non-zero digit -/
def NoTrailingZero (ds : List ℕ) : Prop := ds = [] ∨ ∃ ds' c, ds = ds' ++ [c] ∧ c ≠ 0

theorem noTrailingZero_iff (ds : List ℕ) : NoTrailingZero ds ↔ ds.getLast? ≠ some 0 := by
  unfold NoTrailingZero
  constructor
  · rintro (h | ⟨ds', c, h, hc⟩)
    · simp [h]
    · simp [h, hc]
  · intro h
    rcases List.eq_nil_or_concat ds with h0 | ⟨ds', c, h0⟩
    · exact Or.inl h0
    · right
      refine ⟨ds', c, by simpa using h0, ?_⟩
      intro hc; apply h; subst hc; simp [h0]

theorem fracTail_shape (n : ℕ) (f w : ℚ) (hf : |f| < 1) (hf0 : f ≠ 0) :
    NoTrailingZero (fracTail n f w).1 ∧ ∀ d ∈ (fracTail n f w).1, d < 10 := by
  obtain ⟨ds, r, heq, hr1, hval, hlen, hlt, hor, hlast⟩ := digitLoop_inv n f [] hf
  rw [List.nil_append] at heq
  by_cases hr : r = 0
  · have hz : isZero r = true := (isZero_iff r).mpr hr
    have : fracTail n f w = (ds, w) := by
      unfold fracTail; rw [heq]; simp only [hz, if_true]
    rw [this]
    exact ⟨Or.inr (hlast hf0 hr), hlt⟩
  · have hz : ¬ isZero r = true := fun h => hr ((isZero_iff r).mp h)
    obtain ⟨he10, _, _⟩ := final_digit r hr1
    unfold fracTail
    rw [heq]
    simp only [hz, if_false, Bool.false_eq_true]
    by_cases h10 : roundAbs (mul10 r) = 10
    · simp only [h10, beq_self_eq_true, if_true]
      have hc := carry_shape ds hlt
      generalize carry ds = cr at hc
      obtain ⟨d2, up⟩ := cr
      exact hc
    · have h10' : (roundAbs (mul10 r) == 10) = false := by simp [h10]
      simp only [h10', Bool.false_eq_true, if_false]
      by_cases h0 : roundAbs (mul10 r) = 0
      · simp only [h0, beq_self_eq_true, if_true]
        obtain ⟨s1, s2⟩ := stripZeros_shape ds
        exact ⟨s1, fun d hd => hlt d (s2 d hd)⟩
      · have h0' : (roundAbs (mul10 r) == 0) = false := by simp [h0]
        simp only [h0', Bool.false_eq_true, if_false]
        refine ⟨Or.inr ⟨ds, _, rfl, h0⟩, ?_⟩
        intro d hd
        rcases List.mem_append.mp hd with h | h
        · exact hlt d h
        · simp at h; omega

/-- shape of the fractional digits, for the repaired model AND the code as it is -/
theorem fracDigits_shape (q : FmtQuirks) (p : ℕ) (x : ℚ) :
    NoTrailingZero (fracDigits q p x).1 ∧ ∀ d ∈ (fracDigits q p x).1, d < 10 := by
  rw [fracDigits_eq]
  by_cases hz : isZero (fract x) = true
  · simp only [hz, if_true]; exact ⟨Or.inl rfl, by simp⟩
  · simp only [hz, if_false, Bool.false_eq_true]
    split
    · split <;> exact ⟨Or.inl rfl, by simp⟩
    · exact fracTail_shape _ _ _ (abs_fract_lt_one x) (fun h => hz ((isZero_iff _).mpr h))

/-- whenever a fractional digit is printed the integer part is `trunc|x|` itself
(a carry into the integer part leaves no fractional digit) — any carrier -/
theorem fracDigits_whole_of_dec {α} [NumOps α] (q : FmtQuirks) (p : ℕ) (s : α)
    (h : (fracDigits q p s).1 ≠ []) : (fracDigits q p s).2 = truncAbs s := by
  rw [fracDigits_eq] at h ⊢
  by_cases hz : isZero (fract s) = true
  · simp only [hz, if_true]
  · simp only [hz, if_false, Bool.false_eq_true] at h ⊢
    by_cases hk : ((min (16 - log10ceil (truncAbs s)) p == 0) = true ∧
        (!q.precisionZeroOneDigit) = true)
    · rw [if_pos hk] at h
      split at h <;> exact absurd rfl h
    · rw [if_neg hk] at h ⊢
      unfold fracTail at h ⊢
      generalize digitLoop _ (fract s) [] = r at h ⊢
      obtain ⟨dec, fr⟩ := r
      simp only [] at h ⊢
      by_cases hfr : isZero fr = true
      · simp only [hfr, if_true]
      · simp only [hfr, if_false, Bool.false_eq_true] at h ⊢
        by_cases he : (roundAbs (mul10 fr) == 10) = true
        · simp only [he, if_true] at h ⊢
          have hu := carry_up_nil dec
          generalize carry dec = cr at h hu ⊢
          obtain ⟨d2, up⟩ := cr
          simp only [] at h hu ⊢
          cases up
          · rfl
          · exact absurd (hu rfl) h
        · simp only [he, if_false, Bool.false_eq_true]
          split <;> rfl

/-! ### zero and sign -/

theorem fracVal_nonneg (ds : List ℕ) : 0 ≤ fracVal ds := by
  induction ds with
  | nil => simp [fracVal]
  | cons d ds ih => simp only [fracVal]; positivity

theorem fracVal_pos (ds : List ℕ) (h : NoTrailingZero ds) (hne : ds ≠ []) : 0 < fracVal ds := by
  rcases h with h | ⟨ds', c, h, hc⟩
  · exact absurd h hne
  · rw [h, fracVal_append_singleton]
    have := fracVal_nonneg ds'
    have hc' : (0 : ℚ) < c := by exact_mod_cast Nat.pos_of_ne_zero hc
    have : (0 : ℚ) < (c : ℚ) / 10 ^ (ds'.length + 1) := by positivity
    linarith

/-- the printed magnitude is zero exactly when the text is the bare integer part `0` -/
theorem printedAbs_eq_zero_iff (q : FmtQuirks) (p : ℕ) (x : ℚ) :
    printedAbs (fracDigits q p x) = 0 ↔
      (fracDigits q p x).2 = 0 ∧ (fracDigits q p x).1 = [] := by
  obtain ⟨w, hw⟩ := fracDigits_whole_nat q p x
  have hnn := fracVal_nonneg (fracDigits q p x).1
  have hw0 : (0 : ℚ) ≤ (fracDigits q p x).2 := by rw [hw]; exact Nat.cast_nonneg w
  unfold printedAbs
  constructor
  · intro h
    have h1 : (fracDigits q p x).2 = 0 := by linarith
    have h2 : fracVal (fracDigits q p x).1 = 0 := by linarith
    refine ⟨h1, ?_⟩
    by_contra hne
    have := fracVal_pos _ (fracDigits_shape q p x).1 hne
    linarith
  · rintro ⟨h1, h2⟩
    rw [h1, h2]; simp [fracVal]

/-! ### characters -/

theorem digitChar_isDigit (d : ℕ) (h : d < 10) : (digitChar d).isDigit = true := by
  have : d = 0 ∨ d = 1 ∨ d = 2 ∨ d = 3 ∨ d = 4 ∨ d = 5 ∨ d = 6 ∨ d = 7 ∨ d = 8 ∨ d = 9 := by
    omega
  rcases this with h | h | h | h | h | h | h | h | h | h <;> subst h <;> decide

theorem showDigits_toList (ds : List ℕ) : (showDigits ds).toList = ds.map digitChar := by
  unfold showDigits; exact String.toList_ofList

/-- the characters of the printed text: optional `-`, integer digits (possibly none in
compressed style), and — only when there are fractional digits — `.` and those digits. -/
theorem fmtNumber_toList (q : FmtQuirks) (c : Bool) (p : ℕ) (x : ℚ) :
    (fmtNumber q c p x).toList =
      (if signBit x ∧ (!isZero (fracDigits q p x).2 ∨ !(fracDigits q p x).1.isEmpty)
        then ['-'] else []) ++
      (if isZero (fracDigits q p x).2 ∧ c ∧ !(fracDigits q p x).1.isEmpty then []
        else (showWhole (fracDigits q p x).2).map digitChar) ++
      (if (fracDigits q p x).1.isEmpty then []
        else '.' :: (fracDigits q p x).1.map digitChar) := by
  unfold fmtNumber
  simp only [rat_isNaN, rat_isInf, Bool.false_eq_true, if_false]
  generalize fracDigits q p x = r
  obtain ⟨dec, whole⟩ := r
  simp only [String.toList_append]
  congr 1
  · congr 1
    · split <;> rfl
    · split
      · rfl
      · exact showDigits_toList _
  · split
    · rfl
    · rw [String.toList_append, showDigits_toList]; rfl

end Num
