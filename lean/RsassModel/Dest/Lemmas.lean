/-
Dest/Lemmas.lean — helper lemmas about the frame stack (used by Theorems/C20, C21, C36).
-/
import RsassModel.Dest.Expand
namespace Dest
variable {σ : Type}

/-- a chain of open `RuleDest`s, innermost first: (selector, collected body) -/
abbrev Rules (σ : Type) := List (σ × List (BodyItem σ))

def ruleStack (rs : Rules σ) : List (Frame σ) := rs.map fun p => .rule p.1 p.2
def emptied (rs : Rules σ) : List (Frame σ) := rs.map fun p => .rule p.1 []
/-- what the chain commits when an item passes through it: outermost rule first -/
def commitsOf (rs : Rules σ) : List (Item σ) := rs.reverse.flatMap fun p => commitItems p.1 p.2

def declsOf (l : List (σ × σ)) : List (Core σ) := l.map fun p => .decl p.1 p.2
def propsOf (l : List (σ × σ)) : List (BodyItem σ) := l.map fun p => .prop p.1 p.2

theorem commitsOf_cons (p : σ × List (BodyItem σ)) (rs : Rules σ) :
    commitsOf (p :: rs) = commitsOf rs ++ commitItems p.1 p.2 := by
  simp [commitsOf]

/-- An item handed to a chain of rule frames that stands directly on the root passes
through all of them: every rule on the way first commits what it has collected, the
outermost first, and the item arrives at the TOP LEVEL right after them. -/
theorem deliver_ruleStack (q : Quirks) (ops : Ops σ) (rs : Rules σ) (root its : List (Item σ)) :
    deliver q ops (ruleStack rs) root its = .ok (emptied rs, root ++ commitsOf rs ++ its) := by
  induction rs generalizing its with
  | nil => simp [ruleStack, emptied, commitsOf, deliver]
  | cons p rs ih =>
    have h := ih (commitItems p.1 p.2 ++ its)
    simp only [ruleStack, List.map_cons] at h ⊢
    simp only [deliver, h, commitsOf_cons, emptied, List.map_cons, List.append_assoc]

theorem emitBody_decls_rule (q : Quirks) (ops : Ops σ) (c : SelCtx σ) (l : List (σ × σ))
    (hc : (c.excluded && !q.atRootKeepsRule) = false)
    (s : σ) (cur : List (BodyItem σ)) (rest : List (Frame σ)) (root : List (Item σ)) (lost : Nat) :
    emitBody q ops c (declsOf l) { stack := .rule s cur :: rest, root := root, lost := lost }
      = .ok { stack := .rule s (cur ++ propsOf l) :: rest, root := root, lost := lost } := by
  induction l generalizing cur with
  | nil => simp [declsOf, propsOf, emitBody]
  | cons p l ih =>
    have := ih (cur ++ [.prop p.1 p.2])
    simp only [declsOf, propsOf, List.map_cons] at this ⊢
    simp [emitBody, emitItem, hc, pushProperty, pushPropertyAux, liftInv, this]

theorem emitBody_decls_at (q : Quirks) (ops : Ops σ) (c : SelCtx σ) (l : List (σ × σ))
    (hc : (c.excluded && !q.atRootKeepsRule) = false) (k : AtKind σ)
    (s : σ) (cur : List (BodyItem σ)) (body : List (Item σ)) (rest : List (Frame σ))
    (root : List (Item σ)) (lost : Nat) :
    emitBody q ops c (declsOf l) { stack := .at k (some (s, cur)) body :: rest, root := root, lost := lost }
      = .ok { stack := .at k (some (s, cur ++ propsOf l)) body :: rest, root := root, lost := lost } := by
  induction l generalizing cur with
  | nil => simp [declsOf, propsOf, emitBody]
  | cons p l ih =>
    have := ih (cur ++ [.prop p.1 p.2])
    simp only [declsOf, propsOf, List.map_cons] at this ⊢
    simp [emitBody, emitItem, hc, pushProperty, pushPropertyAux, liftInv, this]

/-- declarations directly in the body of an at-rule frame without a rule copy -/
theorem emitBody_decls_atNone (q : Quirks) (ops : Ops σ) (c : SelCtx σ) (l : List (σ × σ))
    (hc : (c.excluded && !q.atRootKeepsRule) = false) (k : AtKind σ)
    (body : List (Item σ)) (rest : List (Frame σ)) (root : List (Item σ)) (lost : Nat) :
    emitBody q ops c (declsOf l) { stack := .at k none body :: rest, root := root, lost := lost }
      = .ok { stack := .at k none (body ++ l.map fun p => .prop p.1 p.2) :: rest, root := root, lost := lost } := by
  induction l generalizing body with
  | nil => simp [declsOf, emitBody]
  | cons p l ih =>
    have := ih (body ++ [.prop p.1 p.2])
    simp only [declsOf, List.map_cons] at this ⊢
    simp [emitBody, emitItem, hc, pushProperty, pushPropertyAux, liftInv, this]

theorem propsOf_isEmpty (l : List (σ × σ)) (hl : l ≠ []) : (propsOf l).isEmpty = false := by
  cases l with
  | nil => exact absurd rfl hl
  | cons p l => simp [propsOf]

/-- what closing a frame makes of the result of handing its item to the parent chain -/
def closeResult (q : Quirks) (stk : List (Frame σ)) (root : List (Item σ)) (lost : Nat)
    (r : Except Invalid (List (Frame σ) × List (Item σ))) : Except Err (St σ) :=
  match r with
  | .ok (stk', root') => .ok { stack := stk', root := root', lost := lost }
  | .error e =>
    if q.closeSwallows then .ok { stack := stk, root := root, lost := lost + 1 } else .error (.invalid e)

/-- A style rule holding only declarations (at least one), on any stack whose top is not a
nested-property block: the rule item `nest(ctx, sel) { declarations }` is handed to the
enclosing destinations. -/
theorem emitItem_rule_decls (q : Quirks) (ops : Ops σ) (c : SelCtx σ) (sel : σ) (l : List (σ × σ))
    (hl : l ≠ []) (stk : List (Frame σ)) (root : List (Item σ)) (lost : Nat)
    (hns : ∀ nm rest, stk ≠ .ns nm :: rest) :
    emitItem q ops c (.rule sel (declsOf l)) { stack := stk, root := root, lost := lost }
      = closeResult q stk root lost
          (deliver q ops stk root [.rule (ops.nest c.s c.backref sel) (propsOf l)]) := by
  have hp := propsOf_isEmpty l hl
  have hs : startRule (ops.nest c.s c.backref sel) ({ stack := stk, root := root, lost := lost } : St σ)
      = .ok { stack := .rule (ops.nest c.s c.backref sel) [] :: stk, root := root, lost := lost } := by
    unfold startRule
    cases stk with
    | nil => rfl
    | cons f rest =>
      cases f with
      | ns nm => exact absurd rfl (hns nm rest)
      | rule _ _ => rfl
      | «at» _ _ _ => rfl
  simp only [emitItem, hs, liftInv]
  rw [emitBody_decls_rule q ops _ l (by simp)]
  simp only [close, List.nil_append, hp, Bool.false_eq_true, if_false, closeResult]
  cases deliver q ops stk root [.rule (ops.nest c.s c.backref sel) (propsOf l)] with
  | error e => cases q.closeSwallows <;> simp
  | ok r => simp

theorem emitBody_single (q : Quirks) (ops : Ops σ) (c : SelCtx σ) (i : Core σ) (st : St σ) :
    emitBody q ops c [i] st = emitItem q ops c i st := by
  simp only [emitBody]
  cases emitItem q ops c i st <;> rfl

theorem emitItem_atrule_eq (q : Quirks) (ops : Ops σ) (c : SelCtx σ) (n a : σ) (body : List (Core σ)) (st : St σ) :
    emitItem q ops c (.atrule n a body) st =
      match emitBody q ops (if ops.isKeyframes n then {} else { c with excluded := false })
          body (startAtRule ops (!c.excluded || q.atRootKeepsRule) n a st) with
      | .error e => .error e
      | .ok st2 => liftInv (close q ops st2) := by
  simp only [emitItem]; rfl

theorem emitItem_atroot_none_eq (q : Quirks) (ops : Ops σ) (c : SelCtx σ) (body : List (Core σ)) (st : St σ) :
    emitItem q ops c (.atroot none body) st =
      emitBody q ops { s := none, backref := c.getBackref, excluded := true } body st := by
  simp only [emitItem, Option.map]

/-- an at-rule frame (not `@media`) without rule copy keeps whatever it is handed -/
theorem deliver_atrule_none (q : Quirks) (ops : Ops σ) (n a : σ) (body : List (Item σ))
    (rest : List (Frame σ)) (root its : List (Item σ)) :
    deliver q ops (.at (.atrule n a) none body :: rest) root its
      = .ok (.at (.atrule n a) none (body ++ its) :: rest, root) := by
  cases h : q.atRuleHoists <;> simp [deliver, h]

end Dest
