/-
Dest/Handle.lean — protocol side shared by the drivers of C20, C21 and C36.

Case line: the generic harness op
  `compile <srcfmt> <style> <precision> <root name> <hex src> <files> <roots> <term>`
where `<term>` (ignored by the harness) is the program as a prefix-notation term, tokens
separated by single spaces, every string as `h<hex>`:

  stmts := `[` stmt* `]`
  stmt  := `D` name val | `C` (`0`|`1`) `[` part* `]` | `S` | `R` sel stmts
         | `N` name (`-`|val) stmts | `M` args stmts | `A` name args stmts | `a` name args
         | `O` (`-`|sel) stmts | `E` | `I` (`0`|`1`) stmts stmts | `L` n stmts
         | `X` m stmts | `Y` m (`0`|`1`) stmts | `K` | `F` f stmts | `T` val
         | `P` stmts | `U` id stmts
  val   := `l` string | `c` n | `u`
  part  := `t` string | `i` val

Answer: `ok:<canonical tree>` or `err`, for the as-is flags of the run and for the
specification, tab separated.
-/
import RsassModel.Dest.Text
namespace Dest

abbrev Toks := List String

def pStr : Toks → Option (String × Toks)
  | t :: r => if t.startsWith "h" then some (Proto.stringOfHex (String.ofList (t.toList.drop 1)), r) else none
  | [] => none

def pNat : Toks → Option (Nat × Toks)
  | t :: r => t.toNat?.map fun n => (n, r)
  | [] => none

def pVal : Toks → Option (Val String × Toks)
  | "l" :: r => do let (s, r) ← pStr r; pure (.lit s, r)
  | "c" :: r => do let (n, r) ← pNat r; pure (.call n, r)
  | "u" :: r => some (.undef, r)
  | _ => none

partial def pParts : Toks → Option (List (CPart String) × Toks)
  | "]" :: r => some ([], r)
  | "t" :: r => do
      let (s, r) ← pStr r
      let (ps, r) ← pParts r
      pure (.text s :: ps, r)
  | "i" :: r => do
      let (v, r) ← pVal r
      let (ps, r) ← pParts r
      pure (.interp v :: ps, r)
  | _ => none

mutual
partial def pBlock : Toks → Option (List (Stmt String) × Toks)
  | "[" :: r => pList r
  | _ => none
partial def pList : Toks → Option (List (Stmt String) × Toks)
  | "]" :: r => some ([], r)
  | ts => do
      let (s, r) ← pStmt ts
      let (l, r) ← pList r
      pure (s :: l, r)
partial def pStmt : Toks → Option (Stmt String × Toks)
  | "D" :: r => do let (n, r) ← pStr r; let (v, r) ← pVal r; pure (.decl n v, r)
  | "C" :: b :: "[" :: r => do let (ps, r) ← pParts r; pure (.comment (b == "1") ps, r)
  | "S" :: r => some (.silent, r)
  | "R" :: r => do let (s, r) ← pStr r; let (b, r) ← pBlock r; pure (.rule s b, r)
  | "N" :: r => do
      let (n, r) ← pStr r
      match r with
      | "-" :: r => do let (b, r) ← pBlock r; pure (.ns n none b, r)
      | r => do let (v, r) ← pVal r; let (b, r) ← pBlock r; pure (.ns n (some v) b, r)
  | "M" :: r => do let (a, r) ← pStr r; let (b, r) ← pBlock r; pure (.media a b, r)
  | "A" :: r => do
      let (n, r) ← pStr r; let (a, r) ← pStr r; let (b, r) ← pBlock r; pure (.atrule n a b, r)
  | "a" :: r => do let (n, r) ← pStr r; let (a, r) ← pStr r; pure (.arule n a, r)
  | "O" :: "-" :: r => do let (b, r) ← pBlock r; pure (.atroot none b, r)
  | "O" :: r => do let (s, r) ← pStr r; let (b, r) ← pBlock r; pure (.atroot (some s) b, r)
  | "E" :: r => some (.error, r)
  | "I" :: c :: r => do let (t, r) ← pBlock r; let (e, r) ← pBlock r; pure (.ifS (c == "1") t e, r)
  | "L" :: r => do let (n, r) ← pNat r; let (b, r) ← pBlock r; pure (.loop n b, r)
  | "X" :: r => do let (m, r) ← pNat r; let (b, r) ← pBlock r; pure (.mixin m b, r)
  | "Y" :: r => do
      let (m, r) ← pNat r
      match r with
      | h :: r => do let (b, r) ← pBlock r; pure (.incl m (h == "1") b, r)
      | [] => none
  | "K" :: r => some (.content, r)
  | "F" :: r => do let (f, r) ← pNat r; let (b, r) ← pBlock r; pure (.func f b, r)
  | "T" :: r => do let (v, r) ← pVal r; pure (.ret v, r)
  | "P" :: r => do let (b, r) ← pBlock r; pure (.imp b, r)
  | "U" :: r => do let (i, r) ← pNat r; let (b, r) ← pBlock r; pure (.use i b, r)
  | _ => none
end

def parseTerm (s : String) : Option (List (Stmt String)) :=
  match pBlock (s.splitOn " ") with
  | some (p, []) => some p
  | _ => none

def quirksOf (flags : List String) : Quirks :=
  { closeSwallows := flags.contains "closeSwallows"
    mediaInMediaNested := flags.contains "mediaInMediaNested"
    atRuleHoists := flags.contains "atRuleHoists"
    atRootKeepsRule := flags.contains "atRootKeepsRule"
    compressedDropsBang := flags.contains "compressedDropsBang"
    commentInterpExpandedOnly := flags.contains "commentInterpExpandedOnly"
    hashCommentDropped := flags.contains "hashCommentDropped"
    vendorKeyframesPrefixed := flags.contains "vendorKeyframesPrefixed"
    compressedMultilineGarbled := flags.contains "compressedMultilineGarbled" }

def render (q : Quirks) (compressed : Bool) (p : List (Stmt String)) : String :=
  match run q (strOps q.vendorKeyframesPrefixed) isCssAtRule compressed defaultFuel p with
  | .error .outOfFuel => "fuel"
  | .error _ => "err"
  | .ok out => let ops := strOps q.vendorKeyframesPrefixed
    "ok:" ++ canonItems (compressed, q.compressedMultilineGarbled)
      (if q.hashCommentDropped then ops.isHash else ops.isSourceMap) 0 out.items

def handle (flags : List String) (op : String) (args : List String) : String :=
  match op, args with
  | "compile", [_, style, _, _, _, _, _, term] =>
    match parseTerm term with
    | none => "bad-args"
    | some p =>
      let c := style == "c" || style == "compressed"
      render (quirksOf flags) c p ++ "\t" ++ render Quirks.spec c p
  | _, _ => "bad-op"

end Dest
