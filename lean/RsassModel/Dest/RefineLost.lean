/-
Dest/RefineLost.lean — `emit_refines_log` without assuming that failed `Drop`s are errors:
for the code as it is (`closeSwallows = true`) the lost-counter never decreases, and a run
that lost nothing (`lost` unchanged) refines the evaluation log exactly as in `Dest/Refine.lean`.
-/
import RsassModel.Dest.Refine
namespace Dest
variable {σ : Type}

/-- `st'` comes after `st`, never with fewer lost errors; if none was lost in between, the
view grew by exactly `L` and the frames are as before -/
def Good (st st' : St σ) (L : List (Entry σ)) : Prop :=
  st.lost ≤ st'.lost ∧
  (st'.lost = st.lost →
    view st'.stack st'.root = view st.stack st.root ++ L ∧ skel st'.stack = skel st.stack)

theorem close_view_lost (q : Quirks) (hh : q.atRuleHoists = false) (hm : q.mediaInMediaNested = true)
    (ops : Ops σ) (st st' : St σ) (h : close q ops st = .ok st') :
    st.lost ≤ st'.lost ∧
    (st'.lost = st.lost →
      view st'.stack st'.root = view st.stack st.root ∧ skel st'.stack = skel st.stack.tail) := by
  cases hs : q.closeSwallows with
  | false =>
    have hl : st'.lost = st.lost := by
      unfold close at h
      split at h
      · cases h; rfl
      · cases h; rfl
      · split at h
        · cases h; rfl
        · split at h
          · cases h; rfl
          · simp [hs] at h
      · split at h
        · cases h; rfl
        · simp [hs] at h
    exact ⟨by omega, fun _ => close_preserves_view q hh hm hs ops st st' h⟩
  | true =>
    -- either the same result as with `closeSwallows = false`, or one more lost error
    unfold close at h
    split at h
    · next heq => cases h; exact ⟨Nat.le_refl _, fun _ => by simp [heq]⟩
    · next nm rest heq => cases h; exact ⟨Nat.le_refl _, fun _ => by simp [heq, view, viewStack]⟩
    · next s cur rest heq =>
      split at h
      · next hc =>
        cases h
        have : cur = [] := by cases cur <;> simp_all
        exact ⟨Nat.le_refl _, fun _ => by simp [heq, this, view, viewStack, flatBody]⟩
      · split at h
        · next rest' root' hd =>
          cases h
          obtain ⟨hv, hsk⟩ := deliver_preserves_order q hh hm ops rest st.root _ _ _ hd
          refine ⟨Nat.le_refl _, fun _ => ⟨?_, by simpa [heq] using hsk⟩⟩
          simp only [heq]
          rw [hv]
          simp [view, viewStack, flatItems, flatItem, List.append_assoc]
        · simp [hs] at h
          subst h
          exact ⟨by simp, fun hcontra => by simp at hcontra⟩
    · next k r body rest heq =>
      split at h
      · next rest' root' hd =>
        cases h
        obtain ⟨hv, hsk⟩ := deliver_preserves_order q hh hm ops rest st.root _ _ _ hd
        refine ⟨Nat.le_refl _, fun _ => ⟨?_, by simpa [heq] using hsk⟩⟩
        simp only [heq]
        rw [hv]
        cases r with
        | none => simp [atResult, flatItems_toItem, view, viewStack, List.append_assoc]
        | some p =>
          obtain ⟨s, cur⟩ := p
          cases k <;>
            simp [atResult, hh, flatItem_toItem, flatItems_append, flatItems_commit, flatItems, flatItem, view,
              viewStack, List.append_assoc]
      · simp [hs] at h
        subst h
        exact ⟨by simp, fun hcontra => by simp at hcontra⟩

/-- open an empty frame, evaluate a body into it, drop it -/
theorem block_good (q : Quirks) (hh : q.atRuleHoists = false) (hm : q.mediaInMediaNested = true)
    (ops : Ops σ) (st st2 st' : St σ) (f : Frame σ) (L : List (Entry σ))
    (hf : viewStack (f :: st.stack) = viewStack st.stack)
    (hb : Good { st with stack := f :: st.stack } st2 L)
    (hc : close q ops st2 = .ok st') :
    Good st st' L := by
  obtain ⟨hle, hcl⟩ := close_view_lost q hh hm ops st2 st' hc
  obtain ⟨hb1, hb2⟩ := hb
  simp only at hb1 hb2
  refine ⟨by omega, fun heq => ?_⟩
  have e2 : st2.lost = st.lost := by omega
  have e3 : st'.lost = st2.lost := by omega
  obtain ⟨hv, hk⟩ := hcl e3
  obtain ⟨bv, bk⟩ := hb2 e2
  constructor
  · rw [hv, bv]; simp only [view, hf]
  · rw [hk, skel_tail, bk]; simp [skel]

theorem good_of_eq (st st' : St σ) (L : List (Entry σ)) (hl : st'.lost = st.lost)
    (h : view st'.stack st'.root = view st.stack st.root ++ L ∧ skel st'.stack = skel st.stack) :
    Good st st' L := ⟨by omega, fun _ => h⟩

mutual
theorem emitItem_good (q : Quirks) (hh : q.atRuleHoists = false) (hm : q.mediaInMediaNested = true)
    (ops : Ops σ) (c : SelCtx σ) :
    ∀ (i : Core σ) (st st' : St σ), emitItem q ops c i st = .ok st' →
      Good st st' (logItem q ops c i (skel st.stack))
  | .decl n v, st, st', h => by
    simp only [emitItem] at h
    split at h
    · cases h
    · have h := liftInv_ok' _ _ h
      unfold pushProperty at h
      split at h
      · cases h
      · next stk' hp =>
        cases h
        obtain ⟨p, s, n', ht, hv, hk⟩ := pushPropertyAux_view _ _ _ _ _ hp
        refine good_of_eq _ _ _ rfl ⟨?_, hk⟩
        simp only [logItem, propTarget_skel, ht, view, hv, List.append_assoc]
  | .comment t, st, st', h => by
    simp only [emitItem] at h
    cases h
    have := pushCommentAux_view t st.stack st.root
    refine good_of_eq _ _ _ rfl ?_
    simp only [pushComment, logItem, commentTarget_skel]
    exact this
  | .arule n a, st, st', h => by
    simp only [emitItem] at h
    have h := liftInv_ok' _ _ h
    unfold pushARule at h
    split at h
    · next s cur rest heq =>
      cases h
      refine good_of_eq _ _ _ rfl ⟨?_, by simp [heq, skel, skelFrame]⟩
      simp only [logItem, aruleTarget_skel]
      simp [heq, aruleTarget, view, viewStack, flatBody]
    · next stk hne =>
      split at h
      · cases h
      · next stk' root' hd =>
        cases h
        obtain ⟨hv, hk⟩ := deliver_preserves_order q hh hm ops _ _ _ _ _ hd
        refine good_of_eq _ _ _ rfl ⟨?_, hk⟩
        rw [hv]
        simp only [logItem, aruleTarget_skel, flatItems, flatItem, List.append_nil]
        cases hst : st.stack with
        | nil => rfl
        | cons f rest =>
          cases f with
          | rule s cur => exact absurd hst (hne s cur rest)
          | ns nm => rfl
          | «at» k r body => rfl
  | .rule sel body, st, st', h => by
    simp only [emitItem] at h
    split at h
    · cases h
    · next st1 h1 =>
      split at h
      · cases h
      · next st2 h2 =>
        have h1 := liftInv_ok' _ _ h1
        unfold startRule at h1
        split at h1
        · cases h1
        · cases h1
          have ih := emitBody_good q hh hm ops _ body _ st2 h2
          have hb := block_good q hh hm ops st st2 st' (.rule _ []) _ (by simp [viewStack, flatBody])
            ih (liftInv_ok' _ _ h)
          simpa only [logItem, skel_cons, skelFrame] using hb
  | .ns name value body, st, st', h => by
    simp only [emitItem] at h
    split at h
    · cases h
    · next st0 h0 =>
      split at h
      · cases h
      · next st1 h1 =>
        split at h
        · cases h
        · next st2 h2 =>
          have h1 := liftInv_ok' _ _ h1
          unfold startNs at h1
          split at h1
          · cases h1
          · cases h1
            have ih := emitBody_good q hh hm ops c body _ st2 h2
            have hb := block_good q hh hm ops st0 st2 st' (.ns name) _ (by simp [viewStack])
              ih (liftInv_ok' _ _ h)
            simp only [skel_cons, skelFrame] at hb
            cases value with
            | none =>
              simp only at h0; cases h0
              simpa only [logItem, List.nil_append] using hb
            | some v =>
              simp only at h0
              split at h0
              · cases h0
              · have h0 := liftInv_ok' _ _ h0
                unfold pushProperty at h0
                split at h0
                · cases h0
                · next stk' hp =>
                  cases h0
                  obtain ⟨p, s, n', ht, hv, hk⟩ := pushPropertyAux_view _ _ _ _ _ hp
                  obtain ⟨hb1, hb2⟩ := hb
                  simp only at hb1 hb2
                  refine ⟨hb1, fun heq => ?_⟩
                  obtain ⟨b1, b2⟩ := hb2 heq
                  constructor
                  · rw [b1]
                    simp only [logItem, propTarget_skel, ht, view, hv, hk, List.append_assoc]
                  · rw [b2, hk]
  | .media a body, st, st', h => by
    simp only [emitItem] at h
    split at h
    · cases h
    · next st2 h2 =>
      rw [startMedia_eq] at h2
      have ih := emitBody_good q hh hm ops _ body _ st2 h2
      have hb := block_good q hh hm ops st st2 st' _ _ (atFrame_view _ _ _) ih (liftInv_ok' _ _ h)
      simp only [atFrame_skel] at hb
      simpa only [logItem] using hb
  | .atrule n a body, st, st', h => by
    simp only [emitItem] at h
    split at h
    · cases h
    · next st2 h2 =>
      rw [startAtRule_eq] at h2
      have ih := emitBody_good q hh hm ops _ body _ st2 h2
      have hb := block_good q hh hm ops st st2 st' _ _ (atFrame_view _ _ _) ih (liftInv_ok' _ _ h)
      simp only [atFrame_skel] at hb
      simpa only [logItem] using hb
  | .atroot sel body, st, st', h => by
    cases sel with
    | none =>
      simp only [emitItem, Option.map] at h
      simpa only [logItem] using emitBody_good q hh hm ops _ body st st' h
    | some s0 =>
      simp only [emitItem, Option.map] at h
      split at h
      · cases h
      · next st1 h1 =>
        split at h
        · cases h
        · next st2 h2 =>
          have h1 := liftInv_ok' _ _ h1
          unfold startRule at h1
          split at h1
          · cases h1
          · cases h1
            have ih := emitBody_good q hh hm ops _ body _ st2 h2
            have hb := block_good q hh hm ops st st2 st' (.rule _ []) _ (by simp [viewStack, flatBody])
              ih (liftInv_ok' _ _ h)
            simpa only [logItem, skel_cons, skelFrame] using hb
theorem emitBody_good (q : Quirks) (hh : q.atRuleHoists = false) (hm : q.mediaInMediaNested = true)
    (ops : Ops σ) (c : SelCtx σ) :
    ∀ (b : List (Core σ)) (st st' : St σ), emitBody q ops c b st = .ok st' →
      Good st st' (logBody q ops c b (skel st.stack))
  | [], st, st', h => by
    simp only [emitBody] at h; cases h
    exact good_of_eq _ _ _ rfl (by simp [logBody])
  | i :: rest, st, st', h => by
    simp only [emitBody] at h
    split at h
    · cases h
    · next st1 h1 =>
      obtain ⟨l1, g1⟩ := emitItem_good q hh hm ops c i st st1 h1
      obtain ⟨l2, g2⟩ := emitBody_good q hh hm ops c rest st1 st' h
      refine ⟨by omega, fun heq => ?_⟩
      obtain ⟨v1, k1⟩ := g1 (by omega)
      obtain ⟨v2, k2⟩ := g2 (by omega)
      constructor
      · rw [v2, v1, k1]; simp [logBody, List.append_assoc]
      · rw [k2, k1]
end

end Dest
