/-
Dest/Refine.lean — the frame-stack machine refines the evaluation log, for ARBITRARY statement
trees: `view (after) = view (before) ++ log`, where `log` is computed from the program and the
content-free skeleton of the stack only.  Setting: order-preserving at-rule frames
(`atRuleHoists = false`), failed `Drop`s are errors (`closeSwallows = false`), `@media` in
`@media` kept nested (`mediaInMediaNested = true`; query merging is not covered here).
-/
import RsassModel.Dest.View
namespace Dest
variable {σ : Type}

/-- where `push_property` puts a declaration: (at-rule path, selector, prefixed name) -/
def propTarget (join : σ → σ → σ) : List (Frame σ) → σ → Option (List (AtKind σ) × Option σ × σ)
  | [], _ => none
  | .rule s _ :: rest, n => some (pathOf rest, some s, n)
  | .ns nm :: rest, n => propTarget join rest (join nm n)
  | .at k (some (s, _)) _ :: rest, n => some (pathOf rest ++ [k], some s, n)
  | .at k none _ :: rest, n => some (pathOf rest ++ [k], none, n)

/-- where `push_comment` puts a comment -/
def commentTarget : List (Frame σ) → List (AtKind σ) × Option σ
  | [] => ([], none)
  | .rule s _ :: rest => (pathOf rest, some s)
  | .ns _ :: rest => commentTarget rest
  | .at k (some (s, _)) _ :: rest => (pathOf rest ++ [k], some s)
  | .at k none _ :: rest => (pathOf rest ++ [k], none)

theorem propTarget_skel (join : σ → σ → σ) (stk : List (Frame σ)) (n : σ) :
    propTarget join (skel stk) n = propTarget join stk n := by
  induction stk generalizing n with
  | nil => rfl
  | cons f rest ih =>
    cases f with
    | rule s cur => simp [skel, skelFrame, propTarget, ← pathOf_skel rest]
    | ns nm => simpa [skel, skelFrame, propTarget] using ih (join nm n)
    | «at» k r body => cases r <;> simp [skel, skelFrame, propTarget, ← pathOf_skel rest]

theorem commentTarget_skel (stk : List (Frame σ)) : commentTarget (skel stk) = commentTarget stk := by
  induction stk with
  | nil => rfl
  | cons f rest ih =>
    cases f with
    | rule s cur => simp [skel, skelFrame, commentTarget, ← pathOf_skel rest]
    | ns nm => simpa [skel, skelFrame, commentTarget] using ih
    | «at» k r body => cases r <;> simp [skel, skelFrame, commentTarget, ← pathOf_skel rest]

theorem pushPropertyAux_view (join : σ → σ → σ) (stk stk' : List (Frame σ)) (n v : σ)
    (h : pushPropertyAux join stk n v = .ok stk') :
    ∃ p s n', propTarget join stk n = some (p, s, n') ∧
      viewStack stk' = viewStack stk ++ [⟨p, s, .prop n' v⟩] ∧ skel stk' = skel stk := by
  induction stk generalizing n stk' with
  | nil => simp [pushPropertyAux] at h
  | cons f rest ih =>
    cases f with
    | rule s cur =>
      simp only [pushPropertyAux] at h; cases h
      exact ⟨_, _, _, rfl, by simp [viewStack, flatBody], by simp [skel, skelFrame]⟩
    | ns nm =>
      simp only [pushPropertyAux] at h
      split at h
      · cases h
      · next rest' hr =>
        cases h
        obtain ⟨p, s, n', ht, hv, hs⟩ := ih _ _ hr
        exact ⟨p, s, n', by simpa [propTarget] using ht, by simpa [viewStack] using hv,
          by simpa [skel, skelFrame] using hs⟩
    | «at» k r body =>
      cases r with
      | none =>
        simp only [pushPropertyAux] at h; cases h
        exact ⟨_, _, _, rfl, by simp [viewStack, flatItems_append, flatItems, flatItem], by simp [skel, skelFrame]⟩
      | some p =>
        obtain ⟨s, cur⟩ := p
        simp only [pushPropertyAux] at h; cases h
        exact ⟨_, _, _, rfl, by simp [viewStack, flatBody], by simp [skel, skelFrame]⟩

theorem pushCommentAux_view (t : σ) (stk : List (Frame σ)) (root : List (Item σ)) :
    view (pushCommentAux t stk root).1 (pushCommentAux t stk root).2
      = view stk root ++ [⟨(commentTarget stk).1, (commentTarget stk).2, .comment t⟩] ∧
    skel (pushCommentAux t stk root).1 = skel stk := by
  induction stk with
  | nil => simp [pushCommentAux, view, viewStack, flatItems_append, flatItems, flatItem, commentTarget, skel]
  | cons f rest ih =>
    cases f with
    | rule s cur => simp [pushCommentAux, view, viewStack, flatBody, commentTarget, skel, skelFrame]
    | ns nm =>
      obtain ⟨hv, hs⟩ := ih
      simp only [pushCommentAux, view, viewStack, commentTarget] at hv ⊢
      exact ⟨hv, by simpa [skel, skelFrame] using hs⟩
    | «at» k r body =>
      cases r with
      | none => simp [pushCommentAux, view, viewStack, flatItems_append, flatItems, flatItem, commentTarget, skel, skelFrame]
      | some p =>
        obtain ⟨s, cur⟩ := p
        simp [pushCommentAux, view, viewStack, flatBody, commentTarget, skel, skelFrame]

theorem flatItems_toItem (p : List (AtKind σ)) (k : AtKind σ) (b : List (Item σ)) :
    flatItems p [k.toItem b] = flatItems (p ++ [k]) b := by
  cases k <;> simp [AtKind.toItem, flatItems, flatItem]

theorem flatItem_toItem (p : List (AtKind σ)) (k : AtKind σ) (b : List (Item σ)) :
    flatItem p (k.toItem b) = flatItems (p ++ [k]) b := by
  cases k <;> simp [AtKind.toItem, flatItem]

/-- `close_preserves_view`: dropping the innermost frame (when it succeeds) changes nothing
in what will be printed, nor its order — the frame's content moves to its parent. -/
theorem close_preserves_view (q : Quirks) (hh : q.atRuleHoists = false) (hm : q.mediaInMediaNested = true)
    (hs : q.closeSwallows = false) (ops : Ops σ) (st st' : St σ) (h : close q ops st = .ok st') :
    view st'.stack st'.root = view st.stack st.root ∧ skel st'.stack = skel st.stack.tail := by
  unfold close at h
  split at h
  · next heq => cases h; simp [heq]
  · next nm rest heq => cases h; simp [heq, view, viewStack]
  · next s cur rest heq =>
    split at h
    · next hc =>
      cases h
      have : cur = [] := by cases cur <;> simp_all
      simp [heq, this, view, viewStack, flatBody]
    · split at h
      · next rest' root' hd =>
        cases h
        obtain ⟨hv, hsk⟩ := deliver_preserves_order q hh hm ops rest st.root _ _ _ hd
        simp only [heq, List.tail_cons]
        refine ⟨?_, hsk⟩
        rw [hv]
        simp [view, viewStack, flatItems, flatItem, List.append_assoc]
      · simp [hs] at h
  · next k r body rest heq =>
    split at h
    · next rest' root' hd =>
      cases h
      obtain ⟨hv, hsk⟩ := deliver_preserves_order q hh hm ops rest st.root _ _ _ hd
      simp only [heq, List.tail_cons]
      refine ⟨?_, hsk⟩
      rw [hv]
      cases r with
      | none => simp [atResult, flatItems_toItem, view, viewStack, List.append_assoc]
      | some p =>
        obtain ⟨s, cur⟩ := p
        cases k <;>
          simp [atResult, hh, flatItem_toItem, flatItems_append, flatItems_commit, flatItems, flatItem, view,
            viewStack, List.append_assoc]
    · simp [hs] at h

/-- where `push_item` puts a body-less at-rule -/
def aruleTarget : List (Frame σ) → List (AtKind σ) × Option σ
  | .rule s _ :: rest => (pathOf rest, some s)
  | stk => (pathOf stk, none)

theorem aruleTarget_skel (stk : List (Frame σ)) : aruleTarget (skel stk) = aruleTarget stk := by
  cases stk with
  | nil => rfl
  | cons f rest =>
    cases f with
    | rule s cur => simp [skel, skelFrame, aruleTarget, ← pathOf_skel rest]
    | ns nm => simp [skel, skelFrame, aruleTarget, pathOf, ← pathOf_skel rest]
    | «at» k r body => simp [skel, skelFrame, aruleTarget, pathOf, ← pathOf_skel rest]

theorem copySel_skel (stk : List (Frame σ)) : copySel (skel stk) = copySel stk := by
  cases stk with
  | nil => rfl
  | cons f rest =>
    cases f with
    | rule s cur => rfl
    | ns nm => rfl
    | «at» k r body =>
      cases r with
      | none => rfl
      | some p => rfl

/-- the frame `start_atmedia` / `start_atrule` opens -/
def atFrame (k : AtKind σ) (copy : Bool) (stk : List (Frame σ)) : Frame σ :=
  .at k (if copy then (copySel stk).map fun s => (s, []) else none) []

mutual
/-- THE EVALUATION LOG: the declarations, comments and body-less at-rules a statement
reaches, in source order, each with the at-rule path and selector it belongs to — computed
from the statement and the content-free skeleton of the enclosing destinations. -/
def logItem (q : Quirks) (ops : Ops σ) (c : SelCtx σ) : Core σ → List (Frame σ) → List (Entry σ)
  | .decl n v, sk =>
      match propTarget ops.nsJoin sk n with
      | some (p, s, n') => [⟨p, s, .prop n' v⟩]
      | none => []
  | .comment t, sk => [⟨(commentTarget sk).1, (commentTarget sk).2, .comment t⟩]
  | .arule n a, sk => [⟨(aruleTarget sk).1, (aruleTarget sk).2, .arule n a⟩]
  | .rule sel body, sk =>
      logBody q ops { s := some (ops.nest c.s c.backref sel), backref := none } body
        (.rule (ops.nest c.s c.backref sel) [] :: sk)
  | .ns name value body, sk =>
      (match value with
       | some v =>
         (match propTarget ops.nsJoin sk name with
          | some (p, s, n') => [⟨p, s, .prop n' v⟩]
          | none => [])
       | none => []) ++ logBody q ops c body (.ns name :: sk)
  | .media a body, sk =>
      logBody q ops { c with excluded := false } body (atFrame (.media a) (!c.excluded || q.atRootKeepsRule) sk :: sk)
  | .atrule n a body, sk =>
      logBody q ops (if ops.isKeyframes n then {} else { c with excluded := false }) body
        (atFrame (.atrule n a) (!(ops.isFlat n || !(!c.excluded || q.atRootKeepsRule))) sk :: sk)
  | .atroot (some sel) body, sk =>
      logBody q ops { s := some (ops.resolveRef c.getBackref sel), backref := c.getBackref } body
        (.rule (ops.resolveRef c.getBackref sel) [] :: sk)
  | .atroot none body, sk =>
      logBody q ops { s := none, backref := c.getBackref, excluded := true } body sk
def logBody (q : Quirks) (ops : Ops σ) (c : SelCtx σ) : List (Core σ) → List (Frame σ) → List (Entry σ)
  | [], _ => []
  | i :: r, sk => logItem q ops c i sk ++ logBody q ops c r sk
end

theorem skel_tail (stk : List (Frame σ)) : skel stk.tail = (skel stk).tail := by
  cases stk <;> simp [skel]

/-- open an empty frame, evaluate a body into it, drop it -/
theorem block_refines (q : Quirks) (hh : q.atRuleHoists = false) (hm : q.mediaInMediaNested = true)
    (hs : q.closeSwallows = false) (ops : Ops σ) (st st2 st' : St σ) (f : Frame σ) (L : List (Entry σ))
    (hf : viewStack (f :: st.stack) = viewStack st.stack)
    (hb : view st2.stack st2.root = view (f :: st.stack) st.root ++ L ∧ skel st2.stack = skel (f :: st.stack))
    (hc : close q ops st2 = .ok st') :
    view st'.stack st'.root = view st.stack st.root ++ L ∧ skel st'.stack = skel st.stack := by
  obtain ⟨hv, hk⟩ := close_preserves_view q hh hm hs ops st2 st' hc
  constructor
  · rw [hv, hb.1]; simp only [view, hf]
  · rw [hk, skel_tail, hb.2]; simp [skel]

theorem liftInv_ok' {α} (r : Except Invalid α) (a : α) (h : liftInv r = .ok a) : r = .ok a := by
  cases r <;> simp_all [liftInv]

theorem atFrame_view (k : AtKind σ) (copy : Bool) (stk : List (Frame σ)) :
    viewStack (atFrame k copy stk :: stk) = viewStack stk := by
  unfold atFrame
  cases copy <;> cases copySel stk <;> simp [viewStack, flatItems, flatBody]

theorem atFrame_skel (k : AtKind σ) (copy : Bool) (stk : List (Frame σ)) :
    skel (atFrame k copy stk :: stk) = atFrame k copy (skel stk) :: skel stk := by
  unfold atFrame
  rw [copySel_skel]
  cases copy <;> cases copySel stk <;> simp [skel, skelFrame]

theorem skel_cons (f : Frame σ) (stk : List (Frame σ)) : skel (f :: stk) = skelFrame f :: skel stk := rfl

theorem startMedia_eq (copy : Bool) (a : σ) (st : St σ) :
    startMedia copy a st = { st with stack := atFrame (.media a) copy st.stack :: st.stack } := rfl

theorem startAtRule_eq (ops : Ops σ) (copy : Bool) (n a : σ) (st : St σ) :
    startAtRule ops copy n a st
      = { st with stack := atFrame (.atrule n a) (!(ops.isFlat n || !copy)) st.stack :: st.stack } := by
  simp only [startAtRule, atFrame]
  cases ops.isFlat n <;> cases copy <;> simp

mutual
/-- `emit_refines_log` (item) -/
theorem emitItem_refines (q : Quirks) (hh : q.atRuleHoists = false) (hm : q.mediaInMediaNested = true)
    (hs : q.closeSwallows = false) (ops : Ops σ) (c : SelCtx σ) :
    ∀ (i : Core σ) (st st' : St σ), emitItem q ops c i st = .ok st' →
      view st'.stack st'.root = view st.stack st.root ++ logItem q ops c i (skel st.stack) ∧
      skel st'.stack = skel st.stack
  | .decl n v, st, st', h => by
    simp only [emitItem] at h
    split at h
    · cases h
    · have h := liftInv_ok' _ _ h
      unfold pushProperty at h
      split at h
      · cases h
      · next stk' hp =>
        cases h
        obtain ⟨p, s, n', ht, hv, hk⟩ := pushPropertyAux_view _ _ _ _ _ hp
        refine ⟨?_, hk⟩
        simp only [logItem, propTarget_skel, ht, view, hv, List.append_assoc]
  | .comment t, st, st', h => by
    simp only [emitItem] at h
    cases h
    have := pushCommentAux_view t st.stack st.root
    simp only [pushComment, logItem, commentTarget_skel]
    exact this
  | .arule n a, st, st', h => by
    simp only [emitItem] at h
    have h := liftInv_ok' _ _ h
    unfold pushARule at h
    split at h
    · next s cur rest heq =>
      cases h
      refine ⟨?_, by simp [heq, skel, skelFrame]⟩
      simp only [logItem, aruleTarget_skel]
      simp [heq, aruleTarget, view, viewStack, flatBody]
    · next stk hne =>
      split at h
      · cases h
      · next stk' root' hd =>
        cases h
        obtain ⟨hv, hk⟩ := deliver_preserves_order q hh hm ops _ _ _ _ _ hd
        refine ⟨?_, hk⟩
        rw [hv]
        simp only [logItem, aruleTarget_skel, flatItems, flatItem, List.append_nil]
        cases hst : st.stack with
        | nil => rfl
        | cons f rest =>
          cases f with
          | rule s cur => exact absurd hst (hne s cur rest)
          | ns nm => rfl
          | «at» k r body => rfl
  | .rule sel body, st, st', h => by
    simp only [emitItem] at h
    split at h
    · cases h
    · next st1 h1 =>
      split at h
      · cases h
      · next st2 h2 =>
        have h1 := liftInv_ok' _ _ h1
        unfold startRule at h1
        split at h1
        · cases h1
        · cases h1
          have ih := emitBody_refines q hh hm hs ops _ body _ st2 h2
          have hb := block_refines q hh hm hs ops st st2 st' (.rule _ []) _ (by simp [viewStack, flatBody])
            ih (liftInv_ok' _ _ h)
          simpa only [logItem, skel_cons, skelFrame] using hb
  | .ns name value body, st, st', h => by
    simp only [emitItem] at h
    split at h
    · cases h
    · next st0 h0 =>
      split at h
      · cases h
      · next st1 h1 =>
        split at h
        · cases h
        · next st2 h2 =>
          have h1 := liftInv_ok' _ _ h1
          unfold startNs at h1
          split at h1
          · cases h1
          · cases h1
            have ih := emitBody_refines q hh hm hs ops c body _ st2 h2
            have hb := block_refines q hh hm hs ops st0 st2 st' (.ns name) _ (by simp [viewStack])
              ih (liftInv_ok' _ _ h)
            simp only [skel_cons, skelFrame] at hb
            -- the value declaration
            cases value with
            | none =>
              simp only at h0; cases h0
              simpa only [logItem, List.nil_append] using hb
            | some v =>
              simp only at h0
              split at h0
              · cases h0
              · have h0 := liftInv_ok' _ _ h0
                unfold pushProperty at h0
                split at h0
                · cases h0
                · next stk' hp =>
                  cases h0
                  obtain ⟨p, s, n', ht, hv, hk⟩ := pushPropertyAux_view _ _ _ _ _ hp
                  simp only at hb
                  constructor
                  · rw [hb.1]
                    simp only [logItem, propTarget_skel, ht, view, hv, hk, List.append_assoc]
                  · rw [hb.2, hk]
  | .media a body, st, st', h => by
    simp only [emitItem] at h
    split at h
    · cases h
    · next st2 h2 =>
      rw [startMedia_eq] at h2
      have ih := emitBody_refines q hh hm hs ops _ body _ st2 h2
      have hb := block_refines q hh hm hs ops st st2 st' _ _ (atFrame_view _ _ _) ih (liftInv_ok' _ _ h)
      simp only [atFrame_skel] at hb
      simpa only [logItem] using hb
  | .atrule n a body, st, st', h => by
    simp only [emitItem] at h
    split at h
    · cases h
    · next st2 h2 =>
      rw [startAtRule_eq] at h2
      have ih := emitBody_refines q hh hm hs ops _ body _ st2 h2
      have hb := block_refines q hh hm hs ops st st2 st' _ _ (atFrame_view _ _ _) ih (liftInv_ok' _ _ h)
      simp only [atFrame_skel] at hb
      simpa only [logItem] using hb
  | .atroot sel body, st, st', h => by
    cases sel with
    | none =>
      simp only [emitItem, Option.map] at h
      simpa only [logItem] using emitBody_refines q hh hm hs ops _ body st st' h
    | some s0 =>
      simp only [emitItem, Option.map] at h
      split at h
      · cases h
      · next st1 h1 =>
        split at h
        · cases h
        · next st2 h2 =>
          have h1 := liftInv_ok' _ _ h1
          unfold startRule at h1
          split at h1
          · cases h1
          · cases h1
            have ih := emitBody_refines q hh hm hs ops _ body _ st2 h2
            have hb := block_refines q hh hm hs ops st st2 st' (.rule _ []) _ (by simp [viewStack, flatBody])
              ih (liftInv_ok' _ _ h)
            simpa only [logItem, skel_cons, skelFrame] using hb
/-- `emit_refines_log` (body): for EVERY statement list, every state (any frame stack) and
every selector algebra — a successful evaluation appends exactly the evaluation log to what
the destination holds, in source order, and leaves the frames as they were. -/
theorem emitBody_refines (q : Quirks) (hh : q.atRuleHoists = false) (hm : q.mediaInMediaNested = true)
    (hs : q.closeSwallows = false) (ops : Ops σ) (c : SelCtx σ) :
    ∀ (b : List (Core σ)) (st st' : St σ), emitBody q ops c b st = .ok st' →
      view st'.stack st'.root = view st.stack st.root ++ logBody q ops c b (skel st.stack) ∧
      skel st'.stack = skel st.stack
  | [], st, st', h => by simp only [emitBody] at h; cases h; simp [logBody]
  | i :: rest, st, st', h => by
    simp only [emitBody] at h
    split at h
    · cases h
    · next st1 h1 =>
      obtain ⟨v1, k1⟩ := emitItem_refines q hh hm hs ops c i st st1 h1
      obtain ⟨v2, k2⟩ := emitBody_refines q hh hm hs ops c rest st1 st' h
      constructor
      · rw [v2, v1, k1]; simp [logBody, List.append_assoc]
      · rw [k2, k1]
end

end Dest
