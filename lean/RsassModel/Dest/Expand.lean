/-
Dest/Expand.lean — the control half of `handle_item` (rsass/src/output/transform.rs):
`Item::IfStatement`, `Item::Each`/`For` (as a counted loop), `Item::MixinDeclaration`,
`Item::MixinCall`, `Item::Content`, `Item::FunctionDeclaration`, function calls in values
(`ScopeRef::eval_body`, variablescope.rs), `Item::Import`/`Item::Use` of an scss file (as
its parsed body), `Item::Error`, `Item::Comment` (style dependent), `Item::Return`, and
`check_body`.  None of these touches the destination; they decide WHICH output statements
are reached, in which order, or that the run is an error.  The result is the list of
output statements (`Core`) that `Dest/Emit.lean` feeds to the destination.

Every recursive call is in `Except`; recursion is on a fuel argument because mixins and
functions may call each other.

Not modelled (limits): variables and scoping (owned by Core/*), arguments, `@while`,
`@extend`, `@forward`, `meta.load-css`, visibility of definitions (one global table, the
generator only defines mixins/functions at the top level and uses them afterwards),
`@import` inside a rule (the code evaluates into a separate `CssData`; the model inlines).
-/
import RsassModel.Dest.Emit
namespace Dest

inductive Val (σ : Type) where
  | lit (v : σ)
  /-- call of the user function `f` (no arguments) -/
  | call (f : Nat)
  /-- undefined variable -/
  | undef
deriving Repr

inductive CPart (σ : Type) where
  | text (t : σ)
  /-- `#{…}` -/
  | interp (v : Val σ)
deriving Repr

inductive Stmt (σ : Type) where
  | decl (name : σ) (value : Val σ)
  /-- loud comment; `bang` = the source text starts with `/*!` -/
  | comment (bang : Bool) (parts : List (CPart σ))
  /-- `// …`: consumed by the lexer (`ignore_lcomment`, parser/util.rs), never an item -/
  | silent
  | rule (sel : σ) (body : List (Stmt σ))
  | ns (name : σ) (value : Option (Val σ)) (body : List (Stmt σ))
  | media (args : σ) (body : List (Stmt σ))
  | atrule (name args : σ) (body : List (Stmt σ))
  | arule (name args : σ)
  | atroot (sel : Option σ) (body : List (Stmt σ))
  /-- `@error` -/
  | error
  | ifS (cond : Bool) (thenB elseB : List (Stmt σ))
  /-- `@each`/`@for` with `n` iterations -/
  | loop (n : Nat) (body : List (Stmt σ))
  | mixin (m : Nat) (body : List (Stmt σ))
  | incl (m : Nat) (hasBlock : Bool) (block : List (Stmt σ))
  | content
  | func (f : Nat) (body : List (Stmt σ))
  | ret (v : Val σ)
  /-- `@import "file"` with the file's parsed body -/
  | imp (body : List (Stmt σ))
  /-- `@use "file"` of module number `id` with the file's parsed body -/
  | use (id : Nat) (body : List (Stmt σ))
deriving Repr

/-- the content block a mixin was called with, and the one visible inside that block
(`define_content` / `get_content`; `MixinDecl::NoBody` and "no content" both yield nothing) -/
inductive Content (σ : Type) where
  | none
  | some (body : List (Stmt σ)) (outer : Content σ)

structure Env (σ : Type) where
  mixins : List (Nat × List (Stmt σ)) := []
  funcs : List (Nat × List (Stmt σ)) := []
  used : List Nat := []

inductive BodyCtx where
  | mixin | function | control | rule | nsRule
deriving DecidableEq

variable {σ : Type}

def lookup {α} (k : Nat) : List (Nat × α) → Option α
  | [] => none
  | (k', v) :: r => if k = k' then some v else lookup k r

/-- `check_body` for one item: `true` = allowed.  `isCss` is `name_in(name, CSS_AT_RULES)`. -/
def checkItem (isCss : σ → Bool) (bc : BodyCtx) : Stmt σ → Bool
  | .use _ _ => false
  | .mixin _ _ => bc = .rule
  | .func _ _ => bc = .rule
  | .ret _ => bc = .function
  | .atrule n _ _ => bc = .rule || isCss n
  | .arule n _ => bc = .rule || isCss n
  | _ => true

def checkBody (isCss : σ → Bool) (bc : BodyCtx) (b : List (Stmt σ)) : Bool :=
  b.all (checkItem isCss bc)

/-- run `f` `k` times, threading the environment and concatenating the outputs -/
def iter {α β ε} : Nat → (α → Except ε (List β × α)) → α → Except ε (List β × α)
  | 0, _, a => .ok ([], a)
  | k + 1, f, a =>
    match f a with
    | .error e => .error e
    | .ok (o1, a1) =>
      match iter k f a1 with
      | .error e => .error e
      | .ok (o2, a2) => .ok (o1 ++ o2, a2)

/-- loop inside a function body: stop at the first iteration that returns -/
def iterFn {α ε} : Nat → Except ε (Option α) → Except ε (Option α)
  | 0, _ => .ok none
  | k + 1, f =>
    match f with
    | .error e => .error e
    | .ok (some v) => .ok (some v)
    | .ok none => iterFn k f

mutual
/-- `ScopeRef::eval_body` -/
def evalFn (env : Env σ) : Nat → List (Stmt σ) → Except Err (Option σ)
  | 0, _ => .error .outOfFuel
  | _ + 1, [] => .ok none
  | n + 1, s :: rest =>
    let r : Except Err (Option σ) :=
      match s with
      | .ifS c t e => evalFn env n (if c then t else e)
      | .loop k body => iterFn k (evalFn env n body)
      | .ret v => evalVal env n v
      | .error => .error .atError
      | .silent => .ok none
      | .comment _ _ => .ok none
      | _ => .error .eval            -- "Not implemented in function"
    match r with
    | .error e => .error e
    | .ok (some v) => .ok (some v)
    | .ok none => evalFn env n rest
/-- evaluation of a value: `none` = `null` -/
def evalVal (env : Env σ) : Nat → Val σ → Except Err (Option σ)
  | 0, _ => .error .outOfFuel
  | _ + 1, .lit v => .ok (some v)
  | _ + 1, .undef => .error .eval
  | n + 1, .call f =>
    match lookup f env.funcs with
    | none => .error .eval
    | some body => evalFn env n body
end

/-- evaluation of the parts of a comment (`SassString::evaluate`) -/
def evalParts (env : Env σ) (n : Nat) : List (CPart σ) → Except Err (List σ)
  | [] => .ok []
  | .text t :: r =>
    match evalParts env n r with
    | .error e => .error e
    | .ok l => .ok (t :: l)
  | .interp v :: r =>
    match evalVal env n v with
    | .error e => .error e
    | .ok none => evalParts env n r
    | .ok (some t) =>
      match evalParts env n r with
      | .error e => .error e
      | .ok l => .ok (t :: l)

/-- Is a comment kept in the output?  Specification: always when expanded, only `/*!`
when compressed.  As is: never when compressed. -/
def commentKept (q : Quirks) (compressed bang : Bool) : Bool :=
  !compressed || (bang && !q.compressedDropsBang)

/-- Is the comment's interpolation evaluated?  Specification: always.  As is: only when
the style is not compressed (`if !scope.get_format().is_compressed()` guards both). -/
def commentEvaluated (q : Quirks) (compressed bang : Bool) : Bool :=
  commentKept q compressed bang || !q.commentInterpExpandedOnly

structure Cfg (σ : Type) where
  q : Quirks
  compressed : Bool
  isCss : σ → Bool
  concat : List σ → σ

abbrev ExpandFn (σ : Type) := Content σ → List (Stmt σ) → Env σ → Except Err (List (Core σ) × Env σ)

/-- `handle_item`, control part, for ONE statement; `rec` is `handle_body` on sub-bodies
(with less fuel), `n` the fuel for value evaluation. -/
def step (cfg : Cfg σ) (n : Nat) (rec : ExpandFn σ) (ct : Content σ) (s : Stmt σ) (env : Env σ) :
    Except Err (List (Core σ) × Env σ) :=
  let sub (b : List (Stmt σ)) (env : Env σ) (k : List (Core σ) → Core σ) : Except Err (List (Core σ) × Env σ) :=
    match rec ct b env with
    | .error e => .error e
    | .ok (o, env1) => .ok ([k o], env1)
  match s with
  | .decl name v =>
    match evalVal env n v with
    | .error e => .error e
    | .ok none => .ok ([], env)                  -- `if !v.is_null()`
    | .ok (some t) => .ok ([.decl name t], env)
  | .comment bang parts =>
    if commentEvaluated cfg.q cfg.compressed bang then
      match evalParts env n parts with
      | .error e => .error e
      | .ok ts => if commentKept cfg.q cfg.compressed bang then .ok ([.comment (cfg.concat ts)], env) else .ok ([], env)
    else .ok ([], env)
  | .silent => .ok ([], env)
  | .rule sel b =>
    if checkBody cfg.isCss .rule b then sub b env (.rule sel) else .error .eval
  | .ns name v b =>
    if checkBody cfg.isCss .nsRule b then
      match v with
      | none => sub b env (.ns name none)
      | some v =>
        match evalVal env n v with
        | .error e => .error e
        | .ok t => sub b env (.ns name t)
    else .error .eval
  | .media a b => sub b env (.media a)
  | .atrule name a b => sub b env (.atrule name a)
  | .arule name a => .ok ([.arule name a], env)
  | .atroot sel b => sub b env (.atroot sel)
  | .error => .error .atError
  | .ifS c t e =>
    let b := if c then t else e
    if checkBody cfg.isCss .control b then rec ct b env else .error .eval
  | .loop k b =>
    if checkBody cfg.isCss .control b then iter k (rec ct b) env else .error .eval
  | .mixin m b =>
    if checkBody cfg.isCss .mixin b then .ok ([], { env with mixins := (m, b) :: env.mixins })
    else .error .eval
  | .func f b =>
    if checkBody cfg.isCss .function b then .ok ([], { env with funcs := (f, b) :: env.funcs })
    else .error .eval
  | .incl m hasBlock block =>
    match lookup m env.mixins with
    | none => .error .eval                         -- "Undefined mixin."
    | some b => rec (if hasBlock then .some block ct else .none) b env
  | .content =>
    match ct with
    | .none => .ok ([], env)
    | .some b outer => rec outer b env
  | .ret _ => .error .eval                         -- `Invalid::AtRule`
  | .imp b => rec .none b env
  | .use id b =>
    if env.used.contains id then .ok ([], env)    -- `CssData::load_module` cache
    else rec .none b { env with used := id :: env.used }

/-- `handle_body`, control part. -/
def expand (cfg : Cfg σ) : Nat → ExpandFn σ
  | 0, _, _, _ => .error .outOfFuel
  | _ + 1, _, [], env => .ok ([], env)
  | n + 1, ct, s :: rest, env =>
    match step cfg n (expand cfg n) ct s env with
    | .error e => .error e
    | .ok (o1, env1) =>
      match expand cfg n ct rest env1 with
      | .error e => .error e
      | .ok (o2, env2) => .ok (o1 ++ o2, env2)

def writtenBody (isHash : σ → Bool) : List (BodyItem σ) → List (BodyItem σ)
  | [] => []
  | .comment t :: r => if isHash t then writtenBody isHash r else .comment t :: writtenBody isHash r
  | i :: r => i :: writtenBody isHash r

mutual
/-- what `Comment::write` leaves of the tree: comments starting with `#` print nothing -/
def writtenItem (isHash : σ → Bool) : Item σ → List (Item σ)
  | .comment t => if isHash t then [] else [.comment t]
  | .rule s b => [.rule s (writtenBody isHash b)]
  | .prop n v => [.prop n v]
  | .media a b => [.media a (writtenItems isHash b)]
  | .atrule n a b => [.atrule n a (writtenItems isHash b)]
  | .arule n a => [.arule n a]
def writtenItems (isHash : σ → Bool) : List (Item σ) → List (Item σ)
  | [] => []
  | i :: r => writtenItem isHash i ++ writtenItems isHash r
end

/-- result of a whole compilation -/
structure Out (σ : Type) where
  items : List (Item σ)
  lost : Nat

def defaultFuel : Nat := 4000

/-- `Context::transform` as far as modelled: expand, feed the destination, take the root. -/
def run (q : Quirks) (ops : Ops σ) (isCss : σ → Bool) (compressed : Bool) (fuel : Nat)
    (p : List (Stmt σ)) : Except Err (Out σ) :=
  match expand { q := q, compressed := compressed, isCss := isCss, concat := ops.concat } fuel .none p {} with
  | .error e => .error e
  | .ok (core, _) =>
    match emitTop q ops core with
    | .error e => .error e
    | .ok st =>
      -- which comments `Comment::write` prints nothing for is decided when the tree is written
      -- (`writtenItems`, and the canonical rendering of the drivers): an `@media` holding only
      -- such a comment is still printed, as an empty block
      .ok { items := st.root, lost := st.lost }

end Dest
