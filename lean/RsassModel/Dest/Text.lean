/-
Dest/Text.lean — the concrete instance of `Ops String` used by the drivers, and the
canonical one-line rendering of an output tree that is compared with the canonical tree
the Python side parses out of rsass's CSS.

The selector functions here cover only the selector shapes the generators emit (comma
lists of plain complex selectors, `&` as a textual parent reference); the selector algebra
proper belongs to other properties.  Theorems never depend on this file: they hold for
every `Ops σ`.
-/
import RsassModel.Dest.Expand
import RsassModel.Basic.Proto
namespace Dest

def trimS (s : String) : String :=
  String.ofList ((s.toList.dropWhile (· == ' ')).reverse.dropWhile (· == ' ')).reverse

def splitComma (s : String) : List String := (s.splitOn ",").map trimS

def hasAmp (s : String) : Bool := s.toList.contains '&'

def replaceAmp (s parent : String) : String :=
  String.join (s.toList.map fun c => if c == '&' then parent else String.singleton c)

/-- `[[a1, b1], [a2, b2]]` ↦ `[a1, a2, b1, b2]` (the loops at the end of
`CssSelectorSet::nest` and `SelectorSet::resolve_ref`) -/
def roundRobin (fuel : Nat) (ls : List (List String)) : List String :=
  match fuel with
  | 0 => []
  | n + 1 =>
    let heads := ls.filterMap List.head?
    if heads.isEmpty then [] else heads ++ roundRobin n (ls.map List.tail)

def maxLen (ls : List (List String)) : Nat := ls.foldl (fun m l => max m l.length) 0

def joinSel (l : List String) : String := ", ".intercalate l

def nestStr (s backref : Option String) (inner : String) : String :=
  let parents : List String :=
    match s with
    | some p => splitComma p
    | none => match backref with
      | some b => splitComma b
      | none => []
  let parts := (splitComma inner).map fun o =>
    if hasAmp o then parents.map (replaceAmp o)
    else match s with
      | some p => (splitComma p).map fun x => x ++ " " ++ o
      | none => [o]
  joinSel (roundRobin (maxLen parts + 1) parts)

def resolveRefStr (backref : Option String) (sel : String) : String :=
  let parents := match backref with
    | some b => splitComma b
    | none => []
  let parts := (splitComma sel).map fun o =>
    if hasAmp o then parents.map (replaceAmp o) else [o]
  joinSel (roundRobin (maxLen parts + 1) parts)

def cssAtRules : List String :=
  ["charset", "color-profile", "counter-style", "document", "font-face", "font-feature-values",
   "import", "keyframes", "layer", "media", "namespace", "page", "property", "scroll-timeline",
   "supports", "viewport"]

/-- `name_in(name, CSS_AT_RULES)` -/
def isCssAtRule (name : String) : Bool :=
  if name.startsWith "-" then
    cssAtRules.any fun e => name.endsWith ("-" ++ e)
  else cssAtRules.contains name

/-- `keyframes`, or (specification) a vendor-prefixed `-x-keyframes` -/
def isKeyframesName (vendor : Bool) (n : String) : Bool :=
  n == "keyframes" || (vendor && n.startsWith "-" && n.endsWith "-keyframes")

/-- `exact = true`: names compared as the code does (`name == "keyframes"`) -/
def strOps (exact : Bool) : Ops String where
  nest := nestStr
  resolveRef := resolveRefStr
  nsJoin := fun a b => a ++ "-" ++ b
  isFlat := fun n => n == "font-face" || isKeyframesName (!exact) n
  isKeyframes := isKeyframesName (!exact)
  isSupports := fun n => n == "supports"
  mergeMedia := fun a b => a ++ " and " ++ b
  concat := String.join
  isHash := fun t => t.startsWith "#"
  isSourceMap := fun t => t.startsWith "# sourceMappingURL=" || t.startsWith "# sourceURL="

open Proto

/-- `existing` of `Comment::write`: least indentation of the continuation lines (a line that
does not start with `*` counts two less); `none` when there is no continuation line -/
def commentExisting (t : String) : Option Nat :=
  let ls := t.splitOn "\n"
  let ls := if ls.getLast? == some "" then ls.dropLast else ls
  let ns := (ls.drop 1).map fun l =>
    let cs := l.toList
    let i := (cs.takeWhile (· == ' ')).length
    if (cs.drop i).headD '*' == '*' then i else i - 2
  match ns with
  | [] => none
  | n :: r => some (r.foldl min n)

/-- the text `Comment::write` prints in COMPRESSED style at block depth `depth`
(`indent = 2 * depth`): `Ordering::Less` ⇒ `replace("", "\n")`, `Greater` ⇒ line breaks removed -/
def commentCompressed (garbled : Bool) (depth : Nat) (t : String) : String :=
  match commentExisting t with
  | none => t
  | some e =>
    if 2 * depth < e then
      if garbled then "\n" ++ String.join (t.toList.map fun c => String.singleton c ++ "\n") else t
    else if e < 2 * depth then String.join (t.splitOn "\n") else t

/-- comment text as written: only the compressed style changes more than white space -/
def cText (compressed garbled : Bool) (depth : Nat) (t : String) : String :=
  if compressed then commentCompressed garbled depth t else t

def canonBody (cg : Bool × Bool) (drop : String → Bool) (depth : Nat) : List (BodyItem String) → String
  | [] => ""
  | .prop n v :: r => "D" ++ hexOfString n ++ ":" ++ hexOfString v ++ ";" ++ canonBody cg drop depth r
  | .comment t :: r =>
      (if drop t then "" else "C" ++ hexOfString (cText cg.1 cg.2 depth t) ++ ";") ++ canonBody cg drop depth r
  | .arule n a :: r => "a" ++ hexOfString n ++ "|" ++ hexOfString a ++ ";" ++ canonBody cg drop depth r

/- what the writer prints of one item: `Rule::write` prints nothing for an empty body,
`MediaRule::write` nothing for an empty item list; `cg` = (compressed, garbling deviation on),
`depth` = number of enclosing blocks; `drop` = the comments `Comment::write` prints nothing for
(the emptiness tests of `Rule::write`/`MediaRule::write` look at the items, dropped comments included) -/
mutual
def canonItem (cg : Bool × Bool) (drop : String → Bool) (depth : Nat) : Item String → String
  | .comment t => if drop t then "" else "C" ++ hexOfString (cText cg.1 cg.2 depth t) ++ ";"
  | .rule s b => if b.isEmpty then "" else "R" ++ hexOfString s ++ "{" ++ canonBody cg drop (depth + 1) b ++ "}"
  | .prop n v => "D" ++ hexOfString n ++ ":" ++ hexOfString v ++ ";"
  | .media a b => if b.isEmpty then "" else "M" ++ hexOfString a ++ "{" ++ canonItems cg drop (depth + 1) b ++ "}"
  | .atrule n a b => "A" ++ hexOfString n ++ "|" ++ hexOfString a ++ "{" ++ canonItems cg drop (depth + 1) b ++ "}"
  | .arule n a => "a" ++ hexOfString n ++ "|" ++ hexOfString a ++ ";"
def canonItems (cg : Bool × Bool) (drop : String → Bool) (depth : Nat) : List (Item String) → String
  | [] => ""
  | i :: r => canonItem cg drop depth i ++ canonItems cg drop depth r
end

end Dest
