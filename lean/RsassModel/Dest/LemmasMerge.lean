/-
Dest/LemmasMerge.lean — the refinement `view' = view ++ log` for the FULL specification, where an
`@media` inside (rules inside) an `@media` bubbles to the parent with merged queries
(`mediaInMediaNested = false`).  Entries are compared after merging adjacent `@media` steps of
their at-rule path (`normPath`); the only assumption on the text algebra is that query
conjunction is associative (true for the driver's `a ++ " and " ++ b`).
-/
import RsassModel.Dest.Refine
namespace Dest
variable {σ : Type}

/-- adjacent `@media` steps of a path merged into one -/
def normPath (ops : Ops σ) : List (AtKind σ) → List (AtKind σ)
  | [] => []
  | .media a :: r =>
    match normPath ops r with
    | .media b :: r' => .media (ops.mergeMedia a b) :: r'
    | r' => .media a :: r'
  | .atrule n a :: r => .atrule n a :: normPath ops r

def nE (ops : Ops σ) (e : Entry σ) : Entry σ := { e with path := normPath ops e.path }

/-- a list of entries with merged paths -/
def NV (ops : Ops σ) (l : List (Entry σ)) : List (Entry σ) := l.map (nE ops)

theorem NV_append (ops : Ops σ) (a b : List (Entry σ)) : NV ops (a ++ b) = NV ops a ++ NV ops b := by
  simp [NV]

def Assoc (ops : Ops σ) : Prop :=
  ∀ a b c, ops.mergeMedia (ops.mergeMedia a b) c = ops.mergeMedia a (ops.mergeMedia b c)

theorem normPath_prefix (ops : Ops σ) (p x y : List (AtKind σ)) (h : normPath ops x = normPath ops y) :
    normPath ops (p ++ x) = normPath ops (p ++ y) := by
  induction p with
  | nil => simpa using h
  | cons k p ih =>
    cases k with
    | media a => simp only [List.cons_append, normPath, ih]
    | atrule n a => simp only [List.cons_append, normPath, ih]

theorem normPath_merge (ops : Ops σ) (hassoc : Assoc ops) (a b : σ) (r : List (AtKind σ)) :
    normPath ops (.media a :: .media b :: r) = normPath ops (.media (ops.mergeMedia a b) :: r) := by
  simp only [normPath]
  cases h : normPath ops r with
  | nil => rfl
  | cons k r' =>
    cases k with
    | media c => simp [hassoc a b c]
    | atrule n c => rfl

/-- two paths that normalise alike under every extension -/
def SamePath (ops : Ops σ) (p1 p2 : List (AtKind σ)) : Prop :=
  ∀ r, normPath ops (p1 ++ r) = normPath ops (p2 ++ r)

theorem SamePath.snoc {ops : Ops σ} {p1 p2 : List (AtKind σ)} (h : SamePath ops p1 p2) (k : AtKind σ) :
    SamePath ops (p1 ++ [k]) (p2 ++ [k]) := by
  intro r
  simpa [List.append_assoc] using h (k :: r)

theorem samePath_merge (ops : Ops σ) (hassoc : Assoc ops) (p : List (AtKind σ)) (a b : σ) :
    SamePath ops (p ++ [.media a] ++ [.media b]) (p ++ [.media (ops.mergeMedia a b)]) := by
  intro r
  simp only [List.append_assoc, List.cons_append, List.nil_append]
  exact normPath_prefix ops p _ _ (normPath_merge ops hassoc a b r)

mutual
theorem flatItem_samePath (ops : Ops σ) (p1 p2 : List (AtKind σ)) (h : SamePath ops p1 p2) :
    ∀ (i : Item σ), NV ops (flatItem p1 i) = NV ops (flatItem p2 i)
  | .comment t => by
    have := h []; simp at this
    simp [flatItem, NV, nE, this]
  | .rule s b => by
    have := h []; simp at this
    simp [flatItem, flatBody, NV, nE, this]
  | .prop n v => by
    have := h []; simp at this
    simp [flatItem, NV, nE, this]
  | .media a b => by
    simp only [flatItem]
    exact flatItems_samePath ops _ _ (h.snoc _) b
  | .atrule n a b => by
    simp only [flatItem]
    exact flatItems_samePath ops _ _ (h.snoc _) b
  | .arule n a => by
    have := h []; simp at this
    simp [flatItem, NV, nE, this]
theorem flatItems_samePath (ops : Ops σ) (p1 p2 : List (AtKind σ)) (h : SamePath ops p1 p2) :
    ∀ (l : List (Item σ)), NV ops (flatItems p1 l) = NV ops (flatItems p2 l)
  | [] => by simp [flatItems]
  | i :: r => by
    simp only [flatItems, NV_append]
    rw [flatItem_samePath ops p1 p2 h i, flatItems_samePath ops p1 p2 h r]
end

/-- what `splitMedia` does to the view: the frame's items and the delivered items are all still
there, in order, the bubbled ones under the merged query -/
theorem splitMedia_view (ops : Ops σ) (hassoc : Assoc ops) (p : List (AtKind σ)) (q0 : σ) :
    ∀ (its body up : List (Item σ)),
      NV ops (flatItems p (splitMedia ops q0 its body up).2 ++ flatItems (p ++ [.media q0]) (splitMedia ops q0 its body up).1)
        = NV ops (flatItems p up ++ flatItems (p ++ [.media q0]) body ++ flatItems (p ++ [.media q0]) its)
  | [], body, up => by simp [splitMedia, flatItems]
  | .media q1 b :: its, body, up => by
    simp only [splitMedia]
    rw [splitMedia_view ops hassoc p q0 its [] _]
    have hm : NV ops (flatItems (p ++ [.media (ops.mergeMedia q0 q1)]) b)
        = NV ops (flatItems (p ++ [.media q0] ++ [.media q1]) b) :=
      (flatItems_samePath ops _ _ (samePath_merge ops hassoc p q0 q1) b).symm
    cases hb : body.isEmpty
    · simp [flatItems_append, flatItems, flatItem, NV_append, hm, hb, List.append_assoc]
    · have : body = [] := by cases body <;> simp_all
      simp [this, flatItems_append, flatItems, flatItem, NV_append, hm, List.append_assoc]
  | .comment t :: its, body, up => by
    simp only [splitMedia]
    rw [splitMedia_view ops hassoc p q0 its _ _]
    simp [flatItems_append, flatItems, NV_append, List.append_assoc]
  | .rule s b :: its, body, up => by
    simp only [splitMedia]
    rw [splitMedia_view ops hassoc p q0 its _ _]
    simp [flatItems_append, flatItems, NV_append, List.append_assoc]
  | .prop n v :: its, body, up => by
    simp only [splitMedia]
    rw [splitMedia_view ops hassoc p q0 its _ _]
    simp [flatItems_append, flatItems, NV_append, List.append_assoc]
  | .atrule n a b :: its, body, up => by
    simp only [splitMedia]
    rw [splitMedia_view ops hassoc p q0 its _ _]
    simp [flatItems_append, flatItems, NV_append, List.append_assoc]
  | .arule n a :: its, body, up => by
    simp only [splitMedia]
    rw [splitMedia_view ops hassoc p q0 its _ _]
    simp [flatItems_append, flatItems, NV_append, List.append_assoc]

theorem NV_congr (ops : Ops σ) {a b : List (Entry σ)} (h : a = b) : NV ops a = NV ops b := by rw [h]

/-- `deliver_view_merge` — ANY stack, full specification (media bubbles and merges): the
hand-over keeps everything, in order; paths agree after merging adjacent `@media` steps. -/
theorem deliver_view_merge (q : Quirks) (hh : q.atRuleHoists = false) (ops : Ops σ) (hassoc : Assoc ops)
    (stk : List (Frame σ)) (root its : List (Item σ)) (stk' : List (Frame σ)) (root' : List (Item σ))
    (h : deliver q ops stk root its = .ok (stk', root')) :
    NV ops (view stk' root') = NV ops (view stk root ++ flatItems (pathOf stk) its) ∧ skel stk' = skel stk := by
  cases hm : q.mediaInMediaNested with
  | true =>
    obtain ⟨hv, hk⟩ := deliver_preserves_order q hh hm ops stk root its stk' root' h
    exact ⟨NV_congr ops hv, hk⟩
  | false =>
    induction stk generalizing its stk' root' with
    | nil =>
      simp only [deliver] at h
      cases h
      exact ⟨NV_congr ops (by simp [view, viewStack, flatItems_append, pathOf]), rfl⟩
    | cons f rest ih =>
      cases f with
      | ns nm => simp [deliver] at h
      | rule s cur =>
        simp only [deliver] at h
        split at h
        · cases h
        · next rest' root1 hd =>
          cases h
          have ⟨hv, hs⟩ := ih _ _ _ hd
          have hp := pathOf_eq_of_skel hs
          constructor
          · simp only [view, viewStack, flatBody, List.map_nil, List.append_nil] at hv ⊢
            rw [hv]
            apply NV_congr
            simp [flatItems_append, flatItems_commit, pathOf, flatBody, List.append_assoc]
          · simp [skel, skelFrame] at hs ⊢
            exact hs
      | «at» k r body =>
        cases k with
        | atrule n a =>
          cases r with
          | none =>
            simp only [deliver, hh] at h
            cases h
            exact ⟨NV_congr ops (by simp [view, viewStack, flatItems_append, pathOf, List.append_assoc]),
              by simp [skel, skelFrame]⟩
          | some p =>
            obtain ⟨s, cur⟩ := p
            simp only [deliver, hh] at h
            cases h
            exact ⟨NV_congr ops (by simp [view, viewStack, flatItems_append, flatItems_commit, flatBody, pathOf,
              List.append_assoc]), by simp [skel, skelFrame]⟩
        | media q0 =>
          -- the frame's content so far, in print order
          have key : ∀ (r' : Option (σ × List (BodyItem σ))) (body1 : List (Item σ)),
              (match r' with | some (s, cur) => cur = [] | none => True) →
              viewStack (.at (.media q0) r body :: rest)
                = viewStack rest ++ flatItems (pathOf rest ++ [.media q0]) body1 →
              skelFrame (.at (.media q0) r' ([] : List (Item σ))) = skelFrame (.at (.media q0) r body) →
              (if (splitMedia ops q0 its body1 []).2.isEmpty = true then
                  (.ok (.at (.media q0) r' (splitMedia ops q0 its body1 []).1 :: rest, root) :
                    Except Invalid (List (Frame σ) × List (Item σ)))
                else
                  match deliver q ops rest root (splitMedia ops q0 its body1 []).2 with
                  | .error e => .error e
                  | .ok (rest', root') => .ok (.at (.media q0) r' (splitMedia ops q0 its body1 []).1 :: rest', root'))
                = .ok (stk', root') →
              NV ops (view stk' root')
                  = NV ops (view (.at (.media q0) r body :: rest) root ++ flatItems (pathOf rest ++ [.media q0]) its) ∧
                skel stk' = skel (.at (.media q0) r body :: rest) := by
            intro r' body1 hr' hvs hsk hres
            have hsplit := splitMedia_view ops hassoc (pathOf rest) q0 its body1 []
            simp only [flatItems, List.nil_append] at hsplit
            have hr'view : ∀ (b2 : List (Item σ)) (rst : List (Frame σ)),
                viewStack (.at (.media q0) r' b2 :: rst)
                  = viewStack rst ++ flatItems (pathOf rst ++ [.media q0]) b2 := by
              intro b2 rst
              cases r' with
              | none => simp [viewStack]
              | some pr =>
                obtain ⟨s, cur⟩ := pr
                simp only at hr'
                simp [viewStack, hr', flatBody]
            split at hres
            · next hup =>
              cases hres
              have hupnil : (splitMedia ops q0 its body1 []).2 = [] := by
                cases hx : (splitMedia ops q0 its body1 []).2 <;> simp_all
              rw [hupnil] at hsplit
              simp only [flatItems, List.nil_append] at hsplit
              constructor
              · simp only [view, hr'view, hvs, NV_append, List.append_assoc] at hsplit ⊢
                rw [hsplit]
              · have hb : ∀ b : List (Item σ), skelFrame (.at (.media q0) r' b) = skelFrame (.at (.media q0) r' []) :=
                  fun _ => rfl
                simp only [skel, List.map_cons, hb, hsk]
            · split at hres
              · cases hres
              · next rest' root1 hd =>
                cases hres
                obtain ⟨hv, hs⟩ := ih _ _ _ hd
                have hp := pathOf_eq_of_skel hs
                constructor
                · simp only [view, hr'view, hvs, hp, NV_append, List.append_assoc] at hv hsplit ⊢
                  rw [← List.append_assoc (NV ops (flatItems [] root')), hv]
                  simp only [List.append_assoc]
                  rw [← hsplit]
                · have hb : ∀ b : List (Item σ), skelFrame (.at (.media q0) r' b) = skelFrame (.at (.media q0) r' []) :=
                    fun _ => rfl
                  simp only [skel, List.map_cons, hb, hsk] at hs ⊢
                  rw [hs]
          cases r with
          | none =>
            simp only [deliver, hh, hm] at h
            exact key none body trivial (by simp [viewStack]) rfl h
          | some p =>
            obtain ⟨s, cur⟩ := p
            simp only [deliver, hh, hm] at h
            exact key (some (s, [])) (body ++ commitItems s cur) rfl
              (by simp [viewStack, flatItems_append, flatItems_commit, List.append_assoc]) (by simp [skelFrame]) h

theorem close_view_merge (q : Quirks) (hh : q.atRuleHoists = false) (hs : q.closeSwallows = false)
    (ops : Ops σ) (hassoc : Assoc ops) (st st' : St σ) (h : close q ops st = .ok st') :
    NV ops (view st'.stack st'.root) = NV ops (view st.stack st.root) ∧ skel st'.stack = skel st.stack.tail := by
  unfold close at h
  split at h
  · next heq => cases h; simp [heq]
  · next nm rest heq => cases h; simp [heq, view, viewStack]
  · next s cur rest heq =>
    split at h
    · next hc =>
      cases h
      have : cur = [] := by cases cur <;> simp_all
      simp [heq, this, view, viewStack, flatBody]
    · split at h
      · next rest' root' hd =>
        cases h
        obtain ⟨hv, hsk⟩ := deliver_view_merge q hh ops hassoc rest st.root _ _ _ hd
        simp only [heq, List.tail_cons]
        refine ⟨?_, hsk⟩
        rw [hv]
        apply NV_congr
        simp [view, viewStack, flatItems, flatItem, List.append_assoc]
      · simp [hs] at h
  · next k r body rest heq =>
    split at h
    · next rest' root' hd =>
      cases h
      obtain ⟨hv, hsk⟩ := deliver_view_merge q hh ops hassoc rest st.root _ _ _ hd
      simp only [heq, List.tail_cons]
      refine ⟨?_, hsk⟩
      rw [hv]
      apply NV_congr
      cases r with
      | none => simp [atResult, flatItems_toItem, view, viewStack, List.append_assoc]
      | some p =>
        obtain ⟨s, cur⟩ := p
        cases k <;>
          simp [atResult, hh, flatItem_toItem, flatItems_append, flatItems_commit, flatItems, flatItem, view,
            viewStack, List.append_assoc]
    · simp [hs] at h

theorem block_merge (q : Quirks) (hh : q.atRuleHoists = false) (hs : q.closeSwallows = false)
    (ops : Ops σ) (hassoc : Assoc ops) (st st2 st' : St σ) (f : Frame σ) (L : List (Entry σ))
    (hf : viewStack (f :: st.stack) = viewStack st.stack)
    (hb : NV ops (view st2.stack st2.root) = NV ops (view (f :: st.stack) st.root ++ L) ∧
          skel st2.stack = skel (f :: st.stack))
    (hc : close q ops st2 = .ok st') :
    NV ops (view st'.stack st'.root) = NV ops (view st.stack st.root ++ L) ∧ skel st'.stack = skel st.stack := by
  obtain ⟨hv, hk⟩ := close_view_merge q hh hs ops hassoc st2 st' hc
  constructor
  · rw [hv, hb.1]; apply NV_congr; simp only [view, hf]
  · rw [hk, skel_tail, hb.2]; simp [skel]

mutual
theorem emitItem_merge (q : Quirks) (hh : q.atRuleHoists = false) (hs : q.closeSwallows = false)
    (ops : Ops σ) (hassoc : Assoc ops) (c : SelCtx σ) :
    ∀ (i : Core σ) (st st' : St σ), emitItem q ops c i st = .ok st' →
      NV ops (view st'.stack st'.root) = NV ops (view st.stack st.root ++ logItem q ops c i (skel st.stack)) ∧
      skel st'.stack = skel st.stack
  | .decl n v, st, st', h => by
    simp only [emitItem] at h
    split at h
    · cases h
    · have h := liftInv_ok' _ _ h
      unfold pushProperty at h
      split at h
      · cases h
      · next stk' hp =>
        cases h
        obtain ⟨p, s, n', ht, hv, hk⟩ := pushPropertyAux_view _ _ _ _ _ hp
        refine ⟨NV_congr ops ?_, hk⟩
        simp only [logItem, propTarget_skel, ht, view, hv, List.append_assoc]
  | .comment t, st, st', h => by
    simp only [emitItem] at h
    cases h
    have := pushCommentAux_view t st.stack st.root
    simp only [pushComment, logItem, commentTarget_skel]
    exact ⟨NV_congr ops this.1, this.2⟩
  | .arule n a, st, st', h => by
    simp only [emitItem] at h
    have h := liftInv_ok' _ _ h
    unfold pushARule at h
    split at h
    · next s cur rest heq =>
      cases h
      refine ⟨NV_congr ops ?_, by simp [heq, skel, skelFrame]⟩
      simp only [logItem, aruleTarget_skel]
      simp [heq, aruleTarget, view, viewStack, flatBody]
    · next stk hne =>
      split at h
      · cases h
      · next stk' root' hd =>
        cases h
        obtain ⟨hv, hk⟩ := deliver_view_merge q hh ops hassoc _ _ _ _ _ hd
        refine ⟨?_, hk⟩
        rw [hv]
        apply NV_congr
        simp only [logItem, aruleTarget_skel, flatItems, flatItem, List.append_nil]
        cases hst : st.stack with
        | nil => rfl
        | cons f rest =>
          cases f with
          | rule s cur => exact absurd hst (hne s cur rest)
          | ns nm => rfl
          | «at» k r body => rfl
  | .rule sel body, st, st', h => by
    simp only [emitItem] at h
    split at h
    · cases h
    · next st1 h1 =>
      split at h
      · cases h
      · next st2 h2 =>
        have h1 := liftInv_ok' _ _ h1
        unfold startRule at h1
        split at h1
        · cases h1
        · cases h1
          have ih := emitBody_merge q hh hs ops hassoc _ body _ st2 h2
          have hb := block_merge q hh hs ops hassoc st st2 st' (.rule _ []) _ (by simp [viewStack, flatBody])
            ih (liftInv_ok' _ _ h)
          simpa only [logItem, skel_cons, skelFrame] using hb
  | .ns name value body, st, st', h => by
    simp only [emitItem] at h
    split at h
    · cases h
    · next st0 h0 =>
      split at h
      · cases h
      · next st1 h1 =>
        split at h
        · cases h
        · next st2 h2 =>
          have h1 := liftInv_ok' _ _ h1
          unfold startNs at h1
          split at h1
          · cases h1
          · cases h1
            have ih := emitBody_merge q hh hs ops hassoc c body _ st2 h2
            have hb := block_merge q hh hs ops hassoc st0 st2 st' (.ns name) _ (by simp [viewStack])
              ih (liftInv_ok' _ _ h)
            simp only [skel_cons, skelFrame] at hb
            cases value with
            | none =>
              simp only at h0; cases h0
              simpa only [logItem, List.nil_append] using hb
            | some v =>
              simp only at h0
              split at h0
              · cases h0
              · have h0 := liftInv_ok' _ _ h0
                unfold pushProperty at h0
                split at h0
                · cases h0
                · next stk' hp =>
                  cases h0
                  obtain ⟨p, s, n', ht, hv, hk⟩ := pushPropertyAux_view _ _ _ _ _ hp
                  simp only at hb
                  constructor
                  · rw [hb.1]
                    apply NV_congr
                    simp only [logItem, propTarget_skel, ht, view, hv, hk, List.append_assoc]
                  · rw [hb.2, hk]
  | .media a body, st, st', h => by
    simp only [emitItem] at h
    split at h
    · cases h
    · next st2 h2 =>
      rw [startMedia_eq] at h2
      have ih := emitBody_merge q hh hs ops hassoc _ body _ st2 h2
      have hb := block_merge q hh hs ops hassoc st st2 st' _ _ (atFrame_view _ _ _) ih (liftInv_ok' _ _ h)
      simp only [atFrame_skel] at hb
      simpa only [logItem] using hb
  | .atrule n a body, st, st', h => by
    simp only [emitItem] at h
    split at h
    · cases h
    · next st2 h2 =>
      rw [startAtRule_eq] at h2
      have ih := emitBody_merge q hh hs ops hassoc _ body _ st2 h2
      have hb := block_merge q hh hs ops hassoc st st2 st' _ _ (atFrame_view _ _ _) ih (liftInv_ok' _ _ h)
      simp only [atFrame_skel] at hb
      simpa only [logItem] using hb
  | .atroot sel body, st, st', h => by
    cases sel with
    | none =>
      simp only [emitItem, Option.map] at h
      simpa only [logItem] using emitBody_merge q hh hs ops hassoc _ body st st' h
    | some s0 =>
      simp only [emitItem, Option.map] at h
      split at h
      · cases h
      · next st1 h1 =>
        split at h
        · cases h
        · next st2 h2 =>
          have h1 := liftInv_ok' _ _ h1
          unfold startRule at h1
          split at h1
          · cases h1
          · cases h1
            have ih := emitBody_merge q hh hs ops hassoc _ body _ st2 h2
            have hb := block_merge q hh hs ops hassoc st st2 st' (.rule _ []) _ (by simp [viewStack, flatBody])
              ih (liftInv_ok' _ _ h)
            simpa only [logItem, skel_cons, skelFrame] using hb
/-- `emit_refines_log` for the FULL specification (media merging included): any statement
list, any state, any selector algebra with associative query conjunction. -/
theorem emitBody_merge (q : Quirks) (hh : q.atRuleHoists = false) (hs : q.closeSwallows = false)
    (ops : Ops σ) (hassoc : Assoc ops) (c : SelCtx σ) :
    ∀ (b : List (Core σ)) (st st' : St σ), emitBody q ops c b st = .ok st' →
      NV ops (view st'.stack st'.root) = NV ops (view st.stack st.root ++ logBody q ops c b (skel st.stack)) ∧
      skel st'.stack = skel st.stack
  | [], st, st', h => by simp only [emitBody] at h; cases h; simp [logBody]
  | i :: rest, st, st', h => by
    simp only [emitBody] at h
    split at h
    · cases h
    · next st1 h1 =>
      obtain ⟨v1, k1⟩ := emitItem_merge q hh hs ops hassoc c i st st1 h1
      obtain ⟨v2, k2⟩ := emitBody_merge q hh hs ops hassoc c rest st1 st' h
      constructor
      · rw [v2, NV_append, v1, k1]; simp [logBody, NV_append, List.append_assoc]
      · rw [k2, k1]
end

end Dest
