/-
Dest/View.lean — the flattened view of a destination state: every declaration / comment /
body-less at-rule held anywhere (root list or open frames) with the at-rule path and the
selector it will be printed under, in output order.  Used to state order preservation for
ARBITRARY frame stacks.
-/
import RsassModel.Dest.Lemmas
namespace Dest
variable {σ : Type}

structure Entry (σ : Type) where
  path : List (AtKind σ)
  sel : Option σ
  item : BodyItem σ

def flatBody (p : List (AtKind σ)) (s : σ) (b : List (BodyItem σ)) : List (Entry σ) :=
  b.map fun i => ⟨p, some s, i⟩

mutual
def flatItem (p : List (AtKind σ)) : Item σ → List (Entry σ)
  | .comment t => [⟨p, none, .comment t⟩]
  | .rule s b => flatBody p s b
  | .prop n v => [⟨p, none, .prop n v⟩]
  | .media a b => flatItems (p ++ [.media a]) b
  | .atrule n a b => flatItems (p ++ [.atrule n a]) b
  | .arule n a => [⟨p, none, .arule n a⟩]
def flatItems (p : List (AtKind σ)) : List (Item σ) → List (Entry σ)
  | [] => []
  | i :: r => flatItem p i ++ flatItems p r
end

theorem flatItems_append (p : List (AtKind σ)) (a b : List (Item σ)) :
    flatItems p (a ++ b) = flatItems p a ++ flatItems p b := by
  induction a with
  | nil => simp [flatItems]
  | cons x xs ih => simp [flatItems, ih]

theorem flatItems_commit (p : List (AtKind σ)) (s : σ) (cur : List (BodyItem σ)) :
    flatItems p (commitItems s cur) = flatBody p s cur := by
  unfold commitItems
  cases cur with
  | nil => simp [flatItems, flatBody]
  | cons x xs => simp [flatItems, flatItem]

/-- the at-rules around the innermost frame, outermost first -/
def pathOf : List (Frame σ) → List (AtKind σ)
  | [] => []
  | .at k _ _ :: rest => pathOf rest ++ [k]
  | _ :: rest => pathOf rest

/-- entries held by the open frames, outermost frame first; inside an at-rule frame the
items received so far come before the declarations still collected in its rule copy
(the order of the specification, `atRuleHoists = false`) -/
def viewStack : List (Frame σ) → List (Entry σ)
  | [] => []
  | .rule s cur :: rest => viewStack rest ++ flatBody (pathOf rest) s cur
  | .ns _ :: rest => viewStack rest
  | .at k r body :: rest =>
      viewStack rest ++ flatItems (pathOf rest ++ [k]) body ++
        (match r with
         | some (s, cur) => flatBody (pathOf rest ++ [k]) s cur
         | none => [])

/-- everything the state holds, in the order it will be printed -/
def view (stack : List (Frame σ)) (root : List (Item σ)) : List (Entry σ) :=
  flatItems [] root ++ viewStack stack

/-- the frames without their contents -/
def skelFrame : Frame σ → Frame σ
  | .rule s _ => .rule s []
  | .ns n => .ns n
  | .at k r _ => .at k (r.map fun p => (p.1, [])) []
def skel (stk : List (Frame σ)) : List (Frame σ) := stk.map skelFrame

theorem pathOf_skel (stk : List (Frame σ)) : pathOf (skel stk) = pathOf stk := by
  induction stk with
  | nil => rfl
  | cons f rest ih => cases f <;> simp_all [skel, skelFrame, pathOf]

theorem pathOf_eq_of_skel {a b : List (Frame σ)} (h : skel a = skel b) : pathOf a = pathOf b := by
  rw [← pathOf_skel a, ← pathOf_skel b, h]

/-- `deliver_preserves_order` — for ANY stack (rule frames, at-rule frames, any nesting):
when the hand-over succeeds (order-preserving at-rule frames, media kept nested), the view
afterwards is the view before followed by the entries of the delivered items under the
at-rule path of the stack; what the rule frames on the way had collected keeps its place.
The frames themselves (kinds, selectors) are unchanged. -/
theorem deliver_preserves_order (q : Quirks) (hh : q.atRuleHoists = false) (hm : q.mediaInMediaNested = true)
    (ops : Ops σ) (stk : List (Frame σ)) (root its : List (Item σ))
    (stk' : List (Frame σ)) (root' : List (Item σ))
    (h : deliver q ops stk root its = .ok (stk', root')) :
    view stk' root' = view stk root ++ flatItems (pathOf stk) its ∧ skel stk' = skel stk := by
  induction stk generalizing its stk' root' with
  | nil =>
    simp only [deliver] at h
    cases h
    simp [view, viewStack, flatItems_append, pathOf, skel]
  | cons f rest ih =>
    cases f with
    | ns nm => simp [deliver] at h
    | rule s cur =>
      simp only [deliver] at h
      split at h
      · cases h
      · next rest' root1 hd =>
        cases h
        have ⟨hv, hs⟩ := ih _ _ _ hd
        have hp := pathOf_eq_of_skel hs
        constructor
        · simp only [view, viewStack] at hv ⊢
          simp only [flatBody, List.map_nil, List.append_nil]
          rw [hv, flatItems_append, flatItems_commit]
          simp [pathOf, flatBody, List.append_assoc]
        · simp [skel, skelFrame] at hs ⊢
          exact hs
    | «at» k r body =>
      cases k with
      | media a =>
        cases r with
        | none =>
          simp only [deliver, hh, hm] at h
          cases h
          simp [view, viewStack, flatItems_append, pathOf, skel, skelFrame, List.append_assoc]
        | some p =>
          obtain ⟨s, cur⟩ := p
          simp only [deliver, hh, hm] at h
          cases h
          simp [view, viewStack, flatItems_append, flatItems_commit, flatBody, pathOf, skel, skelFrame,
            List.append_assoc]
      | atrule n a =>
        cases r with
        | none =>
          simp only [deliver, hh] at h
          cases h
          simp [view, viewStack, flatItems_append, pathOf, skel, skelFrame, List.append_assoc]
        | some p =>
          obtain ⟨s, cur⟩ := p
          simp only [deliver, hh] at h
          cases h
          simp [view, viewStack, flatItems_append, flatItems_commit, flatBody, pathOf, skel, skelFrame,
            List.append_assoc]

end Dest
