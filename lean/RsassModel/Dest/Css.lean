/-
Dest/Css.lean — the CSS destination of rsass as an explicit frame stack.

Mirrors `rsass/src/output/cssdest.rs` (trait `CssDestination`; `RuleDest`, `NsRuleDest`,
`AtRuleDest`, `AtMediaDest`) and the `CssDestination` impl of `CssData`
(`rsass/src/output/cssdata.rs`).  The borrow chain `parent: &mut dyn CssDestination` is the
list of frames (innermost first) on top of the root item list; `Drop` is the explicit
`close`, which returns what the code only `eprintln!`s.

Text (selectors, names, values, media queries) is an abstract type `σ` with the handful
of operations the destination performs on it collected in `Ops σ`; the selector algebra
itself (`nest`, `resolve_ref`) is NOT modelled here (other properties own it).

Not modelled: `Item::Separator` (blank lines only), `Import`, `CustomProperty`,
`CssFunction` items.
-/
namespace Dest

/-- The operations on text the destination and the evaluator perform. -/
structure Ops (σ : Type) where
  /-- `SelectorCtx::nest`: arguments are the context's `s` (none = root), its `backref`
  and the rule's own selector text. -/
  nest : Option σ → Option σ → σ → σ
  /-- `SelectorSet::resolve_ref(backref)` used by `SelectorCtx::at_root`. -/
  resolveRef : Option σ → σ → σ
  /-- `format!("{}-{}", ns, name)` in `NsRuleDest::push_property`. -/
  nsJoin : σ → σ → σ
  /-- `is_flat_rule`: `font-face` or `keyframes`. -/
  isFlat : σ → Bool
  /-- `name == "keyframes"` in `Item::AtRule` of transform.rs. -/
  isKeyframes : σ → Bool
  /-- `name == "supports"`: like `@media`, an at-rule whose body cannot hold bare
  declarations (specification side of `@at-root` only). -/
  isSupports : σ → Bool
  /-- media query conjunction; used by the specification model only (rsass never merges). -/
  mergeMedia : σ → σ → σ
  /-- concatenation of evaluated comment parts. -/
  concat : List σ → σ
  /-- `self.0.starts_with('#')` in `Comment::write` (css/comment.rs). -/
  isHash : σ → Bool
  /-- the text starts with `# sourceMappingURL=` or `# sourceURL=`: the only comments
  `Comment::write` may print nothing for (code since 01d06ad, and the specification). -/
  isSourceMap : σ → Bool

/-- Deviations of the code from the properties C20/C21/C36 (all `false` = specification). -/
structure Quirks where
  /-- C21: the `Drop` impls only `eprintln!` a failed `push_item`; the content is lost and
  the compilation succeeds. -/
  closeSwallows : Bool := false
  /-- C20: `AtMediaDest::push_item` keeps a `MediaRule` nested (the `FIXME`), instead of
  bubbling it to the top level with merged queries. -/
  mediaInMediaNested : Bool := false
  /-- C20/C36: `AtRuleDest`/`AtMediaDest` collect declarations and comments in one copy of
  the enclosing rule that `Drop` inserts at index 0, i.e. *before* nested rules that came
  earlier in the source. -/
  atRuleHoists : Bool := false
  /-- C20: `Item::AtRoot` without selector evaluates its body in the *same* destination, so
  direct declarations land in the enclosing rule. -/
  atRootKeepsRule : Bool := false
  /-- C36: `Item::Comment` is skipped entirely when the style is compressed. -/
  compressedDropsBang : Bool := false
  /-- C36/C08: comment interpolation is evaluated only when the comment is emitted. -/
  commentInterpExpandedOnly : Bool := false
  /-- C36: `Comment::write` prints nothing for a comment whose text starts with `#`. -/
  hashCommentDropped : Bool := false
  /-- C20: only the exact name `keyframes` resets the selector context / is flat; a
  vendor-prefixed `@-webkit-keyframes` gets the enclosing selector.  (Affects the choice of
  `Ops.isFlat`/`Ops.isKeyframes` in the driver; the theorems are stated for any `Ops`.) -/
  vendorKeyframesPrefixed : Bool := false
  /-- C36: `Comment::write` re-indents with `self.0.replace(get_indent(..), "\n")`; in
  compressed style `get_indent` is the EMPTY string, so a line break is inserted between all
  characters of a multi-line comment that is indented deeper than its block.  (Driver-level:
  text transformation in `Dest/Text.lean`.) -/
  compressedMultilineGarbled : Bool := false
deriving Repr, DecidableEq

def Quirks.spec : Quirks := {}
/-- the code at the snapshot the properties were written against (before any `fix:` commit) -/
def Quirks.asis : Quirks :=
  { closeSwallows := true, mediaInMediaNested := true, atRuleHoists := true,
    atRootKeepsRule := true, compressedDropsBang := true, commentInterpExpandedOnly := true,
    hashCommentDropped := true, vendorKeyframesPrefixed := true,
    compressedMultilineGarbled := true }
/-- the code after the repairs dcd9ee6, b20c1a1, 206f6e3, 01d06ad, 242f60b (three findings open) -/
def Quirks.afterRound1 : Quirks :=
  { closeSwallows := true, mediaInMediaNested := true, atRootKeepsRule := true }
/-- the code after f162538 (`AtRootDest`) and 34ff818 (at-rule in a nested-property block is an
error; the code refuses it in `start_atmedia`/`start_atrule`, the model when the frame is
dropped — the run is an error either way): only `@media` in `@media` is left -/
def Quirks.now : Quirks := { mediaInMediaNested := true }

/-- `css::BodyItem` (what may sit inside a `css::Rule`). -/
inductive BodyItem (σ : Type) where
  | prop (name value : σ)
  | comment (text : σ)
  /-- body-less at-rule (`BodyItem::ARule`) -/
  | arule (name args : σ)
deriving Repr, DecidableEq

/-- `css::Item` and `css::AtRuleBodyItem` in one type. -/
inductive Item (σ : Type) where
  | comment (text : σ)
  | rule (sel : σ) (body : List (BodyItem σ))
  /-- `AtRuleBodyItem::Property` (a declaration directly inside an at-rule body) -/
  | prop (name value : σ)
  | media (args : σ) (body : List (Item σ))
  /-- at-rule with a body (`AtRule { body: Some(_) }`) -/
  | atrule (name args : σ) (body : List (Item σ))
  /-- body-less at-rule (`AtRule { body: None }`) -/
  | arule (name args : σ)
deriving Repr

/-- `Invalid` as far as the destination produces it. -/
inductive Invalid where
  | inNsRule | globalNsProperty | declarationOutsideRule
deriving Repr, DecidableEq

inductive AtKind (σ : Type) where
  | media (args : σ)
  | atrule (name args : σ)
deriving Repr, DecidableEq

/-- One open destination. `at`'s `rule` is the `Option<Rule>` copy of the enclosing
selector that collects declarations and comments. -/
inductive Frame (σ : Type) where
  | rule (sel : σ) (cur : List (BodyItem σ))
  | ns (name : σ)
  | at (kind : AtKind σ) (rule : Option (σ × List (BodyItem σ))) (body : List (Item σ))
deriving Repr

structure St (σ : Type) where
  /-- open frames, innermost first -/
  stack : List (Frame σ) := []
  /-- `CssData.body` -/
  root : List (Item σ) := []
  /-- number of errors the `Drop` impls printed to stderr and dropped -/
  lost : Nat := 0
deriving Repr

variable {σ : Type}

def AtKind.toItem : AtKind σ → List (Item σ) → Item σ
  | .media a, b => .media a b
  | .atrule n a, b => .atrule n a b

/-- `commit_rule` seen from the receiver: the item a non-empty open rule turns into. -/
def commitItems (s : σ) (cur : List (BodyItem σ)) : List (Item σ) :=
  if cur.isEmpty then [] else [.rule s cur]

/-- Specification-side splitting of the items an `@media q0` frame receives: a media item
bubbles up (query merged), after flushing what the frame has collected so far.
Returns (new body, items to pass to the parent). -/
def splitMedia (ops : Ops σ) (q0 : σ) :
    List (Item σ) → List (Item σ) → List (Item σ) → List (Item σ) × List (Item σ)
  | [], body, up => (body, up)
  | .media q1 b :: its, body, up =>
      splitMedia ops q0 its []
        (up ++ (if body.isEmpty then [] else [.media q0 body]) ++ [.media (ops.mergeMedia q0 q1) b])
  | it :: its, body, up => splitMedia ops q0 its (body ++ [it]) up

/-- `push_item` for items that a `RuleDest` does not keep (`item => { commit_rule()?;
parent.push_item(item)? }`), iterated up the parent chain.  `its` are delivered in order;
a `RuleDest` on the way first commits its own rule, so its rule item goes in front. -/
def deliver (q : Quirks) (ops : Ops σ) :
    List (Frame σ) → List (Item σ) → List (Item σ) → Except Invalid (List (Frame σ) × List (Item σ))
  | [], root, its => .ok ([], root ++ its)                     -- CssData::push_item
  | .rule s cur :: rest, root, its =>                           -- RuleDest::push_item
      match deliver q ops rest root (commitItems s cur ++ its) with
      | .error e => .error e
      | .ok (rest', root') => .ok (.rule s [] :: rest', root')
  | .ns _ :: _, _, _ => .error .inNsRule                       -- NsRuleDest::push_item
  | .at k r body :: rest, root, its =>                          -- At{Rule,Media}Dest::push_item
      -- as is: `self.body.push(item)`.  Specification: the collected rule copy is
      -- committed first (source order), and `@media` in `@media` bubbles.
      let (r', body1) :=
        if q.atRuleHoists then (r, body)
        else match r with
          | some (s, cur) => (some (s, []), body ++ commitItems s cur)
          | none => (none, body)
      match k, q.mediaInMediaNested with
      | .media q0, false =>
          let (body2, up) := splitMedia ops q0 its body1 []
          if up.isEmpty then .ok (.at k r' body2 :: rest, root)
          else
            match deliver q ops rest root up with
            | .error e => .error e
            | .ok (rest', root') => .ok (.at k r' body2 :: rest', root')
      | _, _ => .ok (.at k r' (body1 ++ its) :: rest, root)

/-- `CssDestination::push_item` for a body-less at-rule (`AtRule::new(name, args, None)`):
a `RuleDest` keeps it in its rule (`TryFrom<AtRule> for BodyItem`), everything else treats
it like any item. -/
def pushARule (q : Quirks) (ops : Ops σ) (n a : σ) (st : St σ) : Except Invalid (St σ) :=
  match st.stack with
  | .rule s cur :: rest => .ok { st with stack := .rule s (cur ++ [.arule n a]) :: rest }
  | stack =>
    match deliver q ops stack st.root [.arule n a] with
    | .error e => .error e
    | .ok (stack', root') => .ok { st with stack := stack', root := root' }

/-- `push_property` -/
def pushPropertyAux (join : σ → σ → σ) :
    List (Frame σ) → σ → σ → Except Invalid (List (Frame σ))
  | [], _, _ => .error .declarationOutsideRule            -- CssData
  | .rule s cur :: rest, n, v => .ok (.rule s (cur ++ [.prop n v]) :: rest)
  | .ns name :: rest, n, v =>                         -- NsRuleDest: prefix and delegate
      match pushPropertyAux join rest (join name n) v with
      | .error e => .error e
      | .ok rest' => .ok (.ns name :: rest')
  | .at k (some (s, cur)) body :: rest, n, v => .ok (.at k (some (s, cur ++ [.prop n v])) body :: rest)
  | .at k none body :: rest, n, v => .ok (.at k none (body ++ [.prop n v]) :: rest)

def pushProperty (ops : Ops σ) (n v : σ) (st : St σ) : Except Invalid (St σ) :=
  match pushPropertyAux ops.nsJoin st.stack n v with
  | .error e => .error e
  | .ok stack' => .ok { st with stack := stack' }

/-- `push_comment` (infallible) -/
def pushCommentAux (t : σ) : List (Frame σ) → List (Item σ) → List (Frame σ) × List (Item σ)
  | [], root => ([], root ++ [.comment t])
  | .rule s cur :: rest, root => (.rule s (cur ++ [.comment t]) :: rest, root)
  | .ns name :: rest, root =>
      let (rest', root') := pushCommentAux t rest root
      (.ns name :: rest', root')
  | .at k (some (s, cur)) body :: rest, root => (.at k (some (s, cur ++ [.comment t])) body :: rest, root)
  | .at k none body :: rest, root => (.at k none (body ++ [.comment t]) :: rest, root)

def pushComment (t : σ) (st : St σ) : St σ :=
  let (stack', root') := pushCommentAux t st.stack st.root
  { st with stack := stack', root := root' }

/-- the selector an at-rule frame started on this stack copies (`self.rule.selectors.clone()`
for a `RuleDest`, `self.rule.as_ref().map(..)` for the at-rule dests, `None` otherwise) -/
def copySel : List (Frame σ) → Option σ
  | .rule s _ :: _ => some s
  | .at _ (some (s, _)) _ :: _ => some s
  | _ => none

/-- `start_rule` -/
def startRule (s : σ) (st : St σ) : Except Invalid (St σ) :=
  match st.stack with
  | .ns _ :: _ => .error .inNsRule
  | stack => .ok { st with stack := .rule s [] :: stack }

/-- `start_atmedia`.  `copy = false` (specification only, style rule excluded by
`@at-root`): no copy of the enclosing selector. -/
def startMedia (copy : Bool) (a : σ) (st : St σ) : St σ :=
  let r := if copy then (copySel st.stack).map fun s => (s, []) else none
  { st with stack := .at (.media a) r [] :: st.stack }

/-- `start_atrule` (`copy` as for `startMedia`) -/
def startAtRule (ops : Ops σ) (copy : Bool) (n a : σ) (st : St σ) : St σ :=
  let r := if ops.isFlat n || !copy then none else (copySel st.stack).map fun s => (s, [])
  { st with stack := .at (.atrule n a) r [] :: st.stack }

/-- `start_nsrule` -/
def startNs (name : σ) (st : St σ) : Except Invalid (St σ) :=
  match st.stack with
  | [] => .error .globalNsProperty
  | stack => .ok { st with stack := .ns name :: stack }

/-- The item an at-rule frame turns into when it is dropped.  `AtRuleDest` inserts its rule
copy even when empty (it prints nothing), `AtMediaDest` only when non-empty. -/
def atResult (q : Quirks) (k : AtKind σ) (r : Option (σ × List (BodyItem σ))) (body : List (Item σ)) : Item σ :=
  match r with
  | none => k.toItem body
  | some (s, cur) =>
    let ri : List (Item σ) :=
      match k with
      | .media _ => commitItems s cur
      | .atrule _ _ => [.rule s cur]
    if q.atRuleHoists then k.toItem (ri ++ body) else k.toItem (body ++ ri)

/-- `Drop` of the innermost frame made explicit (`NsRuleDest` has no `Drop`: it is popped).
A failed `push_item` is an error in the specification and an increment of `lost` in the
code as it is. -/
def close (q : Quirks) (ops : Ops σ) (st : St σ) : Except Invalid (St σ) :=
  match st.stack with
  | [] => .ok st
  | .ns _ :: rest => .ok { st with stack := rest }
  | .rule s cur :: rest =>
      if cur.isEmpty then .ok { st with stack := rest }      -- commit_rule: nothing to push
      else
        match deliver q ops rest st.root [.rule s cur] with
        | .ok (rest', root') => .ok { st with stack := rest', root := root' }
        | .error e =>
          if q.closeSwallows then .ok { st with stack := rest, lost := st.lost + 1 } else .error e
  | .at k r body :: rest =>
      match deliver q ops rest st.root [atResult q k r body] with
      | .ok (rest', root') => .ok { st with stack := rest', root := root' }
      | .error e =>
        if q.closeSwallows then .ok { st with stack := rest, lost := st.lost + 1 } else .error e

end Dest
