/-
Dest/LemmasFlat.lean — flatness under the merging specification: no `@media` item sits directly in
the body of an `@media` item, anywhere in the output tree or in the open frames.
-/
import RsassModel.Dest.Refine
namespace Dest
variable {σ : Type}

def isMedia : Item σ → Bool
  | .media _ _ => true
  | _ => false

def noMedia : List (Item σ) → Bool
  | [] => true
  | i :: r => !isMedia i && noMedia r

mutual
/-- no `@media` directly inside an `@media`, at any depth of the tree -/
def flatOK : Item σ → Bool
  | .media _ b => noMedia b && flatOKs b
  | .atrule _ _ b => flatOKs b
  | _ => true
def flatOKs : List (Item σ) → Bool
  | [] => true
  | i :: r => flatOK i && flatOKs r
end

theorem noMedia_append (a b : List (Item σ)) : noMedia (a ++ b) = (noMedia a && noMedia b) := by
  induction a with
  | nil => simp [noMedia]
  | cons x xs ih => simp [noMedia, ih, Bool.and_assoc]

theorem flatOKs_append (a b : List (Item σ)) : flatOKs (a ++ b) = (flatOKs a && flatOKs b) := by
  induction a with
  | nil => simp [flatOKs]
  | cons x xs ih => simp [flatOKs, ih, Bool.and_assoc]

theorem commit_ok (s : σ) (cur : List (BodyItem σ)) :
    noMedia (commitItems s cur) = true ∧ flatOKs (commitItems s cur) = true := by
  unfold commitItems
  split <;> simp [noMedia, flatOKs, flatOK, isMedia]

def frameOK : Frame σ → Bool
  | .at (.media _) _ body => noMedia body && flatOKs body
  | .at (.atrule _ _) _ body => flatOKs body
  | _ => true

def stackOK : List (Frame σ) → Bool
  | [] => true
  | f :: r => frameOK f && stackOK r

theorem splitMedia_ok (ops : Ops σ) (q0 : σ) :
    ∀ (its body up : List (Item σ)), flatOKs its = true → noMedia body = true → flatOKs body = true →
      flatOKs up = true →
      noMedia (splitMedia ops q0 its body up).1 = true ∧ flatOKs (splitMedia ops q0 its body up).1 = true ∧
        flatOKs (splitMedia ops q0 its body up).2 = true
  | [], body, up, _, hb, hf, hu => by simp [splitMedia, hb, hf, hu]
  | .media q1 b :: its, body, up, hi, hb, hf, hu => by
    simp only [splitMedia]
    simp only [flatOKs, flatOK, Bool.and_eq_true] at hi
    apply splitMedia_ok ops q0 its [] _ hi.2 rfl rfl
    cases hbe : body.isEmpty <;>
      simp [flatOKs_append, flatOKs, flatOK, hu, hb, hf, hi.1.1, hi.1.2]
  | .comment t :: its, body, up, hi, hb, hf, hu => by
    simp only [splitMedia]
    simp only [flatOKs, flatOK, Bool.true_and] at hi
    exact splitMedia_ok ops q0 its _ up hi (by simp [noMedia_append, noMedia, isMedia, hb])
      (by simp [flatOKs_append, flatOKs, flatOK, hf]) hu
  | .rule s b :: its, body, up, hi, hb, hf, hu => by
    simp only [splitMedia]
    simp only [flatOKs, flatOK, Bool.true_and] at hi
    exact splitMedia_ok ops q0 its _ up hi (by simp [noMedia_append, noMedia, isMedia, hb])
      (by simp [flatOKs_append, flatOKs, flatOK, hf]) hu
  | .prop n v :: its, body, up, hi, hb, hf, hu => by
    simp only [splitMedia]
    simp only [flatOKs, flatOK, Bool.true_and] at hi
    exact splitMedia_ok ops q0 its _ up hi (by simp [noMedia_append, noMedia, isMedia, hb])
      (by simp [flatOKs_append, flatOKs, flatOK, hf]) hu
  | .atrule n a b :: its, body, up, hi, hb, hf, hu => by
    simp only [splitMedia]
    simp only [flatOKs, flatOK, Bool.and_eq_true] at hi
    exact splitMedia_ok ops q0 its _ up hi.2 (by simp [noMedia_append, noMedia, isMedia, hb])
      (by simp [flatOKs_append, flatOKs, flatOK, hf, hi.1]) hu
  | .arule n a :: its, body, up, hi, hb, hf, hu => by
    simp only [splitMedia]
    simp only [flatOKs, flatOK, Bool.true_and] at hi
    exact splitMedia_ok ops q0 its _ up hi (by simp [noMedia_append, noMedia, isMedia, hb])
      (by simp [flatOKs_append, flatOKs, flatOK, hf]) hu

/-- handing flat items up keeps every frame and the root flat (media bubbles: `mediaInMediaNested = false`) -/
theorem deliver_flat (q : Quirks) (hh : q.atRuleHoists = false) (hm : q.mediaInMediaNested = false) (ops : Ops σ)
    (stk : List (Frame σ)) (root its : List (Item σ)) (stk' : List (Frame σ)) (root' : List (Item σ))
    (hs : stackOK stk = true) (hr : flatOKs root = true) (hi : flatOKs its = true)
    (h : deliver q ops stk root its = .ok (stk', root')) :
    stackOK stk' = true ∧ flatOKs root' = true := by
  induction stk generalizing its stk' root' with
  | nil =>
    simp only [deliver] at h; cases h
    simp [stackOK, flatOKs_append, hr, hi]
  | cons f rest ih =>
    simp only [stackOK, Bool.and_eq_true] at hs
    cases f with
    | ns nm => simp [deliver] at h
    | rule s cur =>
      simp only [deliver] at h
      split at h
      · cases h
      · next rest' root1 hd =>
        cases h
        have := ih _ _ _ hs.2 (by simp [flatOKs_append, (commit_ok s cur).2, hi]) hd
        simp [stackOK, frameOK, this.1, this.2]
    | «at» k r body =>
      cases k with
      | atrule n a =>
        have hb : flatOKs body = true := by simpa [frameOK] using hs.1
        cases r with
        | none =>
          simp only [deliver, hh] at h; cases h
          simp [stackOK, frameOK, flatOKs_append, hb, hi, hs.2, hr]
        | some p =>
          obtain ⟨s, cur⟩ := p
          simp only [deliver, hh] at h; cases h
          simp [stackOK, frameOK, flatOKs_append, hb, hi, hs.2, hr, (commit_ok s cur).2]
      | media q0 =>
        have hb : noMedia body = true ∧ flatOKs body = true := by simpa [frameOK] using hs.1
        have key : ∀ (r' : Option (σ × List (BodyItem σ))) (body1 : List (Item σ)),
            noMedia body1 = true → flatOKs body1 = true →
            (if (splitMedia ops q0 its body1 []).2.isEmpty = true then
                (.ok (.at (.media q0) r' (splitMedia ops q0 its body1 []).1 :: rest, root) :
                  Except Invalid (List (Frame σ) × List (Item σ)))
              else
                match deliver q ops rest root (splitMedia ops q0 its body1 []).2 with
                | .error e => .error e
                | .ok (rest', root') => .ok (.at (.media q0) r' (splitMedia ops q0 its body1 []).1 :: rest', root'))
              = .ok (stk', root') →
            stackOK stk' = true ∧ flatOKs root' = true := by
          intro r' body1 hn hf hres
          obtain ⟨s1, s2, s3⟩ := splitMedia_ok ops q0 its body1 [] hi hn hf rfl
          split at hres
          · cases hres
            simp [stackOK, frameOK, s1, s2, hs.2, hr]
          · split at hres
            · cases hres
            · next rest' root1 hd =>
              cases hres
              have := ih _ _ _ hs.2 s3 hd
              simp [stackOK, frameOK, s1, s2, this.1, this.2]
        cases r with
        | none =>
          simp only [deliver, hh, hm] at h
          exact key none body hb.1 hb.2 h
        | some p =>
          obtain ⟨s, cur⟩ := p
          simp only [deliver, hh, hm] at h
          exact key (some (s, [])) (body ++ commitItems s cur)
            (by simp [noMedia_append, hb.1, (commit_ok s cur).1])
            (by simp [flatOKs_append, hb.2, (commit_ok s cur).2]) h

/-- the state holds no `@media` directly inside an `@media` -/
def WF (st : St σ) : Prop := stackOK st.stack = true ∧ flatOKs st.root = true

theorem pushPropertyAux_ok (join : σ → σ → σ) (stk stk' : List (Frame σ)) (n v : σ)
    (h : pushPropertyAux join stk n v = .ok stk') (hs : stackOK stk = true) : stackOK stk' = true := by
  induction stk generalizing n stk' with
  | nil => simp [pushPropertyAux] at h
  | cons f rest ih =>
    simp only [stackOK, Bool.and_eq_true] at hs
    cases f with
    | rule s cur => simp only [pushPropertyAux] at h; cases h; simp [stackOK, frameOK, hs.2]
    | ns nm =>
      simp only [pushPropertyAux] at h
      split at h
      · cases h
      · next rest' hr => cases h; simp [stackOK, frameOK, ih _ _ hr hs.2]
    | «at» k r body =>
      cases r with
      | none =>
        simp only [pushPropertyAux] at h; cases h
        cases k <;> simp_all [stackOK, frameOK, noMedia_append, flatOKs_append, noMedia, flatOKs, flatOK, isMedia]
      | some p =>
        obtain ⟨s, cur⟩ := p
        simp only [pushPropertyAux] at h; cases h
        cases k <;> simp_all [stackOK, frameOK]

theorem pushCommentAux_ok (t : σ) (stk : List (Frame σ)) (root : List (Item σ))
    (hs : stackOK stk = true) (hr : flatOKs root = true) :
    stackOK (pushCommentAux t stk root).1 = true ∧ flatOKs (pushCommentAux t stk root).2 = true := by
  induction stk with
  | nil => simp [pushCommentAux, stackOK, flatOKs_append, flatOKs, flatOK, hr]
  | cons f rest ih =>
    simp only [stackOK, Bool.and_eq_true] at hs
    cases f with
    | rule s cur => simp [pushCommentAux, stackOK, frameOK, hs.2, hr]
    | ns nm =>
      have := ih hs.2
      simp [pushCommentAux, stackOK, frameOK, this.1, this.2]
    | «at» k r body =>
      cases r with
      | none =>
        cases k <;> simp_all [pushCommentAux, stackOK, frameOK, noMedia_append, flatOKs_append, noMedia, flatOKs,
          flatOK, isMedia]
      | some p =>
        obtain ⟨s, cur⟩ := p
        cases k <;> simp_all [pushCommentAux, stackOK, frameOK]

theorem atResult_ok (q : Quirks) (hh : q.atRuleHoists = false) (k : AtKind σ)
    (r : Option (σ × List (BodyItem σ))) (body : List (Item σ)) (h : frameOK (.at k r body) = true) :
    flatOKs [atResult q k r body] = true := by
  cases k with
  | media a =>
    have hb : noMedia body = true ∧ flatOKs body = true := by simpa [frameOK] using h
    cases r with
    | none => simp [atResult, AtKind.toItem, flatOKs, flatOK, hb.1, hb.2]
    | some p =>
      obtain ⟨s, cur⟩ := p
      simp [atResult, hh, AtKind.toItem, flatOKs, flatOK, noMedia_append, flatOKs_append, hb.1, hb.2,
        (commit_ok s cur).1, (commit_ok s cur).2]
  | atrule n a =>
    have hb : flatOKs body = true := by simpa [frameOK] using h
    cases r with
    | none => simp [atResult, AtKind.toItem, flatOKs, flatOK, hb]
    | some p =>
      obtain ⟨s, cur⟩ := p
      simp [atResult, hh, AtKind.toItem, flatOKs, flatOK, flatOKs_append, hb]

theorem close_flat (q : Quirks) (hh : q.atRuleHoists = false) (hm : q.mediaInMediaNested = false) (ops : Ops σ)
    (st st' : St σ) (h : close q ops st = .ok st') (hw : WF st) : WF st' := by
  obtain ⟨hs, hr⟩ := hw
  unfold close at h
  split at h
  · cases h; exact ⟨hs, hr⟩
  · next nm rest heq =>
    cases h
    rw [heq] at hs
    simp only [stackOK, Bool.and_eq_true] at hs
    exact ⟨hs.2, hr⟩
  · next s cur rest heq =>
    rw [heq] at hs
    simp only [stackOK, Bool.and_eq_true] at hs
    split at h
    · cases h; exact ⟨hs.2, hr⟩
    · split at h
      · next rest' root' hd =>
        cases h
        exact deliver_flat q hh hm ops rest st.root _ _ _ hs.2 hr (by simp [flatOKs, flatOK]) hd
      · split at h
        · cases h; exact ⟨hs.2, hr⟩
        · cases h
  · next k r body rest heq =>
    rw [heq] at hs
    simp only [stackOK, Bool.and_eq_true] at hs
    split at h
    · next rest' root' hd =>
      cases h
      exact deliver_flat q hh hm ops rest st.root _ _ _ hs.2 hr (atResult_ok q hh k r body hs.1) hd
    · split at h
      · cases h; exact ⟨hs.2, hr⟩
      · cases h

theorem atFrame_ok (k : AtKind σ) (copy : Bool) (stk : List (Frame σ)) : frameOK (atFrame k copy stk) = true := by
  unfold atFrame
  cases k <;> simp [frameOK, noMedia, flatOKs]

mutual
theorem emitItem_flat (q : Quirks) (hh : q.atRuleHoists = false) (hm : q.mediaInMediaNested = false)
    (ops : Ops σ) (c : SelCtx σ) :
    ∀ (i : Core σ) (st st' : St σ), emitItem q ops c i st = .ok st' → WF st → WF st'
  | .decl n v, st, st', h, hw => by
    simp only [emitItem] at h
    split at h
    · cases h
    · have h := liftInv_ok' _ _ h
      unfold pushProperty at h
      split at h
      · cases h
      · next stk' hp => cases h; exact ⟨pushPropertyAux_ok _ _ _ _ _ hp hw.1, hw.2⟩
  | .comment t, st, st', h, hw => by
    simp only [emitItem] at h
    cases h
    exact pushCommentAux_ok t st.stack st.root hw.1 hw.2
  | .arule n a, st, st', h, hw => by
    simp only [emitItem] at h
    have h := liftInv_ok' _ _ h
    unfold pushARule at h
    split at h
    · next s cur rest heq =>
      cases h
      obtain ⟨hs, hr⟩ := hw
      rw [heq] at hs
      exact ⟨by simpa [stackOK, frameOK] using hs, hr⟩
    · split at h
      · cases h
      · next stk' root' hd =>
        cases h
        exact deliver_flat q hh hm ops _ _ _ _ _ hw.1 hw.2 (by simp [flatOKs, flatOK]) hd
  | .rule sel body, st, st', h, hw => by
    simp only [emitItem] at h
    split at h
    · cases h
    · next st1 h1 =>
      split at h
      · cases h
      · next st2 h2 =>
        have h1 := liftInv_ok' _ _ h1
        unfold startRule at h1
        split at h1
        · cases h1
        · cases h1
          have w2 := emitBody_flat q hh hm ops _ body _ st2 h2 ⟨by simpa [stackOK, frameOK] using hw.1, hw.2⟩
          exact close_flat q hh hm ops st2 st' (liftInv_ok' _ _ h) w2
  | .ns name value body, st, st', h, hw => by
    simp only [emitItem] at h
    split at h
    · cases h
    · next st0 h0 =>
      have w0 : WF st0 := by
        cases value with
        | none => simp only at h0; cases h0; exact hw
        | some v =>
          simp only at h0
          split at h0
          · cases h0
          · have h0 := liftInv_ok' _ _ h0
            unfold pushProperty at h0
            split at h0
            · cases h0
            · next stk' hp => cases h0; exact ⟨pushPropertyAux_ok _ _ _ _ _ hp hw.1, hw.2⟩
      split at h
      · cases h
      · next st1 h1 =>
        split at h
        · cases h
        · next st2 h2 =>
          have h1 := liftInv_ok' _ _ h1
          unfold startNs at h1
          split at h1
          · cases h1
          · cases h1
            have w2 := emitBody_flat q hh hm ops c body _ st2 h2 ⟨by simpa [stackOK, frameOK] using w0.1, w0.2⟩
            exact close_flat q hh hm ops st2 st' (liftInv_ok' _ _ h) w2
  | .media a body, st, st', h, hw => by
    simp only [emitItem] at h
    split at h
    · cases h
    · next st2 h2 =>
      rw [startMedia_eq] at h2
      have w2 := emitBody_flat q hh hm ops _ body _ st2 h2
        ⟨by simp [stackOK, atFrame_ok, hw.1], hw.2⟩
      exact close_flat q hh hm ops st2 st' (liftInv_ok' _ _ h) w2
  | .atrule n a body, st, st', h, hw => by
    simp only [emitItem] at h
    split at h
    · cases h
    · next st2 h2 =>
      rw [startAtRule_eq] at h2
      have w2 := emitBody_flat q hh hm ops _ body _ st2 h2
        ⟨by simp [stackOK, atFrame_ok, hw.1], hw.2⟩
      exact close_flat q hh hm ops st2 st' (liftInv_ok' _ _ h) w2
  | .atroot sel body, st, st', h, hw => by
    cases sel with
    | none =>
      simp only [emitItem, Option.map] at h
      exact emitBody_flat q hh hm ops _ body st st' h hw
    | some s0 =>
      simp only [emitItem, Option.map] at h
      split at h
      · cases h
      · next st1 h1 =>
        split at h
        · cases h
        · next st2 h2 =>
          have h1 := liftInv_ok' _ _ h1
          unfold startRule at h1
          split at h1
          · cases h1
          · cases h1
            have w2 := emitBody_flat q hh hm ops _ body _ st2 h2 ⟨by simpa [stackOK, frameOK] using hw.1, hw.2⟩
            exact close_flat q hh hm ops st2 st' (liftInv_ok' _ _ h) w2
theorem emitBody_flat (q : Quirks) (hh : q.atRuleHoists = false) (hm : q.mediaInMediaNested = false)
    (ops : Ops σ) (c : SelCtx σ) :
    ∀ (b : List (Core σ)) (st st' : St σ), emitBody q ops c b st = .ok st' → WF st → WF st'
  | [], st, st', h, hw => by simp only [emitBody] at h; cases h; exact hw
  | i :: rest, st, st', h, hw => by
    simp only [emitBody] at h
    split at h
    · cases h
    · next st1 h1 =>
      exact emitBody_flat q hh hm ops c rest st1 st' h (emitItem_flat q hh hm ops c i st st1 h1 hw)
end

end Dest
