/-
Dest/Emit.lean — the destination-facing half of `handle_item` (rsass/src/output/transform.rs)
for the statements that produce output: `Item::Property`, `Item::Comment` (already
evaluated), `Item::Rule`, `Item::NamespaceRule`, `Item::AtMedia`, `Item::AtRule`,
`Item::AtRoot`.  Control flow, mixins, functions and imports are expanded beforehand
(`Dest/Expand.lean`); they never touch the destination themselves.

Structural recursion over the statement tree, so no fuel and no termination hypotheses.
-/
import RsassModel.Dest.Css
namespace Dest

/-- Evaluated output-producing statements. -/
inductive Core (σ : Type) where
  | decl (name value : σ)
  | comment (text : σ)
  | rule (sel : σ) (body : List (Core σ))
  /-- nested-property block `name: value { … }` -/
  | ns (name : σ) (value : Option σ) (body : List (Core σ))
  | media (args : σ) (body : List (Core σ))
  | atrule (name args : σ) (body : List (Core σ))
  /-- body-less at-rule `@name args;` -/
  | arule (name args : σ)
  | atroot (sel : Option σ) (body : List (Core σ))
deriving Repr

/-- `SelectorCtx` (css/selectors/context.rs): `none` = root.  `excluded` is a
specification-side mark: the style rule has been excluded by a selector-less `@at-root`
and no rule has been entered since. -/
structure SelCtx (σ : Type) where
  s : Option σ := none
  backref : Option σ := none
  excluded : Bool := false
deriving Repr

inductive Err where
  | invalid (e : Invalid)
  /-- `@error` reached -/
  | atError
  /-- specification only: declaration with the style rule excluded by `@at-root` -/
  | declInAtRoot
  /-- evaluation errors outside the destination (undefined mixin/variable, `check_body`) -/
  | eval
  | outOfFuel
deriving Repr, DecidableEq

variable {σ : Type}

/-- `SelectorCtx::get_backref` -/
def SelCtx.getBackref (c : SelCtx σ) : Option σ :=
  match c.s with
  | none => c.backref
  | some s => some s

def liftInv {α} : Except Invalid α → Except Err α
  | .ok a => .ok a
  | .error e => .error (.invalid e)

mutual
/-- `handle_item` -/
def emitItem (q : Quirks) (ops : Ops σ) (c : SelCtx σ) : Core σ → St σ → Except Err (St σ)
  | .decl n v, st =>
      if c.excluded && !q.atRootKeepsRule then .error .declInAtRoot
      else liftInv (pushProperty ops n v st)
  | .comment t, st => .ok (pushComment t st)
  | .arule n a, st => liftInv (pushARule q ops n a st)
  | .rule sel body, st =>
      -- `scope.get_selectors().nest(selectors)`, `dest.start_rule(..)`, `sub_selectors`
      let s := ops.nest c.s c.backref sel
      match liftInv (startRule s st) with
      | .error e => .error e
      | .ok st1 =>
        match emitBody q ops { s := some s, backref := none } body st1 with
        | .error e => .error e
        | .ok st2 => liftInv (close q ops st2)
  | .ns name value body, st =>
      let r0 : Except Err (St σ) :=
        match value with
        | some v =>
            if c.excluded && !q.atRootKeepsRule then .error .declInAtRoot
            else liftInv (pushProperty ops name v st)
        | none => .ok st
      match r0 with
      | .error e => .error e
      | .ok st0 =>
        match liftInv (startNs name st0) with
        | .error e => .error e
        | .ok st1 =>
          match emitBody q ops c body st1 with
          | .error e => .error e
          | .ok st2 => liftInv (close q ops st2)
  | .media a body, st =>
      -- a bare declaration directly in the at-rule is kept there (as at the top level)
      match emitBody q ops { c with excluded := false } body (startMedia (!c.excluded || q.atRootKeepsRule) a st) with
      | .error e => .error e
      | .ok st2 => liftInv (close q ops st2)
  | .atrule n a body, st =>
      -- `name == "keyframes"` ⇒ `sub_selectors(scope, SelectorCtx::root())`
      let c' : SelCtx σ :=
        if ops.isKeyframes n then {} else { c with excluded := false }
      match emitBody q ops c' body (startAtRule ops (!c.excluded || q.atRootKeepsRule) n a st) with
      | .error e => .error e
      | .ok st2 => liftInv (close q ops st2)
  | .atroot sel body, st =>
      -- `scope.get_selectors().at_root(selectors)`
      let s' := sel.map (ops.resolveRef c.getBackref)
      match s' with
      | some s =>
        let c' : SelCtx σ := { s := some s, backref := c.getBackref }
        match liftInv (startRule s st) with
        | .error e => .error e
        | .ok st1 =>
          match emitBody q ops c' body st1 with
          | .error e => .error e
          | .ok st2 => liftInv (close q ops st2)
      | none =>
        emitBody q ops { s := none, backref := c.getBackref, excluded := true } body st
/-- `handle_body` -/
def emitBody (q : Quirks) (ops : Ops σ) (c : SelCtx σ) : List (Core σ) → St σ → Except Err (St σ)
  | [], st => .ok st
  | i :: rest, st =>
      match emitItem q ops c i st with
      | .error e => .error e
      | .ok st1 => emitBody q ops c rest st1
end

/-- A whole compilation of an expanded program: fresh `CssData`, `handle_body`; the result
is the root item list and the number of errors that were only printed. -/
def emitTop (q : Quirks) (ops : Ops σ) (p : List (Core σ)) : Except Err (St σ) :=
  emitBody q ops {} p {}

end Dest
