/- Definitions used by the C30 theorems: the shape a calculation keeps when nothing folds. -/
import RsassModel.Calc.Model
namespace Calc
open MathFn
variable {α : Type} [AOps α]

/-- the source tree with grouping parentheses removed (a parenthesised `var()` keeps them,
as the code does) -/
def shape : T α → V α
  | .num x => .num x
  | .var n => .var n
  | .ident s => .ident s
  | .paren t => match shape t with
    | .var n => .paren (.var n)
    | v => v
  | .bin op a b => .bin op (shape a) (shape b)

def isNumV : V α → Bool
  | .num _ => true
  | _ => false

/-- no operator has two numeric operands (nothing can fold) and no `+` has an identifier operand -/
def pairFree : T α → Bool
  | .bin op a b =>
    pairFree a && pairFree b && !(isNumV (shape a) && isNumV (shape b))
  | .paren t => pairFree t
  | _ => true

/-- operands in source order -/
def leavesT : T α → List (V α)
  | .num x => [.num x]
  | .var n => [.var n]
  | .ident s => [.ident s]
  | .paren t => leavesT t
  | .bin _ a b => leavesT a ++ leavesT b

def leavesV : V α → List (V α)
  | .paren v => leavesV v
  | .bin _ a b => leavesV a ++ leavesV b
  | v => [v]

/-- operators in infix order -/
def opsT : T α → List Op
  | .paren t => opsT t
  | .bin op a b => opsT a ++ [op] ++ opsT b
  | _ => []

def opsV : V α → List Op
  | .paren v => opsV v
  | .bin op a b => opsV a ++ [op] ++ opsV b
  | _ => []

/-- `combine` yields a number only by folding two numbers -/
theorem combine_num (q : CalcQuirks) (showQ : Q α → String) (op : Op) (va vb : V α) (z : Q α)
    (h : combine q showQ op va vb = .ok (.num z)) :
    ∃ x y, va = .num x ∧ vb = .num y ∧ foldNum op x y = .val z := by
  cases va <;> cases vb <;> simp only [combine] at h
  case num.num x y =>
    refine ⟨x, y, rfl, rfl, ?_⟩
    cases hf : foldNum op x y <;> simp_all
  all_goals (split at h <;> simp at h)

theorem combine_fold (q : CalcQuirks) (showQ : Q α → String) (op : Op) (x y z : Q α)
    (h : foldNum op x y = .val z) : combine q showQ op (.num x) (.num y) = .ok (.num z) := by
  simp [combine, h]

end Calc
