/-
C30 — the output language of the specification printer, token level, and the CSS calc grammar.
`toksV` lists the tokens `printV spec` writes (operators are written ` op `, parentheses tight);
`Parses k ts e` is the standard left-recursive calc grammar with precedence levels
(0 sum, 1 product, 2 atom / parenthesised expression).  Proof-only file.
-/
import RsassModel.Calc.Model
import RsassModel.Calc.Lemmas
namespace Calc
open MathFn
variable {α : Type} [AOps α]
open MOps AOps

inductive Tok (α : Type)
  | atom (v : V α)
  | op (o : Op)
  | lp
  | rp

def isBin : V α → Bool
  | .bin _ _ _ => true
  | _ => false

/-- precedence level at which a value is printed: 0 sum, 1 product, 2 atom -/
def vprec : V α → Nat
  | .bin op _ _ => op.prec
  | _ => 2

/-- the parentheses rule of the specification printer for a right operand -/
def needR (op op2 : Op) : Bool :=
  op2.prec < op.prec || (op2.prec = op.prec && (op = .minus || op = .div))

/-- the left operand is parenthesised iff it is an operation of a lower precedence class -/
def leftToks (op : Op) (a : V α) (ta : List (Tok α)) : List (Tok α) :=
  match a with
  | .bin opa _ _ => if opa.prec < op.prec then [.lp] ++ ta ++ [.rp] else ta
  | _ => ta

/-- tokens written by `printV spec` -/
def toksV : V α → List (Tok α)
  | .num x => [.atom (.num x)]
  | .var n => [.atom (.var n)]
  | .ident s => [.atom (.ident s)]
  | .paren v => [.lp] ++ toksV v ++ [.rp]
  | .bin op a b =>
    let left := leftToks op a (toksV a)
    match b with
    | .num x =>
      if isNeg x.v && op = .plus then left ++ [.op .minus] ++ [.atom (.num ⟨neg x.v, x.u⟩)]
      else if isNeg x.v && op = .minus then left ++ [.op .plus] ++ [.atom (.num ⟨neg x.v, x.u⟩)]
      else left ++ [.op op] ++ [.atom (.num x)]
    | .bin op2 _ _ =>
      left ++ [.op op] ++ (if needR op op2 then [.lp] ++ toksV b ++ [.rp] else toksV b)
    | _ => left ++ [.op op] ++ toksV b

/-- the value the printed text denotes: a negative numeric right operand of `+`/`-` is written
with the opposite operator and the negated number -/
def signNorm : V α → V α
  | .paren v => .paren (signNorm v)
  | .bin op a b =>
    match b with
    | .num x =>
      if isNeg x.v && op = .plus then .bin .minus (signNorm a) (.num ⟨neg x.v, x.u⟩)
      else if isNeg x.v && op = .minus then .bin .plus (signNorm a) (.num ⟨neg x.v, x.u⟩)
      else .bin op (signNorm a) (.num x)
    | _ => .bin op (signNorm a) (signNorm b)
  | v => v

/-- values as `evalC` builds them: parentheses only around a non-operation -/
def wfV : V α → Bool
  | .paren v => !isBin v && wfV v
  | .bin _ a b => wfV a && wfV b
  | _ => true

/-- no right operand of `+` or `*` is an operation of the same precedence class (there the
specification printer relies on associativity and writes no parentheses) -/
def assocFree : V α → Bool
  | .paren v => assocFree v
  | .bin op a b =>
    assocFree a && assocFree b &&
      (match b with
       | .bin op2 _ _ => !(op2.prec = op.prec && (op = .plus || op = .mul))
       | _ => true)
  | _ => true

/-- the calc grammar: sum := sum (+|-) product | product; product := product (*|/) atom | atom;
atom := leaf | ( sum ) -/
inductive Parses : Nat → List (Tok α) → V α → Prop
  | leaf (v : V α) (h : isBin v = false) (hp : ∀ w, v ≠ .paren w) : Parses 2 [.atom v] v
  | parenBin (ts : List (Tok α)) (e : V α) : Parses 0 ts e → isBin e = true →
      Parses 2 ([.lp] ++ ts ++ [.rp]) e
  | parenAtom (ts : List (Tok α)) (e : V α) : Parses 0 ts e → isBin e = false →
      Parses 2 ([.lp] ++ ts ++ [.rp]) (.paren e)
  | mulop (t1 t2 : List (Tok α)) (a b : V α) (op : Op) : Parses 1 t1 a → Parses 2 t2 b → op.prec = 1 →
      Parses 1 (t1 ++ [.op op] ++ t2) (.bin op a b)
  | addop (t1 t2 : List (Tok α)) (a b : V α) (op : Op) : Parses 0 t1 a → Parses 1 t2 b → op.prec = 0 →
      Parses 0 (t1 ++ [.op op] ++ t2) (.bin op a b)
  | lift21 (ts : List (Tok α)) (e : V α) : Parses 2 ts e → Parses 1 ts e
  | lift10 (ts : List (Tok α)) (e : V α) : Parses 1 ts e → Parses 0 ts e

omit [AOps α] in
theorem Parses.liftTo {k j : Nat} {ts : List (Tok α)} {e : V α} (h : Parses k ts e) (hj : j ≤ k)
    (hk : k ≤ 2) : Parses j ts e := by
  match k, j, h with
  | 2, 2, h => exact h
  | 2, 1, h => exact .lift21 _ _ h
  | 2, 0, h => exact .lift10 _ _ (.lift21 _ _ h)
  | 1, 1, h => exact h
  | 1, 0, h => exact .lift10 _ _ h
  | 0, 0, h => exact h
  | 0, _ + 1, _ => omega
  | 1, _ + 2, _ => omega
  | 2, _ + 3, _ => omega
  | _ + 3, _, _ => omega

theorem isBin_signNorm (v : V α) : isBin (signNorm v) = isBin v := by
  cases v with
  | bin op a b =>
    cases b with
    | num x =>
      simp only [signNorm]
      by_cases h1 : (isNeg x.v && decide (op = Op.plus)) = true
      · simp [h1, isBin]
      · by_cases h2 : (isNeg x.v && decide (op = Op.minus)) = true <;> simp [h1, h2, isBin]
    | _ => simp [signNorm, isBin]
  | _ => rfl

theorem vprec_signNorm (v : V α) : vprec (signNorm v) = vprec v := by
  cases v with
  | bin op a b =>
    cases b with
    | num x =>
      simp only [signNorm]
      by_cases h1 : (isNeg x.v && decide (op = Op.plus)) = true
      · have hop : op = .plus := by simp at h1; exact h1.2
        rw [if_pos h1]; subst hop; rfl
      · by_cases h2 : (isNeg x.v && decide (op = Op.minus)) = true
        · have hop : op = .minus := by simp at h2; exact h2.2
          rw [if_neg h1, if_pos h2]; subst hop; rfl
        · rw [if_neg h1, if_neg h2]; rfl
    | _ => simp [signNorm, vprec]
  | _ => rfl

theorem op_prec_le (op : Op) : op.prec ≤ 1 := by cases op <;> simp [Op.prec]
theorem vprec_le (v : V α) : vprec v ≤ 2 := by
  cases v <;> simp [vprec]
  next op _ _ => have := op_prec_le op; omega

/-- left operand: parsed at the level of the operator -/
theorem left_parses (op : Op) (a : V α)
    (iha : Parses (vprec a) (toksV a) (signNorm a)) :
    Parses op.prec (leftToks op a (toksV a)) (signNorm a) := by
  have hle := op_prec_le op
  cases a with
  | bin opa x y =>
    simp only [leftToks]
    by_cases h : opa.prec < op.prec
    · simp only [h, if_true]
      have hb : isBin (signNorm (V.bin opa x y)) = true := by rw [isBin_signNorm]; rfl
      exact (Parses.parenBin _ _ (iha.liftTo (Nat.zero_le _) (vprec_le _)) hb).liftTo (by omega) (Nat.le_refl _)
    · simp only [h, if_false]
      exact iha.liftTo (by simp only [vprec]; omega) (vprec_le _)
  | num x => exact iha.liftTo (by simp only [vprec]; omega) (Nat.le_refl _)
  | var n => exact iha.liftTo (by simp only [vprec]; omega) (Nat.le_refl _)
  | ident s => exact iha.liftTo (by simp only [vprec]; omega) (Nat.le_refl _)
  | paren w => exact iha.liftTo (by simp only [vprec]; omega) (Nat.le_refl _)

omit [AOps α] in
theorem combine_parses (op : Op) (t1 t2 : List (Tok α)) (a b : V α)
    (h1 : Parses op.prec t1 a) (h2 : Parses (op.prec + 1) t2 b) :
    Parses op.prec (t1 ++ [.op op] ++ t2) (.bin op a b) := by
  cases op with
  | plus => exact .addop _ _ _ _ _ h1 h2 rfl
  | minus => exact .addop _ _ _ _ _ h1 h2 rfl
  | mul => exact .mulop _ _ _ _ _ h1 h2 rfl
  | div => exact .mulop _ _ _ _ _ h1 h2 rfl


/-- the values `shape` builds have parentheses only around a `var()` -/
theorem wfV_shape (t : T α) : wfV (shape t) = true := by
  induction t with
  | num x => rfl
  | var n => rfl
  | ident s => rfl
  | paren t ih =>
    simp only [shape]
    cases h : shape t <;> simp_all [wfV, isBin]
  | bin op a b iha ihb => simp [shape, wfV, iha, ihb]

end Calc
