/- A tiny exact instance of `Calc.AOps` on `Int` (theorems only): enough arithmetic for the
concrete refutations, all of it kernel-reducible; libm fields are dummies (never used by calc). -/
import RsassModel.Calc.Model
namespace Calc
open MathFn

def rshow (x : Q Int) : String :=
  toString x.v ++ (match x.u with | .px => "px" | .percent => "%" | _ => "")

@[instance_reducible] def intM : MOps Int :=
  { ofNat := fun n => n, mul := (· * ·), div := (· / ·), abs := fun x => x.natAbs, floor := id, ceil := id, round := id,
    lt := fun a b => decide (a < b), feq := fun a b => decide (a = b), isInf := fun _ => false, factor := fun _ => 1,
    sqrt := id, exp := id, ln := id, pow := fun a _ => a, sin := id, cos := id, tan := id, asin := id, acos := id,
    atan := id, atan2 := fun a _ => a, toDegrees := id, e := 0 }

instance intA : AOps Int :=
  { toMOps := intM, add := (· + ·), sub := (· - ·), neg := (- ·), isNeg := fun x => decide (x < 0) }

end Calc
