/-
C30 — model of calc() simplification and printing:
* the global `calc` of rsass/src/sass/functions/math/css.rs (`do_eval`, `pre_calc`,
  `css_fn_arg` of math.rs) on trees over numbers, `var()` and identifiers with + − * / and
  parentheses, as produced by parser/css_function.rs and the SassScript evaluation of the
  argument (numeric sub-expressions are folded bottom-up by `Operator::eval`,
  value/operator.rs);
* `impl Display for Formatted<BinOp>` (css/binop.rs): sign normalisation of a negative right
  operand and parenthesisation of the RIGHT operand only.
Numbers are `MathFn.Q α` (one unit or none) over a carrier with the `MathFn.MOps`
operations plus `add`/`sub`/`neg`/sign test (`AOps`).  Results with compound units are
outside the model (`unsupported`).  Import-free apart from the MathFn model.
-/
import RsassModel.MathFn.Model
namespace Calc
open MathFn

class AOps (α : Type) extends MOps α where
  add : α → α → α
  sub : α → α → α
  neg : α → α
  /-- `f64::is_sign_negative` -/
  isNeg : α → Bool

/-- `value::Operator`, in its derived order `Plus < Minus < Multiply < Div` -/
inductive Op | plus | minus | mul | div
  deriving DecidableEq, Repr

def Op.rank : Op → Nat
  | .plus => 0 | .minus => 1 | .mul => 2 | .div => 3

/-- precedence class of CSS calculations: additive 0, multiplicative 1 -/
def Op.prec : Op → Nat
  | .plus | .minus => 0
  | .mul | .div => 1

def Op.text : Op → String
  | .plus => "+" | .minus => "-" | .mul => "*" | .div => "/"

/-- source tree -/
inductive T (α : Type)
  | num (q : Q α)
  | var (n : Nat)
  | ident (s : String)
  | paren (t : T α)
  | bin (op : Op) (a b : T α)

/-- evaluated calculation value (`css::Value` restricted to what can occur) -/
inductive V (α : Type)
  | num (q : Q α)
  | var (n : Nat)
  | ident (s : String)
  | paren (v : V α)
  | bin (op : Op) (a b : V α)

inductive R (α : Type)
  | ok (v : V α)
  /-- incompatible units (`css_fn_arg`) -/
  | err
  /-- a compound unit would arise (not modelled) -/
  | unsupported

structure CalcQuirks where
  /-- css/binop.rs never parenthesises the LEFT operand: `(a + b) * c` prints `a + b * c` -/
  dropsLeftParens : Bool := false
  /-- css/binop.rs: `a / (b / c)` prints `a / b / c` (only `op2 < op` or minus-minus gets parentheses) -/
  divRightAssoc : Bool := false
  /-- value/operator.rs `Plus`: an identifier operand turns `+` into string concatenation -/
  identPlusConcat : Bool := false
  deriving Repr

def spec : CalcQuirks := {}
def asis : CalcQuirks := { dropsLeftParens := true, divRightAssoc := true, identPlusConcat := true }

variable {α : Type} [AOps α]
open MOps AOps

inductive Fold (α : Type) | val (q : Q α) | keep | err | unsupported

/-- `UnitSet::is_known() && !is_percent()` then `css_dimension()` (`css_dim`/`known_dim`) -/
def knownCssDim (u : MUnit) : Option Dim :=
  if u = .other ∨ u = .percent then none else some u.dim.css

/-- `Operator::eval` on two numbers (+ the incompatibility test of `css_fn_arg` when the sum
stays unevaluated) -/
def foldNum (op : Op) (a b : Q α) : Fold α :=
  match op with
  | .plus | .minus =>
    let f : α → α → α := if op = .plus then add else sub
    if a.u = b.u ∨ b.u = .none then .val ⟨f a.v b.v, a.u⟩
    else if a.u = .none then .val ⟨f a.v b.v, b.u⟩
    else match asUnit b a.u with
      | some s => .val ⟨f a.v s, a.u⟩
      | none =>
        match knownCssDim a.u, knownCssDim b.u with
        | some d1, some d2 => if d1 = d2 then .keep else .err
        | _, _ => .keep
  | .mul =>
    if a.u = .none then .val ⟨mul a.v b.v, b.u⟩
    else if b.u = .none then .val ⟨mul a.v b.v, a.u⟩
    else .unsupported
  | .div =>
    match divF a b with
    | .num v u => if b.u ≠ .none ∧ a.u ≠ b.u then .unsupported else .val ⟨v, u⟩
    | _ => .unsupported

/-- text of a value as `Formatted<Value>` prints it; `showQ` prints a number -/
def printV (q : CalcQuirks) (showQ : Q α → String) : V α → String
  | .num x => showQ x
  | .var n => "var(--" ++ (if n = 0 then "x" else if n = 1 then "y" else "z") ++ ")"
  | .ident s => s
  | .paren v => "(" ++ printV q showQ v ++ ")"
  | .bin op a b =>
    let left := match a with
      | .bin opa _ _ =>
        if !q.dropsLeftParens && opa.prec < op.prec then "(" ++ printV q showQ a ++ ")" else printV q showQ a
      | _ => printV q showQ a
    match b with
    | .num x =>
      -- sign normalisation of a negative numeric right operand
      if isNeg x.v && op = .plus then left ++ " - " ++ showQ ⟨neg x.v, x.u⟩
      else if isNeg x.v && op = .minus then left ++ " + " ++ showQ ⟨neg x.v, x.u⟩
      else left ++ " " ++ op.text ++ " " ++ showQ x
    | .bin op2 _ _ =>
      let code := op2.rank < op.rank || (op = .minus && op2 = .minus)
      let need := op2.prec < op.prec || (op2.prec = op.prec && (op = .minus || op = .div))
      let right := if (if q.divRightAssoc then code else need) then "(" ++ printV q showQ b ++ ")"
                   else printV q showQ b
      left ++ " " ++ op.text ++ " " ++ right
    | _ => left ++ " " ++ op.text ++ " " ++ printV q showQ b

def isIdentV : V α → Bool
  | .ident _ => true
  | _ => false

/-- one operator applied to two evaluated operands (`Operator::eval`, then `css_fn_arg`) -/
def combine (q : CalcQuirks) (showQ : Q α → String) (op : Op) : V α → V α → R α
  | .num x, .num y =>
    match foldNum op x y with
    | .val z => .ok (.num z)
    | .keep => .ok (.bin op (.num x) (.num y))
    | .err => .err
    | .unsupported => .unsupported
  | va, vb =>
    if q.identPlusConcat && op = .plus && (isIdentV va || isIdentV vb) then
      .ok (.ident (printV q showQ va ++ printV q showQ vb))
    else .ok (.bin op va vb)

/-- bottom-up evaluation: SassScript evaluation of the argument + `do_eval` -/
def evalC (q : CalcQuirks) (showQ : Q α → String) : T α → R α
  | .num x => .ok (.num x)
  | .var n => .ok (.var n)
  | .ident s => .ok (.ident s)
  | .paren t =>
    match evalC q showQ t with
    | .ok (.var n) => .ok (.paren (.var n))
    | r => r
  | .bin op a b =>
    match evalC q showQ a, evalC q showQ b with
    | .err, _ => .err
    | _, .err => .err
    | .unsupported, _ => .unsupported
    | _, .unsupported => .unsupported
    | .ok va, .ok vb => combine q showQ op va vb

/-- the declaration value: a plain number when everything folded, else `calc(…)` -/
def calcText (q : CalcQuirks) (showQ : Q α → String) (t : T α) : String :=
  match evalC q showQ t with
  | .ok (.num x) => showQ x
  | .ok v => "calc(" ++ printV q showQ v ++ ")"
  | .err => "err"
  | .unsupported => "bad-op"

/-- Sass arithmetic on an all-numeric tree (the specification of folding): direct recursive
evaluation, parentheses only group -/
def arith : T α → Option (Q α)
  | .num x => some x
  | .paren t => arith t
  | .bin op a b =>
    match arith a, arith b with
    | some x, some y => match foldNum op x y with
      | .val z => some z
      | _ => none
    | _, _ => none
  | _ => none

end Calc
