/-
C30 — the character text of the specification printer is the concatenation of the token texts
of `toksV` (operators written ` op `, parentheses tight).  Proof-only file.
-/
import RsassModel.Calc.LemmasRead
namespace Calc
open MathFn
variable {α : Type} [AOps α]
open MOps AOps

def tokText (showQ : Q α → String) : Tok α → String
  | .atom v => printV spec showQ v
  | .op o => " " ++ o.text ++ " "
  | .lp => "("
  | .rp => ")"

def render (showQ : Q α → String) : List (Tok α) → String
  | [] => ""
  | t :: ts => tokText showQ t ++ render showQ ts

theorem render_append (showQ : Q α → String) (a b : List (Tok α)) :
    render showQ (a ++ b) = render showQ a ++ render showQ b := by
  induction a with
  | nil => simp [render]
  | cons t ts ih => simp [render, ih, String.append_assoc]

/-- the left-operand text of `printV`, as a function of the operand's own text -/
def leftStr (q : CalcQuirks) (op : Op) (a : V α) (pa : String) : String :=
  match a with
  | .bin opa _ _ => if !q.dropsLeftParens && opa.prec < op.prec then "(" ++ pa ++ ")" else pa
  | _ => pa

/-- the rest of `printV`'s `bin` case, as a function of the two operand texts -/
def binStr (q : CalcQuirks) (showQ : Q α → String) (op : Op) (b : V α) (left pb : String) : String :=
  match b with
  | .num x =>
    if isNeg x.v && op = .plus then left ++ " - " ++ showQ ⟨neg x.v, x.u⟩
    else if isNeg x.v && op = .minus then left ++ " + " ++ showQ ⟨neg x.v, x.u⟩
    else left ++ " " ++ op.text ++ " " ++ showQ x
  | .bin op2 _ _ =>
    let code := op2.rank < op.rank || (op = .minus && op2 = .minus)
    let need := op2.prec < op.prec || (op2.prec = op.prec && (op = .minus || op = .div))
    let right := if (if q.divRightAssoc then code else need) then "(" ++ pb ++ ")" else pb
    left ++ " " ++ op.text ++ " " ++ right
  | _ => left ++ " " ++ op.text ++ " " ++ pb

theorem printV_bin (q : CalcQuirks) (showQ : Q α → String) (op : Op) (a b : V α) :
    printV q showQ (.bin op a b)
      = binStr q showQ op b (leftStr q op a (printV q showQ a)) (printV q showQ b) := by
  cases a <;> cases b <;> rfl

/-- the same decomposition of `toksV` -/
def binToks (op : Op) (b : V α) (left tb : List (Tok α)) : List (Tok α) :=
  match b with
  | .num x =>
    if isNeg x.v && op = .plus then left ++ [.op .minus] ++ [.atom (.num ⟨neg x.v, x.u⟩)]
    else if isNeg x.v && op = .minus then left ++ [.op .plus] ++ [.atom (.num ⟨neg x.v, x.u⟩)]
    else left ++ [.op op] ++ [.atom (.num x)]
  | .bin op2 _ _ => left ++ [.op op] ++ (if needR op op2 then [.lp] ++ tb ++ [.rp] else tb)
  | _ => left ++ [.op op] ++ tb

theorem toksV_bin (op : Op) (a b : V α) :
    toksV (.bin op a b) = binToks op b (leftToks op a (toksV a)) (toksV b) := by
  cases b <;> rfl

theorem leftStr_render (showQ : Q α → String) (op : Op) (a : V α) :
    leftStr spec op a (render showQ (toksV a)) = render showQ (leftToks op a (toksV a)) := by
  cases a with
  | bin opa x y =>
    simp only [leftStr, leftToks, spec, Bool.not_false, Bool.true_and, decide_eq_true_eq]
    by_cases h : opa.prec < op.prec
    · simp [h, render_append, render, tokText, String.append_assoc]
    · simp [h]
  | _ => rfl

theorem binStr_render (showQ : Q α → String) (op : Op) (b : V α) (left : List (Tok α))
    (hb : printV spec showQ b = render showQ (toksV b)) :
    binStr spec showQ op b (render showQ left) (render showQ (toksV b))
      = render showQ (binToks op b left (toksV b)) := by
  cases b with
  | num x =>
    simp only [binStr, binToks]
    by_cases h1 : (isNeg x.v && decide (op = Op.plus)) = true
    · simp [h1, render_append, render, tokText, printV, Op.text, String.append_assoc]
    · by_cases h2 : (isNeg x.v && decide (op = Op.minus)) = true
      · simp [h1, h2, render_append, render, tokText, printV, Op.text, String.append_assoc]
      · simp [h1, h2, render_append, render, tokText, printV, String.append_assoc]
  | bin op2 x y =>
    simp only [binStr, binToks, spec, Bool.false_eq_true, if_false, needR]
    by_cases hP : (op2.prec < op.prec ∨ op2.prec = op.prec ∧ (op = Op.minus ∨ op = Op.div))
    · simp [hP, render_append, render, tokText, String.append_assoc]
    · simp [hP, render_append, render, tokText, String.append_assoc]
  | var n => simp [binStr, binToks, render_append, render, tokText, String.append_assoc]
  | ident s => simp [binStr, binToks, render_append, render, tokText, String.append_assoc]
  | paren w => simp [binStr, binToks, render_append, render, tokText, String.append_assoc]

end Calc
