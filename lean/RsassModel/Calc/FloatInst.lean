/- `Float` instance of `Calc.AOps` (driver only). -/
import RsassModel.Calc.Model
import RsassModel.MathFn.FloatInst
namespace Calc

instance : AOps Float where
  add a b := a + b
  sub a b := a - b
  neg a := -a
  isNeg a := a.toBits >>> 63 == 1

end Calc
