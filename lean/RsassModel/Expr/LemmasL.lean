/- Helper lemmas for C15: the layered (rsass-style) parser — fuel monotonicity for every
quirk setting, and the print/parse invariants for the repaired setting `spec`. -/
import RsassModel.Expr.Lemmas
namespace Expr

theorem lMono (q : Quirks) : ∀ f : Nat,
    (∀ ts, singleValue q f ts ≠ .oof → singleValue q (f + 1) ts = singleValue q f ts) ∧
    (∀ k ts, layer q f k ts ≠ .oof → layer q (f + 1) k ts = layer q f k ts) ∧
    (∀ k a ts, foldLoop q f k a ts ≠ .oof → foldLoop q (f + 1) k a ts = foldLoop q f k a ts) := by
  intro f
  induction f with
  | zero => simp [singleValue, layer, foldLoop]
  | succ f ih =>
    obtain ⟨ih1, ih2, ih3⟩ := ih
    refine ⟨?_, ?_, ?_⟩
    · intro ts h
      match ts with
      | [] => simp [singleValue]
      | .num n :: r => simp [singleValue]
      | .tt :: r => simp [singleValue]
      | .ff :: r => simp [singleValue]
      | .rp :: r => simp [singleValue]
      | .bop o :: r => simp [singleValue]
      | .neg :: r =>
        have h' : singleValue q f r ≠ .oof := by
          intro hc; apply h; simp [singleValue, hc]
        simp [singleValue, ih1 r h']
      | .knot :: r =>
        have h' : singleValue q f r ≠ .oof := by
          intro hc; apply h; simp [singleValue, hc]
        simp [singleValue, ih1 r h']
      | .lp :: r =>
        have h' : layer q f 0 r ≠ .oof := by
          intro hc; apply h; simp [singleValue, hc]
        simp [singleValue, ih2 0 r h']
    · intro k ts h
      rw [layer]
      conv => rhs; rw [layer]
      by_cases hk : 6 ≤ k
      · simp only [hk, if_true]
        apply ih1
        intro hc; apply h; simp [layer, hk, hc]
      · simp only [hk, if_false]
        have h' : layer q f (k + 1) ts ≠ .oof := by
          intro hc; apply h; simp [layer, hk, hc]
        rw [ih2 _ ts h']
        cases hq : layer q f (k + 1) ts with
        | ok a r =>
          simp only []
          apply ih3
          intro hc; apply h; simp [layer, hk, hq, hc]
        | fail => rfl
        | oof => rfl
    · intro k a ts h
      match ts with
      | [] => simp [foldLoop]
      | .num n :: r => simp [foldLoop]
      | .tt :: r => simp [foldLoop]
      | .ff :: r => simp [foldLoop]
      | .rp :: r => simp [foldLoop]
      | .lp :: r => simp [foldLoop]
      | .neg :: r => simp [foldLoop]
      | .knot :: r => simp [foldLoop]
      | .bop o :: r =>
        rw [foldLoop]
        conv => rhs; rw [foldLoop]
        by_cases hp : rsLvl q o = k
        · simp only [hp, if_true]
          have h' : layer q f (rhsLayer q k) r ≠ .oof := by
            intro hc; apply h; simp [foldLoop, hp, hc]
          rw [ih2 _ r h']
          cases hq : layer q f (rhsLayer q k) r with
          | ok b r' =>
            simp only []
            apply ih3
            intro hc; apply h; simp [foldLoop, hp, hq, hc]
          | fail => rfl
          | oof => rfl
        · simp [hp]

theorem singleValue_mono (q : Quirks) {f g : Nat} (h : f ≤ g) (ts : List Tok)
    (hn : singleValue q f ts ≠ .oof) : singleValue q g ts = singleValue q f ts := by
  induction h with
  | refl => rfl
  | step _ ih => rw [(lMono q _).1 ts (by rw [ih]; exact hn), ih]

theorem layer_mono (q : Quirks) {f g : Nat} (h : f ≤ g) (k : Nat) (ts : List Tok)
    (hn : layer q f k ts ≠ .oof) : layer q g k ts = layer q f k ts := by
  induction h with
  | refl => rfl
  | step _ ih => rw [(lMono q _).2.1 k ts (by rw [ih]; exact hn), ih]

theorem foldLoop_mono (q : Quirks) {f g : Nat} (h : f ≤ g) (k : Nat) (a : Ex) (ts : List Tok)
    (hn : foldLoop q f k a ts ≠ .oof) : foldLoop q g k a ts = foldLoop q f k a ts := by
  induction h with
  | refl => rfl
  | step _ ih => rw [(lMono q _).2.2 k a ts (by rw [ih]; exact hn), ih]


/-! ### the layering inverts `printMin` on every tree whose operators sit on their Sass
level under the quirk setting (`Clean q e`): all trees for `spec`, the trees without
`and`/`or`/`==`/`!=` for `asis` -/

/-- every operator of `e` is folded by the layer of its Sass level and its right operand is
parsed by the next tighter layer -/
def Clean (q : Quirks) : Ex → Prop
  | .bin o a b => rsLvl q o = lvl o ∧ rhsLayer q (lvl o) = lvl o + 1 ∧ Clean q a ∧ Clean q b
  | .neg e => Clean q e
  | .not e => Clean q e
  | _ => True

/-- the token list does not start with a binary operator of level ≥ `p`, and if it starts
with an operator at all that operator sits on its Sass level -/
def okAtQ (q : Quirks) (p : Nat) : List Tok → Prop
  | .bop o :: _ => lvl o < p ∧ rsLvl q o = lvl o
  | _ => True

theorem okAtQ_mono (q : Quirks) {p p' : Nat} (h : p ≤ p') : ∀ ts, okAtQ q p ts → okAtQ q p' ts
  | [], _ => trivial
  | .bop o :: _, h' => ⟨Nat.lt_of_lt_of_le h'.1 h, h'.2⟩
  | .num _ :: _, _ => trivial
  | .tt :: _, _ => trivial
  | .ff :: _, _ => trivial
  | .lp :: _, _ => trivial
  | .rp :: _, _ => trivial
  | .neg :: _, _ => trivial
  | .knot :: _, _ => trivial


theorem rsLvl_spec (o : BOp) : rsLvl spec o = lvl o := by cases o <;> rfl
theorem rhsLayer_spec (k : Nat) : rhsLayer spec k = k + 1 := by simp [rhsLayer, spec]

theorem clean_spec : ∀ e : Ex, Clean spec e
  | .num _ => trivial
  | .bool _ => trivial
  | .neg e => clean_spec e
  | .not e => clean_spec e
  | .bin o a b => ⟨rsLvl_spec o, rhsLayer_spec _, clean_spec a, clean_spec b⟩

theorem okAtQ_spec (p : Nat) : ∀ ts, okAt p ts → okAtQ spec p ts
  | [], _ => trivial
  | .bop o :: _, h => ⟨h, rsLvl_spec o⟩
  | .num _ :: _, _ => trivial
  | .tt :: _, _ => trivial
  | .ff :: _, _ => trivial
  | .lp :: _, _ => trivial
  | .rp :: _, _ => trivial
  | .neg :: _, _ => trivial
  | .knot :: _, _ => trivial

theorem foldLoop_stop (q : Quirks) (g k : Nat) (a : Ex) :
    ∀ ts, okAtQ q k ts → foldLoop q (g + 1) k a ts = .ok a ts
  | [], _ => by simp [foldLoop]
  | .bop o :: r, h => by
    have : ¬ rsLvl q o = k := by simp [okAtQ] at h; omega
    simp [foldLoop, this]
  | .num _ :: _, _ => by simp [foldLoop]
  | .tt :: _, _ => by simp [foldLoop]
  | .ff :: _, _ => by simp [foldLoop]
  | .lp :: _, _ => by simp [foldLoop]
  | .rp :: _, _ => by simp [foldLoop]
  | .neg :: _, _ => by simp [foldLoop]
  | .knot :: _, _ => by simp [foldLoop]

theorem layer_pos {q : Quirks} {f k : Nat} {ts : List Tok} {e : Ex} {rest : List Tok}
    (h : layer q f k ts = .ok e rest) : 1 ≤ f := by
  cases f with
  | zero => simp [layer] at h
  | succ f => omega

theorem foldLoop_pos {q : Quirks} {g k : Nat} {a : Ex} {ts : List Tok} {r : PR}
    (h : foldLoop q g k a ts = r) (hr : r ≠ .oof) : 1 ≤ g := by
  cases g with
  | zero => simp [foldLoop] at h; exact absurd h.symm hr
  | succ g => omega

/-- a result of layer `j` whose rest does not start with an operator of level ≥ `k` is
also the result of every looser layer `k ≤ j` -/
theorem layer_lift {q : Quirks} {f j : Nat} {ts : List Tok} {e : Ex} {rest : List Tok}
    (h : layer q f j ts = .ok e rest) (hj : j ≤ 6) :
    ∀ d k, k + d = j → okAtQ q k rest → layer q (f + d) k ts = .ok e rest := by
  intro d
  induction d with
  | zero => intro k hk _; simp at hk; subst hk; exact h
  | succ d ih =>
    intro k hk hok
    have hf := layer_pos h
    have h1 := ih (k + 1) (by omega) (okAtQ_mono q (by omega) rest hok)
    have hk6 : ¬ 6 ≤ k := by omega
    obtain ⟨f0, rfl⟩ : ∃ f0, f = f0 + 1 := ⟨f - 1, by omega⟩
    have e1 : f0 + 1 + (d + 1) = (f0 + 1 + d) + 1 := by omega
    rw [e1, layer]
    simp only [hk6, if_false, h1]
    have e2 : f0 + 1 + d = (f0 + d) + 1 := by omega
    rw [e2]
    exact foldLoop_stop q _ k e rest hok

/-- invariants of `parseRsass_spec_printMin` -/
def GoodL (q : Quirks) (e : Ex) : Prop :=
  (prec e = 6 → ∀ rest f, 8 * (printMin e).length ≤ f →
      singleValue q f (printMin e ++ rest) = .ok e rest) ∧
  (prec e < 6 → ∀ rest g r f, okAtQ q (prec e + 1) rest → foldLoop q g (prec e) e rest = r →
      r ≠ .oof → g + 8 * (printMin e).length ≤ f → layer q f (prec e) (printMin e ++ rest) = r)

/-- every layer not tighter than the expression reads it back, when what follows is not an
operator that the layer (or a tighter one) would fold -/
theorem goodL_layer {q : Quirks} {e : Ex} (he : GoodL q e) (k : Nat) (rest : List Tok) (f : Nat)
    (hk : k ≤ prec e) (hok : okAtQ q k rest) (hf : 8 * (printMin e).length + 8 ≤ f) :
    layer q f k (printMin e ++ rest) = .ok e rest := by
  have h6 := prec_le e
  have hl := printMin_pos e
  by_cases hp : prec e = 6
  · have h0 : layer q (8 * (printMin e).length + 1) (prec e) (printMin e ++ rest) = .ok e rest := by
      rw [layer, hp]; simp only [Nat.le_refl, if_true]
      exact he.1 hp rest _ (Nat.le_refl _)
    have h1 := layer_lift h0 h6 (prec e - k) k (by omega) hok
    rw [layer_mono q (f := 8 * (printMin e).length + 1 + (prec e - k)) (by omega) k _
      (by rw [h1]; simp), h1]
  · have h0 : layer q (1 + 8 * (printMin e).length) (prec e) (printMin e ++ rest) = .ok e rest :=
      he.2 (by omega) rest 1 _ _ (okAtQ_mono q (by omega) rest hok)
        (foldLoop_stop q 0 _ e rest (okAtQ_mono q hk rest hok)) (by simp) (Nat.le_refl _)
    have h1 := layer_lift h0 h6 (prec e - k) k (by omega) hok
    rw [layer_mono q (f := 1 + 8 * (printMin e).length + (prec e - k)) (by omega) k _
      (by rw [h1]; simp), h1]

/-- an operand printed with or without parentheses -/
theorem goodL_wrap {q : Quirks} {e : Ex} (he : GoodL q e) (b : Bool) (k : Nat) (rest : List Tok) (f : Nat)
    (hk6 : k ≤ 6) (hok : okAtQ q k rest) (hb : b = false → k ≤ prec e)
    (hf : 8 * (wrap b (printMin e)).length + 8 ≤ f) :
    layer q f k (wrap b (printMin e) ++ rest) = .ok e rest := by
  cases b with
  | false =>
    simp only [wrap] at hf ⊢
    exact goodL_layer he k rest f (hb rfl) hok (by simpa using hf)
  | true =>
    have hl : (wrap true (printMin e)).length = (printMin e).length + 2 := by simp [wrap]
    rw [hl] at hf
    have hin : layer q (8 * (printMin e).length + 8) 0 (printMin e ++ Tok.rp :: rest)
        = .ok e (Tok.rp :: rest) :=
      goodL_layer he 0 _ _ (Nat.zero_le _) trivial (Nat.le_refl _)
    have h0 : layer q (8 * (printMin e).length + 8 + 2) 6 (Tok.lp :: (printMin e ++ Tok.rp :: rest))
        = .ok e rest := by
      rw [layer]; simp only [Nat.le_refl, if_true]
      rw [singleValue, hin]
    have h1 := layer_lift h0 (Nat.le_refl _) (6 - k) k (by omega) hok
    simp only [wrap, if_true, List.cons_append, List.append_assoc, List.nil_append]
    rw [layer_mono q (f := 8 * (printMin e).length + 8 + 2 + (6 - k)) (by omega) k _
      (by rw [h1]; simp), h1]

/-- the operand of a unary operator -/
theorem goodL_prim_wrap {q : Quirks} {e : Ex} (he : GoodL q e) (rest : List Tok) (f : Nat)
    (hf : 8 * (wrap (decide (prec e < 6)) (printMin e)).length ≤ f) :
    singleValue q f (wrap (decide (prec e < 6)) (printMin e) ++ rest) = .ok e rest := by
  by_cases h : prec e < 6
  · have hl : (wrap true (printMin e)).length = (printMin e).length + 2 := by simp [wrap]
    simp only [h, decide_true] at hf ⊢
    rw [hl] at hf
    obtain ⟨f2, rfl⟩ : ∃ f2, f = f2 + 1 := ⟨f - 1, by omega⟩
    have hin : layer q f2 0 (printMin e ++ Tok.rp :: rest) = .ok e (Tok.rp :: rest) :=
      goodL_layer he 0 _ _ (Nat.zero_le _) trivial (by omega)
    simp only [wrap, if_true, List.cons_append, List.append_assoc, List.nil_append]
    rw [singleValue, hin]
  · have h6 : prec e = 6 := by have := prec_le e; omega
    simp only [h, decide_false, wrap] at hf ⊢
    exact he.1 h6 rest f (by simpa using hf)

theorem goodL_all (q : Quirks) : ∀ e : Ex, Clean q e → GoodL q e := by
  intro e
  induction e with
  | num n =>
    intro _
    refine ⟨?_, fun h => absurd h (by simp [prec])⟩
    intro _ rest f hf
    have hl : (printMin (.num n)).length = 1 := rfl
    obtain ⟨f1, rfl⟩ : ∃ f1, f = f1 + 1 := ⟨f - 1, by omega⟩
    simp [printMin, singleValue]
  | bool v =>
    intro _
    refine ⟨?_, fun h => absurd h (by simp [prec])⟩
    intro _ rest f hf
    have hl : (printMin (.bool v)).length = 1 := by cases v <;> rfl
    obtain ⟨f1, rfl⟩ : ∃ f1, f = f1 + 1 := ⟨f - 1, by omega⟩
    cases v <;> simp [printMin, singleValue]
  | neg e1 ih =>
    intro hcl
    have ih := ih hcl
    refine ⟨?_, fun h => absurd h (by simp [prec])⟩
    intro _ rest f hf
    have hl : (printMin (.neg e1)).length = (wrap (decide (prec e1 < 6)) (printMin e1)).length + 1 := by
      simp [printMin]
    obtain ⟨f1, rfl⟩ : ∃ f1, f = f1 + 1 := ⟨f - 1, by omega⟩
    simp only [printMin, List.cons_append]
    rw [singleValue, goodL_prim_wrap ih rest f1 (by omega)]
  | not e1 ih =>
    intro hcl
    have ih := ih hcl
    refine ⟨?_, fun h => absurd h (by simp [prec])⟩
    intro _ rest f hf
    have hl : (printMin (.not e1)).length = (wrap (decide (prec e1 < 6)) (printMin e1)).length + 1 := by
      simp [printMin]
    obtain ⟨f1, rfl⟩ : ∃ f1, f = f1 + 1 := ⟨f - 1, by omega⟩
    simp only [printMin, List.cons_append]
    rw [singleValue, goodL_prim_wrap ih rest f1 (by omega)]
  | bin o a b iha ihb =>
    intro hcl
    obtain ⟨hco, hcr, hca, hcb⟩ := hcl
    have iha := iha hca
    have ihb := ihb hcb
    refine ⟨fun h => absurd h (by cases o <;> simp [prec, lvl]), ?_⟩
    intro hlt rest g r f hok hc hr hf
    have hg := foldLoop_pos hc hr
    simp only [prec] at hlt hok hc ⊢
    generalize hWA : wrap (decide (prec a < lvl o)) (printMin a) = WA at *
    generalize hWB : wrap (decide (prec b < lvl o + 1)) (printMin b) = WB at *
    have hl : (printMin (.bin o a b)).length = WA.length + 1 + WB.length := by
      simp [printMin, hWA, hWB]; omega
    rw [hl] at hf
    have hpm : printMin (.bin o a b) ++ rest = WA ++ (Tok.bop o :: (WB ++ rest)) := by
      simp [printMin, hWA, hWB]
    rw [hpm]
    have hWBpos : 1 ≤ WB.length := by
      rw [← hWB]; have := printMin_pos b
      cases (decide (prec b < lvl o + 1)) <;> simp [wrap] <;> omega
    have hWApos : 1 ≤ WA.length := by
      rw [← hWA]; have := printMin_pos a
      cases (decide (prec a < lvl o)) <;> simp [wrap] <;> omega
    -- step 1: the right operand, by the next tighter layer
    have h1 : ∀ f1, 8 * WB.length + 8 ≤ f1 → layer q f1 (lvl o + 1) (WB ++ rest) = .ok b rest := by
      intro f1 hf1
      rw [← hWB]
      apply goodL_wrap ihb _ (lvl o + 1) rest f1 (by omega) hok
      · intro hb
        have : ¬ prec b < lvl o + 1 := by simpa using hb
        omega
      · rw [hWB]; exact hf1
    -- step 2: one iteration of the fold
    have h2 : foldLoop q (max g (8 * WB.length + 8) + 1) (lvl o) a (Tok.bop o :: (WB ++ rest)) = r := by
      rw [foldLoop]
      simp only [hco, if_true, hcr]
      rw [h1 _ (Nat.le_max_right _ _)]
      simp only []
      rw [foldLoop_mono q (f := g) (Nat.le_max_left _ _) _ _ rest (by rw [hc]; exact hr), hc]
    -- step 3: the left operand
    by_cases hpa : prec a = lvl o
    · -- same level, unparenthesised: the fold of this very layer continues
      have hw : WA = printMin a := by rw [← hWA]; simp [hpa, wrap]
      rw [hw] at hf ⊢
      have := iha.2 (by omega) (Tok.bop o :: (WB ++ rest)) _ r f (by simp [okAtQ, hco]; omega)
        (by rw [hpa]; exact h2) hr (by omega)
      rw [hpa] at this
      exact this
    · obtain ⟨f1, rfl⟩ : ∃ f1, f = f1 + 1 := ⟨f - 1, by omega⟩
      have hk6 : ¬ 6 ≤ lvl o := by omega
      rw [layer]
      simp only [hk6, if_false]
      have h3 : layer q f1 (lvl o + 1) (WA ++ Tok.bop o :: (WB ++ rest)) =
          .ok a (Tok.bop o :: (WB ++ rest)) := by
        rw [← hWA]
        apply goodL_wrap iha _ (lvl o + 1) _ f1 (by omega) (by simp [okAtQ, hco])
        · intro hb
          have : ¬ prec a < lvl o := by simpa using hb
          omega
        · rw [hWA]; omega
      rw [h3]
      simp only []
      rw [foldLoop_mono q (f := max g (8 * WB.length + 8) + 1) (by omega) _ _ _
        (by rw [h2]; exact hr), h2]

end Expr
