/- Helper lemmas for C15: fuel monotonicity of the two parsers. -/
import RsassModel.Expr.Prec
namespace Expr

theorem sMono : ∀ f : Nat,
    (∀ ts, sPrimary f ts ≠ .oof → sPrimary (f + 1) ts = sPrimary f ts) ∧
    (∀ p ts, sExpr f p ts ≠ .oof → sExpr (f + 1) p ts = sExpr f p ts) ∧
    (∀ p a ts, sClimb f p a ts ≠ .oof → sClimb (f + 1) p a ts = sClimb f p a ts) := by
  intro f
  induction f with
  | zero => simp [sPrimary, sExpr, sClimb]
  | succ f ih =>
    obtain ⟨ih1, ih2, ih3⟩ := ih
    refine ⟨?_, ?_, ?_⟩
    · intro ts h
      match ts with
      | [] => simp [sPrimary]
      | .num n :: r => simp [sPrimary]
      | .tt :: r => simp [sPrimary]
      | .ff :: r => simp [sPrimary]
      | .rp :: r => simp [sPrimary]
      | .bop o :: r => simp [sPrimary]
      | .neg :: r =>
        have h' : sPrimary f r ≠ .oof := by
          intro hc; apply h; simp [sPrimary, hc]
        simp [sPrimary, ih1 r h']
      | .knot :: r =>
        have h' : sPrimary f r ≠ .oof := by
          intro hc; apply h; simp [sPrimary, hc]
        simp [sPrimary, ih1 r h']
      | .lp :: r =>
        have h' : sExpr f 0 r ≠ .oof := by
          intro hc; apply h; simp [sPrimary, hc]
        simp [sPrimary, ih2 0 r h']
    · intro p ts h
      have h' : sPrimary f ts ≠ .oof := by
        intro hc; apply h; simp [sExpr, hc]
      rw [sExpr, ih1 ts h']
      conv => rhs; rw [sExpr]
      cases hq : sPrimary f ts with
      | ok a r =>
        simp only []
        apply ih3
        intro hc; apply h; simp [sExpr, hq, hc]
      | fail => rfl
      | oof => rfl
    · intro p a ts h
      match ts with
      | [] => simp [sClimb]
      | .num n :: r => simp [sClimb]
      | .tt :: r => simp [sClimb]
      | .ff :: r => simp [sClimb]
      | .rp :: r => simp [sClimb]
      | .lp :: r => simp [sClimb]
      | .neg :: r => simp [sClimb]
      | .knot :: r => simp [sClimb]
      | .bop o :: r =>
        rw [sClimb]
        conv => rhs; rw [sClimb]
        by_cases hp : p ≤ lvl o
        · simp only [hp, if_true]
          have h' : sExpr f (lvl o + 1) r ≠ .oof := by
            intro hc; apply h; simp [sClimb, hp, hc]
          rw [ih2 _ r h']
          cases hq : sExpr f (lvl o + 1) r with
          | ok b r' =>
            simp only []
            apply ih3
            intro hc; apply h; simp [sClimb, hp, hq, hc]
          | fail => rfl
          | oof => rfl
        · simp [hp]


theorem sPrimary_mono {f g : Nat} (h : f ≤ g) (ts : List Tok) (hn : sPrimary f ts ≠ .oof) :
    sPrimary g ts = sPrimary f ts := by
  induction h with
  | refl => rfl
  | step _ ih => rw [(sMono _).1 ts (by rw [ih]; exact hn), ih]

theorem sExpr_mono {f g : Nat} (h : f ≤ g) (p : Nat) (ts : List Tok) (hn : sExpr f p ts ≠ .oof) :
    sExpr g p ts = sExpr f p ts := by
  induction h with
  | refl => rfl
  | step _ ih => rw [(sMono _).2.1 p ts (by rw [ih]; exact hn), ih]

theorem sClimb_mono {f g : Nat} (h : f ≤ g) (p : Nat) (a : Ex) (ts : List Tok)
    (hn : sClimb f p a ts ≠ .oof) : sClimb g p a ts = sClimb f p a ts := by
  induction h with
  | refl => rfl
  | step _ ih => rw [(sMono _).2.2 p a ts (by rw [ih]; exact hn), ih]

/-- the token list does not start with a binary operator of level ≥ `p` -/
def okAt (p : Nat) : List Tok → Prop
  | .bop o :: _ => lvl o < p
  | _ => True

theorem okAt_mono {p q : Nat} (h : p ≤ q) : ∀ ts, okAt p ts → okAt q ts
  | [], _ => trivial
  | .bop o :: _, h' => Nat.lt_of_lt_of_le h' h
  | .num _ :: _, _ => trivial
  | .tt :: _, _ => trivial
  | .ff :: _, _ => trivial
  | .lp :: _, _ => trivial
  | .rp :: _, _ => trivial
  | .neg :: _, _ => trivial
  | .knot :: _, _ => trivial

theorem sClimb_stop (g p : Nat) (a : Ex) : ∀ ts, okAt p ts → sClimb (g + 1) p a ts = .ok a ts
  | [], _ => by simp [sClimb]
  | .bop o :: r, h => by
    have : ¬ p ≤ lvl o := by simp [okAt] at h; omega
    simp [sClimb, this]
  | .num _ :: _, _ => by simp [sClimb]
  | .tt :: _, _ => by simp [sClimb]
  | .ff :: _, _ => by simp [sClimb]
  | .lp :: _, _ => by simp [sClimb]
  | .rp :: _, _ => by simp [sClimb]
  | .neg :: _, _ => by simp [sClimb]
  | .knot :: _, _ => by simp [sClimb]

/-- the two induction invariants of `parseSass_printMin` -/
def Good (e : Ex) : Prop :=
  (prec e = 6 → ∀ rest f, 2 * (printMin e).length ≤ f →
      sPrimary f (printMin e ++ rest) = .ok e rest) ∧
  (∀ p rest g r f, p ≤ prec e → okAt (prec e + 1) rest → sClimb g p e rest = r → r ≠ .oof →
      g + 2 * (printMin e).length ≤ f → sExpr f p (printMin e ++ rest) = r)

theorem sClimb_pos {g p : Nat} {a : Ex} {ts : List Tok} {r : PR}
    (h : sClimb g p a ts = r) (hr : r ≠ .oof) : 1 ≤ g := by
  cases g with
  | zero => simp [sClimb] at h; exact absurd h.symm hr
  | succ g => omega

theorem wrap_length (b : Bool) (ts : List Tok) :
    (wrap b ts).length = ts.length + (if b then 2 else 0) := by
  cases b <;> simp [wrap]

/-- an operand printed with or without parentheses, followed by `rest` -/
theorem good_wrap {e : Ex} (he : Good e) (b : Bool) (p : Nat) (rest : List Tok) (g : Nat) (r : PR)
    (f : Nat) (hb : b = false → p ≤ prec e ∧ okAt (prec e + 1) rest)
    (hc : sClimb g p e rest = r) (hr : r ≠ .oof)
    (hf : g + 2 * (wrap b (printMin e)).length ≤ f) :
    sExpr f p (wrap b (printMin e) ++ rest) = r := by
  have hg := sClimb_pos hc hr
  cases b with
  | false =>
    obtain ⟨h1, h2⟩ := hb rfl
    simp only [wrap] at hf ⊢
    exact he.2 p rest g r f h1 h2 hc hr (by simpa using hf)
  | true =>
    have hl : (wrap true (printMin e)).length = (printMin e).length + 2 := by simp [wrap]
    rw [hl] at hf
    obtain ⟨f2, rfl⟩ : ∃ f2, f = f2 + 2 := ⟨f - 2, by omega⟩
    have hin : sExpr f2 0 (printMin e ++ Tok.rp :: rest) = .ok e (Tok.rp :: rest) :=
      he.2 0 (Tok.rp :: rest) 1 _ f2 (Nat.zero_le _) trivial
        (sClimb_stop 0 0 e _ trivial) (by simp) (by omega)
    have hcl : sClimb (f2 + 1) p e rest = r := by
      rw [sClimb_mono (f := g) (by omega) p e rest (by rw [hc]; exact hr), hc]
    simp only [wrap, if_true, List.cons_append, List.append_assoc, List.nil_append]
    rw [sExpr, sPrimary, hin]
    exact hcl

theorem prec_le (e : Ex) : prec e ≤ 6 := by
  cases e with
  | bin o a b => cases o <;> simp [prec, lvl]
  | _ => simp [prec]

theorem printMin_pos (e : Ex) : 1 ≤ (printMin e).length := by
  cases e with
  | num n => simp [printMin]
  | bool v => cases v <;> simp [printMin]
  | neg e => simp [printMin]
  | not e => simp [printMin]
  | bin o a b => simp [printMin]; omega

/-- for unary expressions and atoms the second invariant follows from the first -/
theorem good_of_prim {e : Ex}
    (hA : ∀ rest f, 2 * (printMin e).length ≤ f → sPrimary f (printMin e ++ rest) = .ok e rest) :
    Good e := by
  refine ⟨fun _ => hA, ?_⟩
  intro p rest g r f _ _ hc hr hf
  have hg := sClimb_pos hc hr
  have hl := printMin_pos e
  obtain ⟨f1, rfl⟩ : ∃ f1, f = f1 + 1 := ⟨f - 1, by omega⟩
  rw [sExpr, hA rest f1 (by omega)]
  simp only []
  rw [sClimb_mono (f := g) (by omega) p e rest (by rw [hc]; exact hr), hc]

/-- the operand of a unary operator: parenthesised iff it is a binary operation -/
theorem good_prim_wrap {e : Ex} (he : Good e) (rest : List Tok) (f : Nat)
    (hf : 2 * (wrap (decide (prec e < 6)) (printMin e)).length ≤ f) :
    sPrimary f (wrap (decide (prec e < 6)) (printMin e) ++ rest) = .ok e rest := by
  by_cases h : prec e < 6
  · have hl : (wrap true (printMin e)).length = (printMin e).length + 2 := by simp [wrap]
    simp only [h, decide_true] at hf ⊢
    rw [hl] at hf
    obtain ⟨f2, rfl⟩ : ∃ f2, f = f2 + 1 := ⟨f - 1, by omega⟩
    have hin : sExpr f2 0 (printMin e ++ Tok.rp :: rest) = .ok e (Tok.rp :: rest) :=
      he.2 0 (Tok.rp :: rest) 1 _ f2 (Nat.zero_le _) trivial
        (sClimb_stop 0 0 e _ trivial) (by simp) (by omega)
    simp only [wrap, if_true, List.cons_append, List.append_assoc, List.nil_append]
    rw [sPrimary, hin]
  · have h6 : prec e = 6 := by have := prec_le e; omega
    simp only [h, decide_false, wrap] at hf ⊢
    exact he.1 h6 rest f (by simpa using hf)

theorem good_all : ∀ e : Ex, Good e := by
  intro e
  induction e with
  | num n =>
    have hl : (printMin (.num n)).length = 1 := rfl
    refine ⟨?_, ?_⟩
    · intro _ rest f hf
      obtain ⟨f1, rfl⟩ : ∃ f1, f = f1 + 1 := ⟨f - 1, by omega⟩
      simp [printMin, sPrimary]
    · intro p rest g r f _ _ hc hr hf
      have hg := sClimb_pos hc hr
      obtain ⟨f2, rfl⟩ : ∃ f2, f = f2 + 2 := ⟨f - 2, by omega⟩
      simp only [printMin, List.cons_append, List.nil_append, sExpr, sPrimary]
      rw [sClimb_mono (f := g) (by omega) p _ rest (by rw [hc]; exact hr), hc]
  | bool v =>
    have hl : (printMin (.bool v)).length = 1 := by cases v <;> rfl
    refine ⟨?_, ?_⟩
    · intro _ rest f hf
      obtain ⟨f1, rfl⟩ : ∃ f1, f = f1 + 1 := ⟨f - 1, by omega⟩
      cases v <;> simp [printMin, sPrimary]
    · intro p rest g r f _ _ hc hr hf
      have hg := sClimb_pos hc hr
      obtain ⟨f2, rfl⟩ : ∃ f2, f = f2 + 2 := ⟨f - 2, by omega⟩
      have hm : sClimb (f2 + 1) p (.bool v) rest = r := by
        rw [sClimb_mono (f := g) (by omega) p _ rest (by rw [hc]; exact hr), hc]
      cases v <;> simp only [printMin, List.cons_append, List.nil_append, sExpr, sPrimary] <;> exact hm
  | neg e1 ih =>
    apply good_of_prim
    intro rest f hf
    have hl : (printMin (.neg e1)).length = (wrap (decide (prec e1 < 6)) (printMin e1)).length + 1 := by
      simp [printMin]
    obtain ⟨f1, rfl⟩ : ∃ f1, f = f1 + 1 := ⟨f - 1, by omega⟩
    simp only [printMin, List.cons_append]
    rw [sPrimary, good_prim_wrap ih rest f1 (by omega)]
  | not e1 ih =>
    apply good_of_prim
    intro rest f hf
    have hl : (printMin (.not e1)).length = (wrap (decide (prec e1 < 6)) (printMin e1)).length + 1 := by
      simp [printMin]
    obtain ⟨f1, rfl⟩ : ∃ f1, f = f1 + 1 := ⟨f - 1, by omega⟩
    simp only [printMin, List.cons_append]
    rw [sPrimary, good_prim_wrap ih rest f1 (by omega)]
  | bin o a b iha ihb =>
    refine ⟨fun h => absurd h (by cases o <;> simp [prec, lvl]), ?_⟩
    intro p rest g r f hp hok hc hr hf
    have hg := sClimb_pos hc hr
    simp only [prec] at hp hok
    -- abbreviations
    generalize hWA : wrap (decide (prec a < lvl o)) (printMin a) = WA at *
    generalize hWB : wrap (decide (prec b < lvl o + 1)) (printMin b) = WB at *
    have hl : (printMin (.bin o a b)).length = WA.length + 1 + WB.length := by
      simp [printMin, hWA, hWB]; omega
    rw [hl] at hf
    have hpm : printMin (.bin o a b) ++ rest = WA ++ (Tok.bop o :: (WB ++ rest)) := by
      simp [printMin, hWA, hWB]
    rw [hpm]
    -- step 1: the right operand
    have h1 : ∀ f1, 1 + 2 * WB.length ≤ f1 → sExpr f1 (lvl o + 1) (WB ++ rest) = .ok b rest := by
      intro f1 hf1
      rw [← hWB]
      apply good_wrap ihb _ (lvl o + 1) rest 1 _ f1
      · intro hb
        have : ¬ prec b < lvl o + 1 := by simpa using hb
        exact ⟨by omega, okAt_mono (by omega) rest hok⟩
      · exact sClimb_stop 0 _ b rest hok
      · simp
      · rw [hWB]; exact hf1
    -- step 2: one iteration of the climbing loop
    have h2 : sClimb (max g (1 + 2 * WB.length) + 1) p a (Tok.bop o :: (WB ++ rest)) = r := by
      rw [sClimb]
      simp only [hp, if_true]
      rw [h1 _ (Nat.le_max_right _ _)]
      simp only []
      rw [sClimb_mono (f := g) (Nat.le_max_left _ _) p _ rest (by rw [hc]; exact hr), hc]
    -- step 3: the left operand, followed by the operator
    rw [← hWA]
    apply good_wrap iha _ p _ _ r f _ h2 hr
    · rw [hWA]; omega
    · intro hb
      have : ¬ prec a < lvl o := by simpa using hb
      exact ⟨by omega, by simp [okAt]; omega⟩

end Expr
