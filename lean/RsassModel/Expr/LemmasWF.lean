/- C15, final proof round: both parsers read back EVERY well-formed token list (arbitrary
redundant parentheses), compositionally.  `ST`/`LT` are the invariants of `Lemmas.lean` /
`LemmasL.lean` with the token list and the level as parameters. -/
import RsassModel.Expr.LemmasL
namespace Expr

/-- well-formed token lists: `WF e ts p` — `ts` denotes `e` and may stand wherever an
operand of level ≤ `p` is allowed (6 = atom, unary, or anything in parentheses) -/
inductive WF : Ex → List Tok → Nat → Prop
  | num (n : Nat) : WF (.num n) [.num n] 6
  | tt : WF (.bool true) [.tt] 6
  | ff : WF (.bool false) [.ff] 6
  | neg {e ts} : WF e ts 6 → WF (.neg e) (.neg :: ts) 6
  | not {e ts} : WF e ts 6 → WF (.not e) (.knot :: ts) 6
  | paren {e ts p} : WF e ts p → WF e (.lp :: ts ++ [.rp]) 6
  | bin {o a b tsa tsb pa pb} : WF a tsa pa → WF b tsb pb → lvl o ≤ pa → lvl o + 1 ≤ pb →
      WF (.bin o a b) (tsa ++ .bop o :: tsb) (lvl o)

theorem lvl_le5 (o : BOp) : lvl o ≤ 5 := by cases o <;> simp [lvl]

theorem WF.le6 {e ts p} (h : WF e ts p) : p ≤ 6 := by
  cases h with
  | @bin o _ _ _ _ _ _ _ _ _ _ => exact Nat.le_trans (lvl_le5 o) (by omega)
  | _ => exact Nat.le_refl _

/-! ### the Sass grammar (precedence climbing) -/

def ST (e : Ex) (ts : List Tok) (p0 : Nat) : Prop :=
  1 ≤ ts.length ∧
  (p0 = 6 → ∀ rest f, 2 * ts.length ≤ f → sPrimary f (ts ++ rest) = .ok e rest) ∧
  (∀ p rest g r f, p ≤ p0 → okAt (p0 + 1) rest → sClimb g p e rest = r → r ≠ .oof →
      g + 2 * ts.length ≤ f → sExpr f p (ts ++ rest) = r)

theorem st_of_prim {e : Ex} {ts : List Tok} (hl : 1 ≤ ts.length)
    (hA : ∀ rest f, 2 * ts.length ≤ f → sPrimary f (ts ++ rest) = .ok e rest) : ST e ts 6 := by
  refine ⟨hl, fun _ => hA, ?_⟩
  intro p rest g r f _ _ hc hr hf
  have hg := sClimb_pos hc hr
  obtain ⟨f1, rfl⟩ : ∃ f1, f = f1 + 1 := ⟨f - 1, by omega⟩
  rw [sExpr, hA rest f1 (by omega)]
  simp only []
  rw [sClimb_mono (f := g) (by omega) p e rest (by rw [hc]; exact hr), hc]

theorem st_paren {e : Ex} {ts : List Tok} {p0 : Nat} (he : ST e ts p0) :
    ST e (Tok.lp :: ts ++ [Tok.rp]) 6 := by
  apply st_of_prim (by simp)
  intro rest f hf
  have hl : (Tok.lp :: ts ++ [Tok.rp]).length = ts.length + 2 := by simp
  rw [hl] at hf
  obtain ⟨f2, rfl⟩ : ∃ f2, f = f2 + 1 := ⟨f - 1, by omega⟩
  have hin : sExpr f2 0 (ts ++ Tok.rp :: rest) = .ok e (Tok.rp :: rest) :=
    he.2.2 0 (Tok.rp :: rest) 1 _ f2 (Nat.zero_le _) trivial
      (sClimb_stop 0 0 e _ trivial) (by simp) (by omega)
  simp only [List.cons_append, List.append_assoc, List.nil_append]
  rw [sPrimary, hin]

theorem st_neg {e : Ex} {ts : List Tok} (he : ST e ts 6) : ST (.neg e) (Tok.neg :: ts) 6 := by
  apply st_of_prim (by simp)
  intro rest f hf
  have hl : (Tok.neg :: ts).length = ts.length + 1 := by simp
  rw [hl] at hf
  obtain ⟨f1, rfl⟩ : ∃ f1, f = f1 + 1 := ⟨f - 1, by omega⟩
  simp only [List.cons_append]
  rw [sPrimary, he.2.1 rfl rest f1 (by omega)]

theorem st_not {e : Ex} {ts : List Tok} (he : ST e ts 6) : ST (.not e) (Tok.knot :: ts) 6 := by
  apply st_of_prim (by simp)
  intro rest f hf
  have hl : (Tok.knot :: ts).length = ts.length + 1 := by simp
  rw [hl] at hf
  obtain ⟨f1, rfl⟩ : ∃ f1, f = f1 + 1 := ⟨f - 1, by omega⟩
  simp only [List.cons_append]
  rw [sPrimary, he.2.1 rfl rest f1 (by omega)]

theorem st_bin {o : BOp} {a b : Ex} {tsa tsb : List Tok} {pa pb : Nat}
    (ha : ST a tsa pa) (hb : ST b tsb pb) (hpa : lvl o ≤ pa) (hpb : lvl o + 1 ≤ pb) :
    ST (.bin o a b) (tsa ++ Tok.bop o :: tsb) (lvl o) := by
  have hla := ha.1
  have hlb := hb.1
  refine ⟨by simp; omega, fun h => absurd h (by cases o <;> simp [lvl]), ?_⟩
  intro p rest g r f hp hok hc hr hf
  have hg := sClimb_pos hc hr
  have hl : (tsa ++ Tok.bop o :: tsb).length = tsa.length + 1 + tsb.length := by simp; omega
  rw [hl] at hf
  have hpm : (tsa ++ Tok.bop o :: tsb) ++ rest = tsa ++ (Tok.bop o :: (tsb ++ rest)) := by simp
  rw [hpm]
  have h1 : ∀ f1, 1 + 2 * tsb.length ≤ f1 → sExpr f1 (lvl o + 1) (tsb ++ rest) = .ok b rest := by
    intro f1 hf1
    exact hb.2.2 (lvl o + 1) rest 1 _ f1 hpb (okAt_mono (by omega) rest hok)
      (sClimb_stop 0 _ b rest hok) (by simp) hf1
  have h2 : sClimb (max g (1 + 2 * tsb.length) + 1) p a (Tok.bop o :: (tsb ++ rest)) = r := by
    rw [sClimb]
    simp only [hp, if_true]
    rw [h1 _ (Nat.le_max_right _ _)]
    simp only []
    rw [sClimb_mono (f := g) (Nat.le_max_left _ _) p _ rest (by rw [hc]; exact hr), hc]
  exact ha.2.2 p _ _ r f (by omega) (by simp [okAt]; omega) h2 hr (by omega)

theorem st_of_wf : ∀ {e ts p}, WF e ts p → ST e ts p := by
  intro e ts p h
  induction h with
  | num n => exact st_of_prim (by simp) (fun rest f hf => by
      obtain ⟨f1, rfl⟩ : ∃ f1, f = f1 + 1 := ⟨f - 1, by simp at hf; omega⟩
      simp [sPrimary])
  | tt => exact st_of_prim (by simp) (fun rest f hf => by
      obtain ⟨f1, rfl⟩ : ∃ f1, f = f1 + 1 := ⟨f - 1, by simp at hf; omega⟩
      simp [sPrimary])
  | ff => exact st_of_prim (by simp) (fun rest f hf => by
      obtain ⟨f1, rfl⟩ : ∃ f1, f = f1 + 1 := ⟨f - 1, by simp at hf; omega⟩
      simp [sPrimary])
  | neg _ ih => exact st_neg ih
  | not _ ih => exact st_not ih
  | paren _ ih => exact st_paren ih
  | bin _ _ hpa hpb iha ihb => exact st_bin iha ihb hpa hpb

theorem parseSass_of_st {e : Ex} {ts : List Tok} {p : Nat} (h : ST e ts p) :
    parseSass ts = some e := by
  have h0 := h.2.2 0 [] 1 (.ok e []) (fuelFor ts) (Nat.zero_le _) trivial
    (sClimb_stop 0 0 e [] trivial) (by simp) (by simp [fuelFor]; omega)
  rw [List.append_nil] at h0
  simp [parseSass, h0, complete]


/-! ### the layered parser with the parser flags off (the code since 5057098) -/

def LT (e : Ex) (ts : List Tok) (p0 : Nat) : Prop :=
  1 ≤ ts.length ∧
  (p0 = 6 → ∀ rest f, 8 * ts.length ≤ f → singleValue spec f (ts ++ rest) = .ok e rest) ∧
  (p0 < 6 → ∀ rest g r f, okAtQ spec (p0 + 1) rest → foldLoop spec g p0 e rest = r →
      r ≠ .oof → g + 8 * ts.length ≤ f → layer spec f p0 (ts ++ rest) = r)

theorem lt_layer {e : Ex} {ts : List Tok} {p0 : Nat} (he : LT e ts p0) (h6 : p0 ≤ 6) (k : Nat)
    (rest : List Tok) (f : Nat) (hk : k ≤ p0) (hok : okAtQ spec k rest)
    (hf : 8 * ts.length + 8 ≤ f) : layer spec f k (ts ++ rest) = .ok e rest := by
  have hl := he.1
  by_cases hp : p0 = 6
  · have h0 : layer spec (8 * ts.length + 1) p0 (ts ++ rest) = .ok e rest := by
      rw [layer, hp]; simp only [Nat.le_refl, if_true]
      exact he.2.1 hp rest _ (Nat.le_refl _)
    have h1 := layer_lift h0 h6 (p0 - k) k (by omega) hok
    rw [layer_mono spec (f := 8 * ts.length + 1 + (p0 - k)) (by omega) k _
      (by rw [h1]; simp), h1]
  · have h0 : layer spec (1 + 8 * ts.length) p0 (ts ++ rest) = .ok e rest :=
      he.2.2 (by omega) rest 1 _ _ (okAtQ_mono spec (by omega) rest hok)
        (foldLoop_stop spec 0 _ e rest (okAtQ_mono spec hk rest hok)) (by simp) (Nat.le_refl _)
    have h1 := layer_lift h0 h6 (p0 - k) k (by omega) hok
    rw [layer_mono spec (f := 1 + 8 * ts.length + (p0 - k)) (by omega) k _
      (by rw [h1]; simp), h1]

theorem lt_of_prim {e : Ex} {ts : List Tok} (hl : 1 ≤ ts.length)
    (hA : ∀ rest f, 8 * ts.length ≤ f → singleValue spec f (ts ++ rest) = .ok e rest) : LT e ts 6 :=
  ⟨hl, fun _ => hA, fun h => absurd h (by omega)⟩

theorem lt_paren {e : Ex} {ts : List Tok} {p0 : Nat} (he : LT e ts p0) (h6 : p0 ≤ 6) :
    LT e (Tok.lp :: ts ++ [Tok.rp]) 6 := by
  apply lt_of_prim (by simp)
  intro rest f hf
  have hl : (Tok.lp :: ts ++ [Tok.rp]).length = ts.length + 2 := by simp
  rw [hl] at hf
  obtain ⟨f2, rfl⟩ : ∃ f2, f = f2 + 1 := ⟨f - 1, by omega⟩
  have hin : layer spec f2 0 (ts ++ Tok.rp :: rest) = .ok e (Tok.rp :: rest) :=
    lt_layer he h6 0 _ _ (Nat.zero_le _) trivial (by omega)
  simp only [List.cons_append, List.append_assoc, List.nil_append]
  rw [singleValue, hin]

theorem lt_neg {e : Ex} {ts : List Tok} (he : LT e ts 6) : LT (.neg e) (Tok.neg :: ts) 6 := by
  apply lt_of_prim (by simp)
  intro rest f hf
  have hl : (Tok.neg :: ts).length = ts.length + 1 := by simp
  rw [hl] at hf
  obtain ⟨f1, rfl⟩ : ∃ f1, f = f1 + 1 := ⟨f - 1, by omega⟩
  simp only [List.cons_append]
  rw [singleValue, he.2.1 rfl rest f1 (by omega)]

theorem lt_not {e : Ex} {ts : List Tok} (he : LT e ts 6) : LT (.not e) (Tok.knot :: ts) 6 := by
  apply lt_of_prim (by simp)
  intro rest f hf
  have hl : (Tok.knot :: ts).length = ts.length + 1 := by simp
  rw [hl] at hf
  obtain ⟨f1, rfl⟩ : ∃ f1, f = f1 + 1 := ⟨f - 1, by omega⟩
  simp only [List.cons_append]
  rw [singleValue, he.2.1 rfl rest f1 (by omega)]

theorem lt_bin {o : BOp} {a b : Ex} {tsa tsb : List Tok} {pa pb : Nat}
    (ha : LT a tsa pa) (hb : LT b tsb pb) (ha6 : pa ≤ 6) (hb6 : pb ≤ 6)
    (hpa : lvl o ≤ pa) (hpb : lvl o + 1 ≤ pb) :
    LT (.bin o a b) (tsa ++ Tok.bop o :: tsb) (lvl o) := by
  have hla := ha.1
  have hlb := hb.1
  have ho5 := lvl_le5 o
  refine ⟨by simp; omega, fun h => absurd h (by omega), ?_⟩
  intro _ rest g r f hok hc hr hf
  have hg := foldLoop_pos hc hr
  have hl : (tsa ++ Tok.bop o :: tsb).length = tsa.length + 1 + tsb.length := by simp; omega
  rw [hl] at hf
  have hpm : (tsa ++ Tok.bop o :: tsb) ++ rest = tsa ++ (Tok.bop o :: (tsb ++ rest)) := by simp
  rw [hpm]
  have h1 : ∀ f1, 8 * tsb.length + 8 ≤ f1 → layer spec f1 (lvl o + 1) (tsb ++ rest) = .ok b rest :=
    fun f1 hf1 => lt_layer hb hb6 (lvl o + 1) rest f1 hpb hok hf1
  have h2 : foldLoop spec (max g (8 * tsb.length + 8) + 1) (lvl o) a (Tok.bop o :: (tsb ++ rest)) = r := by
    rw [foldLoop]
    simp only [rsLvl_spec, if_true, rhsLayer_spec]
    rw [h1 _ (Nat.le_max_right _ _)]
    simp only []
    rw [foldLoop_mono spec (f := g) (Nat.le_max_left _ _) _ _ rest (by rw [hc]; exact hr), hc]
  by_cases hpe : pa = lvl o
  · have := ha.2.2 (by omega) (Tok.bop o :: (tsb ++ rest)) _ r f
      (by simp [okAtQ, rsLvl_spec]; omega) (by rw [hpe]; exact h2) hr (by omega)
    rw [hpe] at this
    exact this
  · obtain ⟨f1, rfl⟩ : ∃ f1, f = f1 + 1 := ⟨f - 1, by omega⟩
    have hk6 : ¬ 6 ≤ lvl o := by omega
    rw [layer]
    simp only [hk6, if_false]
    have h3 : layer spec f1 (lvl o + 1) (tsa ++ Tok.bop o :: (tsb ++ rest)) =
        .ok a (Tok.bop o :: (tsb ++ rest)) :=
      lt_layer ha ha6 (lvl o + 1) _ f1 (by omega) (by simp [okAtQ, rsLvl_spec]) (by omega)
    rw [h3]
    simp only []
    rw [foldLoop_mono spec (f := max g (8 * tsb.length + 8) + 1) (by omega) _ _ _
      (by rw [h2]; exact hr), h2]

theorem lt_of_wf : ∀ {e ts p}, WF e ts p → LT e ts p := by
  intro e ts p h
  induction h with
  | num n => exact lt_of_prim (by simp) (fun rest f hf => by
      obtain ⟨f1, rfl⟩ : ∃ f1, f = f1 + 1 := ⟨f - 1, by simp at hf; omega⟩
      simp [singleValue])
  | tt => exact lt_of_prim (by simp) (fun rest f hf => by
      obtain ⟨f1, rfl⟩ : ∃ f1, f = f1 + 1 := ⟨f - 1, by simp at hf; omega⟩
      simp [singleValue])
  | ff => exact lt_of_prim (by simp) (fun rest f hf => by
      obtain ⟨f1, rfl⟩ : ∃ f1, f = f1 + 1 := ⟨f - 1, by simp at hf; omega⟩
      simp [singleValue])
  | neg _ ih => exact lt_neg ih
  | not _ ih => exact lt_not ih
  | paren h ih => exact lt_paren ih h.le6
  | bin h1 h2 hpa hpb iha ihb => exact lt_bin iha ihb h1.le6 h2.le6 hpa hpb

theorem parseRsass_of_lt {e : Ex} {ts : List Tok} {p : Nat} (h : LT e ts p) (h6 : p ≤ 6) :
    parseRsass spec ts = some e := by
  have h0 := lt_layer h h6 0 [] (rsFuelFor ts) (Nat.zero_le _) trivial (by simp [rsFuelFor]; omega)
  rw [List.append_nil] at h0
  simp [parseRsass, singleExpression, h0, complete]

end Expr
