/-
C15 — operator precedence and associativity.

Token-level model of the SassScript expression layers of rsass
(`rsass/src/parser/value.rs`) and of the Sass grammar, plus a small evaluator.

Tokens abstract from white space in exactly the way the generator writes it: every
binary operator has a space on both sides (`Tok.bop`), the unary minus is glued to its
operand (`Tok.neg`), `not` is followed by a space (`Tok.knot`).  With that spacing the
`verify(...)` clause of `any_additive_expr` always accepts (`s1 = s2 = true`) and the
`/`-vs-`//` and `%`-unit subtleties do not arise, so the layering is all that is left.

Core only — no imports — so that the driver links as an executable.
-/
namespace Expr

/-- the twelve binary operators of the property -/
inductive BOp
  | or | and | eq | ne | lt | le | gt | ge | add | sub | mul | mod
  deriving DecidableEq, Repr

inductive Tok
  | num (n : Nat) | tt | ff | lp | rp | bop (o : BOp) | neg | knot
  deriving DecidableEq, Repr

/-- expression trees (`sass::Value::{Numeric,True,False,UnaryOp,BinOp}`; `Paren` is
transparent for evaluation and therefore not a node) -/
inductive Ex
  | num (n : Nat) | bool (b : Bool) | neg (e : Ex) | not (e : Ex) | bin (o : BOp) (a b : Ex)
  deriving DecidableEq, Repr

/-- Sass precedence table: `or < and < ==,!= < <,<=,>,>= < +,- < *,%`; unary and atoms = 6 -/
def lvl : BOp → Nat
  | .or => 0 | .and => 1 | .eq => 2 | .ne => 2
  | .lt => 3 | .le => 3 | .gt => 3 | .ge => 3
  | .add => 4 | .sub => 4 | .mul => 5 | .mod => 5

def prec : Ex → Nat
  | .bin o _ _ => lvl o
  | _ => 6

/-! ## Printing with minimal parentheses -/

def wrap (b : Bool) (ts : List Tok) : List Tok :=
  if b then Tok.lp :: ts ++ [Tok.rp] else ts

/-- `printMin`: left operand parenthesised iff it binds looser than the operator, right
operand iff it does not bind tighter (all levels are left-associative); the operand of a
unary operator iff it is a binary operation. -/
def printMin : Ex → List Tok
  | .num n => [.num n]
  | .bool true => [.tt]
  | .bool false => [.ff]
  | .neg e => .neg :: wrap (decide (prec e < 6)) (printMin e)
  | .not e => .knot :: wrap (decide (prec e < 6)) (printMin e)
  | .bin o a b =>
    wrap (decide (prec a < lvl o)) (printMin a) ++ [.bop o] ++
      wrap (decide (prec b < lvl o + 1)) (printMin b)

/-! ## Parse results: three-valued so that running out of fuel is never mistaken for a
syntax error (nom's `Err::Error`, on which `fold_many0` stops and backtracks). -/

inductive PR
  | ok (e : Ex) (rest : List Tok) | fail | oof
  deriving DecidableEq, Repr

/-! ## The Sass grammar: six-level precedence climbing -/

mutual
/-- unary level: atoms, parentheses, `-x`, `not x` -/
def sPrimary : Nat → List Tok → PR
  | 0, _ => .oof
  | _ + 1, .num n :: r => .ok (.num n) r
  | _ + 1, .tt :: r => .ok (.bool true) r
  | _ + 1, .ff :: r => .ok (.bool false) r
  | f + 1, .neg :: r =>
    match sPrimary f r with
    | .ok e r' => .ok (.neg e) r'
    | x => x
  | f + 1, .knot :: r =>
    match sPrimary f r with
    | .ok e r' => .ok (.not e) r'
    | x => x
  | f + 1, .lp :: r =>
    match sExpr f 0 r with
    | .ok e (.rp :: r') => .ok e r'
    | .ok _ _ => .fail
    | x => x
  | _ + 1, _ => .fail
/-- expression whose operators all have level ≥ `p` -/
def sExpr : Nat → Nat → List Tok → PR
  | 0, _, _ => .oof
  | f + 1, p, ts =>
    match sPrimary f ts with
    | .ok a r => sClimb f p a r
    | x => x
/-- the climbing loop: absorb `op rhs` while `lvl op ≥ p`, the right operand being parsed
one level tighter (left associativity) -/
def sClimb : Nat → Nat → Ex → List Tok → PR
  | 0, _, _, _ => .oof
  | f + 1, p, a, .bop o :: r =>
    if p ≤ lvl o then
      match sExpr f (lvl o + 1) r with
      | .ok b r' => sClimb f p (.bin o a b) r'
      | .fail => .ok a (.bop o :: r)
      | .oof => .oof
    else .ok a (.bop o :: r)
  | _ + 1, _, a, ts => .ok a ts
end

def fuelFor (ts : List Tok) : Nat := 2 * ts.length + 2

def complete : PR → Option Ex
  | .ok e [] => some e
  | _ => none

/-- the Sass grammar on a whole token list -/
def parseSass (ts : List Tok) : Option Ex := complete (sExpr (fuelFor ts) 0 ts)

/-! ## rsass: the layered nom parsers

Since commit 5057098: `single_expression` (`or`, layer 0) → `and_expression` (layer 1) →
`logic_expression` (`==`/`!=`, layer 2) → `relational_expression` (layer 3) →
`sum_expression` = `any_additive_expr(term_value)` (layer 4) → `term_value` =
`any_product(single_value)` (layer 5) → `single_value` (layer 6).  Each layer is `first
operand; fold_many0((op, operand))` with the operand taken from the next tighter layer.
That is the model with both parser flags off.  Before that commit (flags on)
* `single_expression` folded `and` **and** `or` over `logic_expression` and its right
  operand was `single_expression` itself (right recursion) — flag `andOrSameLevel`;
* `logic_expression` folded the four relational **and** the two equality operators over
  `sum_expression` — flag `relEqSameLevel`. -/

structure Quirks where
  andOrSameLevel : Bool
  relEqSameLevel : Bool
  /-- evaluator, `impl Rem for &Number` (`value/number.rs`): when the operands have
  different signs the divisor is added to the truncated remainder even if that remainder
  is zero (`-4 % 2` gives `2`) -/
  remZeroSign : Bool
  /-- evaluator, before 364945a, `Operator::eval` `cmp`: a relational operator on operands
  that are neither two numbers nor strings (booleans involved) was not an error but was
  kept as an unevaluated value (`(true < 2) == 2` gave `false`) -/
  undefDeferred : Bool
  /-- evaluator, `Operator::eval` (`cmp` since 364945a, `Multiply`/`Modulo` arms) +
  `BinOp::eval`: when an operand is a string (or a kept operation) a relational or
  multiplicative operation is kept as an unevaluated value instead of the error
  Undefined operation (`((true + 1) < 2) == 2` gives `false`) -/
  undefKept : Bool
  deriving DecidableEq, Repr

def spec : Quirks := ⟨false, false, false, false, false⟩
def asis : Quirks := ⟨true, true, true, true, true⟩

/-- the layer whose `fold_many0` picks the operator up -/
def rsLvl (q : Quirks) : BOp → Nat
  | .and => if q.andOrSameLevel then 0 else 1
  | .eq => if q.relEqSameLevel then 3 else 2
  | .ne => if q.relEqSameLevel then 3 else 2
  | o => lvl o

/-- the right operand of layer `k` is parsed by layer `k+1`, except that
`single_expression` calls itself -/
def rhsLayer (q : Quirks) (k : Nat) : Nat :=
  if q.andOrSameLevel && k == 0 then 0 else k + 1

mutual
/-- `single_value` restricted to the operand set: `true`, `false`, `numeric`,
`value_in_parens` (→ `simple_space_list` → `single_expression`), `unary_op`
(`-`/`not`, operand `single_value`) -/
def singleValue (q : Quirks) : Nat → List Tok → PR
  | 0, _ => .oof
  | _ + 1, .num n :: r => .ok (.num n) r
  | _ + 1, .tt :: r => .ok (.bool true) r
  | _ + 1, .ff :: r => .ok (.bool false) r
  | f + 1, .neg :: r =>
    match singleValue q f r with
    | .ok e r' => .ok (.neg e) r'
    | x => x
  | f + 1, .knot :: r =>
    match singleValue q f r with
    | .ok e r' => .ok (.not e) r'
    | x => x
  | f + 1, .lp :: r =>
    match layer q f 0 r with
    | .ok e (.rp :: r') => .ok e r'
    | .ok _ _ => .fail
    | x => x
  | _ + 1, _ => .fail
/-- layer `k`: first operand from the next tighter layer, then the fold -/
def layer (q : Quirks) : Nat → Nat → List Tok → PR
  | 0, _, _ => .oof
  | f + 1, k, ts =>
    if 6 ≤ k then singleValue q f ts
    else
      match layer q f (k + 1) ts with
      | .ok a r => foldLoop q f k a r
      | x => x
/-- `fold_many0((op, operand), …)`: stops (keeping the accumulator and the input before
the operator) when the operator is not one of this layer or the operand fails -/
def foldLoop (q : Quirks) : Nat → Nat → Ex → List Tok → PR
  | 0, _, _, _ => .oof
  | f + 1, k, a, .bop o :: r =>
    if rsLvl q o = k then
      match layer q f (rhsLayer q k) r with
      | .ok b r' => foldLoop q f k (.bin o a b) r'
      | .fail => .ok a (.bop o :: r)
      | .oof => .oof
    else .ok a (.bop o :: r)
  | _ + 1, _, a, ts => .ok a ts
end

/-- named entry points of `parser/value.rs` -/
def singleExpression (q : Quirks) (f : Nat) := layer q f 0
def andExpression (q : Quirks) (f : Nat) := layer q f 1
def logicExpression (q : Quirks) (f : Nat) := layer q f 2
def relationalExpression (q : Quirks) (f : Nat) := layer q f 3
def sumExpression (q : Quirks) (f : Nat) := layer q f 4
def termValue (q : Quirks) (f : Nat) := layer q f 5

/-- every layer costs one unit of fuel per call, a token at most 8 calls -/
def rsFuelFor (ts : List Tok) : Nat := 9 * ts.length + 9

def parseRsass (q : Quirks) (ts : List Tok) : Option Ex :=
  complete (singleExpression q (rsFuelFor ts) ts)

/-! ## Evaluation (`sass::Value::do_evaluate`, `BinOp::eval`, `Operator::eval`) on the
operand set: unit-less integers and booleans.

`opq` = a value that is neither a number nor a boolean (in Sass: the unquoted string made
by `+`/`-` with a non-numeric operand; in rsass also an operation kept unevaluated); it is
truthy and different from every number and boolean.  `unk` = the model has no opinion
(`opq == opq`, NaN from `% 0`, `-true`). -/

inductive Val
  | num (n : Int) | bool (b : Bool) | opq
  deriving DecidableEq, Repr

inductive Res
  | ok (v : Val) | err | unk
  deriving DecidableEq, Repr

def truthy : Val → Bool
  | .bool false => false
  | _ => true

def isBool : Val → Bool
  | .bool _ => true
  | _ => false

/-- `==`; `none` = no opinion -/
def valEq : Val → Val → Option Bool
  | .num a, .num b => some (a == b)
  | .bool a, .bool b => some (a == b)
  | .opq, .opq => none
  | _, _ => some false

/-- `%`: Sass takes the sign of the divisor (floored modulo).  The code computes the
truncated remainder and adds the divisor when `a ≠ 0` and the signs differ. -/
def modOp (q : Quirks) (a b : Int) : Int :=
  if q.remZeroSign then
    let r := Int.tmod a b
    if a ≠ 0 ∧ (decide (b < 0) != decide (a < 0)) then r + b else r
  else Int.fmod a b

/-- a relational operator on operands that are not both numbers: Sass raises
"Undefined operation".  The code keeps the operation as a value when an operand is a string
or a kept operation (flag `undefKept`), and before 364945a also when only booleans and
numbers are involved (flag `undefDeferred`). -/
def relBad (q : Quirks) (a b : Val) : Res :=
  if a = .opq ∨ b = .opq then
    (if q.undefKept then (if a = .opq ∧ b = .opq then .unk else .ok .opq) else .err)
  else if q.undefDeferred then .ok .opq else .err

/-- `*`/`%` on operands that are not both numbers: Sass raises; the `Multiply`/`Modulo`
arms keep the operation when both operands are `valid_operand` (numbers, strings,
operations), i.e. when no boolean is involved -/
def mulBad (q : Quirks) (a b : Val) : Res :=
  if q.undefKept && !isBool a && !isBool b then .ok .opq else .err

/-- strict binary operators on two evaluated operands -/
def applyOp (q : Quirks) (o : BOp) (x y : Res) : Res :=
  match x, y with
  | .err, _ => .err
  | _, .err => .err
  | .unk, _ => .unk
  | _, .unk => .unk
  | .ok a, .ok b =>
    match o, a, b with
    | .eq, a, b => match valEq a b with | some r => .ok (.bool r) | none => .unk
    | .ne, a, b => match valEq a b with | some r => .ok (.bool (!r)) | none => .unk
    | .lt, .num a, .num b => .ok (.bool (a < b))
    | .le, .num a, .num b => .ok (.bool (a ≤ b))
    | .gt, .num a, .num b => .ok (.bool (a > b))
    | .ge, .num a, .num b => .ok (.bool (a ≥ b))
    | .add, .num a, .num b => .ok (.num (a + b))
    | .sub, .num a, .num b => .ok (.num (a - b))
    | .mul, .num a, .num b => .ok (.num (a * b))
    | .mod, .num a, .num b => if b = 0 then .unk else .ok (.num (modOp q a b))
    | .add, _, _ => .ok .opq
    | .sub, _, _ => .ok .opq
    | .mul, a, b => mulBad q a b
    | .mod, a, b => mulBad q a b
    | _, a, b => relBad q a b

def eval (q : Quirks) : Ex → Res
  | .num n => .ok (.num n)
  | .bool b => .ok (.bool b)
  | .neg e =>
    match eval q e with
    | .ok (.num n) => .ok (.num (-n))
    | .ok (.bool _) => .unk
    | .ok .opq => if q.undefKept then .unk else .ok .opq
    | x => x
  | .not e =>
    match eval q e with
    | .ok v => .ok (.bool (!truthy v))
    | x => x
  | .bin .and a b =>
    match eval q a with
    | .ok v => if truthy v then eval q b else .ok v
    | x => x
  | .bin .or a b =>
    match eval q a with
    | .ok v => if truthy v then .ok v else eval q b
    | x => x
  | .bin o a b => applyOp q o (eval q a) (eval q b)

/-! ## Text: the lexer used by the driver (inverse of the generator's rendering) and the
value printer -/

def showNat (n : Nat) : List Char := (toString n).toList

def showRes : Res → String
  | .ok (.num n) => if n < 0 then "-" ++ toString n.natAbs else toString n.natAbs
  | .ok (.bool true) => "true"
  | .ok (.bool false) => "false"
  | .ok .opq => "opq"
  | .err => "err"
  | .unk => "unk"

def opOfWord : List Char → Option BOp
  | ['o', 'r'] => some .or
  | ['a', 'n', 'd'] => some .and
  | ['=', '='] => some .eq
  | ['!', '='] => some .ne
  | ['<'] => some .lt
  | ['<', '='] => some .le
  | ['>'] => some .gt
  | ['>', '='] => some .ge
  | ['+'] => some .add
  | ['-'] => some .sub
  | ['*'] => some .mul
  | ['%'] => some .mod
  | _ => none

/-- one space-separated word: an operator, `not`, or `[-(]* atom [)]*` -/
def lexWord : Nat → List Char → Option (List Tok)
  | 0, _ => none
  | f + 1, w =>
    match opOfWord w with
    | some o => some [.bop o]
    | none =>
      match w with
      | [] => some []
      | ['n', 'o', 't'] => some [.knot]
      | ['t', 'r', 'u', 'e'] => some [.tt]
      | ['f', 'a', 'l', 's', 'e'] => some [.ff]
      | '(' :: r => (lexWord f r).map (Tok.lp :: ·)
      | '-' :: r => (lexWord f r).map (Tok.neg :: ·)
      | _ =>
        if w.getLast? = some ')' then (lexWord f w.dropLast).map (· ++ [Tok.rp])
        else if w.all Char.isDigit then (String.ofList w).toNat?.map fun n => [Tok.num n]
        else none

def splitSpaces (s : List Char) : List (List Char) :=
  ((String.ofList s).splitOn " ").map String.toList

def lex (s : List Char) : Option (List Tok) :=
  (splitSpaces s).foldl (fun acc w =>
    match acc, lexWord (w.length + 1) w with
    | some ts, some t => some (ts ++ t)
    | _, _ => none) (some [])

def evalParse (q : Quirks) : Option Ex → Res
  | some e => eval q e
  | none => .err

end Expr
