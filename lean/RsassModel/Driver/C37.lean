/- Driver for C37: `c37 <hex header> <files> <probes hex> <decls> <url> <fwd> <as> <withs> <prewiths> <probespecs>`
(see props/C37.py for the encoding) → per probe `=N` | `err` | `css`, joined by `;`. -/
import RsassModel.Basic.Proto
import RsassModel.Mod.Scenario
open Mod

def sp (s : String) (sep : String) : List String := (s.splitOn sep).filter (· ≠ "")

def parseWiths (s : String) : List (Name × Nat) :=
  (sp s ";").filterMap fun e => match e.splitOn "=" with
    | [n, v] => v.toNat?.map fun x => (n.toList, x)
    | _ => none

def parseKind (s : String) : Kind := if s == "v" then .var else if s == "f" then .fn else .mixin

def parseDecls (s : String) : List Decl :=
  (sp s ",").filterMap fun e => match e.splitOn "." with
    | [k, n, v, d] => v.toNat?.map fun x => ⟨parseKind k, n.toList, x, d == "d"⟩
    | [k, n, v] => v.toNat?.map fun x => ⟨parseKind k, n.toList, x, false⟩
    | _ => none

def parseFwd (s : String) : Option FwdSpec :=
  if s == "-" then none else
  match s.splitOn "|" with
  | [pre, kind, funs, vars, withs] =>
    let f := (sp funs ";").map String.toList
    let v := (sp vars ";").map String.toList
    let e : Expose := if kind == "show" then .show_ f v else if kind == "hide" then .hide f v else .all
    some ⟨if pre == "-" then none else some pre.toList, e, parseWiths withs, false⟩
  | [pre, kind, funs, vars, withs, b] =>
    let f := (sp funs ";").map String.toList
    let v := (sp vars ";").map String.toList
    let e : Expose := if kind == "show" then .show_ f v else if kind == "hide" then .hide f v else .all
    some ⟨if pre == "-" then none else some pre.toList, e, parseWiths withs, b == "b"⟩
  | _ => none

def parseProbe (s : String) : Option Probe :=
  match s.splitOn "." with
  | ["r", ns, k, n] => some (.read (if ns == "-" then none else some ns.toList) (parseKind k) n.toList)
  | ["a", ns, n, v] => v.toNat?.map fun x => .assign ns.toList n.toList x
  | ["d", ns, n, v] => v.toNat?.map fun x => .assignD ns.toList n.toList x
  | _ => none

def showRes : Res → String
  | .val v => "=" ++ toString v
  | .err => "err"
  | .css => "css"

def handleC37 (quirks : List String) (op : String) (args : List String) : String :=
  match op, args with
  | "c37", [_, _, _, decls, url, fwd, as_, withs, pre, probes] =>
    let sc : Scenario :=
      { decls := parseDecls decls, url := url.toList, fwd := parseFwd fwd,
        as_ := if as_ == "-" then .keepName else if as_ == "*" then .star else .name (as_.drop 1).toString.toList,
        withs := parseWiths withs,
        preWiths := if pre == "-" then none else some (parseWiths (pre.drop 1).toString),
        builtin := isBuiltinUrl url.toList }
    let q : ModQuirks :=
      { withUnknownUse := quirks.contains "withUnknownUse", withUnknownForward := quirks.contains "withUnknownForward",
        reconfigureIgnored := quirks.contains "reconfigureIgnored", namespaceRaw := quirks.contains "namespaceRaw",
        prefixFilterSwapped := quirks.contains "prefixFilterSwapped",
        useAsWithRejected := quirks.contains "useAsWithRejected",
        builtinMarkerLost := quirks.contains "builtinMarkerLost" }
    let ps := (sp probes ",").filterMap parseProbe
    let one (q : ModQuirks) := ";".intercalate (ps.map fun p => showRes (runProbe q sc p))
    one q ++ "\t" ++ one modSpec
  | "c37", _ => "bad-args"
  | _, _ => "bad-op"

def main : IO Unit := Proto.run handleC37
