/- Driver for C23.
`compile scss e 10 in.scss <hex src> "" "" super <law> <pairs> <term>...`
  (the first seven fields are the generic harness op; the model reads only the tail)
  pairs = `i:j,i:j,...` (indices into the terms); answer: one `t`/`f` per pair, i.e.
  `selector.is-superselector(term_i, term_j)`, then `|` and the hex of every term's
  printed text (so the generator can check that model and rsass were given the same
  selectors). -/
import RsassModel.Basic.Proto
import RsassModel.Sel.Print
import RsassModel.Sel.Super
import RsassModel.Sel.SuperTerm
open Sel

def C23.answer (q : SuperQuirks) (pairs : List (Nat × Nat)) (terms : Array SelSet) : String :=
  String.ofList (pairs.map fun (i, j) =>
    if SelSet.isSuper q (terms.getD i []) (terms.getD j []) then 't' else 'f')

def C23.parsePairs (s : String) : Option (List (Nat × Nat)) :=
  (s.splitOn ",").filter (· ≠ "") |>.mapM fun p =>
    match p.splitOn ":" with
    | [a, b] => match a.toNat?, b.toNat? with
      | some i, some j => some (i, j)
      | _, _ => none
    | _ => none

def handleC23 (quirks : List String) (op : String) (args : List String) : String :=
  match op, args with
  | "compile", _ :: _ :: _ :: _ :: _ :: _ :: _ :: "super" :: _law :: pairs :: terms =>
    match C23.parsePairs pairs, terms.mapM Term.setOfField with
    | some ps, some ts =>
      let ta := ts.toArray
      if ps.any (fun (i, j) => i ≥ ta.size || j ≥ ta.size) then "bad-args" else
      -- `parentStrict` is a C24 matter (it does not touch any C23 law): the specification
      -- column keeps the implementation's choice so that only C23's own flag separates them
      let strict := quirks.contains "parentStrict"
      let qa : SuperQuirks := { attrQuoteMix := quirks.contains "attrQuoteMix", parentStrict := strict }
      let qs : SuperQuirks := { parentStrict := strict }
      let printed := String.intercalate "," (ts.map fun t => Proto.hexOfString (SelSet.toString t))
      C23.answer qa ps ta ++ "|" ++ printed ++ "\t" ++ C23.answer qs ps ta ++ "|" ++ printed
    | _, _ => "bad-args"
  | _, _ => "bad-op"

def main : IO Unit := Proto.run handleC23
