/- Driver for C02 (loader family): see RsassModel/Load/Handle.lean for the protocol. -/
import RsassModel.Load.Handle

def main : IO Unit := Proto.run Load.handle
