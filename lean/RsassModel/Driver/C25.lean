/- Driver for C25.  `c25 <hex S>` → `t1|t2|h|hc` for asis and spec, each part hex text or `err`
   (hc = the header in compressed style):
   t1 = print (parse S), t2 = print (parse t1), h = header emitted for `S { x: y }`
   (spec: = t1; asis with flag `ruleSigilEscapeNotFirst`: print (parse (sassSigilPre S))). -/
import RsassModel.Basic.Proto
import RsassModel.Sel.Parse
open Sel

namespace DrvC25

def pp (q : LexQuirks) (text : List Char) : Option (List Char) :=
  match parseSelSet q text with
  | some ss => some (SelSet.print false ss)
  | none => none

def showPart : Option (List Char) → String
  | some t => "ok:" ++ Proto.hexOfString (String.ofList t)
  | none => "err"

def answer (q : LexQuirks) (sigil : Bool) (s : List Char) : String :=
  let t1 := pp q s
  let t2 := match t1 with | some t => showPart (pp q t) | none => "-"
  -- the SCSS front end normalises escapes the same way before the CSS parser sees the text:
  -- the header is the print of a *second* parse (equal to t1 whenever the round trip holds)
  let h0 := if sigil then pp q (sassSigilPre (s.length + 1) s) else t1
  let h := match h0 with | some t => pp q t | none => none
  -- compressed style: the same second parse, printed with `compressed = true`
  let hc := match h0 with
    | some t => (match parseSelSet q t with | some ss => some (SelSet.print true ss) | none => none)
    | none => none
  showPart t1 ++ "|" ++ t2 ++ "|" ++ showPart h ++ "|" ++ showPart hc

def handle (quirks : List String) (op : String) (args : List String) : String :=
  match op, args with
  | "c25", [hs] =>
    let s := (Proto.stringOfHex hs).toList
    let q : LexQuirks := { symbolEscapeRaw := quirks.contains "symbolEscapeRaw",
                           quotedVerbatim := quirks.contains "quotedVerbatim" }
    answer q (quirks.contains "ruleSigilEscapeNotFirst") s ++ "\t" ++ answer lexSpec false s
  | _, _ => "bad-op"

end DrvC25

def main : IO Unit := Proto.run DrvC25.handle
