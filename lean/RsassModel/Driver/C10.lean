/- Driver for C10: `numfmt <bits as decimal u64> <precision> <e|c>` → hex text of asis, spec -/
import RsassModel.Basic.Proto
import RsassModel.Num.FloatInst
import RsassModel.Num.Format
open Num

def handleC10 (quirks : List String) (op : String) (args : List String) : String :=
  match op, args with
  | "numfmt", [bits, prec, style] =>
    match bits.toNat?, prec.toNat? with
    | some b, some p =>
      let x := Float.ofBits (UInt64.ofNat b)
      let q : FmtQuirks := { precisionZeroOneDigit := quirks.contains "precisionZeroOneDigit" }
      let c := style == "c"
      let asis := fmtNumber q c p x
      let spec := fmtNumber fmtSpec c p x
      Proto.hexOfString asis ++ "\t" ++ Proto.hexOfString spec
    | _, _ => "bad-args"
  | _, _ => "bad-op"

def main : IO Unit := Proto.run handleC10
