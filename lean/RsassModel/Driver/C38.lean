/- Driver for C38.
`c38v <e|c> <precision> <hex value source> <ok:<hex formatted text>|err> <valid|null|invalid>`
  fields 4 and 5 are what the evaluator/formatter (parameters of the model) produced for
  this value; the model answers what `compile_value` returns and the whole document of
  `x { y: <value> }`:  `<ok:hex|err>|<ok:hex|err>`  (as-is, tab, spec).
`c38s ...` is impl-vs-impl only (`bad-op`: the model has no executable opinion). -/
import RsassModel.Basic.Proto
import RsassModel.Glue.Entry
open GlueE

def res (r : Option Text) : String :=
  match r with
  | none => "err"
  | some t => "ok:" ++ Proto.hexOfString (String.ofList t)

/-- the world in which value `input` evaluates as told by the protocol line -/
def lineWorld (cv : Option Text) (kind : String) : World Text where
  file := fun _ => none
  lookup := fun _ _ => none
  parse := fun _ => none
  render := fun _ _ => none
  evalValue := fun _ _ => cv
  fmtValue := fun _ v => v
  isNull := fun _ => kind == "null"
  validCss := fun _ => kind != "invalid"

def handleC38 (quirks : List String) (op : String) (args : List String) : String :=
  match op, args with
  | "c38v", [style, prec, v, cv, kind] =>
    match prec.toNat? with
    | none => "bad-args"
    | some p =>
      let fmt : Format := ⟨style == "c", p⟩
      let cvt : Option Text :=
        if cv.startsWith "ok:" then some (Proto.stringOfHex (cv.drop 3).toString).toList else none
      let w := lineWorld cvt kind
      let input := (Proto.stringOfHex v).toList
      let q : EntryQuirks := { compileValueKeepsNewline := quirks.contains "compileValueKeepsNewline" }
      let one (q : EntryQuirks) := res (compileValue q w input fmt) ++ "|" ++ res (compileDecl w input fmt)
      one q ++ "\t" ++ one entrySpec
  | "c38v", _ => "bad-args"
  | _, _ => "bad-op"

def main : IO Unit := Proto.run handleC38
