/- Driver for C12.
  `veq <termA> <termB> <conv>`                   direct API:   12 results, see `relVector`
  `seq <termA> <termB> <conv> <hexA> <hexB>`     through SCSS: same vector
  `numeq <bitsA> <bitsB>`                        `Number == Number` both ways + `partial_cmp` both ways
-/
import RsassModel.Basic.Proto
import RsassModel.Num.CmpFloat
import RsassModel.Value.Eq
import RsassModel.Value.Term
open Val Num

def fOfBits (n : Nat) : Float := Float.ofBits (UInt64.ofNat n)

def resChar : RelRes → Char
  | .bool true => 'T'
  | .bool false => 'F'
  | .unevaluated => 'N'
  | .unmodelled => '?'
  | .error => 'E'

/-- eq(a,b) eq(b,a) ne(a,b) ne(b,a) eq(a,a) eq(b,b) lt(a,b) gt(a,b) le(a,b) ge(a,b) lt(b,a) gt(b,a) -/
def relVector (q : ValQuirks) (env : Env Float) (a b : V Float) : String :=
  String.ofList <| [
    V.rel q env .eq a b, V.rel q env .eq b a, V.rel q env .ne a b, V.rel q env .ne b a,
    V.rel q env .eq a a, V.rel q env .eq b b,
    V.rel q env .lt a b, V.rel q env .gt a b, V.rel q env .le a b, V.rel q env .ge a b,
    V.rel q env .lt b a, V.rel q env .gt b a].map resChar

def ordChar : Option Ordering → Char
  | some .lt => '<' | some .eq => '=' | some .gt => '>' | none => '?'

def numVector (q : CmpQuirks) (a b : Float) : String :=
  String.ofList [if numEq q a b then 'T' else 'F', if numEq q b a then 'T' else 'F',
    ordChar (numCmp q a b), ordChar (numCmp q b a)]

def quirksOf (qs : List String) : ValQuirks :=
  { numEqAsymmetric := qs.contains "numEqAsymmetric"
    convCmpOneWay := qs.contains "convCmpOneWay"
    strEqSameQuotesRaw := qs.contains "strEqSameQuotesRaw"
    cmpOldUnitRules := qs.contains "cmpOldUnitRules"
    mapEqOrdered := qs.contains "mapEqOrdered"
    mapEqOneSided := qs.contains "mapEqOneSided"
    argListNeverEqual := qs.contains "argListNeverEqual"
    ordCalcFlag := qs.contains "ordCalcFlag"
    ordNonNumberKept := qs.contains "ordNonNumberKept" }

def handleC12 (quirks : List String) (op : String) (args : List String) : String :=
  let q := quirksOf quirks
  match op, args with
  | "veq", ta :: tb :: conv :: _ | "seq", ta :: tb :: conv :: _ | "seqin", ta :: tb :: conv :: _ =>
    match parseTerm fOfBits ta, parseTerm fOfBits tb with
    | some a, some b =>
      let env := parseEnv fOfBits conv
      relVector q env a b ++ "\t" ++ relVector Val.spec env a b
    | _, _ => "bad-args"
  | "numeq", [ba, bb] =>
    match ba.toNat?, bb.toNat? with
    | some x, some y =>
      numVector q.cmp (fOfBits x) (fOfBits y) ++ "\t" ++ numVector cmpSpec (fOfBits x) (fOfBits y)
    | _, _ => "bad-args"
  | _, _ => "bad-op"

def main : IO Unit := Proto.run handleC12
