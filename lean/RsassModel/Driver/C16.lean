/- Driver for C16: `compile scss <style> <prec> <name> <hex src> <files> <roots> <program term>`
   → `asis\tspec`, each `ok:p1=1;…` | `err` | `unmodelled` | `unspec:<prefix>` | `fuel`.
   `asis` = evaluator with the run's live scope flags; `spec` = all flags off + ghost detector. -/
import RsassModel.Basic.Proto
import RsassModel.Core.Term
open Core

def scopeQuirksOf (qs : List String) : ScopeQuirks :=
  { localRule := qs.contains "localRule", localMedia := qs.contains "localMedia",
    localAtRule := qs.contains "localAtRule", localFor := qs.contains "localFor",
    localWhile := qs.contains "localWhile", localMixin := qs.contains "localMixin",
    localContent := qs.contains "localContent", localFn := qs.contains "localFn",
    localFnWhile := qs.contains "localFnWhile", noIfScope := qs.contains "noIfScope",
    noEachScope := qs.contains "noEachScope", fnNoFlowScopes := qs.contains "fnNoFlowScopes" }

def handleC16 (quirks : List String) (op : String) (args : List String) : String :=
  match op with
  | "compile" =>
    match args[7]? with
    | none => "bad-op"
    | some term =>
      match parseProgram term with
      | .error _ => "bad-args"
      | .ok prog =>
        let asis := runTerm { sq := scopeQuirksOf quirks, aq := asisArgQuirks, ghosts := false } prog
        let spec := runTerm specCfg prog
        asis ++ "\t" ++ spec
  | _ => "bad-op"

def main : IO Unit := Proto.run handleC16
