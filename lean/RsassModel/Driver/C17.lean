/- Driver for C17: `c17.prog <term> <hex scss>` → `ok:<hex decl list>` | `err` (asis = spec:
   no deviation flag in this family). -/
import RsassModel.Basic.Proto
import RsassModel.Flow.Display
open Flow

def handleC17 (_quirks : List String) (op : String) (args : List String) : String :=
  match op, args with
  | "c17.prog", term :: _ =>
    match parseProgram term with
    | some prog =>
      match run 200000 prog with
      | .ok decls =>
        "ok:" ++ Proto.hexOfString ("\n".intercalate (decls.map fun d => toString d.1 ++ "=" ++ disp d.2))
      | .error .fuel => "bad-args"
      | .error _ => "err"
    | none => "bad-args"
  | _, _ => "bad-op"

def main : IO Unit := Proto.run handleC17
