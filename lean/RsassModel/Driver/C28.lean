/- Driver for C28: `lf <fn> <encoded args …> <hex scss (ignored)>` → encoded result of the
as-is model (live deviation flags) and of the specification model (all flags off). -/
import RsassModel.Basic.Proto
import RsassModel.ListFn.Model
import RsassModel.ListFn.Codec
open ListFn

def c28Quirks (qs : List String) : ListQuirks :=
  { lengthNullZero := qs.contains "lengthNullZero"
    indexMapIgnoresBrackets := qs.contains "indexMapIgnoresBrackets"
    indexArglistAsScalar := qs.contains "indexArglistAsScalar"
    zipArglistTrailingNull := qs.contains "zipArglistTrailingNull" }

def c28Eval (q : ListQuirks) (fn : String) (args : List String) : Option Out :=
  match fn, args with
  | "id", [v] => (decVal v).map .val
  | "length", [v] => (decVal v).map (length q)
  | "nth", [v, i] => do let v ← decVal v; let i ← decIdx i; pure (nth v i)
  | "setnth", [v, i, x] => do let v ← decVal v; let i ← decIdx i; let x ← decVal x; pure (setNth v i x)
  | "append", [v, x, s] => do let v ← decVal v; let x ← decVal x; let s ← decSepArg s; pure (append v x s)
  | "join", [v, w, s, b] => do
      let v ← decVal v; let w ← decVal w; let s ← decSepArg s; let b ← decBraArg b; pure (join v w s b)
  | "index", [v, x] => do let v ← decVal v; let x ← decVal x; pure (index q v x)
  | "separator", [v] => (decVal v).map separator
  | "isbracketed", [v] => (decVal v).map isBracketed
  | "zip", vs => do let vs ← vs.mapM decVal; pure (zip q vs)
  | _, _ => none

def handleC28 (quirks : List String) (op : String) (args : List String) : String :=
  match op, args with
  | "lf", fn :: rest =>
    -- the last field is the SCSS source for the harness
    let a := rest.dropLast
    match c28Eval (c28Quirks quirks) fn a, c28Eval ListFn.spec fn a with
    | some x, some y => encOut x ++ "\t" ++ encOut y
    | _, _ => "bad-args"
  | _, _ => "bad-op"

def main : IO Unit := Proto.run handleC28
