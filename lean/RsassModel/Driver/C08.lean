/- Driver for C08:
   `c08both <srcfmt> <hex src> <files|-> <tree e> <tree c>` → `<res e>|<res c>|n=<0|1>` (as is, spec) where res is
   `ok:<hex bytes>` | `err:atom` and n=1 says that `Writer.norm` of the two outputs is equal.
   (Two trees: from SCSS the compressed tree lacks the non-loud comments.)  Without trees: `bad-op`. -/
import RsassModel.Writer.Term
import RsassModel.Writer.Norm
open Writer Writer.Term

namespace C08Drv

def render (q : WQuirks) (s : Style) (items : List Node) : String × Option Bytes :=
  match compile q s items with
  | some b => ("ok:" ++ Proto.hexOfBytes (ByteArray.mk b.toArray), some b)
  | none => ("err:atom", none)

def sameNorm (q : WQuirks) (t : List Node) : Bool :=
  norm (intoBuffer q .expanded t) == norm (intoBuffer q .compressed t)

def both (q : WQuirks) (te tc : List Node) : String :=
  let (se, _) := render q .expanded te
  let (sc, _) := render q .compressed tc
  -- the theorem's statement, evaluated on each of the two trees (same tree, both styles)
  -- (`-`: an atom differs by more than white space — a leading zero —, the theorem's hypothesis fails)
  let hyp (t : List Node) := nodesEq (Nodes.ofList (hoistImports t))
  let eq := if !(hyp te && hyp tc) then "-" else if sameNorm q te && sameNorm q tc then "1" else "0"
  se ++ "|" ++ sc ++ "|n=" ++ eq

def handle (quirks : List String) (op : String) (args : List String) : String :=
  match op, args with
  | "c08both", [_fmt, _src, _files, te, tc] =>
    match parseTree te, parseTree tc with
    | some te, some tc => both (quirksOf quirks) te tc ++ "\t" ++ both WQuirks.spec te tc
    | _, _ => "bad-args"
  | _, _ => "bad-op"

end C08Drv

def main : IO Unit := Proto.run C08Drv.handle
