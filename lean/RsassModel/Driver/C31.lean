/- Driver for C31 (see harness/src/ops/color.rs for the ops): answers `asis\tspec`. -/
import RsassModel.Basic.Proto
import RsassModel.Color.Parse
open Color

def c31One (q : CQuirks) (op : String) (args : List String) : String :=
  match op, args with
  | "c31chan", [e] =>
    match parseField e with
    | none => "bad-args"
    | some e =>
      match e.eval q with
      | some c => "ok:" ++ chanReport q c
      | none => "err"
  | "c31rebuild", [e] =>
    match parseField e with
    | none => "bad-args"
    | some e =>
      match e.eval q with
      | some c =>
        match rebuildEq q (rebuildRgb q c) c, rebuildEq q (rebuildHsl q c) c, rebuildEq q (rebuildHwb q c) c with
        | some a, some b, some d => "ok:" ++ tf a ++ "|" ++ tf b ++ "|" ++ tf d
        | _, _, _ => "err"
      | none => "err"
  | "c31eq", [a, b] =>
    match parseField a, parseField b with
    | some a, some b =>
      match a.eval q, b.eval q with
      | some x, some y => "ok:" ++ tf (x.eqv q y)
      | _, _ => "err"
    | _, _ => "bad-args"
  | _, _ => "bad-op"

def handleC31 (quirks : List String) (op : String) (args : List String) : String :=
  let a := c31One (quirksOf quirks) op args
  if a == "bad-op" || a == "bad-args" then a
  else a ++ "\t" ++ c31One CQuirks.spec op args

def main : IO Unit := Proto.run handleC31
