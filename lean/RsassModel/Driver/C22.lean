/- Driver for C22.  Case line (shared with the harness' generic `compile` op):
   `compile scss <e|c> <prec> <name> <hex scss> K19 n item^n`
   → hex of the rendered rule blocks after placeholder removal, for asis and spec.  The
   generator of C22 uses no `&`, so the nesting flags of C19 play no role here. -/
import RsassModel.Basic.Proto
import RsassModel.Sel.Term
import RsassModel.Sel.Nest
open Sel Sel.Term

namespace DrvC22

mutual
  partial def item : P Item
    | "D" :: ts => match str ts with | some (n, r) => some (.decl n, r) | none => none
    | "U" :: ts =>
      match selset ts with
      | some (s, r) => match items r with | some (b, r') => some (.rule s b, r') | none => none
      | none => none
    | "T" :: ts =>
      match selset ts with
      | some (s, r) => match items r with | some (b, r') => some (.atRoot s b, r') | none => none
      | none => none
    | _ => none
  partial def items : P (List Item) := fun ts =>
    match nat ts with
    | some (n, r) => many item n r
    | none => none
end

def sheet : P (List Item)
  | "K19" :: ts => items ts
  | _ => none

def render (pq : PhQuirks) (compressed : Bool) (its : List Item) : String :=
  if Item.panicsList Ctx.root nestSpec its then "err"
  else Proto.hexOfString (String.ofList (renderBlocksQ pq compressed (sheetBlocks nestSpec its)))

def handle (quirks : List String) (op : String) (args : List String) : String :=
  match op, args with
  | "compile", [_, style, _, _, _, term] =>
    match parseAll sheet term with
    | some its =>
      let pq : PhQuirks := { notLeavesEmptyCompound := quirks.contains "notLeavesEmptyCompound" }
      render pq (style == "c") its ++ "\t" ++ render phSpec (style == "c") its
    | none => "bad-args"
  | _, _ => "bad-op"

end DrvC22

def main : IO Unit := Proto.run DrvC22.handle
