/- Driver for C13.
  `mapops <conv> <key pool term> <value pool term> <literal term> <ops> <hex scss>`
       ops = `;`-separated: `set K V` | `rem <n> K…` | `mrg <map term>` | `get K` | `has K`
  `veq` / `seq` as in C12 (map equality pairs).
-/
import RsassModel.Basic.Proto
import RsassModel.Num.CmpFloat
import RsassModel.Value.Eq
import RsassModel.Value.Term
import RsassModel.Value.MapFn
open Val Num

def fOfBits13 (n : Nat) : Float := Float.ofBits (UInt64.ofNat n)

def resChar13 : RelRes → Char
  | .bool true => 'T'
  | .bool false => 'F'
  | .unevaluated => 'N'
  | .unmodelled => '?'
  | .error => 'E'

def relVector13 (q : ValQuirks) (env : Env Float) (a b : V Float) : String :=
  String.ofList <| [
    V.rel q env .eq a b, V.rel q env .eq b a, V.rel q env .ne a b, V.rel q env .ne b a,
    V.rel q env .eq a a, V.rel q env .eq b b,
    V.rel q env .lt a b, V.rel q env .gt a b, V.rel q env .le a b, V.rel q env .ge a b,
    V.rel q env .lt b a, V.rel q env .gt b a].map resChar13

def quirksOf13 (qs : List String) : ValQuirks :=
  { numEqAsymmetric := qs.contains "numEqAsymmetric"
    convCmpOneWay := qs.contains "convCmpOneWay"
    strEqSameQuotesRaw := qs.contains "strEqSameQuotesRaw"
    cmpOldUnitRules := qs.contains "cmpOldUnitRules"
    mapEqOrdered := qs.contains "mapEqOrdered"
    mapEqOneSided := qs.contains "mapEqOneSided"
    argListNeverEqual := qs.contains "argListNeverEqual"
    ordCalcFlag := qs.contains "ordCalcFlag"
    ordNonNumberKept := qs.contains "ordNonNumberKept" }

def listItems : V Float → Option (List (V Float))
  | .list xs _ _ => some xs
  | _ => none

def mapEntries : V Float → Option (Entries Float)
  | .map kv => some kv
  | _ => none

def parseOp (s : String) : Option (MapOp Float) :=
  let toks := s.splitOn " "
  match toks with
  | "set" :: r =>
    match parseV fOfBits13 (r.length + 1) r with
    | some (k, r1) =>
      match parseV fOfBits13 (r1.length + 1) r1 with
      | some (v, []) => some (.set k v)
      | _ => none
    | none => none
  | "rem" :: n :: r =>
    match n.toNat? with
    | some n =>
      match parseMany fOfBits13 (r.length + 2) n r with
      | some (ks, []) => some (.rem ks)
      | _ => none
    | none => none
  | "mrg" :: r =>
    match parseV fOfBits13 (r.length + 1) r with
    | some (.map kv, []) => some (.mrg kv)
    | _ => none
  | "get" :: r =>
    match parseV fOfBits13 (r.length + 1) r with
    | some (k, []) => some (.get k)
    | _ => none
  | "has" :: r =>
    match parseV fOfBits13 (r.length + 1) r with
    | some (k, []) => some (.has k)
    | _ => none
  | _ => none

def allSome {α} : List (Option α) → Option (List α)
  | [] => some []
  | none :: _ => none
  | some x :: r => (allSome r).map (x :: ·)

def handleC13 (quirks : List String) (op : String) (args : List String) : String :=
  let q := quirksOf13 quirks
  match op, args with
  | "veq", ta :: tb :: conv :: _ | "seq", ta :: tb :: conv :: _ | "seqin", ta :: tb :: conv :: _ =>
    match parseTerm fOfBits13 ta, parseTerm fOfBits13 tb with
    | some a, some b =>
      let env := parseEnv fOfBits13 conv
      relVector13 q env a b ++ "\t" ++ relVector13 Val.spec env a b
    | _, _ => "bad-args"
  | "mapops", conv :: kp :: vp :: lit :: ops :: _ =>
    let env := parseEnv fOfBits13 conv
    match (parseTerm fOfBits13 kp).bind listItems, (parseTerm fOfBits13 vp).bind listItems,
          (parseTerm fOfBits13 lit).bind mapEntries,
          allSome ((if ops = "-" then [] else ops.splitOn ";").map parseOp) with
    | some kp, some vp, some lit, some ops =>
      runProgram q env kp vp lit ops ++ "\t" ++ runProgram Val.spec env kp vp lit ops
    | _, _, _, _ => "bad-args"
  | _, _ => "bad-op"

def main : IO Unit := Proto.run handleC13
