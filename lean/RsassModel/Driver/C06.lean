/- Driver for C06.
  `uid <threads> <compiles> <calls> <mode>`      → `n=<threads*compiles*calls>`
  `uidrange <hex of first observed id> <n>`      → `last=<hex id>\tdigest=<fnv64>\tpanics=<k>`
        (the model started in the state just before the first observed id, run for n calls)
  `uidpid <pid>`                                 → hex of the first id of a fresh process
  `rand <hex scss> <n> <term>`                   → asis \t spec, each `unit` | `int:<bound>` | `err:<kind>`
        term = null | nonnum | nan | inf | num:<numerator>:<denominator>
  `randseed <state> <hex scss> <bound> <term>`   → as `rand` (the class of the answer)
  `randdraw <term> <a> <b> <i>`                  → `unit:a/b` | `int:<v>` | `err`: `random` of the model fed
        the unit draw a/b and the integer draw i that the real generator made in the seeded state
-/
import RsassModel.Basic.Proto
import RsassModel.Glue.Uid
open Glue.Uid

/-- run the model's `step` n times, folding the FNV digest of the ids joined by ',' -/
def digestRun (oc : Bool) : Nat → St → UInt64 → Bool → List Char → Nat → (UInt64 × List Char × Nat)
  | 0, _, h, _, last, p => (h, last, p)
  | n + 1, s, h, first, last, p =>
    match step oc s with
    | (s1, .id t) =>
      let h := if first then h else fnvStep h 44
      let h := t.foldl (fun h c => fnvStep h (UInt8.ofNat c.toNat)) h
      digestRun oc n s1 h false t p
    | (s1, .panic) => digestRun oc n s1 h first last (p + 1)

def hex16 (x : UInt64) : String :=
  let s := String.ofList (toHex x.toNat)
  String.ofList (List.replicate (16 - s.length) '0') ++ s

def parseLimit (t : String) : Option Limit :=
  match t.splitOn ":" with
  | ["null"] => some .null
  | ["nonnum"] => some .notNumber
  | ["nan"] => some .nan
  | ["inf"] => some (.inf false)
  | ["-inf"] => some (.inf true)
  | ["num", n, d] =>
    match n.toInt?, d.toNat? with
    | some n, some d => if d = 0 then none else some (.num n d)
    | _, _ => none
  | _ => none

def showRand (q : RandQuirks) (l : Limit) : String :=
  -- the draws are irrelevant for the shape of the answer: report the bound
  match l with
  | .null => "unit"
  | l =>
    match positiveInt q l with
    | .ok b => "int:" ++ toString b
    | .error .notNumber => "err:notNumber"
    | .error .notInt => "err:notInt"
    | .error .notPositive => "err:notPositive"

def handleC06 (quirks : List String) (op : String) (args : List String) : String :=
  match op, args with
  | "uid", [t, c, k, _mode] =>
    match t.toNat?, c.toNat?, k.toNat? with
    | some t, some c, some k => "n=" ++ toString (t * c * k)
    | _, _, _ => "bad-args"
  | "uidrange", [first, n] =>
    match parseId? (Proto.stringOfHex first).toList, n.toNat? with
    | some v, some n =>
      if v = 0 then "bad-args" else
      let (h, last, p) := digestRun true n ⟨v - 1, false⟩ 0xcbf29ce484222325 true [] 0
      "last=" ++ Proto.hexOfString (String.ofList last) ++ "\tdigest=" ++ hex16 h ++ "\tpanics=" ++ toString p
    | _, _ => "bad-args"
  | "uidpid", [pid] =>
    match pid.toNat? with
    | some pid =>
      match (step true ⟨initCounter pid, false⟩).2 with
      | .id t => Proto.hexOfString (String.ofList t)
      | .panic => "panic"
    | none => "bad-args"
  | "rand", [_src, _n, term] =>
    match parseLimit term with
    | some l =>
      let q : RandQuirks := { intTolF32Eps := quirks.contains "intTolF32Eps" }
      showRand q l ++ "\t" ++ showRand randSpec l
    | none => "bad-args"
  | "randseed", [_state, _src, _bound, term] =>
    match parseLimit term with
    | some l =>
      let q : RandQuirks := { intTolF32Eps := quirks.contains "intTolF32Eps" }
      showRand q l ++ "\t" ++ showRand randSpec l
    | none => "bad-args"
  | "randdraw", [term, a, b, i] =>
    -- the model fed the draws the generator made: unit draw a/b, integer draw i
    match parseLimit term, a.toNat?, b.toNat?, i.toInt? with
    | some l, some a, some b, some i =>
      let q : RandQuirks := { intTolF32Eps := quirks.contains "intTolF32Eps" }
      match random q (a, b) (fun _ => i) l with
      | .ok (.unit a b) => "unit:" ++ toString a ++ "/" ++ toString b
      | .ok (.int v) => "int:" ++ toString v
      | .error _ => "err"
    | _, _, _, _ => "bad-args"
  | _, _ => "bad-op"

def main : IO Unit := Proto.run handleC06
