/- Driver for C19.  Case line (shared with the harness' generic `compile` op):
   `compile scss <e|c> <prec> <name> <hex scss> K19 n item^n`
   → hex of the rendered rule blocks (`header{d1;d2;}` per line) for asis, spec; `err` when a
   parent cannot take a `&` suffix (`panic` under the old-code flag `suffixUnwrapPanics`). -/
import RsassModel.Basic.Proto
import RsassModel.Sel.Term
import RsassModel.Sel.Nest
open Sel Sel.Term

namespace DrvC19

mutual
  partial def item : P Item
    | "D" :: ts => match str ts with | some (n, r) => some (.decl n, r) | none => none
    | "U" :: ts =>
      match selset ts with
      | some (s, r) => match items r with | some (b, r') => some (.rule s b, r') | none => none
      | none => none
    | "T" :: ts =>
      match selset ts with
      | some (s, r) => match items r with | some (b, r') => some (.atRoot s b, r') | none => none
      | none => none
    | _ => none
  partial def items : P (List Item) := fun ts =>
    match nat ts with
    | some (n, r) => many item n r
    | none => none
end

def sheet : P (List Item)
  | "K19" :: ts => items ts
  | _ => none

def render (q : NestQuirks) (compressed : Bool) (its : List Item) : String :=
  match sheetOutcome q its with
  | .panic => "panic"
  | .err => "err"
  | .ok blocks => Proto.hexOfString (String.ofList (renderBlocks compressed blocks))

def handle (quirks : List String) (op : String) (args : List String) : String :=
  match op, args with
  | "compile", [_, style, _, _, _, term] =>
    match parseAll sheet term with
    | some its =>
      let q : NestQuirks := { ampViaUnify := quirks.contains "ampViaUnify",
                              suffixUnwrapPanics := quirks.contains "suffixUnwrapPanics",
                              appendIdLastWins := quirks.contains "appendIdLastWins" }
      render q (style == "c") its ++ "\t" ++ render nestSpec (style == "c") its
    | none => "bad-args"
  | _, _ => "bad-op"

end DrvC19

def main : IO Unit := Proto.run DrvC19.handle
