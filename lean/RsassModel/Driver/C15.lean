/- Driver for C15: `expr <style> <precision> <hex expr>` → value text of the expression
parsed by the rsass layer model (live flags) and by the Sass grammar, both evaluated by
the model evaluator: `ok:<hex text>` | `err` | `unk` (outside the modelled fragment). -/
import RsassModel.Basic.Proto
import RsassModel.Expr.Prec
open Expr

def resLine (r : Res) : String :=
  match r with
  | .err => "err"
  | .unk => "unk"
  | .ok .opq => "opq"
  | r => "ok:" ++ Proto.hexOfString (showRes r)

def handleC15 (quirks : List String) (op : String) (args : List String) : String :=
  match op, args with
  | "expr", [_, _, hx] =>
    match lex (Proto.stringOfHex hx).toList with
    | some ts =>
      let q : Quirks := { andOrSameLevel := quirks.contains "andOrSameLevel",
                          relEqSameLevel := quirks.contains "relEqSameLevel",
                          remZeroSign := quirks.contains "remZeroSign",
                          undefDeferred := quirks.contains "undefDeferred",
                          undefKept := quirks.contains "undefKept" }
      resLine (evalParse q (parseRsass q ts)) ++ "\t" ++ resLine (evalParse spec (parseSass ts))
    | none => "bad-op"
  | _, _ => "bad-op"

def main : IO Unit := Proto.run handleC15
