/- Driver for C40.
`c40 <e|c> <precision> <load path|-> <dir> <files> <inputs a,b> <lib results r;r> <argv hex,hex,..> [cli observation]`
The model parses `argv` like clap does, checks that it denotes the style/precision/load
path/inputs of the explicit fields (for which the library results were computed), runs the
`Args::run` loop over the library results and answers `<exit>|<hex stdout>|<=|^><hex stderr>`
(`=` exact text, `^` only a prefix is predicted). -/
import RsassModel.Basic.Proto
import RsassModel.Glue.Cli
open GlueE

def splitNE (s : String) (sep : String) : List String := (s.splitOn sep).filter (· ≠ "")

def stripPre (pre t : Text) : Text := if pre.isPrefixOf t then t.drop pre.length else t

def handleC40 (quirks : List String) (op : String) (args : List String) : String :=
  match op, args with
  | "c40", style :: prec :: lp :: dir :: files :: inputs :: libres :: argv :: more =>
    match prec.toNat? with
    | none => "bad-args"
    | some p =>
      let argvT : List Text := (splitNE argv ",").map fun h => (Proto.stringOfHex h).toList
      let ins : List Text := (splitNE inputs ",").map String.toList
      let rs : List String := splitNE libres ";"
      let table : List (Text × Except Text Text) := ins.zip (rs.map fun r =>
        if r.startsWith "ok:" then Except.ok (Proto.stringOfHex (r.drop 3).toString).toList
        else Except.error (Proto.stringOfHex (r.drop 4).toString).toList)
      let root : Text := ("/verif/.cache/" ++ dir ++ "/").toList
      let lib : List Text → Format → Text → Except Text Text := fun _ _ f =>
        match table.lookup (stripPre root f) with
        | some r => r
        | none => .error "?".toList
      let consistent : Bool :=
        match parseArgs argvT with
        | none => true
        | some a =>
          a.prec == p && a.compressed == (style == "c") &&
          (a.loadPath.map (stripPre root)) == (if lp == "-" then none else some lp.toList) &&
          a.inputs.map (stripPre root) == ins
      if !consistent then "argmismatch"
      else
        let o := runCli lib argvT
        let mode := if (parseArgs argvT).isNone then "^" else "="
        let base := toString o.exit ++ "|" ++ Proto.hexOfString (String.ofList o.stdout) ++ "|" ++ mode ++
          Proto.hexOfString (String.ofList o.stderr)
        -- load-order cases: `lo:<i|u>:<url>:..` in field 10 (after the CLI observation)
        match (more.drop 1).head? with
        | some kind =>
          match kind.splitOn ":" with
          | "lo" :: how :: url :: _ =>
            let names : List Text := (splitNE files ",").map fun e => ((e.splitOn ":").headD "").toList
            let fs : Text → Bool := fun p => names.contains p
            let a : CliArgs := { loadPath := if lp == "-" then none else some lp.toList }
            let paths := cliPaths a (ins.headD [])
            let cands := candidates (how == "i") url.toList
            let show_ (r : Option Text) : String := match r with | some t => String.ofList t | none => "-"
            let q : CliQuirks := { loadNameMajor := quirks.contains "loadNameMajor" }
            base ++ "|" ++ show_ (resolveLoad q fs paths cands) ++ "\t" ++
              base ++ "|" ++ show_ (resolveLoad cliSpec fs paths cands)
          | _ => base
        | none => base
  | "c40", _ => "bad-args"
  | _, _ => "bad-op"

def main : IO Unit := Proto.run handleC40
