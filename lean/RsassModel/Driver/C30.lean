/- Driver for C30: `cf <tree> <hex scss (ignored)>` → declaration value text (precision 10)
of the as-is model and of the specification model.
tree := `n<f64 bits>:<unit>` | `v<k>` | `i<name>` | `p(<tree>)` | `b<+-*/>(<tree>,<tree>)` -/
import RsassModel.Basic.Proto
import RsassModel.Num.FloatInst
import RsassModel.Num.Format
import RsassModel.Calc.Model
import RsassModel.Calc.FloatInst
open Calc MathFn

def unitOfName30 : String → Option MUnit
  | "" | "-" => some .none | "px" => some .px | "in" => some .inch | "cm" => some .cm | "mm" => some .mm
  | "pt" => some .pt | "pc" => some .pc | "Q" => some .q | "deg" => some .deg | "grad" => some .grad
  | "rad" => some .rad | "turn" => some .turn | "s" => some .s | "ms" => some .ms | "Hz" => some .hz
  | "kHz" => some .khz | "dpi" => some .dpi | "dpcm" => some .dpcm | "dppx" => some .dppx
  | "%" => some .percent | "em" => some .em | "foo" => some .other | _ => none

def unitName30 : MUnit → String
  | .none => "" | .px => "px" | .inch => "in" | .cm => "cm" | .mm => "mm" | .pt => "pt" | .pc => "pc"
  | .q => "Q" | .deg => "deg" | .grad => "grad" | .rad => "rad" | .turn => "turn" | .s => "s" | .ms => "ms"
  | .hz => "Hz" | .khz => "kHz" | .dpi => "dpi" | .dpcm => "dpcm" | .dppx => "dppx" | .percent => "%"
  | .em => "em" | .other => "foo"

def showQ30 (x : Q Float) : String :=
  Num.fmtNumber Num.fmtSpec false 10 x.v ++ unitName30 x.u

def opOfCh : Char → Option Op
  | '+' => some .plus | '-' => some .minus | '*' => some .mul | '/' => some .div | _ => none

def pTree : Nat → List Char → Option (T Float × List Char)
  | 0, _ => none
  | fuel + 1, cs =>
    match cs with
    | 'n' :: r =>
      let ds := r.takeWhile Char.isDigit
      match r.dropWhile Char.isDigit with
      | ':' :: r2 =>
        let us := r2.takeWhile (fun c => c != ',' && c != ')')
        match (String.ofList ds).toNat?, unitOfName30 (String.ofList us) with
        | some b, some u => some (.num ⟨Float.ofBits (UInt64.ofNat b), u⟩, r2.dropWhile (fun c => c != ',' && c != ')'))
        | _, _ => none
      | _ => none
    | 'v' :: d :: r => some (.var (d.toNat - 48), r)
    | 'i' :: r =>
      let us := r.takeWhile (fun c => c != ',' && c != ')')
      some (.ident (String.ofList us), r.dropWhile (fun c => c != ',' && c != ')'))
    | 'p' :: '(' :: r =>
      match pTree fuel r with
      | some (t, ')' :: r2) => some (.paren t, r2)
      | _ => none
    | 'b' :: o :: '(' :: r =>
      match opOfCh o, pTree fuel r with
      | some op, some (a, ',' :: r2) =>
        match pTree fuel r2 with
        | some (b, ')' :: r3) => some (.bin op a b, r3)
        | _ => none
      | _, _ => none
    | _ => none

def handleC30 (quirks : List String) (op : String) (args : List String) : String :=
  match op, args with
  | "cf", t :: _ =>
    let cs := t.toList
    match pTree (cs.length + 2) cs with
    | some (tree, []) =>
      let q : CalcQuirks := { dropsLeftParens := quirks.contains "dropsLeftParens",
                              divRightAssoc := quirks.contains "divRightAssoc",
                              identPlusConcat := quirks.contains "identPlusConcat" }
      Proto.hexOfString (calcText q showQ30 tree) ++ "\t" ++ Proto.hexOfString (calcText Calc.spec showQ30 tree)
    | _ => "bad-args"
  | _, _ => "bad-op"

def main : IO Unit := Proto.run handleC30
