/- Driver for C26: `strfn <fn> <q|u> <hex s> [args]` (see harness/src/ops/c26.rs) →
`n:<k>` | `null` | `q:<hex>` | `u:<hex>` | `err`, as-is and spec. -/
import RsassModel.Basic.Proto
import RsassModel.Str.StrFn
open Str

def mkS (flag hx : String) : SStr := ⟨(Proto.stringOfHex hx).toList, flag == "q"⟩

def showS (s : SStr) : String :=
  (if s.quoted then "q:" else "u:") ++ Proto.hexOfString (String.ofList s.val)

def showOS : Option SStr → String
  | some s => showS s
  | none => "err"

def both (f : FnQuirks → String) (q : FnQuirks) : String := f q ++ "\t" ++ f fnSpec

def handleC26 (quirks : List String) (op : String) (args : List String) : String :=
  let q : FnQuirks := { sliceBadIndexes := quirks.contains "sliceBadIndexes" }
  match op, args with
  | "strfn", ["length", f, h] => "n:" ++ toString (strLength (mkS f h))
  | "strfn", ["upper", f, h] => showS (toUpper (mkS f h))
  | "strfn", ["lower", f, h] => showS (toLower (mkS f h))
  | "strfn", ["index", f, h, f2, h2] =>
    match strIndex (mkS f h) (mkS f2 h2) with
    | some k => "n:" ++ toString k
    | none => "null"
  | "strfn", ["insert", f, h, f2, h2, i] =>
    match i.toInt? with
    | some i => showS (strInsert (mkS f h) (mkS f2 h2).val i)
    | none => "bad-args"
  | "strfn", ["slice", f, h, i] =>
    match i.toInt? with
    | some i => both (fun q => showOS (strSlice q (mkS f h) i (-1))) q
    | none => "bad-args"
  | "strfn", ["slice", f, h, i, j] =>
    match i.toInt?, j.toInt? with
    | some i, some j => both (fun q => showOS (strSlice q (mkS f h) i j)) q
    | _, _ => "bad-args"
  | _, _ => "bad-op"

def main : IO Unit := Proto.run handleC26
