/- Driver for C05.
  `history <mode> <threads> <style> <term> <hex scss>...`
  term = `-` (no model opinion: sources taken from the spec suite) or, per source, a
  `,`-separated list of statements, sources separated by `|`:
    A:ns:x:d   `ns.$x: 7` (`_` = no namespace; d=1: `!default`)
    U:url:ns:n `@use "url" as ns with (n entries)`     S:url  `@use "url" as *`
    F:url:n    `@forward "url" with (n entries)`        L:url:n `meta.load-css("url", $with: n entries)`
    D:f        `@function f`      V:ns:x  emit `ns.$x`   W:k  a deprecated construct (dep_warn site k)
  Answer: for each source `ok` or `err:<kind>` (tab separated), as the model run of the
  WHOLE history in one process predicts (which, by `history_independent`, equals the
  prediction for each source alone). -/
import RsassModel.Basic.Proto
import RsassModel.Glue.Globals
open Glue.Globals

def mathVars : List (Name × Val) :=
  ["pi", "e", "epsilon", "max-safe-integer", "min-safe-integer", "max-number", "min-number"].map
    fun n => (n.toList, Val.num 0)

def proc0 : Process :=
  { modules := ["sass:color", "sass:list", "sass:map", "sass:math", "sass:meta", "sass:selector", "sass:string"].map
      fun u => (u.toList, ⟨some u.toList, if u == "sass:math" then mathVars else [], []⟩),
    functions := [], callId := 0, warned := [] }

def nsOf (s : String) : Option Name := if s == "_" then none else some s.toList

def cfgOf (n : String) : List (Name × Val) := if n == "0" then [] else [("x".toList, Val.num 1)]

def parseOp (s : String) : Option Op :=
  match s.splitOn ":" with
  | ["A", ns, x, d] => some (.assign (nsOf ns) x.toList (.num 7) (d == "1") false)
  | ["U", u1, u2, ns, n] => some (.use (u1 ++ ":" ++ u2).toList ns.toList (cfgOf n) none)
  | ["U", u, ns, n] => some (.use u.toList ns.toList (cfgOf n) none)
  | ["S", u1, u2] => some (.useStar (u1 ++ ":" ++ u2).toList)
  | ["S", u] => some (.useStar u.toList)
  | ["F", u1, u2, n] => some (.forward (u1 ++ ":" ++ u2).toList (cfgOf n) none)
  | ["F", u, n] => some (.forward u.toList (cfgOf n) none)
  | ["L", u1, u2, n] => some (.loadCss (u1 ++ ":" ++ u2).toList (cfgOf n) false)
  | ["L", u, n] => some (.loadCss u.toList (cfgOf n) false)
  | ["D", f] => some (.defineFn f.toList 1)
  | ["V", ns, x] => some (.emitVar (nsOf ns) x.toList)
  | ["W", k] => some (.depWarn k.toNat!)
  | _ => none

def showErr : Err → String
  | .noModule => "noModule" | .undefinedVariable => "undefinedVariable"
  | .modifiedBuiltin => "modifiedBuiltin" | .configBuiltin => "configBuiltin"
  | .cantFind => "cantFind" | .undefinedFunction => "undefinedFunction"
  | .unusedConfig => "unusedConfig"

def handleC05 (_quirks : List String) (op : String) (args : List String) : String :=
  match op, args with
  | "history", _mode :: _threads :: _style :: term :: _ =>
    if term == "-" then "bad-op" else
    let progs := (term.splitOn "|").map fun src =>
      (src.splitOn ",").filter (· ≠ "") |>.map parseOp
    if progs.any (·.any Option.isNone) then "bad-args" else
    let progs : List (List Op) := progs.map (·.filterMap id)
    let (_, rs) := runHistory proc0 progs
    ";".intercalate (rs.map fun r => match r with
      | .ok _ => "ok"
      | .error e => "err:" ++ showErr e)
  | _, _ => "bad-op"

def main : IO Unit := Proto.run handleC05
