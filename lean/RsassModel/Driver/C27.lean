/- Driver for C27: `strlit d <hex content>` →
as-is: `ok:<hex emitted token>|<length>` or `err`;  spec: `den:<hex denoted code points>|<length>`. -/
import RsassModel.Basic.Proto
import RsassModel.Str.Escape
open Str

def handleC27 (quirks : List String) (op : String) (args : List String) : String :=
  let q : EscQuirks :=
    { keepsEscapes := quirks.contains "keepsEscapes",
      cleanupDropsSpace := quirks.contains "cleanupDropsSpace",
      dqLineContinuation := quirks.contains "dqLineContinuation",
      badEscapeLiteral := quirks.contains "badEscapeLiteral",
      puaUnterminated := quirks.contains "puaUnterminated",
      unquoteDecimal := quirks.contains "unquoteDecimal" }
  match op, args with
  | "strlit", ["d", hx] =>
    let content := (Proto.stringOfHex hx).toList
    let asis :=
      match parseDq q content, litLength q content with
      | some v, some n => "ok:" ++ Proto.hexOfString (String.ofList (display q v)) ++ "|" ++ toString n
      | _, _ => "err"
    let den := decodeCss content
    asis ++ "\t" ++ "den:" ++ Proto.hexOfString (String.ofList den) ++ "|" ++ toString den.length
  | _, _ => "bad-op"

def main : IO Unit := Proto.run handleC27
