/- Driver for C21: generic `compile` lines carrying the program term (see Dest/Handle.lean). -/
import RsassModel.Dest.Handle

def main : IO Unit := Proto.run Dest.handle
