/- Driver for C32: `c32 <law> <E1> <E2>` → `ok:<E1 == E2>|<reports of E1>|<reports of E2>` (asis, spec). -/
import RsassModel.Basic.Proto
import RsassModel.Color.Parse
open Color

def c32One (q : CQuirks) (op : String) (args : List String) : String :=
  match op, args with
  | "c32", [_, a, b] =>
    match parseField a, parseField b with
    | some a, some b =>
      match a.eval q, b.eval q with
      | some x, some y => "ok:" ++ tf (x.eqv q y) ++ "|" ++ chanReport q x ++ "|" ++ chanReport q y
      | _, _ => "err"
    | _, _ => "bad-args"
  | _, _ => "bad-op"

def handleC32 (quirks : List String) (op : String) (args : List String) : String :=
  let a := c32One (quirksOf quirks) op args
  if a == "bad-op" || a == "bad-args" then a
  else a ++ "\t" ++ c32One CQuirks.spec op args

def main : IO Unit := Proto.run handleC32
