/- Driver for C11 (unit arithmetic).  Ops (see harness/src/ops/c11.rs):
  `c11.scale u v`, `c11.uscale us vs`, `c11.op op abits aunits bbits bunits`,
  `c11.src op alit aunit blit bunit abits bbits`.  Answers `asis\tspec`. -/
import RsassModel.Basic.Proto
import RsassModel.Num.FloatInst
import RsassModel.Units.FloatInst
import RsassModel.Units.Display
open Units

def quirksOf (qs : List String) : UQuirks :=
  { emExChConvertible := qs.contains "emExChConvertible",
    vminVmaxConvertible := qs.contains "vminVmaxConvertible",
    percentFrUnitless := qs.contains "percentFrUnitless",
    incompatKept := qs.contains "incompatKept",
    cmpIncompatFalse := qs.contains "cmpIncompatFalse",
    cmpUnitlessEqNone := qs.contains "cmpUnitlessEqNone" }

def unitOf (s : String) : U :=
  if s == "-" || s == "" then .known .none
  else match KU.all.find? (fun k => k.name == s.toList) with
    | some k => .known k
    | none => .unknown s.toList

def parseInt (s : String) : Option Int :=
  match s.toList with
  | '-' :: r => (String.ofList r).toNat?.map fun n => -(Int.ofNat n)
  | _ => s.toNat?.map Int.ofNat

/-- the harness builds a set by multiplying / dividing `UnitSet::from(unit)` |p| times -/
def buildSet (s : String) : Option UnitSet :=
  if s == "-" || s == "" then some []
  else
    (s.splitOn ",").foldl (fun acc part =>
      match acc, part.splitOn "^" with
      | some r, [n, p] =>
        match parseInt p with
        | some p =>
          let one := setOf (unitOf n)
          some ((List.range p.natAbs).foldl (fun r _ => if p > 0 then setMul r one else setDiv r one) r)
        | none => none
      | _, _ => none) (some [])

def setShow (s : UnitSet) : String :=
  if s.isEmpty then "-"
  else ",".intercalate (s.map fun x =>
    (if x.1 = U.known KU.none then "-" else String.ofList x.1.name) ++ "^" ++ toString x.2)

def optShow (o : Option Float) : String :=
  match o with
  | some x => "some:" ++ toString x.toBits.toNat
  | none => "none"

def opOf : String → Option Op
  | "add" => some .add | "sub" => some .sub | "lt" => some .lt | "le" => some .le
  | "gt" => some .gt | "ge" => some .ge | "eq" => some .eq | "ne" => some .ne
  | "mul" => some .mul | "div" => some .div | _ => none

def resShow : Res Float → String
  | .num n => "num:" ++ toString n.v.toBits.toNat ++ ":" ++ setShow n.u
  | .bool true => "true"
  | .bool false => "false"
  | .kept => "kept"
  | .err => "err"

def srcShow (o : Option (List Char)) : String :=
  match o with
  | some t => "ok:" ++ Proto.hexOfString (String.ofList t)
  | none => "err"

def both (f : UQuirks → String) (q : UQuirks) : String := f q ++ "\t" ++ f uSpec

def handleC11 (quirks : List String) (op : String) (args : List String) : String :=
  let q := quirksOf quirks
  match op, args with
  | "c11.scale", [u, v] =>
    both (fun q => optShow (scaleTo (α := Float) q (unitOf u) (unitOf v))) q
  | "c11.uscale", [a, b] =>
    match buildSet a, buildSet b with
    | some a, some b => both (fun q => optShow (setScaleTo (α := Float) q a b)) q
    | _, _ => "bad-args"
  | "c11.op", [o, ab, au, bb, bu] =>
    match opOf o, ab.toNat?, buildSet au, bb.toNat?, buildSet bu with
    | some o, some ab, some au, some bb, some bu =>
      let a : Numeric Float := ⟨Float.ofBits (UInt64.ofNat ab), au⟩
      let b : Numeric Float := ⟨Float.ofBits (UInt64.ofNat bb), bu⟩
      both (fun q => resShow (evalOp q o a b)) q
    | _, _, _, _, _ => "bad-args"
  | "c11.src", [o, _, au, _, bu, ab, bb] =>
    match opOf o, ab.toNat?, bb.toNat? with
    | some o, some ab, some bb =>
      let a : Numeric Float := ⟨Float.ofBits (UInt64.ofNat ab), setOf (unitOf au)⟩
      let b : Numeric Float := ⟨Float.ofBits (UInt64.ofNat bb), setOf (unitOf bu)⟩
      both (fun q => srcShow (srcText q 10 o a b)) q
    | _, _, _ => "bad-args"
  | _, _ => "bad-op"

def main : IO Unit := Proto.run handleC11
