/- Driver for C33: `cfmt <e|c> <precision> <E>` → `ok:<hex of the emitted text>` (asis, spec). -/
import RsassModel.Basic.Proto
import RsassModel.Color.Parse
import RsassModel.Color.Fmt
open Color

def c33One (q : CQuirks) (op : String) (args : List String) : String :=
  match op, args with
  | "cfmt", [style, prec, e] =>
    match prec.toNat?, parseField e with
    | some p, some ex =>
      let comp := style == "c"
      -- a literal colour (keyword, `#rgb`, `#rrggbb`) is emitted as it was written
      -- (parser/value.rs `hex_color` keeps the source text only for the forms without alpha)
      let raw : Option String :=
        match (e.splitOn " ").filter (· ≠ "") with
        | ["hex", d] => if d.length == 3 || d.length == 6 then some ("#" ++ d) else none
        | ["name", n] => some n
        | _ => none
      match raw with
      | some r => "ok:" ++ Proto.hexOfString r
      | none =>
        match ex.eval q with
        | some c =>
          let num := fun (x : Float) => (Num.fmtNumber Num.fmtSpec comp p x).toList
          "ok:" ++ Proto.hexOfString (String.ofList (renderTok num comp (c.tok q comp)))
        | none => "err"
    | _, _ => "bad-args"
  | _, _ => "bad-op"

def handleC33 (quirks : List String) (op : String) (args : List String) : String :=
  let a := c33One (quirksOf quirks) op args
  if a == "bad-op" || a == "bad-args" then a
  else a ++ "\t" ++ c33One CQuirks.spec op args

def main : IO Unit := Proto.run handleC33
