/- Driver for C01: answers the guard-logic ops (`panic.*`, `numfmt`) from the model in
`Glue/Panics.lean` with `ok` or `panic`; `c01`/`compile` lines are not modelled (`bad-op`). -/
import RsassModel.Basic.Proto
import RsassModel.Glue.Panics
open Panics

namespace DrvC01

def render {α} : R α → String
  | .ok _ => "ok"
  | .error _ => "panic"

def compressedOf (style : String) : Bool := style == "c"

/-- the output tree of `panic.indent`: a tower of at-rules (`a` unknown at-rule, `s` @supports:
both `AtRule`; `m` @media: `MediaRule`) around the inner item -/
def innerItem (inner : String) : Item :=
  match inner with
  | "r" => .block [.leaf]          -- b{c:d}
  | "d" => .leaf                   -- c:d
  | "i" => .leaf                   -- @import url(x)
  | _ => .silent

/-- build the tree top-down so that a comment knows its indentation -/
def towerTree : List Char → String → Nat → Item
  | [], inner, indent =>
    match inner with
    | "c" => .comment indent      -- a one-line comment: `existing = indent`
    | "e" => .silent
    | other => innerItem other
  | [k], "c", indent =>
    -- an `AtRule` whose body is exactly one comment is written inline; a `MediaRule` is not
    if k == 'm' then .block [.comment (indent + 2)] else .inlineComment indent
  | [k], "e", _ =>
    -- `MediaRule` with an empty body writes nothing; `AtRule` with `Some([])` writes `{}`
    if k == 'm' then .silent else .block []
  | _ :: rest, inner, indent => .block [towerTree rest inner (indent + 2)]

def parseIntOrNan (s : String) (scale : Int) : Option Chan :=
  if s.toLower == "nan" then some none
  else match s.toInt? with
    | some v => some (some (v * scale))
    | none => none

/-- split a character list at the characters satisfying `p` (separators dropped) -/
def splitChars (p : Char → Bool) : List Char → List Char → List (List Char)
  | [], cur => [cur.reverse]
  | c :: rest, cur => if p c then cur.reverse :: splitChars p rest [] else splitChars p rest (c :: cur)

def trimSpaces (s : List Char) : List Char :=
  ((s.dropWhile (· == ' ')).reverse.dropWhile (· == ' ')).reverse

def lastCompound (s : List Char) : List Char :=
  let toks := splitChars (fun c => c == ' ' || c == '>' || c == '+' || c == '~') s []
  match (toks.filter (· ≠ [])).getLast? with
  | some cs =>
    -- `*` is not printed in front of class / id / placeholder / pseudo selectors
    match cs with
    | '*' :: c :: rest => if c == '.' || c == '#' || c == '%' || c == ':' then c :: rest else cs
    | _ => cs
  | none => []

def quirksOf (qs : List String) : Quirks :=
  { indentSlice80 := qs.contains "indentSlice80"
    commentIndentSlice80 := qs.contains "commentIndentSlice80"
    rangeToPlusStep := qs.contains "rangeToPlusStep"
    colorCmpNan := qs.contains "colorCmpNan"
    resolveRefUnwrap := qs.contains "resolveRefUnwrap"
    calcGetSingle := qs.contains "calcGetSingle" }

/-- answer `asis\tspec` -/
def both (f : Quirks → String) (qs : List String) : String :=
  f (quirksOf qs) ++ "\t" ++ f Quirks.spec

def handle (quirks : List String) (op : String) (args : List String) : String :=
  match op, args with
  | "panic.indent", [style, tower, inner] =>
    let t := tower.toList
    both (fun q => render (writeCssQ q (compressedOf style) [towerTree t inner 0])) quirks
  | "panic.comment", [style, n, sp, star] =>
    match n.toNat?, sp.toNat? with
    | some n, some sp =>
      let line := List.replicate sp ' ' ++ [if star == "1" then '*' else 'x'] ++ " b ".toList
      let indentOf (k : Nat) := 2 * k
      let item :=
        if n == 0 then Item.comment (existingOf 0 [line])
        else tower (n - 1) (.inlineComment (existingOf (indentOf (n - 1)) [line]))
      both (fun q => render (writeCssQ q (compressedOf style) [item])) quirks
    | _, _ => "bad-args"
  | "panic.range", [_, _, incl, fv, tv] =>
    match fv.toInt?, tv.toInt? with
    | some f, some t =>
      -- iteration itself never overflows (theorem rangeIter_safe); only construction can
      both (fun q => render (rangeNewQ q (satI64 f) (satI64 t) (incl == "1"))) quirks
    | _, _ => "bad-args"
  | "panic.cmpcolor", [h1, s1, l1, a1, h2, s2, l2, a2] =>
    match parseIntOrNan h1 1000, parseIntOrNan s1 1000, parseIntOrNan l1 1000, parseIntOrNan a1 10,
          parseIntOrNan h2 1000, parseIntOrNan s2 1000, parseIntOrNan l2 1000, parseIntOrNan a2 10 with
    | some h1, some s1, some l1, some a1, some h2, some s2, some l2, some a2 =>
      both (fun q => render (colorCmpQ q (hslaFromValues h1 s1 l1 a1) (hslaFromValues h2 s2 l2 a2))) quirks
    | _, _, _, _, _, _, _, _ => "bad-args"
  | "panic.amp", [p, c] =>
    let parent := Proto.stringOfHex p
    let child := (Proto.stringOfHex c).toList
    let alts := (splitChars (· == ',') parent.toList []).map (fun s => lastCompound (trimSpaces s))
    both (fun q => render (resolveRefQ q alts child)) quirks
  | "panic.calcargs", [n] =>
    match n.toNat? with
    | some n => both (fun q => render (calcInnerCallQ q 0 n)) quirks
    | none => "bad-args"
  | "numfmt", [bits, _prec, _style] =>
    match bits.toNat? with
    | some b =>
      let x := Float.ofBits (UInt64.ofNat b)
      if x.isNaN || x.isInf then "ok"
      else
        let a := x.abs
        let whole := a.floor
        if a - whole == 0 then "ok"
        else render (maxDecimals whole.toUInt64.toNat)
    | none => "bad-args"
  | _, _ => "bad-op"

end DrvC01

def main : IO Unit := Proto.run DrvC01.handle
