/- Driver for C18: `compile scss <style> <prec> <name> <hex src> <files> <roots> <program term>`
   → `asis\tspec` (`ok:p1=1;…` | `err` | `unmodelled` | `unspec:<prefix>` | `fuel`), or
   `skip\tskip` when the program's result depends on the *scoping* deviations of C16
   (evaluated with the code's scope flags and the spec argument flags vs. everything spec):
   those programs are C16's business and are not judged here. -/
import RsassModel.Basic.Proto
import RsassModel.Core.Term
open Core

def argQuirksOf (qs : List String) : ArgQuirks :=
  { restSwallowsDup := qs.contains "restSwallowsDup", onlyNamedRest := qs.contains "onlyNamedRest" }

def handleC18 (quirks : List String) (op : String) (args : List String) : String :=
  match op with
  | "compile" =>
    match args[7]? with
    | none => "bad-op"
    | some term =>
      match parseProgram term with
      | .error _ => "bad-args"
      | .ok prog =>
        let spec := runTerm specCfg prog
        let scopeOnly := runTerm { sq := asisScopeQuirks, aq := specArgQuirks, ghosts := false } prog
        if scopeOnly != spec then "skip\tskip"
        else
          let asis := runTerm { sq := asisScopeQuirks, aq := argQuirksOf quirks, ghosts := false } prog
          asis ++ "\t" ++ spec
  | _ => "bad-op"

def main : IO Unit := Proto.run handleC18
