/- Driver for C09: `c09str <hex utf-8 value>` → `<hex of the Display text>|<ok|err>` (as is, spec):
   the double-quoted `CssString` text (`Writer.Str.showQ`, hex digits rendered here) and whether the
   reader accepts it (`Writer.Str.readRaw`). -/
import RsassModel.Basic.Proto
import RsassModel.Writer.CssString
open Writer.Str

namespace C09Drv

def hexDigits (n : Nat) : List Char := (Nat.toDigits 16 n)

def render (toks : List Tok) : String :=
  String.ofList (['"'] ++ toks.flatMap (fun t => match t with
    | .ch c => [Char.ofNat c]
    | .bsq => ['\\', '"']
    | .esc c sp => ['\\'] ++ hexDigits c ++ (if sp then [' '] else [])) ++ ['"'])

def answer (q : SQuirks) (s : List Nat) : String :=
  let toks := showQ q s
  Proto.hexOfString (render toks) ++ "|" ++ (match readRaw q toks with | some _ => "ok" | none => "err")

def handle (quirks : List String) (op : String) (args : List String) : String :=
  match op, args with
  | "c09str", [h] =>
    let s := (Proto.stringOfHex h).toList.map Char.toNat
    let q : SQuirks := { escapeUnterminated := quirks.contains "escapeUnterminated"
                         readerIgnoresEscapes := quirks.contains "readerIgnoresEscapes" }
    answer q s ++ "\t" ++ answer SQuirks.spec s
  | _, _ => "bad-op"

end C09Drv

def main : IO Unit := Proto.run C09Drv.handle
