/- Driver for C09: `c09str <hex utf-8 value>` → `<hex of the Display text>|<ok|err>` (as is, spec):
   the double-quoted `CssString` text (`Writer.Str.showQ`, hex digits rendered here) and whether the
   reader accepts it (`Writer.Str.readRaw`). -/
import RsassModel.Basic.Proto
import RsassModel.Writer.CssString
import RsassModel.Writer.Ident
open Writer.Str

namespace C09Drv

def hexDigits (n : Nat) : List Char := (Nat.toDigits 16 n)

def render (toks : List Tok) : String :=
  String.ofList (['"'] ++ toks.flatMap (fun t => match t with
    | .ch c => [Char.ofNat c]
    | .bsq => ['\\', '"']
    | .esc c sp => ['\\'] ++ hexDigits c ++ (if sp then [' '] else [])) ++ ['"'])

def answer (q : SQuirks) (s : List Nat) : String :=
  let toks := showQ q s
  Proto.hexOfString (render toks) ++ "|" ++ (match readRaw q toks with | some _ => "ok" | none => "err")

def renderOut : Writer.Ident.Out → List Char
  -- the value is then printed by `Display for CssString`: a private-use character as `\{hex}` (the next character here, `z`, is no hex digit)
  | .raw c => if isPrivateUse c then ['\\'] ++ hexDigits c else [Char.ofNat c]
  | .bs c => ['\\', Char.ofNat c]
  | .hex c => ['\\'] ++ hexDigits c ++ [' ']

/-- expected expanded output of `a{b:[x]<escape>z}` read as plain css -/
def identAnswer (first : Bool) (c : Nat) : String :=
  let o := if first then Writer.Ident.normFirst Writer.Ident.thrCode c else Writer.Ident.normRest Writer.Ident.thrCode c
  let text := (if first then [] else ['x']) ++ renderOut o ++ ['z']
  let body := "a {\n  b: " ++ String.ofList text ++ ";\n}\n"
  let out := if text.all (fun ch => ch.toNat < 128) then body else "@charset \"UTF-8\";\n" ++ body
  "ok:" ++ Proto.hexOfString out

def handle (quirks : List String) (op : String) (args : List String) : String :=
  match op, args with
  | "c09str", [h] =>
    let s := (Proto.stringOfHex h).toList.map Char.toNat
    let q : SQuirks := { escapeUnterminated := quirks.contains "escapeUnterminated"
                         readerIgnoresEscapes := quirks.contains "readerIgnoresEscapes" }
    answer q s ++ "\t" ++ answer SQuirks.spec s
  | "c09id", [pos, cp, _sp] =>
    match cp.toNat? with
    | some c => identAnswer (pos == "f") c
    | none => "bad-args"
  | _, _ => "bad-op"

end C09Drv

def main : IO Unit := Proto.run C09Drv.handle
