/- Driver for C14.
  `logic <conv> <pool term> <expr term> <hex scss>`
     expr term (prefix): `L <value term>` | `T <id> <value term>` | `X <id>` | `not e` | `P e` (parenthesised) | `and a b` | `or a b`
  answer: `err` or `<index of the result in the pool (list.index), n if absent>:<type-of>|<ids of the thunks evaluated, in order>`
-/
import RsassModel.Basic.Proto
import RsassModel.Num.CmpFloat
import RsassModel.Value.Eq
import RsassModel.Value.Term
import RsassModel.Value.MapFn
import RsassModel.Value.Logic
open Val Num

def fOfBits14 (n : Nat) : Float := Float.ofBits (UInt64.ofNat n)

def parseE : Nat → List String → Option (LExpr Float × List String)
  | 0, _ => none
  | fuel + 1, toks =>
    match toks with
    | "L" :: r =>
      match parseV fOfBits14 (r.length + 1) r with
      | some (v, r') => some (.lit v, r')
      | none => none
    | "T" :: id :: r =>
      match id.toNat?, parseV fOfBits14 (r.length + 1) r with
      | some id, some (v, r') => some (.thunk id (some v), r')
      | _, _ => none
    | "X" :: id :: r =>
      match id.toNat? with
      | some id => some (.thunk id none, r)
      | none => none
    | "not" :: r =>
      match parseE fuel r with
      | some (e, r') => some (.not e, r')
      | none => none
    | "P" :: r =>
      match parseE fuel r with
      | some (e, r') => some (.paren e, r')
      | none => none
    | "and" :: r =>
      match parseE fuel r with
      | some (a, r1) =>
        match parseE fuel r1 with
        | some (b, r2) => some (.and a b, r2)
        | none => none
      | none => none
    | "or" :: r =>
      match parseE fuel r with
      | some (a, r1) =>
        match parseE fuel r1 with
        | some (b, r2) => some (.or a b, r2)
        | none => none
      | none => none
    | _ => none

def showRes (q : ValQuirks) (env : Env Float) (pool : List (V Float)) : Option (V Float) × List Nat → String
  | (none, _) => "err"
  | (some v, log) =>
    poolIndex q env pool v ++ ":" ++ v.typeName ++ "|" ++ ",".intercalate (log.map toString)

def handleC14 (quirks : List String) (op : String) (args : List String) : String :=
  let q : ValQuirks :=
    { numEqAsymmetric := quirks.contains "numEqAsymmetric"
      convCmpOneWay := quirks.contains "convCmpOneWay"
      strEqSameQuotesRaw := quirks.contains "strEqSameQuotesRaw"
      cmpOldUnitRules := quirks.contains "cmpOldUnitRules"
      mapEqOrdered := quirks.contains "mapEqOrdered"
      mapEqOneSided := quirks.contains "mapEqOneSided"
      argListNeverEqual := quirks.contains "argListNeverEqual"
      ordCalcFlag := quirks.contains "ordCalcFlag"
      ordNonNumberKept := quirks.contains "ordNonNumberKept" }
  let lq : LogicQuirks :=
    { notOnlyOnBool := quirks.contains "notOnlyOnBool"
      notMapUnevaluated := quirks.contains "notMapUnevaluated"
      parenNullTruthy := quirks.contains "parenNullTruthy" }
  match op, args with
  | "logic", conv :: pool :: expr :: _ =>
    let env := parseEnv fOfBits14 conv
    let toks := expr.splitOn " "
    match parseTerm fOfBits14 pool, parseE (toks.length + 1) toks with
    | some (.list pool _ _), some (e, []) =>
      showRes q env pool (evalL lq e []) ++ "\t" ++ showRes Val.spec env pool (evalL logicSpec e [])
    | _, _ => "bad-args"
  | _, _ => "bad-op"

def main : IO Unit := Proto.run handleC14
