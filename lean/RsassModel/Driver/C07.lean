/- Driver for C07:
   `c07w <e|c> <srcfmt> <hex src> <tree>` → `ok:<hex bytes>` | `err:atom`  (as is, spec);
   tree syntax: Writer/Term.lean -/
import RsassModel.Writer.Term
open Writer Writer.Term

namespace C07Drv

def styleOf (s : String) : Style := if s == "c" then .compressed else .expanded

def render (q : WQuirks) (s : Style) (items : List Node) : String :=
  match compile q s items with
  | some b => "ok:" ++ Proto.hexOfBytes (ByteArray.mk b.toArray)
  | none => "err:atom"

def handle (quirks : List String) (op : String) (args : List String) : String :=
  match op, args with
  | "c07w", [style, _fmt, _src, tree] =>
    match parseTree tree with
    | some items =>
      render (quirksOf quirks) (styleOf style) items ++ "\t" ++ render WQuirks.spec (styleOf style) items
    | none => "bad-args"
  | "c07w", [style, _fmt, _src] =>
    render (quirksOf quirks) (styleOf style) [] ++ "\t" ++ render WQuirks.spec (styleOf style) []
  | _, _ => "bad-op"

end C07Drv

def main : IO Unit := Proto.run C07Drv.handle
