/- Driver for C34.
  `fnsame <global> <module> <function>` → `shared` | `separate` | `missing`, read from the
  table extracted from the running code (Generated/FnRegistry.lean).
  `forms <global> <module> <function> <hex scss>...` → the same answer (the model has no
  opinion on the values: the forms are compared impl-vs-impl by the judge). -/
import RsassModel.Basic.Proto
import RsassModel.Glue.FnRegistry
import RsassModel.Generated.FnRegistry
open Glue.FnReg

def handleC34 (_quirks : List String) (op : String) (args : List String) : String :=
  match op, args with
  | "fnsame", [g, m, f] =>
    let t := Generated.FnRegistry.table
    if t.bothExist g.toList m.toList f.toList then
      (if t.shared g.toList m.toList f.toList then "shared" else "separate")
    else "missing"
  | "forms", g :: m :: f :: _ =>
    let t := Generated.FnRegistry.table
    if t.bothExist g.toList m.toList f.toList then
      (if t.shared g.toList m.toList f.toList then "shared" else "separate")
    else "missing"
  | _, _ => "bad-op"

def main : IO Unit := Proto.run handleC34
