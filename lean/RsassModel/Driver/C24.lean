/- Driver for C24.
`compile scss e 10 in.scss <hex src> "" "" sel <op> <law> <term>...`
  (the first seven fields are the generic harness op; the model reads only the tail)
  op = unify A B   → `null|` or hex(selector text) `|` law bits (model's is-superselector(A, c),
                     (B, c) for every complex selector c of the result)
  op = extend S X Y | replace S X Y  → `null` | `err` | hex(selector text)
  op = nest A B | append A B                     → `<fn result>;<rule result>` (each as above,
                                                   `panic` when resolve_ref's unwrap fails) -/
import RsassModel.Basic.Proto
import RsassModel.Sel.Print
import RsassModel.Sel.Extend
import RsassModel.Sel.SuperTerm
open Sel

def C24.show (s : Option SelSet) : String :=
  match s with
  | none => "err"
  | some s => if s.isNullValue then "null" else Proto.hexOfString (SelSet.toString s)

def C24.answer (uq : UnifyQuirks) (nq : NestQuirks) (op : String) (ts : List SelSet) : Option String :=
  match op, ts with
  | "unify", [a, b] =>
    -- the result, then the law as the model evaluates it: for every complex selector `c` of
    -- the result `is-superselector(a, c)` and `is-superselector(b, c)`
    let u := SelSet.unify uq a b
    let bits := if u.isNullValue then [] else u.flatMap fun c =>
      [if SelSet.isSuper uq.sup a [c] then 't' else 'f', if SelSet.isSuper uq.sup b [c] then 't' else 'f']
    some (C24.show (some u) ++ "|" ++ String.ofList bits)
  | "extend", [s, x, y] => some (C24.show (SelSet.extend uq s x y))
  | "replace", [s, x, y] => some (C24.show (SelSet.replace uq s x y))
  | "nest", [a, b] =>
    let rule := if (Ctx.ofSet (Ctx.root.nest nq a)).nestPanics b then "panic" else C24.show (some (ruleNest nq a b))
    let fn := if (Ctx.ofSet a).nestPanics b then "panic" else C24.show (some (fnNest nq a b))
    some (fn ++ ";" ++ rule)
  | "append", [a, [.leaf c]] =>
    let inner := ampSuffix c
    let rule := if (Ctx.ofSet (Ctx.root.nest nq a)).nestPanics inner then "panic"
                else C24.show (some (ruleNest nq a inner))
    some (C24.show (fnAppend a [.leaf c]) ++ ";" ++ rule)
  | _, _ => none

def handleC24 (quirks : List String) (op : String) (args : List String) : String :=
  match op, args with
  | "compile", _ :: _ :: _ :: _ :: _ :: _ :: _ :: "sel" :: sop :: _law :: terms =>
    match terms.mapM Term.setOfField with
    | some ts =>
      let sq : SuperQuirks := { attrQuoteMix := quirks.contains "attrQuoteMix",
                                parentStrict := quirks.contains "parentStrict" }
      let uq : UnifyQuirks := { vitalKeepsGeneral := quirks.contains "vitalKeepsGeneral", sup := sq }
      let nq : NestQuirks := { ampViaUnify := quirks.contains "ampViaUnify" }
      match C24.answer uq nq sop ts, C24.answer { sup := {} } {} sop ts with
      | some a, some s => a ++ "\t" ++ s
      | _, _ => "bad-args"
    | none => "bad-args"
  | _, _ => "bad-op"

def main : IO Unit := Proto.run handleC24
