/- Driver for C35.
`c35name <hex a> <hex b>` → `<hex of the displayed name of a>:<1|0 same Name>` (sass/name.rs).
`c35skip <hex text>` → hex of what `opt_spacelike` leaves (model only; used by the Python side to
cross-check the separators it inserts).  `compile …` lines are impl-vs-impl: `bad-op`. -/
import RsassModel.Basic.Proto
import RsassModel.Rewrite.Model
open Rewrite

def handleC35 (_quirks : List String) (op : String) (args : List String) : String :=
  match op, args with
  | "c35name", [a, b] =>
    let x := (Proto.stringOfHex a).toList
    let y := (Proto.stringOfHex b).toList
    Proto.hexOfString (String.ofList (nameShow x)) ++ ":" ++ (if nameKey x = nameKey y then "1" else "0")
  | "c35skip", [t] => Proto.hexOfString (String.ofList (skip (Proto.stringOfHex t).toList))
  | "c35name", _ => "bad-args"
  | _, _ => "bad-op"

def main : IO Unit := Proto.run handleC35
