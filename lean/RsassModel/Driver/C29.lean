/- Driver for C29: `mf <fn> <arg> … <hex scss (ignored)>`; an argument is
`<f64 bits as decimal>:<unit name>`.  Answers with the text the declaration value prints
(precision 10, expanded), `css-call`, `err` or `bad-op` (compound unit: no opinion). -/
import RsassModel.Basic.Proto
import RsassModel.Num.FloatInst
import RsassModel.Num.Format
import RsassModel.MathFn.Model
import RsassModel.MathFn.FloatInst
open MathFn

def unitOfName : String → Option MathFn.MUnit
  | "" | "-" => some .none | "px" => some .px | "in" => some .inch | "cm" => some .cm | "mm" => some .mm
  | "pt" => some .pt | "pc" => some .pc | "Q" => some .q | "deg" => some .deg | "grad" => some .grad
  | "rad" => some .rad | "turn" => some .turn | "s" => some .s | "ms" => some .ms | "Hz" => some .hz
  | "kHz" => some .khz | "dpi" => some .dpi | "dpcm" => some .dpcm | "dppx" => some .dppx
  | "%" => some .percent | "em" => some .em | "foo" => some .other | _ => none

def unitName : MathFn.MUnit → String
  | .none => "" | .px => "px" | .inch => "in" | .cm => "cm" | .mm => "mm" | .pt => "pt" | .pc => "pc"
  | .q => "Q" | .deg => "deg" | .grad => "grad" | .rad => "rad" | .turn => "turn" | .s => "s" | .ms => "ms"
  | .hz => "Hz" | .khz => "kHz" | .dpi => "dpi" | .dpcm => "dpcm" | .dppx => "dppx" | .percent => "%"
  | .em => "em" | .other => "foo"

def parseQ (s : String) : Option (Q Float) :=
  match s.splitOn ":" with
  | [b, u] => do
    let bits ← b.toNat?
    let un ← unitOfName u
    pure { v := Float.ofBits (UInt64.ofNat bits), u := un }
  | _ => none

/-- `impl Display for Formatted<Value>` (Numeric arm) + `Formatted<Numeric>` -/
def showRes : Res Float → String
  | .num v u =>
    let t := Num.fmtNumber Num.fmtSpec false 10 v
    let fin := !(v.isNaN || v.isInf)
    let body := t ++ (if !fin && u != .none then " * 1" else "") ++ unitName u
    if fin then body else "calc(" ++ body ++ ")"
  | .cssCall => "css-call"
  | .err => "err"
  | .unsupported => "bad-op"

def c29Eval (q : MathQuirks) (fn : String) (a : List (Q Float)) : Option (Res Float) :=
  match fn, a with
  | "abs", [x] => some (absF x)
  | "ceil", [x] => some (ceilF x)
  | "floor", [x] => some (floorF x)
  | "round", [x] => some (roundF x)
  | "percentage", [x] => some (percentage x)
  | "div", [x, y] => some (divF x y)
  | "min", xs => some (extreme q .lt xs)
  | "max", xs => some (extreme q .gt xs)
  | "clamp", [x, y, z] => some (clamp q x y z)
  | "sqrt", [x] => some (unitlessFn .sqrt x)
  | "exp", [x] => some (unitlessFn .exp x)
  | "log", [x] => some (unitlessFn .ln x)
  | "log", [x, b] => some (logBase x b)
  | "pow", [x, y] => some (powF x y)
  | "asin", [x] => some (unitlessFn .asin x)
  | "acos", [x] => some (unitlessFn .acos x)
  | "atan", [x] => some (unitlessFn .atan x)
  | "sin", [x] => some (trigFn .sin x)
  | "cos", [x] => some (trigFn .cos x)
  | "tan", [x] => some (trigFn .tan x)
  | "atan2", [y, x] => some (atan2F y x)
  | _, _ => none

def handleC29 (quirks : List String) (op : String) (args : List String) : String :=
  match op, args with
  | "mf", fn :: rest =>
    match (rest.dropLast).mapM parseQ with
    | none => "bad-args"
    | some a =>
      let q : MathQuirks := { extremeCssFallback := quirks.contains "extremeCssFallback", infFuzzyEq := quirks.contains "infFuzzyEq" }
      match c29Eval q fn a, c29Eval MathFn.spec fn a with
      | some x, some y => showRes x ++ "\t" ++ showRes y
      | _, _ => "bad-op"
  | _, _ => "bad-op"

def main : IO Unit := Proto.run handleC29
