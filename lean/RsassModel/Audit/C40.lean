import RsassModel.Theorems.C40
#print axioms C40.runLoop_stdout
#print axioms C40.runLoop_all_ok
#print axioms C40.cli_all_ok
#print axioms C40.runLoop_any_fail
#print axioms C40.cli_any_fail
#print axioms C40.cli_exit_zero_iff
#print axioms C40.cli_format_passthrough
#print axioms C40.parse_long_forms
#print axioms C40.parse_defaults
#print axioms C40.parse_duplicate_rejected
#print axioms C40.cli_usage_error
#print axioms C40.cli_load_order
#print axioms C40.fsFind_first
#print axioms C40.cli_load_prefers_input_dir
#print axioms C40.cli_load_falls_back_to_load_path
#print axioms C40.cli_load_order_partial
#print axioms C40.cli_load_order_refuted
