/- Helper lemmas for Theorems/C01.lean (site theorems over Glue/Panics.lean). -/
import RsassModel.Glue.Panics
namespace Panics

@[simp] theorem isOk_ok {α} (a : α) : (R.isOk (.ok a : R α)) = true := rfl
@[simp] theorem isOk_error {α} (e : Panic) : (R.isOk (.error e : R α)) = false := rfl

/-- `get_indent` does not panic -/
def okB (c : Bool) (len : Nat) : Bool := c || decide (len ≤ 80)

theorem getIndent_eq (c : Bool) (len : Nat) :
    getIndent c len = if okB c len then .ok (if c then 0 else len + 1) else .error .sliceOOB := by
  unfold getIndent okB indentBytes
  cases c <;> simp

theorem getIndent_isOk (c : Bool) (len : Nat) :
    (getIndent c len).isOk = true ↔ c = true ∨ len ≤ 80 := by
  rw [getIndent_eq]; unfold okB
  cases c <;> by_cases h : len ≤ 80 <;> simp [h]

theorem usub_ok {a b : Nat} (h : b ≤ a) : usub a b = .ok (a - b) := by simp [usub, h]

/-- `Comment::write` does not panic -/
def commentOk (c : Bool) (ind ex : Nat) : Bool :=
  okB c ind && (if ex < ind then okB c (ind - ex) else if ind < ex then okB c (ex - ind - 1) else true)

theorem commentWrite_eq (c : Bool) (ind ex : Nat) :
    commentWrite c ind ex = if commentOk c ind ex then .ok () else .error .sliceOOB := by
  unfold commentWrite commentOk
  rw [getIndent_eq]
  cases h0 : okB c ind
  · simp
  · simp only [if_true, Bool.true_and]
    by_cases h1 : ex < ind
    · simp only [h1, if_true, usub_ok (Nat.le_of_lt h1), getIndent_eq]
      cases okB c (ind - ex) <;> simp
    · by_cases h2 : ind < ex
      · have e1 := usub_ok (a := ex) (b := ind) (by omega)
        have e2 := usub_ok (a := ex - ind) (b := 1) (by omega)
        simp only [h1, h2, if_true, if_false, e1, e2, getIndent_eq]
        cases okB c (ex - ind - 1) <;> simp
      · simp [h1, h2]

theorem commentOk_true (ind ex : Nat) : commentOk true ind ex = true := by
  unfold commentOk okB; simp

theorem commentOk_false (ind ex : Nat) :
    commentOk false ind ex = decide (commentNeed ind ex ≤ 80) := by
  unfold commentOk okB commentNeed
  by_cases h1 : ex < ind
  · simp only [h1, if_true, Bool.false_or]
    by_cases h : ind ≤ 80
    · have : ind - ex ≤ 80 := by omega
      simp [h, this]
    · simp [h]
  · by_cases h2 : ind < ex
    · simp only [h1, h2, if_true, if_false, Bool.false_or, Nat.max_le]
      by_cases ha : ind ≤ 80 <;> by_cases hb : ex - ind - 1 ≤ 80 <;> simp [ha, hb]
    · simp [h1, h2]

theorem commentWrite_isOk (c : Bool) (ind ex : Nat) :
    (commentWrite c ind ex).isOk = true ↔ c = true ∨ commentNeed ind ex ≤ 80 := by
  rw [commentWrite_eq]
  cases c
  · rw [commentOk_false]
    by_cases h : commentNeed ind ex ≤ 80 <;> simp [h]
  · simp [commentOk_true]

-- the writer does not panic on this tree (same recursion as `writeItem`)
mutual
def itemOk (c : Bool) (ind : Nat) : Item → Bool
  | .leaf => okB c ind
  | .comment ex => commentOk c ind ex
  | .silent => true
  | .inlineComment ex => okB c ind && commentOk c ind ex
  | .block body => okB c ind && itemsOk c (ind + 2) body
def itemsOk (c : Bool) (ind : Nat) : List Item → Bool
  | [] => true
  | it :: rest => itemOk c ind it && itemsOk c ind rest
end

mutual
theorem writeItem_eq (c : Bool) (ind : Nat) : (it : Item) →
    writeItem c ind it = if itemOk c ind it then .ok () else .error .sliceOOB
  | .leaf => by
    unfold writeItem itemOk; rw [getIndent_eq]
    cases okB c ind <;> simp
  | .comment ex => by unfold writeItem itemOk; exact commentWrite_eq c ind ex
  | .silent => by unfold writeItem itemOk; simp
  | .inlineComment ex => by
    unfold writeItem itemOk; rw [getIndent_eq, commentWrite_eq]
    cases okB c ind <;> cases commentOk c ind ex <;> simp
  | .block body => by
    unfold writeItem itemOk; rw [getIndent_eq, writeItems_eq c (ind + 2) body]
    cases okB c ind <;> cases itemsOk c (ind + 2) body <;> simp
theorem writeItems_eq (c : Bool) (ind : Nat) : (its : List Item) →
    writeItems c ind its = if itemsOk c ind its then .ok () else .error .sliceOOB
  | [] => by unfold writeItems itemsOk; simp
  | it :: rest => by
    unfold writeItems itemsOk; rw [writeItem_eq c ind it, writeItems_eq c ind rest]
    cases itemOk c ind it <;> cases itemsOk c ind rest <;> simp
end

mutual
theorem itemOk_true (ind : Nat) : (it : Item) → itemOk true ind it = true
  | .leaf => by unfold itemOk okB; simp
  | .comment ex => by unfold itemOk; exact commentOk_true ind ex
  | .silent => by unfold itemOk; rfl
  | .inlineComment ex => by unfold itemOk okB; simp [commentOk_true]
  | .block body => by unfold itemOk okB; simp [itemsOk_true (ind + 2) body]
theorem itemsOk_true (ind : Nat) : (its : List Item) → itemsOk true ind its = true
  | [] => by unfold itemsOk; rfl
  | it :: rest => by unfold itemsOk; simp [itemOk_true ind it, itemsOk_true ind rest]
end

theorem commentNeed_ge (ind ex : Nat) : ind ≤ commentNeed ind ex := by
  unfold commentNeed
  split
  · omega
  · split
    · exact Nat.le_max_left _ _
    · omega

mutual
theorem itemOk_false (ind : Nat) : (it : Item) →
    itemOk false ind it = decide (itemNeed ind it ≤ 80)
  | .leaf => by unfold itemOk itemNeed okB; simp
  | .comment ex => by unfold itemOk itemNeed; exact commentOk_false ind ex
  | .silent => by unfold itemOk itemNeed; simp
  | .inlineComment ex => by
    unfold itemOk itemNeed okB
    rw [commentOk_false]
    have := commentNeed_ge ind ex
    by_cases h : commentNeed ind ex ≤ 80
    · have : ind ≤ 80 := by omega
      simp [h, this]
    · simp [h]
  | .block body => by
    unfold itemOk itemNeed okB
    rw [itemsOk_false (ind + 2) body]
    simp only [Bool.false_or, Nat.max_le]
    by_cases ha : ind ≤ 80 <;> by_cases hb : itemsNeed (ind + 2) body ≤ 80 <;> simp [ha, hb]
theorem itemsOk_false (ind : Nat) : (its : List Item) →
    itemsOk false ind its = decide (itemsNeed ind its ≤ 80)
  | [] => by unfold itemsOk itemsNeed; simp
  | it :: rest => by
    unfold itemsOk itemsNeed
    rw [itemOk_false ind it, itemsOk_false ind rest]
    simp only [Nat.max_le]
    by_cases ha : itemNeed ind it ≤ 80 <;> by_cases hb : itemsNeed ind rest ≤ 80 <;> simp [ha, hb]
end

theorem writeItems_isOk (c : Bool) (ind : Nat) (its : List Item) :
    (writeItems c ind its).isOk = true ↔ c = true ∨ itemsNeed ind its ≤ 80 := by
  rw [writeItems_eq]
  cases c
  · rw [itemsOk_false]
    by_cases h : itemsNeed ind its ≤ 80 <;> simp [h]
  · simp [itemsOk_true]

theorem writeItem_isOk (c : Bool) (ind : Nat) (it : Item) :
    (writeItem c ind it).isOk = true ↔ c = true ∨ itemNeed ind it ≤ 80 := by
  rw [writeItem_eq]
  cases c
  · rw [itemOk_false]
    by_cases h : itemNeed ind it ≤ 80 <;> simp [h]
  · simp [itemOk_true]

-- without comments, what an item needs is bounded by its indentation plus twice its depth
mutual
def noComment : Item → Bool
  | .comment _ => false
  | .inlineComment _ => false
  | .block body => noComments body
  | _ => true
def noComments : List Item → Bool
  | [] => true
  | it :: rest => noComment it && noComments rest
end

mutual
theorem itemNeed_le_depth (ind : Nat) : (it : Item) → noComment it = true →
    itemNeed ind it ≤ ind + 2 * itemDepth it
  | .leaf, _ => by unfold itemNeed itemDepth; omega
  | .silent, _ => by unfold itemNeed itemDepth; omega
  | .comment _, h => by simp [noComment] at h
  | .inlineComment _, h => by simp [noComment] at h
  | .block body, h => by
    unfold itemNeed itemDepth
    have := itemsNeed_le_depth (ind + 2) body (by simpa [noComment] using h)
    apply Nat.max_le.2
    constructor <;> omega
theorem itemsNeed_le_depth (ind : Nat) : (its : List Item) → noComments its = true →
    itemsNeed ind its ≤ ind + 2 * itemsDepth its
  | [], _ => by unfold itemsNeed; omega
  | it :: rest, h => by
    unfold itemsNeed itemsDepth
    simp [noComments] at h
    have h1 := itemNeed_le_depth ind it h.1
    have h2 := itemsNeed_le_depth ind rest h.2
    have h3 : itemDepth it ≤ Nat.max (itemDepth it) (itemsDepth rest) := Nat.le_max_left _ _
    have h4 : itemsDepth rest ≤ Nat.max (itemDepth it) (itemsDepth rest) := Nat.le_max_right _ _
    apply Nat.max_le.2
    constructor <;> omega
end

theorem tower_need (n ind : Nat) : itemNeed ind (tower n .leaf) = ind + 2 * n := by
  induction n generalizing ind with
  | zero => simp [tower, itemNeed]
  | succ n ih =>
    simp only [tower, itemNeed, itemsNeed, ih]
    have h1 : Nat.max (ind + 2 + 2 * n) 0 = ind + 2 + 2 * n := Nat.max_eq_left (Nat.zero_le _)
    rw [h1]
    have h2 : Nat.max ind (ind + 2 + 2 * n) = ind + 2 + 2 * n := Nat.max_eq_right (by omega)
    rw [h2]; omega

theorem tower_depth (n : Nat) : itemDepth (tower n .leaf) = n := by
  induction n with
  | zero => simp [tower, itemDepth]
  | succ n ih =>
    simp only [tower, itemDepth, itemsDepth, ih]
    have : Nat.max n 0 = n := Nat.max_eq_left (Nat.zero_le _)
    rw [this]

/-! ### deviation flags -/

theorem commentWriteQ_asis (c : Bool) (ind ex : Nat) :
    commentWriteQ Quirks.asis c ind ex = commentWrite c ind ex := by
  unfold commentWriteQ commentWrite getIndentQ Quirks.asis; simp

mutual
theorem writeItemQ_asis (c : Bool) (ind : Nat) : (it : Item) →
    writeItemQ Quirks.asis c ind it = writeItem c ind it
  | .leaf => by unfold writeItemQ writeItem getIndentQ Quirks.asis; simp
  | .comment ex => by unfold writeItemQ writeItem; exact commentWriteQ_asis c ind ex
  | .silent => by unfold writeItemQ writeItem; rfl
  | .inlineComment ex => by
    unfold writeItemQ writeItem; rw [commentWriteQ_asis]; unfold getIndentQ Quirks.asis; simp
  | .block body => by
    unfold writeItemQ writeItem; rw [writeItemsQ_asis c (ind + 2) body]
    unfold getIndentQ Quirks.asis; simp
theorem writeItemsQ_asis (c : Bool) (ind : Nat) : (its : List Item) →
    writeItemsQ Quirks.asis c ind its = writeItems c ind its
  | [] => by unfold writeItemsQ writeItems; rfl
  | it :: rest => by
    unfold writeItemsQ writeItems; rw [writeItemQ_asis c ind it, writeItemsQ_asis c ind rest]
end

theorem commentWriteQ_fixed (q : Quirks) (h1 : q.indentSlice80 = false)
    (h2 : q.commentIndentSlice80 = false) (c : Bool) (ind ex : Nat) :
    commentWriteQ q c ind ex = .ok () := by
  unfold commentWriteQ getIndentQ
  simp only [h1, h2]
  by_cases a : ex < ind
  · simp [a, usub_ok (Nat.le_of_lt a)]
  · by_cases b : ind < ex
    · have e1 := usub_ok (a := ex) (b := ind) (by omega)
      have e2 := usub_ok (a := ex - ind) (b := 1) (by omega)
      simp [a, b, e1, e2]
    · simp [a, b]

mutual
theorem writeItemQ_fixed (q : Quirks) (h1 : q.indentSlice80 = false)
    (h2 : q.commentIndentSlice80 = false) (c : Bool) (ind : Nat) : (it : Item) →
    writeItemQ q c ind it = .ok ()
  | .leaf => by unfold writeItemQ getIndentQ; simp [h1]
  | .comment ex => by unfold writeItemQ; exact commentWriteQ_fixed q h1 h2 c ind ex
  | .silent => by unfold writeItemQ; rfl
  | .inlineComment ex => by
    unfold writeItemQ; rw [commentWriteQ_fixed q h1 h2]; unfold getIndentQ; simp [h1]
  | .block body => by
    unfold writeItemQ; rw [writeItemsQ_fixed q h1 h2 c (ind + 2) body]
    unfold getIndentQ; simp [h1]
theorem writeItemsQ_fixed (q : Quirks) (h1 : q.indentSlice80 = false)
    (h2 : q.commentIndentSlice80 = false) (c : Bool) (ind : Nat) : (its : List Item) →
    writeItemsQ q c ind its = .ok ()
  | [] => by unfold writeItemsQ; rfl
  | it :: rest => by
    unfold writeItemsQ; rw [writeItemQ_fixed q h1 h2 c ind it, writeItemsQ_fixed q h1 h2 c ind rest]
end

/-! ### ranges -/

theorem addI64_isOk (a b : Int) : (addI64 a b).isOk = true ↔ inI64 (a + b) := by
  unfold addI64 inI64; split <;> simp_all

theorem addI64_ok {a b v : Int} (h : addI64 a b = .ok v) : v = a + b ∧ inI64 (a + b) := by
  unfold addI64 at h
  split at h
  · rename_i hc; exact ⟨(Except.ok.inj h).symm, hc⟩
  · cases h

theorem satI64_inI64 (x : Int) : inI64 (satI64 x) := by
  unfold satI64 inI64 i64Min i64Max; split <;> (try split) <;> omega

/-- run the loop of `for value in range` for at most `fuel` iterations -/
def rangeRun : Nat → Range → R Nat
  | 0, _ => .ok 0
  | fuel + 1, r => match rangeNext r with
    | .error e => .error e
    | .ok none => .ok 0
    | .ok (some (_, r')) => match rangeRun fuel r' with
      | .error e => .error e
      | .ok n => .ok (n + 1)

theorem rangeGoes_up (r : Range) (hs : r.step = 1) : rangeGoes r = true ↔ r.from_ < r.to := by
  unfold rangeGoes
  have h2 : compare (0 : Int) r.step = .lt := by rw [hs]; decide
  rw [h2]
  simp [Int.compare_eq_lt]

theorem rangeGoes_down (r : Range) (hs : r.step = -1) : rangeGoes r = true ↔ r.to < r.from_ := by
  unfold rangeGoes
  have h2 : compare (0 : Int) r.step = .gt := by rw [hs]; decide
  rw [h2]
  simp [Int.compare_eq_gt]

theorem rangeNext_ok (r : Range) (hf : inI64 r.from_) (ht : inI64 r.to)
    (hs : r.step = 1 ∨ r.step = -1) :
    (∃ v r', rangeNext r = .ok (some (v, r')) ∧ inI64 r'.from_ ∧ r'.to = r.to ∧ r'.step = r.step)
    ∨ rangeNext r = .ok none := by
  unfold rangeNext
  unfold inI64 i64Min i64Max at hf ht
  by_cases hg : rangeGoes r = true
  · left
    simp only [hg, if_true]
    rcases hs with hs | hs
    · have hlt := (rangeGoes_up r hs).1 hg
      have h3 : addI64 r.from_ r.step = .ok (r.from_ + 1) := by
        unfold addI64 i64Min i64Max; rw [hs]
        have : -9223372036854775808 ≤ r.from_ + 1 ∧ r.from_ + 1 ≤ 9223372036854775807 := by omega
        simp [this]
      refine ⟨r.from_, { r with from_ := r.from_ + 1 }, ?_, ?_, rfl, rfl⟩
      · simp [h3]
      · unfold inI64 i64Min i64Max; simp; omega
    · have hlt := (rangeGoes_down r hs).1 hg
      have h3 : addI64 r.from_ r.step = .ok (r.from_ + -1) := by
        unfold addI64 i64Min i64Max; rw [hs]
        have : -9223372036854775808 ≤ r.from_ + -1 ∧ r.from_ + -1 ≤ 9223372036854775807 := by omega
        simp [this]
      refine ⟨r.from_, { r with from_ := r.from_ + -1 }, ?_, ?_, rfl, rfl⟩
      · simp [h3]
      · unfold inI64 i64Min i64Max; simp; omega
  · right
    simp [hg]

theorem rangeRun_isOk (fuel : Nat) (r : Range) (hf : inI64 r.from_) (ht : inI64 r.to)
    (hs : r.step = 1 ∨ r.step = -1) : (rangeRun fuel r).isOk = true := by
  induction fuel generalizing r with
  | zero => simp [rangeRun]
  | succ fuel ih =>
    unfold rangeRun
    rcases rangeNext_ok r hf ht hs with ⟨v, r', h, h1, h2, h3⟩ | h
    · simp only [h]
      have := ih r' h1 (h2 ▸ ht) (h3 ▸ hs)
      cases hr : rangeRun fuel r' with
      | error e => rw [hr] at this; simp at this
      | ok n => simp
    · simp [h]

/-! ### number display -/

theorem clog10Go_le (f w k p j : Nat) (hj : j ≤ f) (hw : w ≤ p * 10 ^ j) :
    clog10Go f w k p ≤ k + j := by
  induction f generalizing k p j with
  | zero =>
    have : j = 0 := by omega
    subst this; simp [clog10Go]
  | succ f ih =>
    unfold clog10Go
    split
    · omega
    · rename_i hnp
      cases j with
      | zero => simp at hw; omega
      | succ j =>
        have := ih (k + 1) (p * 10) j (by omega) (by rw [Nat.pow_succ] at hw; rw [Nat.mul_assoc, Nat.mul_comm 10]; exact hw)
        omega

theorem clog10_le (w k : Nat) (hk : k ≤ 400) (hw : w ≤ 10 ^ k) : clog10 w ≤ k := by
  have := clog10Go_le 400 w 0 1 k hk (by simpa using hw)
  simpa [clog10] using this

/-! ### resolve_ref -/

theorem resolveRef_isOk (ps : List (List Char)) (c : List Char) :
    (resolveRef ps c).isOk = true ↔ ∀ p ∈ ps, appendOk p c = true := by
  induction ps with
  | nil => simp [resolveRef]
  | cons p ps ih =>
    unfold resolveRef resolveRefOne
    by_cases h : appendOk p c = true
    · simp [h, ih]
    · simp [h]

/-! ### Pseudo::replace -/

mutual
theorem selReplace_ok (orig : List Bool) (h : checkExtendComplex orig = true) :
    (s : Sel) → selReplace orig s = .ok ()
  | .node _ args => by unfold selReplace; exact argsReplace_ok orig h args
theorem argsReplace_ok (orig : List Bool) (h : checkExtendComplex orig = true) :
    (args : List Sel) → argsReplace orig args = .ok ()
  | [] => by unfold argsReplace; rfl
  | s :: rest => by
    unfold argsReplace
    simp [h, selReplace_ok orig h s, argsReplace_ok orig h rest]
end

/-! ### lock_loading -/

theorem lockAll_ok (l : List (String × Kind)) (names : List String) : lockAll l names = .ok () := by
  induction names generalizing l with
  | nil => simp [lockAll]
  | cons n rest ih =>
    unfold lockAll lockLoading
    by_cases h : (l.any fun x => x.fst == n) = true <;> simp [h, ih]

end Panics
