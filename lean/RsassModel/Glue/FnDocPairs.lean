/-
C34 — the global/module function pairs that the Sass documentation
(sass-lang.com/documentation/modules: color, list, map, math, meta, selector, string)
declares to be the same function under two names, committed as Lean data.

`separatelyDefined` is the explicit list of documented pairs that rsass implements as
two separate function objects, each with the reason:
* `grayscale`, `invert`: the global names double as CSS filter functions
  (`grayscale(50%)`, `invert(1)` must pass through as plain CSS), so
  `color::expose` defines global wrappers (`sass/functions/color/other.rs`/`hsl.rs`)
  that fall back to the CSS function for number arguments;
* `round`, `abs`: the global names are CSS math functions (`round(up, 1.5px, 1px)`,
  `abs(var(--x))`), defined separately by `math::expose` (`round::css_round`,
  `css::global`).
* `max`, `min` (since /repo 424b303): the global names are also the CSS functions
  `max()`/`min()`; `math::expose` defines them separately with `find_extreme(.., strict =
  false)` (numbers Sass cannot compare are kept as a CSS call), the module versions are
  strict (error).  This pair DISAGREES by design on incomparable arguments (dart-sass
  does the same): known finding `C34-minmax-css-fallback`, modelled in `Glue/FnMinMax.lean`.
For those six the only evidence of agreement is the correspondence run.

Import-free (core only).
-/
import RsassModel.Glue.FnRegistry
namespace Glue.FnReg

/-- a documented pair: global name, module, function name in the module -/
structure DocPair where
  g : Name
  m : Name
  f : Name
deriving Repr, DecidableEq

def documentedPairs : List DocPair := [
  -- sass:color
  ⟨['a','d','j','u','s','t','-','c','o','l','o','r'], ['c','o','l','o','r'], ['a','d','j','u','s','t']⟩,
  ⟨['a','l','p','h','a'], ['c','o','l','o','r'], ['a','l','p','h','a']⟩,
  ⟨['o','p','a','c','i','t','y'], ['c','o','l','o','r'], ['o','p','a','c','i','t','y']⟩,
  ⟨['b','l','u','e'], ['c','o','l','o','r'], ['b','l','u','e']⟩,
  ⟨['c','h','a','n','g','e','-','c','o','l','o','r'], ['c','o','l','o','r'], ['c','h','a','n','g','e']⟩,
  ⟨['c','o','m','p','l','e','m','e','n','t'], ['c','o','l','o','r'], ['c','o','m','p','l','e','m','e','n','t']⟩,
  ⟨['g','r','a','y','s','c','a','l','e'], ['c','o','l','o','r'], ['g','r','a','y','s','c','a','l','e']⟩,
  ⟨['g','r','e','e','n'], ['c','o','l','o','r'], ['g','r','e','e','n']⟩,
  ⟨['h','u','e'], ['c','o','l','o','r'], ['h','u','e']⟩,
  ⟨['i','e','-','h','e','x','-','s','t','r'], ['c','o','l','o','r'], ['i','e','-','h','e','x','-','s','t','r']⟩,
  ⟨['i','n','v','e','r','t'], ['c','o','l','o','r'], ['i','n','v','e','r','t']⟩,
  ⟨['l','i','g','h','t','n','e','s','s'], ['c','o','l','o','r'], ['l','i','g','h','t','n','e','s','s']⟩,
  ⟨['m','i','x'], ['c','o','l','o','r'], ['m','i','x']⟩,
  ⟨['r','e','d'], ['c','o','l','o','r'], ['r','e','d']⟩,
  ⟨['s','a','t','u','r','a','t','i','o','n'], ['c','o','l','o','r'], ['s','a','t','u','r','a','t','i','o','n']⟩,
  ⟨['s','c','a','l','e','-','c','o','l','o','r'], ['c','o','l','o','r'], ['s','c','a','l','e']⟩,
  -- sass:list
  ⟨['a','p','p','e','n','d'], ['l','i','s','t'], ['a','p','p','e','n','d']⟩,
  ⟨['i','n','d','e','x'], ['l','i','s','t'], ['i','n','d','e','x']⟩,
  ⟨['i','s','-','b','r','a','c','k','e','t','e','d'], ['l','i','s','t'], ['i','s','-','b','r','a','c','k','e','t','e','d']⟩,
  ⟨['j','o','i','n'], ['l','i','s','t'], ['j','o','i','n']⟩,
  ⟨['l','e','n','g','t','h'], ['l','i','s','t'], ['l','e','n','g','t','h']⟩,
  ⟨['l','i','s','t','-','s','e','p','a','r','a','t','o','r'], ['l','i','s','t'], ['s','e','p','a','r','a','t','o','r']⟩,
  ⟨['n','t','h'], ['l','i','s','t'], ['n','t','h']⟩,
  ⟨['s','e','t','-','n','t','h'], ['l','i','s','t'], ['s','e','t','-','n','t','h']⟩,
  ⟨['z','i','p'], ['l','i','s','t'], ['z','i','p']⟩,
  -- sass:map
  ⟨['m','a','p','-','g','e','t'], ['m','a','p'], ['g','e','t']⟩,
  ⟨['m','a','p','-','h','a','s','-','k','e','y'], ['m','a','p'], ['h','a','s','-','k','e','y']⟩,
  ⟨['m','a','p','-','k','e','y','s'], ['m','a','p'], ['k','e','y','s']⟩,
  ⟨['m','a','p','-','m','e','r','g','e'], ['m','a','p'], ['m','e','r','g','e']⟩,
  ⟨['m','a','p','-','r','e','m','o','v','e'], ['m','a','p'], ['r','e','m','o','v','e']⟩,
  ⟨['m','a','p','-','v','a','l','u','e','s'], ['m','a','p'], ['v','a','l','u','e','s']⟩,
  -- sass:math
  ⟨['c','e','i','l'], ['m','a','t','h'], ['c','e','i','l']⟩,
  ⟨['f','l','o','o','r'], ['m','a','t','h'], ['f','l','o','o','r']⟩,
  ⟨['r','o','u','n','d'], ['m','a','t','h'], ['r','o','u','n','d']⟩,
  ⟨['a','b','s'], ['m','a','t','h'], ['a','b','s']⟩,
  ⟨['m','a','x'], ['m','a','t','h'], ['m','a','x']⟩,
  ⟨['m','i','n'], ['m','a','t','h'], ['m','i','n']⟩,
  ⟨['c','o','m','p','a','r','a','b','l','e'], ['m','a','t','h'], ['c','o','m','p','a','t','i','b','l','e']⟩,
  ⟨['u','n','i','t','l','e','s','s'], ['m','a','t','h'], ['i','s','-','u','n','i','t','l','e','s','s']⟩,
  ⟨['u','n','i','t'], ['m','a','t','h'], ['u','n','i','t']⟩,
  ⟨['p','e','r','c','e','n','t','a','g','e'], ['m','a','t','h'], ['p','e','r','c','e','n','t','a','g','e']⟩,
  ⟨['r','a','n','d','o','m'], ['m','a','t','h'], ['r','a','n','d','o','m']⟩,
  -- sass:meta
  ⟨['c','a','l','l'], ['m','e','t','a'], ['c','a','l','l']⟩,
  ⟨['c','o','n','t','e','n','t','-','e','x','i','s','t','s'], ['m','e','t','a'], ['c','o','n','t','e','n','t','-','e','x','i','s','t','s']⟩,
  ⟨['f','e','a','t','u','r','e','-','e','x','i','s','t','s'], ['m','e','t','a'], ['f','e','a','t','u','r','e','-','e','x','i','s','t','s']⟩,
  ⟨['f','u','n','c','t','i','o','n','-','e','x','i','s','t','s'], ['m','e','t','a'], ['f','u','n','c','t','i','o','n','-','e','x','i','s','t','s']⟩,
  ⟨['g','e','t','-','f','u','n','c','t','i','o','n'], ['m','e','t','a'], ['g','e','t','-','f','u','n','c','t','i','o','n']⟩,
  ⟨['g','l','o','b','a','l','-','v','a','r','i','a','b','l','e','-','e','x','i','s','t','s'], ['m','e','t','a'], ['g','l','o','b','a','l','-','v','a','r','i','a','b','l','e','-','e','x','i','s','t','s']⟩,
  ⟨['i','n','s','p','e','c','t'], ['m','e','t','a'], ['i','n','s','p','e','c','t']⟩,
  ⟨['k','e','y','w','o','r','d','s'], ['m','e','t','a'], ['k','e','y','w','o','r','d','s']⟩,
  ⟨['m','i','x','i','n','-','e','x','i','s','t','s'], ['m','e','t','a'], ['m','i','x','i','n','-','e','x','i','s','t','s']⟩,
  ⟨['t','y','p','e','-','o','f'], ['m','e','t','a'], ['t','y','p','e','-','o','f']⟩,
  ⟨['v','a','r','i','a','b','l','e','-','e','x','i','s','t','s'], ['m','e','t','a'], ['v','a','r','i','a','b','l','e','-','e','x','i','s','t','s']⟩,
  -- sass:selector
  ⟨['i','s','-','s','u','p','e','r','s','e','l','e','c','t','o','r'], ['s','e','l','e','c','t','o','r'], ['i','s','-','s','u','p','e','r','s','e','l','e','c','t','o','r']⟩,
  ⟨['s','e','l','e','c','t','o','r','-','a','p','p','e','n','d'], ['s','e','l','e','c','t','o','r'], ['a','p','p','e','n','d']⟩,
  ⟨['s','e','l','e','c','t','o','r','-','e','x','t','e','n','d'], ['s','e','l','e','c','t','o','r'], ['e','x','t','e','n','d']⟩,
  ⟨['s','e','l','e','c','t','o','r','-','n','e','s','t'], ['s','e','l','e','c','t','o','r'], ['n','e','s','t']⟩,
  ⟨['s','e','l','e','c','t','o','r','-','p','a','r','s','e'], ['s','e','l','e','c','t','o','r'], ['p','a','r','s','e']⟩,
  ⟨['s','e','l','e','c','t','o','r','-','r','e','p','l','a','c','e'], ['s','e','l','e','c','t','o','r'], ['r','e','p','l','a','c','e']⟩,
  ⟨['s','e','l','e','c','t','o','r','-','u','n','i','f','y'], ['s','e','l','e','c','t','o','r'], ['u','n','i','f','y']⟩,
  ⟨['s','i','m','p','l','e','-','s','e','l','e','c','t','o','r','s'], ['s','e','l','e','c','t','o','r'], ['s','i','m','p','l','e','-','s','e','l','e','c','t','o','r','s']⟩,
  -- sass:string
  ⟨['q','u','o','t','e'], ['s','t','r','i','n','g'], ['q','u','o','t','e']⟩,
  ⟨['s','t','r','-','i','n','d','e','x'], ['s','t','r','i','n','g'], ['i','n','d','e','x']⟩,
  ⟨['s','t','r','-','i','n','s','e','r','t'], ['s','t','r','i','n','g'], ['i','n','s','e','r','t']⟩,
  ⟨['s','t','r','-','l','e','n','g','t','h'], ['s','t','r','i','n','g'], ['l','e','n','g','t','h']⟩,
  ⟨['s','t','r','-','s','l','i','c','e'], ['s','t','r','i','n','g'], ['s','l','i','c','e']⟩,
  ⟨['t','o','-','u','p','p','e','r','-','c','a','s','e'], ['s','t','r','i','n','g'], ['t','o','-','u','p','p','e','r','-','c','a','s','e']⟩,
  ⟨['t','o','-','l','o','w','e','r','-','c','a','s','e'], ['s','t','r','i','n','g'], ['t','o','-','l','o','w','e','r','-','c','a','s','e']⟩,
  ⟨['u','n','i','q','u','e','-','i','d'], ['s','t','r','i','n','g'], ['u','n','i','q','u','e','-','i','d']⟩,
  ⟨['u','n','q','u','o','t','e'], ['s','t','r','i','n','g'], ['u','n','q','u','o','t','e']⟩
]

def separatelyDefined : List DocPair := [
  ⟨['g','r','a','y','s','c','a','l','e'], ['c','o','l','o','r'], ['g','r','a','y','s','c','a','l','e']⟩,
  ⟨['i','n','v','e','r','t'], ['c','o','l','o','r'], ['i','n','v','e','r','t']⟩,
  ⟨['r','o','u','n','d'], ['m','a','t','h'], ['r','o','u','n','d']⟩,
  ⟨['a','b','s'], ['m','a','t','h'], ['a','b','s']⟩,
  ⟨['m','a','x'], ['m','a','t','h'], ['m','a','x']⟩,
  ⟨['m','i','n'], ['m','a','t','h'], ['m','i','n']⟩
]

/-- every documented pair is either listed as separately defined or one shared object -/
def docPairsOk (t : IdTable) : Bool :=
  documentedPairs.all fun p => separatelyDefined.contains p || t.shared p.g p.m p.f

/-- the exception list is tight: both forms exist and really are two objects -/
def exceptionsTight (t : IdTable) : Bool :=
  separatelyDefined.all fun p =>
    documentedPairs.contains p && t.bothExist p.g p.m p.f && !t.shared p.g p.m p.f

end Glue.FnReg
