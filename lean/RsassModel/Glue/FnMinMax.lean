/-
C34 — `min`/`max`: the one documented pair whose global and module forms differ by design.

`sass/functions/math.rs` (since /repo 424b303):
  module:  `def_va!(f, max(numbers), |s| find_extreme(&numbers, Ordering::Greater, true) ..)`
  global:  `def_va!(global, max(numbers), |s| find_extreme(&numbers, Ordering::Greater, false) ..)`
`find_extreme(v, pref, strict)`: walk the numbers keeping the preferred one; two numbers
that Sass cannot compare (`cmp2` = None) are an error if `strict`, otherwise — when
`may_cmp_css` (one css dimension unknown, or equal) — the whole call is kept as the plain
CSS function `max(..)`.  (dart-sass behaves the same: the global names are also the CSS
functions.)  NaN (the `is_comparable` branch) and non-number arguments (kept as CSS by
both forms alike) are outside this model: values are integers in the canonical unit of
their dimension.

Import-free (core only).
-/
namespace Glue.FnReg.MinMax

/-- a number: value (canonical unit of its dimension), Sass dimension (`0` = unitless),
css dimension (`none` = `css_dimension()` is empty: `%`, font/viewport-relative units, unitless) -/
structure Num where
  v : Int
  dim : Nat
  css : Option Nat
deriving Repr, DecidableEq

/-- deviation flag: the global form keeps incomparable numbers as a CSS call -/
structure MinMaxQuirks where
  minMaxCssFallback : Bool
deriving Repr, DecidableEq

def mmSpec : MinMaxQuirks := ⟨false⟩
def mmAsIs : MinMaxQuirks := ⟨true⟩

/-- `cmp2`: same dimension, or one of them unitless -/
def cmp2 (a b : Num) : Option Ordering :=
  if a.dim = b.dim ∨ a.dim = 0 ∨ b.dim = 0 then some (compare a.v b.v) else none

/-- `may_cmp_css` -/
def mayCmpCss (a b : Num) : Bool :=
  a.css.isNone || b.css.isNone || a.css == b.css

inductive Ext
  | num (n : Num)
  /-- kept as the plain CSS function call -/
  | css
  /-- `ExtremeError::Incompatible` -/
  | incompatible
  /-- `ExtremeError::OneRequired` -/
  | oneRequired
deriving Repr, DecidableEq

def walk (strict : Bool) (pref : Ordering) : Num → List Num → Ext
  | found, [] => .num found
  | found, x :: r =>
    match cmp2 found x with
    | some o => walk strict pref (if o = pref then found else x) r
    | none => if !strict && mayCmpCss found x then .css else .incompatible

/-- `find_extreme` -/
def findExtreme (strict : Bool) (pref : Ordering) : List Num → Ext
  | [] => .oneRequired
  | a :: r => walk strict pref a r

/-- `math.max` / `math.min` -/
def moduleExt (pref : Ordering) (l : List Num) : Ext := findExtreme true pref l

/-- global `max` / `min` -/
def globalExt (q : MinMaxQuirks) (pref : Ordering) (l : List Num) : Ext :=
  findExtreme (!q.minMaxCssFallback) pref l

/-- every two arguments are comparable by Sass -/
def AllComparable (l : List Num) : Prop := ∀ a ∈ l, ∀ b ∈ l, (cmp2 a b).isSome = true

theorem walk_strict_irrelevant (pref : Ordering) : ∀ (r : List Num) (found : Num),
    AllComparable (found :: r) → walk false pref found r = walk true pref found r
  | [], _, _ => rfl
  | x :: r, found, h => by
    have hc : (cmp2 found x).isSome = true := h found (by simp) x (by simp)
    cases hcx : cmp2 found x with
    | none => rw [hcx] at hc; cases hc
    | some o =>
      simp only [walk, hcx]
      apply walk_strict_irrelevant pref r
      intro a ha b hb
      have sub : ∀ y, y ∈ (if o = pref then found else x) :: r → y ∈ found :: x :: r := by
        intro y hy
        rcases List.mem_cons.mp hy with rfl | hy
        · split <;> simp
        · simp [hy]
      exact h a (sub a ha) b (sub b hb)

end Glue.FnReg.MinMax
