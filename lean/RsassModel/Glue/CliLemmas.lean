/- Helper lemmas for C40 (name-major vs directory-major lookup). -/
import RsassModel.Glue.Cli
namespace GlueE

theorem findSome_congr {α β : Type} (f g : α → Option β) (l : List α) (h : ∀ x ∈ l, f x = g x) :
    l.findSome? f = l.findSome? g := by
  induction l with
  | nil => rfl
  | cons x xs ih =>
    simp only [List.findSome?_cons, h x (by simp)]
    rw [ih fun y hy => h y (List.mem_cons_of_mem _ hy)]

theorem findSome_none {α β : Type} (f : α → Option β) (l : List α) (h : ∀ x ∈ l, f x = none) :
    l.findSome? f = none := by
  simp only [List.findSome?_eq_none_iff]; exact h

/-- two base directories, the second never matches -/
theorem nameMajor_second_none (fs : Text → Bool) (d lp : Text) (names : List Text)
    (h : ∀ n ∈ names, inBase fs lp n = none) :
    (names.findSome? fun n => [d, lp].findSome? fun b => inBase fs b n)
      = [d, lp].findSome? (firstIn fs names) := by
  have hl : (names.findSome? fun n => [d, lp].findSome? fun b => inBase fs b n)
      = names.findSome? (inBase fs d) := by
    apply findSome_congr
    intro n hn
    simp only [List.findSome?_cons, List.findSome?_nil, h n hn]
    cases inBase fs d n <;> rfl
  rw [hl]
  simp only [List.findSome?_cons, List.findSome?_nil, firstIn, findSome_none _ _ h]
  cases List.findSome? (inBase fs d) names <;> rfl

/-- two base directories, the first never matches -/
theorem nameMajor_first_none (fs : Text → Bool) (d lp : Text) (names : List Text)
    (h : ∀ n ∈ names, inBase fs d n = none) :
    (names.findSome? fun n => [d, lp].findSome? fun b => inBase fs b n)
      = [d, lp].findSome? (firstIn fs names) := by
  have hl : (names.findSome? fun n => [d, lp].findSome? fun b => inBase fs b n)
      = names.findSome? (inBase fs lp) := by
    apply findSome_congr
    intro n hn
    simp only [List.findSome?_cons, List.findSome?_nil, h n hn]
    cases inBase fs lp n <;> rfl
  rw [hl]
  simp only [List.findSome?_cons, List.findSome?_nil, firstIn, findSome_none _ _ h]
  cases List.findSome? (inBase fs lp) names <;> rfl

/-- a single base directory: the loop order is irrelevant -/
theorem nameMajor_single (fs : Text → Bool) (d : Text) (names : List Text) :
    (names.findSome? fun n => [d].findSome? fun b => inBase fs b n) = [d].findSome? (firstIn fs names) := by
  have hl : (names.findSome? fun n => [d].findSome? fun b => inBase fs b n)
      = names.findSome? (inBase fs d) := by
    apply findSome_congr
    intro n _
    simp only [List.findSome?_cons, List.findSome?_nil]
    cases inBase fs d n <;> rfl
  rw [hl]
  simp only [List.findSome?_cons, List.findSome?_nil, firstIn]
  cases List.findSome? (inBase fs d) names <;> rfl

end GlueE
