/-
C38 — model of the three library entry points of `rsass/src/lib.rs`
(`compile_value`, `compile_scss`, `compile_scss_path`) as compositions of the pieces they
call, plus a byte-level model of what writes a single declaration
(`output/cssbuf.rs` `CssBuf`, `css/rule.rs` `Rule::write` / `Property::write`,
`output/cssdata.rs` `CssData::into_buffer`).

Everything that lib.rs merely *calls* (parser, evaluator, value formatter, file system)
is a field of `World`; the theorems hold for every `World`.
-/
namespace GlueE

abbrev Text := List Char

/-- Deviations of the code from the property (DESIGN 4.4). -/
structure EntryQuirks where
  /-- `compile_value` returns `value.format(format).to_string()` unchanged, while
  `Property::write` prints the same text with every `'\n'` replaced by `' '` -/
  compileValueKeepsNewline : Bool := false

def entryAsIs : EntryQuirks := { compileValueKeepsNewline := true }
def entrySpec : EntryQuirks := {}

/-! ## `CssBuf` (output/cssbuf.rs).  The byte buffer is kept reversed (`rev.head?` is
`buf.last()`), which makes `pop`/`last` structural. -/

structure CssBuf where
  rev : Text
  compressed : Bool
  indent : Nat

namespace CssBuf

/-- `CssBuf::new(format)` -/
def new (compressed : Bool) : CssBuf := { rev := [], compressed := compressed, indent := 0 }

/-- `add_str` -/
def addStr (b : CssBuf) (s : Text) : CssBuf := { b with rev := s.reverse ++ b.rev }

/-- `add_one(normal, compressed)` -/
def addOne (b : CssBuf) (normal compressed : Text) : CssBuf :=
  b.addStr (if b.compressed then compressed else normal)

/-- `Format::get_indent(len)`: newline followed by `len` spaces, empty when compressed -/
def getIndent (compressed : Bool) (len : Nat) : Text :=
  if compressed then [] else '\n' :: List.replicate len ' '

/-- `do_indent` -/
def doIndent (b : CssBuf) : CssBuf := b.addStr (getIndent b.compressed b.indent)

/-- `do_indent_no_nl`: the indent without its leading newline -/
def doIndentNoNl (b : CssBuf) : CssBuf :=
  let stuff := getIndent b.compressed b.indent
  if stuff.length > 1 then b.addStr (stuff.drop 1) else b

/-- `pop_nl` -/
def popNl (b : CssBuf) : CssBuf :=
  if b.rev.head? = some '\n' then { b with rev := b.rev.tail } else b

/-- `start_block` -/
def startBlock (b : CssBuf) : CssBuf :=
  let b := b.addOne [' ', '{', '\n'] ['{']
  { b with indent := b.indent + 2 }

/-- `end_block` -/
def endBlock (b : CssBuf) : CssBuf :=
  let b := b.popNl
  let b := if b.compressed ∧ b.rev.head? = some ';' then { b with rev := b.rev.tail } else b
  let b := { b with indent := b.indent - 2 }
  let b := if b.rev.head? ≠ some '{' then b.doIndent else b
  b.addOne ['}', '\n'] ['}']

/-- `take` -/
def take (b : CssBuf) : Text := b.rev.reverse

end CssBuf

/-- `.replace('\n', " ")` in `Property::write` -/
def replNl (t : Text) : Text := t.map fun c => if c = '\n' then ' ' else c

/-- `Property::write` (css/rule.rs): name, `: `, the formatted value with newlines
replaced, `;` -/
def writeProperty (b : CssBuf) (name value : Text) : CssBuf :=
  let b := b.doIndentNoNl
  let b := b.addStr name
  let b := b.addOne [':', ' '] [':']
  let b := b.addStr (replNl value)
  b.addOne [';', '\n'] [';']

/-- `Rule::write` for a rule whose selector text is `sel` (non-empty, no placeholder)
and whose body consists of properties -/
def writeRule (b : CssBuf) (sel : Text) (body : List (Text × Text)) : CssBuf :=
  if body.isEmpty then b
  else
    let b := b.doIndentNoNl
    let b := b.addStr (if sel.isEmpty then ['*'] else sel)
    let b := b.startBlock
    let b := body.foldl (fun b p => writeProperty b p.1 p.2) b
    b.endBlock

def isAscii (t : Text) : Bool := t.all fun c => c.toNat < 128

/-- the encoding mark `CssData::into_buffer` puts in front of non-ASCII output -/
def mark (compressed : Bool) : Text :=
  if compressed then [Char.ofNat 0xFEFF] else ['@', 'c', 'h', 'a', 'r', 's', 'e', 't', ' ', '"', 'U', 'T', 'F', '-', '8', '"', ';', '\n']

/-- the tail of `CssData::into_buffer`: encoding mark, strip trailing newlines, strip a
final `;` when compressed, terminate a non-empty result with one newline -/
def intoBuffer (compressed : Bool) (buf : Text) : Text :=
  let result := if isAscii buf then buf else mark compressed ++ buf
  let r := result.reverse.dropWhile (· = '\n')
  let r := if compressed ∧ r.head? = some ';' then r.tail else r
  let r := if r.isEmpty then r else '\n' :: r
  r.reverse

/-- the whole document for the stylesheet `x { y: <value> }` given the formatted value
text (`None` = the value was null: the declaration is dropped) -/
def declDoc (compressed : Bool) (value : Option Text) : Text :=
  let body := match value with
    | some v => [(['y'], v)]
    | none => []
  intoBuffer compressed (writeRule (CssBuf.new compressed) ['x'] body).take

/-! ### reading the value text back out of such a document -/

def stripPrefix? (p t : Text) : Option Text :=
  if p.isPrefixOf t then some (t.drop p.length) else none

def stripSuffix? (s t : Text) : Option Text :=
  (stripPrefix? s.reverse t.reverse).map List.reverse

def declPrefix (compressed : Bool) : Text := if compressed then ['x', '{', 'y', ':'] else ['x', ' ', '{', '\n', ' ', ' ', 'y', ':', ' ']
def declSuffix (compressed : Bool) : Text := if compressed then ['}', '\n'] else [';', '\n', '}', '\n']

/-- remove the encoding mark, if there is one -/
def dropMark (compressed : Bool) (doc : Text) : Text :=
  match stripPrefix? (mark compressed) doc with
  | some rest => rest
  | none => doc

/-- the value text of the only declaration of a document of the shape `declDoc` writes -/
def extractDecl (compressed : Bool) (doc : Text) : Option Text :=
  (stripPrefix? (declPrefix compressed) (dropMark compressed doc)).bind
    (stripSuffix? (declSuffix compressed))

/-! ## The entry points -/

structure Format where
  compressed : Bool
  precision : Nat

/-- A parsed top-level item, as far as the loader is concerned. -/
inductive Item where
  /-- anything that is evaluated and written without consulting the loader -/
  | css (k : Nat)
  /-- `@import` / `@use` / `@forward` / `meta.load-css` of a url through the loader -/
  | load (url : Text)

def Item.isLoad : Item → Bool
  | .load _ => true
  | .css _ => false

/-- What `lib.rs` composes, as parameters.  `none` is `Err(_)`. -/
structure World (Val : Type) where
  /-- `std::fs::File::open(path)` + `read_to_end` -/
  file : Text → Option Text
  /-- `Context::find_file` over an `FsLoader` with the given base directories -/
  lookup : List Text → Text → Option Text
  /-- `SourceFile::parse` (scss) -/
  parse : Text → Option (List Item)
  /-- evaluating and writing one loader-independent item in a given format -/
  render : Format → Nat → Option Text
  /-- `parse_value_data(input)?.evaluate(ScopeRef::new_global(format))` -/
  evalValue : Format → Text → Option Val
  /-- `value.format(format).to_string()` -/
  fmtValue : Format → Val → Text
  /-- `css::Value::is_null` -/
  isNull : Val → Bool
  /-- `css::Value::valid_css` is `Ok` -/
  validCss : Val → Bool

variable {Val : Type}

/-- `handle_parsed` as far as the loader is involved: items are written in order; a load
looks the url up through the loader's base directories, parses and runs the file. -/
def run (w : World Val) (paths : List Text) (fmt : Format) : Nat → List Item → Option Text
  | _, [] => some []
  | fuel, .css k :: rest =>
    match w.render fmt k, run w paths fmt fuel rest with
    | some a, some b => some (a ++ b)
    | _, _ => none
  | 0, .load _ :: _ => none
  | fuel + 1, .load url :: rest =>
    match w.lookup paths url with
    | none => none
    | some d =>
      match w.parse d with
      | none => none
      | some its =>
        match run w paths fmt fuel its, run w paths fmt (fuel + 1) rest with
        | some a, some b => some (a ++ b)
        | _, _ => none
termination_by fuel items => (fuel, items.length)

/-- `Context::for_loader(FsLoader{path}).with_format(format).transform(source)` -/
def transform (w : World Val) (fuel : Nat) (paths : List Text) (fmt : Format) (data : Text) :
    Option Text :=
  match w.parse data with
  | none => none
  | some items => (run w paths fmt fuel items).map (intoBuffer fmt.compressed)

/-- `FsLoader::for_cwd()`: `path: vec![PathBuf::new()]` -/
def forCwd : List Text := [[]]

/-- `path.parent()` as text: everything before the last `/` (empty when there is none) -/
def parentDir (p : Text) : Text :=
  (p.reverse.dropWhile (· ≠ '/')).tail.reverse

/-- `FsLoader::for_path(path)`: open the file, base directory = its parent -/
def forPath (w : World Val) (p : Text) : Option (List Text × Text) :=
  match w.file p with
  | none => none
  | some data => some ([parentDir p], data)

/-- `compile_scss(input, format)` -/
def compileScss (w : World Val) (fuel : Nat) (input : Text) (fmt : Format) : Option Text :=
  transform w fuel forCwd fmt input

/-- `compile_scss_path(path, format)` -/
def compileScssPath (w : World Val) (fuel : Nat) (p : Text) (fmt : Format) : Option Text :=
  match forPath w p with
  | none => none
  | some (paths, data) => transform w fuel paths fmt data

/-- `compile_value(input, format)`.  Since fix 605a7fd the body ends
`value.format(format).to_string().replace('\n', " ").into_bytes()` — the spec instance (flag off);
with the flag on it is the earlier body `value.format(format).to_string().into_bytes()`. -/
def compileValue (q : EntryQuirks) (w : World Val) (input : Text) (fmt : Format) : Option Text :=
  match w.evalValue fmt input with
  | none => none
  | some v =>
    let t := w.fmtValue fmt v
    some (if q.compileValueKeepsNewline then t else replNl t)

/-- `compile_scss("x { y: <input> }", format)`: `Item::Property` in output/transform.rs
(null values are dropped, `valid_css()` is demanded) followed by the writer -/
def compileDecl (w : World Val) (input : Text) (fmt : Format) : Option Text :=
  match w.evalValue fmt input with
  | none => none
  | some v =>
    if w.isNull v then some (declDoc fmt.compressed none)
    else if w.validCss v then some (declDoc fmt.compressed (some (w.fmtValue fmt v)))
    else none

end GlueE
