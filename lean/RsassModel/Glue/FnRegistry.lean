/-
C34 — model of built-in function dispatch.

Rust code mirrored:
* `sass/functions/mod.rs`: statics `MODULES` (seven `sass:` scopes) and `FUNCTIONS` (global
  names), filled by the `expose()` functions of `sass/functions/*.rs`, which insert a CLONE
  of the module's `Function` (`m.get_lfunction(lname)`) under the global name — the clone
  shares the `Arc` body, so `Builtin::eq` (`args ==`, `pos ==`, `Arc::ptr_eq`) holds —
  or define a separate function (`def!(global, ..)`, `css::global`, `round::css_round`).
  Here: `IdTable` (extracted from the running code into `Generated/FnRegistry.lean`:
  identical function objects carry the same id) + `store : Nat → Fn`.
* `sass/formal_args.rs` `FormalArgs::eval` + `css/call_args.rs` (`take_positional`,
  `named.remove`, `only_named`, `check_no_named`): `bindParams`, `bind`.
* `Builtin::eval_value` / `Function::call`: `Fn.call`.
* `sass/value.rs` `Value::Call` evaluation (scope functions first, then
  `Function::get_builtin`; `ns.name` through `Scope::get_function`/`split_module`):
  `resolve`, `callDirect`.
* `sass/functions/meta.rs` `get_function` helper, `get-function`, `call`: `getFunction`,
  `metaCall`.

Import-free (core only).
-/
namespace Glue.FnReg

abbrev Name := List Char

/-! ## the table of function objects (T1: regenerated from the running code) -/

/-- `globals`: global name ↦ id of its function object; `modules`: module ↦ function
name ↦ id.  Two entries carry the same id iff the Rust objects are `==`. -/
structure IdTable where
  globals : List (Name × Nat)
  modules : List (Name × List (Name × Nat))
deriving Repr

def IdTable.globalId (t : IdTable) (g : Name) : Option Nat := t.globals.lookup g

def IdTable.moduleId (t : IdTable) (m f : Name) : Option Nat :=
  match t.modules.lookup m with
  | some fs => fs.lookup f
  | none => none

/-- the global `g` and `m.f` are one and the same function object -/
def IdTable.shared (t : IdTable) (g m f : Name) : Bool :=
  match t.globalId g, t.moduleId m f with
  | some i, some j => i == j
  | _, _ => false

/-- both forms exist -/
def IdTable.bothExist (t : IdTable) (g m f : Name) : Bool :=
  (t.globalId g).isSome && (t.moduleId m f).isSome

/-! ## argument binding (`FormalArgs::eval`) -/

section
variable {V : Type}

/-- `FormalArgs(Box<[(Name, Option<Value>)]>, Option<Name>)`; defaults of built-ins are
constants, modelled as already evaluated values. -/
structure Formals (V : Type) where
  params : List (Name × Option V)
  rest : Option Name

/-- `css::CallArgs`: positional values and the insertion-ordered map of named ones. -/
structure CallArgs (V : Type) where
  positional : List V
  named : List (Name × V)

inductive ArgsErr
  | tooMany
  | missing (n : Name)
  | unexpected (n : Name)
deriving Repr, DecidableEq

/-- what a formal is bound to: a value, or (rest parameter) an argument list -/
inductive Bound (V : Type)
  | val (v : V)
  | arglist (positional : List V) (named : List (Name × V))

/-- `OrderMap::remove` -/
def lookupRemove (n : Name) : List (Name × V) → Option (V × List (Name × V))
  | [] => none
  | (k, v) :: r =>
    if k = n then some (v, r)
    else match lookupRemove n r with
      | some (x, r') => some (x, (k, v) :: r')
      | none => none

/-- The two loops of `FormalArgs::eval` fused into one recursion over the formals: a
formal takes the next positional value while there is one (`take_positional` + the
`zip` loop), afterwards the named value of its name, else its default, else
`Missing`.  Returns the bindings in formal order, the positional values left over and
the named values left over. -/
def bindParams : List (Name × Option V) → List V → List (Name × V) →
    Except ArgsErr (List (Name × Bound V) × List V × List (Name × V))
  | [], pos, named => .ok ([], pos, named)
  | (p, _) :: ps, v :: pos, named =>
    match bindParams ps pos named with
    | .ok (b, rp, rn) => .ok ((p, .val v) :: b, rp, rn)
    | .error e => .error e
  | (p, d) :: ps, [], named =>
    match lookupRemove p named with
    | some (v, named') =>
      match bindParams ps [] named' with
      | .ok (b, rp, rn) => .ok ((p, .val v) :: b, rp, rn)
      | .error e => .error e
    | none =>
      match d with
      | some dv =>
        match bindParams ps [] named with
        | .ok (b, rp, rn) => .ok ((p, .val dv) :: b, rp, rn)
        | .error e => .error e
      | none => .error (.missing p)

/-- `FormalArgs::eval` -/
def bind (f : Formals V) (a : CallArgs V) : Except ArgsErr (List (Name × Bound V)) :=
  if f.rest.isNone && decide (a.positional.length + a.named.length > f.params.length) then
    .error .tooMany
  else
    match bindParams f.params a.positional a.named with
    | .error e => .error e
    | .ok (b, rp, rn) =>
      match f.rest with
      | some va =>
        -- `args.only_named(va_name).unwrap_or_else(|| args.into())`
        let r : Bound V :=
          if rp.isEmpty && rn.length == 1 then
            match lookupRemove va rn with
            | some (v, _) => .val v
            | none => .arglist rp rn
          else .arglist rp rn
        .ok (b ++ [(va, r)])
      | none =>
        -- `args.check_no_named()`
        match rn with
        | [] => .ok b
        | (k, _) :: _ => .error (.unexpected k)

/-! ## functions and calls -/

inductive CallErr (E : Type)
  | args (e : ArgsErr)
  | body (e : E)
  | undefinedFunction
  | noModule

/-- A built-in: formals + body.  The body sees the resolved arguments and the caller's
scope `C` (`ResolvedArgs::call_scope`, used by `meta.*`); it is a mathematical function —
that is C05's purity of built-ins. -/
structure Fn (V C E : Type) where
  formals : Formals V
  body : List (Name × Bound V) → C → Except E V

/-- `Builtin::eval_value` -/
def Fn.call {C E : Type} (f : Fn V C E) (a : CallArgs V) (c : C) : Except (CallErr E) V :=
  match bind f.formals a with
  | .error e => .error (.args e)
  | .ok b =>
    match f.body b c with
    | .ok v => .ok v
    | .error e => .error (.body e)

/-- The process-wide registry: the id table and the function object behind each id. -/
structure Registry (V C E : Type) where
  table : IdTable
  store : Nat → Fn V C E

/-- What the calling scope contributes to name resolution: user-defined functions
(searched first) and the namespaces bound by `@use "sass:m" as ns`. -/
structure CallScope (V C E : Type) where
  user : List (Name × Fn V C E)
  uses : List (Name × Name)

/-- result of resolving a call's name -/
inductive Resolved (V C E : Type)
  | fn (f : Fn V C E)
  | plainCss            -- no such function: kept as a CSS function call
  | undefinedFunction   -- `ns.f` with `f` unknown in the module
  | noModule

variable {C E : Type}

/-- Unqualified: `scope.get_function(name)` then `Function::get_builtin(name)`.
Qualified `ns.f`: `Scope::get_function` with `split_module`. -/
def resolve (r : Registry V C E) (s : CallScope V C E) (ns : Option Name) (f : Name) : Resolved V C E :=
  match ns with
  | none =>
    match s.user.lookup f with
    | some u => .fn u
    | none =>
      match r.table.globalId f with
      | some i => .fn (r.store i)
      | none => .plainCss
  | some n =>
    match s.uses.lookup n with
    | none => .noModule
    | some m =>
      match r.table.moduleId m f with
      | some i => .fn (r.store i)
      | none => .undefinedFunction

inductive Out (V E : Type)
  | value (r : Except (CallErr E) V)
  | cssCall

/-- a call written in the stylesheet: `f(args)` or `ns.f(args)` -/
def callDirect (r : Registry V C E) (s : CallScope V C E) (ns : Option Name) (f : Name)
    (a : CallArgs V) (c : C) : Out V E :=
  match resolve r s ns f with
  | .fn fn => .value (fn.call a c)
  | .plainCss => .cssCall
  | .undefinedFunction => .value (.error .undefinedFunction)
  | .noModule => .value (.error .noModule)

/-- `meta.get-function($name, $module: ns)` (with `$css: false`): a function value
holding the resolved function object, or an error. -/
def getFunction (r : Registry V C E) (s : CallScope V C E) (ns : Option Name) (f : Name) :
    Except (CallErr E) (Fn V C E) :=
  match resolve r s ns f with
  | .fn fn => .ok fn
  | .plainCss => .error .undefinedFunction      -- "Function not found"
  | .undefinedFunction => .error .undefinedFunction
  | .noModule => .error .noModule

/-- `meta.call($function, $args...)` with a function value -/
def metaCall (fv : Fn V C E) (a : CallArgs V) (c : C) : Except (CallErr E) V := fv.call a c

end

end Glue.FnReg
