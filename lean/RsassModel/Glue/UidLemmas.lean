/-
Helper lemmas for C06 (`Glue/Uid.lean`): hex printing is injective, the state machine
of `CALL_ID`.
-/
import RsassModel.Glue.Uid
namespace Glue.Uid

/-! ### hex -/

def ofDigits : List Nat → Nat
  | [] => 0
  | d :: r => d + 16 * ofDigits r

theorem ofDigits_hexRev (n : Nat) : ofDigits (hexRev n) = n := by
  induction n using hexRev.induct with
  | case1 x h => rw [hexRev]; simp [h, ofDigits]
  | case2 x h ih => rw [hexRev]; simp only [h, dite_false, ofDigits, ih]; omega

theorem hexRev_injective {a b : Nat} (h : hexRev a = hexRev b) : a = b := by
  rw [← ofDigits_hexRev a, ← ofDigits_hexRev b, h]

theorem hexRev_lt (n : Nat) : ∀ d ∈ hexRev n, d < 16 := by
  induction n using hexRev.induct with
  | case1 x h => rw [hexRev]; simp [h]
  | case2 x h ih =>
    rw [hexRev]; simp only [h, dite_false, List.mem_cons]
    intro d hd
    rcases hd with rfl | hd
    · omega
    · exact ih d hd

theorem hexRev_ne_nil (n : Nat) : hexRev n ≠ [] := by
  rw [hexRev]; split <;> simp

theorem hexChar_inj : ∀ d1, d1 < 16 → ∀ d2, d2 < 16 → hexChar d1 = hexChar d2 → d1 = d2 := by
  decide

theorem hexChar_lower : ∀ d, d < 16 → isLowerHex (hexChar d) = true := by decide

theorem map_hexChar_inj : ∀ (l1 l2 : List Nat), (∀ d ∈ l1, d < 16) → (∀ d ∈ l2, d < 16) →
    l1.map hexChar = l2.map hexChar → l1 = l2
  | [], [], _, _, _ => rfl
  | [], _ :: _, _, _, h => by simp at h
  | _ :: _, [], _, _, h => by simp at h
  | a :: r1, b :: r2, h1, h2, h => by
    simp only [List.map_cons, List.cons.injEq] at h
    have hab := hexChar_inj a (h1 a (by simp)) b (h2 b (by simp)) h.1
    have hr := map_hexChar_inj r1 r2 (fun d hd => h1 d (by simp [hd])) (fun d hd => h2 d (by simp [hd])) h.2
    rw [hab, hr]

theorem toHex_injective {a b : Nat} (h : toHex a = toHex b) : a = b := by
  unfold toHex at h
  have := map_hexChar_inj _ _
    (fun d hd => hexRev_lt a d (by simpa using hd))
    (fun d hd => hexRev_lt b d (by simpa using hd)) h
  exact hexRev_injective (List.reverse_inj.mp this)

theorem idText_injective {a b : Nat} (h : idText a = idText b) : a = b := by
  unfold idText at h
  exact toHex_injective (by simpa using h)

theorem toHex_ne_nil (n : Nat) : toHex n ≠ [] := by
  unfold toHex
  simp [hexRev_ne_nil]

theorem toHex_all_lower (n : Nat) : (toHex n).all isLowerHex = true := by
  unfold toHex
  simp only [List.all_eq_true, List.mem_map, List.mem_reverse]
  rintro c ⟨d, hd, rfl⟩
  exact hexChar_lower d (hexRev_lt n d hd)

theorem isLowerHex_nmChar (c : Char) (h : isLowerHex c = true) : isNmChar c = true := by
  unfold isLowerHex at h
  unfold isNmChar isNmStart
  simp only [Bool.or_eq_true, Bool.and_eq_true, decide_eq_true_eq] at h ⊢
  rcases h with h | h
  · left; right; exact h
  · left; left; left; left; left
    exact ⟨h.1, Char.le_trans h.2 (by decide)⟩

/-! ### the counter -/

/-- `a` was issued before `b` and is numerically smaller -/
def idLt (a b : List Char) : Prop := ∃ va vb, a = idText va ∧ b = idText vb ∧ va < vb

theorem idLt_ne {a b : List Char} (h : idLt a b) : a ≠ b := by
  obtain ⟨va, vb, rfl, rfl, hlt⟩ := h
  intro he
  have := idText_injective he
  omega

theorem run_poisoned (oc : Bool) (s : St) (hp : s.poisoned = true) (n : Nat) :
    idsOf (run oc s n).2 = [] ∧ (run oc s n).1 = s := by
  induction n with
  | zero => simp [run, idsOf]
  | succ n ih =>
    simp only [run, step, hp, if_true]
    constructor
    · simpa [idsOf, Outcome.text?] using ih.1
    · exact ih.2

/-- no wrap can happen during these `n` calls: either the build checks overflows (then
the call at the boundary panics instead), or the counter stays below 2^64 -/
def NoWrap (oc : Bool) (s : St) (n : Nat) : Prop := oc = true ∨ s.counter + n < two64

theorem run_ids (oc : Bool) (n : Nat) : ∀ (s : St), NoWrap oc s n →
    (idsOf (run oc s n).2).Pairwise idLt ∧
    ∀ t ∈ idsOf (run oc s n).2, ∃ v, t = idText v ∧ s.counter < v := by
  induction n with
  | zero => intro s _; simp [run, idsOf]
  | succ n ih =>
    rintro ⟨c, p⟩ hnw
    cases p with
    | true =>
      have := run_poisoned oc ⟨c, true⟩ rfl (n + 1)
      rw [this.1]; simp
    | false =>
      by_cases hc : c + 1 < two64
      · -- ordinary increment
        have hnw' : NoWrap oc ⟨c + 1, false⟩ n := by
          rcases hnw with h | h
          · exact Or.inl h
          · right; show c + 1 + n < two64
            have : c + (n + 1) < two64 := h
            omega
        have ih' := ih _ hnw'
        simp only [run, step, hc, if_true, Bool.false_eq_true, if_false]
        simp only [idsOf, List.filterMap_cons, Outcome.text?] at ih' ⊢
        refine ⟨List.pairwise_cons.mpr ⟨?_, ih'.1⟩, ?_⟩
        · intro t ht
          obtain ⟨v, rfl, hv⟩ := ih'.2 t ht
          exact ⟨c + 1, v, rfl, rfl, hv⟩
        · intro t ht
          rcases List.mem_cons.mp ht with rfl | ht
          · exact ⟨c + 1, rfl, by show c < c + 1; omega⟩
          · obtain ⟨v, rfl, hv⟩ := ih'.2 t ht
            refine ⟨v, rfl, ?_⟩
            have : c + 1 < v := hv
            show c < v; omega
      · -- at the boundary
        rcases hnw with h | h
        · subst h
          have hpo := run_poisoned true ⟨c, true⟩ rfl n
          simp only [run, step, hc, if_true, Bool.false_eq_true, if_false]
          simp only [idsOf, List.filterMap_cons, Outcome.text?] at hpo ⊢
          rw [hpo.1]; simp
        · have : c + (n + 1) < two64 := h
          omega

/-- Values issued, when no wrap happens: exactly `counter+1 … counter+n`, in order. -/
theorem run_contiguous (oc : Bool) (n : Nat) : ∀ (c : Nat), c + n < two64 →
    run oc ⟨c, false⟩ n = (⟨c + n, false⟩,
                  (List.range' (c + 1) n).map (fun v => Outcome.id (idText v))) := by
  induction n with
  | zero => intro c _; simp [run]
  | succ n ih =>
    intro c hb
    have hc : c + 1 < two64 := by omega
    have := ih (c + 1) (by omega)
    simp only [run, step, hc, if_true, Bool.false_eq_true, if_false, this]
    simp [List.range'_succ, Nat.add_assoc, Nat.add_comm 1 n]

theorem runSched_eq_run (oc : Bool) : ∀ (sched : List Nat) (s : St),
    (runSched oc s sched).1 = (run oc s sched.length).1 ∧
    (runSched oc s sched).2.map (·.2) = (run oc s sched.length).2
  | [], s => by simp [runSched, run]
  | t :: rest, s => by
    have := runSched_eq_run oc rest (step oc s).1
    simp only [runSched, run, List.length_cons, List.map_cons]
    exact ⟨this.1, by rw [this.2]⟩

theorem threadView_sublist (t : Nat) (l : List (Nat × Outcome)) :
    (idsOf (threadView t l)).Sublist (idsOf (l.map (·.2))) := by
  unfold idsOf threadView
  exact List.Sublist.filterMap _ (List.Sublist.map _ List.filter_sublist)

/-! ### closeness arithmetic for `into_integer` -/

theorem le_of_close (K : Nat) (Ki : Int) (hKi : Ki = (K : Int)) (v X n : Int) (d : Nat) (hv : v ≤ X)
    (hc : K * (X - n).natAbs < d) : Ki * (v - n) < d := by
  subst hKi
  have h1 : X - n ≤ ((X - n).natAbs : Int) := Int.le_natAbs
  have hK : (0 : Int) ≤ (K : Int) := Int.natCast_nonneg K
  have h2 : (K : Int) * (v - n) ≤ K * ((X - n).natAbs : Int) :=
    Int.mul_le_mul_of_nonneg_left (by omega) hK
  have h3 : ((K * (X - n).natAbs : Nat) : Int) < (d : Int) := Int.ofNat_lt.mpr hc
  rw [Int.natCast_mul] at h3
  omega

theorem le_of_close' (K : Nat) (Ki : Int) (hKi : Ki = (K : Int)) (v X n : Int) (d : Nat) (hv : v ≤ X)
    (hc : K * (X - n).natAbs ≤ d) : Ki * (v - n) ≤ d := by
  subst hKi
  have h1 : X - n ≤ ((X - n).natAbs : Int) := Int.le_natAbs
  have hK : (0 : Int) ≤ (K : Int) := Int.natCast_nonneg K
  have h2 : (K : Int) * (v - n) ≤ K * ((X - n).natAbs : Int) :=
    Int.mul_le_mul_of_nonneg_left (by omega) hK
  have h3 : ((K * (X - n).natAbs : Nat) : Int) ≤ (d : Int) := Int.ofNat_le.mpr hc
  rw [Int.natCast_mul] at h3
  omega

end Glue.Uid
