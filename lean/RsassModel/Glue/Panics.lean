/-
C01 — guard logic of the panic-capable sites named in the property's anchors, as total
functions returning `Except Panic α`.  Import-free (core only): the driver links it.

Each definition names the Rust function it mirrors.  Only the *guard logic* is modelled:
what decides whether the site panics, not the values the surrounding code computes.
-/
namespace Panics

/-- why a site panics (Rust: the panic message class) -/
inductive Panic where
  | sliceOOB      -- str/slice index out of bounds
  | unwrapNone    -- `Option::unwrap()` on `None`
  | unwrapErr     -- `Result::unwrap()` on `Err`
  | overflow      -- integer arithmetic overflow (overflow-checks on)
  deriving DecidableEq, Repr

abbrev R (α : Type) := Except Panic α

instance {α} [DecidableEq α] : DecidableEq (R α)
  | .ok a, .ok b => if h : a = b then isTrue (by rw [h]) else isFalse (by intro h'; cases h'; exact h rfl)
  | .error a, .error b => if h : a = b then isTrue (by rw [h]) else isFalse (by intro h'; cases h'; exact h rfl)
  | .ok _, .error _ => isFalse (by intro h; cases h)
  | .error _, .ok _ => isFalse (by intro h; cases h)

def R.isOk {α} : R α → Bool
  | .ok _ => true
  | .error _ => false

/-- checked `usize` subtraction (`a - b` with overflow-checks on) -/
def usub (a b : Nat) : R Nat := if b ≤ a then .ok (a - b) else .error .overflow

/-! ## 1. `Format::get_indent` (output/format.rs) and its callers -/

/-- the `INDENT` constant is a newline followed by 80 spaces -/
def indentBytes : Nat := 81

/-- `Format::get_indent(len)`: `""` when compressed, else `&INDENT[..=len]`
(end index `len + 1` must not exceed the 81 bytes). Returns the length of the slice. -/
def getIndent (compressed : Bool) (len : Nat) : R Nat :=
  if compressed then .ok 0
  else if len + 1 ≤ indentBytes then .ok (len + 1) else .error .sliceOOB

/-- `Comment::write`'s `existing` for one continuation line (css/comment.rs, the closure in
`.lines().skip(1).map(..)`): the number of leading spaces `i`, kept when the next byte is `*`
(or the line ends there), else `i.saturating_sub(2)`. -/
def lineExisting (line : List Char) : Nat :=
  let i := (line.takeWhile (· = ' ')).length
  match line.drop i with
  | [] => i
  | c :: _ => if c = '*' then i else i - 2

/-- `.min().unwrap_or(indent)` over the continuation lines -/
def existingOf (indent : Nat) (contLines : List (List Char)) : Nat :=
  match contLines.map lineExisting with
  | [] => indent
  | x :: xs => xs.foldl Nat.min x

/-- `Comment::write` (css/comment.rs) after the `starts_with('#')` early return:
`do_indent_no_nl()` then the `indent.cmp(&existing)` match. -/
def commentWrite (compressed : Bool) (indent existing : Nat) : R Unit :=
  match getIndent compressed indent with            -- buf.do_indent_no_nl()
  | .error e => .error e
  | .ok _ =>
    if existing < indent then                        -- Ordering::Greater
      match usub indent existing with
      | .error e => .error e
      | .ok d => match getIndent compressed d with
        | .error e => .error e
        | .ok _ => .ok ()
    else if indent < existing then                   -- Ordering::Less
      match usub existing indent with
      | .error e => .error e
      | .ok d => match usub d 1 with
        | .error e => .error e
        | .ok d1 => match getIndent compressed d1 with
          | .error e => .error e
          | .ok _ => .ok ()
    else .ok ()

/-- What the CSS writer does with one output item, as far as indentation goes
(css/item.rs, css/rule.rs, css/atrule.rs, css/mediarule.rs):
* `leaf`: `Property` / `CustomProperty` / `Import` / body-less `AtRule` / `CssFunction`
  — one `do_indent_no_nl()`;
* `comment existing`: `Comment::write` with that `existing`;
* `block body`: `Rule` / `MediaRule` with a non-empty body, `AtRule` with `Some(body)`:
  `do_indent_no_nl()`, `start_block()` (`indent += 2`), the body, `end_block()`
  (`indent -= 2`, `do_indent()` unless the block is empty);
* `inlineComment existing`: `AtRule` whose body is exactly one comment — written on the header's
  line, the comment at the header's indentation;
* `silent`: writes nothing that indents (`Rule`/`MediaRule` with an empty body, a rule whose
  selectors are all placeholders, `Separator`, a `#`-comment). -/
inductive Item where
  | leaf
  | comment (existing : Nat)
  | block (body : List Item)
  | inlineComment (existing : Nat)
  | silent

mutual
/-- `Item::write` / `BodyItem::write` / `AtRuleBodyItem::write` with `CssBuf.indent = indent` -/
def writeItem (compressed : Bool) (indent : Nat) : Item → R Unit
  | .leaf => match getIndent compressed indent with
    | .error e => .error e
    | .ok _ => .ok ()
  | .comment ex => commentWrite compressed indent ex
  | .silent => .ok ()
  | .inlineComment ex => match getIndent compressed indent with
    | .error e => .error e
    | .ok _ => commentWrite compressed indent ex
  | .block body => match getIndent compressed indent with   -- header: do_indent_no_nl
    | .error e => .error e
    | .ok _ => match writeItems compressed (indent + 2) body with   -- start_block .. body
      | .error e => .error e
      | .ok _ => match getIndent compressed indent with     -- end_block: indent -= 2; do_indent
        | .error e => .error e
        | .ok _ => .ok ()
def writeItems (compressed : Bool) (indent : Nat) : List Item → R Unit
  | [] => .ok ()
  | it :: rest => match writeItem compressed indent it with
    | .error e => .error e
    | .ok _ => writeItems compressed indent rest
end

/-- `CssData::into_buffer`: every top-level item is written at indent 0 -/
def writeCss (compressed : Bool) (items : List Item) : R Unit := writeItems compressed 0 items

/-- largest `len` any `get_indent(len)` call of the traversal is given (0 for none);
for a comment both its own indentation and the re-indentation width count -/
def commentNeed (indent existing : Nat) : Nat :=
  if existing < indent then indent            -- second call gets `indent - existing ≤ indent`
  else if indent < existing then Nat.max indent (existing - indent - 1)
  else indent

mutual
def itemNeed (indent : Nat) : Item → Nat
  | .leaf => indent
  | .comment ex => commentNeed indent ex
  | .silent => 0
  | .inlineComment ex => commentNeed indent ex
  | .block body => Nat.max indent (itemsNeed (indent + 2) body)
def itemsNeed (indent : Nat) : List Item → Nat
  | [] => 0
  | it :: rest => Nat.max (itemNeed indent it) (itemsNeed indent rest)
end

-- block nesting depth of an output tree (a leaf directly in a block has depth 1)
mutual
def itemDepth : Item → Nat
  | .block body => itemsDepth body + 1
  | _ => 0
def itemsDepth : List Item → Nat
  | [] => 0
  | it :: rest => Nat.max (itemDepth it) (itemsDepth rest)
end

/-- `n` nested blocks around `inner` -/
def tower : Nat → Item → Item
  | 0, inner => inner
  | n + 1, inner => .block [tower n inner]

/-! ## 2. `ValueRange` (value/range.rs) -/

def i64Min : Int := -9223372036854775808
def i64Max : Int := 9223372036854775807
def inI64 (x : Int) : Prop := i64Min ≤ x ∧ x ≤ i64Max
instance (x : Int) : Decidable (inI64 x) := by unfold inI64; exact inferInstance

/-- `i64 + i64` with overflow-checks on -/
def addI64 (a b : Int) : R Int :=
  if i64Min ≤ a + b ∧ a + b ≤ i64Max then .ok (a + b) else .error .overflow

/-- `f64 as i64` as used by `Number::into_integer` (saturating) -/
def satI64 (x : Int) : Int := if x < i64Min then i64Min else if i64Max < x then i64Max else x

structure Range where
  from_ : Int
  to : Int
  step : Int
  deriving DecidableEq, Repr

/-- `ValueRange::new(from, to, inclusive, _)` -/
def rangeNew (from_ to : Int) (inclusive : Bool) : R Range :=
  let step : Int := if to ≥ from_ then 1 else -1
  if inclusive then
    match addI64 to step with
    | .error e => .error e
    | .ok t => .ok ⟨from_, t, step⟩
  else .ok ⟨from_, to, step⟩

/-- the loop condition of `Iterator::next`: `from.partial_cmp(&to) == 0.partial_cmp(&step)` -/
def rangeGoes (r : Range) : Bool :=
  compare r.from_ r.to == compare 0 r.step

/-- `Iterator::next` for `ValueRange`: yields `from` and does `self.from += self.step` -/
def rangeNext (r : Range) : R (Option (Int × Range)) :=
  if rangeGoes r then
    match addI64 r.from_ r.step with
    | .error e => .error e
    | .ok f => .ok (some (r.from_, { r with from_ := f }))
  else .ok none

/-! ## 3. `Number`'s `Display` (value/number.rs): `16 - whole.log10().ceil() as usize` -/

def clog10Go : Nat → Nat → Nat → Nat → Nat
  | 0, _, k, _ => k
  | f + 1, w, k, p => if w ≤ p then k else clog10Go f w (k + 1) (p * 10)

/-- `whole.log10().ceil() as usize` for an integral `whole ≥ 0`: the least `k` with
`whole ≤ 10^k` (`log10(0) = -inf` casts to 0). Exact for every `whole < 10^400`. -/
def clog10 (w : Nat) : Nat := clog10Go 400 w 0 1

/-- `let max_decimals = 16 - whole.log10().ceil() as usize;` (usize subtraction) -/
def maxDecimals (whole : Nat) : R Nat := usub 16 (clog10 whole)

/-! ## 4. `Color::cmp` (value/colors/mod.rs): `a.partial_cmp(b).unwrap()` on `Hsla` -/

/-- an `f64` channel as far as ordering goes: `none` is NaN -/
abbrev Chan := Option Int

def pcmpChan : Chan → Chan → Option Ordering
  | some a, some b => some (compare a b)
  | _, _ => none

structure Hsla where
  hue : Chan
  sat : Chan
  lum : Chan
  alpha : Chan
  fmt : Bool
  deriving DecidableEq

/-- `Hsla::new`'s `alpha.max(0.).min(1.)`: NaN becomes 0 (channels are in thousandths) -/
def normAlpha : Chan → Chan
  | none => some 0
  | some a => some (if a < 0 then 0 else if a > 1000 then 1000 else a)

/-- `hsla_from_values` (sass/functions/color/hsl.rs): `f64::max(0., saturation)` — NaN becomes 0 -/
def normSat : Chan → Chan
  | none => some 0
  | some s => some (if s < 0 then 0 else s)

/-- what `hsl()/hsla()` build from evaluated channel arguments (hue and lightness are kept) -/
def hslaFromValues (h s l a : Chan) : Hsla := ⟨h, normSat s, l, normAlpha a, true⟩

/-- `#[derive(PartialOrd)]` on `Hsla`: lexicographic over the fields in declaration order -/
def hslaPartialCmp (a b : Hsla) : Option Ordering :=
  match pcmpChan a.hue b.hue with
  | some .eq => match pcmpChan a.sat b.sat with
    | some .eq => match pcmpChan a.lum b.lum with
      | some .eq => match pcmpChan a.alpha b.alpha with
        | some .eq => some (compare a.fmt b.fmt)
        | r => r
      | r => r
    | r => r
  | r => r

/-- `Color::cmp` on two `Color::Hsla`: `a.partial_cmp(b).unwrap()` -/
def colorCmp (a b : Hsla) : R Ordering :=
  match hslaPartialCmp a b with
  | some o => .ok o
  | none => .error .unwrapNone

def Hsla.noNaN (a : Hsla) : Prop := a.hue.isSome ∧ a.sat.isSome ∧ a.lum.isSome ∧ a.alpha.isSome
instance (a : Hsla) : Decidable a.noNaN := by unfold Hsla.noNaN; exact inferInstance

/-! ## 5. `Selector::resolve_ref` (css/selectors/selector.rs): `s.compound.append(&self.compound).unwrap()`

`CompoundSelector::append` prints the parent compound, then the child compound (without its
`&`), and re-parses the concatenation with `compound_selector` + `ParseError::check`
(all input must be consumed).  The text after `&` starts either with a simple-selector
introducer (`.` `#` `%` `:` `[`), or is empty, or starts with a *name suffix* that must glue on
to whatever the parent's text ends with. -/

inductive Suffix where
  | none    -- `&`, `&.b`, `&:hover`, `&[x]` …
  | ident   -- `&b`, `&-b`, `&_b`, `&1`, `&\62`
  | star    -- `&*`
  deriving DecidableEq, Repr

def isNameChar (c : Char) : Bool :=
  c.isAlphanum || c == '-' || c == '_' || c == '\\' || c.toNat ≥ 128

def suffixOf : List Char → Suffix
  | [] => .none
  | c :: _ => if c == '*' then .star else if isNameChar c then .ident else .none

/-- can a name suffix continue the parent's printed compound? only if that text ends in a
name character (`a`, `.a`, `#a`, `%a`, `a:hover`, `a::after`); not after `*`, `]`, `)` -/
def parentEndsInName (parent : List Char) : Bool :=
  match parent.getLast? with
  | some c => isNameChar c
  | none => false

def appendOk (parent child : List Char) : Bool :=
  match suffixOf child with
  | .none => true
  | .ident => parentEndsInName parent
  | .star => false

/-- the `.unwrap()` in `resolve_ref`, for one parent alternative -/
def resolveRefOne (parent child : List Char) : R Unit :=
  if appendOk parent child then .ok () else .error .unwrapErr

/-- `ctx.s.s.iter().flat_map(..)`: every alternative of the parent selector list -/
def resolveRef (parents : List (List Char)) (child : List Char) : R Unit :=
  match parents with
  | [] => .ok ()
  | p :: ps => match resolveRefOne p child with
    | .error e => .error e
    | .ok _ => resolveRef ps child

/-! ## 6. `Pseudo::replace` (css/selectors/pseudo.rs): `s.replace(original, replacement).unwrap()` -/

/-- a selector as far as `replace` goes: is it complex (`is_complex()`), and the selectors inside
its selector-pseudo arguments (`:is/:not/:where/:has/:host…`), flattened -/
inductive Sel where
  | node (complex : Bool) (pseudoArgs : List Sel)

/-- `SelectorSet::check_extend_complex` on `original` -/
def checkExtendComplex (original : List Bool) : Bool := !(original.any id)

mutual
/-- `Selector::replace` → `CompoundSelector::replace_in_pseudo` → `Pseudo::replace`, which calls
`SelectorSet::replace` on the argument **with the same `original`** and unwraps it -/
def selReplace (original : List Bool) : Sel → R Unit
  | .node _ args => argsReplace original args
def argsReplace (original : List Bool) : List Sel → R Unit
  | [] => .ok ()
  | s :: rest =>
    -- inner `SelectorSet::replace`: `original.check_extend_complex()?` first …
    if checkExtendComplex original then
      match selReplace original s with
      | .error e => .error e
      | .ok _ => argsReplace original rest
    else .error .unwrapErr                -- … and `Pseudo::replace` unwraps the `Err`
end

/-- `SelectorSet::replace` as called from `selector.replace` / `selector-replace`:
`Err(Invalid)` is an ordinary error (`some false`), success `some true`, panic `none`-free -/
def setReplace (original : List Bool) (s : List Sel) : R Bool :=
  if checkExtendComplex original then
    match argsReplace original s with
    | .error e => .error e
    | .ok _ => .ok true
  else .ok false

/-! ## 7. `Context::lock_loading` (input/context.rs): `pos.next().unwrap()` -/

inductive Kind where
  | root | imported
  deriving DecidableEq, Repr

/-- `lock_loading(file)`: `loading.insert(name, pos)`; if the name was already there the error
value is built with `pos.next().unwrap()`, and `SourceKind::Root.next()` is `None`.
`.ok true` = locked, `.ok false` = `Err(ImportLoop)`. -/
def lockLoading (loading : List (String × Kind)) (name : String) (kind : Kind) :
    R (Bool × List (String × Kind)) :=
  if loading.any (·.1 == name) then
    match kind with
    | .root => .error .unwrapNone
    | .imported => .ok (false, (name, kind) :: loading.filter (·.1 != name))
  else .ok (true, (name, kind) :: loading)

/-- one compilation: `transform` locks the root file into the fresh (empty) map, every later
lock comes from `find_file` with `from` = Import/Use/Forward (never Root) -/
def lockAll (loading : List (String × Kind)) : List String → R Unit
  | [] => .ok ()
  | n :: rest => match lockLoading loading n .imported with
    | .error e => .error e
    | .ok (_, l) => lockAll l rest

def compileLocks (rootName : String) (later : List String) : R Unit :=
  match lockLoading [] rootName .root with
  | .error e => .error e
  | .ok (_, l) => lockAll l later

/-! ## 8. global `calc()` (sass/functions/math/css.rs `do_eval`): `args.get_single().unwrap()` -/

/-- `CallArgs::get_single`: no named arguments and at most one positional one -/
def getSingleOk (named positional : Nat) : Bool := named == 0 && positional ≤ 1

/-- `Value::Call(name, args)` with `name == "calc"` inside a `calc()` argument -/
def calcInnerCall (named positional : Nat) : R Unit :=
  if getSingleOk named positional then .ok () else .error .unwrapErr

/-! ## Deviation flags (DESIGN 4.4)

One flag per known finding at one call site.  `spec` (all off) is what the property demands: the
site does not panic.  `asis` (a flag on) is the code as first examined: the site behaves as the
guard-logic model above says.  A flag is on in a run exactly when the finding's witness still
crashes the real code; after a repair lands the flag is off and the code must never panic there. -/

structure Quirks where
  indentSlice80 : Bool          -- get_indent slices the 81-byte constant (CssBuf::do_indent*)
  commentIndentSlice80 : Bool   -- … also for Comment::write's re-indentation widths
  rangeToPlusStep : Bool        -- ValueRange::new adds in i64
  colorCmpNan : Bool            -- Color::cmp unwraps partial_cmp
  resolveRefUnwrap : Bool       -- resolve_ref unwraps append()
  calcGetSingle : Bool          -- calc() unwraps get_single()
  deriving DecidableEq, Repr

def Quirks.spec : Quirks := ⟨false, false, false, false, false, false⟩
def Quirks.asis : Quirks := ⟨true, true, true, true, true, true⟩

/-- a site under its deviation flag: the modelled outcome while the deviation is present,
no panic once it is repaired -/
def flagged (on : Bool) (r : R Unit) : R Unit := if on then r else .ok ()

/-- `get_indent` at a `CssBuf::do_indent*` call / at a `Comment::write` re-indentation call -/
def getIndentQ (on : Bool) (compressed : Bool) (len : Nat) : R Nat :=
  if on then getIndent compressed len else .ok 0

def commentWriteQ (q : Quirks) (compressed : Bool) (indent existing : Nat) : R Unit :=
  match getIndentQ q.indentSlice80 compressed indent with
  | .error e => .error e
  | .ok _ =>
    if existing < indent then
      match usub indent existing with
      | .error e => .error e
      | .ok d => match getIndentQ q.commentIndentSlice80 compressed d with
        | .error e => .error e
        | .ok _ => .ok ()
    else if indent < existing then
      match usub existing indent with
      | .error e => .error e
      | .ok d => match usub d 1 with
        | .error e => .error e
        | .ok d1 => match getIndentQ q.commentIndentSlice80 compressed d1 with
          | .error e => .error e
          | .ok _ => .ok ()
    else .ok ()

mutual
def writeItemQ (q : Quirks) (compressed : Bool) (indent : Nat) : Item → R Unit
  | .leaf => match getIndentQ q.indentSlice80 compressed indent with
    | .error e => .error e
    | .ok _ => .ok ()
  | .comment ex => commentWriteQ q compressed indent ex
  | .silent => .ok ()
  | .inlineComment ex => match getIndentQ q.indentSlice80 compressed indent with
    | .error e => .error e
    | .ok _ => commentWriteQ q compressed indent ex
  | .block body => match getIndentQ q.indentSlice80 compressed indent with
    | .error e => .error e
    | .ok _ => match writeItemsQ q compressed (indent + 2) body with
      | .error e => .error e
      | .ok _ => match getIndentQ q.indentSlice80 compressed indent with
        | .error e => .error e
        | .ok _ => .ok ()
def writeItemsQ (q : Quirks) (compressed : Bool) (indent : Nat) : List Item → R Unit
  | [] => .ok ()
  | it :: rest => match writeItemQ q compressed indent it with
    | .error e => .error e
    | .ok _ => writeItemsQ q compressed indent rest
end

def writeCssQ (q : Quirks) (compressed : Bool) (items : List Item) : R Unit :=
  writeItemsQ q compressed 0 items

def rangeNewQ (q : Quirks) (from_ to : Int) (inclusive : Bool) : R Unit :=
  flagged q.rangeToPlusStep (match rangeNew from_ to inclusive with | .ok _ => .ok () | .error e => .error e)

def colorCmpQ (q : Quirks) (a b : Hsla) : R Unit :=
  flagged q.colorCmpNan (match colorCmp a b with | .ok _ => .ok () | .error e => .error e)

def resolveRefQ (q : Quirks) (parents : List (List Char)) (child : List Char) : R Unit :=
  flagged q.resolveRefUnwrap (resolveRef parents child)

def calcInnerCallQ (q : Quirks) (named positional : Nat) : R Unit :=
  flagged q.calcGetSingle (calcInnerCall named positional)

end Panics
