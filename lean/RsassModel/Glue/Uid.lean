/-
C06 — model of `unique-id()` (rsass/src/sass/functions/string.rs, `def!(f, unique_id(), ..)`)
and of `math.random` (rsass/src/sass/functions/math.rs, `def!(f, random(limit = b"null"), ..)`
with `check::positive_int`/`check::int` from sass/functions/mod.rs and
`Number::into_integer` from value/number.rs).

Import-free (core only): linked into the driver `drv_C06`.
-/
namespace Glue.Uid

/-! ## unique-id()

```rust
static CALL_ID: LazyLock<Mutex<u64>> = LazyLock::new(|| Mutex::new(u64::from(std::process::id()) * 0xa01));
let v = { let mut v = CALL_ID.lock().unwrap(); *v += 1; *v };
Ok(format!("x{v:x}").into())
```
-/

/-- 2^64: the counter is a `u64`. -/
def two64 : Nat := 18446744073709551616

/-- little-endian base-16 digits of `n`; `[0]` for 0 (Rust `{:x}` prints "0"). -/
def hexRev (n : Nat) : List Nat :=
  if _h : n < 16 then [n] else (n % 16) :: hexRev (n / 16)
termination_by n
decreasing_by omega

/-- lower-case hex digit (`{:x}`) -/
def hexChar (d : Nat) : Char :=
  if d < 10 then Char.ofNat (48 + d) else Char.ofNat (87 + d)

/-- `format!("{v:x}")` -/
def toHex (n : Nat) : List Char := (hexRev n).reverse.map hexChar

/-- `format!("x{v:x}")` -/
def idText (v : Nat) : List Char := 'x' :: toHex v

/-- `u64::from(std::process::id()) * 0xa01` (pid is a `u32`, so this cannot overflow) -/
def initCounter (pid : Nat) : Nat := pid * 0xa01

/-- The process-wide state behind `CALL_ID`: the counter value and whether the mutex is
poisoned (a panic while the guard is alive poisons it; `lock().unwrap()` then panics
for ever). -/
structure St where
  counter : Nat
  poisoned : Bool
deriving Repr, DecidableEq

inductive Outcome
  | id (text : List Char)
  | panic
deriving Repr, DecidableEq

/-- One call = one critical section.  `oc` = the build has overflow checks (debug/test
profile: `*v += 1` panics at u64::MAX with the guard alive; release: wraps to 0). -/
def step (oc : Bool) (s : St) : St × Outcome :=
  if s.poisoned then (s, .panic)
  else if s.counter + 1 < two64 then
    ({ s with counter := s.counter + 1 }, .id (idText (s.counter + 1)))
  else if oc then ({ s with poisoned := true }, .panic)
  else ({ s with counter := 0 }, .id (idText 0))

/-- `n` calls in the order in which they acquire the lock. -/
def run (oc : Bool) (s : St) : Nat → St × List Outcome
  | 0 => (s, [])
  | n + 1 =>
    let (s1, o) := step oc s
    let (s2, os) := run oc s1 n
    (s2, o :: os)

/-- A schedule is the sequence of thread numbers in the order in which the threads
acquire `CALL_ID`'s lock (Mutex atomicity: acquisitions are totally ordered).  Each
entry is one call made by that thread; the result pairs the thread with what it got. -/
def runSched (oc : Bool) (s : St) : List Nat → St × List (Nat × Outcome)
  | [] => (s, [])
  | t :: rest =>
    let (s1, o) := step oc s
    let (s2, os) := runSched oc s1 rest
    (s2, (t, o) :: os)

/-- the identifiers (non-panicking outcomes) of a result list -/
def Outcome.text? : Outcome → Option (List Char)
  | .id t => some t
  | .panic => none

def idsOf (l : List Outcome) : List (List Char) := l.filterMap Outcome.text?

/-- what thread `t` observed, in its own program order -/
def threadView (t : Nat) (l : List (Nat × Outcome)) : List Outcome :=
  (l.filter (fun p => p.1 == t)).map (·.2)

/-! ### CSS identifier grammar (CSS Syntax 3 ident-token, without escapes)
`(-- | -? nmstart) nmchar*`, nmstart = `[a-zA-Z_]` or non-ASCII, nmchar = nmstart | `[0-9-]`. -/

def isNmStart (c : Char) : Bool :=
  ('a' ≤ c && c ≤ 'z') || ('A' ≤ c && c ≤ 'Z') || c == '_' || c.toNat ≥ 128

def isNmChar (c : Char) : Bool :=
  isNmStart c || ('0' ≤ c && c ≤ '9') || c == '-'

def isCssIdent : List Char → Bool
  | '-' :: '-' :: r => r.all isNmChar
  | '-' :: c :: r => isNmStart c && r.all isNmChar
  | c :: r => isNmStart c && r.all isNmChar
  | [] => false

def isLowerHex (c : Char) : Bool := ('0' ≤ c && c ≤ '9') || ('a' ≤ c && c ≤ 'f')

/-- the exact shape of rsass's ids: `x[0-9a-f]+` -/
def isXHex : List Char → Bool
  | 'x' :: d :: r => isLowerHex d && r.all isLowerHex
  | _ => false

/-! ### parsing an observed id back (driver: start the model from the first observed id) -/

def hexVal? (c : Char) : Option Nat :=
  if '0' ≤ c ∧ c ≤ '9' then some (c.toNat - 48)
  else if 'a' ≤ c ∧ c ≤ 'f' then some (c.toNat - 87)
  else none

def parseHex? (l : List Char) : Option Nat :=
  if l.isEmpty then none
  else l.foldl (fun acc c => match acc, hexVal? c with
    | some a, some d => some (a * 16 + d)
    | _, _ => none) (some 0)

def parseId? : List Char → Option Nat
  | 'x' :: r => parseHex? r
  | _ => none

/-! ## math.random

```rust
match s.get_opt_map(name!(limit), check::positive_int)? {
    None => Ok(Value::scalar(fastrand::f64())),
    Some(bound) => Ok(Value::scalar(fastrand::i64(0..bound) + 1)),
}
```
`get_opt_map`: `Value::Null` ↦ `None`, otherwise the check (error names the argument).
-/

/-- The `$limit` argument as the function sees it.  A number is the exact rational
`n / d` (`d > 0`) of its f64 value; units are ignored by `check::int` (`.value`). -/
inductive Limit
  | null
  | notNumber
  | nan
  | inf (neg : Bool)
  | num (n : Int) (d : Nat)
deriving Repr, DecidableEq

/-- Deviation flags of this family. `intTolF32Eps`: `Number::into_integer` accepts
everything within `f32::EPSILON` (2^-23 ≈ 1.19e-7) of an integer; Sass's number
equality tolerance is 1e-11. -/
structure RandQuirks where
  intTolF32Eps : Bool
deriving Repr, DecidableEq

def randSpec : RandQuirks := { intTolF32Eps := false }
def randAsIs : RandQuirks := { intTolF32Eps := true }

def i64Max : Int := 9223372036854775807
def i64Min : Int := -9223372036854775808

/-- `f64::round` (half away from zero) of `n / d`, `d > 0` -/
def roundHalfAway (n : Int) (d : Nat) : Int :=
  if 0 ≤ n then (2 * n + d) / (2 * d) else -((2 * (-n) + d) / (2 * d))

/-- `x as i64` for an integral `x`: saturating -/
def satI64 (i : Int) : Int := if i > i64Max then i64Max else if i < i64Min then i64Min else i

/-- `int as f64` for the values that can occur here: every in-range result of
`round()` of an f64 is itself an f64 and converts back exactly, except the saturated
`i64::MAX = 2^63 - 1`, which rounds to `2^63`. -/
def backToF64 (i : Int) : Int := if i = i64Max then i64Max + 1 else i

inductive RErr
  | notNumber
  | notInt
  | notPositive
deriving Repr, DecidableEq

/-- `Number::into_integer`: `let int = value.round() as i64;
if ((int as f64) - value).abs() <= f32::EPSILON { Ok(int) } else { Err(self) }`.
With the flag off the tolerance is Sass's `< 1e-11`.
(Constants are written on the left of `*`: `Nat.mul` recurses on its right argument, and a
literal there makes the elaborator's `whnf` count it down.) -/
def intoInteger (q : RandQuirks) (n : Int) (d : Nat) : Option Int :=
  let i := satI64 (roundHalfAway n d)
  let diff := (backToF64 i * d - n).natAbs        -- |int - value| * d
  if q.intTolF32Eps then
    if 8388608 * diff ≤ d then some i else none     -- <= 2^-23
  else
    if 100000000000 * diff < d then some i else none -- < 1e-11

/-- `check::positive_int` after `check::int` -/
def positiveInt (q : RandQuirks) : Limit → Except RErr Int
  | .null => .error .notNumber          -- not reached: `get_opt_map` intercepts null
  | .notNumber => .error .notNumber
  | .nan => .error .notInt              -- NaN as i64 = 0; |0 - NaN| <= eps is false
  | .inf _ => .error .notInt            -- saturates; the difference is infinite
  | .num n d =>
    match intoInteger q n d with
    | none => .error .notInt
    | some v => if v > 0 then .ok v else .error .notPositive

inductive RandOut
  /-- `fastrand::f64()`: the fraction `a / b` -/
  | unit (a b : Nat)
  | int (v : Int)
deriving Repr, DecidableEq

/-- `random`. External behaviour as parameters (DESIGN 4.5): `u = (a, b)` is the draw of
`fastrand::f64()` (contract `a < b`), `rng bound` is the draw of `fastrand::i64(0..bound)`
(contract `0 ≤ rng bound < bound`). -/
def random (q : RandQuirks) (u : Nat × Nat) (rng : Int → Int) : Limit → Except RErr RandOut
  | .null => .ok (.unit u.1 u.2)
  | l =>
    match positiveInt q l with
    | .error e => .error e
    | .ok bound => .ok (.int (rng bound + 1))

/-! ## driver helpers -/

/-- FNV-1a/64 of the ids joined by ',' (same digest as the harness computes) -/
def fnvStep (h : UInt64) (b : UInt8) : UInt64 := (h ^^^ b.toUInt64) * 0x100000001b3

def fnvIds (ids : List (List Char)) : UInt64 :=
  let rec go (h : UInt64) (first : Bool) : List (List Char) → UInt64
    | [] => h
    | i :: r =>
      let h := if first then h else fnvStep h 44
      go (i.foldl (fun h c => fnvStep h (UInt8.ofNat c.toNat)) h) false r
  go 0xcbf29ce484222325 true ids

end Glue.Uid
