/-
Helper lemmas for C34 (`Glue/FnRegistry.lean`).
-/
import RsassModel.Glue.FnDocPairs
namespace Glue.FnReg

section
variable {V C E : Type}

theorem shared_ids (t : IdTable) (g m f : Name) (h : t.shared g m f = true) :
    ∃ i, t.globalId g = some i ∧ t.moduleId m f = some i := by
  unfold IdTable.shared at h
  split at h
  · rename_i i j hi hj
    have : i = j := by simpa using h
    subst this
    exact ⟨i, hi, hj⟩
  · simp at h

theorem resolve_shared (r : Registry V C E) (s : CallScope V C E) (g m f ns : Name)
    (hu : s.user.lookup g = none) (hns : s.uses.lookup ns = some m)
    (h : r.table.shared g m f = true) :
    resolve r s none g = resolve r s (some ns) f := by
  obtain ⟨i, hg, hm⟩ := shared_ids r.table g m f h
  simp [resolve, hu, hns, hg, hm]

theorem lookupRemove_head (p : Name) (v : V) (rest : List (Name × V)) :
    lookupRemove p ((p, v) :: rest) = some (v, rest) := by
  simp [lookupRemove]

/-- the core of positional = named: one recursion over the formals -/
theorem bindParams_mixed : ∀ (ps : List (Name × Option V)) (vs : List V) (j : Nat),
    vs.length ≤ ps.length → j ≤ vs.length →
    bindParams ps (vs.take j) (((ps.drop j).map (·.1)).zip (vs.drop j)) = bindParams ps vs []
  | [], vs, j, hl, _ => by
    have : vs = [] := List.eq_nil_of_length_eq_zero (by simpa using hl)
    subst this
    simp [bindParams]
  | (p, d) :: ps, [], j, _, hj => by
    have : j = 0 := by simpa using hj
    subst this
    simp [bindParams]
  | (p, d) :: ps, v :: vs, 0, hl, _ => by
    have ih := bindParams_mixed ps vs 0 (by simpa using hl) (Nat.zero_le _)
    simp only [List.take_zero, List.drop_zero] at ih
    simp only [List.take_zero, List.drop_zero, List.map_cons, List.zip_cons_cons]
    simp only [bindParams, lookupRemove_head, ih]
  | (p, d) :: ps, v :: vs, j + 1, hl, hj => by
    have ih := bindParams_mixed ps vs j (by simpa using hl) (by simpa using hj)
    simp only [List.take_succ_cons, List.drop_succ_cons]
    simp only [bindParams, ih]

theorem mixed_count (ps : List (Name × Option V)) (vs : List V) (j : Nat)
    (hl : vs.length ≤ ps.length) (hj : j ≤ vs.length) :
    (vs.take j).length + (((ps.drop j).map (·.1)).zip (vs.drop j)).length = vs.length := by
  simp only [List.length_take, List.length_zip, List.length_map, List.length_drop]
  omega

theorem bind_mixed (ps : List (Name × Option V)) (vs : List V) (j : Nat)
    (hl : vs.length ≤ ps.length) (hj : j ≤ vs.length) :
    bind ⟨ps, none⟩ ⟨vs.take j, ((ps.drop j).map (·.1)).zip (vs.drop j)⟩ = bind ⟨ps, none⟩ ⟨vs, []⟩ := by
  unfold bind
  simp only [mixed_count ps vs j hl hj, bindParams_mixed ps vs j hl hj, List.length_nil, Nat.add_zero]

theorem bind_mixed_va (ps : List (Name × Option V)) (va : Name) (vs : List V) (j : Nat)
    (hl : vs.length ≤ ps.length) (hj : j ≤ vs.length) :
    bind ⟨ps, some va⟩ ⟨vs.take j, ((ps.drop j).map (·.1)).zip (vs.drop j)⟩ = bind ⟨ps, some va⟩ ⟨vs, []⟩ := by
  unfold bind
  simp only [bindParams_mixed ps vs j hl hj, Option.isNone_some, Bool.false_and]

/-! ### named arguments in any order -/

/-- agreement of two `lookupRemove` results up to permutation of the rest -/
def LR (a b : Option (V × List (Name × V))) : Prop :=
  match a, b with
  | none, none => True
  | some (v1, r1), some (v2, r2) => v1 = v2 ∧ r1.Perm r2
  | _, _ => False

theorem LR_refl (a : Option (V × List (Name × V))) : LR a a := by
  cases a with
  | none => trivial
  | some x => exact ⟨rfl, List.Perm.refl _⟩

theorem LR_trans {a b c : Option (V × List (Name × V))} (h1 : LR a b) (h2 : LR b c) : LR a c := by
  cases a with
  | none =>
    cases b with
    | none => exact h2
    | some y => exact h1.elim
  | some x =>
    obtain ⟨v1, r1⟩ := x
    cases b with
    | none => exact h1.elim
    | some y =>
      obtain ⟨v2, r2⟩ := y
      cases c with
      | none => exact h2.elim
      | some z =>
        obtain ⟨v3, r3⟩ := z
        exact ⟨h1.1.trans h2.1, h1.2.trans h2.2⟩

theorem lookupRemove_none_iff (p : Name) : ∀ (l : List (Name × V)),
    lookupRemove p l = none ↔ p ∉ l.map (·.1)
  | [] => by simp [lookupRemove]
  | (k, v) :: r => by
    simp only [lookupRemove, List.map_cons, List.mem_cons, not_or]
    by_cases hk : k = p
    · simp [hk]
    · have ih := lookupRemove_none_iff p r
      simp only [hk, if_false]
      cases h : lookupRemove p r with
      | none => simp [Ne.symm hk, ih.mp h]
      | some x =>
        simp only [reduceCtorEq, false_iff, not_and, Decidable.not_not]
        intro _
        have : ¬ (lookupRemove p r = none) := by rw [h]; simp
        exact Decidable.not_not.mp (fun hn => this (ih.mpr hn))

theorem lookupRemove_perm (p : Name) {l1 l2 : List (Name × V)} (h : l1.Perm l2)
    (hn : (l1.map (·.1)).Nodup) : LR (lookupRemove p l1) (lookupRemove p l2) := by
  induction h with
  | nil => exact LR_refl _
  | cons x hperm ih =>
    obtain ⟨k, v⟩ := x
    rw [List.map_cons, List.nodup_cons] at hn
    simp only [lookupRemove]
    by_cases hk : k = p
    · simp only [hk, if_true]; exact ⟨rfl, hperm⟩
    · simp only [hk, if_false]
      have hih := ih hn.2
      revert hih
      generalize lookupRemove p _ = a
      generalize lookupRemove p _ = b
      intro hih
      cases a with
      | none =>
        cases b with
        | none => trivial
        | some y => exact hih.elim
      | some x =>
        obtain ⟨v1, r1⟩ := x
        cases b with
        | none => exact hih.elim
        | some y =>
          obtain ⟨v2, r2⟩ := y
          exact ⟨hih.1, List.Perm.cons _ hih.2⟩
  | swap x y l =>
    obtain ⟨k1, v1⟩ := x
    obtain ⟨k2, v2⟩ := y
    rw [List.map_cons, List.map_cons, List.nodup_cons] at hn
    have hne : k2 ≠ k1 := fun h => hn.1 (by simp [h])
    simp only [lookupRemove]
    by_cases h1 : k1 = p <;> by_cases h2 : k2 = p
    · exact absurd (h2.trans h1.symm) hne
    · simp only [h1, h2, if_true, if_false]; exact ⟨rfl, List.Perm.refl _⟩
    · simp only [h1, h2, if_true, if_false]; exact ⟨rfl, List.Perm.refl _⟩
    · simp only [h1, h2, if_false]
      cases lookupRemove p l with
      | none => trivial
      | some r => exact ⟨rfl, List.Perm.swap _ _ _⟩
  | trans h1 h2 ih1 ih2 =>
    have hn2 := (List.Perm.nodup_iff (h1.map (·.1))).mp hn
    exact LR_trans (ih1 hn) (ih2 hn2)

theorem lookupRemove_sublist (p : Name) : ∀ (l : List (Name × V)) (v : V) (r : List (Name × V)),
    lookupRemove p l = some (v, r) → r.Sublist l
  | [], _, _, h => by simp [lookupRemove] at h
  | (k, w) :: l, v, r, h => by
    simp only [lookupRemove] at h
    by_cases hk : k = p
    · simp only [hk, if_true, Option.some.injEq, Prod.mk.injEq] at h
      rw [← h.2]; exact List.sublist_cons_self _ _
    · simp only [hk, if_false] at h
      cases hl : lookupRemove p l with
      | none => rw [hl] at h; cases h
      | some x =>
        obtain ⟨x1, r'⟩ := x
        rw [hl] at h
        simp only [Option.some.injEq, Prod.mk.injEq] at h
        rw [← h.2]
        exact (lookupRemove_sublist p l x1 r' hl).cons_cons _

theorem lookupRemove_nodup (p : Name) (l : List (Name × V)) (v : V) (r : List (Name × V))
    (h : lookupRemove p l = some (v, r)) (hn : (l.map (·.1)).Nodup) : (r.map (·.1)).Nodup :=
  List.Nodup.sublist ((lookupRemove_sublist p l v r h).map _) hn

/-- agreement of two `bindParams` results up to permutation of the left-over named values -/
def BR (a b : Except ArgsErr (List (Name × Bound V) × List V × List (Name × V))) : Prop :=
  match a, b with
  | .ok (b1, p1, n1), .ok (b2, p2, n2) => b1 = b2 ∧ p1 = p2 ∧ n1.Perm n2
  | .error e1, .error e2 => e1 = e2
  | _, _ => False

theorem bindParams_perm : ∀ (ps : List (Name × Option V)) (pos : List V) (n1 n2 : List (Name × V)),
    n1.Perm n2 → (n1.map (·.1)).Nodup → BR (bindParams ps pos n1) (bindParams ps pos n2)
  | [], pos, n1, n2, h, _ => by simp only [bindParams]; exact ⟨rfl, rfl, h⟩
  | (p, d) :: ps, v :: pos, n1, n2, h, hn => by
    have ih := bindParams_perm ps pos n1 n2 h hn
    simp only [bindParams]
    · skip
      revert ih
      generalize bindParams ps _ _ = a
      generalize bindParams ps _ _ = b
      intro ih
      cases a with
      | error e1 =>
        cases b with
        | error e2 => exact ih
        | ok y => exact ih.elim
      | ok x1 =>
        obtain ⟨b1, p1, m1⟩ := x1
        cases b with
        | error e2 => exact ih.elim
        | ok y =>
          obtain ⟨b2, p2, m2⟩ := y
          exact ⟨by rw [ih.1], ih.2.1, ih.2.2⟩
  | (p, d) :: ps, [], n1, n2, h, hn => by
    have hlr := lookupRemove_perm p h hn
    cases h1 : lookupRemove p n1 with
    | none =>
      cases h2 : lookupRemove p n2 with
      | some y => rw [h1, h2] at hlr; exact hlr.elim
      | none =>
        cases d with
        | none => simp only [bindParams, h1, h2]; rfl
        | some dv =>
          have ih := bindParams_perm ps [] n1 n2 h hn
          simp only [bindParams, h1, h2]
          revert ih
          generalize bindParams ps _ _ = a
          generalize bindParams ps _ _ = b
          intro ih
          cases a with
          | error e1 =>
            cases b with
            | error e2 => exact ih
            | ok y => exact ih.elim
          | ok x1 =>
            obtain ⟨b1, p1, m1⟩ := x1
            cases b with
            | error e2 => exact ih.elim
            | ok y =>
              obtain ⟨b2, p2, m2⟩ := y
              exact ⟨by rw [ih.1], ih.2.1, ih.2.2⟩
    | some x =>
      obtain ⟨v1, r1⟩ := x
      cases h2 : lookupRemove p n2 with
      | none => rw [h1, h2] at hlr; exact hlr.elim
      | some y =>
        obtain ⟨v2, r2⟩ := y
        rw [h1, h2] at hlr
        obtain ⟨hv, hr⟩ := hlr
        subst hv
        have ih := bindParams_perm ps [] r1 r2 hr (lookupRemove_nodup p n1 v1 r1 h1 hn)
        simp only [bindParams, h1, h2]
        revert ih
        generalize bindParams ps _ _ = a
        generalize bindParams ps _ _ = b
        intro ih
        cases a with
        | error e1 =>
          cases b with
          | error e2 => exact ih
          | ok y => exact ih.elim
        | ok x1 =>
          obtain ⟨b1, p1, m1⟩ := x1
          cases b with
          | error e2 => exact ih.elim
          | ok y =>
            obtain ⟨b2, p2, m2⟩ := y
            exact ⟨by rw [ih.1], ih.2.1, ih.2.2⟩

/-- `bind` without rest parameter: the order in which named arguments are written does not
matter — same bindings on success, failure on both sides otherwise (the `unexpected`
error names the first left-over key, which does depend on the order). -/
theorem bind_named_perm (ps : List (Name × Option V)) (pos : List V) (n1 n2 : List (Name × V))
    (h : n1.Perm n2) (hn : (n1.map (·.1)).Nodup) :
    (bind ⟨ps, none⟩ ⟨pos, n1⟩).toOption = (bind ⟨ps, none⟩ ⟨pos, n2⟩).toOption := by
  have hb := bindParams_perm ps pos n1 n2 h hn
  unfold bind
  simp only [h.length_eq]
  split
  · rfl
  · revert hb
    generalize bindParams ps pos n1 = a
    generalize bindParams ps pos n2 = b
    intro hb
    cases a with
    | error e1 =>
      cases b with
      | error e2 => rfl
      | ok y => exact hb.elim
    | ok x =>
      obtain ⟨b1, p1, r1⟩ := x
      cases b with
      | error e2 => exact hb.elim
      | ok y =>
        obtain ⟨b2, p2, r2⟩ := y
        obtain ⟨hb1, _, hr⟩ := hb
        subst hb1
        cases r1 with
        | nil => rw [List.Perm.nil_eq hr]
        | cons k1 t1 =>
          cases r2 with
          | nil => exact absurd hr.symm.nil_eq (by simp)
          | cons k2 t2 => rfl

end
end Glue.FnReg
