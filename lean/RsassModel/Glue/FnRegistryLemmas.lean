/-
Helper lemmas for C34 (`Glue/FnRegistry.lean`).
-/
import RsassModel.Glue.FnDocPairs
namespace Glue.FnReg

section
variable {V C E : Type}

theorem shared_ids (t : IdTable) (g m f : Name) (h : t.shared g m f = true) :
    ∃ i, t.globalId g = some i ∧ t.moduleId m f = some i := by
  unfold IdTable.shared at h
  split at h
  · rename_i i j hi hj
    have : i = j := by simpa using h
    subst this
    exact ⟨i, hi, hj⟩
  · simp at h

theorem resolve_shared (r : Registry V C E) (s : CallScope V C E) (g m f ns : Name)
    (hu : s.user.lookup g = none) (hns : s.uses.lookup ns = some m)
    (h : r.table.shared g m f = true) :
    resolve r s none g = resolve r s (some ns) f := by
  obtain ⟨i, hg, hm⟩ := shared_ids r.table g m f h
  simp [resolve, hu, hns, hg, hm]

theorem lookupRemove_head (p : Name) (v : V) (rest : List (Name × V)) :
    lookupRemove p ((p, v) :: rest) = some (v, rest) := by
  simp [lookupRemove]

/-- the core of positional = named: one recursion over the formals -/
theorem bindParams_mixed : ∀ (ps : List (Name × Option V)) (vs : List V) (j : Nat),
    vs.length ≤ ps.length → j ≤ vs.length →
    bindParams ps (vs.take j) (((ps.drop j).map (·.1)).zip (vs.drop j)) = bindParams ps vs []
  | [], vs, j, hl, _ => by
    have : vs = [] := List.eq_nil_of_length_eq_zero (by simpa using hl)
    subst this
    simp [bindParams]
  | (p, d) :: ps, [], j, _, hj => by
    have : j = 0 := by simpa using hj
    subst this
    simp [bindParams]
  | (p, d) :: ps, v :: vs, 0, hl, _ => by
    have ih := bindParams_mixed ps vs 0 (by simpa using hl) (Nat.zero_le _)
    simp only [List.take_zero, List.drop_zero] at ih
    simp only [List.take_zero, List.drop_zero, List.map_cons, List.zip_cons_cons]
    simp only [bindParams, lookupRemove_head, ih]
  | (p, d) :: ps, v :: vs, j + 1, hl, hj => by
    have ih := bindParams_mixed ps vs j (by simpa using hl) (by simpa using hj)
    simp only [List.take_succ_cons, List.drop_succ_cons]
    simp only [bindParams, ih]

theorem mixed_count (ps : List (Name × Option V)) (vs : List V) (j : Nat)
    (hl : vs.length ≤ ps.length) (hj : j ≤ vs.length) :
    (vs.take j).length + (((ps.drop j).map (·.1)).zip (vs.drop j)).length = vs.length := by
  simp only [List.length_take, List.length_zip, List.length_map, List.length_drop]
  omega

theorem bind_mixed (ps : List (Name × Option V)) (vs : List V) (j : Nat)
    (hl : vs.length ≤ ps.length) (hj : j ≤ vs.length) :
    bind ⟨ps, none⟩ ⟨vs.take j, ((ps.drop j).map (·.1)).zip (vs.drop j)⟩ = bind ⟨ps, none⟩ ⟨vs, []⟩ := by
  unfold bind
  simp only [mixed_count ps vs j hl hj, bindParams_mixed ps vs j hl hj, List.length_nil, Nat.add_zero]

theorem bind_mixed_va (ps : List (Name × Option V)) (va : Name) (vs : List V) (j : Nat)
    (hl : vs.length ≤ ps.length) (hj : j ≤ vs.length) :
    bind ⟨ps, some va⟩ ⟨vs.take j, ((ps.drop j).map (·.1)).zip (vs.drop j)⟩ = bind ⟨ps, some va⟩ ⟨vs, []⟩ := by
  unfold bind
  simp only [bindParams_mixed ps vs j hl hj, Option.isNone_some, Bool.false_and]

end
end Glue.FnReg
