/-
C05 — the process-wide state of rsass as a record, and the operations of a compilation
that come near it.

Every `static` of rsass/src (inventory checked against the source on every run by
`props/C05.py static_checks`, T3):
* `sass/functions/mod.rs`  `MODULES : LazyLock<BTreeMap<&str, Scope>>`   → `Process.modules`
* `sass/functions/mod.rs`  `FUNCTIONS : LazyLock<FunctionMap>`           → `Process.functions`
* `sass/functions/string.rs` `CALL_ID : LazyLock<Mutex<u64>>`            → `Process.callId` (C06)
* `sass/functions/macros.rs` `WARN : Once` (one per `dep_warn!` site)    → `Process.warned` (stderr only)
* `value/colors/rgba.rs` `LOOKUP`, `variablescope.rs` `ROOT`, `output/format.rs` `INDENT`,
  `sass/functions/meta.rs` `IMPLEMENTED_FEATURES`: immutable after initialisation by their
  type (no interior mutability) — constants of the model, no field.
The built-in module scopes are `&'static Scope`s whose maps sit behind `Mutex`es, i.e. they
ARE mutable in principle; what keeps them constant is the code paths modelled here:
* `variablescope.rs` `Scope::set_variable`, module-path branch (`ns.$x: v`): `assign`
  (the non-module branch delegates to `Scope::assign` — which walks up the parent chain of
  the USER scope; built-in module scopes are nobody's parent — or to `define_global`;
  new variables go through `Scope::declare`, `!default` through `config_used`, both
  walking USER parents only)
* `Scope::configure` / the `config: Mutex<BTreeSet<Name>>` field (since /repo 17cd11e):
  written only on the fresh dynamic module of a user file — `ConfigBuiltin` is returned
  for `sass:` urls before it could be reached
* `output/transform.rs` `Item::Use` / `Item::Forward` with a `with (...)` clause: `use`, `forward`
* `sass/mixin.rs` `MixinDecl::LoadCss`: `loadCss`
* `@use "sass:m" as *` (`Scope::expose_star` copies INTO the user's scope): `useStar`
* user `@function`/variable definitions with the name of a built-in: `defineFn`, `assign none`

Import-free (core only).
-/
namespace Glue.Globals

abbrev Name := List Char

inductive Val
  | null
  | num (n : Int)
  | str (s : List Char)
deriving Repr, DecidableEq

/-- the maps of one `Scope` -/
structure ScopeData where
  /-- the `@scope_name@` variable: present exactly in built-in modules (`Scope::builtin_module`) -/
  builtinName : Option Name
  vars : List (Name × Val)
  fns : List (Name × Nat)
deriving Repr, DecidableEq

/-- Process-wide state (lives as long as the process). -/
structure Process where
  modules : List (Name × ScopeData)
  functions : List (Name × Nat)
  callId : Nat
  warned : List Nat
deriving Repr, DecidableEq

/-- what a namespace is bound to in the compiling scope -/
inductive ModRef
  | builtin (url : Name)
  | user (i : Nat)
deriving Repr, DecidableEq

/-- State of ONE compilation (dropped when it ends). -/
structure Comp where
  userModules : List ScopeData
  uses : List (Name × ModRef)
  vars : List (Name × Val)
  fns : List (Name × Nat)
  out : List Val
deriving Repr, DecidableEq

def Comp.empty : Comp := ⟨[], [], [], [], []⟩

inductive Err
  | noModule | undefinedVariable | modifiedBuiltin | configBuiltin | cantFind | undefinedFunction
  | unusedConfig
deriving Repr, DecidableEq

/-- the statements of a stylesheet that touch module/global state or observe it -/
inductive Op
  /-- `$x: v` / `ns.$x: v` with `!default` / `!global` flags -/
  | assign (ns : Option Name) (x : Name) (v : Val) (dflt glob : Bool)
  /-- `@use "url" as ns with (cfg)`; `userVars` = what a user module at that url defines -/
  | use (url : Name) (ns : Name) (cfg : List (Name × Val)) (userVars : Option (List (Name × Val)))
  /-- `@use "sass:m" as *` -/
  | useStar (url : Name)
  | forward (url : Name) (cfg : List (Name × Val)) (userVars : Option (List (Name × Val)))
  /-- `@include meta.load-css(url, $with: cfg)` -/
  | loadCss (url : Name) (cfg : List (Name × Val)) (exists_ : Bool)
  /-- `@function f` defined by the user (id of its closure) -/
  | defineFn (f : Name) (id : Nat)
  /-- emit the value of `$x` / `ns.$x` -/
  | emitVar (ns : Option Name) (x : Name)
  /-- emit which function object `f` / `ns.f` resolves to -/
  | emitFn (ns : Option Name) (f : Name)
  /-- `unique-id()` (C06) — excluded from C05's statement -/
  | uniqueId
  /-- a deprecated construct: `dep_warn!` at site `k` (stderr, once per process) -/
  | depWarn (k : Nat)
deriving Repr, DecidableEq

def setAssoc (k : Name) (v : Val) : List (Name × Val) → List (Name × Val)
  | [] => [(k, v)]
  | (k', v') :: r => if k' = k then (k, v) :: r else (k', v') :: setAssoc k v r

def setNth {α} : List α → Nat → α → List α
  | [], _, _ => []
  | _ :: r, 0, x => x :: r
  | a :: r, n + 1, x => a :: setNth r n x

/-- non-module branch of `set_variable` on a scope's variable map (`!global` and plain
assignment coincide at the root of a module, which is where these ops run) -/
def setLocal (vars : List (Name × Val)) (x : Name) (v : Val) (dflt : Bool) : List (Name × Val) :=
  if dflt then
    match vars.lookup x with
    | some .null | none => setAssoc x v vars
    | some _ => vars
  else setAssoc x v vars

/-- One statement other than `unique-id()` / `dep_warn!`: what it does to the compilation.
The only parts of the process state such a statement reads are `MODULES` (`ms`) and
`FUNCTIONS` (`fs`); it writes none. -/
def stepPure (ms : List (Name × ScopeData)) (fs : List (Name × Nat)) (c : Comp) : Op → Except Err Comp
  | .assign none x v dflt _ => .ok ({ c with vars := setLocal c.vars x v dflt })
  | .assign (some ns) x v dflt _ =>
    -- `self.get_module(&modulename).ok_or(NoModule)?`
    match c.uses.lookup ns with
    | none => .error .noModule
    | some (.builtin url) =>
      match ms.lookup url with
      | none => .error .noModule
      | some m =>
        -- `let _check_existence = module.get(&name)?;`
        match m.vars.lookup x with
        | none => .error .undefinedVariable
        -- `@scope_name@` is defined: `Err(ScopeError::ModifiedBuiltin)`
        | some _ => .error .modifiedBuiltin
    | some (.user i) =>
      match c.userModules[i]? with
      | none => .error .noModule
      | some m =>
        match m.vars.lookup x with
        | none => .error .undefinedVariable
        | some _ =>
          match m.builtinName with
          | some _ => .error .modifiedBuiltin
          | none =>
            let m' := { m with vars := setLocal m.vars x v dflt }
            .ok ({ c with userModules := setNth c.userModules i m' })
  | .use url ns cfg userVars =>
    if (ms.lookup url).isSome then
      -- `if !with.is_empty() { return Err(Invalid::ConfigBuiltin) }`
      if cfg.isEmpty then .ok ({ c with uses := (ns, .builtin url) :: c.uses })
      else .error .configBuiltin
    else
      match userVars with
      | none => .error .cantFind
      | some vs =>
        -- a fresh dynamic module scope: configured values first, then the module's own
        -- `!default` declarations
        -- (since /repo 17cd11e: `configure` records the names in the module's `config` set,
        -- each `!default` declaration removes its name (`config_used`), a name left over is
        -- an error (`check_config`) — all of it on the fresh dynamic module scope)
        if cfg.all (fun kv => (vs.lookup kv.1).isSome) then
          let m : ScopeData := ⟨none, vs.foldl (fun acc (k, v) => setLocal acc k v true) cfg, []⟩
          .ok ({ c with userModules := c.userModules ++ [m],
                           uses := (ns, .user c.userModules.length) :: c.uses })
        else .error .unusedConfig
  | .useStar url =>
    match ms.lookup url with
    | none => .error .cantFind
    | some m =>
      -- `expose_star`: copies functions and variables INTO the user's scope
      .ok ({ c with fns := m.fns ++ c.fns,
                       vars := (m.vars.filter fun kv => kv.1 ≠ "@scope_name@".toList) ++ c.vars })
  | .forward url cfg userVars =>
    if (ms.lookup url).isSome then
      if cfg.isEmpty then .ok (c) else .error .configBuiltin
    else
      match userVars with
      | none => .error .cantFind
      | some _ => .ok (c)
  | .loadCss url cfg exists_ =>
    -- `if url.value().starts_with("sass:")`: empty config → empty mixin, else error
    if (ms.lookup url).isSome then
      if cfg.isEmpty then .ok (c) else .error .configBuiltin
    else if exists_ then .ok (c) else .error .cantFind
  | .defineFn f id => .ok ({ c with fns := (f, id) :: c.fns })
  | .emitVar none x =>
    match c.vars.lookup x with
    | some v => .ok ({ c with out := c.out ++ [v] })
    | none => .error .undefinedVariable
  | .emitVar (some ns) x =>
    match c.uses.lookup ns with
    | none => .error .noModule
    | some (.builtin url) =>
      match ms.lookup url with
      | none => .error .noModule
      | some m =>
        match m.vars.lookup x with
        | some v => .ok ({ c with out := c.out ++ [v] })
        | none => .error .undefinedVariable
    | some (.user i) =>
      match c.userModules[i]? with
      | none => .error .noModule
      | some m =>
        match m.vars.lookup x with
        | some v => .ok ({ c with out := c.out ++ [v] })
        | none => .error .undefinedVariable
  | .emitFn none f =>
    -- scope functions first, then `Function::get_builtin`
    match c.fns.lookup f with
    | some id => .ok ({ c with out := c.out ++ [.num id] })
    | none =>
      match fs.lookup f with
      | some id => .ok ({ c with out := c.out ++ [.num id] })
      | none => .ok ({ c with out := c.out ++ [.null] })     -- plain CSS function
  | .emitFn (some ns) f =>
    match c.uses.lookup ns with
    | none => .error .noModule
    | some (.builtin url) =>
      match ms.lookup url with
      | none => .error .noModule
      | some m =>
        match m.fns.lookup f with
        | some id => .ok ({ c with out := c.out ++ [.num id] })
        | none => .error .undefinedFunction
    | some (.user _) => .error .undefinedFunction
  | .uniqueId => .ok c
  | .depWarn _ => .ok c

/-- One statement on the whole state.  Writes of the process state: `callId` (by
`unique-id()`), `warned` (by `dep_warn!`: `WARN.call_once(|| eprintln!(..))`, stderr
only) — nothing else. -/
def step (p : Process) (c : Comp) : Op → Except Err (Process × Comp)
  | .uniqueId =>
    .ok ({ p with callId := p.callId + 1 }, { c with out := c.out ++ [.num (p.callId + 1)] })
  | .depWarn k =>
    .ok ({ p with warned := if p.warned.contains k then p.warned else k :: p.warned }, c)
  | op =>
    match stepPure p.modules p.functions c op with
    | .ok c' => .ok (p, c')
    | .error e => .error e

/-- the result of a compilation as the caller sees it: CSS (here: the emitted values) or
an error -/
abbrev Result := Except Err (List Val)

/-- run the statements of one stylesheet from a fresh `Comp`; stops at the first error
(the process state keeps whatever was done before it) -/
def runOps (p : Process) (c : Comp) : List Op → Process × Except Err Comp
  | [] => (p, .ok c)
  | op :: rest =>
    match step p c op with
    | .error e => (p, .error e)
    | .ok (p', c') => runOps p' c' rest

def compile (p : Process) (ops : List Op) : Process × Result :=
  match runOps p Comp.empty ops with
  | (p', .ok c) => (p', .ok c.out)
  | (p', .error e) => (p', .error e)

/-- a history: compilations one after the other in the same process -/
def runHistory (p : Process) : List (List Op) → Process × List Result
  | [] => (p, [])
  | ops :: rest =>
    let (p1, r) := compile p ops
    let (p2, rs) := runHistory p1 rest
    (p2, r :: rs)

/-- Concurrent compilations: a schedule names, step by step, which compilation executes
its next statement (statement-level interleaving; `Mutex`es make the single map
operations atomic).  Each thread: remaining ops, its `Comp` or the error it ended with. -/
structure Thread where
  todo : List Op
  state : Except Err Comp

def stepThread (p : Process) (t : Thread) : Process × Thread :=
  match t.state, t.todo with
  | .ok c, op :: rest =>
    match step p c op with
    | .ok (p', c') => (p', ⟨rest, .ok c'⟩)
    | .error e => (p, ⟨[], .error e⟩)
  | _, _ => (p, t)

def runSched (p : Process) (ts : List Thread) : List Nat → Process × List Thread
  | [] => (p, ts)
  | i :: rest =>
    match ts[i]? with
    | none => runSched p ts rest
    | some t =>
      let (p', t') := stepThread p t
      runSched p' (setNth ts i t') rest

def Op.usesUid : Op → Bool
  | .uniqueId => true
  | _ => false

end Glue.Globals
