/-
Helper lemmas for C05 (`Glue/Globals.lean`).
-/
import RsassModel.Glue.Globals
namespace Glue.Globals

/-- the part of the process state a compilation can READ (besides `callId` in `uniqueId`) -/
def SameBuiltins (p q : Process) : Prop := p.modules = q.modules ∧ p.functions = q.functions

theorem SameBuiltins.refl (p : Process) : SameBuiltins p p := ⟨rfl, rfl⟩
theorem SameBuiltins.symm {p q : Process} (h : SameBuiltins p q) : SameBuiltins q p := ⟨h.1.symm, h.2.symm⟩
theorem SameBuiltins.trans {p q r : Process} (h1 : SameBuiltins p q) (h2 : SameBuiltins q r) :
    SameBuiltins p r := ⟨h1.1.trans h2.1, h1.2.trans h2.2⟩

/-- No statement writes `modules` or `functions`. -/
theorem step_builtins (p : Process) (c : Comp) (op : Op) (p' : Process) (c' : Comp)
    (h : step p c op = .ok (p', c')) : SameBuiltins p' p := by
  cases op <;> simp only [step] at h
  all_goals first
    | (split at h
       · simp only [Except.ok.injEq, Prod.mk.injEq] at h; obtain ⟨rfl, _⟩ := h; exact ⟨rfl, rfl⟩
       · simp at h)
    | (simp only [Except.ok.injEq, Prod.mk.injEq] at h; obtain ⟨rfl, _⟩ := h; exact ⟨rfl, rfl⟩)

/-- the compilation-local outcome of a statement -/
def localOutcome (r : Except Err (Process × Comp)) : Except Err Comp :=
  match r with
  | .ok (_, c) => .ok c
  | .error e => .error e

/-- What a statement does to the compilation (its `Comp`, or its error) depends on the
process state only through `modules` and `functions` — unless it is `unique-id()`. -/
theorem step_local (p q : Process) (c : Comp) (op : Op) (h : SameBuiltins p q)
    (hu : op.usesUid = false) :
    localOutcome (step p c op) = localOutcome (step q c op) := by
  obtain ⟨h1, h2⟩ := h
  cases op <;> simp only [step, Op.usesUid, h1, h2] at hu ⊢
  all_goals first
    | (exact absurd hu (by decide))
    | rfl
    | (split <;> rfl)

theorem localOutcome_ok {r : Except Err (Process × Comp)} {c : Comp}
    (h : localOutcome r = .ok c) : ∃ p, r = .ok (p, c) := by
  unfold localOutcome at h
  split at h
  · rename_i p c' ; cases h; exact ⟨p, rfl⟩
  · cases h

theorem localOutcome_error {r : Except Err (Process × Comp)} {e : Err}
    (h : localOutcome r = .error e) : r = .error e := by
  unfold localOutcome at h
  split at h
  · cases h
  · cases h; rfl

theorem runOps_builtins (ops : List Op) : ∀ (p : Process) (c : Comp), SameBuiltins (runOps p c ops).1 p := by
  induction ops with
  | nil => intro p c; exact SameBuiltins.refl p
  | cons op rest ih =>
    intro p c
    simp only [runOps]
    split
    · exact SameBuiltins.refl p
    · rename_i p' c' h
      exact (ih p' c').trans (step_builtins p c op p' c' h)

theorem runOps_local (ops : List Op) : ∀ (p q : Process) (c : Comp), SameBuiltins p q →
    (∀ op ∈ ops, op.usesUid = false) → (runOps p c ops).2 = (runOps q c ops).2 := by
  induction ops with
  | nil => intro p q c _ _; rfl
  | cons op rest ih =>
    intro p q c h hu
    have hl := step_local p q c op h (hu op (by simp))
    simp only [runOps]
    cases hp : step p c op with
    | error e =>
      rw [hp] at hl
      have := localOutcome_error (r := step q c op) (e := e) (by rw [← hl]; rfl)
      rw [this]
    | ok pc =>
      obtain ⟨p', c'⟩ := pc
      rw [hp] at hl
      obtain ⟨q', hq⟩ := localOutcome_ok (r := step q c op) (c := c') (by rw [← hl]; rfl)
      rw [hq]
      simp only []
      have h' : SameBuiltins p' q' :=
        ((step_builtins p c op p' c' hp).trans h).trans (step_builtins q c op q' c' hq).symm
      exact ih p' q' c' h' (fun o ho => hu o (by simp [ho]))

end Glue.Globals

/-! ### concurrent compilations: every interleaving -/
namespace Glue.Globals

theorem setNth_getElem?_eq {α} : ∀ (l : List α) (i : Nat) (x y : α), l[i]? = some y → (setNth l i x)[i]? = some x
  | [], _, _, _, h => by simp at h
  | _ :: _, 0, _, _, _ => by simp [setNth]
  | _ :: r, i + 1, x, y, h => by
    simp only [setNth, List.getElem?_cons_succ] at h ⊢
    exact setNth_getElem?_eq r i x y h

theorem setNth_getElem?_ne {α} : ∀ (l : List α) (i j : Nat) (x : α), i ≠ j → (setNth l i x)[j]? = l[j]?
  | [], _, _, _, _ => by simp [setNth]
  | _ :: _, 0, 0, _, h => absurd rfl h
  | _ :: _, 0, j + 1, _, _ => by simp [setNth]
  | _ :: _, i + 1, 0, _, _ => by simp [setNth]
  | _ :: r, i + 1, j + 1, x, h => by
    simp only [setNth, List.getElem?_cons_succ]
    exact setNth_getElem?_ne r i j x (by omega)

/-- what one scheduled step does to the thread itself -/
def soloStep (p : Process) (t : Thread) : Thread := (stepThread p t).2

/-- `n` steps of a thread running alone -/
def soloN (p : Process) : Nat → Thread → Thread
  | 0, t => t
  | n + 1, t => soloN p n (soloStep p t)

def Thread.noUid (t : Thread) : Prop := ∀ op ∈ t.todo, op.usesUid = false

theorem stepThread_builtins (p : Process) (t : Thread) : SameBuiltins (stepThread p t).1 p := by
  unfold stepThread
  split
  · split
    · rename_i p' c' h; exact step_builtins _ _ _ _ _ h
    · exact SameBuiltins.refl p
  · exact SameBuiltins.refl p

theorem soloStep_noUid (p : Process) (t : Thread) (h : t.noUid) : (soloStep p t).noUid := by
  unfold soloStep stepThread
  split
  · rename_i c op rest hs ht
    have hrest : ∀ o ∈ rest, o.usesUid = false := fun o ho => h o (by rw [ht]; simp [ho])
    split
    · exact hrest
    · intro o ho; simp at ho
  · exact h

/-- The thread component of a step depends on the process only through the built-ins. -/
theorem soloStep_local (p q : Process) (t : Thread) (hpq : SameBuiltins p q) (h : t.noUid) :
    soloStep p t = soloStep q t := by
  unfold soloStep stepThread
  split
  · rename_i c op rest hs ht
    have hl := step_local p q c op hpq (h op (by rw [ht]; simp))
    cases hp : step p c op with
    | error e =>
      rw [hp] at hl
      have hq := localOutcome_error (r := step q c op) (e := e) (by rw [← hl]; rfl)
      simp [hq]
    | ok pc =>
      obtain ⟨p', c'⟩ := pc
      rw [hp] at hl
      obtain ⟨q', hq⟩ := localOutcome_ok (r := step q c op) (c := c') (by rw [← hl]; rfl)
      simp [hq]
  · rfl

theorem soloN_succ' (p : Process) (n : Nat) (t : Thread) : soloN p (n + 1) t = soloN p n (soloStep p t) := rfl

/-- Main lemma: after ANY schedule, thread `i` is exactly where `count i sched` steps of
running alone (in any process with the same built-ins) would have taken it. -/
theorem runSched_thread (p0 : Process) : ∀ (sched : List Nat) (p : Process) (ts : List Thread),
    SameBuiltins p p0 → (∀ (k : Nat) (t : Thread), ts[k]? = some t → t.noUid) →
    ∀ i t, ts[i]? = some t → (runSched p ts sched).2[i]? = some (soloN p0 (sched.count i) t)
  | [], _, _, _, _, _, _, hi => by simpa [runSched, soloN] using hi
  | j :: rest, p, ts, hp, hno, i, t, hi => by
    simp only [runSched]
    cases hj : ts[j]? with
    | none =>
      have hne : j ≠ i := by intro h; subst h; rw [hi] at hj; cases hj
      have hc : (j :: rest).count i = rest.count i := by
        rw [List.count_cons]; simp [hne]
      rw [hc]
      exact runSched_thread p0 rest p ts hp hno i t hi
    | some tj =>
      have hp' : SameBuiltins (stepThread p tj).1 p0 := (stepThread_builtins p tj).trans hp
      have hno' : ∀ (k : Nat) (t' : Thread), (setNth ts j (stepThread p tj).2)[k]? = some t' → t'.noUid := by
        intro k t' hk
        by_cases hjk : j = k
        · subst hjk
          rw [setNth_getElem?_eq ts j _ tj hj] at hk
          cases hk
          exact soloStep_noUid p tj (hno j tj hj)
        · rw [setNth_getElem?_ne ts j k _ hjk] at hk
          exact hno k t' hk
      by_cases hji : j = i
      · subst hji
        have ht : tj = t := by rw [hi] at hj; cases hj; rfl
        subst ht
        have hget := setNth_getElem?_eq ts j (stepThread p tj).2 tj hj
        have := runSched_thread p0 rest (stepThread p tj).1 (setNth ts j (stepThread p tj).2) hp' hno' j _ hget
        rw [this]
        have hc : (j :: rest).count j = rest.count j + 1 := by rw [List.count_cons]; simp
        rw [hc, soloN_succ']
        have : soloStep p0 tj = (stepThread p tj).2 := (soloStep_local p p0 tj hp (hno j tj hi)).symm
        rw [this]
      · have hget : (setNth ts j (stepThread p tj).2)[i]? = some t := by
          rw [setNth_getElem?_ne ts j i _ hji]; exact hi
        have hc : (j :: rest).count i = rest.count i := by rw [List.count_cons]; simp [hji]
        rw [hc]
        exact runSched_thread p0 rest (stepThread p tj).1 (setNth ts j (stepThread p tj).2) hp' hno' i t hget

/-- a finished thread does not move -/
theorem soloN_done (p : Process) (s : Except Err Comp) : ∀ n, soloN p n ⟨[], s⟩ = ⟨[], s⟩
  | 0 => rfl
  | n + 1 => by
    have : soloStep p ⟨[], s⟩ = ⟨[], s⟩ := by
      unfold soloStep stepThread; cases s <;> rfl
    rw [soloN_succ', this]; exact soloN_done p s n

theorem soloN_add (p : Process) : ∀ (a b : Nat) (t : Thread), soloN p (a + b) t = soloN p b (soloN p a t)
  | 0, b, t => by simp [soloN]
  | a + 1, b, t => by
    have : a + 1 + b = (a + b) + 1 := by omega
    rw [this, soloN_succ', soloN_add p a b, soloN_succ']

/-- running alone to the end = the sequential `runOps` -/
theorem soloN_all (p : Process) : ∀ (ops : List Op) (c : Comp), (∀ op ∈ ops, op.usesUid = false) →
    soloN p ops.length ⟨ops, .ok c⟩ = ⟨[], (runOps p c ops).2⟩
  | [], c, _ => rfl
  | op :: rest, c, hu => by
    rw [List.length_cons, soloN_succ']
    have hrest : ∀ o ∈ rest, o.usesUid = false := fun o ho => hu o (by simp [ho])
    cases hs : step p c op with
    | error e =>
      have h1 : soloStep p ⟨op :: rest, .ok c⟩ = ⟨[], .error e⟩ := by
        simp [soloStep, stepThread, hs]
      rw [h1, soloN_done]
      simp [runOps, hs]
    | ok pc =>
      obtain ⟨p', c'⟩ := pc
      have h1 : soloStep p ⟨op :: rest, .ok c⟩ = ⟨rest, .ok c'⟩ := by
        simp [soloStep, stepThread, hs]
      rw [h1, soloN_all p rest c' hrest]
      simp only [runOps, hs]
      rw [runOps_local rest p' p c' (step_builtins p c op p' c' hs) hrest]

/-- what the caller of a finished compilation gets -/
def threadResult (t : Thread) : Result :=
  match t.state with
  | .ok c => .ok c.out
  | .error e => .error e

theorem threadResult_runOps (p : Process) (ops : List Op) :
    threadResult ⟨[], (runOps p Comp.empty ops).2⟩ = (compile p ops).2 := by
  unfold compile threadResult
  cases h : runOps p Comp.empty ops with
  | mk p' r => cases r <;> rfl

end Glue.Globals
