/-
Helper lemmas for C05 (`Glue/Globals.lean`).
-/
import RsassModel.Glue.Globals
namespace Glue.Globals

/-- the part of the process state a compilation can READ (besides `callId` in `uniqueId`) -/
def SameBuiltins (p q : Process) : Prop := p.modules = q.modules ∧ p.functions = q.functions

theorem SameBuiltins.refl (p : Process) : SameBuiltins p p := ⟨rfl, rfl⟩
theorem SameBuiltins.symm {p q : Process} (h : SameBuiltins p q) : SameBuiltins q p := ⟨h.1.symm, h.2.symm⟩
theorem SameBuiltins.trans {p q r : Process} (h1 : SameBuiltins p q) (h2 : SameBuiltins q r) :
    SameBuiltins p r := ⟨h1.1.trans h2.1, h1.2.trans h2.2⟩

/-- No statement writes `modules` or `functions`. -/
theorem step_builtins (p : Process) (c : Comp) (op : Op) (p' : Process) (c' : Comp)
    (h : step p c op = .ok (p', c')) : SameBuiltins p' p := by
  cases op <;> simp only [step] at h
  all_goals first
    | (split at h
       · simp only [Except.ok.injEq, Prod.mk.injEq] at h; obtain ⟨rfl, _⟩ := h; exact ⟨rfl, rfl⟩
       · simp at h)
    | (simp only [Except.ok.injEq, Prod.mk.injEq] at h; obtain ⟨rfl, _⟩ := h; exact ⟨rfl, rfl⟩)

/-- the compilation-local outcome of a statement -/
def localOutcome (r : Except Err (Process × Comp)) : Except Err Comp :=
  match r with
  | .ok (_, c) => .ok c
  | .error e => .error e

/-- What a statement does to the compilation (its `Comp`, or its error) depends on the
process state only through `modules` and `functions` — unless it is `unique-id()`. -/
theorem step_local (p q : Process) (c : Comp) (op : Op) (h : SameBuiltins p q)
    (hu : op.usesUid = false) :
    localOutcome (step p c op) = localOutcome (step q c op) := by
  obtain ⟨h1, h2⟩ := h
  cases op <;> simp only [step, Op.usesUid, h1, h2] at hu ⊢
  all_goals first
    | (exact absurd hu (by decide))
    | rfl
    | (split <;> rfl)

theorem localOutcome_ok {r : Except Err (Process × Comp)} {c : Comp}
    (h : localOutcome r = .ok c) : ∃ p, r = .ok (p, c) := by
  unfold localOutcome at h
  split at h
  · rename_i p c' ; cases h; exact ⟨p, rfl⟩
  · cases h

theorem localOutcome_error {r : Except Err (Process × Comp)} {e : Err}
    (h : localOutcome r = .error e) : r = .error e := by
  unfold localOutcome at h
  split at h
  · cases h
  · cases h; rfl

theorem runOps_builtins (ops : List Op) : ∀ (p : Process) (c : Comp), SameBuiltins (runOps p c ops).1 p := by
  induction ops with
  | nil => intro p c; exact SameBuiltins.refl p
  | cons op rest ih =>
    intro p c
    simp only [runOps]
    split
    · exact SameBuiltins.refl p
    · rename_i p' c' h
      exact (ih p' c').trans (step_builtins p c op p' c' h)

theorem runOps_local (ops : List Op) : ∀ (p q : Process) (c : Comp), SameBuiltins p q →
    (∀ op ∈ ops, op.usesUid = false) → (runOps p c ops).2 = (runOps q c ops).2 := by
  induction ops with
  | nil => intro p q c _ _; rfl
  | cons op rest ih =>
    intro p q c h hu
    have hl := step_local p q c op h (hu op (by simp))
    simp only [runOps]
    cases hp : step p c op with
    | error e =>
      rw [hp] at hl
      have := localOutcome_error (r := step q c op) (e := e) (by rw [← hl]; rfl)
      rw [this]
    | ok pc =>
      obtain ⟨p', c'⟩ := pc
      rw [hp] at hl
      obtain ⟨q', hq⟩ := localOutcome_ok (r := step q c op) (c := c') (by rw [← hl]; rfl)
      rw [hq]
      simp only []
      have h' : SameBuiltins p' q' :=
        ((step_builtins p c op p' c' hp).trans h).trans (step_builtins q c op q' c' hq).symm
      exact ih p' q' c' h' (fun o ho => hu o (by simp [ho]))

end Glue.Globals
