/- Helper lemmas for C38 (writer shape, prefix/suffix stripping, loader independence). -/
import RsassModel.Glue.Entry
namespace GlueE

theorem replNl_no_nl (t : Text) : '\n' ∉ replNl t := by
  induction t with
  | nil => simp [replNl]
  | cons c t ih =>
    simp only [replNl, List.map_cons, List.mem_cons, not_or] at ih ⊢
    refine ⟨?_, ih⟩
    split
    · decide
    · next h => exact fun e => h e.symm

theorem replNl_id (t : Text) (h : '\n' ∉ t) : replNl t = t := by
  induction t with
  | nil => rfl
  | cons c t ih =>
    simp only [List.mem_cons, not_or] at h
    simp only [replNl, List.map_cons] at ih ⊢
    rw [ih h.2]
    have : c ≠ '\n' := fun e => h.1 e.symm
    simp [this]

theorem replNl_idem (t : Text) : replNl (replNl t) = replNl t :=
  replNl_id _ (replNl_no_nl t)

/-- what `Rule::write` + `Property::write` leave in the buffer for `x { y: v }`, expanded -/
theorem writeRule_expanded (v : Text) :
    (writeRule (CssBuf.new false) ['x'] [(['y'], v)]).take
      = ['x', ' ', '{', '\n', ' ', ' ', 'y', ':', ' '] ++ replNl v ++ [';', '\n', '}', '\n'] := by
  simp [writeRule, writeProperty, CssBuf.new, CssBuf.doIndentNoNl, CssBuf.getIndent, CssBuf.addStr,
    CssBuf.addOne, CssBuf.startBlock, CssBuf.endBlock, CssBuf.popNl, CssBuf.doIndent, CssBuf.take,
    List.replicate]

/-- the same in compressed style: the final `;` is popped by `end_block` -/
theorem writeRule_compressed (v : Text) :
    (writeRule (CssBuf.new true) ['x'] [(['y'], v)]).take
      = ['x', '{', 'y', ':'] ++ replNl v ++ ['}'] := by
  simp [writeRule, writeProperty, CssBuf.new, CssBuf.doIndentNoNl, CssBuf.getIndent, CssBuf.addStr,
    CssBuf.addOne, CssBuf.startBlock, CssBuf.endBlock, CssBuf.popNl, CssBuf.doIndent, CssBuf.take]

theorem stripPrefix?_append (p t : Text) : stripPrefix? p (p ++ t) = some t := by
  simp [stripPrefix?]

theorem stripSuffix?_append (s t : Text) : stripSuffix? s (t ++ s) = some t := by
  simp [stripSuffix?, stripPrefix?]


/-- the encoding mark for a given buffer -/
def markFor (compressed : Bool) (buf : Text) : Text := if isAscii buf then [] else mark compressed

theorem intoBuffer_brace (c : Bool) (pre : Text) :
    intoBuffer c (pre ++ ['}']) = markFor c (pre ++ ['}']) ++ pre ++ ['}', '\n'] := by
  unfold intoBuffer markFor
  split <;> simp

theorem intoBuffer_brace_nl (c : Bool) (pre : Text) :
    intoBuffer c (pre ++ ['}', '\n']) = markFor c (pre ++ ['}', '\n']) ++ pre ++ ['}', '\n'] := by
  unfold intoBuffer markFor
  split <;> simp [List.dropWhile]

theorem intoBuffer_nil (c : Bool) : intoBuffer c [] = [] := by
  simp [intoBuffer, isAscii]

theorem declDoc_none (c : Bool) : declDoc c none = [] := by
  simp [declDoc, writeRule, CssBuf.take, CssBuf.new, intoBuffer_nil]

/-- shape of the expanded document -/
theorem declDoc_expanded (v : Text) :
    declDoc false (some v)
      = markFor false (declPrefix false ++ replNl v ++ declSuffix false)
        ++ declPrefix false ++ replNl v ++ declSuffix false := by
  have h := intoBuffer_brace_nl false (['x', ' ', '{', '\n', ' ', ' ', 'y', ':', ' '] ++ replNl v ++ [';', '\n'])
  simp only [declDoc, writeRule_expanded, declPrefix, declSuffix]
  simpa using h

/-- shape of the compressed document -/
theorem declDoc_compressed (v : Text) :
    declDoc true (some v)
      = markFor true (declPrefix true ++ replNl v ++ ['}'])
        ++ declPrefix true ++ replNl v ++ declSuffix true := by
  have h := intoBuffer_brace true (['x', '{', 'y', ':'] ++ replNl v)
  simp only [declDoc, writeRule_compressed, declPrefix, declSuffix]
  simpa using h

theorem extract_of_shape (c : Bool) (m t : Text) (hm : m = [] ∨ m = mark c) :
    extractDecl c (m ++ declPrefix c ++ t ++ declSuffix c) = some t := by
  have hbody : dropMark c (m ++ declPrefix c ++ t ++ declSuffix c) = declPrefix c ++ (t ++ declSuffix c) := by
    unfold dropMark
    rcases hm with rfl | rfl
    · cases c <;> simp [stripPrefix?, mark, declPrefix, List.isPrefixOf]
    · simp [List.append_assoc, stripPrefix?_append]
  unfold extractDecl
  rw [hbody, stripPrefix?_append]
  simp [stripSuffix?_append]

/-- reading back what `declDoc` wrote gives the value text with newlines replaced -/
theorem extract_declDoc (c : Bool) (v : Text) :
    extractDecl c (declDoc c (some v)) = some (replNl v) := by
  cases c
  · rw [declDoc_expanded]
    apply extract_of_shape
    unfold markFor; split <;> simp
  · rw [declDoc_compressed]
    apply extract_of_shape
    unfold markFor; split <;> simp


variable {Val : Type}

/-- no item of the list goes through the loader -/
def noLoads (items : List Item) : Bool := items.all fun i => !i.isLoad

/-- without loads, neither the loader's base directories nor the fuel matter -/
theorem run_noLoads (w : World Val) (p1 p2 : List Text) (fmt : Format) (f1 f2 : Nat)
    (items : List Item) (h : noLoads items = true) :
    run w p1 fmt f1 items = run w p2 fmt f2 items := by
  induction items with
  | nil => simp [run]
  | cons i rest ih =>
    cases i with
    | css k =>
      have hr : noLoads rest = true := by simpa [noLoads, Item.isLoad] using h
      simp only [run, ih hr]
    | load url => simp [noLoads, Item.isLoad] at h

/-- two loaders that resolve every url alike give the same result -/
theorem run_congr_lookup (w : World Val) (p1 p2 : List Text) (fmt : Format)
    (h : ∀ url, w.lookup p1 url = w.lookup p2 url) (fuel : Nat) (items : List Item) :
    run w p1 fmt fuel items = run w p2 fmt fuel items := by
  fun_induction run w p1 fmt fuel items <;> simp_all [run]

end GlueE
