/-
C40 — model of `rsass-cli/src/main.rs`: clap's parsing of the argument forms the tool
documents (`--precision`, `--style`/`-t`, `--load-path`/`-I`, inputs), the `Args::run`
loop over the inputs and the `ExitCode` mapping of `main`.  The library call made for one
input (`FsContext::for_path` + `push_path` + `with_format` + `transform`) is a parameter.
-/
import RsassModel.Glue.Entry
namespace GlueE

/-- what the process leaves behind -/
structure Out where
  stdout : Text
  stderr : Text
  exit : Nat
deriving DecidableEq, Repr

/-- parsed `Args` -/
structure CliArgs where
  precision : Option Nat := none     -- `default_value = "5"`
  style : Option Bool := none        -- `Some true` = compressed; default expanded
  loadPath : Option Text := none
  inputs : List Text := []
deriving DecidableEq, Repr

def CliArgs.prec (a : CliArgs) : Nat := a.precision.getD 5
def CliArgs.compressed (a : CliArgs) : Bool := a.style.getD false
def CliArgs.format (a : CliArgs) : Format := ⟨a.compressed, a.prec⟩

inductive Opt where
  | precision | style | loadPath
deriving DecidableEq

def longOpt (name : Text) : Option Opt :=
  if name = ['p', 'r', 'e', 'c', 'i', 's', 'i', 'o', 'n'] then some .precision
  else if name = ['s', 't', 'y', 'l', 'e'] then some .style
  else if name = ['l', 'o', 'a', 'd', '-', 'p', 'a', 't', 'h'] then some .loadPath
  else none

def shortOpt (c : Char) : Option Opt :=
  if c = 't' then some .style else if c = 'I' then some .loadPath else none

/-- `usize::from_str`: non-empty, ASCII digits only (an optional leading `+` is accepted by Rust
but never generated; overflow beyond `usize` is out of range of the model) -/
def natOfDigits (t : Text) : Option Nat :=
  if t.isEmpty ∨ !t.all Char.isDigit then none
  else some (t.foldl (fun n c => 10 * n + (c.toNat - 48)) 0)

/-- store one option value; a second occurrence, or an unparsable value, is a usage error -/
def setOpt (a : CliArgs) (o : Opt) (v : Text) : Option CliArgs :=
  match o with
  | .precision =>
    if a.precision.isSome then none
    else (natOfDigits v).map fun n => { a with precision := some n }
  | .style =>
    if a.style.isSome then none
    else if v = ['e', 'x', 'p', 'a', 'n', 'd', 'e', 'd'] then some { a with style := some false }
    else if v = ['c', 'o', 'm', 'p', 'r', 'e', 's', 's', 'e', 'd'] then some { a with style := some true }
    else none
  | .loadPath =>
    if a.loadPath.isSome then none else some { a with loadPath := some v }

/-- the value of an option that was not given inline: the next argument, unless it looks like
an option -/
def nextValue : List Text → Option (Text × List Text)
  | [] => none
  | v :: rest => if v.head? = some '-' then none else some (v, rest)

/-- clap's walk over `argv[1..]`; `none` = usage error.  `fuel` only bounds the recursion
(one step consumes at least one argument). -/
def parseLoop : Nat → List Text → CliArgs → Option CliArgs
  | 0, _, _ => none
  | _, [], a => if a.inputs.isEmpty then none else some a
  | fuel + 1, arg :: rest, a =>
    match arg with
    | ['-', '-'] =>
      -- everything after `--` is positional
      let a := { a with inputs := a.inputs ++ rest }
      if a.inputs.isEmpty then none else some a
    | '-' :: '-' :: long =>
      let name := long.takeWhile (· ≠ '=')
      let inl := long.dropWhile (· ≠ '=')
      match longOpt name with
      | none => none
      | some o =>
        match inl with
        | _ :: v => (setOpt a o v).bind (parseLoop fuel rest)
        | [] =>
          match nextValue rest with
          | none => none
          | some (v, rest) => (setOpt a o v).bind (parseLoop fuel rest)
    | '-' :: c :: more =>
      match shortOpt c with
      | none => none
      | some o =>
        match more with
        | [] =>
          match nextValue rest with
          | none => none
          | some (v, rest) => (setOpt a o v).bind (parseLoop fuel rest)
        | '=' :: v => (setOpt a o v).bind (parseLoop fuel rest)
        | v => (setOpt a o v).bind (parseLoop fuel rest)
    | _ => parseLoop fuel rest { a with inputs := a.inputs ++ [arg] }

def parseArgs (argv : List Text) : Option CliArgs := parseLoop (argv.length + 1) argv {}

/-- the `FsLoader` base directories for one input: `for_path` gives the file's directory,
`push_path` appends `--load-path` -/
def cliPaths (a : CliArgs) (file : Text) : List Text := parentDir file :: a.loadPath.toList

/-- `base.join(url)` for a relative url -/
def joinPath (base url : Text) : Text := if base.isEmpty then url else base ++ '/' :: url

/-- `FsLoader::find_file`: the first base directory in which the file exists -/
def fsFind (fs : Text → Option Text) (paths : List Text) (url : Text) : Option Text :=
  paths.findSome? fun b => fs (joinPath b url)

/-- the `for name in &self.input` loop of `Args::run`, with `?` on every step; `main` maps
`Ok(())` to `ExitCode::SUCCESS` and `Err(err)` to `eprintln!("Error: {err}")` + `FAILURE` -/
def runLoop (compile : Text → Except Text Text) : List Text → Text → Out
  | [], acc => ⟨acc, [], 0⟩
  | f :: rest, acc =>
    match compile f with
    | .ok css => runLoop compile rest (acc ++ css)
    | .error e => ⟨acc, ['E', 'r', 'r', 'o', 'r', ':', ' '] ++ e ++ ['\n'], 1⟩

/-- the library call the CLI makes for one input -/
def cliCompile (lib : List Text → Format → Text → Except Text Text) (a : CliArgs) (f : Text) :
    Except Text Text :=
  lib (cliPaths a f) a.format f

/-- the process: usage errors are clap's (exit status 2, message starting `error:`) -/
def runCli (lib : List Text → Format → Text → Except Text Text) (argv : List Text) : Out :=
  match parseArgs argv with
  | none => ⟨[], ['e', 'r', 'r', 'o', 'r', ':'], 2⟩
  | some a => runLoop (cliCompile lib a) a.inputs []

/-! ## Which file a load resolves to (`Context::find_file` + `do_find_file` in
input/context.rs over `FsLoader::find_file`), for a url loaded directly by an input file
(the importer's name has no directory part, so `relative()` leaves the url unchanged). -/

/-- Deviations of the code from the property. -/
structure CliQuirks where
  /-- `do_find_file` walks the candidate *names* in its outer loop and hands each to
  `FsLoader::find_file`, which walks the base directories: a later candidate next to the
  input loses against an earlier candidate in `--load-path` -/
  loadNameMajor : Bool := false

def cliAsIs : CliQuirks := { loadNameMajor := true }
def cliSpec : CliQuirks := {}

def endsWith (t suf : Text) : Bool := suf.reverse.isPrefixOf t.reverse

/-- the candidate file names of `find_file` for a url: the url itself when it carries a known
suffix, otherwise the name rules (`@import` additionally tries the `.import` variants) -/
def candidates (isImport : Bool) (url : Text) : List Text :=
  if endsWith url ['.', 'c', 's', 's'] ∨ endsWith url ['.', 's', 'a', 's', 's'] ∨ endsWith url ['.', 's', 'c', 's', 's'] then [url]
  else
    let name := (url.reverse.takeWhile (· ≠ '/')).reverse
    let base := url.take (url.length - name.length)
    let scss := ['.', 's', 'c', 's', 's']
    let imp := ['.', 'i', 'm', 'p', 'o', 'r', 't', '.', 's', 'c', 's', 's']
    let css := ['.', 'c', 's', 's']
    if isImport then
      [base ++ name ++ imp, base ++ '_' :: name ++ imp, base ++ name ++ scss, base ++ '_' :: name ++ scss,
       base ++ name ++ '/' :: 'i' :: 'n' :: 'd' :: 'e' :: 'x' :: imp,
       base ++ name ++ '/' :: '_' :: 'i' :: 'n' :: 'd' :: 'e' :: 'x' :: imp,
       base ++ name ++ '/' :: 'i' :: 'n' :: 'd' :: 'e' :: 'x' :: scss,
       base ++ name ++ '/' :: '_' :: 'i' :: 'n' :: 'd' :: 'e' :: 'x' :: scss,
       base ++ name ++ css, base ++ '_' :: name ++ css]
    else
      [base ++ name ++ scss, base ++ '_' :: name ++ scss,
       base ++ name ++ '/' :: 'i' :: 'n' :: 'd' :: 'e' :: 'x' :: scss,
       base ++ name ++ '/' :: '_' :: 'i' :: 'n' :: 'd' :: 'e' :: 'x' :: scss,
       base ++ name ++ css, base ++ '_' :: name ++ css]

/-- the file (as a path) a candidate name resolves to in one base directory -/
def inBase (fs : Text → Bool) (b n : Text) : Option Text :=
  if fs (joinPath b n) then some (joinPath b n) else none

/-- first candidate found in one base directory -/
def firstIn (fs : Text → Bool) (names : List Text) (b : Text) : Option Text :=
  names.findSome? (inBase fs b)

/-- the file a load resolves to.  Specified: base directories in order (the input's directory,
then `--load-path`), all candidates in each.  As is: candidates in order, all base directories
for each. -/
def resolveLoad (q : CliQuirks) (fs : Text → Bool) (paths names : List Text) : Option Text :=
  if q.loadNameMajor then names.findSome? fun n => paths.findSome? fun b => inBase fs b n
  else paths.findSome? (firstIn fs names)

end GlueE
