/-
C28 — model of `rsass/src/sass/functions/list.rs` (the `sass:list` module) and of
`css::Value::iter_items` / `impl PartialEq for css::Value` (rsass/src/css/value.rs),
function by function, as total computable definitions.  Import-free (driver links it).

Values: list elements are opaque atoms (`atom id cls`: `id` is the identity of the value,
`cls` its `==` class — `"a"` and `a`, `1in` and `96px` are different atoms of one class),
`null`, lists (`Vec<Value>`, `Option<ListSeparator>` with `None` = `undecided`, bracket
flag), maps (ordered key/value pairs) and argument lists (positional values, named
pairs whose key is the unquoted-string atom of the name, trailing-comma flag).
-/
namespace ListFn

/-- `Option<ListSeparator>`; `undecided` is `None`. -/
inductive Sep | space | comma | slash | undecided
  deriving DecidableEq, Repr, Inhabited

inductive Val
  | atom (id cls : Nat)
  | null
  | list (items : List Val) (sep : Sep) (bra : Bool)
  | map (pairs : List (Val × Val))
  | arglist (pos : List Val) (named : List (Val × Val)) (tc : Bool)
  deriving Inhabited, Repr

/-- what a list function returns: a value, a number (`length`, `index`), a separator
keyword (`separator`), a boolean (`is-bracketed`), an error, or a Rust panic
(`list[n]` out of bounds — shown unreachable by `nth_never_panics`). -/
inductive Out
  | val (v : Val) | int (n : Int) | kw (s : Sep) | bool (b : Bool) | err | panic
  deriving Inhabited, Repr

/-- the `$n` argument after `check::unitless_int`: an integer, or anything that is
rejected (not a number, has a unit, not integral). -/
inductive Idx | int (n : Int) | bad
  deriving Repr

/-- the `$separator` argument after `check_separator`. -/
inductive SepArg | auto | space | comma | slash | bad
  deriving DecidableEq, Repr

/-- the `$bracketed` argument of `join`: the string `auto`, or any other value by its
truthiness. -/
inductive BraArg | auto | truthy | falsy
  deriving DecidableEq, Repr

/-- Deviations of the code from the property (all `false` = what the property states). -/
structure ListQuirks where
  /-- `length(null)` is 0 although `null` is a one-element list everywhere else -/
  lengthNullZero : Bool := false
  /-- `index($map, $value)` ignores the bracket flag of `$value` -/
  indexMapIgnoresBrackets : Bool := false
  /-- `index($arglist, $value)` compares the whole argument list instead of its elements -/
  indexArglistAsScalar : Bool := false
  /-- `Value::iter_items` (used by `zip`) appends a `null` for a trailing comma in the call -/
  zipArglistTrailingNull : Bool := false
  deriving Repr

def spec : ListQuirks := {}
def asis : ListQuirks :=
  { lengthNullZero := true, indexMapIgnoresBrackets := true, indexArglistAsScalar := true,
    zipArglistTrailingNull := true }

/-- a map entry / named argument seen as a list element: `Value::List(vec![k, v], Some(Space), false)` -/
def pairV (p : Val × Val) : Val := .list [p.1, p.2] .space false

/- `impl PartialEq for css::Value` restricted to the modelled constructors.
Maps: `impl PartialEq for OrderMap` (rsass/src/ordermap.rs, fixes 001310e + 3dd7990): same
length and inclusion BOTH ways (every entry of one map has an equal entry in the other), in
any order.  The reverse inclusion is written with the operands of `==` flipped
(`veqAnyRev`), so that the definition stays structurally recursive on the left value.
Argument lists (fix 2fec817): derived `PartialEq` of `CallArgs` — positional values in
order, named arguments as a map, and the trailing-comma flag. -/
mutual
def veq : Val → Val → Bool
  | .atom _ c1, .atom _ c2 => c1 == c2
  | .null, .null => true
  | .list a s1 b1, .list b s2 b2 => veqList a b && decide (s1 = s2) && b1 == b2
  | .map a, .map b =>
      a.length == b.length && veqAllIn a b && b.all (fun p => veqAnyRev a p.1 p.2)
  | .arglist p1 n1 t1, .arglist p2 n2 t2 =>
      veqList p1 p2 &&
      (n1.length == n2.length && veqAllIn n1 n2 && n2.all (fun p => veqAnyRev n1 p.1 p.2)) &&
      t1 == t2
  | .list a _ _, .map b => a.isEmpty && b.isEmpty
  | .map a, .list b _ _ => a.isEmpty && b.isEmpty
  | _, _ => false
termination_by structural x => x
def veqList : List Val → List Val → Bool
  | [], [] => true
  | x :: xs, y :: ys => veq x y && veqList xs ys
  | _, _ => false
termination_by structural x => x
def veqAllIn : List (Val × Val) → List (Val × Val) → Bool
  | [], _ => true
  | (k, v) :: xs, b => b.any (fun p => veq k p.1 && veq v p.2) && veqAllIn xs b
termination_by structural x => x
def veqAnyRev : List (Val × Val) → Val → Val → Bool
  | [], _, _ => false
  | (k', v') :: xs, k, v => (veq k' k && veq v' v) || veqAnyRev xs k v
termination_by structural x => x
end

/-- `fn get_list(value) -> (Vec<Value>, Option<ListSeparator>, bool)` -/
def getList : Val → List Val × Sep × Bool
  | .arglist pos named _ => (pos ++ named.map pairV, .comma, false)
  | .list v s b => (v, s, b)
  -- the code tests `map.is_empty()` first and returns `(vec![], None, false)`; mapping an
  -- empty map gives the same empty vector, so only the separator depends on the test
  | .map ps => (ps.map pairV, if ps.isEmpty then .undecided else .comma, false)
  | v => ([v], .undecided, false)

/-- `Value::iter_items` -/
def iterItems (q : ListQuirks) : Val → List Val
  | .arglist pos named tc =>
      pos ++ named.map pairV ++ (if q.zipArglistTrailingNull && tc then [.null] else [])
  | .list v _ _ => v
  | .map ps => ps.map pairV
  | v => [v]

/-- `fn index_of(v, len) -> Result<usize, String>` after `check::unitless_int` -/
def indexOf (n : Int) (len : Nat) : Option Nat :=
  if 0 < n ∧ n ≤ (len : Int) then some (n - 1).toNat
  else if n < 0 ∧ n ≥ -(len : Int) then some ((len : Int) + n).toNat
  else none

def indexArg (i : Idx) (len : Nat) : Option Nat :=
  match i with
  | .int n => indexOf n len
  | .bad => none

/-- `Option::or` on separators -/
def Sep.or (a b : Sep) : Sep := if a = .undecided then b else a

/-- `check_separator`: `Err`, `Ok(None)` (auto) or `Ok(Some(sep))` -/
def SepArg.check : SepArg → Option Sep
  | .auto => some .undecided
  | .space => some .space
  | .comma => some .comma
  | .slash => some .slash
  | .bad => none

/-- `def!(f, length(list), …)` -/
def length (q : ListQuirks) : Val → Out
  | .arglist pos named _ => .int (pos.length + named.length)
  | .list v _ _ => .int v.length
  | .map m => .int m.length
  | .null => if q.lengthNullZero then .int 0 else .int 1
  | _ => .int 1

/-- `def!(f, nth(list, n), …)` -/
def nth (v : Val) (i : Idx) : Out :=
  match v with
  | .arglist pos named _ =>
    match indexArg i (pos.length + named.length) with
    | none => .err
    | some n =>
      match pos[n]? with
      | some x => .val x
      | none =>
        match named[n - pos.length]? with
        | some p => .val (pairV p)
        | none => .val .null
  | .list l _ _ =>
    match indexArg i l.length with
    | none => .err
    | some n => match l[n]? with
      | some x => .val x
      | none => .panic
  | .map m =>
    match indexArg i m.length with
    | none => .err
    | some n => match m[n]? with
      | some p => .val (pairV p)
      | none => .val .null
  | v =>
    match indexArg i 1 with
    | none => .err
    | some _ => .val v

/-- `def!(f, set_nth(list, n, value), …)` -/
def setNth (v : Val) (i : Idx) (x : Val) : Out :=
  match getList v with
  | (l, sep, bra) =>
    match indexArg i l.length with
    | none => .err
    | some n => if n < l.length then .val (.list (l.set n x) sep bra) else .panic

/-- `def!(f, append(list, val, separator = "auto"), …)` -/
def append (v x : Val) (s : SepArg) : Out :=
  match getList v with
  | (l, sep, bra) =>
    match s.check with
    | none => .err
    | some e => .val (.list (l ++ [x]) ((e.or sep).or .space) bra)

/-- `match s.get(name!(bracketed))? { Literal "auto" => bra1, b => b.is_true() }` -/
def BraArg.resolve (b : BraArg) (bra1 : Bool) : Bool :=
  match b with
  | .auto => bra1
  | .truthy => true
  | .falsy => false

/-- `def!(f, join(list1, list2, separator = "auto", bracketed = "auto"), …)` -/
def join (v1 v2 : Val) (s : SepArg) (b : BraArg) : Out :=
  match getList v1, getList v2 with
  | (l1, sep1, bra1), (l2, sep2, _) =>
    match s.check with
    | none => .err
    | some e =>
      let sep := ((e.or sep1).or sep2).or .space
      .val (.list (l1 ++ l2) sep (b.resolve bra1))

/-- first 0-based position whose element satisfies `p` (the `for (i, v) in … enumerate()` loops) -/
def findIdx (p : Val → Bool) : List Val → Nat → Option Nat
  | [], _ => none
  | x :: xs, i => if p x then some i else findIdx p xs (i + 1)

def idxOut : Option Nat → Out
  | some i => .int (i + 1)
  | none => .val .null

/-- `def!(f, index(list, value), …)` -/
def index (q : ListQuirks) (v x : Val) : Out :=
  match v with
  | .list l _ _ => idxOut (findIdx (fun e => veq e x) l 0)
  | .map m =>
    if q.indexMapIgnoresBrackets then
      match x with
      | .list [a, b] .space _ =>
        idxOut (findIdx (fun e => match e with
          | .list [k, w] _ _ => veq k a && veq w b
          | _ => false) (m.map pairV) 0)
      | _ => .val .null
    else idxOut (findIdx (fun e => veq e x) (m.map pairV) 0)
  | .arglist pos named _ =>
    if q.indexArglistAsScalar then (if veq v x then .int 1 else .val .null)
    else idxOut (findIdx (fun e => veq e x) (pos ++ named.map pairV) 0)
  | v => if veq v x then .int 1 else .val .null

/-- `def!(f, separator(list), …)` -/
def separator : Val → Out
  | .list _ .comma _ => .kw .comma
  | .arglist _ _ _ => .kw .comma
  | .list _ .slash _ => .kw .slash
  | .map m => if m.isEmpty then .kw .space else .kw .comma
  | _ => .kw .space

/-- `def!(f, is_bracketed(list), …)` -/
def isBracketed : Val → Out
  | .list _ _ true => .bool true
  | _ => .bool false

def minLen : List (List Val) → Nat
  | [] => 0
  | [l] => l.length
  | l :: ls => min l.length (minLen ls)

/-- `def_va!(f, zip(lists), …)`: row `i` holds the `i`-th item of every list -/
def zip (q : ListQuirks) (vs : List Val) : Out :=
  let lists := vs.map (iterItems q)
  let len := minLen lists
  .val (.list ((List.range len).map fun i =>
      .list (lists.map fun l => l.getD i .null) .space false) .comma false)

end ListFn
