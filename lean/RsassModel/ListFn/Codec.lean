/-
Protocol encoding of C28 values (shared by the Python generator, the harness dump
canonicaliser and the Lean driver).  No tabs, no spaces:
  atom     `a<id>c<cls>`                 null `n`
  list     `l<sep><bra>(v,v,…)`          sep: u s c /   bra: 0 1
  map      `m(k:v,k:v,…)`
  arglist  `g<tc>(v,v,…|k:v,…)`          tc: 0 1
Results:   value as above | `i<int>` | `k<sep>` | `b0`/`b1` | `err` | `panic`
-/
import RsassModel.ListFn.Model
namespace ListFn

def Sep.ch : Sep → Char
  | .space => 's' | .comma => 'c' | .slash => '/' | .undecided => 'u'

def Sep.ofCh : Char → Option Sep
  | 's' => some .space | 'c' => some .comma | '/' => some .slash | 'u' => some .undecided
  | _ => none

def joinWith (sep : String) : List String → String
  | [] => ""
  | [x] => x
  | x :: xs => x ++ sep ++ joinWith sep xs

mutual
def encVal : Val → String
  | .atom i c => "a" ++ toString i ++ "c" ++ toString c
  | .null => "n"
  | .list xs s b => "l" ++ String.singleton s.ch ++ (if b then "1" else "0") ++ "(" ++ encVals xs ++ ")"
  | .map ps => "m(" ++ encPairs ps ++ ")"
  | .arglist pos named tc => "g" ++ (if tc then "1" else "0") ++ "(" ++ encVals pos ++ "|" ++ encPairs named ++ ")"
def encVals : List Val → String
  | [] => ""
  | [x] => encVal x
  | x :: xs => encVal x ++ "," ++ encVals xs
def encPairs : List (Val × Val) → String
  | [] => ""
  | [(k, v)] => encVal k ++ ":" ++ encVal v
  | (k, v) :: xs => encVal k ++ ":" ++ encVal v ++ "," ++ encPairs xs
end

def encOut : Out → String
  | .val v => encVal v
  | .int n => "i" ++ toString n
  | .kw s => "k" ++ String.singleton s.ch
  | .bool b => if b then "b1" else "b0"
  | .err => "err"
  | .panic => "panic"

def pNat (cs : List Char) : Option (Nat × List Char) :=
  let ds := cs.takeWhile Char.isDigit
  if ds.isEmpty then none else some (ds.foldl (fun a c => a * 10 + (c.toNat - 48)) 0, cs.dropWhile Char.isDigit)

mutual
def pVal : Nat → List Char → Option (Val × List Char)
  | 0, _ => none
  | fuel + 1, cs =>
    match cs with
    | 'n' :: r => some (.null, r)
    | 'a' :: r =>
      match pNat r with
      | some (i, 'c' :: r2) =>
        match pNat r2 with
        | some (c, r3) => some (.atom i c, r3)
        | none => none
      | _ => none
    | 'l' :: s :: b :: '(' :: r =>
      match Sep.ofCh s, pVals fuel r with
      | some sep, some (xs, ')' :: r2) => some (.list xs sep (b == '1'), r2)
      | _, _ => none
    | 'm' :: '(' :: r =>
      match pPairs fuel r with
      | some (ps, ')' :: r2) => some (.map ps, r2)
      | _ => none
    | 'g' :: t :: '(' :: r =>
      match pVals fuel r with
      | some (pos, '|' :: r2) =>
        match pPairs fuel r2 with
        | some (ps, ')' :: r3) => some (.arglist pos ps (t == '1'), r3)
        | _ => none
      | _ => none
    | _ => none
def pVals : Nat → List Char → Option (List Val × List Char)
  | 0, _ => none
  | fuel + 1, cs =>
    match cs with
    | ')' :: _ => some ([], cs)
    | '|' :: _ => some ([], cs)
    | _ =>
      match pVal fuel cs with
      | some (v, ',' :: r) =>
        match pVals fuel r with
        | some (vs, r2) => some (v :: vs, r2)
        | none => none
      | some (v, r) => some ([v], r)
      | none => none
def pPairs : Nat → List Char → Option (List (Val × Val) × List Char)
  | 0, _ => none
  | fuel + 1, cs =>
    match cs with
    | ')' :: _ => some ([], cs)
    | _ =>
      match pVal fuel cs with
      | some (k, ':' :: r) =>
        match pVal fuel r with
        | some (v, ',' :: r2) =>
          match pPairs fuel r2 with
          | some (ps, r3) => some ((k, v) :: ps, r3)
          | none => none
        | some (v, r2) => some ([(k, v)], r2)
        | none => none
      | _ => none
end

def decVal (s : String) : Option Val :=
  let cs := s.toList
  match pVal (cs.length + 2) cs with
  | some (v, []) => some v
  | _ => none

def decInt (s : String) : Option Int :=
  match s.toList with
  | '-' :: r => match pNat r with
    | some (n, []) => some (-(n : Int))
    | _ => none
  | r => match pNat r with
    | some (n, []) => some (n : Int)
    | _ => none

def decIdx (s : String) : Option Idx :=
  if s == "bad" then some .bad else (decInt s).map .int

def decSepArg : String → Option SepArg
  | "auto" | "-" => some .auto
  | "space" => some .space
  | "comma" => some .comma
  | "slash" => some .slash
  | "bad" => some .bad
  | _ => none

def decBraArg : String → Option BraArg
  | "auto" | "-" => some .auto
  | "t" => some .truthy
  | "f" => some .falsy
  | _ => none

end ListFn
