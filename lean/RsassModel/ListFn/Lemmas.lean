/- Helper lemmas for the C28 theorems (index resolution, first-match search, zip). -/
import RsassModel.ListFn.Model
namespace ListFn

theorem indexOf_pos (n : Int) (len : Nat) (h1 : 1 ≤ n) (h2 : n ≤ len) :
    indexOf n len = some (n - 1).toNat := by
  unfold indexOf
  have : 0 < n ∧ n ≤ (len : Int) := ⟨by omega, h2⟩
  simp [this]

theorem indexOf_neg (n : Int) (len : Nat) (h1 : -(len : Int) ≤ n) (h2 : n ≤ -1) :
    indexOf n len = some ((len : Int) + n).toNat := by
  unfold indexOf
  have a : ¬ (0 < n ∧ n ≤ (len : Int)) := by omega
  have b : n < 0 ∧ n ≥ -(len : Int) := ⟨by omega, by omega⟩
  simp [a, b]

theorem indexOf_none (n : Int) (len : Nat) (h : n = 0 ∨ (len : Int) < n ∨ n < -(len : Int)) :
    indexOf n len = none := by
  unfold indexOf
  have a : ¬ (0 < n ∧ n ≤ (len : Int)) := by omega
  have b : ¬ (n < 0 ∧ n ≥ -(len : Int)) := by omega
  simp [a, b]

/-- every index `index_of` returns is in bounds -/
theorem indexOf_lt (n : Int) (len k : Nat) (h : indexOf n len = some k) : k < len := by
  unfold indexOf at h
  split at h
  · simp at h; omega
  · split at h
    · simp at h; omega
    · simp at h

theorem indexArg_lt (i : Idx) (len k : Nat) (h : indexArg i len = some k) : k < len := by
  cases i with
  | int n => exact indexOf_lt n len k h
  | bad => simp [indexArg] at h

/-- `findIdx` returns the first position (counted from `i`) whose element satisfies `p`. -/
theorem findIdx_some (p : Val → Bool) (l : List Val) (i r : Nat) (h : findIdx p l i = some r) :
    ∃ k e, r = i + k ∧ l[k]? = some e ∧ p e = true ∧
      ∀ j e', j < k → l[j]? = some e' → p e' = false := by
  induction l generalizing i with
  | nil => simp [findIdx] at h
  | cons x xs ih =>
    simp only [findIdx] at h
    split at h
    · next hp =>
      refine ⟨0, x, ?_, by simp, hp, ?_⟩
      · simp at h; omega
      · intro j e' hj; omega
    · next hp =>
      obtain ⟨k, e, hr, he, hpe, hmin⟩ := ih (i + 1) h
      refine ⟨k + 1, e, by omega, by simpa using he, hpe, ?_⟩
      intro j e' hj hje
      cases j with
      | zero => simp at hje; subst hje; simpa using hp
      | succ j => exact hmin j e' (by omega) (by simpa using hje)

theorem findIdx_none (p : Val → Bool) (l : List Val) (i : Nat) (h : findIdx p l i = none) :
    ∀ e, e ∈ l → p e = false := by
  induction l generalizing i with
  | nil => simp
  | cons x xs ih =>
    simp only [findIdx] at h
    split at h
    · simp at h
    · next hp =>
      intro e he
      cases he with
      | head => simpa using hp
      | tail _ he => exact ih (i + 1) h e he

theorem findIdx_congr (p q : Val → Bool) (l : List Val) (i : Nat)
    (h : ∀ e, e ∈ l → p e = q e) : findIdx p l i = findIdx q l i := by
  induction l generalizing i with
  | nil => rfl
  | cons x xs ih =>
    simp only [findIdx]
    rw [h x (by simp), ih (i + 1) (fun e he => h e (by simp [he]))]

theorem minLen_le (ls : List (List Val)) : ∀ l, l ∈ ls → minLen ls ≤ l.length := by
  induction ls with
  | nil => simp
  | cons a as ih =>
    intro l hl
    cases as with
    | nil => simp at hl; subst hl; simp [minLen]
    | cons b bs =>
      simp only [minLen]
      cases hl with
      | head => exact Nat.min_le_left _ _
      | tail _ hl => exact Nat.le_trans (Nat.min_le_right _ _) (ih l hl)

theorem minLen_attained (ls : List (List Val)) (h : ls ≠ []) : ∃ l, l ∈ ls ∧ minLen ls = l.length := by
  induction ls with
  | nil => exact absurd rfl h
  | cons a as ih =>
    cases as with
    | nil => exact ⟨a, by simp, by simp [minLen]⟩
    | cons b bs =>
      obtain ⟨l, hl, he⟩ := ih (by simp)
      simp only [minLen]
      by_cases hc : a.length ≤ minLen (b :: bs)
      · exact ⟨a, by simp, by rw [Nat.min_eq_left hc]⟩
      · refine ⟨l, by simp [hl], ?_⟩
        rw [Nat.min_eq_right (by omega)]; exact he

theorem findIdx_all_false (p : Val → Bool) (l : List Val) (i : Nat)
    (h : ∀ e, e ∈ l → p e = false) : findIdx p l i = none := by
  induction l generalizing i with
  | nil => rfl
  | cons x xs ih =>
    simp only [findIdx, h x (by simp), Bool.false_eq_true, if_false]
    exact ih (i + 1) (fun e he => h e (by simp [he]))

theorem veq_pair_two (k w a b : Val) :
    veq (pairV (k, w)) (.list [a, b] .space false) = (veq k a && veq w b) := by
  simp [pairV, veq, veqList]

theorem veq_pair_other (p : Val × Val) (x : Val)
    (h : ∀ a b, x ≠ .list [a, b] .space false) : veq (pairV p) x = false := by
  cases x with
  | list l s b =>
    match l, s, b with
    | [a, c], .space, false => exact absurd rfl (h a c)
    | [], _, _ => simp [pairV, veq, veqList]
    | [_], _, _ => simp [pairV, veq, veqList]
    | _ :: _ :: _ :: _, _, _ => simp [pairV, veq, veqList]
    | [_, _], .comma, _ => simp [pairV, veq]
    | [_, _], .slash, _ => simp [pairV, veq]
    | [_, _], .undecided, _ => simp [pairV, veq]
    | [_, _], .space, true => simp [pairV, veq]
  | map m => simp [pairV, veq]
  | atom _ _ => simp [pairV, veq]
  | null => simp [pairV, veq]
  | arglist _ _ _ => simp [pairV, veq]

theorem spec_none (m : List (Val × Val)) (x : Val) (h : ∀ a b, x ≠ .list [a, b] .space false) :
    findIdx (fun e => veq e x) (m.map pairV) 0 = none := by
  apply findIdx_all_false
  intro e he
  obtain ⟨p, _, rfl⟩ := List.mem_map.mp he
  exact veq_pair_other p x h

theorem index_map_asis (m : List (Val × Val)) (x : Val) (h : ∀ l s, x ≠ .list l s true) :
    index asis (.map m) x = index spec (.map m) x := by
  simp only [index, asis, spec, if_true, Bool.false_eq_true, if_false]
  cases x with
  | list l s b =>
    cases b with
    | true => exact absurd rfl (h l s)
    | false =>
      match l, s with
      | [a, c], .space =>
        simp only []
        congr 1
        apply findIdx_congr
        intro e he
        obtain ⟨p, _, rfl⟩ := List.mem_map.mp he
        obtain ⟨k, w⟩ := p
        rw [veq_pair_two]; rfl
      | [], s => rw [spec_none m _ (by intro a b h; cases h)]; rfl
      | [_], s => rw [spec_none m _ (by intro a b h; cases h)]; rfl
      | _ :: _ :: _ :: _, s => rw [spec_none m _ (by intro a b h; cases h)]; rfl
      | [_, _], .comma => rw [spec_none m _ (by intro a b h; cases h)]; rfl
      | [_, _], .slash => rw [spec_none m _ (by intro a b h; cases h)]; rfl
      | [_, _], .undecided => rw [spec_none m _ (by intro a b h; cases h)]; rfl
  | map _ => rw [spec_none m _ (by intro a b h; cases h)]; rfl
  | atom _ _ => rw [spec_none m _ (by intro a b h; cases h)]; rfl
  | null => rw [spec_none m _ (by intro a b h; cases h)]; rfl
  | arglist _ _ _ => rw [spec_none m _ (by intro a b h; cases h)]; rfl

/-- the separator rule of the statement: the explicit argument, else the first list that
has a (decided) separator, else space -/
def sepRule (explicit : Sep) (lists : List Sep) : Sep :=
  if explicit ≠ .undecided then explicit
  else match lists.find? (· ≠ .undecided) with
    | some s => s
    | none => .space

/-- when does the code's `index` take a deviating path: the list is an argument list, or
it is a map and the value is a bracketed list -/
def indexDeviates : Val → Val → Bool
  | .arglist _ _ _, _ => true
  | .map _, .list _ _ true => true
  | _, _ => false

/-- an argument list built by a call with a trailing comma -/
def hasTrailingComma : Val → Bool
  | .arglist _ _ true => true
  | _ => false

theorem iterItems_asis_eq (v : Val) (h : hasTrailingComma v = false) :
    iterItems asis v = iterItems spec v := by
  cases v with
  | arglist pos named tc =>
    cases tc with
    | true => simp [hasTrailingComma] at h
    | false => simp [iterItems]
  | _ => rfl

end ListFn
