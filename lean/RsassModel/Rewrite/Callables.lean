/- C35 — proof-side extension of the small language by function and mixin definitions and calls
(not used by the driver): consistent renaming of function / mixin names. -/
import RsassModel.Rewrite.Lemmas
namespace Rewrite

/-- association-list lookup by name -/
def assoc {β : Type} (l : List (Text × β)) (x : Text) : Option β := (l.find? fun p => p.1 = x).map (·.2)

def renKeys {β : Type} (ρ : Text → Text) (l : List (Text × β)) : List (Text × β) := l.map fun p => (ρ p.1, p.2)

theorem assoc_renKeys {β : Type} (ρ : Text → Text) (hρ : ∀ a b, ρ a = ρ b → a = b) (l : List (Text × β)) (x : Text) :
    assoc (renKeys ρ l) (ρ x) = assoc l x := by
  induction l with
  | nil => rfl
  | cons p ps ih =>
    simp only [assoc, renKeys, List.map_cons, List.find?_cons] at ih ⊢
    by_cases h : p.1 = x
    · simp [h]
    · have : ρ p.1 ≠ ρ x := fun e => h (hρ _ _ e)
      simp only [h, this, decide_false]
      exact ih

/-- expressions with calls of user functions `f(arg)`; a function is `@function f($param) { @return body }`
with `body` an expression of the base language over its parameter -/
inductive FExpr where
  | num (n : Int)
  | var (x : Text)
  | add (a b : FExpr)
  | mul (a b : FExpr)
  | call (f : Text) (arg : FExpr)

abbrev FunDefs := List (Text × (Text × Expr))

def evalF (defs : FunDefs) (env : Env) : FExpr → Option Val
  | .num n => some (.num n)
  | .var x => env.get x
  | .add a b =>
    match evalF defs env a, evalF defs env b with
    | some (.num x), some (.num y) => some (.num (x + y))
    | _, _ => none
  | .mul a b =>
    match evalF defs env a, evalF defs env b with
    | some (.num x), some (.num y) => some (.num (x * y))
    | _, _ => none
  | .call f arg =>
    match assoc defs f, evalF defs env arg with
    | some (param, body), some v => eval [(param, v)] body
    | _, _ => none

/-- renaming the *function* names in an expression -/
def FExpr.renameFn (ρ : Text → Text) : FExpr → FExpr
  | .num n => .num n
  | .var x => .var x
  | .add a b => .add (a.renameFn ρ) (b.renameFn ρ)
  | .mul a b => .mul (a.renameFn ρ) (b.renameFn ρ)
  | .call f arg => .call (ρ f) (arg.renameFn ρ)

theorem evalF_renameFn (ρ : Text → Text) (hρ : ∀ a b, ρ a = ρ b → a = b) (defs : FunDefs) (env : Env) (e : FExpr) :
    evalF (renKeys ρ defs) env (e.renameFn ρ) = evalF defs env e := by
  induction e with
  | num n => rfl
  | var x => rfl
  | add a b iha ihb | mul a b iha ihb => simp only [FExpr.renameFn, evalF, iha, ihb]
  | call f arg ih => simp only [FExpr.renameFn, evalF, assoc_renKeys ρ hρ, ih]

/-- statements with `@include name;` of a parameterless mixin whose body is a list of base statements -/
inductive MStmt where
  | plain (s : Stmt)
  | emitF (e : FExpr)
  | include_ (name : Text)

abbrev MixDefs := List (Text × List Stmt)

def execM (funs : FunDefs) (mixins : MixDefs) (s : State) : List MStmt → Option State
  | [] => some s
  | .plain st :: rest => (exec s [st]).bind fun s' => execM funs mixins s' rest
  | .emitF e :: rest =>
    match evalF funs s.env e with
    | none => none
    | some v => execM funs mixins { s with out := s.out ++ [v] } rest
  | .include_ n :: rest =>
    match assoc mixins n with
    | none => none
    | some body => (exec s body).bind fun s' => execM funs mixins s' rest

/-- renaming function names with `ρf` and mixin names with `ρm` in a statement -/
def MStmt.renameCallables (ρf ρm : Text → Text) : MStmt → MStmt
  | .plain s => .plain s
  | .emitF e => .emitF (e.renameFn ρf)
  | .include_ n => .include_ (ρm n)

theorem execM_rename (ρf ρm : Text → Text) (hf : ∀ a b, ρf a = ρf b → a = b) (hm : ∀ a b, ρm a = ρm b → a = b)
    (funs : FunDefs) (mixins : MixDefs) (p : List MStmt) (s : State) :
    execM (renKeys ρf funs) (renKeys ρm mixins) s (p.map (MStmt.renameCallables ρf ρm)) = execM funs mixins s p := by
  induction p generalizing s with
  | nil => rfl
  | cons st rest ih =>
    cases st with
    | plain t =>
      simp only [List.map_cons, MStmt.renameCallables, execM]
      cases exec s [t] with
      | none => rfl
      | some s' => exact ih s'
    | emitF e =>
      simp only [List.map_cons, MStmt.renameCallables, execM, evalF_renameFn ρf hf]
      cases evalF funs s.env e with
      | none => rfl
      | some v => exact ih _
    | include_ n =>
      simp only [List.map_cons, MStmt.renameCallables, execM, assoc_renKeys ρm hm]
      cases assoc mixins n with
      | none => rfl
      | some body =>
        simp only []
        cases exec s body with
        | none => rfl
        | some s' => exact ih s'

end Rewrite
