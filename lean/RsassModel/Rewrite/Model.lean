/-
C35 — the modelled pieces of "meaning-preserving rewrites":
  * `Name` normalisation of `-`/`_` (sass/name.rs),
  * the separator skipper `opt_spacelike` (parser/util.rs: `ignore_space` | `ignore_lcomment`),
  * a small expression/statement evaluator with variables, `@debug`/`@warn`
    (output/transform.rs: both only write to stderr) for the substitution and no-op lemmas.
-/
namespace Rewrite

abbrev Text := List Char

/-! ## sass/name.rs -/

/-- `Name::from(&str)`: `key.replace('-', "_")` -/
def nameKey (s : Text) : Text := s.map fun c => if c = '-' then '_' else c

/-- `Display for Name`: `key.replace('_', "-")` -/
def nameShow (s : Text) : Text := (nameKey s).map fun c => if c = '_' then '-' else c

/-- exchanging `-` and `_` in a spelling -/
def swapDash (s : Text) : Text := s.map fun c => if c = '-' then '_' else if c = '_' then '-' else c

/-- two spellings that differ only in `-` vs `_`, position by position -/
def sameUpToDash : Text → Text → Bool
  | [], [] => true
  | a :: as, b :: bs =>
    (a = b ∨ (a = '-' ∧ b = '_') ∨ (a = '_' ∧ b = '-')) ∧ sameUpToDash as bs
  | _, _ => false

/-! ## parser/util.rs `opt_spacelike` -/

/-- `multispace1` characters -/
def isWs (c : Char) : Bool := c = ' ' ∨ c = '\t' ∨ c = '\n' ∨ c = '\r'

/-- state of the skipper: between tokens, after one `/`, inside `//…` -/
inductive Mode where
  | normal | slash | comment

/-- `opt_spacelike`: `fold_many0(alt((ignore_space, ignore_lcomment)))` — what is left of the
input.  `ignore_lcomment` is `tag("//")` + `opt(is_not("\n"))`; the closing newline is consumed
as `ignore_space` by the next round of the loop.  A single `/` is not a separator. -/
def skipM : Mode → Text → Text
  | .normal, [] => []
  | .slash, [] => ['/']
  | .comment, [] => []
  | .normal, c :: rest =>
    if isWs c then skipM .normal rest else if c = '/' then skipM .slash rest else c :: rest
  | .slash, c :: rest => if c = '/' then skipM .comment rest else '/' :: c :: rest
  | .comment, c :: rest => if c = '\n' then skipM .normal rest else skipM .comment rest

def skip (t : Text) : Text := skipM .normal t
def skipLine (t : Text) : Text := skipM .comment t

/-- separators the rewriter inserts: blanks and silent comments (each closed by its newline) -/
inductive Sep : Text → Prop where
  | nil : Sep []
  | ws (c : Char) (s : Text) : isWs c = true → Sep s → Sep (c :: s)
  | comment (body s : Text) : (∀ c ∈ body, c ≠ '\n') → Sep s → Sep ('/' :: '/' :: body ++ '\n' :: s)

/-! ## a small evaluator -/

inductive Expr where
  | num (n : Int)
  | var (x : Text)
  | add (a b : Expr)
  | mul (a b : Expr)
  | pair (a b : Expr)      -- a two-element space list
deriving Repr

inductive Val where
  | num (n : Int)
  | pair (a b : Val)
deriving DecidableEq, Repr

abbrev Env := List (Text × Val)

def Env.get (env : Env) (x : Text) : Option Val := (env.find? fun p => p.1 = x).map (·.2)

def eval (env : Env) : Expr → Option Val
  | .num n => some (.num n)
  | .var x => env.get x
  | .add a b =>
    match eval env a, eval env b with
    | some (.num x), some (.num y) => some (.num (x + y))
    | _, _ => none
  | .mul a b =>
    match eval env a, eval env b with
    | some (.num x), some (.num y) => some (.num (x * y))
    | _, _ => none
  | .pair a b =>
    match eval env a, eval env b with
    | some x, some y => some (.pair x y)
    | _, _ => none

def Expr.fv : Expr → List Text
  | .num _ => []
  | .var x => [x]
  | .add a b | .mul a b | .pair a b => a.fv ++ b.fv

/-- an expression with one hole -/
inductive Ctx where
  | hole
  | addL (c : Ctx) (e : Expr) | addR (e : Expr) (c : Ctx)
  | mulL (c : Ctx) (e : Expr) | mulR (e : Expr) (c : Ctx)
  | pairL (c : Ctx) (e : Expr) | pairR (e : Expr) (c : Ctx)

def Ctx.plug : Ctx → Expr → Expr
  | .hole, e => e
  | .addL c r, e => .add (c.plug e) r
  | .addR l c, e => .add l (c.plug e)
  | .mulL c r, e => .mul (c.plug e) r
  | .mulR l c, e => .mul l (c.plug e)
  | .pairL c r, e => .pair (c.plug e) r
  | .pairR l c, e => .pair l (c.plug e)

def Ctx.fv : Ctx → List Text
  | .hole => []
  | .addL c e | .mulL c e | .pairL c e => c.fv ++ e.fv
  | .addR e c | .mulR e c | .pairR e c => e.fv ++ c.fv

/-- statements: `$x: e;`, a declaration `p: e;`, `@debug e;`, `@warn e;` -/
inductive Stmt where
  | assign (x : Text) (e : Expr)
  | emit (e : Expr)
  | debug (e : Expr)
  | warn (e : Expr)

structure State where
  env : Env
  out : List Val
deriving DecidableEq

/-- `Item::Debug` / `Item::Warn` evaluate their argument (an error there is an error) and write
to stderr only: environment and output are untouched -/
def exec (s : State) : List Stmt → Option State
  | [] => some s
  | .assign x e :: rest =>
    match eval s.env e with
    | none => none
    | some v => exec { s with env := (x, v) :: s.env } rest
  | .emit e :: rest =>
    match eval s.env e with
    | none => none
    | some v => exec { s with out := s.out ++ [v] } rest
  | .debug e :: rest | .warn e :: rest =>
    match eval s.env e with
    | none => none
    | some _ => exec s rest

def Stmt.isDiag : Stmt → Bool
  | .debug _ | .warn _ => true
  | _ => false

/-- the program without its `@debug`/`@warn` statements -/
def erase (p : List Stmt) : List Stmt := p.filter fun s => !s.isDiag

end Rewrite
