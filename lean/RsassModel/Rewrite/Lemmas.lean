/- C35 — definitions and lemmas for the renaming and import-inlining theorems (proof side only;
nothing here is used by the driver). -/
import RsassModel.Rewrite.Model
namespace Rewrite

/-! ## consistent renaming of variables -/

def Expr.rename (ρ : Text → Text) : Expr → Expr
  | .num n => .num n
  | .var x => .var (ρ x)
  | .add a b => .add (a.rename ρ) (b.rename ρ)
  | .mul a b => .mul (a.rename ρ) (b.rename ρ)
  | .pair a b => .pair (a.rename ρ) (b.rename ρ)

def Stmt.rename (ρ : Text → Text) : Stmt → Stmt
  | .assign x e => .assign (ρ x) (e.rename ρ)
  | .emit e => .emit (e.rename ρ)
  | .debug e => .debug (e.rename ρ)
  | .warn e => .warn (e.rename ρ)

def renEnv (ρ : Text → Text) (env : Env) : Env := env.map fun p => (ρ p.1, p.2)

def State.rename (ρ : Text → Text) (s : State) : State := ⟨renEnv ρ s.env, s.out⟩

theorem get_renEnv (ρ : Text → Text) (hρ : ∀ a b, ρ a = ρ b → a = b) (env : Env) (x : Text) :
    Env.get (renEnv ρ env) (ρ x) = Env.get env x := by
  induction env with
  | nil => rfl
  | cons p ps ih =>
    simp only [Env.get, renEnv, List.map_cons, List.find?_cons] at ih ⊢
    by_cases h : p.1 = x
    · simp [h]
    · have : ρ p.1 ≠ ρ x := fun e => h (hρ _ _ e)
      simp only [h, this, decide_false]
      exact ih

theorem eval_rename (ρ : Text → Text) (hρ : ∀ a b, ρ a = ρ b → a = b) (env : Env) (e : Expr) :
    eval (renEnv ρ env) (e.rename ρ) = eval env e := by
  induction e with
  | num n => rfl
  | var x => simp only [Expr.rename, eval]; exact get_renEnv ρ hρ env x
  | add a b iha ihb | mul a b iha ihb | pair a b iha ihb => simp only [Expr.rename, eval, iha, ihb]

theorem exec_rename (ρ : Text → Text) (hρ : ∀ a b, ρ a = ρ b → a = b) (p : List Stmt) (s : State) :
    exec (s.rename ρ) (p.map (Stmt.rename ρ)) = (exec s p).map (State.rename ρ) := by
  induction p generalizing s with
  | nil => rfl
  | cons st rest ih =>
    cases st with
    | assign x e =>
      simp only [List.map_cons, Stmt.rename, exec, State.rename, eval_rename ρ hρ]
      cases eval s.env e with
      | none => rfl
      | some v => exact ih ⟨(x, v) :: s.env, s.out⟩
    | emit e =>
      simp only [List.map_cons, Stmt.rename, exec, State.rename, eval_rename ρ hρ]
      cases eval s.env e with
      | none => rfl
      | some v => exact ih ⟨s.env, s.out ++ [v]⟩
    | debug e =>
      simp only [List.map_cons, Stmt.rename, exec, State.rename, eval_rename ρ hρ]
      cases eval s.env e with
      | none => rfl
      | some v => exact ih s
    | warn e =>
      simp only [List.map_cons, Stmt.rename, exec, State.rename, eval_rename ρ hρ]
      cases eval s.env e with
      | none => rfl
      | some v => exact ih s

/-! ## @import of a partial -/

theorem exec_append (s : State) (a b : List Stmt) :
    exec s (a ++ b) = (exec s a).bind fun s' => exec s' b := by
  induction a generalizing s with
  | nil => rfl
  | cons st rest ih =>
    cases st <;> simp only [List.cons_append, exec] <;> cases eval s.env _ <;> simp [ih]

/-- a top-level statement: a plain one, or `@import "partial"` of a file holding `frag` -/
inductive TStmt where
  | plain (s : Stmt)
  | imp (frag : List Stmt)

/-- `Item::Import` as specified: the items of the imported file run in the importing scope, in
place, writing to the same output -/
def execT (s : State) : List TStmt → Option State
  | [] => some s
  | .plain st :: rest => (exec s [st]).bind fun s' => execT s' rest
  | .imp frag :: rest => (exec s frag).bind fun s' => execT s' rest

/-- the program with every partial written out in place -/
def inlineImports : List TStmt → List Stmt
  | [] => []
  | .plain st :: rest => st :: inlineImports rest
  | .imp frag :: rest => frag ++ inlineImports rest

end Rewrite
