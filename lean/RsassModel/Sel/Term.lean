/-
Reader for selector *terms* (driver side only; nothing here is used by theorems).

The Python generators (props/_sel.py) print one AST object twice: as SCSS text for rsass and
as a space-separated prefix term for the Lean drivers.  Strings are `x` + hex(UTF-8).

  selset   := "L" n sel^n
  sel      := "S" compound | "R" k sel compound          k ∈ a p s j (ancestor parent sibling adjacent)
  compound := "C" b elem n ph^n n cl^n id n attr^n n pseudo^n      b ∈ 0 1; elem,id := "-" | str
  attr     := "A" name op val q m                         q ∈ n d s; m := "-" | str(1 char)
  pseudo   := "P" name el arg                             el ∈ 0 1
  arg      := "N" | "O" str | selset
  item     := "D" name | "U" selset n item^n | "T" selset n item^n     (rule / @at-root rule)
-/
import RsassModel.Basic.Proto
import RsassModel.Sel.Syntax

namespace Sel.Term

abbrev Toks := List String
abbrev P (α : Type) := Toks → Option (α × Toks)

def str : P (List Char)
  | t :: rest =>
    match t.toList with
    | 'x' :: h => some ((Proto.stringOfHex (String.ofList h)).toList, rest)
    | _ => none
  | [] => none

def optStr : P (Option (List Char))
  | "-" :: rest => some (none, rest)
  | ts => match str ts with | some (s, r) => some (some s, r) | none => none

def nat : P Nat
  | t :: rest => match t.toNat? with | some n => some (n, rest) | none => none
  | [] => none

def bool : P Bool
  | "0" :: rest => some (false, rest)
  | "1" :: rest => some (true, rest)
  | _ => none

partial def many {α : Type} (p : P α) : Nat → P (List α)
  | 0, ts => some ([], ts)
  | n + 1, ts =>
    match p ts with
    | some (a, r) => match many p n r with | some (as, r') => some (a :: as, r') | none => none
    | none => none

def counted {α : Type} (p : P α) : P (List α) := fun ts =>
  match nat ts with
  | some (n, r) => many p n r
  | none => none

def attr : P Attr
  | "A" :: ts =>
    match str ts with
    | some (name, r1) =>
      match str r1 with
      | some (op, r2) =>
        match str r2 with
        | some (val, q :: r3) =>
          let quotes := if q = "d" then Quote.dbl else if q = "s" then Quote.sgl else Quote.none
          match optStr r3 with
          | some (m, r4) => some (⟨name, op, val, quotes, m.bind List.head?⟩, r4)
          | none => none
        | _ => none
      | none => none
    | none => none
  | _ => none

def relOf : String → Option Rel
  | "a" => some .ancestor
  | "p" => some .parent
  | "s" => some .sibling
  | "j" => some .adjacent
  | _ => none

mutual
  partial def sel : P Selector
    | "S" :: ts => match compound ts with | some (c, r) => some (.leaf c, r) | none => none
    | "R" :: k :: ts =>
      match relOf k, sel ts with
      | some k, some (s, r) => match compound r with | some (c, r') => some (.rel k s c, r') | none => none
      | _, _ => none
    | _ => none
  partial def compound : P Compound
    | "C" :: ts =>
      match bool ts with
      | some (b, r0) =>
        match optStr r0 with
        | some (e, r1) =>
          match counted str r1 with
          | some (ph, r2) =>
            match counted str r2 with
            | some (cl, r3) =>
              match optStr r3 with
              | some (i, r4) =>
                match counted attr r4 with
                | some (at_, r5) =>
                  match counted pseudo r5 with
                  | some (ps, r6) => some (.mk b e ph cl i at_ ps, r6)
                  | none => none
                | none => none
              | none => none
            | none => none
          | none => none
        | none => none
      | none => none
    | _ => none
  partial def pseudo : P Pseudo
    | "P" :: ts =>
      match str ts with
      | some (n, r1) =>
        match bool r1 with
        | some (el, r2) =>
          match r2 with
          | "N" :: r3 => some (.mk n .none el, r3)
          | "O" :: r3 => match str r3 with | some (s, r4) => some (.mk n (.other s) el, r4) | none => none
          | "L" :: r3 => match counted sel r3 with | some (s, r4) => some (.mk n (.sel s) el, r4) | none => none
          | _ => none
        | none => none
      | none => none
    | _ => none
end

def selset : P SelSet
  | "L" :: ts => counted sel ts
  | _ => none

/-- a whole field holding one term -/
def parseAll {α : Type} (p : P α) (field : String) : Option α :=
  match p ((field.splitOn " ").filter (· ≠ "")) with
  | some (a, []) => some a
  | _ => none

end Sel.Term
