/-
Helper lemmas for Theorems/C19.lean, part 3: `Selector::nest` keeps selectors free of `&`;
the suffix theorem for parents ending in a placeholder or an argument-less pseudo-class.
-/
import RsassModel.Sel.NestLemmas2

namespace Sel

theorem Selector.nest_hasBackref (o : Selector) (ho : o.hasBackref = false) :
    ∀ i : Selector, i.hasBackref = false → (o.nest i).hasBackref = false
  | .leaf c, hi => by
    simp only [Selector.hasBackref] at hi
    simp only [Selector.nest]
    split
    · simpa [Selector.hasBackref] using hi
    · simp [Selector.hasBackref, hi, ho]
  | .rel kind r c, hi => by
    simp only [Selector.hasBackref, Bool.or_eq_false_iff] at hi
    have ih := Selector.nest_hasBackref o ho r hi.2
    simp only [Selector.nest]
    split
    · simp [Selector.hasBackref, hi.1, hi.2]
    · split
      · cases hr : o.nest r with
        | leaf c2 => simp [Selector.hasBackref, hi.1]
        | rel k2 rr c2 =>
          rw [hr] at ih
          simp only [Selector.hasBackref, Bool.or_eq_false_iff] at ih
          cases k2 <;> simp [Selector.hasBackref, hi.1, ih.2, Compound.empty, Compound.hasBackref_mk, Pseudo.hasBackrefList]
      · simp [Selector.hasBackref, hi.1, ih]

theorem nestRow_hasBackref (q : NestQuirks) (self backref : SelSet)
    (hs : ∀ s ∈ self, s.hasBackref = false) (hb : ∀ s ∈ backref, s.hasBackref = false) (o : Selector) :
    ∀ r ∈ nestRow q self backref o, r.hasBackref = false := by
  intro r hr
  simp only [nestRow] at hr
  split at hr
  · exact Selector.resolveRef_noBackref q backref hb o r hr
  · rename_i hob
    obtain ⟨s, hsm, rfl⟩ := List.mem_map.mp hr
    exact Selector.nest_hasBackref s (hs s hsm) o (by simpa using hob)

end Sel

namespace Sel

theorem printPlaceholders_appendToLast (p : List (List Char)) (sfx : List Char) (hne : p ≠ []) :
    printPlaceholders (appendToLast p sfx) = printPlaceholders p ++ sfx := by
  have hrev : p = p.dropLast ++ [p.getLast hne] := (List.dropLast_concat_getLast hne).symm
  have : appendToLast p sfx = p.dropLast ++ [p.getLast hne ++ sfx] := by
    unfold appendToLast
    conv => lhs; rw [hrev]
    simp
  rw [this, printPlaceholders_append]
  conv => rhs; rw [hrev, printPlaceholders_append]
  simp [printPlaceholders]

/-- `&sfx` against an outer compound that ends in a placeholder (no id, class, attribute, pseudo) -/
theorem Compound.print_append_suffix_placeholder (cm : Bool) (e : Option (List Char)) (p : List (List Char))
    (sfx : List Char) (hne : p ≠ []) :
    ∀ k, ∃ ap, Compound.appendWith k (.mk false e p [] none [] []) (.mk false (some sfx) [] [] none [] []) = some ap ∧
      Compound.print cm ap = Compound.print cm (.mk false e p [] none [] []) ++ sfx := by
  intro k
  have hp : p.isEmpty = false := by cases p <;> simp_all
  have h2 := appendToLast_isEmpty p sfx hne
  have h3 := printPlaceholders_appendToLast p sfx hne
  cases e with
  | none =>
    refine ⟨_, by simp [Compound.appendWith, Compound.mergeInto, mergeId, Compound.elem, Compound.appendSuffix, hp]; rfl, ?_⟩
    simp [Compound.print, h3, printClasses, printAttrs, Pseudo.printList]
  | some e =>
    by_cases hs : elemShown e p [] none 0 = true
    · refine ⟨_, by simp [Compound.appendWith, Compound.mergeInto, mergeId, Compound.elem, Compound.appendSuffix, hp, hs]; rfl, ?_⟩
      have hs' : elemShown e (appendToLast p sfx ++ []) [] none 0 = true := by
        simp [elemShown, hp, h2] at hs ⊢; exact hs
      simp [Compound.print, h3, printClasses, printAttrs, Pseudo.printList, hs] at hs' ⊢
      simp [hs']
    · have hs0 : elemShown e p [] none 0 = false := by simpa using hs
      refine ⟨_, by simp [Compound.appendWith, Compound.mergeInto, mergeId, Compound.elem, Compound.appendSuffix, hp, hs0]; rfl, ?_⟩
      simp [Compound.print, h3, printClasses, printAttrs, Pseudo.printList, hs0]

end Sel

namespace Sel

theorem Pseudo.print_noarg_suffix (cm : Bool) (n sfx : List Char) (el : Bool) :
    Pseudo.print cm (.mk (n ++ sfx) .none el) = Pseudo.print cm (.mk n .none el) ++ sfx := by
  simp [Pseudo.print, PArg.print, replaceFirstSpPlusSp]

/-- `&sfx` against an outer compound whose last simple selector is a pseudo-class without argument -/
theorem Compound.print_append_suffix_pseudo (cm : Bool) (e : Option (List Char)) (p c : List (List Char))
    (i : Option (List Char)) (ats : List Attr) (pre : List Pseudo) (n sfx : List Char) (el : Bool) :
    ∀ k, ∃ ap, Compound.appendWith k (.mk false e p c i ats (pre ++ [.mk n .none el]))
        (.mk false (some sfx) [] [] none [] []) = some ap ∧
      Compound.print cm ap = Compound.print cm (.mk false e p c i ats (pre ++ [.mk n .none el])) ++ sfx := by
  intro k
  cases e with
  | none =>
    refine ⟨_, by simp [Compound.appendWith, Compound.mergeInto, mergeId, Compound.elem, Compound.appendSuffix]; rfl, ?_⟩
    simp [Compound.print, Pseudo.printList_append, Pseudo.printList, Pseudo.print_noarg_suffix]
  | some e =>
    by_cases hs : elemShown e p c i (pre.length + 1) = true
    · refine ⟨_, by simp [Compound.appendWith, Compound.mergeInto, mergeId, Compound.elem, Compound.appendSuffix, hs]; rfl, ?_⟩
      simp [Compound.print, Pseudo.printList_append, Pseudo.printList, Pseudo.print_noarg_suffix, hs]
    · have hs0 : elemShown e p c i (pre.length + 1) = false := by simpa using hs
      refine ⟨_, by simp [Compound.appendWith, Compound.mergeInto, mergeId, Compound.elem, Compound.appendSuffix, hs0]; rfl, ?_⟩
      simp [Compound.print, Pseudo.printList_append, Pseudo.printList, Pseudo.print_noarg_suffix, hs0]

end Sel
