/-
Placeholder removal (C22), namespace `Sel`.  Mirrors

  css/selectors/opt.rs          enum Opt, collect_pos, collect_neg, map
  css/selectors/selectorset.rs  SelectorSet::no_placeholder, no_leading_combinator
  css/selectors/selector.rs     Selector::no_placeholder, no_leading_combinator,
                                has_leading_combinator
  css/selectors/compound.rs     CompoundSelector::no_placeholder
  css/selectors/pseudo.rs       Pseudo::no_placeholder
  css/rule.rs                   Rule::write (skip on Opt::None, `*` when nothing is written)

Import-free apart from the AST and the printer.
-/
import RsassModel.Sel.Syntax
import RsassModel.Sel.Print

namespace Sel

/-- opt.rs `enum Opt<T>`: `any` = matches anything, `none` = matches nothing. -/
inductive Opt (α : Type) where
  | some (a : α)
  | any
  | none
  deriving Repr

/-- opt.rs `Opt::collect_pos`: first `Any` wins, `None`s are skipped, empty ⇒ `None`. -/
def collectPosAux {α : Type} : List (Opt α) → List α → Opt (List α)
  | [], acc => if acc.isEmpty then .none else .some acc.reverse
  | .some a :: rest, acc => collectPosAux rest (a :: acc)
  | .any :: _, _ => .any
  | .none :: rest, acc => collectPosAux rest acc

def Opt.collectPos {α : Type} (l : List (Opt α)) : Opt (List α) := collectPosAux l []

/-- opt.rs `Opt::collect_neg`: first `None` wins, `Any`s are skipped, empty ⇒ `Any`. -/
def collectNegAux {α : Type} : List (Opt α) → List α → Opt (List α)
  | [], acc => if acc.isEmpty then .any else .some acc.reverse
  | .some a :: rest, acc => collectNegAux rest (a :: acc)
  | .any :: rest, acc => collectNegAux rest acc
  | .none :: _, _ => .none

def Opt.collectNeg {α : Type} (l : List (Opt α)) : Opt (List α) := collectNegAux l []

/-- selector.rs `Selector::has_leading_combinator` -/
def Selector.hasLeadingCombinator : Selector → Bool
  | .leaf _ => false
  | .rel _ r _ =>
    match r with
    | .leaf c => c.isEmpty
    | .rel _ _ _ => Selector.hasLeadingCombinator r

/-- selector.rs `Selector::no_leading_combinator` -/
def Selector.noLeadingCombinator (s : Selector) : Opt Selector :=
  if s.hasLeadingCombinator then .none else .some s

/-- selectorset.rs `SelectorSet::no_leading_combinator` -/
def SelSet.noLeadingCombinator (s : SelSet) : Opt SelSet :=
  Opt.collectPos (s.map Selector.noLeadingCombinator)

/-- Deviation flags of the placeholder filter; `phSpec` = all off.  The deviation was repaired
in /repo (27c3ca1): the code today is `phSpec` = `phAsis`; `phOld` is the code before. -/
structure PhQuirks where
  /-- compound.rs `no_placeholder`: when dropping `:not(%p)` leaves a compound without any
  simple selector, the old code kept the empty compound (`a :not(%p)` is written `a `, which
  selects `a`); selector semantics require the universal selector (`a *`). -/
  notLeavesEmptyCompound : Bool := false
  deriving Repr, DecidableEq

def phSpec : PhQuirks := {}
/-- the code as it is today -/
def phAsis : PhQuirks := {}
/-- the code before 27c3ca1 -/
def phOld : PhQuirks := { notLeavesEmptyCompound := true }

/-- what a compound that lost all its simple selectors stands for -/
def Compound.orUniversal (q : PhQuirks) (c : Compound) : Compound :=
  if !q.notLeavesEmptyCompound && c.isEmpty then c.setElem (some ['*']) else c

mutual
  /-- selector.rs `Selector::no_placeholder` -/
  def Selector.noPlaceholder (q : PhQuirks) : Selector → Opt Selector
    | .leaf c =>
      match Compound.noPlaceholder q c with
      | .some c' => .some (.leaf c')
      | .any => .some (.leaf Compound.empty)
      | .none => .none
    | .rel k r c =>
      match Compound.noPlaceholder q c with
      | .none => .none
      | oc =>
        -- `if self.is_local_empty() && self.rel_of.is_some()` ("Deprecated dobule empty relation")
        if c.isEmpty then .none
        else
          let c' := match oc with | .some c' => c' | _ => Compound.empty
          match Selector.noPlaceholder q r with
          | .some r' => .some (.rel k r' c')
          | .any => .some (.leaf c')
          | .none => .none
  /-- compound.rs `CompoundSelector::no_placeholder` -/
  def Compound.noPlaceholder (q : PhQuirks) : Compound → Opt Compound
    | .mk b e p c i a ps =>
      if !p.isEmpty then .none
      else
        match collectNegAux (Pseudo.noPlaceholderList q ps) [] with
        | .some ps' => .some (.mk b e p c i a ps')
        | .any => .some (if ps.isEmpty then .mk b e p c i a [] else Compound.orUniversal q (.mk b e p c i a []))
        | .none => .none
  /-- pseudo.rs `Pseudo::no_placeholder` -/
  def Pseudo.noPlaceholder (q : PhQuirks) : Pseudo → Opt Pseudo
    | .mk n a e =>
      match a with
      | .sel s =>
        match collectPosAux (Selector.noPlaceholderList q s) [], nameIn n [['n', 'o', 't']] with
        | .some t, _ =>
          if nameIn n [['i', 's']] then
            match collectPosAux (t.map Selector.noLeadingCombinator) [] with
            | .some t' => .some (.mk n (.sel t') e)
            | .any => .any
            | .none => .none
          else .some (.mk n (.sel t) e)
        | .any, false => .any
        | .none, true => .any
        | .none, false => .none
        | .any, true => .none
      | .other s => .some (.mk n (.other s) e)
      | .none => .some (.mk n .none e)
  def Pseudo.noPlaceholderList (q : PhQuirks) : List Pseudo → List (Opt Pseudo)
    | [] => []
    | p :: ps => Pseudo.noPlaceholder q p :: Pseudo.noPlaceholderList q ps
  def Selector.noPlaceholderList (q : PhQuirks) : List Selector → List (Opt Selector)
    | [] => []
    | s :: ss => Selector.noPlaceholder q s :: Selector.noPlaceholderList q ss
end

mutual
  /-- no placeholder anywhere (also not inside pseudo-class arguments), no empty compound right
  of a combinator, pseudo-class argument lists non-empty and without leading combinators: the
  selectors the filter must leave untouched -/
  def Selector.phFree : Selector → Bool
    | .leaf c => Compound.phFree c
    | .rel _ r c => Compound.phFree c && !c.isEmpty && Selector.phFree r
  def Compound.phFree : Compound → Bool
    | .mk _ _ p _ _ _ ps => p.isEmpty && Pseudo.phFreeList ps
  def Pseudo.phFree : Pseudo → Bool
    | .mk _ a _ => PArg.phFree a
  def PArg.phFree : PArg → Bool
    | .sel s => !s.isEmpty && Selector.phFreeList s
    | _ => true
  def Pseudo.phFreeList : List Pseudo → Bool
    | [] => true
    | p :: ps => Pseudo.phFree p && Pseudo.phFreeList ps
  def Selector.phFreeList : List Selector → Bool
    | [] => true
    | s :: ss => Selector.phFree s && !s.hasLeadingCombinator && Selector.phFreeList ss
end

mutual
  /-- a placeholder occurs somewhere in the selector — in a compound or, at any depth, inside the
  selector argument of ANY pseudo-class or pseudo-element, whatever its name -/
  def Selector.hasPh : Selector → Bool
    | .leaf c => Compound.hasPh c
    | .rel _ r c => Compound.hasPh c || Selector.hasPh r
  def Compound.hasPh : Compound → Bool
    | .mk _ _ p _ _ _ ps => !p.isEmpty || Pseudo.hasPhList ps
  def Pseudo.hasPh : Pseudo → Bool
    | .mk _ a _ => PArg.hasPh a
  def PArg.hasPh : PArg → Bool
    | .sel s => Selector.hasPhList s
    | _ => false
  def Pseudo.hasPhList : List Pseudo → Bool
    | [] => false
    | p :: ps => Pseudo.hasPh p || Pseudo.hasPhList ps
  def Selector.hasPhList : List Selector → Bool
    | [] => false
    | s :: ss => Selector.hasPh s || Selector.hasPhList ss
end

/-- selectorset.rs `SelectorSet::no_placeholder` -/
def SelSet.noPlaceholder (q : PhQuirks) (s : SelSet) : Opt SelSet :=
  Opt.collectPos (Selector.noPlaceholderList q s)

/-- css/rule.rs `Rule::write`, selector part: `none` = rule not emitted; otherwise the header
text (a header that prints as nothing is written as `*`).  `hasBody` = `!self.body.is_empty()`. -/
def ruleHeaderQ (q : PhQuirks) (compressed : Bool) (hasBody : Bool) (s : SelSet) : Option (List Char) :=
  if !hasBody then none
  else
    match SelSet.noPlaceholder q s with
    | .none => none
    | .some t => let txt := SelSet.print compressed t; some (if txt.isEmpty then ['*'] else txt)
    | .any => some ['*']

/-- the code as it is -/
def ruleHeader (compressed : Bool) (hasBody : Bool) (s : SelSet) : Option (List Char) :=
  ruleHeaderQ phAsis compressed hasBody s

end Sel
