/-
C23 lemmas that tie the knot (namespace `Sel`): nesting depth, `superN` is reflexive (deep
enough), transitive and stable once the fuel exceeds the depth; compounds that gain simple
selectors; selectors without backslash escapes in attribute values (`plain`), on which the
code as it is agrees with the specification model.
-/
import RsassModel.Sel.SuperChain

namespace Sel

/-! ### depth -/

theorem Selector.depth_le_of_mem : ∀ (A : List Selector) (a : Selector), a ∈ A →
    a.depth ≤ Selector.depthList A
  | [], _, h => by simp at h
  | s :: ss, a, h => by
    simp only [Selector.depthList]
    rcases List.mem_cons.1 h with h | h
    · subst h; exact Nat.le_max_left _ _
    · exact Nat.le_trans (Selector.depth_le_of_mem ss a h) (Nat.le_max_right _ _)

theorem Pseudo.depth_le_of_mem : ∀ (ps : List Pseudo) (p : Pseudo), p ∈ ps →
    p.depth ≤ Pseudo.depthList ps
  | [], _, h => by simp at h
  | s :: ss, a, h => by
    simp only [Pseudo.depthList]
    rcases List.mem_cons.1 h with h | h
    · subst h; exact Nat.le_max_left _ _
    · exact Nat.le_trans (Pseudo.depth_le_of_mem ss a h) (Nat.le_max_right _ _)

theorem Compound.depth_le_of_mem : ∀ (a : Selector) (x : Compound), x ∈ a.compounds →
    x.depth ≤ a.depth
  | .leaf c, x, h => by
    simp only [Selector.compounds, List.mem_singleton] at h
    subst h; simp [Selector.depth]
  | .rel k s c, x, h => by
    simp only [Selector.compounds, List.mem_cons] at h
    simp only [Selector.depth]
    rcases h with h | h
    · subst h; exact Nat.le_max_right _ _
    · exact Nat.le_trans (Compound.depth_le_of_mem s x h) (Nat.le_max_left _ _)

theorem Compound.pseudo_depth_le (c : Compound) (p : Pseudo) (h : p ∈ c.pseudos) :
    p.depth ≤ c.depth := by
  cases c with
  | mk b e pl cl i a ps =>
    simp only [Compound.pseudos] at h
    simp only [Compound.depth]
    exact Pseudo.depth_le_of_mem ps p h

theorem Pseudo.arg_depth (p : Pseudo) (X : SelSet) (h : p.arg = .sel X) :
    Selector.depthList X + 1 = p.depth := by
  cases p with
  | mk n a e =>
    simp only [Pseudo.arg] at h
    subst h
    simp [Pseudo.depth, PArg.depth]

/-- an argument list of a pseudo of a compound of `x` is strictly shallower than `x` -/
theorem arg_depth_lt {x : Selector} {cx : Compound} {p : Pseudo} {X : SelSet}
    (hc : cx ∈ x.compounds) (hp : p ∈ cx.pseudos) (ha : p.arg = .sel X) :
    Selector.depthList X < x.depth := by
  have h1 := Compound.depth_le_of_mem x cx hc
  have h2 := Compound.pseudo_depth_le cx p hp
  have h3 := Pseudo.arg_depth p X ha
  omega

/-! ### selector lists -/

theorem setSuperW_iff {S : Selector → Selector → Bool} {A B : SelSet} :
    setSuperW S A B = true ↔ ∀ b ∈ B, ∃ a ∈ A, S a b = true := by
  simp [setSuperW]

theorem setSuperW_congr {S S' : Selector → Selector → Bool} {A B : SelSet}
    (h : ∀ a ∈ A, ∀ b ∈ B, S a b = S' a b) : setSuperW S A B = setSuperW S' A B := by
  rw [Bool.eq_iff_iff, setSuperW_iff, setSuperW_iff]
  constructor
  · intro H b hb
    obtain ⟨a, ha, hab⟩ := H b hb
    exact ⟨a, ha, by rw [← h a ha b hb]; exact hab⟩
  · intro H b hb
    obtain ⟨a, ha, hab⟩ := H b hb
    exact ⟨a, ha, by rw [h a ha b hb]; exact hab⟩

/-! ### congruence in the argument relation, by depth -/

theorem isSuperW_congr_depth (q : SuperQuirks) {R R' : SelSet → SelSet → Bool} {d : Nat}
    (h : ∀ X Y, (Selector.depthList X < d ∨ Selector.depthList Y < d) → R X Y = R' X Y)
    (x y : Selector) (hd : x.depth ≤ d ∨ y.depth ≤ d) :
    Selector.isSuperW q R x y = Selector.isSuperW q R' x y := by
  unfold Selector.isSuperW
  apply isSuperC_congr
  intro cx hcx cy hcy
  unfold Compound.isSuperW
  apply Compound.isSuperG_congr (fun _ _ _ _ => rfl)
  intro p hp p' hp'
  apply Pseudo.isSuperW_congr
  intro X Y hX hY
  have hx := arg_depth_lt hcx hp hX
  have hy := arg_depth_lt hcy hp' hY
  have : Selector.depthList X < d ∨ Selector.depthList Y < d := by
    rcases hd with hd | hd
    · left; omega
    · right; omega
  exact ⟨h X Y this, h Y X this.symm⟩

/-- once the fuel exceeds the depth of either side, more fuel changes nothing -/
theorem superN_stable (q : SuperQuirks) : ∀ (N M : Nat) (X Y : SelSet), N ≤ M →
    (Selector.depthList X < N ∨ Selector.depthList Y < N) → superN q N X Y = superN q M X Y
  | 0, _, _, _, _, h => by simp at h
  | N + 1, 0, _, _, hle, _ => by omega
  | N + 1, M + 1, X, Y, hle, h => by
    simp only [superN]
    apply setSuperW_congr
    intro x hx y hy
    apply isSuperW_congr_depth q (d := N)
    · intro X' Y' h'
      exact superN_stable q N M X' Y' (by omega) h'
    · have h1 := Selector.depth_le_of_mem X x hx
      have h2 := Selector.depth_le_of_mem Y y hy
      rcases h with h | h
      · left; omega
      · right; omega

theorem isSuper_eq_superN (q : SuperQuirks) (A B : SelSet) (n : Nat)
    (h : Selector.depthList A < n) : SelSet.isSuper q A B = superN q n A B :=
  superN_stable q _ n A B (by omega) (Or.inl (by omega))

/-! ### reflexivity -/

theorem compound_refl_depth (q : SuperQuirks) (n : Nat)
    (ih : ∀ X : SelSet, Selector.depthList X < n → superN q n X X = true)
    (c : Compound) (hc : c.depth ≤ n) : Compound.isSuperW q (superN q n) c c = true := by
  unfold Compound.isSuperW
  apply Compound.isSuperG_refl (fun a _ => Attr.isSuper_refl q a)
  intro p hp
  apply Pseudo.isSuperW_refl
  intro X hX
  apply ih
  have h2 := Compound.pseudo_depth_le c p hp
  have h3 := Pseudo.arg_depth p X hX
  omega

theorem superN_refl (q : SuperQuirks) : ∀ (n : Nat) (A : SelSet), Selector.depthList A < n →
    superN q n A A = true
  | 0, _, h => by simp at h
  | n + 1, A, h => by
    simp only [superN]
    rw [setSuperW_iff]
    intro a ha
    refine ⟨a, ha, ?_⟩
    unfold Selector.isSuperW
    apply isSuperC_refl
    intro x hx
    apply compound_refl_depth q n (superN_refl q n)
    have h1 := Selector.depth_le_of_mem A a ha
    have h2 := Compound.depth_le_of_mem a x hx
    omega

/-- every compound of `a` is above itself when the fuel covers `a`'s depth -/
theorem compounds_refl (q : SuperQuirks) (n : Nat) (a : Selector) (h : a.depth ≤ n) :
    ∀ x ∈ a.compounds, Compound.isSuperW q (superN q n) x x = true := by
  intro x hx
  apply compound_refl_depth q n (superN_refl q n)
  have h2 := Compound.depth_le_of_mem a x hx
  omega

/-! ### transitivity -/

theorem superN_trans (q : SuperQuirks)
    (hA : ∀ a b c, Attr.isSuper q a b = true → Attr.isSuper q b c = true → Attr.isSuper q a c = true) :
    ∀ n, RTrans (superN q n)
  | 0 => by intro X Y Z h; simp [superN] at h
  | n + 1 => by
    intro X Y Z h1 h2
    simp only [superN] at *
    rw [setSuperW_iff] at *
    intro z hz
    obtain ⟨y, hy, hyz⟩ := h2 z hz
    obtain ⟨x, hx, hxy⟩ := h1 y hy
    refine ⟨x, hx, ?_⟩
    unfold Selector.isSuperW at *
    exact isSuperC_trans _ _ x y z
      (fun _ _ _ _ _ _ => Compound.isSuperG_trans hA (superN_trans q hA n)) hxy hyz

/-! ### compounds that gain simple selectors -/

/-- `c'` carries every simple selector of `c` (and possibly more), and no new pseudo-element:
what "adding simple selectors to a compound" produces. -/
structure Compound.Extends (c c' : Compound) : Prop where
  elem : c.elem = none ∨ c'.elem = c.elem
  placeholders : ∀ x ∈ c.placeholders, x ∈ c'.placeholders
  classes : ∀ x ∈ c.classes, x ∈ c'.classes
  id : c.id = none ∨ c'.id = c.id
  attrs : ∀ x ∈ c.attrs, x ∈ c'.attrs
  pseudos : ∀ x ∈ c.pseudos, x ∈ c'.pseudos
  pe : c'.pseudoElement = c.pseudoElement

theorem allAny_of_subset {α : Type} {f : α → α → Bool} {xs ys : List α}
    (hr : ∀ a ∈ xs, f a a = true) (h : ∀ a ∈ xs, a ∈ ys) : allAny f xs ys = true :=
  allAny_iff.2 fun a ha => ⟨a, h a ha, hr a ha⟩

theorem Compound.isSuperG_of_extends {A : Attr → Attr → Bool} {R : SelSet → SelSet → Bool}
    {c c' : Compound} (h : Compound.Extends c c') (hA : ∀ a ∈ c.attrs, A a a = true)
    (hP : ∀ p ∈ c.pseudos, Pseudo.isSuperW R p p = true) : Compound.isSuperG A R c c' = true := by
  simp only [Compound.isSuperG, Bool.and_eq_true]
  refine ⟨⟨⟨⟨⟨⟨?_, allAny_of_subset (fun _ _ => by simp) h.placeholders⟩,
    allAny_of_subset (fun _ _ => by simp) h.classes⟩, ?_⟩, allAny_of_subset hA h.attrs⟩,
    allAny_of_subset hP h.pseudos⟩, ?_⟩
  · rcases h.elem with he | he
    · simp [he, elemClause]
    · rw [he]; exact elemClause_refl _
  · rcases h.id with hi | hi
    · simp [hi]
    · rw [hi]; cases c.id <;> simp
  · rw [h.pe]
    apply peClause_refl
    intro p hp
    exact hP p (List.mem_of_find?_eq_some hp)

theorem Compound.Extends.refl (c : Compound) : Compound.Extends c c :=
  ⟨Or.inr rfl, fun _ h => h, fun _ h => h, Or.inr rfl, fun _ h => h, fun _ h => h, rfl⟩

/-- `.x` appended -/
def Compound.addClass (x : List Char) : Compound → Compound
  | .mk b e p c i a ps => .mk b e p (c ++ [x]) i a ps
/-- `#x` on a compound without id -/
def Compound.addId (x : List Char) : Compound → Compound
  | .mk b e p c _ a ps => .mk b e p c (some x) a ps
/-- a type selector on a compound without one -/
def Compound.addElem (x : List Char) : Compound → Compound
  | .mk b _ p c i a ps => .mk b (some x) p c i a ps
/-- `[..]` appended -/
def Compound.addAttr (x : Attr) : Compound → Compound
  | .mk b e p c i a ps => .mk b e p c i (a ++ [x]) ps
/-- a pseudo-class appended -/
def Compound.addPseudo (x : Pseudo) : Compound → Compound
  | .mk b e p c i a ps => .mk b e p c i a (ps ++ [x])

theorem Compound.extends_addClass (x : List Char) (c : Compound) : Compound.Extends c (c.addClass x) := by
  cases c
  exact ⟨Or.inr rfl, fun _ h => h, fun _ h => by simp [Compound.addClass, Compound.classes] at *; exact Or.inl h,
    Or.inr rfl, fun _ h => h, fun _ h => h, rfl⟩

theorem Compound.extends_addId (x : List Char) (c : Compound) (h : c.id = none) :
    Compound.Extends c (c.addId x) := by
  cases c
  exact ⟨Or.inr rfl, fun _ h => h, fun _ h => h, Or.inl h, fun _ h => h, fun _ h => h, rfl⟩

theorem Compound.extends_addElem (x : List Char) (c : Compound) (h : c.elem = none) :
    Compound.Extends c (c.addElem x) := by
  cases c
  exact ⟨Or.inl h, fun _ h => h, fun _ h => h, Or.inr rfl, fun _ h => h, fun _ h => h, rfl⟩

theorem Compound.extends_addAttr (x : Attr) (c : Compound) : Compound.Extends c (c.addAttr x) := by
  cases c
  exact ⟨Or.inr rfl, fun _ h => h, fun _ h => h, Or.inr rfl,
    fun _ h => by simp [Compound.addAttr, Compound.attrs] at *; exact Or.inl h, fun _ h => h, rfl⟩

theorem Compound.extends_addPseudo (x : Pseudo) (c : Compound) (hx : x.isElement = false) :
    Compound.Extends c (c.addPseudo x) := by
  cases c with
  | mk b e p cl i a ps =>
    refine ⟨Or.inr rfl, fun _ h => h, fun _ h => h, Or.inr rfl, fun _ h => h,
      fun _ h => by simp [Compound.addPseudo, Compound.pseudos] at *; exact Or.inl h, ?_⟩
    simp only [Compound.pseudoElement, Compound.addPseudo, Compound.pseudos, List.find?_append]
    cases ps.find? Pseudo.isElement <;> simp [hx]

/-! ### attribute values without escapes: the code as it is = the specification -/

def Attr.plain (a : Attr) : Bool := !a.val.contains '\\'

mutual
  def Selector.plain : Selector → Bool
    | .leaf c => Compound.plain c
    | .rel _ s c => Selector.plain s && Compound.plain c
  def Compound.plain : Compound → Bool
    | .mk _ _ _ _ _ a ps => a.all Attr.plain && Pseudo.plainList ps
  def Pseudo.plain : Pseudo → Bool
    | .mk _ a _ => PArg.plain a
  def PArg.plain : PArg → Bool
    | .sel s => Selector.plainList s
    | _ => true
  def Pseudo.plainList : List Pseudo → Bool
    | [] => true
    | p :: ps => Pseudo.plain p && Pseudo.plainList ps
  def Selector.plainList : List Selector → Bool
    | [] => true
    | s :: ss => Selector.plain s && Selector.plainList ss
end

theorem unquoteGo_plain : ∀ (v : List Char), v.contains '\\' = false → unquoteGo none v = v
  | [], _ => by simp [unquoteGo]
  | c :: rest, h => by
    simp only [List.contains_cons, Bool.or_eq_false_iff, beq_eq_false_iff_ne, ne_eq] at h
    have hc : c ≠ '\\' := fun e => h.1 e.symm
    simp only [unquoteGo, hc, if_false]
    rw [unquoteGo_plain rest h.2]

theorem unquoteCss_plain (v : List Char) (q : Quote) (h : v.contains '\\' = false) :
    unquoteCss v q = v := by
  unfold unquoteCss; split
  · rfl
  · exact unquoteGo_plain v h

/-- the code as it is, but with the transitive attribute comparison -/
def superStrict : SuperQuirks := { parentStrict := true }

theorem Attr.isSuper_plain {a b : Attr} (ha : a.plain = true) (hb : b.plain = true) :
    Attr.isSuper superAsis a b = Attr.isSuper superStrict a b := by
  simp only [Attr.plain, Bool.not_eq_true'] at ha hb
  simp only [Attr.isSuper, cssStrEq, superAsis, superStrict, unquoteCss_plain _ _ ha,
    unquoteCss_plain _ _ hb, Bool.true_and, Bool.false_and]
  split <;> simp_all

theorem Selector.plain_of_mem : ∀ (A : List Selector) (a : Selector), a ∈ A →
    Selector.plainList A = true → a.plain = true
  | [], _, h, _ => by simp at h
  | s :: ss, a, h, hp => by
    simp only [Selector.plainList, Bool.and_eq_true] at hp
    rcases List.mem_cons.1 h with h | h
    · subst h; exact hp.1
    · exact Selector.plain_of_mem ss a h hp.2

theorem Pseudo.plain_of_mem : ∀ (ps : List Pseudo) (p : Pseudo), p ∈ ps →
    Pseudo.plainList ps = true → p.plain = true
  | [], _, h, _ => by simp at h
  | s :: ss, a, h, hp => by
    simp only [Pseudo.plainList, Bool.and_eq_true] at hp
    rcases List.mem_cons.1 h with h | h
    · subst h; exact hp.1
    · exact Pseudo.plain_of_mem ss a h hp.2

theorem Compound.plain_of_mem : ∀ (a : Selector) (x : Compound), x ∈ a.compounds →
    a.plain = true → x.plain = true
  | .leaf c, x, h, hp => by
    simp only [Selector.compounds, List.mem_singleton] at h
    subst h; simpa [Selector.plain] using hp
  | .rel k s c, x, h, hp => by
    simp only [Selector.compounds, List.mem_cons] at h
    simp only [Selector.plain, Bool.and_eq_true] at hp
    rcases h with h | h
    · subst h; exact hp.2
    · exact Compound.plain_of_mem s x h hp.1

theorem arg_plain {x : Selector} {cx : Compound} {p : Pseudo} {X : SelSet}
    (hx : x.plain = true) (hc : cx ∈ x.compounds) (hp : p ∈ cx.pseudos) (ha : p.arg = .sel X) :
    Selector.plainList X = true := by
  have h1 := Compound.plain_of_mem x cx hc hx
  cases cx with
  | mk b e pl cl i a ps =>
    simp only [Compound.plain, Bool.and_eq_true] at h1
    simp only [Compound.pseudos] at hp
    have h2 := Pseudo.plain_of_mem ps p hp h1.2
    cases p with
    | mk n ar el =>
      simp only [Pseudo.arg] at ha
      subst ha
      simpa [Pseudo.plain, PArg.plain] using h2

theorem attr_plain {x : Selector} {cx : Compound} {a : Attr}
    (hx : x.plain = true) (hc : cx ∈ x.compounds) (ha : a ∈ cx.attrs) : a.plain = true := by
  have h1 := Compound.plain_of_mem x cx hc hx
  cases cx with
  | mk b e pl cl i ats ps =>
    simp only [Compound.plain, Bool.and_eq_true, List.all_eq_true] at h1
    exact h1.1 a ha

theorem superN_asis_eq_spec : ∀ (n : Nat) (A B : SelSet), Selector.plainList A = true →
    Selector.plainList B = true → superN superAsis n A B = superN superStrict n A B
  | 0, _, _, _, _ => rfl
  | n + 1, A, B, hA, hB => by
    simp only [superN]
    apply setSuperW_congr
    intro x hx y hy
    have px := Selector.plain_of_mem A x hx hA
    have py := Selector.plain_of_mem B y hy hB
    unfold Selector.isSuperW
    apply isSuperC_congr
    intro cx hcx cy hcy
    unfold Compound.isSuperW
    apply Compound.isSuperG_congr
    · intro a ha b hb
      exact Attr.isSuper_plain (attr_plain px hcx ha) (attr_plain py hcy hb)
    · intro p hp p' hp'
      apply Pseudo.isSuperW_congr
      intro X Y hX hY
      have h1 := arg_plain px hcx hp hX
      have h2 := arg_plain py hcy hp' hY
      exact ⟨superN_asis_eq_spec n X Y h1 h2, superN_asis_eq_spec n Y X h2 h1⟩

/-! ### adding simple selectors anywhere in a complex selector -/

/-- `b` is `a` with simple selectors added to some of its compounds (same combinators), and
possibly further ancestors inserted at descendant combinators (`s c` → `s x c`, `s > x c`) -/
inductive Selector.AddsSimple : Selector → Selector → Prop
  | leaf {c c' : Compound} : Compound.Extends c c' → Selector.AddsSimple (.leaf c) (.leaf c')
  | rel {k : Rel} {s s' : Selector} {c c' : Compound} :
      Compound.Extends c c' → Selector.AddsSimple s s' → Selector.AddsSimple (.rel k s c) (.rel k s' c')
  | insAnc {k' : Rel} {s s' : Selector} {c c' x : Compound} : (k' = .ancestor ∨ k' = .parent) →
      Compound.Extends c c' → Selector.AddsSimple s s' →
      Selector.AddsSimple (.rel .ancestor s c) (.rel .ancestor (.rel k' s' x) c')

theorem Selector.AddsSimple.refl : ∀ (t : Selector), Selector.AddsSimple t t
  | .leaf c => .leaf (Compound.Extends.refl c)
  | .rel _ s c => .rel (Compound.Extends.refl c) (Selector.AddsSimple.refl s)

theorem refines_of_addsSimple (q : SuperQuirks) (n : Nat) {a b : Selector}
    (h : Selector.AddsSimple a b) (hd : a.depth ≤ n) :
    Selector.Refines (Compound.isSuperW q (superN q n)) a b := by
  induction h with
  | @leaf c c' hc =>
    apply Selector.Refines.leaf
    have hr := compounds_refl q n (.leaf c) hd c (by simp [Selector.compounds])
    unfold Compound.isSuperW at *
    simp only [Selector.depth] at hd
    exact Compound.isSuperG_of_extends hc (fun a _ => Attr.isSuper_refl q a) fun p hp => by
      apply Pseudo.isSuperW_refl
      intro X hX
      apply superN_refl
      have h2 := Compound.pseudo_depth_le c p hp
      have h3 := Pseudo.arg_depth p X hX
      omega
  | @rel k s s' c c' hc _ ih =>
    simp only [Selector.depth] at hd
    apply Selector.Refines.rel
    · unfold Compound.isSuperW
      exact Compound.isSuperG_of_extends hc (fun a _ => Attr.isSuper_refl q a) fun p hp => by
        apply Pseudo.isSuperW_refl
        intro X hX
        apply superN_refl
        have h2 := Compound.pseudo_depth_le c p hp
        have h3 := Pseudo.arg_depth p X hX
        omega
    · exact ih (by omega)
  | @insAnc k' s s' c c' x hk hc _ ih =>
    simp only [Selector.depth] at hd
    apply Selector.Refines.insAnc hk
    · unfold Compound.isSuperW
      exact Compound.isSuperG_of_extends hc (fun a _ => Attr.isSuper_refl q a) fun p hp => by
        apply Pseudo.isSuperW_refl
        intro X hX
        apply superN_refl
        have h2 := Compound.pseudo_depth_le c p hp
        have h3 := Pseudo.arg_depth p X hX
        omega
    · exact ih (by omega)

end Sel
