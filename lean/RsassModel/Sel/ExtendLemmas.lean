/-
C24 lemmas (namespace `Sel`): list plumbing of extend / replace for every superselector
test `S`, unifier `U` and dedup `D`.
-/
import RsassModel.Sel.Extend
import RsassModel.Sel.NestLemmas

namespace Sel

/-! ### extend keeps the originals -/

theorem sublist_flatMap_of_head {α : Type} (f : α → List α) (h : ∀ x, ∃ r, f x = x :: r) :
    ∀ (l : List α), List.Sublist l (l.flatMap f)
  | [] => by simp
  | x :: xs => by
    obtain ⟨r, hr⟩ := h x
    simp only [List.flatMap_cons, hr, List.cons_append]
    exact List.Sublist.cons_cons x
      (List.Sublist.trans (sublist_flatMap_of_head f h xs) (List.sublist_append_right r _))

theorem extendStep_head (S : Selector → Selector → Bool) (U : Selector → Selector → List Selector)
    (D : Compound → Compound → Compound) (er : SelSet) (o s : Selector) :
    ∃ r, extendStep S U D er o s = s :: r := by
  unfold extendStep
  split
  · exact ⟨_, rfl⟩
  · exact ⟨[], rfl⟩

theorem foldl_extend_sublist (S : Selector → Selector → Bool) (U : Selector → Selector → List Selector)
    (D : Compound → Compound → Compound) (er : SelSet) :
    ∀ (ee : SelSet) (l : List Selector),
      List.Sublist l (ee.foldl (fun result o => result.flatMap (extendStep S U D er o)) l)
  | [], l => by simp
  | o :: os, l => by
    simp only [List.foldl_cons]
    exact List.Sublist.trans
      (sublist_flatMap_of_head _ (extendStep_head S U D er o) l)
      (foldl_extend_sublist S U D er os _)

theorem Selector.extendW_keeps (S : Selector → Selector → Bool) (U : Selector → Selector → List Selector)
    (D : Compound → Compound → Compound) (ee er : SelSet) (s : Selector) :
    List.Sublist [s] (Selector.extendW S U D ee er s) :=
  foldl_extend_sublist S U D er ee [s]

theorem sublist_flatMap_of_single {α : Type} (g : α → List α) (h : ∀ x, List.Sublist [x] (g x)) :
    ∀ (l : List α), List.Sublist l (l.flatMap g)
  | [] => by simp
  | x :: xs => by
    simp only [List.flatMap_cons]
    have := List.Sublist.append (h x) (sublist_flatMap_of_single g h xs)
    simpa using this

/-! ### replace without a match -/

theorem replaceTop_noMatch (S : Selector → Selector → Bool) (U : Selector → Selector → List Selector)
    (D : Compound → Compound → Compound) (r : SelSet) (s : Selector) :
    ∀ (o : SelSet), (∀ x ∈ o, S x s = false) → replaceTop S U D o r s = [s] := by
  intro o
  unfold replaceTop
  induction o with
  | nil => intro _; rfl
  | cons x xs ih =>
    intro h
    simp only [List.foldl_cons, List.flatMap_cons, List.flatMap_nil, List.append_nil]
    have hx : S x s = false := h x (by simp)
    simp only [replaceStep, hx, Bool.false_eq_true, if_false]
    exact ih fun y hy => h y (by simp [hy])

mutual
  /-- nothing in the selector (nor, recursively, in the pseudo arguments `replace` enters) is
  matched by a member of `o` -/
  def Selector.noMatchD (S : Selector → Selector → Bool) (o : SelSet) : Selector → Bool
    | .leaf c => (o.all fun x => !S x (.leaf c)) && Compound.noMatchD S o c
    | .rel k s c => (o.all fun x => !S x (.rel k s c)) && Compound.noMatchD S o c
  def Compound.noMatchD (S : Selector → Selector → Bool) (o : SelSet) : Compound → Bool
    | .mk _ _ _ _ _ _ ps => Pseudo.noMatchListD S o ps
  def Pseudo.noMatchD (S : Selector → Selector → Bool) (o : SelSet) : Pseudo → Bool
    | .mk n a _ => if nameIn n (replacePseudoNames.map String.toList) then PArg.noMatchD S o a else true
  def PArg.noMatchD (S : Selector → Selector → Bool) (o : SelSet) : PArg → Bool
    | .sel s => Selector.noMatchListD S o s
    | _ => true
  def Pseudo.noMatchListD (S : Selector → Selector → Bool) (o : SelSet) : List Pseudo → Bool
    | [] => true
    | p :: ps => Pseudo.noMatchD S o p && Pseudo.noMatchListD S o ps
  def Selector.noMatchListD (S : Selector → Selector → Bool) (o : SelSet) : List Selector → Bool
    | [] => true
    | s :: ss => Selector.noMatchD S o s && Selector.noMatchListD S o ss
end

mutual
  theorem Selector.replaceD_noMatch (S : Selector → Selector → Bool)
      (U : Selector → Selector → List Selector) (D : Compound → Compound → Compound) (o r : SelSet) :
      ∀ (s : Selector), Selector.noMatchD S o s = true → Selector.replaceD S U D o r s = [s]
    | .leaf c, h => by
      simp only [Selector.noMatchD, Bool.and_eq_true, List.all_eq_true, Bool.not_eq_true'] at h
      simp only [Selector.replaceD, Compound.replaceInPseudoD_noMatch S U D o r c h.2]
      exact replaceTop_noMatch S U D r _ o h.1
    | .rel k s c, h => by
      simp only [Selector.noMatchD, Bool.and_eq_true, List.all_eq_true, Bool.not_eq_true'] at h
      simp only [Selector.replaceD, Compound.replaceInPseudoD_noMatch S U D o r c h.2]
      exact replaceTop_noMatch S U D r _ o h.1
  theorem Compound.replaceInPseudoD_noMatch (S : Selector → Selector → Bool)
      (U : Selector → Selector → List Selector) (D : Compound → Compound → Compound) (o r : SelSet) :
      ∀ (c : Compound), Compound.noMatchD S o c = true → Compound.replaceInPseudoD S U D o r c = c
    | .mk b e p cl i a ps, h => by
      simp only [Compound.noMatchD] at h
      simp only [Compound.replaceInPseudoD, Pseudo.replaceListD_noMatch S U D o r ps h]
  theorem Pseudo.replaceD_noMatch (S : Selector → Selector → Bool)
      (U : Selector → Selector → List Selector) (D : Compound → Compound → Compound) (o r : SelSet) :
      ∀ (p : Pseudo), Pseudo.noMatchD S o p = true → Pseudo.replaceD S U D o r p = p
    | .mk n a e, h => by
      simp only [Pseudo.noMatchD] at h
      simp only [Pseudo.replaceD]
      split
      · next hn =>
        simp only [hn, if_true] at h
        rw [PArg.replaceD_noMatch S U D o r a h]
      · rfl
  theorem PArg.replaceD_noMatch (S : Selector → Selector → Bool)
      (U : Selector → Selector → List Selector) (D : Compound → Compound → Compound) (o r : SelSet) :
      ∀ (a : PArg), PArg.noMatchD S o a = true → PArg.replaceD S U D o r a = a
    | .sel s, h => by
      simp only [PArg.noMatchD] at h
      simp only [PArg.replaceD, Selector.replaceListD_noMatch S U D o r s h]
    | .other _, _ => rfl
    | .none, _ => rfl
  theorem Pseudo.replaceListD_noMatch (S : Selector → Selector → Bool)
      (U : Selector → Selector → List Selector) (D : Compound → Compound → Compound) (o r : SelSet) :
      ∀ (ps : List Pseudo), Pseudo.noMatchListD S o ps = true → Pseudo.replaceListD S U D o r ps = ps
    | [], _ => rfl
    | p :: ps, h => by
      simp only [Pseudo.noMatchListD, Bool.and_eq_true] at h
      simp only [Pseudo.replaceListD, Pseudo.replaceD_noMatch S U D o r p h.1,
        Pseudo.replaceListD_noMatch S U D o r ps h.2]
  theorem Selector.replaceListD_noMatch (S : Selector → Selector → Bool)
      (U : Selector → Selector → List Selector) (D : Compound → Compound → Compound) (o r : SelSet) :
      ∀ (ss : List Selector), Selector.noMatchListD S o ss = true → Selector.replaceListD S U D o r ss = ss
    | [], _ => rfl
    | s :: ss, h => by
      simp only [Selector.noMatchListD, Bool.and_eq_true] at h
      simp only [Selector.replaceListD, Selector.replaceD_noMatch S U D o r s h.1,
        Selector.replaceListD_noMatch S U D o r ss h.2, List.singleton_append]
end

/-! ### nesting in the root context is the identity -/

theorem Selector.nest_root (o : Selector) : Selector.nest Selector.root o = o := by
  have h : Selector.root.isRootLike = true := by decide
  cases o <;> simp [Selector.nest, h]

theorem rootNest_id (q : NestQuirks) (a : SelSet) (ha : ∀ i ∈ a, i.hasBackref = false) :
    Ctx.root.nest q a = a := by
  unfold Ctx.nest SelSet.nest
  simp only [Ctx.root]
  rw [nestRows_no_amp q SelSet.root _ a ha, roundRobin_matrixRows]
  simp [SelSet.root, Selector.nest_root]

theorem ruleNest_eq (q : NestQuirks) (a b : SelSet) (ha : ∀ i ∈ a, i.hasBackref = false)
    (hroot : SelSet.isRoot a = false) : ruleNest q a b = SelSet.nest q a b a := by
  unfold ruleNest
  rw [rootNest_id q a ha]
  simp [Ctx.nest, Ctx.ofSet, Ctx.getBackref, hroot]

/-! ### `&suffix` -/

theorem Compound.setBackref_roundtrip (c : Compound) (h : c.backref = false) :
    (c.setBackref true).setBackref false = c := by
  cases c; simp only [Compound.backref] at h; simp [Compound.setBackref, h]

theorem Pseudo.resolveRefList_noSel (q : NestQuirks) (ctx : SelSet) :
    ∀ (ps : List Pseudo), (∀ p ∈ ps, ∀ X, p.arg ≠ .sel X) → Pseudo.resolveRefList q ctx ps = ps
  | [], _ => by simp [Pseudo.resolveRefList]
  | p :: ps, h => by
    have hp := h p (by simp)
    have ih := Pseudo.resolveRefList_noSel q ctx ps fun x hx => h x (by simp [hx])
    cases p with
    | mk n a e =>
      cases a with
      | sel X => exact absurd rfl (hp X)
      | other s => simp [Pseudo.resolveRefList, Pseudo.resolveRef, PArg.resolveRef, ih]
      | none => simp [Pseudo.resolveRefList, Pseudo.resolveRef, PArg.resolveRef, ih]

theorem allSome_cons_some {α : Type} {x : Option α} {rest : List (Option α)} {R : List α}
    (h : allSome (x :: rest) = some R) : ∃ r R', x = some r ∧ allSome rest = some R' ∧ R = r :: R' := by
  cases x with
  | none => simp [allSome] at h
  | some r =>
    simp only [allSome, Option.map_eq_some_iff] at h
    obtain ⟨R', h1, h2⟩ := h
    exact ⟨r, R', rfl, h1, h2.symm⟩

theorem resolveOneList_of_append (c : Compound) :
    ∀ (a : SelSet) (R : SelSet),
      allSome (a.flatMap fun b => [Selector.leaf c].map fun e => Selector.appendSel Compound.append b e) = some R →
      resolveOneList nestAsis c a = R
  | [], R, h => by simp [allSome] at h; simp [resolveOneList, h]
  | s :: ss, R, h => by
    simp only [List.flatMap_cons, List.map_cons, List.map_nil, List.singleton_append] at h
    obtain ⟨r, R', h1, h2, rfl⟩ := allSome_cons_some h
    have ih := resolveOneList_of_append c ss R' h2
    simp only [resolveOneList, ih]
    simp only [Selector.appendSel] at h1
    split at h1
    · simp at h1
    · split at h1
      · simp at h1
      · split at h1
        · next x hx =>
          simp only [Option.some.injEq] at h1
          simp [resolveOne, hx, nestAsis, h1]
        · simp at h1

end Sel
