/-
C24 lemmas (namespace `Sel`): soundness of `combine_vital` (in the argument order that drops
the more general element) and of `CompoundSelector::unify`.
-/
import RsassModel.Sel.Unify
import RsassModel.Sel.SuperFuel

namespace Sel

/-! ### combine_vital -/

theorem combineVital_mem {α : Type} (k : Bool) (f : α → α → Bool) (v o : List α) (x : α)
    (h : x ∈ combineVital k f v o) : x ∈ v ∨ x ∈ o := by
  simp only [combineVital, List.mem_append, List.mem_filter] at h
  rcases h with h | h
  · exact Or.inl h.1
  · exact Or.inr h.1

/-- with the sound argument order every element of either list is above an element of the result -/
theorem combineVital_sound {α : Type} (f : α → α → Bool) (v o : List α)
    (hr : ∀ x, x ∈ v ∨ x ∈ o → f x x = true)
    (ht : ∀ x y z, f x y = true → f y z = true → f x z = true) :
    (∀ x ∈ v, ∃ y ∈ combineVital false f v o, f x y = true)
      ∧ (∀ x ∈ o, ∃ y ∈ combineVital false f v o, f x y = true) := by
  have key : ∀ x ∈ o, ∃ y ∈ combineVital false f v o, f x y = true := by
    intro x hx
    by_cases hk : ((v.filter fun a => !o.any fun b => f a b).any fun b => f x b) = true
    · obtain ⟨c, hc, hxc⟩ := List.any_eq_true.1 hk
      exact ⟨c, by simp only [combineVital, Bool.false_eq_true, if_false, List.mem_append]; exact Or.inl hc, hxc⟩
    · refine ⟨x, ?_, hr x (Or.inr hx)⟩
      simp only [combineVital, Bool.false_eq_true, if_false, List.mem_append, List.mem_filter]
      right
      exact ⟨hx, by simpa using hk⟩
  refine ⟨?_, key⟩
  intro x hx
  by_cases hk : (o.any fun b => f x b) = true
  · obtain ⟨b, hb, hxb⟩ := List.any_eq_true.1 hk
    obtain ⟨y, hy, hby⟩ := key b hb
    exact ⟨y, hy, ht x b y hxb hby⟩
  · refine ⟨x, ?_, hr x (Or.inl hx)⟩
    simp only [combineVital, Bool.false_eq_true, if_false, List.mem_append, List.mem_filter]
    left
    exact ⟨hx, by simpa using hk⟩

/-- when `f` is symmetric between the two lists the argument order does not matter -/
theorem combineVital_symm {α : Type} (f : α → α → Bool) (v o : List α)
    (hs : ∀ x ∈ v, ∀ y ∈ o, f x y = f y x) : combineVital true f v o = combineVital false f v o := by
  simp only [combineVital, if_true, Bool.false_eq_true, if_false]
  have h1 : (v.filter fun a => !o.any fun b => f b a) = (v.filter fun a => !o.any fun b => f a b) := by
    apply List.filter_congr
    intro a ha
    congr 1
    exact any_congr_mem fun b hb => (hs a ha b hb).symm
  rw [h1]
  congr 1
  apply List.filter_congr
  intro a ha
  congr 1
  apply any_congr_mem
  intro b hb
  exact hs b (List.mem_filter.1 hb).1 a ha

/-! ### the class / placeholder loops -/

theorem pushNew_sub_left : ∀ (cs acc : List (List Char)), ∀ x ∈ acc, x ∈ pushNew acc cs
  | [], _, x, h => by simpa [pushNew] using h
  | c :: cs, acc, x, h => by
    simp only [pushNew]
    split
    · exact pushNew_sub_left cs acc x h
    · exact pushNew_sub_left cs (acc ++ [c]) x (by simp [h])

theorem pushNew_sub_right : ∀ (cs acc : List (List Char)), ∀ x ∈ cs, x ∈ pushNew acc cs
  | [], _, x, h => by simp at h
  | c :: cs, acc, x, h => by
    simp only [pushNew]
    rcases List.mem_cons.1 h with h | h
    · subst h
      split
      · next hc => exact pushNew_sub_left cs acc x (by simpa using hc)
      · exact pushNew_sub_left cs (acc ++ [x]) x (by simp)
    · split
      · exact pushNew_sub_right cs acc x h
      · exact pushNew_sub_right cs (acc ++ [c]) x h

/-! ### `CompoundSelector::unify` -/

theorem unifyPe_sound {R : SelSet → SelSet → Bool} {x y : Option Pseudo} {pe : Option Pseudo}
    (h : unifyPe (Pseudo.isSuperW R) x y = some pe) (hs : x.isSome = y.isSome)
    (hr : ∀ p, x = some p ∨ y = some p → Pseudo.isSuperW R p p = true) :
    peClause R x pe = true ∧ peClause R y pe = true := by
  cases x with
  | none =>
    cases y with
    | none => simp only [unifyPe, Option.some.injEq] at h; subst h; simp [peClause]
    | some q => simp at hs
  | some p =>
    cases y with
    | none => simp at hs
    | some q =>
      simp only [unifyPe] at h
      split at h
      · next hqp =>
        simp only [Option.some.injEq] at h; subst h
        exact ⟨by simpa [peClause] using hr p (Or.inl rfl), by simpa [peClause] using hqp⟩
      · split at h
        · next hpq =>
          simp only [Option.some.injEq] at h; subst h
          exact ⟨by simpa [peClause] using hpq, by simpa [peClause] using hr q (Or.inr rfl)⟩
        · simp at h

theorem unifyElem_sound {EU : List Char → List Char → Option (List Char)}
    (hEU : ∀ x y r, EU x y = some r →
      elemClause (some x) (some r) = true ∧ elemClause (some y) (some r) = true)
    {x y el : Option (List Char)} (h : unifyElem EU x y = some el) :
    elemClause x el = true ∧ elemClause y el = true := by
  cases x with
  | none =>
    cases y with
    | none => simp only [unifyElem, Option.some.injEq] at h; subst h; simp [elemClause]
    | some e =>
      simp only [unifyElem, Option.some.injEq] at h; subst h
      exact ⟨by simp [elemClause], elemClause_refl _⟩
  | some e =>
    cases y with
    | none =>
      simp only [unifyElem, Option.some.injEq] at h; subst h
      exact ⟨elemClause_refl _, by simp [elemClause]⟩
    | some f =>
      simp only [unifyElem, Option.map_eq_some_iff] at h
      obtain ⟨r, hr, rfl⟩ := h
      exact hEU e f r hr

theorem unifyId_sound {x y i : Option (List Char)} (h : unifyId x y = some i) :
    (x = none ∨ i = x) ∧ (y = none ∨ i = y) := by
  cases x <;> cases y <;> simp only [unifyId, Option.some.injEq] at h
  · subst h; simp
  · subst h; simp
  · subst h; simp
  · split at h
    · next hxy => simp only [Option.some.injEq] at h; subst h; subst hxy; simp
    · simp at h

/-- every pseudo-element of the compound is its `pseudo_element()`: at most one -/
def Compound.onePe (c : Compound) : Prop :=
  ∀ p ∈ c.pseudos, p.isElement = true → c.pseudoElement = some p

theorem find_isElement_combine (k : Bool) (P : Pseudo → Pseudo → Bool) (aps bps tl : List Pseudo)
    (ha : ∀ p ∈ aps, p.isElement = false) (hb : ∀ p ∈ bps, p.isElement = false) :
    (combineVital k P aps bps ++ tl).find? Pseudo.isElement = tl.find? Pseudo.isElement := by
  have hnone : (combineVital k P aps bps).find? Pseudo.isElement = none := by
    rw [List.find?_eq_none]
    intro x hx
    rcases combineVital_mem k P aps bps x hx with h | h
    · simp [ha x h]
    · simp [hb x h]
  rw [List.find?_append, hnone]
  simp

theorem find_isElement_opt (pe : Option Pseudo) (h : ∀ p, pe = some p → p.isElement = true) :
    (match pe with | some p => [p] | none => []).find? Pseudo.isElement = pe := by
  cases pe with
  | none => simp
  | some p => simp [h p rfl]

/-- **Soundness of compound unification** for the argument order that drops the more general
element: both inputs are (compound) superselectors of the result.  Over any reflexive and
transitive attribute relation `A`, any transitive argument relation `R` (reflexive on the
pseudos involved) and any sound element-type unifier `EU`. -/
theorem Compound.unifyG_sound {A : Attr → Attr → Bool} {R : SelSet → SelSet → Bool}
    {EU : List Char → List Char → Option (List Char)} {a b u : Compound}
    (hAr : ∀ x, A x x = true) (hAt : ∀ x y z, A x y = true → A y z = true → A x z = true)
    (hR : RTrans R)
    (hPr : ∀ p, p ∈ a.pseudos ∨ p ∈ b.pseudos → Pseudo.isSuperW R p p = true)
    (hEU : ∀ x y r, EU x y = some r →
      elemClause (some x) (some r) = true ∧ elemClause (some y) (some r) = true)
    (hpe : a.pseudoElement.isSome = b.pseudoElement.isSome) (ha1 : a.onePe) (hb1 : b.onePe)
    (h : Compound.unifyG false A (Pseudo.isSuperW R) EU a b = some u) :
    Compound.isSuperG A R a u = true ∧ Compound.isSuperG A R b u = true := by
  unfold Compound.unifyG at h
  split at h
  · next pe elem id hp he hi =>
    rw [Option.ite_none_left_eq_some] at h
    obtain ⟨_, h⟩ := h
    simp only [Option.some.injEq] at h
    · have hmemA : ∀ p, a.pseudoElement = some p → p ∈ a.pseudos := fun p hp' => List.mem_of_find?_eq_some hp'
      have hmemB : ∀ p, b.pseudoElement = some p → p ∈ b.pseudos := fun p hp' => List.mem_of_find?_eq_some hp'
      have hpes := unifyPe_sound hp hpe (fun p hp' => by
        rcases hp' with hp' | hp'
        · exact hPr p (Or.inl (hmemA p hp'))
        · exact hPr p (Or.inr (hmemB p hp')))
      have hel := unifyElem_sound hEU he
      have hid := unifyId_sound hi
      -- the non-element pseudos
      have hfa : ∀ p ∈ a.pseudos.filter (fun p => !p.isElement), p.isElement = false := by
        intro p hp'; simpa using (List.mem_filter.1 hp').2
      have hfb : ∀ p ∈ b.pseudos.filter (fun p => !p.isElement), p.isElement = false := by
        intro p hp'; simpa using (List.mem_filter.1 hp').2
      have hcv := combineVital_sound (Pseudo.isSuperW R)
        (a.pseudos.filter fun p => !p.isElement) (b.pseudos.filter fun p => !p.isElement)
        (fun x hx => by
          rcases hx with hx | hx
          · exact hPr x (Or.inl (List.mem_filter.1 hx).1)
          · exact hPr x (Or.inr (List.mem_filter.1 hx).1))
        (fun x y z => Pseudo.isSuperW_trans hR)
      have hca := combineVital_sound A a.attrs b.attrs (fun x _ => hAr x) hAt
      -- the chosen pseudo-element is an element pseudo
      have hpeEl : ∀ p, pe = some p → p.isElement = true := by
        intro p hp'
        subst hp'
        have : a.pseudoElement = some p ∨ b.pseudoElement = some p := by
          revert hp
          cases a.pseudoElement <;> cases b.pseudoElement <;> simp only [unifyPe]
          · simp
          · intro h'; simp only [Option.some.injEq] at h'; exact Or.inr (by rw [h'])
          · intro h'; simp only [Option.some.injEq] at h'; exact Or.inl (by rw [h'])
          · intro h'
            split at h'
            · simp only [Option.some.injEq] at h'; exact Or.inl (by rw [h'])
            · split at h'
              · simp only [Option.some.injEq] at h'; exact Or.inr (by rw [h'])
              · simp at h'
        rcases this with h' | h'
        · simpa using List.find?_some h'
        · simpa using List.find?_some h'
      have hupe : u.pseudoElement = pe := by
        subst h
        show List.find? Pseudo.isElement (_ ++ _) = pe
        rw [find_isElement_combine false (Pseudo.isSuperW R) _ _ _ hfa hfb]
        exact find_isElement_opt pe hpeEl
      have hupsPe : ∀ q, pe = some q → q ∈ u.pseudos := by
        intro q hq; subst h; subst hq; simp [Compound.pseudos]
      -- pseudos of either input are covered by the result's pseudos
      have cover : ∀ (c : Compound), c.onePe →
          (∀ x ∈ c.pseudos.filter (fun p => !p.isElement), ∃ y ∈ u.pseudos, Pseudo.isSuperW R x y = true) →
          peClause R c.pseudoElement pe = true →
          (∀ p, p ∈ c.pseudos → Pseudo.isSuperW R p p = true) →
          allAny (Pseudo.isSuperW R) c.pseudos u.pseudos = true := by
        intro c hc1 hne hpc _
        rw [allAny_iff]
        intro p hp'
        by_cases hpE : p.isElement = true
        · have := hc1 p hp' hpE
          rw [this] at hpc
          cases hpe' : pe with
          | none => rw [hpe'] at hpc; simp [peClause] at hpc
          | some q =>
            rw [hpe'] at hpc
            exact ⟨q, hupsPe q hpe', by simpa [peClause] using hpc⟩
        · exact hne p (List.mem_filter.2 ⟨hp', by simpa using hpE⟩)
      have hups : ∀ y, y ∈ combineVital false (Pseudo.isSuperW R)
          (a.pseudos.filter fun p => !p.isElement) (b.pseudos.filter fun p => !p.isElement) → y ∈ u.pseudos := by
        intro y hy; subst h; exact List.mem_append.2 (Or.inl hy)
      have hua : u.attrs = combineVital false A a.attrs b.attrs := by subst h; rfl
      have hue : u.elem = elem := by subst h; rfl
      have hui : u.id = id := by subst h; rfl
      have hupl : u.placeholders = pushNew a.placeholders b.placeholders := by subst h; rfl
      have hucl : u.classes = pushNew a.classes b.classes := by subst h; rfl
      constructor
      · simp only [Compound.isSuperG, Bool.and_eq_true]
        refine ⟨⟨⟨⟨⟨⟨?_, ?_⟩, ?_⟩, ?_⟩, ?_⟩, ?_⟩, ?_⟩
        · rw [hue]; exact hel.1
        · rw [hupl]; exact allAny_of_subset (fun _ _ => by simp) (pushNew_sub_left _ _)
        · rw [hucl]; exact allAny_of_subset (fun _ _ => by simp) (pushNew_sub_left _ _)
        · rw [hui]; rcases hid.1 with h0 | h0
          · simp [h0]
          · rw [h0]; cases a.id <;> simp
        · rw [hua, allAny_iff]; exact hca.1
        · exact cover a ha1 (fun x hx => by
            obtain ⟨y, hy, hxy⟩ := hcv.1 x hx
            exact ⟨y, hups y hy, hxy⟩) hpes.1 (fun p hp' => hPr p (Or.inl hp'))
        · rw [hupe]; exact hpes.1
      · simp only [Compound.isSuperG, Bool.and_eq_true]
        refine ⟨⟨⟨⟨⟨⟨?_, ?_⟩, ?_⟩, ?_⟩, ?_⟩, ?_⟩, ?_⟩
        · rw [hue]; exact hel.2
        · rw [hupl]; exact allAny_of_subset (fun _ _ => by simp) (pushNew_sub_right _ _)
        · rw [hucl]; exact allAny_of_subset (fun _ _ => by simp) (pushNew_sub_right _ _)
        · rw [hui]; rcases hid.2 with h0 | h0
          · simp [h0]
          · rw [h0]; cases b.id <;> simp
        · rw [hua, allAny_iff]; exact hca.2
        · exact cover b hb1 (fun x hx => by
            obtain ⟨y, hy, hxy⟩ := hcv.2 x hx
            exact ⟨y, hups y hy, hxy⟩) hpes.2 (fun p hp' => hPr p (Or.inr hp'))
        · rw [hupe]; exact hpes.2
  · simp at h

/-! ### `ElemType::unify` is sound on element types with at most one `|` -/

theorem takeWhile_bar_free (e : List Char) : (e.takeWhile (· ≠ '|')).contains '|' = false := by
  induction e with
  | nil => simp
  | cons x xs ih =>
    by_cases hx : x = '|'
    · simp [hx]
    · simp only [List.takeWhile, ne_eq, hx, not_false_eq_true, decide_true, List.contains_cons,
        Bool.or_eq_false_iff, beq_eq_false_iff_ne]
      exact ⟨fun h => hx h.symm, ih⟩

theorem takeWhile_append_bar (name : List Char) : ∀ (ns : List Char), (∀ c ∈ ns, c ≠ '|') →
    (ns ++ '|' :: name).takeWhile (· ≠ '|') = ns
  | [], _ => by simp
  | x :: xs, h => by
    have hx : x ≠ '|' := h x (by simp)
    simp only [List.cons_append, List.takeWhile, ne_eq, hx, not_false_eq_true, decide_true,
      List.cons.injEq, true_and]
    exact takeWhile_append_bar name xs fun c hc => h c (by simp [hc])

theorem dropWhile_append_bar (name : List Char) : ∀ (ns : List Char), (∀ c ∈ ns, c ≠ '|') →
    (ns ++ '|' :: name).dropWhile (· ≠ '|') = '|' :: name
  | [], _ => by simp
  | x :: xs, h => by
    have hx : x ≠ '|' := h x (by simp)
    simp only [List.cons_append, List.dropWhile, ne_eq, hx, not_false_eq_true, decide_true]
    exact dropWhile_append_bar name xs fun c hc => h c (by simp [hc])

theorem split_join_some (ns name : List Char) (h : ns.contains '|' = false) :
    elemSplitNs (ns ++ '|' :: name) = (some ns, name) := by
  have hc : (ns ++ '|' :: name).contains '|' = true := by simp
  have hall : ∀ c ∈ ns, (c ≠ '|') := by
    intro c hc' e; subst e
    have : ns.contains '|' = true := by simpa using hc'
    rw [h] at this; exact absurd this (by simp)
  unfold elemSplitNs
  simp only [hc, if_true, takeWhile_append_bar name ns hall, dropWhile_append_bar name ns hall,
    List.drop_succ_cons, List.drop_zero]

theorem split_join_none (name : List Char) (h : name.contains '|' = false) :
    elemSplitNs name = (none, name) := by
  simp only [elemSplitNs, h, Bool.false_eq_true, if_false]

theorem split_ns_bar_free (e ns : List Char) (h : (elemSplitNs e).1 = some ns) : ns.contains '|' = false := by
  unfold elemSplitNs at h
  split at h
  · simp only [Option.some.injEq] at h; rw [← h]; exact takeWhile_bar_free e
  · simp at h

/-- element types as the parser produces them: at most one `|` -/
def elemWf (e : List Char) : Bool := !(elemSplitNs e).2.contains '|'

theorem split_join (ns : Option (List Char)) (name : List Char)
    (hns : ∀ s, ns = some s → s.contains '|' = false) (hn : name.contains '|' = false) :
    elemSplitNs (joinNs ns name) = (ns, name) := by
  cases ns with
  | none => exact split_join_none name hn
  | some s => exact split_join_some s name (hns s rfl)

theorem elemUnify_sound (x y r : List Char) (hx : elemWf x = true) (hy : elemWf y = true)
    (h : elemUnify x y = some r) : elemIsSuper x r = true ∧ elemIsSuper y r = true := by
  simp only [elemWf, Bool.not_eq_true'] at hx hy
  unfold elemUnify at h
  simp only at h
  split at h
  · next ns name hns hname =>
    simp only [Option.some.injEq] at h
    subst h
    have hbx := split_ns_bar_free x
    have hby := split_ns_bar_free y
    have hname' : name.contains '|' = false := by
      revert hname
      split
      · intro e; simp only [Option.some.injEq] at e; rw [← e]; exact hy
      · split
        · intro e; simp only [Option.some.injEq] at e; rw [← e]; exact hx
        · split
          · intro e; simp only [Option.some.injEq] at e; rw [← e]; exact hx
          · intro e; simp at e
    have hns' : ∀ s, ns = some s → s.contains '|' = false := by
      intro s hs; subst hs
      revert hns
      cases hex : (elemSplitNs x).1 <;> cases hey : (elemSplitNs y).1 <;> simp only
      · simp
      · split <;> simp
      · split
        · simp
        · simp
      · rename_i a b
        split
        · intro e; simp only [Option.some.injEq] at e; rw [← e]; exact hby b hey
        · split
          · intro e; simp only [Option.some.injEq] at e; rw [← e]; exact hbx a hex
          · split
            · intro e; simp only [Option.some.injEq] at e; rw [← e]; exact hbx a hex
            · simp
    simp only [elemIsSuper, split_join ns name hns' hname', Bool.and_eq_true]
    revert hns hname
    cases hex : (elemSplitNs x).1 <;> cases hey : (elemSplitNs y).1 <;>
      simp only [matchName, Option.getD] <;> (repeat' split) <;> simp_all
  · simp at h

/-! ### from compounds to `selector.unify` on compound selectors -/

/-- `SelSet.isSuper` agrees with any unrolling deeper than the depth of *either* side -/
theorem isSuper_eq_superN_either (q : SuperQuirks) (X Y : SelSet) (n : Nat)
    (h : Selector.depthList X < n ∨ Selector.depthList Y < n) : SelSet.isSuper q X Y = superN q n X Y := by
  rcases h with h | h
  · exact isSuper_eq_superN q X Y n h
  · unfold SelSet.isSuper
    by_cases hle : Selector.depthList X + 1 ≤ n
    · exact superN_stable q _ n X Y hle (Or.inl (Nat.lt_succ_self _))
    · exact (superN_stable q n _ X Y (by omega) (Or.inr h)).symm

/-- the fuelled compound test is the self-fuelling one once the fuel covers the left compound -/
theorem compound_isSuper_fuel (q : SuperQuirks) (a u : Compound) (d : Nat) (h : a.depth ≤ d) :
    Compound.isSuperW q (superN q d) a u = Compound.isSuper q a u := by
  unfold Compound.isSuper Compound.isSuperW
  apply Compound.isSuperG_congr (fun _ _ _ _ => rfl)
  intro p hp p' _
  apply Pseudo.isSuperW_congr
  intro X Y hX _
  have h2 := Compound.pseudo_depth_le a p hp
  have h3 := Pseudo.arg_depth p X hX
  have hlt : Selector.depthList X < d := by omega
  exact ⟨(isSuper_eq_superN_either q X Y d (Or.inl hlt)).symm,
    (isSuper_eq_superN_either q Y X d (Or.inr hlt)).symm⟩

/-- `[a] ⊒ [u]` for compound selectors is the compound test -/
theorem isSuper_leaf (q : SuperQuirks) (a u : Compound) :
    SelSet.isSuper q [.leaf a] [.leaf u] = Compound.isSuper q a u := by
  unfold SelSet.isSuper
  simp only [superN, setSuperW, List.all_cons, List.all_nil, List.any_cons, List.any_nil,
    Bool.or_false, Bool.and_true, Selector.isSuperW, Selector.isSuperC, Selector.compound]
  apply compound_isSuper_fuel
  simp [Selector.depthList, Selector.depth]

/-- `Selector::unify` on two compound selectors is `CompoundSelector::unify` -/
theorem Selector.unify_leaf (q : UnifyQuirks) (a b : Compound) :
    Selector.unify q (.leaf a) (.leaf b)
      = match Compound.unify q a b with | some u => [.leaf u] | none => [] := by
  show unifyN q (23 + 1) (.leaf a) (.leaf b) = _
  simp only [unifyN]
  show (innerUnifyN q (22 + 1) (.leaf a) (.leaf b)).getD [] = _
  simp only [innerUnifyN, Selector.relOf, Selector.compound]
  cases Compound.unify q a b <;> simp

/-! ### a compound selector unified with a complex selector -/

theorem isSuper_leaf_any (q : SuperQuirks) (b : Compound) (x : Selector) :
    SelSet.isSuper q [.leaf b] [x] = Compound.isSuper q b x.compound := by
  unfold SelSet.isSuper
  simp only [superN, setSuperW, List.all_cons, List.all_nil, List.any_cons, List.any_nil,
    Bool.or_false, Bool.and_true, Selector.isSuperW, Selector.isSuperC]
  apply compound_isSuper_fuel
  simp [Selector.depthList, Selector.depth]

theorem Selector.Refines.refl_of (C : Compound → Compound → Bool) :
    ∀ (s : Selector), (∀ x ∈ s.compounds, C x x = true) → Selector.Refines C s s
  | .leaf c, h => .leaf (h c (by simp [Selector.compounds]))
  | .rel _ s c, h => .rel (h c (by simp [Selector.compounds]))
      (Selector.Refines.refl_of C s fun x hx => h x (by simp [Selector.compounds, hx]))

/-- replacing the rightmost compound by one below it gives a subselector -/
theorem isSuper_setLast (q : SuperQuirks) (k : Rel) (s : Selector) (ca u : Compound)
    (h : Compound.isSuper q ca u = true) :
    SelSet.isSuper q [.rel k s ca] [.rel k s u] = true := by
  unfold SelSet.isSuper
  simp only [superN, setSuperW, List.all_cons, List.all_nil, List.any_cons, List.any_nil,
    Bool.or_false, Bool.and_true, Selector.isSuperW]
  have hd : (Selector.rel k s ca).depth ≤ Selector.depthList [Selector.rel k s ca] := by
    simp [Selector.depthList]
  simp only [Selector.depth] at hd
  apply isSuperC_of_refines
  apply Selector.Refines.rel
  · have := compound_isSuper_fuel q ca u (Selector.depthList [Selector.rel k s ca]) (by omega)
    unfold Compound.isSuperW at this ⊢
    rw [this]; exact h
  · apply Selector.Refines.refl_of
    exact compounds_refl q _ s (by omega)

theorem Selector.unify_rel_leaf (q : UnifyQuirks) (k : Rel) (s : Selector) (ca b : Compound) :
    Selector.unify q (.rel k s ca) (.leaf b)
      = match Compound.unify q ca b with
        | some u => if u.isEmpty then [] else [.rel k s u]
        | none => [] := by
  have hf : 8 * ((Selector.rel k s ca).length + (Selector.leaf b).length) + 8
      = (8 * s.length + 22) + 1 + 1 := by simp [Selector.length]; omega
  unfold Selector.unify
  rw [hf]
  simp only [unifyN, innerUnifyN, Selector.relOf, Selector.compound]
  cases Compound.unify q ca b <;> simp

theorem Selector.unify_leaf_rel (q : UnifyQuirks) (k : Rel) (s : Selector) (ca b : Compound) :
    Selector.unify q (.leaf b) (.rel k s ca)
      = match Compound.unify q b ca with
        | some u => if u.isEmpty then [] else [.rel k s u]
        | none => [] := by
  have hf : 8 * ((Selector.leaf b).length + (Selector.rel k s ca).length) + 8
      = (8 * s.length + 22) + 1 + 1 := by simp [Selector.length]; omega
  unfold Selector.unify
  rw [hf]
  simp only [unifyN, innerUnifyN, Selector.relOf, Selector.compound]
  cases Compound.unify q b ca <;> simp

end Sel
