/-
C24 lemmas (namespace `Sel`): soundness of complex-selector unification
(`inner_unify` / `unify` / `with_rel_of` / `unify_relbox`) for the specification
configuration `unifySpec`, by induction on the fuel of the mutual recursion.
-/
import RsassModel.Sel.UnifyLemmas

namespace Sel

/-- the compound test of the specification -/
abbrev CS : Compound → Compound → Bool := Compound.isSuper superSpec

/-- `a` is a superselector of `b` (specification: `Selector::is_superselector`) -/
def sup (a b : Selector) : Prop := Selector.isSuperC true CS a b = true

theorem isSuperF_spec (a b : Selector) :
    Selector.isSuperF superSpec a b = Selector.isSuperC true CS a b := rfl

/-- a compound the unify law speaks about: no pseudo-element, element type with ≤ 1 `|` -/
def CompOk (c : Compound) : Prop := c.pseudoElement = none ∧ ∀ e, c.elem = some e → elemWf e = true

def Inv (s : Selector) : Prop := ∀ c ∈ s.compounds, CompOk c

/-- what the proof needs from the compound level (established in Theorems/C24.lean) -/
structure CFacts : Prop where
  refl : ∀ x, CS x x = true
  unify : ∀ a b c, CompOk a → CompOk b → Compound.unify unifySpec a b = some c →
    CS a c = true ∧ CS b c = true

theorem compOk_empty : CompOk Compound.empty := ⟨by decide, by intro e h; simp [Compound.empty, Compound.elem] at h⟩

theorem Inv.left {k : Rel} {s : Selector} {c : Compound} (h : Inv (.rel k s c)) : Inv s :=
  fun x hx => h x (by simp [Selector.compounds, hx])

theorem Inv.last {k : Rel} {s : Selector} {c : Compound} (h : Inv (.rel k s c)) : CompOk c :=
  h c (by simp [Selector.compounds])

theorem Inv.leaf {c : Compound} (h : Inv (.leaf c)) : CompOk c := h c (by simp [Selector.compounds])

theorem Inv.compound {s : Selector} (h : Inv s) : CompOk s.compound := h _ (compound_mem_compounds s)

theorem Inv.withEmpty {k : Rel} {o : Selector} (h : Inv o) : Inv (.rel k o Compound.empty) := by
  intro x hx
  simp only [Selector.compounds, List.mem_cons] at hx
  rcases hx with hx | hx
  · subst hx; exact compOk_empty
  · exact h x hx

theorem sup_refl (hC : CFacts) (s : Selector) : sup s s :=
  isSuperC_refl true CS s fun x _ => hC.refl x

/-! ### links -/

/-- a selector hanging on `(k, s)` is above one hanging on `(k', s')` whenever the rightmost
compounds are -/
def LinkOK (k : Rel) (s : Selector) (k' : Rel) (s' : Selector) : Prop :=
  ∀ c c', CS c c' = true → sup (.rel k s c) (.rel k' s' c')

theorem link_same (k : Rel) {s s' : Selector} (h : sup s s') : LinkOK k s k s' := by
  intro c c' hc
  cases k
  · exact isSuperC_anc.2 ⟨hc, s', by simp [ancCands], h⟩
  · exact isSuperC_par.2 ⟨hc, s', by simp [parCands], h⟩
  · exact isSuperC_sib.2 ⟨hc, s', by simp [sibCands], h⟩
  · exact isSuperC_adj.2 ⟨hc, s', c', rfl, h⟩

theorem link_anc_top {s u : Selector} {k' : Rel} (hk : k' = .ancestor ∨ k' = .parent) (h : sup s u) :
    LinkOK .ancestor s k' u := by
  intro c c' hc
  refine isSuperC_anc.2 ⟨hc, u, ?_, h⟩
  rcases hk with hk | hk <;> subst hk <;> simp [ancCands]

theorem link_anc_deep {s u y : Selector} (k' : Rel) (hy : y ∈ ancCands u) (h : sup s y) :
    LinkOK .ancestor s k' u := by
  intro c c' hc
  exact isSuperC_anc.2 ⟨hc, y, by simp [ancCands, hy], h⟩

theorem link_par_deep {s u y : Selector} {k' : Rel} (hk : k' = .sibling ∨ k' = .adjacent)
    (hy : y ∈ parCands true u) (h : sup s y) : LinkOK .parent s k' u := by
  intro c c' hc
  refine isSuperC_par.2 ⟨hc, y, ?_, h⟩
  rcases hk with hk | hk <;> subst hk <;> simpa [parCands] using hy

theorem link_sib_top {s u : Selector} {k' : Rel} (hk : k' = .sibling ∨ k' = .adjacent) (h : sup s u) :
    LinkOK .sibling s k' u := by
  intro c c' hc
  refine isSuperC_sib.2 ⟨hc, u, ?_, h⟩
  rcases hk with hk | hk <;> subst hk <;> simp [sibCands]

theorem link_sib_deep {s u y : Selector} {k' : Rel} (hk : k' = .sibling ∨ k' = .adjacent)
    (hy : y ∈ sibCands u) (h : sup s y) : LinkOK .sibling s k' u := by
  intro c c' hc
  refine isSuperC_sib.2 ⟨hc, y, ?_, h⟩
  rcases hk with hk | hk <;> subst hk <;> simp [sibCands, hy]

theorem ex_anc {o u : Selector} {e : Compound} (h : sup (.rel .ancestor o e) u) :
    ∃ y ∈ ancCands u, sup o y := (isSuperC_anc.1 h).2
theorem ex_par {o u : Selector} {e : Compound} (h : sup (.rel .parent o e) u) :
    ∃ y ∈ parCands true u, sup o y := (isSuperC_par.1 h).2
theorem ex_sib {o u : Selector} {e : Compound} (h : sup (.rel .sibling o e) u) :
    ∃ y ∈ sibCands u, sup o y := (isSuperC_sib.1 h).2

theorem mem_asRelVec {k : Rel} {L : List Selector} {p : Rel × Selector} :
    p ∈ asRelVec k L ↔ ∃ u ∈ L, p = (k, u) := by
  simp [asRelVec, eq_comm]

/-! ### the four mutually recursive functions -/

def SoundI (n : Nat) : Prop := ∀ a b L, Inv a → Inv b → innerUnifyN unifySpec n a b = some L →
  ∀ u ∈ L, sup a u ∧ sup b u
def SoundU (n : Nat) : Prop := ∀ a b, Inv a → Inv b → ∀ u ∈ unifyN unifySpec n a b, sup a u ∧ sup b u
def SoundW (n : Nat) : Prop := ∀ self k other, Inv self → Inv other →
  ∀ u ∈ withRelOfN unifySpec n self k other, sup self u ∧ sup (.rel k other Compound.empty) u
def SoundR (n : Nat) : Prop := ∀ ka a kb b v, Inv a → Inv b →
  unifyRelboxN unifySpec n (ka, a) (kb, b) = some v →
  ∀ p ∈ v, LinkOK ka a p.1 p.2 ∧ LinkOK kb b p.1 p.2

theorem soundU_step {n : Nat} (hI : SoundI n) : SoundU (n + 1) := by
  intro a b ha hb u hu
  simp only [unifyN] at hu
  cases h : innerUnifyN unifySpec n a b with
  | none => simp [h] at hu
  | some L => rw [h] at hu; exact hI a b L ha hb h u (by simpa using hu)

theorem soundW_step (hC : CFacts) {n : Nat} (hU : SoundU n) : SoundW (n + 1) := by
  intro self k other hs ho u hu
  cases self with
  | rel k' s' c' =>
    simp only [withRelOfN] at hu
    exact hU _ _ hs ho.withEmpty u hu
  | leaf c =>
    simp only [withRelOfN] at hu
    split at hu
    · simp at hu
    · simp only [List.mem_singleton] at hu
      subst hu
      constructor
      · show Selector.isSuperC true CS (.leaf c) _ = true
        simp only [Selector.isSuperC, Selector.compound]
        exact hC.refl c
      · have h0 : CS Compound.empty c = true := by
          -- `∅ ⊒ c`: every clause of the compound test is vacuous; `c` has no pseudo-element
          have hpe := hs.leaf.1
          cases c with
          | mk b e p cl i ats ps =>
            simp only [Compound.pseudoElement, Compound.pseudos] at hpe
            simp [CS, Compound.isSuper, Compound.isSuperW, Compound.isSuperG, Compound.empty, Compound.elem,
              Compound.placeholders, Compound.classes, Compound.id, Compound.attrs, Compound.pseudos,
              Compound.pseudoElement, elemClause, allAny, peClause, hpe]
        exact link_same k (sup_refl hC other) _ _ h0

theorem soundI_step (hC : CFacts) {n : Nat} (hR : SoundR n) : SoundI (n + 1) := by
  intro a b L ha hb h u hu
  simp only [innerUnifyN] at h
  have hcu : ∀ c, Compound.unify unifySpec a.compound b.compound = some c →
      CS a.compound c = true ∧ CS b.compound c = true :=
    fun c hc => hC.unify _ _ c ha.compound hb.compound hc
  cases a with
  | leaf ca =>
    cases b with
    | leaf cb =>
      simp only [Selector.relOf, Selector.compound] at h hcu
      cases hc : Compound.unify unifySpec ca cb with
      | none => simp [hc] at h
      | some c =>
        simp only [hc, List.isEmpty_nil, if_true, Option.some.injEq] at h
        subst h
        simp only [List.mem_singleton] at hu
        subst hu
        have := hcu c hc
        exact ⟨by simpa [sup, Selector.isSuperC, Selector.compound] using this.1,
          by simpa [sup, Selector.isSuperC, Selector.compound] using this.2⟩
    | rel kb sb cb =>
      simp only [Selector.relOf, Selector.compound] at h hcu
      cases hc : Compound.unify unifySpec ca cb with
      | none => simp [hc] at h
      | some c =>
        simp only [hc, List.isEmpty_cons, Bool.false_eq_true, if_false, Option.some.injEq] at h
        subst h
        split at hu
        · simp at hu
        · simp only [List.map_cons, List.map_nil, List.mem_singleton] at hu
          subst hu
          have := hcu c hc
          exact ⟨by simpa [sup, Selector.isSuperC, Selector.compound] using this.1,
            link_same kb (sup_refl hC sb) _ _ this.2⟩
  | rel ka sa ca =>
    cases b with
    | leaf cb =>
      simp only [Selector.relOf, Selector.compound] at h hcu
      cases hc : Compound.unify unifySpec ca cb with
      | none => simp [hc] at h
      | some c =>
        simp only [hc, List.isEmpty_cons, Bool.false_eq_true, if_false, Option.some.injEq] at h
        subst h
        split at hu
        · simp at hu
        · simp only [List.map_cons, List.map_nil, List.mem_singleton] at hu
          subst hu
          have := hcu c hc
          exact ⟨link_same ka (sup_refl hC sa) _ _ this.1,
            by simpa [sup, Selector.isSuperC, Selector.compound] using this.2⟩
    | rel kb sb cb =>
      simp only [Selector.relOf, Selector.compound] at h hcu
      cases hv : unifyRelboxN unifySpec n (ka, sa) (kb, sb) with
      | none => simp [hv] at h
      | some v =>
        simp only [hv] at h
        by_cases hve : v.isEmpty = true
        · simp [hve] at h
        · simp only [hve, Bool.false_eq_true, if_false] at h
          cases hc : Compound.unify unifySpec ca cb with
          | none => simp [hc] at h
          | some c =>
            simp only [hc, Option.some.injEq] at h
            subst h
            have hl := hR ka sa kb sb v ha.left hb.left hv
            have hcc := hcu c hc
            split at hu
            · simp at hu
            · simp only [List.mem_map] at hu
              obtain ⟨p, hp, rfl⟩ := hu
              exact ⟨(hl p hp).1 _ _ hcc.1, (hl p hp).2 _ _ hcc.2⟩

/-! ### `unify_relbox` -/

theorem of_inner {n : Nat} (hI : SoundI n) {k : Rel} {x y : Selector} {v : List (Rel × Selector)}
    {p : Rel × Selector} (hx : Inv x) (hy : Inv y)
    (h : (innerUnifyN unifySpec n x y).map (asRelVec k) = some v) (hp : p ∈ v) :
    ∃ u, p = (k, u) ∧ sup x u ∧ sup y u := by
  simp only [Option.map_eq_some_iff] at h
  obtain ⟨L, hL, rfl⟩ := h
  obtain ⟨u, hu, rfl⟩ := mem_asRelVec.1 hp
  exact ⟨u, rfl, hI x y L hx hy hL u hu⟩

theorem link_with (_hC : CFacts) {r k : Rel} {self other u : Selector}
    (hrk : r = .ancestor ∨ ((k = .sibling ∨ k = .adjacent) ∧ (r = .parent ∨ r = .sibling)))
    (h : sup self u ∧ sup (.rel r other Compound.empty) u) :
    LinkOK k self k u ∧ LinkOK r other k u := by
  refine ⟨link_same k h.1, ?_⟩
  rcases hrk with hr | ⟨hk, hr | hr⟩
  · subst hr
    obtain ⟨y, hy, hs⟩ := ex_anc h.2
    exact link_anc_deep k hy hs
  · subst hr
    obtain ⟨y, hy, hs⟩ := ex_par h.2
    exact link_par_deep hk hy hs
  · subst hr
    obtain ⟨y, hy, hs⟩ := ex_sib h.2
    exact link_sib_deep hk hy hs

theorem soundR_step (hC : CFacts) {n : Nat} (hI : SoundI n) (hU : SoundU n) (hW : SoundW n) :
    SoundR (n + 1) := by
  intro ka a kb b v ha hb h p hp
  simp only [unifyRelboxN] at h
  split at h
  · next hcond =>
    simp only [Bool.and_eq_true, decide_eq_true_eq] at hcond
    obtain ⟨⟨hk, _⟩, _⟩ := hcond
    subst hk
    simp only [Option.some.injEq] at h
    subst h
    obtain ⟨u, hu, rfl⟩ := mem_asRelVec.1 hp
    have := hU a b ha hb u hu
    exact ⟨link_same ka this.1, link_same ka this.2⟩
  · cases ka with
    | ancestor =>
      cases kb with
      | ancestor =>
        simp only [] at h
        split at h
        · obtain ⟨u, rfl, h1, h2⟩ := of_inner hI ha hb h hp
          exact ⟨link_same _ h1, link_same _ h2⟩
        · split at h
          · obtain ⟨u, rfl, h1, h2⟩ := of_inner hI hb ha h hp
            exact ⟨link_same _ h2, link_same _ h1⟩
          · simp only [Option.some.injEq] at h
            subst h
            obtain ⟨u, hu, rfl⟩ := mem_asRelVec.1 hp
            rcases List.mem_append.1 hu with hu | hu
            · have := link_with hC (k := .ancestor) (Or.inl rfl) (hW b .ancestor a hb ha u hu)
              exact ⟨this.2, this.1⟩
            · exact link_with hC (k := .ancestor) (Or.inl rfl) (hW a .ancestor b ha hb u hu)
      | parent =>
        simp only [] at h
        split at h
        · next hs =>
          simp only [Option.some.injEq] at h; subst h
          simp only [List.mem_singleton] at hp; subst hp
          exact ⟨link_anc_top (Or.inr rfl) hs, link_same _ (sup_refl hC b)⟩
        · simp only [Option.some.injEq] at h; subst h
          obtain ⟨u, hu, rfl⟩ := mem_asRelVec.1 hp
          have := link_with hC (k := .parent) (Or.inl rfl) (hW b .ancestor a hb ha u hu)
          exact ⟨this.2, this.1⟩
      | sibling =>
        simp only [Option.some.injEq] at h; subst h
        obtain ⟨u, hu, rfl⟩ := mem_asRelVec.1 hp
        have := link_with hC (k := .sibling) (Or.inl rfl) (hW b .ancestor a hb ha u hu)
        exact ⟨this.2, this.1⟩
      | adjacent =>
        simp only [Option.some.injEq] at h; subst h
        obtain ⟨u, hu, rfl⟩ := mem_asRelVec.1 hp
        have := link_with hC (k := .adjacent) (Or.inl rfl) (hW b .ancestor a hb ha u hu)
        exact ⟨this.2, this.1⟩
    | parent =>
      cases kb with
      | ancestor =>
        simp only [] at h
        split at h
        · next hs =>
          simp only [Option.some.injEq] at h; subst h
          simp only [List.mem_singleton] at hp; subst hp
          exact ⟨link_same _ (sup_refl hC a), link_anc_top (Or.inr rfl) hs⟩
        · simp only [Option.some.injEq] at h; subst h
          obtain ⟨u, hu, rfl⟩ := mem_asRelVec.1 hp
          exact link_with hC (k := .parent) (Or.inl rfl) (hW a .ancestor b ha hb u hu)
      | parent =>
        simp only [] at h
        obtain ⟨u, rfl, h1, h2⟩ := of_inner hI ha hb h hp
        exact ⟨link_same _ h1, link_same _ h2⟩
      | sibling =>
        simp only [Option.some.injEq] at h; subst h
        obtain ⟨u, hu, rfl⟩ := mem_asRelVec.1 hp
        have := link_with hC (k := .sibling) (Or.inr ⟨Or.inl rfl, Or.inl rfl⟩) (hW b .parent a hb ha u hu)
        exact ⟨this.2, this.1⟩
      | adjacent =>
        simp only [Option.some.injEq] at h; subst h
        obtain ⟨u, hu, rfl⟩ := mem_asRelVec.1 hp
        have := link_with hC (k := .adjacent) (Or.inr ⟨Or.inr rfl, Or.inl rfl⟩) (hW b .parent a hb ha u hu)
        exact ⟨this.2, this.1⟩
    | sibling =>
      cases kb with
      | ancestor =>
        simp only [Option.some.injEq] at h; subst h
        obtain ⟨u, hu, rfl⟩ := mem_asRelVec.1 hp
        exact link_with hC (k := .sibling) (Or.inl rfl) (hW a .ancestor b ha hb u hu)
      | parent =>
        simp only [Option.some.injEq] at h; subst h
        obtain ⟨u, hu, rfl⟩ := mem_asRelVec.1 hp
        exact link_with hC (k := .sibling) (Or.inr ⟨Or.inl rfl, Or.inl rfl⟩) (hW a .parent b ha hb u hu)
      | sibling =>
        simp only [] at h
        split at h
        · next hs =>
          simp only [Option.some.injEq] at h; subst h
          simp only [List.mem_singleton] at hp; subst hp
          exact ⟨link_sib_top (Or.inl rfl) hs, link_same _ (sup_refl hC b)⟩
        · split at h
          · next hs =>
            simp only [Option.some.injEq] at h; subst h
            simp only [List.mem_singleton] at hp; subst hp
            exact ⟨link_same _ (sup_refl hC a), link_sib_top (Or.inl rfl) hs⟩
          · split at h
            · simp only [Option.some.injEq] at h; subst h
              obtain ⟨u, hu, rfl⟩ := mem_asRelVec.1 hp
              rcases List.mem_append.1 hu with hu | hu
              · rcases List.mem_append.1 hu with hu | hu
                · have := link_with hC (k := .sibling) (Or.inr ⟨Or.inl rfl, Or.inr rfl⟩)
                    (hW b .sibling a hb ha u hu)
                  exact ⟨this.2, this.1⟩
                · exact link_with hC (k := .sibling) (Or.inr ⟨Or.inl rfl, Or.inr rfl⟩)
                    (hW a .sibling b ha hb u hu)
              · have := hU a b ha hb u hu
                exact ⟨link_same _ this.1, link_same _ this.2⟩
            · simp only [Option.some.injEq] at h; subst h
              obtain ⟨u, hu, rfl⟩ := mem_asRelVec.1 hp
              have := hU a b ha hb u hu
              exact ⟨link_same _ this.1, link_same _ this.2⟩
      | adjacent =>
        simp only [] at h
        split at h
        · next hs =>
          simp only [Option.some.injEq] at h; subst h
          simp only [List.mem_singleton] at hp; subst hp
          exact ⟨link_sib_top (Or.inr rfl) hs, link_same _ (sup_refl hC b)⟩
        · split at h
          · simp only [Option.some.injEq] at h; subst h
            obtain ⟨u, hu, rfl⟩ := mem_asRelVec.1 hp
            have := link_with hC (k := .adjacent) (Or.inr ⟨Or.inr rfl, Or.inr rfl⟩)
              (hW b .sibling a hb ha u hu)
            exact ⟨this.2, this.1⟩
          · simp only [Option.some.injEq] at h; subst h
            obtain ⟨u, hu, rfl⟩ := mem_asRelVec.1 hp
            rcases List.mem_append.1 hu with hu | hu
            · have := link_with hC (k := .adjacent) (Or.inr ⟨Or.inr rfl, Or.inr rfl⟩)
                (hW b .sibling a hb ha u hu)
              exact ⟨this.2, this.1⟩
            · have := hU a b ha hb u hu
              exact ⟨link_sib_top (Or.inr rfl) this.1, link_same _ this.2⟩
    | adjacent =>
      cases kb with
      | ancestor =>
        simp only [Option.some.injEq] at h; subst h
        obtain ⟨u, hu, rfl⟩ := mem_asRelVec.1 hp
        exact link_with hC (k := .adjacent) (Or.inl rfl) (hW a .ancestor b ha hb u hu)
      | parent =>
        simp only [Option.some.injEq] at h; subst h
        obtain ⟨u, hu, rfl⟩ := mem_asRelVec.1 hp
        exact link_with hC (k := .adjacent) (Or.inr ⟨Or.inr rfl, Or.inl rfl⟩) (hW a .parent b ha hb u hu)
      | sibling =>
        simp only [] at h
        split at h
        · next hs =>
          simp only [Option.some.injEq] at h; subst h
          simp only [List.mem_singleton] at hp; subst hp
          exact ⟨link_same _ (sup_refl hC a), link_sib_top (Or.inr rfl) hs⟩
        · split at h
          · simp only [Option.some.injEq] at h; subst h
            obtain ⟨u, hu, rfl⟩ := mem_asRelVec.1 hp
            exact link_with hC (k := .adjacent) (Or.inr ⟨Or.inr rfl, Or.inr rfl⟩)
              (hW a .sibling b ha hb u hu)
          · simp only [Option.some.injEq] at h; subst h
            obtain ⟨u, hu, rfl⟩ := mem_asRelVec.1 hp
            rcases List.mem_append.1 hu with hu | hu
            · exact link_with hC (k := .adjacent) (Or.inr ⟨Or.inr rfl, Or.inr rfl⟩)
                (hW a .sibling b ha hb u hu)
            · have := hU b a hb ha u hu
              exact ⟨link_same _ this.2, link_sib_top (Or.inr rfl) this.1⟩
      | adjacent =>
        simp only [] at h
        obtain ⟨u, rfl, h1, h2⟩ := of_inner hI ha hb h hp
        exact ⟨link_same _ h1, link_same _ h2⟩

/-- every level of the mutual recursion is sound -/
theorem sound_all (hC : CFacts) : ∀ n, SoundI n ∧ SoundU n ∧ SoundW n ∧ SoundR n
  | 0 => ⟨fun _ _ _ _ _ h => by simp [innerUnifyN] at h,
          fun _ _ _ _ u hu => by simp [unifyN] at hu,
          fun _ _ _ _ _ u hu => by simp [withRelOfN] at hu,
          fun _ _ _ _ _ _ _ h => by simp [unifyRelboxN] at h⟩
  | n + 1 =>
    have ih := sound_all hC n
    ⟨soundI_step hC ih.2.2.2, soundU_step ih.1, soundW_step hC ih.2.1,
      soundR_step hC ih.1 ih.2.1 ih.2.2.1⟩

/-- `inner_unify` at the top level: only the parts to the LEFT of the rightmost compounds need
`Inv`; for the rightmost compounds soundness of their own unification suffices (so they may
carry pseudo-elements, as far as `compound_unify_sound` allows). -/
theorem innerUnify_sound_top (hC : CFacts) {n : Nat} (hR : SoundR n) (a b : Selector) (L : List Selector)
    (hla : ∀ k s c, a = .rel k s c → Inv s) (hlb : ∀ k s c, b = .rel k s c → Inv s)
    (hcu : ∀ c, Compound.unify unifySpec a.compound b.compound = some c →
      CS a.compound c = true ∧ CS b.compound c = true)
    (h : innerUnifyN unifySpec (n + 1) a b = some L) : ∀ u ∈ L, sup a u ∧ sup b u := by
  intro u hu
  simp only [innerUnifyN] at h
  cases a with
  | leaf ca =>
    cases b with
    | leaf cb =>
      simp only [Selector.relOf, Selector.compound] at h hcu
      cases hc : Compound.unify unifySpec ca cb with
      | none => simp [hc] at h
      | some c =>
        simp only [hc, List.isEmpty_nil, if_true, Option.some.injEq] at h
        subst h
        simp only [List.mem_singleton] at hu
        subst hu
        have := hcu c hc
        exact ⟨by simpa [sup, Selector.isSuperC, Selector.compound] using this.1,
          by simpa [sup, Selector.isSuperC, Selector.compound] using this.2⟩
    | rel kb sb cb =>
      simp only [Selector.relOf, Selector.compound] at h hcu
      cases hc : Compound.unify unifySpec ca cb with
      | none => simp [hc] at h
      | some c =>
        simp only [hc, List.isEmpty_cons, Bool.false_eq_true, if_false, Option.some.injEq] at h
        subst h
        split at hu
        · simp at hu
        · simp only [List.map_cons, List.map_nil, List.mem_singleton] at hu
          subst hu
          have := hcu c hc
          exact ⟨by simpa [sup, Selector.isSuperC, Selector.compound] using this.1,
            link_same kb (sup_refl hC sb) _ _ this.2⟩
  | rel ka sa ca =>
    cases b with
    | leaf cb =>
      simp only [Selector.relOf, Selector.compound] at h hcu
      cases hc : Compound.unify unifySpec ca cb with
      | none => simp [hc] at h
      | some c =>
        simp only [hc, List.isEmpty_cons, Bool.false_eq_true, if_false, Option.some.injEq] at h
        subst h
        split at hu
        · simp at hu
        · simp only [List.map_cons, List.map_nil, List.mem_singleton] at hu
          subst hu
          have := hcu c hc
          exact ⟨link_same ka (sup_refl hC sa) _ _ this.1,
            by simpa [sup, Selector.isSuperC, Selector.compound] using this.2⟩
    | rel kb sb cb =>
      simp only [Selector.relOf, Selector.compound] at h hcu
      cases hv : unifyRelboxN unifySpec n (ka, sa) (kb, sb) with
      | none => simp [hv] at h
      | some v =>
        simp only [hv] at h
        by_cases hve : v.isEmpty = true
        · simp [hve] at h
        · simp only [hve, Bool.false_eq_true, if_false] at h
          cases hc : Compound.unify unifySpec ca cb with
          | none => simp [hc] at h
          | some c =>
            simp only [hc, Option.some.injEq] at h
            subst h
            have hl := hR ka sa kb sb v (hla _ _ _ rfl) (hlb _ _ _ rfl) hv
            have hcc := hcu c hc
            split at hu
            · simp at hu
            · simp only [List.mem_map] at hu
              obtain ⟨p, hp, rfl⟩ := hu
              exact ⟨(hl p hp).1 _ _ hcc.1, (hl p hp).2 _ _ hcc.2⟩


theorem unify_sound_top (hC : CFacts) (a b : Selector)
    (hla : ∀ k s c, a = .rel k s c → Inv s) (hlb : ∀ k s c, b = .rel k s c → Inv s)
    (hcu : ∀ c, Compound.unify unifySpec a.compound b.compound = some c →
      CS a.compound c = true ∧ CS b.compound c = true)
    (u : Selector) (hu : u ∈ Selector.unify unifySpec a b) : sup a u ∧ sup b u := by
  unfold Selector.unify at hu
  have hf : 8 * (a.length + b.length) + 8 = (8 * (a.length + b.length) + 6) + 1 + 1 := by omega
  rw [hf] at hu
  simp only [unifyN] at hu
  cases h : innerUnifyN unifySpec (8 * (a.length + b.length) + 6 + 1) a b with
  | none => simp [h] at hu
  | some L =>
    rw [h] at hu
    exact innerUnify_sound_top hC (sound_all hC _).2.2.2 a b L hla hlb hcu h u (by simpa using hu)

/-- `[a] ⊒ [u]` as `selector.is-superselector` computes it is the self-fuelling selector test -/
theorem isSuper_singleton (q : SuperQuirks) (a u : Selector) :
    SelSet.isSuper q [a] [u] = Selector.isSuperF q a u := by
  unfold SelSet.isSuper Selector.isSuperF
  simp only [superN, setSuperW, List.all_cons, List.all_nil, List.any_cons, List.any_nil,
    Bool.or_false, Bool.and_true, Selector.isSuperW]
  apply isSuperC_congr
  intro x hx y _
  have h1 := Compound.depth_le_of_mem a x hx
  exact compound_isSuper_fuel q x y _ (by simp [Selector.depthList]; omega)

end Sel
