/-
Selector nesting (C19), namespace `Sel`.  Mirrors

  css/selectors/cssselectorset.rs  CssSelectorSet::nest (round-robin merge of the rows)
  css/selectors/selectorset.rs     SelectorSet::resolve_ref (same round-robin)
  css/selectors/selector.rs        Selector::nest, resolve_ref, resolve_ref_in_pseudo
  css/selectors/compound.rs        CompoundSelector::append (print + re-parse, modelled
                                   structurally), resolve_ref_in_pseudo, and the special case
                                   `CompoundSelector::default().unify(x)` reached from resolve_ref
  css/selectors/pseudo.rs          Pseudo::resolve_ref
  css/selectors/context.rs         SelectorCtx::{nest, at_root, get_backref}
  output/transform.rs              Item::Rule / Item::Property handling (rule tree → blocks)
  css/rule.rs                      Rule::write (through Sel/Placeholder.lean `ruleHeader`)
-/
import RsassModel.Sel.Syntax
import RsassModel.Sel.Print
import RsassModel.Sel.Placeholder

namespace Sel

/-! ### Round-robin merge -/

/-- the `next()` of every row iterator that still has an element -/
def heads {α : Type} : List (List α) → List α
  | [] => []
  | [] :: rows => heads rows
  | (x :: _) :: rows => x :: heads rows

def tails {α : Type} : List (List α) → List (List α)
  | [] => []
  | row :: rows => row.tail :: tails rows

def allEmpty {α : Type} : List (List α) → Bool
  | [] => true
  | row :: rows => row.isEmpty && allEmpty rows

/-- one pass of the `while !empty { for i in &mut parts { if let Some(next) = i.next() … } }`
loop per unit of fuel -/
def roundRobinAux {α : Type} : Nat → List (List α) → List α
  | 0, _ => []
  | fuel + 1, rows => if allEmpty rows then [] else heads rows ++ roundRobinAux fuel (tails rows)

def maxLen {α : Type} : List (List α) → Nat
  | [] => 0
  | row :: rows => max row.length (maxLen rows)

/-- cssselectorset.rs `CssSelectorSet::nest` / selectorset.rs `SelectorSet::resolve_ref`:
take one element of every row in turn until all rows are exhausted. -/
def roundRobin {α : Type} (rows : List (List α)) : List α := roundRobinAux (maxLen rows) rows

/-! ### Deviation flags -/

/-- Deviation flags of nesting; `nestSpec` = all off.  `ampViaUnify` and `suffixUnwrapPanics`
were repaired in /repo (d714329, 1acf5fd); `appendIdLastWins` is open.  `nestAsis` is the code
today, `nestOld` the code before those commits (kept for the refutations). -/
structure NestQuirks where
  /-- (before d714329) selector.rs `resolve_ref`: the substituted compound is passed through
  `Selector::unify` with an empty compound, which de-duplicates classes and placeholders,
  moves the pseudo-element last (dropping further ones), drops `:host` combinations, and
  drops the selector when the outer selector ends in a combinator. -/
  ampViaUnify : Bool := false
  /-- (before 1acf5fd) selector.rs `resolve_ref`: `s.compound.append(..).unwrap()` — a parent
  that cannot take the suffix is a panic instead of the error
  `Parent ".." is incompatible with this selector.` -/
  suffixUnwrapPanics : Bool := false
  /-- compound.rs `CompoundSelector::append` prints parent and suffix and parses the text again;
  the parser's `result.id = Some(id)` keeps only the last `#id`, so `#a { &#b }` gives `#b`
  instead of `#a#b`.  NOTE the default is `true` (= the code): record literals written before
  this flag existed (`{ ampViaUnify := … }` in other families) keep denoting the code. -/
  appendIdLastWins : Bool := true
  deriving Repr, DecidableEq

def nestSpec : NestQuirks := { appendIdLastWins := false }
/-- the code as it is today -/
def nestAsis : NestQuirks := {}
/-- the code before d714329 / 1acf5fd -/
def nestOld : NestQuirks := { ampViaUnify := true, suffixUnwrapPanics := true }

/-! ### `Selector::nest` (no `&` in the inner selector) -/

/-- `!self.is_local_empty() || self.rel_of.is_some()` is false: nesting in the root -/
def Selector.isRootLike (s : Selector) : Bool := s.isLocalEmpty && !s.isComplex

/-- selector.rs `Selector::nest`: `self` is the outer selector. -/
def Selector.nest (self : Selector) : Selector → Selector
  | .leaf c => if self.isRootLike then .leaf c else .rel .ancestor self c
  | .rel kind r c =>
    if self.isRootLike then .rel kind r c
    else
      let rel' := Selector.nest self r
      if rel'.isLocalEmpty then
        match rel' with
        | .rel .ancestor rr _ => .rel kind rr c
        | .rel rk rr _ => .rel kind (.rel rk rr Compound.empty) c
        | .leaf _ => .leaf c
      else .rel kind rel' c

/-! ### `CompoundSelector::append`: print both, parse the concatenation -/

def isNameChar (c : Char) : Bool := c.isAlphanum || c = '-' || c = '_' || c.toNat ≥ 0x80

def appendToLast (l : List (List Char)) (sfx : List Char) : List (List Char) :=
  match l.reverse with
  | [] => []
  | x :: rest => (rest.reverse) ++ [x ++ sfx]

/-- What re-parsing `print a ++ sfx` gives when `sfx` is a name fragment (`&-x`): the
fragment extends the *last printed* simple selector of `a`.  `none` = the text does not
parse as one compound selector (`.unwrap()` panics in `resolve_ref`; C01). -/
def Compound.appendSuffix (a : Compound) (sfx : List Char) : Option Compound :=
  match a with
  | .mk b e p c i ats ps =>
    match ps.reverse with
    | .mk n .none el :: rest => some (.mk b e p c i ats (rest.reverse ++ [.mk (n ++ sfx) .none el]))
    | _ :: _ => none
    | [] =>
      if !ats.isEmpty then none
      else if !c.isEmpty then some (.mk b e p (appendToLast c sfx) i ats ps)
      else match i with
        | some i => some (.mk b e p c (some (i ++ sfx)) ats ps)
        | none =>
          if !p.isEmpty then some (.mk b e (appendToLast p sfx) c i ats ps)
          else match e with
            | some e => if e.getLast? = some '*' then none else some (.mk b (some (e ++ sfx)) p c i ats ps)
            | none => some (.mk b (some sfx) p c i ats ps)

/-- compound.rs `CompoundSelector::append(self, other)` where `other` carries no `&`:
`self`'s simple selectors followed by `other`'s; an element type on `other` can only be a
name fragment glued to `self`'s last simple selector; a later `#id` overwrites.
An element type `*` hidden by the printer (`*.a` prints `.a`) is lost by the round trip. -/
def mergeId (keepIds : Bool) : Option (List Char) → Option (List Char) → Option (List Char)
  | some x, some y => if keepIds then some (y ++ '#' :: x) else some x
  | some x, none => some x
  | none, i => i

/-- `other`'s simple selectors behind the (suffix-extended) `self` -/
def Compound.mergeInto (keepIds : Bool) : Option Compound → Compound → Option Compound
  | none, _ => none
  | some (.mk _ e p c i ats ps), .mk _ _ p' c' i' ats' ps' =>
    some (.mk false e (p ++ p') (c ++ c') (mergeId keepIds i' i) (ats ++ ats') (ps ++ ps'))

def Compound.appendWith (keepIds : Bool) (a b : Compound) : Option Compound :=
  let a1 : Compound := match a with
    | .mk bk e p c i ats ps =>
      .mk bk (match e with | some e => if elemShown e p c i ps.length then some e else none | none => none) p c i ats ps
  let a2 : Option Compound := match b.elem with
    | none => some a1
    | some sfx => a1.appendSuffix sfx
  Compound.mergeInto keepIds a2 b

theorem Compound.mergeInto_id_none (k k' : Bool) (a2 : Option Compound) (b : Compound) (h : b.id = none) :
    Compound.mergeInto k a2 b = Compound.mergeInto k' a2 b := by
  cases b with
  | mk b2 e2 p2 c2 i2 a2' ps2 =>
    simp only [Compound.id] at h
    subst h
    cases a2 with
    | none => rfl
    | some r => cases r; rfl

/-- the code: the re-parse keeps the last `#id` only (`keepIds = false`).  `keepIds = true` is
the specification: both ids stay, written `#a#b` (held as the id text `a#b`). -/
def Compound.append (a b : Compound) : Option Compound := Compound.appendWith false a b

@[simp] theorem Compound.appendWith_false (a b : Compound) :
    Compound.appendWith false a b = Compound.append a b := rfl

/-! ### `CompoundSelector::default().unify(x)` as reached from `resolve_ref` -/

def dedupKeepFirst : List (List Char) → List (List Char) → List (List Char)
  | [], acc => acc.reverse
  | x :: xs, acc => if acc.contains x then dedupKeepFirst xs acc else dedupKeepFirst xs (x :: acc)

/-- compound.rs `CompoundSelector::unify` with `self = default()`: `none` = no unification. -/
def Compound.unifyEmpty (o : Compound) : Option Compound :=
  match o with
  | .mk _ e p c i ats ps =>
    let pe := ps.find? Pseudo.isElement
    let ps1 := ps.filter (fun x => !x.isElement)
    let ps2 := match pe with | some x => ps1 ++ [x] | none => ps1
    let c' := dedupKeepFirst c []
    if ps2.any Pseudo.isHost && (ps2.any Pseudo.isHover || e.isSome || !c'.isEmpty) then none
    else some (.mk false e (dedupKeepFirst p []) c' i ats ps2)

/-- selector.rs `resolve_ref`, closure body for one outer selector `s`:
`Selector{rel_of: s.rel_of, compound: default}.unify(Selector{rel_of: None, compound:
s.compound.append(c)})`.  `spec`: `s` with its last compound replaced by the appended one. -/
def resolveOne (q : NestQuirks) (s : Selector) (c : Compound) : List Selector :=
  match Compound.appendWith (!q.appendIdLastWins) s.compound c with
  | none => []
  | some ap =>
    if q.ampViaUnify then
      match ap.unifyEmpty with
      | none => []
      | some u =>
        match s with
        | .leaf _ => [.leaf u]
        | .rel k r _ => if u.isEmpty then [] else [.rel k r u]
    else [s.setCompound ap]

def resolveOneList (q : NestQuirks) (c : Compound) : List Selector → List Selector
  | [] => []
  | s :: ss => resolveOne q s c ++ resolveOneList q c ss

/-- the `if self.compound.backref.is_some() { … } else { vec![self] }` part of `resolve_ref`
(with `rel_of` already taken) -/
def resolveCompound (q : NestQuirks) (ctx : SelSet) (c : Compound) : List Selector :=
  if c.backref then resolveOneList q (c.setBackref false) ctx else [.leaf c]

/-- selector.rs `resolve_ref`, the `loop { … t.insert((rel_of.0, rel)) }`: hang `(k, rel)` on
the leftmost compound of `r` -/
def Selector.attachDeepest (k : Rel) (rel : Selector) : Selector → Selector
  | .leaf c => .rel k rel c
  | .rel k' s c => .rel k' (Selector.attachDeepest k rel s) c

def attachAll (k : Rel) (rels result : List Selector) : List Selector :=
  match rels with
  | [] => []
  | rel :: more => result.map (Selector.attachDeepest k rel) ++ attachAll k more result

mutual
  /-- selector.rs `Selector::resolve_ref` (with `resolve_ref_in_pseudo` done compound by
  compound; equal to the Rust double pass because `ctx` has no `&`). -/
  def Selector.resolveRef (q : NestQuirks) (ctx : SelSet) : Selector → List Selector
    | .leaf c => resolveCompound q ctx (Compound.resolveInPseudo q ctx c)
    | .rel k s c =>
      attachAll k (Selector.resolveRef q ctx s) (resolveCompound q ctx (Compound.resolveInPseudo q ctx c))
  /-- compound.rs `CompoundSelector::resolve_ref_in_pseudo` -/
  def Compound.resolveInPseudo (q : NestQuirks) (ctx : SelSet) : Compound → Compound
    | .mk b e p c i a ps => .mk b e p c i a (Pseudo.resolveRefList q ctx ps)
  /-- pseudo.rs `Pseudo::resolve_ref` -/
  def Pseudo.resolveRef (q : NestQuirks) (ctx : SelSet) : Pseudo → Pseudo
    | .mk n a e => .mk n (PArg.resolveRef q ctx a) e
  def PArg.resolveRef (q : NestQuirks) (ctx : SelSet) : PArg → PArg
    | .sel s => .sel (roundRobin (Selector.resolveRefRows q ctx s))
    | .other s => .other s
    | .none => .none
  def Pseudo.resolveRefList (q : NestQuirks) (ctx : SelSet) : List Pseudo → List Pseudo
    | [] => []
    | p :: ps => Pseudo.resolveRef q ctx p :: Pseudo.resolveRefList q ctx ps
  /-- the rows `self.s.into_iter().map(|s| s.resolve_ref(ctx))` of `SelectorSet::resolve_ref` -/
  def Selector.resolveRefRows (q : NestQuirks) (ctx : SelSet) : List Selector → List (List Selector)
    | [] => []
    | s :: ss => Selector.resolveRef q ctx s :: Selector.resolveRefRows q ctx ss
end

/-- selectorset.rs `SelectorSet::resolve_ref` -/
def SelSet.resolveRef (q : NestQuirks) (ctx : SelSet) (s : SelSet) : SelSet :=
  roundRobin (Selector.resolveRefRows q ctx s)

/-! ### Failure of `CompoundSelector::append` in `resolve_ref` (an error; a panic before 1acf5fd) -/

mutual
  /-- some `&`-compound of the selector cannot be appended to some outer compound -/
  def Selector.resolvePanics (ctx : SelSet) : Selector → Bool
    | .leaf c => Compound.resolvePanics ctx c
    | .rel _ s c => Compound.resolvePanics ctx c || Selector.resolvePanics ctx s
  def Compound.resolvePanics (ctx : SelSet) : Compound → Bool
    | .mk b e p c i a ps =>
      (b && ctx.any (fun s => (s.compound.append (.mk false e p c i a [])).isNone))
        || Pseudo.resolvePanicsList ctx ps
  def Pseudo.resolvePanics (ctx : SelSet) : Pseudo → Bool
    | .mk _ a _ => PArg.resolvePanics ctx a
  def PArg.resolvePanics (ctx : SelSet) : PArg → Bool
    | .sel s => Selector.resolvePanicsList ctx s
    | _ => false
  def Pseudo.resolvePanicsList (ctx : SelSet) : List Pseudo → Bool
    | [] => false
    | p :: ps => Pseudo.resolvePanics ctx p || Pseudo.resolvePanicsList ctx ps
  def Selector.resolvePanicsList (ctx : SelSet) : List Selector → Bool
    | [] => false
    | s :: ss => Selector.resolvePanics ctx s || Selector.resolvePanicsList ctx ss
end

/-! ### `CssSelectorSet::nest`, `SelectorCtx` -/

/-- one row of `CssSelectorSet::nest`: all results for the inner selector `o` -/
def nestRow (q : NestQuirks) (self backref : SelSet) (o : Selector) : List Selector :=
  if o.hasBackref then o.resolveRef q backref else self.map (fun s => s.nest o)

/-- cssselectorset.rs `CssSelectorSet::nest(&self, other, backref)` -/
def SelSet.nest (q : NestQuirks) (self other backref : SelSet) : SelSet :=
  roundRobin (other.map (nestRow q self backref))

/-- selectorset.rs `SelectorSet::is_root` -/
def SelSet.isRoot (s : SelSet) : Bool :=
  match s with
  | [x] => x == Selector.root
  | _ => false

/-- context.rs `struct SelectorCtx { s, backref }` -/
structure Ctx where
  s : SelSet
  backref : SelSet

def Ctx.root : Ctx := ⟨SelSet.root, SelSet.root⟩
/-- context.rs `SelectorCtx::get_backref` -/
def Ctx.getBackref (c : Ctx) : SelSet := if SelSet.isRoot c.s then c.backref else c.s
/-- context.rs `SelectorCtx::nest` -/
def Ctx.nest (q : NestQuirks) (c : Ctx) (sels : SelSet) : SelSet := SelSet.nest q c.s sels c.getBackref
/-- `impl From<CssSelectorSet> for SelectorCtx` -/
def Ctx.ofSet (s : SelSet) : Ctx := ⟨s, SelSet.root⟩
/-- context.rs `SelectorCtx::at_root` -/
def Ctx.atRoot (q : NestQuirks) (c : Ctx) (sels : SelSet) : Ctx :=
  ⟨SelSet.resolveRef q c.getBackref sels, c.getBackref⟩

def Ctx.nestPanics (c : Ctx) (sels : SelSet) : Bool :=
  sels.any (fun o => o.hasBackref && Selector.resolvePanics c.getBackref o)

/-! ### Rule trees (output/transform.rs `Item::Rule`, `Item::Property`; css/rule.rs) -/

/-- a style rule body: declarations (by name) and nested rules, in source order -/
inductive Item where
  | decl (name : List Char)
  | rule (sels : SelSet) (body : List Item)
  | atRoot (sels : SelSet) (body : List Item)

/-- one emitted rule: resolved selector list and its declaration names.  Consecutive
declarations of one rule share a block; a nested rule that emits something closes it
(cssdest.rs `RuleDest::push_item` → `commit_rule`; an empty child only sends
`Item::Separator`, which does not commit). -/
abbrev Block := SelSet × List (List Char)

def pushDecl (sel : SelSet) (d : List Char) (openBlock : Bool) (out : List Block) : List Block :=
  -- `out` is kept reversed (latest block first)
  match openBlock, out with
  | true, (s, ds) :: rest => (s, ds ++ [d]) :: rest
  | _, _ => (sel, [d]) :: out

mutual
  /-- transform.rs `handle_item`, `Item::Rule` / `Item::AtRoot` arm: nest the selectors,
  then the body -/
  def Item.eval (q : NestQuirks) (ctx : Ctx) (out : List Block) : Item → List Block
    | .decl _ => out
    | .rule sels body =>
      let s := ctx.nest q sels
      Item.evalBody q (Ctx.ofSet s) s false out body
    | .atRoot sels body =>
      let c := ctx.atRoot q sels
      Item.evalBody q c c.s false out body
  /-- transform.rs `handle_body` inside a rule whose resolved selector is `sel` -/
  def Item.evalBody (q : NestQuirks) (ctx : Ctx) (sel : SelSet) (openBlock : Bool) (out : List Block)
      : List Item → List Block
    | [] => out
    | .decl d :: rest => Item.evalBody q ctx sel true (pushDecl sel d openBlock out) rest
    | .rule sels body :: rest =>
      let out' := Item.eval q ctx out (.rule sels body)
      Item.evalBody q ctx sel (openBlock && out'.length == out.length) out' rest
    | .atRoot sels body :: rest =>
      let out' := Item.eval q ctx out (.atRoot sels body)
      Item.evalBody q ctx sel (openBlock && out'.length == out.length) out' rest
end

/-- the whole stylesheet: top-level rules evaluated in the root context -/
def evalSheet (q : NestQuirks) : List Item → List Block → List Block
  | [], out => out
  | it :: rest, out => evalSheet q rest (Item.eval q Ctx.root out it)

def sheetBlocks (q : NestQuirks) (items : List Item) : List Block := (evalSheet q items []).reverse

mutual
  def Item.panics (ctx : Ctx) (q : NestQuirks) : Item → Bool
    | .decl _ => false
    | .rule sels body => ctx.nestPanics sels || Item.panicsList (Ctx.ofSet (ctx.nest q sels)) q body
    | .atRoot sels body => ctx.nestPanics sels || Item.panicsList (ctx.atRoot q sels) q body
  def Item.panicsList (ctx : Ctx) (q : NestQuirks) : List Item → Bool
    | [] => false
    | it :: rest => Item.panics ctx q it || Item.panicsList ctx q rest
end

/-- text of the emitted rule headers with their declarations:
`header{d1;d2}` per block, blocks whose selectors are all placeholders are skipped
(css/rule.rs `Rule::write`). -/
def renderBlocksQ (pq : PhQuirks) (compressed : Bool) : List Block → List Char
  | [] => []
  | (s, ds) :: rest =>
    (match ruleHeaderQ pq compressed (!ds.isEmpty) s with
     | none => []
     | some h => h ++ ['{'] ++ (ds.foldr (fun d acc => d ++ [';'] ++ acc) []) ++ ['}', '\n'])
      ++ renderBlocksQ pq compressed rest

def renderBlocks (compressed : Bool) (b : List Block) : List Char := renderBlocksQ phAsis compressed b

end Sel

namespace Sel

/-- what compiling a sheet of rules gives -/
inductive Outcome where
  | ok (blocks : List Block)
  | err
  | panic

/-- transform.rs: the first `&` that cannot be resolved aborts the compilation
(`Invalid::AtError`, before 1acf5fd a panic); otherwise the emitted blocks -/
def sheetOutcome (q : NestQuirks) (items : List Item) : Outcome :=
  if Item.panicsList Ctx.root q items then (if q.suffixUnwrapPanics then .panic else .err)
  else .ok (sheetBlocks q items)

def Outcome.isPanic : Outcome → Bool
  | .panic => true
  | _ => false

/-- shape of an inner selector accepted by the `nest` printing theorems: only the leftmost
compound may be empty (a leading combinator `> b`), and then not with the descendant relation -/
def Selector.innerOk : Selector → Bool
  | .leaf _ => true
  | .rel k r c => !c.isEmpty && Selector.innerOk r && (!r.isLocalEmpty || k != .ancestor)

end Sel
