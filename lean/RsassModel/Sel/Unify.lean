/-
C24 model, part 1 (namespace `Sel`): selector unification.

  Rust                                                     Lean
  -------------------------------------------------------  -----------------------------------
  elemtype.rs   ElemType::unify                            Sel.elemUnify
  compound.rs   combine_vital                              Sel.combineVital
  compound.rs   CompoundSelector::must_not_inherit         Sel.Compound.mustNotInherit
  compound.rs   CompoundSelector::unify                    Sel.Compound.unifyG / Sel.Compound.unify
  selector.rs   Selector::inner_unify / unify / unify_extend   Sel.innerUnifyN / Sel.unifyN / Sel.Selector.unify
  selector.rs   fn unify_relbox                            Sel.unifyRelboxN
  selector.rs   Selector::with_rel_of                      Sel.withRelOfN
  cssselectorset.rs CssSelectorSet::unify                  Sel.SelSet.unifyW / Sel.SelSet.unify

`inner_unify`, `unify_relbox` and `with_rel_of` call each other on rebuilt selectors; the
model threads a fuel (`…N`), `Selector.unify` supplies `8·(|a|+|b|)+8`, which the mutual
recursion never exhausts (each round of at most three calls drops a compound).
-/
import RsassModel.Sel.Super

namespace Sel

/-- Deviations of the code from property C24 (`spec` = all off). -/
structure UnifyQuirks where
  /-- compound.rs `combine_vital(v, other, q)` removes an element `a` when the *other* list
  holds a `b` with `q(b, a)`, i.e. a superselector of it: the more specific of two comparable
  pseudo selectors is dropped and the more general one kept (`:is(.a)` ∪ `:is(.a, .b)` gives
  `:is(.a, .b)`), so an input is no longer a superselector of the result.  Off = the more
  general one is dropped. -/
  vitalKeepsGeneral : Bool := false
  sup : SuperQuirks := {}
  deriving DecidableEq, Repr

def unifySpec : UnifyQuirks := {}
def unifyAsis : UnifyQuirks := { vitalKeepsGeneral := true, sup := superAsis }

/-- `Pseudo::is_superselector` with the real relation on arguments -/
def Pseudo.isSuper (q : SuperQuirks) (a b : Pseudo) : Bool := Pseudo.isSuperW (SelSet.isSuper q) a b

/-- `CompoundSelector::is_superselector` (`Selector::is_local_superselector`) -/
def Compound.isSuper (q : SuperQuirks) (a b : Compound) : Bool := Compound.isSuperW q (SelSet.isSuper q) a b

/-- `Selector::is_superselector` with the self-fuelling argument relation -/
def Selector.isSuperF (q : SuperQuirks) (a b : Selector) : Bool := Selector.isSuperW q (SelSet.isSuper q) a b

/-! ### elemtype.rs -/

def joinNs (ns : Option (List Char)) (name : List Char) : List Char :=
  match ns with
  | some ns => ns ++ '|' :: name
  | none => name

/-- elemtype.rs `ElemType::unify` -/
def elemUnify (e o : List Char) : Option (List Char) :=
  let ens := (elemSplitNs e).1
  let en := (elemSplitNs e).2
  let ons := (elemSplitNs o).1
  let on := (elemSplitNs o).2
  let ns : Option (Option (List Char)) :=
    match ens, ons with
    | none, none => some none
    | some a, b => if a = ['*'] then some b
                   else match b with
                     | some b' => if b' = ['*'] then some (some a) else if a = b' then some (some a) else none
                     | none => none
    | none, some b => if b = ['*'] then some none else none
  let name : Option (List Char) :=
    if en = ['*'] then some on else if on = ['*'] then some en else if en = on then some en else none
  match ns, name with
  | some ns, some name => some (joinNs ns name)
  | _, _ => none

/-! ### compound.rs -/

/-- compound.rs `fn combine_vital`.  `keepGeneral` = the code as it is (`q(b, a)`); off = the
argument order that drops the more general element. -/
def combineVital {α : Type} (keepGeneral : Bool) (f : α → α → Bool) (v other : List α) : List α :=
  let g : α → α → Bool := fun b a => if keepGeneral then f b a else f a b
  let v' := v.filter fun a => !other.any fun b => g b a
  let other' := other.filter fun a => !v'.any fun b => g b a
  v' ++ other'

/-- compound.rs `CompoundSelector::must_not_inherit` -/
def Compound.mustNotInherit (a b : Compound) : Bool :=
  (a.id.isSome && decide (a.id = b.id))
    || (match a.pseudoElement with
        | some p => (match b.pseudoElement with | some p' => p == p' | none => false)
        | none => false)

/-- the `for c in other.classes { if !self.classes.iter().any(..) { push } }` loops -/
def pushNew : List (List Char) → List (List Char) → List (List Char)
  | acc, [] => acc
  | acc, c :: cs => if acc.contains c then pushNew acc cs else pushNew (acc ++ [c]) cs

/-- `CompoundSelector::unify`: choice of the pseudo-element (`none` = `return None`) -/
def unifyPe (P : Pseudo → Pseudo → Bool) : Option Pseudo → Option Pseudo → Option (Option Pseudo)
  | none, none => some none
  | some p, none => some (some p)
  | none, some p => some (some p)
  | some x, some y => if P y x then some (some x) else if P x y then some (some y) else none

/-- `CompoundSelector::unify`: the element type -/
def unifyElem (EU : List Char → List Char → Option (List Char)) :
    Option (List Char) → Option (List Char) → Option (Option (List Char))
  | none, none => some none
  | none, some e => some (some e)
  | some e, none => some (some e)
  | some x, some y => (EU x y).map some

/-- `CompoundSelector::unify`: the id -/
def unifyId : Option (List Char) → Option (List Char) → Option (Option (List Char))
  | none, none => some none
  | none, some i => some (some i)
  | some i, none => some (some i)
  | some x, some y => if x = y then some (some x) else none

/-- compound.rs `CompoundSelector::unify`, over the relations used on attributes (`A`) and
pseudo selectors (`P`) and the element-type unifier (`EU`) -/
def Compound.unifyG (keepGeneral : Bool) (A : Attr → Attr → Bool) (P : Pseudo → Pseudo → Bool)
    (EU : List Char → List Char → Option (List Char)) (a b : Compound) : Option Compound :=
  match unifyPe P a.pseudoElement b.pseudoElement, unifyElem EU a.elem b.elem, unifyId a.id b.id with
  | some pe, some elem, some id =>
    let aps := a.pseudos.filter fun p => !p.isElement
    let bps := b.pseudos.filter fun p => !p.isElement
    let classes := pushNew a.classes b.classes
    let ps := combineVital keepGeneral P aps bps ++ (match pe with | some p => [p] | none => [])
    if ps.any Pseudo.isHost && (ps.any Pseudo.isHover || elem.isSome || !classes.isEmpty) then none
    else some (.mk a.backref elem (pushNew a.placeholders b.placeholders) classes id
                (combineVital keepGeneral A a.attrs b.attrs) ps)
  | _, _, _ => none

/-- compound.rs `CompoundSelector::unify` -/
def Compound.unify (q : UnifyQuirks) (a b : Compound) : Option Compound :=
  Compound.unifyG q.vitalKeepsGeneral (Attr.isSuper q.sup) (Pseudo.isSuper q.sup) elemUnify a b

/-! ### selector.rs -/

def asRelVec (k : Rel) (l : List Selector) : List (Rel × Selector) := l.map fun s => (k, s)

mutual
  /-- selector.rs `Selector::inner_unify` -/
  def innerUnifyN (q : UnifyQuirks) : Nat → Selector → Selector → Option (List Selector)
    | 0, _, _ => none
    | n + 1, a, b =>
      let rel : Option (List (Rel × Selector)) :=
        match a.relOf, b.relOf with
        | none, none => some []
        | none, some r | some r, none => some [r]
        | some ra, some rb =>
          match unifyRelboxN q n ra rb with
          | none => none
          | some v => if v.isEmpty then none else some v
      match rel with
      | none => none
      | some rel =>
        match Compound.unify q a.compound b.compound with
        | none => none
        | some c =>
          some (if rel.isEmpty then [.leaf c]
                else if c.isEmpty then []
                else rel.map fun r => .rel r.1 r.2 c)
  /-- selector.rs `Selector::unify` / `unify_extend`: `inner_unify(..).unwrap_or_default()` -/
  def unifyN (q : UnifyQuirks) : Nat → Selector → Selector → List Selector
    | 0, _, _ => []
    | n + 1, a, b => (innerUnifyN q n a b).getD []
  /-- selector.rs `Selector::with_rel_of` -/
  def withRelOfN (q : UnifyQuirks) : Nat → Selector → Rel → Selector → List Selector
    | 0, _, _, _ => []
    | n + 1, self, rel, other =>
      match self with
      | .rel _ _ _ => unifyN q n self (.rel rel other Compound.empty)
      | .leaf c => if c.isRootish then [] else [.rel rel other c]
  /-- selector.rs `fn unify_relbox` -/
  def unifyRelboxN (q : UnifyQuirks) : Nat → Rel × Selector → Rel × Selector → Option (List (Rel × Selector))
    | 0, _, _ => none
    | n + 1, (ka, a), (kb, b) =>
      if decide (ka = kb) && a.compound.isRootish && b.compound.isRootish then
        some (asRelVec ka (unifyN q n a b))
      else
        match ka, kb with
        | .adjacent, .adjacent => (innerUnifyN q n a b).map (asRelVec .adjacent)
        | .parent, .parent => (innerUnifyN q n a b).map (asRelVec .parent)
        | .ancestor, .ancestor =>
          if Compound.isSuper q.sup b.compound a.compound then
            (innerUnifyN q n a b).map (asRelVec .ancestor)
          else if Compound.isSuper q.sup a.compound b.compound || a.compound.mustNotInherit b.compound then
            (innerUnifyN q n b a).map (asRelVec .ancestor)
          else
            some (asRelVec .ancestor (withRelOfN q n b .ancestor a ++ withRelOfN q n a .ancestor b))
        | .sibling, .sibling =>
          if Selector.isSuperF q.sup a b then some [(.sibling, b)]
          else if Selector.isSuperF q.sup b a then some [(.sibling, a)]
          else if !a.compound.mustNotInherit b.compound then
            some (asRelVec .sibling
              (withRelOfN q n b .sibling a ++ withRelOfN q n a .sibling b ++ unifyN q n a b))
          else some (asRelVec .sibling (unifyN q n a b))
        | .adjacent, .sibling =>
          -- `(AdjacentSibling, a_s), (Sibling, b_s)`
          if Selector.isSuperF q.sup b a then some [(.adjacent, a)]
          else if a.compound.hasId || b.compound.hasId then
            some (asRelVec .adjacent (withRelOfN q n a .sibling b))
          else some (asRelVec .adjacent (withRelOfN q n a .sibling b ++ unifyN q n b a))
        | .sibling, .adjacent =>
          if Selector.isSuperF q.sup a b then some [(.adjacent, b)]
          else if b.compound.hasId || a.compound.hasId then
            some (asRelVec .adjacent (withRelOfN q n b .sibling a))
          else some (asRelVec .adjacent (withRelOfN q n b .sibling a ++ unifyN q n a b))
        | .adjacent, kb' => some (asRelVec .adjacent (withRelOfN q n a kb' b))
        | .sibling, kb' => some (asRelVec .sibling (withRelOfN q n a kb' b))
        | ka', .adjacent => some (asRelVec .adjacent (withRelOfN q n b ka' a))
        | ka', .sibling => some (asRelVec .sibling (withRelOfN q n b ka' a))
        | .parent, .ancestor =>
          -- `(Parent, p), (Ancestor, a)`
          if Selector.isSuperF q.sup b a then some [(.parent, a)]
          else some (asRelVec .parent (withRelOfN q n a .ancestor b))
        | .ancestor, .parent =>
          if Selector.isSuperF q.sup a b then some [(.parent, b)]
          else some (asRelVec .parent (withRelOfN q n b .ancestor a))
end

/-- selector.rs `Selector::unify(self, other)` -/
def Selector.unify (q : UnifyQuirks) (a b : Selector) : List Selector :=
  unifyN q (8 * (a.length + b.length) + 8) a b

/-- cssselectorset.rs `CssSelectorSet::unify`, over the unifier of two complex selectors -/
def SelSet.unifyW (U : Selector → Selector → List Selector) (A B : SelSet) : SelSet :=
  A.flatMap fun s => B.flatMap fun o => U s o

/-- cssselectorset.rs `CssSelectorSet::unify` = `selector.unify($selector1, $selector2)` -/
def SelSet.unify (q : UnifyQuirks) (A B : SelSet) : SelSet := SelSet.unifyW (Selector.unify q) A B

end Sel
