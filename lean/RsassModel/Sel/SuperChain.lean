/-
C23 lemmas about the relation walk of `Selector::is_superselector` (namespace `Sel`), over
an arbitrary relation `C` on compounds: reflexivity, transitivity, congruence, and the two
monotonicity facts (same shape with larger compounds; prefixing ancestors).
-/
import RsassModel.Sel.SuperLemmas

namespace Sel

/-- the compounds of a complex selector, rightmost first -/
def Selector.compounds : Selector → List Compound
  | .leaf c => [c]
  | .rel _ s c => c :: s.compounds

/-- what the `RelKind::Ancestor` walk tries: every selector hanging on an ancestor or
parent link, anywhere up the chain -/
def ancCands : Selector → List Selector
  | .leaf _ => []
  | .rel k ss _ => (match k with | .ancestor | .parent => [ss] | _ => []) ++ ancCands ss

/-- what the `RelKind::Sibling` walk tries: selectors reached through sibling / adjacent
links only -/
def sibCands : Selector → List Selector
  | .leaf _ => []
  | .rel k ss _ => match k with | .sibling | .adjacent => ss :: sibCands ss | _ => []

/-- what the `RelKind::Parent` arm tries: the selector on the `>` link — the nearest link,
or (with `through`) the first link after sibling / adjacent links -/
def parCands (through : Bool) : Selector → List Selector
  | .leaf _ => []
  | .rel .parent ss _ => [ss]
  | .rel .sibling ss _ => if through then parCands through ss else []
  | .rel .adjacent ss _ => if through then parCands through ss else []
  | .rel .ancestor _ _ => []

/-- every proper left part of a complex selector -/
def Selector.tails : Selector → List Selector
  | .leaf _ => []
  | .rel _ ss _ => ss :: ss.tails

theorem walkAnc_eq (f : Selector → Bool) (s : Selector) : walkAnc f s = (ancCands s).any f := by
  fun_induction walkAnc f s
  · simp [ancCands]
  · next k ss c ih => cases k <;> simp_all [ancCands]

theorem walkSib_eq (f : Selector → Bool) : ∀ (s : Selector), walkSib f s = (sibCands s).any f
  | .leaf _ => by simp [walkSib, sibCands]
  | .rel .ancestor _ _ => by simp [walkSib, sibCands]
  | .rel .parent _ _ => by simp [walkSib, sibCands]
  | .rel .sibling ss _ => by simp [walkSib, sibCands, walkSib_eq f ss]
  | .rel .adjacent ss _ => by simp [walkSib, sibCands, walkSib_eq f ss]

theorem walkPar_eq (t : Bool) (f : Selector → Bool) : ∀ (s : Selector),
    walkPar t f s = (parCands t s).any f
  | .leaf _ => by simp [walkPar, parCands]
  | .rel .ancestor _ _ => by simp [walkPar, parCands]
  | .rel .parent _ _ => by simp [walkPar, parCands]
  | .rel .sibling ss _ => by cases t <;> simp [walkPar, parCands, walkPar_eq _ f ss]
  | .rel .adjacent ss _ => by cases t <;> simp [walkPar, parCands, walkPar_eq _ f ss]

theorem compound_mem_compounds (s : Selector) : s.compound ∈ s.compounds := by
  cases s <;> simp [Selector.compound, Selector.compounds]

theorem ancCands_sub_tails : ∀ (s : Selector), ∀ y ∈ ancCands s, y ∈ s.tails
  | .leaf _, y, h => by simp [ancCands] at h
  | .rel k ss _, y, h => by
    simp only [ancCands, List.mem_append] at h
    simp only [Selector.tails, List.mem_cons]
    rcases h with h | h
    · left; cases k <;> simp_all
    · right; exact ancCands_sub_tails ss y h

theorem sibCands_sub_tails : ∀ (s : Selector), ∀ y ∈ sibCands s, y ∈ s.tails
  | .leaf _, y, h => by simp [sibCands] at h
  | .rel k ss _, y, h => by
    simp only [Selector.tails, List.mem_cons]
    cases k <;> simp only [sibCands, List.mem_cons, List.not_mem_nil] at h
    · rcases h with h | h
      · exact Or.inl h
      · exact Or.inr (sibCands_sub_tails ss y h)
    · rcases h with h | h
      · exact Or.inl h
      · exact Or.inr (sibCands_sub_tails ss y h)

theorem parCands_sub_tails (t : Bool) : ∀ (s : Selector), ∀ y ∈ parCands t s, y ∈ s.tails
  | .leaf _, y, h => by simp [parCands] at h
  | .rel .ancestor _ _, y, h => by simp [parCands] at h
  | .rel .parent ss _, y, h => by
    simp only [parCands, List.mem_singleton] at h
    simp [Selector.tails, h]
  | .rel .sibling ss _, y, h => by
    cases t <;> simp only [parCands, if_true, List.not_mem_nil, Bool.false_eq_true, if_false] at h
    simp only [Selector.tails, List.mem_cons]
    exact Or.inr (parCands_sub_tails true ss y h)
  | .rel .adjacent ss _, y, h => by
    cases t <;> simp only [parCands, if_true, List.not_mem_nil, Bool.false_eq_true, if_false] at h
    simp only [Selector.tails, List.mem_cons]
    exact Or.inr (parCands_sub_tails true ss y h)

theorem parCands_sub_anc (t : Bool) : ∀ (s : Selector), ∀ y ∈ parCands t s, y ∈ ancCands s
  | .leaf _, y, h => by simp [parCands] at h
  | .rel .ancestor _ _, y, h => by simp [parCands] at h
  | .rel .parent ss _, y, h => by
    simp only [parCands, List.mem_singleton] at h
    simp [ancCands, h]
  | .rel .sibling ss _, y, h => by
    cases t <;> simp only [parCands, if_true, List.not_mem_nil, Bool.false_eq_true, if_false] at h
    simp only [ancCands, List.nil_append]
    exact parCands_sub_anc true ss y h
  | .rel .adjacent ss _, y, h => by
    cases t <;> simp only [parCands, if_true, List.not_mem_nil, Bool.false_eq_true, if_false] at h
    simp only [ancCands, List.nil_append]
    exact parCands_sub_anc true ss y h

/-- through sibling links the parent candidates are inherited -/
theorem parCands_of_sib : ∀ (s : Selector), ∀ y ∈ sibCands s, ∀ x ∈ parCands true y, x ∈ parCands true s
  | .leaf _, y, h, _, _ => by simp [sibCands] at h
  | .rel .ancestor _ _, y, h, _, _ => by simp [sibCands] at h
  | .rel .parent _ _, y, h, _, _ => by simp [sibCands] at h
  | .rel .sibling ss _, y, h, x, hx => by
    simp only [sibCands, List.mem_cons] at h
    simp only [parCands, if_true]
    rcases h with h | h
    · subst h; exact hx
    · exact parCands_of_sib ss y h x hx
  | .rel .adjacent ss _, y, h, x, hx => by
    simp only [sibCands, List.mem_cons] at h
    simp only [parCands, if_true]
    rcases h with h | h
    · subst h; exact hx
    · exact parCands_of_sib ss y h x hx

theorem ancCands_of_tail : ∀ (s : Selector), ∀ y ∈ s.tails, ∀ x ∈ ancCands y, x ∈ ancCands s
  | .leaf _, y, h, _, _ => by simp [Selector.tails] at h
  | .rel k ss _, y, h, x, hx => by
    simp only [Selector.tails, List.mem_cons] at h
    simp only [ancCands, List.mem_append]
    right
    rcases h with h | h
    · subst h; exact hx
    · exact ancCands_of_tail ss y h x hx

theorem compounds_of_tail : ∀ (s : Selector), ∀ y ∈ s.tails, ∀ x ∈ y.compounds, x ∈ s.compounds
  | .leaf _, y, h, _, _ => by simp [Selector.tails] at h
  | .rel k ss _, y, h, x, hx => by
    simp only [Selector.tails, List.mem_cons] at h
    simp only [Selector.compounds, List.mem_cons]
    right
    rcases h with h | h
    · subst h; exact hx
    · exact compounds_of_tail ss y h x hx

theorem sibCands_of_sib : ∀ (s : Selector), ∀ y ∈ sibCands s, ∀ x ∈ sibCands y, x ∈ sibCands s
  | .leaf _, y, h, _, _ => by simp [sibCands] at h
  | .rel k ss _, y, h, x, hx => by
    cases k <;> simp only [sibCands, List.mem_cons, List.not_mem_nil] at h ⊢
    · right
      rcases h with h | h
      · subst h; exact hx
      · exact sibCands_of_sib ss y h x hx
    · right
      rcases h with h | h
      · subst h; exact hx
      · exact sibCands_of_sib ss y h x hx

/-! ### unfolding `isSuperC` -/

theorem isSuperC_local {t : Bool} {C : Compound → Compound → Bool} {a b : Selector}
    (h : Selector.isSuperC t C a b = true) : C a.compound b.compound = true := by
  cases a with
  | leaf c => simpa [Selector.isSuperC, Selector.compound] using h
  | rel k s c =>
    simp only [Selector.isSuperC, Bool.and_eq_true] at h
    exact h.1

theorem isSuperC_anc {t : Bool} {C : Compound → Compound → Bool} {s : Selector} {c : Compound} {b : Selector} :
    Selector.isSuperC t C (.rel .ancestor s c) b = true ↔
      C c b.compound = true ∧ ∃ y ∈ ancCands b, Selector.isSuperC t C s y = true := by
  simp [Selector.isSuperC, walkAnc_eq]

theorem isSuperC_sib {t : Bool} {C : Compound → Compound → Bool} {s : Selector} {c : Compound} {b : Selector} :
    Selector.isSuperC t C (.rel .sibling s c) b = true ↔
      C c b.compound = true ∧ ∃ y ∈ sibCands b, Selector.isSuperC t C s y = true := by
  simp [Selector.isSuperC, walkSib_eq]

theorem isSuperC_par {t : Bool} {C : Compound → Compound → Bool} {s : Selector} {c : Compound} {b : Selector} :
    Selector.isSuperC t C (.rel .parent s c) b = true ↔
      C c b.compound = true ∧ ∃ y ∈ parCands t b, Selector.isSuperC t C s y = true := by
  simp [Selector.isSuperC, walkPar_eq]

theorem isSuperC_adj {t : Bool} {C : Compound → Compound → Bool} {s : Selector} {c : Compound} {b : Selector} :
    Selector.isSuperC t C (.rel .adjacent s c) b = true ↔
      C c b.compound = true ∧ ∃ sb cb, b = .rel .adjacent sb cb ∧ Selector.isSuperC t C s sb = true := by
  simp only [Selector.isSuperC, Bool.and_eq_true]
  constructor
  · rintro ⟨h1, h2⟩
    refine ⟨h1, ?_⟩
    split at h2
    · next ss cb => exact ⟨ss, cb, rfl, h2⟩
    · simp at h2
  · rintro ⟨h1, sb, cb, rfl, h2⟩
    exact ⟨h1, h2⟩

/-! ### the candidates of a subselector are covered by candidates further down -/

theorem anc_lift (t : Bool) (C : Compound → Compound → Bool) :
    ∀ (b c : Selector), Selector.isSuperC t C b c = true →
      ∀ x ∈ ancCands b, ∃ y ∈ ancCands c, Selector.isSuperC t C x y = true
  | .leaf _, _, _, x, hx => by simp [ancCands] at hx
  | .rel .ancestor s cb, c, h, x, hx => by
    obtain ⟨_, y, hy, hsy⟩ := isSuperC_anc.1 h
    simp only [ancCands, List.mem_append, List.mem_singleton] at hx
    rcases hx with hx | hx
    · subst hx; exact ⟨y, hy, hsy⟩
    · obtain ⟨z, hz, hxz⟩ := anc_lift t C s y hsy x hx
      exact ⟨z, ancCands_of_tail c y (ancCands_sub_tails c y hy) z hz, hxz⟩
  | .rel .parent s cb, c, h, x, hx => by
    obtain ⟨_, y, hy, hsy⟩ := isSuperC_par.1 h
    simp only [ancCands, List.mem_append, List.mem_singleton] at hx
    rcases hx with hx | hx
    · subst hx; exact ⟨y, parCands_sub_anc t c y hy, hsy⟩
    · obtain ⟨z, hz, hxz⟩ := anc_lift t C s y hsy x hx
      exact ⟨z, ancCands_of_tail c y (parCands_sub_tails t c y hy) z hz, hxz⟩
  | .rel .sibling s cb, c, h, x, hx => by
    obtain ⟨_, y, hy, hsy⟩ := isSuperC_sib.1 h
    simp only [ancCands, List.nil_append] at hx
    obtain ⟨z, hz, hxz⟩ := anc_lift t C s y hsy x hx
    exact ⟨z, ancCands_of_tail c y (sibCands_sub_tails c y hy) z hz, hxz⟩
  | .rel .adjacent s cb, c, h, x, hx => by
    obtain ⟨_, sc, cc, rfl, hs⟩ := isSuperC_adj.1 h
    simp only [ancCands, List.nil_append] at hx ⊢
    obtain ⟨z, hz, hxz⟩ := anc_lift t C s sc hs x hx
    exact ⟨z, hz, hxz⟩

theorem sib_lift (t : Bool) (C : Compound → Compound → Bool) :
    ∀ (b c : Selector), Selector.isSuperC t C b c = true →
      ∀ x ∈ sibCands b, ∃ y ∈ sibCands c, Selector.isSuperC t C x y = true
  | .leaf _, _, _, x, hx => by simp [sibCands] at hx
  | .rel .ancestor s cb, c, h, x, hx => by simp [sibCands] at hx
  | .rel .parent s cb, c, h, x, hx => by simp [sibCands] at hx
  | .rel .sibling s cb, c, h, x, hx => by
    obtain ⟨_, y, hy, hsy⟩ := isSuperC_sib.1 h
    simp only [sibCands, List.mem_cons] at hx
    rcases hx with hx | hx
    · subst hx; exact ⟨y, hy, hsy⟩
    · obtain ⟨z, hz, hxz⟩ := sib_lift t C s y hsy x hx
      exact ⟨z, sibCands_of_sib c y hy z hz, hxz⟩
  | .rel .adjacent s cb, c, h, x, hx => by
    obtain ⟨_, sc, cc, rfl, hs⟩ := isSuperC_adj.1 h
    simp only [sibCands, List.mem_cons] at hx ⊢
    rcases hx with hx | hx
    · subst hx; exact ⟨sc, Or.inl rfl, hs⟩
    · obtain ⟨z, hz, hxz⟩ := sib_lift t C s sc hs x hx
      exact ⟨z, Or.inr hz, hxz⟩

theorem par_lift (t : Bool) (C : Compound → Compound → Bool) :
    ∀ (b c : Selector), Selector.isSuperC t C b c = true →
      ∀ x ∈ parCands t b, ∃ y ∈ parCands t c, Selector.isSuperC t C x y = true
  | .leaf _, _, _, x, hx => by simp [parCands] at hx
  | .rel .ancestor s cb, c, h, x, hx => by simp [parCands] at hx
  | .rel .parent s cb, c, h, x, hx => by
    obtain ⟨_, y, hy, hsy⟩ := isSuperC_par.1 h
    simp only [parCands, List.mem_singleton] at hx
    subst hx; exact ⟨y, hy, hsy⟩
  | .rel .sibling s cb, c, h, x, hx => by
    cases t <;> simp only [parCands, if_true, List.not_mem_nil, Bool.false_eq_true, if_false] at hx
    obtain ⟨_, y, hy, hsy⟩ := isSuperC_sib.1 h
    obtain ⟨z, hz, hxz⟩ := par_lift true C s y hsy x hx
    exact ⟨z, parCands_of_sib c y hy z hz, hxz⟩
  | .rel .adjacent s cb, c, h, x, hx => by
    cases t <;> simp only [parCands, if_true, List.not_mem_nil, Bool.false_eq_true, if_false] at hx
    obtain ⟨_, sc, cc, rfl, hs⟩ := isSuperC_adj.1 h
    obtain ⟨z, hz, hxz⟩ := par_lift true C s sc hs x hx
    exact ⟨z, by simpa [parCands] using hz, hxz⟩

/-! ### reflexivity, transitivity, congruence -/

theorem isSuperC_refl (t : Bool) (C : Compound → Compound → Bool) :
    ∀ (a : Selector), (∀ x ∈ a.compounds, C x x = true) → Selector.isSuperC t C a a = true
  | .leaf c, h => by
    simp only [Selector.isSuperC, Selector.compound]; exact h c (by simp [Selector.compounds])
  | .rel k s c, h => by
    have hc : C c c = true := h c (by simp [Selector.compounds])
    have hs : Selector.isSuperC t C s s = true :=
      isSuperC_refl t C s fun x hx => h x (by simp [Selector.compounds, hx])
    cases k
    · exact isSuperC_anc.2 ⟨hc, s, by simp [ancCands], hs⟩
    · exact isSuperC_par.2 ⟨hc, s, by simp [parCands], hs⟩
    · exact isSuperC_sib.2 ⟨hc, s, by simp [sibCands], hs⟩
    · exact isSuperC_adj.2 ⟨hc, s, c, rfl, hs⟩

theorem isSuperC_trans (t : Bool) (C : Compound → Compound → Bool) :
    ∀ (a b c : Selector),
      (∀ x ∈ a.compounds, ∀ y ∈ b.compounds, ∀ z ∈ c.compounds,
        C x y = true → C y z = true → C x z = true) →
      Selector.isSuperC t C a b = true → Selector.isSuperC t C b c = true →
      Selector.isSuperC t C a c = true
  | .leaf ca, b, c, hC, hab, hbc => by
    simp only [Selector.isSuperC] at hab ⊢
    exact hC ca (by simp [Selector.compounds]) _ (compound_mem_compounds b) _
      (compound_mem_compounds c) hab (isSuperC_local hbc)
  | .rel k s ca, b, c, hC, hab, hbc => by
    have hloc : C ca c.compound = true :=
      hC ca (by simp [Selector.compounds]) _ (compound_mem_compounds b) _
        (compound_mem_compounds c) (isSuperC_local hab) (isSuperC_local hbc)
    have hCs : ∀ (y z : Selector), (∀ x ∈ y.compounds, x ∈ b.compounds) →
        (∀ x ∈ z.compounds, x ∈ c.compounds) →
        ∀ x ∈ s.compounds, ∀ y' ∈ y.compounds, ∀ z' ∈ z.compounds,
          C x y' = true → C y' z' = true → C x z' = true :=
      fun y z hy hz x hx y' hy' z' hz' =>
        hC x (by simp [Selector.compounds, hx]) y' (hy y' hy') z' (hz z' hz')
    cases k
    · obtain ⟨_, y, hy, hsy⟩ := isSuperC_anc.1 hab
      obtain ⟨z, hz, hyz⟩ := anc_lift t C b c hbc y hy
      exact isSuperC_anc.2 ⟨hloc, z, hz, isSuperC_trans t C s y z
        (hCs y z (compounds_of_tail b y (ancCands_sub_tails b y hy))
          (compounds_of_tail c z (ancCands_sub_tails c z hz))) hsy hyz⟩
    · obtain ⟨_, y, hy, hsy⟩ := isSuperC_par.1 hab
      obtain ⟨z, hz, hyz⟩ := par_lift t C b c hbc y hy
      exact isSuperC_par.2 ⟨hloc, z, hz, isSuperC_trans t C s y z
        (hCs y z (compounds_of_tail b y (parCands_sub_tails t b y hy))
          (compounds_of_tail c z (parCands_sub_tails t c z hz))) hsy hyz⟩
    · obtain ⟨_, y, hy, hsy⟩ := isSuperC_sib.1 hab
      obtain ⟨z, hz, hyz⟩ := sib_lift t C b c hbc y hy
      exact isSuperC_sib.2 ⟨hloc, z, hz, isSuperC_trans t C s y z
        (hCs y z (compounds_of_tail b y (sibCands_sub_tails b y hy))
          (compounds_of_tail c z (sibCands_sub_tails c z hz))) hsy hyz⟩
    · obtain ⟨_, sb, cb, rfl, hs⟩ := isSuperC_adj.1 hab
      obtain ⟨_, sc, cc, rfl, hs2⟩ := isSuperC_adj.1 hbc
      exact isSuperC_adj.2 ⟨hloc, sc, cc, rfl, isSuperC_trans t C s sb sc
        (hCs sb sc (fun x hx => by simp [Selector.compounds, hx])
          (fun x hx => by simp [Selector.compounds, hx])) hs hs2⟩

theorem any_congr_mem {α : Type} {f g : α → Bool} {l : List α} (h : ∀ x ∈ l, f x = g x) :
    l.any f = l.any g := by
  induction l with
  | nil => rfl
  | cons a l ih =>
    simp only [List.any_cons]
    rw [h a (by simp), ih fun x hx => h x (by simp [hx])]

theorem isSuperC_congr (t : Bool) (C C' : Compound → Compound → Bool) :
    ∀ (a b : Selector), (∀ x ∈ a.compounds, ∀ y ∈ b.compounds, C x y = C' x y) →
      Selector.isSuperC t C a b = Selector.isSuperC t C' a b
  | .leaf ca, b, h => by
    simp only [Selector.isSuperC]
    exact h ca (by simp [Selector.compounds]) _ (compound_mem_compounds b)
  | .rel k s ca, b, h => by
    have hloc : C ca b.compound = C' ca b.compound :=
      h ca (by simp [Selector.compounds]) _ (compound_mem_compounds b)
    have hs : ∀ y ∈ b.tails, Selector.isSuperC t C s y = Selector.isSuperC t C' s y :=
      fun y hy => isSuperC_congr t C C' s y fun x hx z hz =>
        h x (by simp [Selector.compounds, hx]) z (compounds_of_tail b y hy z hz)
    simp only [Selector.isSuperC, hloc]
    congr 1
    cases k
    · simp only [walkAnc_eq]
      exact any_congr_mem fun y hy => hs y (ancCands_sub_tails b y hy)
    · simp only [walkPar_eq]
      exact any_congr_mem fun y hy => hs y (parCands_sub_tails t b y hy)
    · simp only [walkSib_eq]
      exact any_congr_mem fun y hy => hs y (sibCands_sub_tails b y hy)
    · cases b with
      | leaf _ => rfl
      | rel kb sb cb =>
        cases kb <;> try rfl
        exact hs sb (by simp [Selector.tails])

/-! ### monotonicity -/

/-- `b` has the shape of `a` (same relations) and at each position `a`'s compound is
`C`-above `b`'s -/
inductive Selector.Refines (C : Compound → Compound → Bool) : Selector → Selector → Prop
  | leaf {c c' : Compound} : C c c' = true → Selector.Refines C (.leaf c) (.leaf c')
  | rel {k : Rel} {s s' : Selector} {c c' : Compound} :
      C c c' = true → Selector.Refines C s s' → Selector.Refines C (.rel k s c) (.rel k s' c')
  /-- at a descendant combinator a further compound `x` may stand in between: `s c` vs
  `s' x c'` / `s' > x c'` -/
  | insAnc {k' : Rel} {s s' : Selector} {c c' x : Compound} : (k' = .ancestor ∨ k' = .parent) →
      C c c' = true → Selector.Refines C s s' →
      Selector.Refines C (.rel .ancestor s c) (.rel .ancestor (.rel k' s' x) c')

theorem isSuperC_of_refines {t : Bool} {C : Compound → Compound → Bool} {a b : Selector}
    (h : Selector.Refines C a b) : Selector.isSuperC t C a b = true := by
  induction h with
  | leaf hc => simpa [Selector.isSuperC, Selector.compound] using hc
  | @rel k s s' c c' hc _ ih =>
    cases k
    · exact isSuperC_anc.2 ⟨hc, s', by simp [ancCands], ih⟩
    · exact isSuperC_par.2 ⟨hc, s', by simp [parCands], ih⟩
    · exact isSuperC_sib.2 ⟨hc, s', by simp [sibCands], ih⟩
    · exact isSuperC_adj.2 ⟨hc, s', c', rfl, ih⟩
  | @insAnc k' s s' c c' x hk hc _ ih =>
    refine isSuperC_anc.2 ⟨hc, s', ?_, ih⟩
    rcases hk with hk | hk <;> subst hk <;> simp [ancCands]

/-- `p <k> a`: the complex selector `p` put in front of `a` with relation `k`
(`p a` for `ancestor`, `p > a` for `parent`, …) -/
def Selector.prepend (k : Rel) (p : Selector) : Selector → Selector
  | .leaf c => .rel k p c
  | .rel k' s c => .rel k' (Selector.prepend k p s) c

theorem isSuperC_prepend (t : Bool) (C : Compound → Compound → Bool) (k : Rel) (p : Selector) :
    ∀ (a : Selector), (∀ x ∈ a.compounds, C x x = true) →
      Selector.isSuperC t C a (Selector.prepend k p a) = true
  | .leaf c, h => by
    simp only [Selector.isSuperC, Selector.prepend, Selector.compound]
    exact h c (by simp [Selector.compounds])
  | .rel k' s c, h => by
    have hc : C c c = true := h c (by simp [Selector.compounds])
    have hs := isSuperC_prepend t C k p s fun x hx => h x (by simp [Selector.compounds, hx])
    simp only [Selector.prepend]
    cases k'
    · exact isSuperC_anc.2 ⟨hc, _, by simp [ancCands], hs⟩
    · exact isSuperC_par.2 ⟨hc, _, by simp [parCands], hs⟩
    · exact isSuperC_sib.2 ⟨hc, _, by simp [sibCands], hs⟩
    · exact isSuperC_adj.2 ⟨hc, _, c, rfl, hs⟩

end Sel
