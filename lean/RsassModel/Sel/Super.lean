/-
C23 model (namespace `Sel`): `is_superselector` of /repo/rsass/src/css/selectors/*.rs.

  Rust                                                    Lean
  ------------------------------------------------------  -----------------------------------
  css/string.rs   CssString::unquote                      Sel.unquoteCss
  css/string.rs   impl PartialEq for CssString            Sel.cssStrEq
  attribute.rs    Attribute::is_superselector             Sel.Attr.isSuper
  elemtype.rs     match_name / ElemType::is_superselector Sel.matchName / Sel.elemIsSuper
  compound.rs     all_any                                 Sel.allAny
  pseudo.rs       Arg::is_superselector                   Sel.PArg.isSuperW
  pseudo.rs       Pseudo::is_superselector                Sel.Pseudo.isSuperW
  compound.rs     CompoundSelector::is_superselector      Sel.Compound.isSuperW
  selector.rs     Selector::is_superselector              Sel.Selector.isSuperW
                  (the two `while let` relation walks)    Sel.walkAnc / Sel.walkSib
  selectorset.rs  SelectorSet::is_superselector           Sel.setSuperW / Sel.superN / Sel.SelSet.isSuper

The Rust functions are mutually recursive through pseudo-class arguments
(`Selector → Compound → Pseudo → Arg → SelectorSet → Selector`), and `:not(..)` swaps the
two sides.  The model cuts the knot: everything below the selector-list level is written
*parametric in the relation `R` used on pseudo-class arguments*; `superN n` then ties the
knot `n` levels deep (`superN 0` = nothing is a superselector; the Rust recursion descends
into an argument on *both* sides at once, so `depth + 1` levels always suffice —
`Sel.superN_adequate` in SuperLemmas.lean).  Import-free apart from the AST.
-/
import RsassModel.Sel.Syntax

namespace Sel

/-- Deviations of the code from property C23 (`spec` = all off). -/
structure SuperQuirks where
  /-- css/string.rs `impl PartialEq for CssString`: raw text is compared when both strings
  have the same quote kind, *unquoted* text when the kinds differ.  That relation is not
  transitive (`"\-"` = `'-'` = `"-"` but `"\-"` ≠ `"-"`), and attribute selectors inherit
  it.  Off = the unquoted texts are compared in every case. -/
  attrQuoteMix : Bool := false
  /-- selector.rs `is_superselector`, `RelKind::Parent` arm: only a `sub` whose *nearest*
  relation is `>` is accepted, so `p > x` is not a superselector of `p > y ~ x` / `p > y + x`
  (the ancestor arm does look through sibling combinators: "the siblings parent is our
  parent").  Preorder and monotonicity (C23) hold either way; `selector.unify` produces such
  selectors, which breaks its soundness law (C24).  Off = sibling / adjacent links are walked
  through before the `>` link is required. -/
  parentStrict : Bool := false
  deriving DecidableEq, Repr

def superSpec : SuperQuirks := {}
def superAsis : SuperQuirks := { attrQuoteMix := true, parentStrict := true }

/-! ### css/string.rs -/

/-- `char::to_digit(16)` -/
def hexDigitVal (c : Char) : Option Nat :=
  if '0' ≤ c ∧ c ≤ '9' then some (c.toNat - 48)
  else if 'a' ≤ c ∧ c ≤ 'f' then some (c.toNat - 87)
  else if 'A' ≤ c ∧ c ≤ 'F' then some (c.toNat - 55)
  else none

/-- `char::try_from(val).unwrap_or(char::REPLACEMENT_CHARACTER)` -/
def charOfVal (v : Nat) : Char :=
  if h : v.isValidChar then Char.ofNatAux v h else Char.ofNat 0xFFFD

/-- what is pushed for the character after a non-numeric escape -/
def escNext (c : Char) : List Char := if c = '\n' then ['\\', 'a'] else [c]

/-- css/string.rs `CssString::unquote` for a quoted string, as a one-pass state machine:
`esc = none` outside an escape, `some (val, gotNum)` while reading one (Rust's inner
`loop`); `val.saturating_mul(16).saturating_add(digit)` on a `u32`. -/
def unquoteGo : Option (Nat × Bool) → List Char → List Char
  | none, [] => []
  | none, c :: rest => if c = '\\' then unquoteGo (some (0, false)) rest else c :: unquoteGo none rest
  | some (v, got), [] => if got then [charOfVal v] else []
  | some (v, got), c :: rest =>
    if c = ' ' ∧ got then charOfVal v :: unquoteGo none rest
    else match hexDigitVal c with
      | some d => unquoteGo (some (min (v * 16 + d) 4294967295, true)) rest
      | none =>
        if !got then escNext c ++ unquoteGo none rest
        else
          -- `break None`: the character is not consumed and is read again in normal state
          charOfVal v :: (if c = '\\' then unquoteGo (some (0, false)) rest else c :: unquoteGo none rest)

/-- css/string.rs `CssString::unquote` -/
def unquoteCss (val : List Char) (q : Quote) : List Char :=
  if q = Quote.none then val else unquoteGo none val

/-- css/string.rs `impl PartialEq for CssString` (`attrQuoteMix` on) / comparison of the
unquoted texts (off). -/
def cssStrEq (q : SuperQuirks) (a : List Char) (qa : Quote) (b : List Char) (qb : Quote) : Bool :=
  if q.attrQuoteMix && decide (qa = qb) then decide (a = b)
  else decide (unquoteCss a qa = unquoteCss b qb)

/-- attribute.rs `Attribute::is_superselector` -/
def Attr.isSuper (q : SuperQuirks) (a b : Attr) : Bool :=
  decide (a.name = b.name) && decide (a.op = b.op) && cssStrEq q a.val a.quotes b.val b.quotes
    && decide (a.modifier = b.modifier)

/-! ### elemtype.rs -/

/-- elemtype.rs `fn match_name` -/
def matchName (a b : List Char) : Bool := decide (a = ['*']) || decide (a = b)

/-- elemtype.rs `ElemType::is_superselector` -/
def elemIsSuper (e sub : List Char) : Bool :=
  matchName ((elemSplitNs e).1.getD ['*']) ((elemSplitNs sub).1.getD ['*'])
    && matchName (elemSplitNs e).2 (elemSplitNs sub).2

/-! ### compound.rs / pseudo.rs, parametric in the argument relation -/

/-- compound.rs `fn all_any` -/
def allAny {α : Type} (cond : α → α → Bool) (one other : List α) : Bool :=
  one.all fun a => other.any fun b => cond a b

/-- pseudo.rs `Arg::is_superselector`; `R` stands for `SelectorSet::is_superselector`. -/
def PArg.isSuperW (R : SelSet → SelSet → Bool) : PArg → PArg → Bool
  | .sel a, .sel b => R a b
  | .other a, .other b => decide (a = b)
  | .none, .none => true
  | _, _ => false

/-- pseudo.rs `Pseudo::is_superselector` (`:not` reversed, `:current` by `==`). -/
def Pseudo.isSuperW (R : SelSet → SelSet → Bool) (a b : Pseudo) : Bool :=
  if a.isElement != b.isElement || decide (a.name ≠ b.name) then false
  else if a.nameIn ["not"] then b.arg.isSuperW R a.arg
  else if a.nameIn ["current"] then PArg.beq a.arg b.arg
  else a.arg.isSuperW R b.arg

/-- the element-type clause of `CompoundSelector::is_superselector` -/
def elemClause (a b : Option (List Char)) : Bool :=
  match a with
  | none => true
  | some e => elemIsAny e || (match b with | some s => elemIsSuper e s | none => false)

/-- the pseudo-element clause of `CompoundSelector::is_superselector` -/
def peClause (R : SelSet → SelSet → Bool) (a b : Option Pseudo) : Bool :=
  match a with
  | none => b.isNone
  | some aa => match b with
    | some ba => aa.isSuperW R ba
    | none => false

/-- compound.rs `CompoundSelector::is_superselector`, over the relation `A` used on
attributes and `R` used on pseudo-class arguments -/
def Compound.isSuperG (A : Attr → Attr → Bool) (R : SelSet → SelSet → Bool) (a b : Compound) : Bool :=
  elemClause a.elem b.elem
    && allAny (fun x y => decide (x = y)) a.placeholders b.placeholders
    && allAny (fun x y => decide (x = y)) a.classes b.classes
    && (match a.id with | none => true | some i => decide (b.id = some i))
    && allAny A a.attrs b.attrs
    && allAny (Pseudo.isSuperW R) a.pseudos b.pseudos
    && peClause R a.pseudoElement b.pseudoElement

/-- compound.rs `CompoundSelector::is_superselector` -/
def Compound.isSuperW (q : SuperQuirks) (R : SelSet → SelSet → Bool) : Compound → Compound → Bool :=
  Compound.isSuperG (Attr.isSuper q) R

/-! ### selector.rs -/

/-- selector.rs `is_superselector`, `RelKind::Ancestor` arm: walk up `sub`'s relations;
an ancestor or parent link is a candidate, sibling links are walked through. -/
def walkAnc (f : Selector → Bool) : Selector → Bool
  | .leaf _ => false
  | .rel k ss _ =>
    (match k with
     | .ancestor | .parent => f ss
     | _ => false) || walkAnc f ss

/-- selector.rs `is_superselector`, `RelKind::Sibling` arm: only sibling / adjacent links
may be walked. -/
def walkSib (f : Selector → Bool) : Selector → Bool
  | .leaf _ => false
  | .rel k ss _ =>
    match k with
    | .sibling | .adjacent => f ss || walkSib f ss
    | _ => false

/-- selector.rs `is_superselector`, `RelKind::Parent` arm: `sub`'s relation must be `>`;
with `through` sibling / adjacent links are walked through first. -/
def walkPar (through : Bool) (f : Selector → Bool) : Selector → Bool
  | .leaf _ => false
  | .rel .parent ss _ => f ss
  | .rel .sibling ss _ => through && walkPar through f ss
  | .rel .adjacent ss _ => through && walkPar through f ss
  | .rel .ancestor _ _ => false

/-- selector.rs `Selector::is_superselector`, over the relation `C` used on compounds
(`is_local_superselector`); `through` = the parent arm looks through sibling combinators -/
def Selector.isSuperC (through : Bool) (C : Compound → Compound → Bool) : Selector → Selector → Bool
  | .leaf c, sub => C c sub.compound
  | .rel k s c, sub =>
    C c sub.compound &&
    match k with
    | .ancestor => walkAnc (Selector.isSuperC through C s) sub
    | .parent => walkPar through (Selector.isSuperC through C s) sub
    | .sibling => walkSib (Selector.isSuperC through C s) sub
    | .adjacent => (match sub with
        | .rel .adjacent ss _ => Selector.isSuperC through C s ss
        | _ => false)

/-- selector.rs `Selector::is_superselector` -/
def Selector.isSuperW (q : SuperQuirks) (R : SelSet → SelSet → Bool) : Selector → Selector → Bool :=
  Selector.isSuperC (!q.parentStrict) (Compound.isSuperW q R)

/-- selectorset.rs `SelectorSet::is_superselector` over a given selector-level relation -/
def setSuperW (S : Selector → Selector → Bool) (A B : SelSet) : Bool :=
  B.all fun sub => A.any fun sup => S sup sub

/-- `SelectorSet::is_superselector` unrolled `n` levels of pseudo-class arguments deep. -/
def superN (q : SuperQuirks) : Nat → SelSet → SelSet → Bool
  | 0 => fun _ _ => false
  | n + 1 => setSuperW (Selector.isSuperW q (superN q n))

/-! ### nesting depth of selector arguments (fuel) -/

mutual
  def Selector.depth : Selector → Nat
    | .leaf c => Compound.depth c
    | .rel _ s c => max (Selector.depth s) (Compound.depth c)
  def Compound.depth : Compound → Nat
    | .mk _ _ _ _ _ _ ps => Pseudo.depthList ps
  def Pseudo.depth : Pseudo → Nat
    | .mk _ a _ => PArg.depth a
  def PArg.depth : PArg → Nat
    | .sel s => Selector.depthList s + 1
    | _ => 0
  def Pseudo.depthList : List Pseudo → Nat
    | [] => 0
    | p :: ps => max (Pseudo.depth p) (Pseudo.depthList ps)
  def Selector.depthList : List Selector → Nat
    | [] => 0
    | s :: ss => max (Selector.depth s) (Selector.depthList ss)
end

/-- `Selector::is_superselector` for two complex selectors -/
def Selector.isSuper (q : SuperQuirks) (a b : Selector) : Bool :=
  Selector.isSuperW q (superN q a.depth) a b

/-- `CssSelectorSet::is_superselector` = `selector.is-superselector($super, $sub)` -/
def SelSet.isSuper (q : SuperQuirks) (A B : SelSet) : Bool :=
  superN q (Selector.depthList A + 1) A B

end Sel
