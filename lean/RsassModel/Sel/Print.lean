/-
Selector printer (namespace `Sel`): the `write_to` functions of
/repo/rsass/src/css/selectors/{selectorset,selector,compound,pseudo,attribute,elemtype}.rs
and `impl Display for CssString` (css/string.rs), as total functions to `List Char`.

`compressed = false` is `Style::Expanded` (and `Introspection`), `true` is
`Style::Compressed`; the only difference is `CssBuf::add_one(normal, compressed)`.

Imports only the AST.  STABILITY: names here are only ever added, never renamed.
-/
import RsassModel.Sel.Syntax

namespace Sel

/-- css/string.rs `fn is_private_use` -/
def isPrivateUse (c : Char) : Bool :=
  let n := c.toNat
  (0xE000 ≤ n && n ≤ 0xF8FF) || (0xF0000 ≤ n && n ≤ 0xFFFFD) || (0x100000 ≤ n && n ≤ 0x10FFFD)

/-- Rust `{:x}`: lower-case hexadecimal without leading zeros -/
def hexLower (n : Nat) : List Char := Nat.toDigits 16 n

/-- body of `impl Display for CssString`: the quote character is backslash-escaped,
private-use code points are written as `\hex` (without terminator — see C09). -/
def printCssChars (q : Option Char) : List Char → List Char
  | [] => []
  | c :: cs =>
    (if some c = q then ['\\', c]
     else if isPrivateUse c then '\\' :: hexLower c.toNat
     else [c]) ++ printCssChars q cs

def Quote.char : Quote → Option Char
  | .none => Option.none
  | .dbl => some '"'
  | .sgl => some '\''

/-- css/string.rs `impl Display for CssString` -/
def printCssString (val : List Char) (q : Quote) : List Char :=
  match q.char with
  | Option.none => printCssChars Option.none val
  | some qc => qc :: printCssChars (some qc) val ++ [qc]

/-- attribute.rs `Attribute::write_to` -/
def Attr.print (a : Attr) : List Char :=
  '[' :: a.name ++ a.op ++ printCssString a.val a.quotes
    ++ (match a.modifier with | some m => [' ', m] | none => []) ++ [']']

def printAttrs : List Attr → List Char
  | [] => []
  | a :: as => a.print ++ printAttrs as

/-- ASCII digit test on the first byte (`c.is_ascii_digit()` on `as_bytes().split_first()`) -/
def isAsciiDigit (c : Char) : Bool := '0' ≤ c && c ≤ '9'

/-- compound.rs `write_to`, class branch: a class whose first byte is an ASCII digit is
written as `\3X ` + rest (`write!(buf, "\\{c:x} ")` with `c` the byte). -/
def printClassName : List Char → List Char
  | [] => []
  | c :: rest =>
    if isAsciiDigit c then '\\' :: hexLower c.toNat ++ ' ' :: rest
    else c :: rest

def printClasses : List (List Char) → List Char
  | [] => []
  | c :: cs => '.' :: printClassName c ++ printClasses cs

def printPlaceholders : List (List Char) → List Char
  | [] => []
  | p :: ps => '%' :: p ++ printPlaceholders ps

/-- pseudo.rs `replacen(" + ", "+", 1)`: the first occurrence only -/
def replaceFirstSpPlusSp : List Char → List Char
  | [] => []
  | c :: rest =>
    if c = ' ' ∧ rest.head? = some '+' ∧ (rest.drop 1).head? = some ' ' then '+' :: rest.drop 2
    else c :: replaceFirstSpPlusSp rest

def nthNames : List String := ["nth-child", "nth-last-child", "nth-last-of-type", "nth-of-type"]

/-- the element type is written unless it is `*` / `*|*` and something else (class,
placeholder, id, pseudo — attributes are *not* in the Rust condition) follows -/
def elemShown (e : List Char) (placeholders classes : List (List Char)) (id : Option (List Char))
    (pseudoCount : Nat) : Bool :=
  !elemIsAny e || (classes.isEmpty && placeholders.isEmpty && id.isNone && pseudoCount == 0)

/-- separator written for a relation after a selector whose last compound is/isn't empty:
selector.rs `Selector::write_to` -/
def relText (compressed : Bool) (k : Rel) (leftLocalEmpty : Bool) : List Char :=
  match k.symbol with
  | some sym =>
    (if !leftLocalEmpty && !compressed then [' '] else []) ++ [sym] ++ (if compressed then [] else [' '])
  | none => [' ']

/-- `buf.add_one(", ", ",")` -/
def commaText (compressed : Bool) : List Char := if compressed then [','] else [',', ' ']

mutual
  /-- selector.rs `Selector::write_to` -/
  def Selector.print (compressed : Bool) : Selector → List Char
    | .leaf c => Compound.print compressed c
    | .rel k s c =>
      Selector.print compressed s ++ relText compressed k s.isLocalEmpty ++ Compound.print compressed c
  /-- compound.rs `CompoundSelector::write_to` -/
  def Compound.print (compressed : Bool) : Compound → List Char
    | .mk b e p c i a ps =>
      (if b then ['&'] else [])
        ++ (match e with
            | some e => if elemShown e p c i ps.length then e else []
            | none => [])
        ++ printPlaceholders p
        ++ (match i with | some i => '#' :: i | none => [])
        ++ printClasses c
        ++ printAttrs a
        ++ Pseudo.printList compressed ps
  /-- pseudo.rs `Pseudo::write_to` -/
  def Pseudo.print (compressed : Bool) : Pseudo → List Char
    | .mk n a e =>
      ':' :: (if e then [':'] else []) ++ n
        ++ (if nameIn n (nthNames.map String.toList) then replaceFirstSpPlusSp (PArg.print compressed a)
            else PArg.print compressed a)
  /-- pseudo.rs `Arg::write_to` -/
  def PArg.print (compressed : Bool) : PArg → List Char
    | .sel s => '(' :: Selector.printList compressed s ++ [')']
    | .other s => '(' :: s ++ [')']
    | .none => []
  def Pseudo.printList (compressed : Bool) : List Pseudo → List Char
    | [] => []
    | p :: ps => Pseudo.print compressed p ++ Pseudo.printList compressed ps
  /-- selectorset.rs `SelectorSet::write_to` -/
  def Selector.printList (compressed : Bool) : List Selector → List Char
    | [] => []
    | [s] => Selector.print compressed s
    | s :: t :: rest =>
      Selector.print compressed s ++ commaText compressed ++ Selector.printList compressed (t :: rest)
end

/-- `SelectorSet::write_to` / `CssSelectorSet::write_to` -/
def SelSet.print (compressed : Bool) (s : SelSet) : List Char := Selector.printList compressed s

/-- text of a selector in expanded style, as a `String` (drivers) -/
def Selector.toString (s : Selector) : String := String.ofList (s.print false)
def SelSet.toString (s : SelSet) : String := String.ofList (SelSet.print false s)

end Sel
