/-
Selector parser (C25), namespace `Sel`: character-level model of

  parser/css/strings.rs          css_string_nohash, css_string (hash), css_string_dq/sq,
                                 normalized_first_escaped_char, normalized_escaped_char,
                                 normalized_escaped_char_q, selector_plain_part, escaped_char,
                                 hex_number, custom_value_inner (simplified: balanced text)
  css/selectors/elemtype.rs      name_opt_ns, elem_name, keyframe_stop
  css/selectors/attribute.rs     parser::attribute
  css/selectors/pseudo.rs        parser::pseudo
  css/selectors/compound.rs      parser::compound_selector
  css/selectors/selector.rs      parser::selector, explicit_rel_kind, rel_kind
  css/selectors/selectorset.rs   parser::selector_set

Total functions: loops and the selector ↔ pseudo-argument recursion take a `fuel`.
Limits: `spacelike` is whitespace only (no comments); Unicode classes are approximated
(`is_alphanumeric` on non-ASCII = code point ≥ U+00C0 except × ÷).
-/
import RsassModel.Sel.Syntax
import RsassModel.Sel.Print

namespace Sel

abbrev PR (α : Type) := Option (α × List Char)

def isAsciiAlpha (c : Char) : Bool := ('a' ≤ c && c ≤ 'z') || ('A' ≤ c && c ≤ 'Z')
def isHighLetter (c : Char) : Bool :=
  (c.toNat ≥ 0xC0 && c.toNat != 0xD7 && c.toNat != 0xF7)
    || [0xAA, 0xB2, 0xB3, 0xB5, 0xB9, 0xBA, 0xBC, 0xBD, 0xBE].contains c.toNat
/-- Rust `char::is_alphabetic` (approximation on non-ASCII) -/
def isAlphabetic (c : Char) : Bool := isAsciiAlpha c || isHighLetter c
/-- Rust `char::is_numeric` on the characters the model distinguishes -/
def isNumeric (c : Char) : Bool := isAsciiDigit c
def isAlphanumeric (c : Char) : Bool := isAlphabetic c || isNumeric c
/-- Rust `char::is_control` -/
def isControl (c : Char) : Bool := c.toNat < 0x20 || (0x7F ≤ c.toNat && c.toNat ≤ 0x9F)
def isSpace (c : Char) : Bool := c = ' ' || c = '\t' || c = '\n' || c = '\r' || c.toNat = 0x0C

def hexVal? (c : Char) : Option Nat :=
  if '0' ≤ c ∧ c ≤ '9' then some (c.toNat - 48)
  else if 'a' ≤ c ∧ c ≤ 'f' then some (c.toNat - 87)
  else if 'A' ≤ c ∧ c ≤ 'F' then some (c.toNat - 55)
  else none

/-- up to `n` hex digits: value, digits used, rest -/
def takeHex : Nat → Nat → Nat → List Char → Nat × Nat × List Char
  | 0, acc, used, rest => (acc, used, rest)
  | n + 1, acc, used, c :: rest =>
    match hexVal? c with
    | some v => takeHex n (acc * 16 + v) (used + 1) rest
    | none => (acc, used, c :: rest)
  | _ + 1, acc, used, [] => (acc, used, [])

/-- `std::char::from_u32` -/
def charOfNat? (n : Nat) : Option Char :=
  if n < 0xD800 || (0xDFFF < n && n < 0x110000) then some (Char.ofNat n) else none

/-- strings.rs `escaped_char`: `\` + (1–6 hex digits, optional single space | any char).
A hex number that is not a scalar value makes the first alternative fail and the second
(take_char) take the first hex digit itself. -/
def escapedChar : List Char → PR Char
  | '\\' :: c :: rest =>
    let (v, used, r) := takeHex 6 0 0 (c :: rest)
    if used = 0 then some (c, rest)
    else
      match charOfNat? v with
      | some ch => some (ch, match r with | ' ' :: r' => r' | _ => r)
      | none => some (c, rest)
  | _ => none

/-- Deviation flags of the selector lexer; `lexSpec` = all off = `lexAsis`, the code today
(both deviations were repaired in /repo: bcc4ec1, 60db3d6); `lexOld` = the code before. -/
structure LexQuirks where
  /-- (before bcc4ec1) strings.rs `selector_plain_part` accepted only `is_alphanumeric`
  characters, `-` and `_`, while `normalized_(first_)escaped_char` write every escaped character
  ≥ U+00A1 raw: a symbol (©, ×, ˛ …) was printed raw and the printed name did not parse again.
  Now every non-ASCII character is an identifier character. -/
  symbolEscapeRaw : Bool := false
  /-- (before 60db3d6) strings.rs `css_string_dq/sq`: `is_not(quote)` swallowed backslashes, so
  the body was the verbatim text up to the next quote and `\"` ended the string. -/
  quotedVerbatim : Bool := false
  deriving Repr, DecidableEq

def lexSpec : LexQuirks := {}
/-- the code as it is today -/
def lexAsis : LexQuirks := {}
/-- the code before bcc4ec1 / 60db3d6 -/
def lexOld : LexQuirks := { symbolEscapeRaw := true, quotedVerbatim := true }

/-- strings.rs `selector_plain_part` character class -/
def isPlainChar (q : LexQuirks) (c : Char) : Bool :=
  isAlphanumeric c || c = '-' || c = '_' || (!q.symbolEscapeRaw && c.toNat ≥ 0x80)

/-- a character ≥ U+00A1 is written raw by the escape normalisers (all versions of the code) -/
def highRaw (_q : LexQuirks) (c : Char) : Bool := c.toNat ≥ 0xA1

/-- strings.rs `normalized_first_escaped_char` -/
def normFirst (q : LexQuirks) (c : Char) : List Char :=
  if isAlphabetic c || highRaw q c then [c]
  else if !isControl c && !isNumeric c && c != '\n' && c != '\t' then ['\\', c]
  else '\\' :: hexLower c.toNat ++ [' ']

/-- strings.rs `normalized_escaped_char` -/
def normRest (q : LexQuirks) (c : Char) : List Char :=
  if isAlphanumeric c || c = '-' || highRaw q c then [c]
  else if !isControl c && c != '\n' && c != '\t' then ['\\', c]
  else '\\' :: hexLower c.toNat ++ [' ']

/-- the `fold_many0(alt((selector_plain_part, normalized_escaped_char)))` tail of a name;
`hash` = `css_string` (a `#` not starting an interpolation is part of the name) -/
def nameTail (q : LexQuirks) (hash : Bool) : Nat → List Char → List Char → List Char × List Char
  | 0, acc, rest => (acc, rest)
  | fuel + 1, acc, c :: rest =>
    if isPlainChar q c then nameTail q hash fuel (acc ++ [c]) rest
    else if c = '\\' then
      match escapedChar (c :: rest) with
      | some (ch, r) => nameTail q hash fuel (acc ++ normRest q ch) r
      | none => (acc, c :: rest)
    else if hash && c = '#' && rest.head? != some '{' then nameTail q hash fuel (acc ++ [c]) rest
    else (acc, c :: rest)
  | _ + 1, acc, [] => (acc, [])

/-- strings.rs `css_string_nohash` (`hash = false`) / `css_string` (`hash = true`) -/
def cssName (q : LexQuirks) (hash : Bool) : List Char → PR (List Char)
  | [] => none
  | c :: rest =>
    if isPlainChar q c then some (nameTail q hash (rest.length + 1) [c] rest)
    else if c = '\\' then
      match escapedChar (c :: rest) with
      | some (ch, r) => some (nameTail q hash (r.length + 1) (normFirst q ch) r)
      | none => none
    else if hash && c = '#' && rest.head? != some '{' then some (nameTail q hash (rest.length + 1) [c] rest)
    else none

def skipSpace : List Char → List Char
  | c :: rest => if isSpace c then skipSpace rest else c :: rest
  | [] => []

/-- strings.rs `normalized_escaped_char_q` -/
def normQ (c : Char) : List Char :=
  if c.toNat = 0 then [Char.ofNat 0xFFFD]
  else if isControl c && c != '\t' then '\\' :: hexLower c.toNat ++ [' ']
  else if c = '-' || c = '\\' || c = ' ' then ['\\', c]
  else [c]

/-- (before 60db3d6) the body is the text up to the first quote character, verbatim -/
def quotedVerbatimBody (q : Char) : Nat → List Char → List Char → PR (List Char)
  | 0, _, _ => none
  | _ + 1, _, [] => none
  | fuel + 1, acc, c :: rest =>
    if c = q then some (acc, rest) else quotedVerbatimBody q fuel (acc ++ [c]) rest

/-- strings.rs `css_string_dq/sq`, the `many0(alt((is_not(q \\), "\\q", escape)))` loop: the parts
in order (`run` = the plain run being collected) -/
def quotedParts (q : Char) : Nat → List Char → List (List Char) → List Char → PR (List (List Char))
  | 0, _, _, _ => none
  | _ + 1, _, _, [] => none
  | fuel + 1, run, parts, c :: rest =>
    let flush := if run.isEmpty then parts else parts ++ [run]
    if c = q then some (flush, rest)
    else if c = '\\' then
      match rest with
      | c2 :: rest2 =>
        if c2 = q then quotedParts q fuel [] (flush ++ [[q]]) rest2
        else match escapedChar (c :: rest) with
          | some (ch, r) => quotedParts q fuel [] (flush ++ [normQ ch]) r
          | none => none
      | [] => none
    else quotedParts q fuel (run ++ [c]) parts rest

def isHexDigitC (c : Char) : Bool := (hexVal? c).isSome

/-- strings.rs `cleanup_escape_ws`: the space that ends a hex escape is dropped unless a hex
digit, tab or space follows -/
def cleanupEscapeWs : List (List Char) → List (List Char)
  | [] => []
  | p :: rest =>
    let needs : Bool := match rest.head? with
      | some nxt => (match nxt.head? with
        | some c => isHexDigitC c || c = '\t' || c = ' '
        | none => false)
      | none => false
    (if p.length > 2 && p.head? = some '\\' && p.getLast? = some ' ' && !needs then p.dropLast else p)
      :: cleanupEscapeWs rest

def quotedBody (lq : LexQuirks) (q : Char) (rest : List Char) : PR (List Char) :=
  if lq.quotedVerbatim then quotedVerbatimBody q (rest.length + 1) [] rest
  else match quotedParts q (rest.length + 1) [] [] rest with
    | some (parts, r) => some ((cleanupEscapeWs parts).flatten, r)
    | none => none

/-- strings.rs `css_string_any`: value text and quote kind -/
def cssStringAny (q : LexQuirks) : List Char → PR (List Char × Quote)
  | '"' :: rest => match quotedBody q '"' rest with
    | some (v, r) => some ((v, .dbl), r) | none => none
  | '\'' :: rest => match quotedBody q '\'' rest with
    | some (v, r) => some ((v, .sgl), r) | none => none
  | l => match cssName q true l with
    | some (v, r) => some ((v, .none), r) | none => none

/-- elemtype.rs `name_part` -/
def namePart (q : LexQuirks) : List Char → PR (List Char)
  | '*' :: rest => some (['*'], rest)
  | l => cssName q false l

/-- elemtype.rs `name_opt_ns` -/
def nameOptNs (q : LexQuirks) : List Char → PR (List Char)
  | '|' :: rest => match namePart q rest with
    | some (n, r) => some ('|' :: n, r) | none => none
  | l =>
    match namePart q l with
    | some (a, '|' :: r) =>
      (match namePart q r with
       | some (b, r') => some (a ++ '|' :: b, r')
       | none => some (a, '|' :: r))
    | other => other

def takeWhileC (p : Char → Bool) : List Char → List Char × List Char
  | c :: rest => if p c then let (a, r) := takeWhileC p rest; (c :: a, r) else ([], c :: rest)
  | [] => ([], [])

/-- elemtype.rs `keyframe_stop`: `is_a("0123456789.")`, optional exponent, `%` -/
def keyframeStop (l : List Char) : PR (List Char) :=
  let (d, r) := takeWhileC (fun c => isAsciiDigit c || c = '.') l
  if d.isEmpty then none
  else
    let (e, r2) : List Char × List Char :=
      match r with
      | c :: r' =>
        if c = 'e' || c = 'E' then
          let (es, r'') := takeWhileC (fun c => c = 'e' || c = 'E') (c :: r')
          let (sign, r3) : List Char × List Char := match r'' with | '-' :: t => (['-'], t) | t => ([], t)
          let (ds, r4) := takeWhileC isAsciiDigit r3
          if ds.isEmpty then ([], r) else (es ++ sign ++ ds, r4)
        else ([], r)
      | [] => ([], r)
    match r2 with
    | '%' :: rest => some (d ++ e ++ ['%'], rest)
    | _ => none

def attrOps : List (List Char) := ["*=", "|=", "=", "$=", "~=", "^="].map String.toList

def matchPrefix (p : List Char) (l : List Char) : Option (List Char) :=
  if l.take p.length = p then some (l.drop p.length) else none

def parseOp (l : List Char) : PR (List Char) :=
  attrOps.findSome? (fun op => (matchPrefix op l).map (fun r => (op, r)))

/-- attribute.rs `parser::attribute` -/
def parseAttr (q : LexQuirks) : List Char → PR Attr
  | '[' :: rest =>
    match nameOptNs q (skipSpace rest) with
    | none => none
    | some (name, r1) =>
      let r1 := skipSpace r1
      match parseOp r1 with
      | some (op, r2) =>
        (match cssStringAny q (skipSpace r2) with
         | some ((v, q), r3) =>
           let r3 := skipSpace r3
           (match r3 with
            | ']' :: r4 => some (⟨name, op, v, q, none⟩, r4)
            | m :: r4 =>
              if isAsciiAlpha m then
                (match skipSpace r4 with
                 | ']' :: r5 => some (⟨name, op, v, q, some m⟩, r5)
                 | _ => none)
              else none
            | [] => none)
         | none =>
           -- `opt((op, value, modifier))` fails as a whole: only `[name]` is possible
           (match r1 with | ']' :: r4 => some (⟨name, [], [], .none, none⟩, r4) | _ => none))
      | none =>
        match r1 with
        | ']' :: r4 => some (⟨name, [], [], .none, none⟩, r4)
        | _ => none
  | _ => none

/-- strings.rs `custom_value_inner` / `custom_value_paren`, simplified: text up to the closing
parenthesis of the pseudo-class with properly nested and *matching* `()`/`[]`/`{}`, no quotes,
no backslashes; `;` only inside brackets.  `stack` = the closers still owed. -/
def customInner : Nat → List Char → List Char → List Char → PR (List Char)
  | 0, _, _, _ => none
  | _ + 1, _, _, [] => none
  | fuel + 1, stack, acc, c :: rest =>
    if c = '"' || c = '\\' then none
    else if c = ';' then (if stack.isEmpty then none else customInner fuel stack (acc ++ [c]) rest)
    else if c = '(' then customInner fuel (')' :: stack) (acc ++ [c]) rest
    else if c = '[' then customInner fuel (']' :: stack) (acc ++ [c]) rest
    else if c = '{' then customInner fuel ('}' :: stack) (acc ++ [c]) rest
    else if c = ')' || c = ']' || c = '}' then
      match stack with
      | [] => if acc.isEmpty then none else some (acc, c :: rest)
      | top :: more => if c = top then customInner fuel more (acc ++ [c]) rest else none
    else customInner fuel stack (acc ++ [c]) rest

/-- selector.rs `explicit_rel_kind` (with the surrounding `opt_spacelike`) -/
def explicitRel (l : List Char) : PR Rel :=
  match skipSpace l with
  | '+' :: r => some (.adjacent, skipSpace r)
  | '~' :: r => some (.sibling, skipSpace r)
  | '>' :: r => some (.parent, skipSpace r)
  | _ => none

/-- selector.rs `rel_kind` -/
def relKind (l : List Char) : PR Rel :=
  match explicitRel l with
  | some x => some x
  | none =>
    match l with
    | c :: _ => if isSpace c then some (.ancestor, skipSpace l) else none
    | [] => none

mutual
  /-- selectorset.rs `selector_set`: `separated_list1(opt_spacelike "," opt_spacelike, selector)` -/
  def parseSet (q : LexQuirks) : Nat → List Char → PR (List Selector)
    | 0, _ => none
    | fuel + 1, l =>
      match parseSelector q fuel l with
      | none => none
      | some (s, r) =>
        match skipSpace r with
        | ',' :: r2 =>
          (match parseSet q fuel (skipSpace r2) with
           | some (ss, r3) => some (s :: ss, r3)
           | none => some ([s], r))
        | _ => some ([s], r)
  /-- selector.rs `parser::selector` -/
  def parseSelector (q : LexQuirks) : Nat → List Char → PR Selector
    | 0, _ => none
    | fuel + 1, l =>
      let l := skipSpace l
      match explicitRel l with
      | some (k, r) =>
        let (c, r2) : Compound × List Char := match parseCompound q fuel r with
          | some (c, r2) => (c, r2) | none => (Compound.empty, r)
        let (s, r3) := parseSteps q fuel (.rel k Selector.root c) r2
        some (s, skipSpace r3)
      | none =>
        match parseCompound q fuel l with
        | some (c, r2) => let (s, r3) := parseSteps q fuel (.leaf c) r2; some (s, skipSpace r3)
        | none => none
  /-- the `fold_many0(verify(pair(rel_kind, opt(compound_selector)), …))` of `selector` -/
  def parseSteps (q : LexQuirks) : Nat → Selector → List Char → Selector × List Char
    | 0, acc, l => (acc, l)
    | fuel + 1, acc, l =>
      match relKind l with
      | none => (acc, l)
      | some (k, r) =>
        match parseCompound q fuel r with
        | some (c, r2) => parseSteps q fuel (.rel k acc c) r2
        | none => if k.symbol.isSome then parseSteps q fuel (.rel k acc Compound.empty) r else (acc, l)
  /-- compound.rs `parser::compound_selector` -/
  def parseCompound (q : LexQuirks) : Nat → List Char → PR Compound
    | 0, _ => none
    | fuel + 1, l =>
      match keyframeStop l with
      | some (stop, r) => some (.mk false (some stop) [] [] none [] [], r)
      | none =>
        let (b, r0) : Bool × List Char := match l with | '&' :: r => (true, r) | _ => (false, l)
        let (e, r1) : Option (List Char) × List Char := match nameOptNs q r0 with
          | some (n, r) => (some n, r) | none => (none, r0)
        match parseSimples q fuel (.mk b e [] [] none [] []) r1 with
        | none => none
        | some (c, r2) => if c.isEmpty then none else some (c, r2)
  /-- the `loop { match rest.first() { '#' … '%' … '.' … ':' … '[' … } }` of `compound_selector` -/
  def parseSimples (q : LexQuirks) : Nat → Compound → List Char → PR Compound
    | 0, c, l => some (c, l)
    | fuel + 1, .mk b e p cl i a ps, l =>
      match l with
      | '#' :: r => (match cssName q false r with
        | some (n, r') => parseSimples q fuel (.mk b e p cl (some n) a ps) r' | none => none)
      | '%' :: r => (match cssName q false r with
        | some (n, r') => parseSimples q fuel (.mk b e (p ++ [n]) cl i a ps) r' | none => none)
      | '.' :: r => (match cssName q false r with
        | some (n, r') => parseSimples q fuel (.mk b e p (cl ++ [n]) i a ps) r' | none => none)
      | ':' :: _ => (match parsePseudo q fuel l with
        | some (x, r') => parseSimples q fuel (.mk b e p cl i a (ps ++ [x])) r' | none => none)
      | '[' :: _ => (match parseAttr q l with
        | some (x, r') => parseSimples q fuel (.mk b e p cl i (a ++ [x]) ps) r' | none => none)
      | _ => some (.mk b e p cl i a ps, l)
  /-- pseudo.rs `parser::pseudo` -/
  def parsePseudo (q : LexQuirks) : Nat → List Char → PR Pseudo
    | 0, _ => none
    | fuel + 1, l =>
      let (el, r0) : Bool × List Char := match l with
        | ':' :: ':' :: r => (true, r)
        | ':' :: r => (false, r)
        | _ => (false, [])
      match cssName q false r0 with
      | none => none
      | some (n, r1) =>
        match r1 with
        | '(' :: r2 =>
          let viaSel : PR Pseudo := match parseSet q fuel r2 with
            | some (ss, ')' :: r3) => some (.mk n (.sel ss) el, r3)
            | _ => none
          (match viaSel with
           | some x => some x
           | none =>
             match customInner (r2.length + 1) [] [] r2 with
             | some (t, ')' :: r3) => some (.mk n (.other t) el, r3)
             | _ => some (.mk n .none el, r1))
        | _ => some (.mk n .none el, r1)
end

/-- `ParseError::check(parser::selector_set(text))`: the whole text must be consumed -/
def parseSelSet (q : LexQuirks) (text : List Char) : Option SelSet :=
  match parseSet q (2 * text.length + 4) text with
  | some (ss, []) => some ss
  | _ => none

/-- As-is deviation of the SCSS front end (parser/strings.rs `unquoted_first_part`, reached
from parser/selectors.rs `selector_part`): after a `#` or `.` sigil the first escape of the
name is normalised with `normalized_escaped_char` (not `…first…`), so an escaped digit or
`-` loses its escape before the CSS selector parser sees it (`#\31` → `#1`). -/
def sassSigilPre : Nat → List Char → List Char
  | 0, l => l
  | _ + 1, [] => []
  | fuel + 1, c :: rest =>
    if (c = '#' || c = '.') && rest.head? = some '\\' then
      match escapedChar rest with
      | some (ch, r) =>
        if isNumeric ch || ch = '-' then c :: ch :: sassSigilPre fuel r
        else c :: sassSigilPre fuel rest
      | none => c :: sassSigilPre fuel rest
    else c :: sassSigilPre fuel rest

end Sel
