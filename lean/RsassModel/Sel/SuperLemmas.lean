/-
Helper lemmas for C23 (namespace `Sel`): the structural equality is lawful, `all_any` is
reflexive / transitive / monotone, and reflexivity and transitivity lift from the relation
used on pseudo-class arguments through `Pseudo`, `Compound` and `Selector`.
-/
import RsassModel.Sel.Super

namespace Sel

/-! ### structural equality is equality -/

mutual
  theorem Selector.beq_eq : ∀ (a b : Selector), Selector.beq a b = true → a = b
    | .leaf c, .leaf d, h => by
      simp only [Selector.beq] at h; rw [Compound.beq_eq c d h]
    | .rel k s c, .rel l t d, h => by
      simp only [Selector.beq, Bool.and_eq_true, decide_eq_true_eq] at h
      rw [h.1.1, Selector.beq_eq s t h.1.2, Compound.beq_eq c d h.2]
    | .leaf _, .rel _ _ _, h => by simp [Selector.beq] at h
    | .rel _ _ _, .leaf _, h => by simp [Selector.beq] at h
  theorem Compound.beq_eq : ∀ (a b : Compound), Compound.beq a b = true → a = b
    | .mk b e p c i a ps, .mk b' e' p' c' i' a' ps', h => by
      simp only [Compound.beq, Bool.and_eq_true, decide_eq_true_eq] at h
      obtain ⟨⟨⟨⟨⟨⟨h1, h2⟩, h3⟩, h4⟩, h5⟩, h6⟩, h7⟩ := h
      rw [h1, h2, h3, h4, h5, h6, Pseudo.beqList_eq ps ps' h7]
  theorem Pseudo.beq_eq : ∀ (a b : Pseudo), Pseudo.beq a b = true → a = b
    | .mk n a e, .mk n' a' e', h => by
      simp only [Pseudo.beq, Bool.and_eq_true, decide_eq_true_eq] at h
      rw [h.1.1, PArg.beq_eq a a' h.1.2, h.2]
  theorem PArg.beq_eq : ∀ (a b : PArg), PArg.beq a b = true → a = b
    | .sel a, .sel b, h => by
      simp only [PArg.beq] at h; rw [Selector.beqList_eq a b h]
    | .other a, .other b, h => by simp only [PArg.beq, decide_eq_true_eq] at h; rw [h]
    | .none, .none, _ => rfl
    | .sel _, .other _, h | .sel _, .none, h | .other _, .sel _, h
    | .other _, .none, h | .none, .sel _, h | .none, .other _, h => by simp [PArg.beq] at h
  theorem Pseudo.beqList_eq : ∀ (a b : List Pseudo), Pseudo.beqList a b = true → a = b
    | [], [], _ => rfl
    | p :: ps, q :: qs, h => by
      simp only [Pseudo.beqList, Bool.and_eq_true] at h
      rw [Pseudo.beq_eq p q h.1, Pseudo.beqList_eq ps qs h.2]
    | [], _ :: _, h => by simp [Pseudo.beqList] at h
    | _ :: _, [], h => by simp [Pseudo.beqList] at h
  theorem Selector.beqList_eq : ∀ (a b : List Selector), Selector.beqList a b = true → a = b
    | [], [], _ => rfl
    | p :: ps, q :: qs, h => by
      simp only [Selector.beqList, Bool.and_eq_true] at h
      rw [Selector.beq_eq p q h.1, Selector.beqList_eq ps qs h.2]
    | [], _ :: _, h => by simp [Selector.beqList] at h
    | _ :: _, [], h => by simp [Selector.beqList] at h
end

mutual
  theorem Selector.beq_refl : ∀ (a : Selector), Selector.beq a a = true
    | .leaf c => by simp only [Selector.beq]; exact Compound.beq_refl c
    | .rel k s c => by
      simp only [Selector.beq, Bool.and_eq_true, decide_eq_true_eq]
      exact ⟨⟨trivial, Selector.beq_refl s⟩, Compound.beq_refl c⟩
  theorem Compound.beq_refl : ∀ (a : Compound), Compound.beq a a = true
    | .mk b e p c i a ps => by
      simp only [Compound.beq, Bool.and_eq_true, decide_eq_true_eq]
      exact ⟨⟨⟨⟨⟨⟨trivial, trivial⟩, trivial⟩, trivial⟩, trivial⟩, trivial⟩, Pseudo.beqList_refl ps⟩
  theorem Pseudo.beq_refl : ∀ (a : Pseudo), Pseudo.beq a a = true
    | .mk n a e => by
      simp only [Pseudo.beq, Bool.and_eq_true, decide_eq_true_eq]
      exact ⟨⟨trivial, PArg.beq_refl a⟩, trivial⟩
  theorem PArg.beq_refl : ∀ (a : PArg), PArg.beq a a = true
    | .sel a => by simp only [PArg.beq]; exact Selector.beqList_refl a
    | .other a => by simp [PArg.beq]
    | .none => by simp [PArg.beq]
  theorem Pseudo.beqList_refl : ∀ (a : List Pseudo), Pseudo.beqList a a = true
    | [] => by simp [Pseudo.beqList]
    | p :: ps => by
      simp only [Pseudo.beqList, Bool.and_eq_true]; exact ⟨Pseudo.beq_refl p, Pseudo.beqList_refl ps⟩
  theorem Selector.beqList_refl : ∀ (a : List Selector), Selector.beqList a a = true
    | [] => by simp [Selector.beqList]
    | p :: ps => by
      simp only [Selector.beqList, Bool.and_eq_true]
      exact ⟨Selector.beq_refl p, Selector.beqList_refl ps⟩
end

theorem PArg.beq_iff (a b : PArg) : PArg.beq a b = true ↔ a = b :=
  ⟨PArg.beq_eq a b, fun h => h ▸ PArg.beq_refl a⟩

/-! ### `all_any` -/

theorem allAny_iff {α : Type} {f : α → α → Bool} {xs ys : List α} :
    allAny f xs ys = true ↔ ∀ a ∈ xs, ∃ b ∈ ys, f a b = true := by
  simp [allAny]

theorem allAny_refl {α : Type} {f : α → α → Bool} {xs : List α}
    (h : ∀ a ∈ xs, f a a = true) : allAny f xs xs = true :=
  allAny_iff.2 fun a ha => ⟨a, ha, h a ha⟩

theorem allAny_trans {α : Type} {f : α → α → Bool} {xs ys zs : List α}
    (h : ∀ a ∈ xs, ∀ b ∈ ys, ∀ c ∈ zs, f a b = true → f b c = true → f a c = true)
    (h1 : allAny f xs ys = true) (h2 : allAny f ys zs = true) : allAny f xs zs = true := by
  rw [allAny_iff] at *
  intro a ha
  obtain ⟨b, hb, hab⟩ := h1 a ha
  obtain ⟨c, hc, hbc⟩ := h2 b hb
  exact ⟨c, hc, h a ha b hb c hc hab hbc⟩

theorem allAny_congr {α : Type} {f g : α → α → Bool} {xs ys : List α}
    (h : ∀ a ∈ xs, ∀ b ∈ ys, f a b = g a b) : allAny f xs ys = allAny g xs ys := by
  rw [Bool.eq_iff_iff, allAny_iff, allAny_iff]
  constructor
  · intro H a ha
    obtain ⟨b, hb, hab⟩ := H a ha
    exact ⟨b, hb, by rw [← h a ha b hb]; exact hab⟩
  · intro H a ha
    obtain ⟨b, hb, hab⟩ := H a ha
    exact ⟨b, hb, by rw [h a ha b hb]; exact hab⟩

theorem allAny_eq_refl {α : Type} [DecidableEq α] (xs : List α) :
    allAny (fun x y => decide (x = y)) xs xs = true :=
  allAny_refl fun _ _ => by simp

theorem allAny_eq_trans {α : Type} [DecidableEq α] {xs ys zs : List α}
    (h1 : allAny (fun x y => decide (x = y)) xs ys = true)
    (h2 : allAny (fun x y => decide (x = y)) ys zs = true) :
    allAny (fun x y => decide (x = y)) xs zs = true :=
  allAny_trans (fun _ _ _ _ _ _ hab hbc => by simp at *; rw [hab, hbc]) h1 h2

/-! ### attribute values -/

theorem cssStrEq_refl (q : SuperQuirks) (a : List Char) (qa : Quote) : cssStrEq q a qa a qa = true := by
  unfold cssStrEq; split <;> simp

theorem cssStrEq_spec_trans {a b c : List Char} {qa qb qc : Quote}
    (h1 : cssStrEq superSpec a qa b qb = true) (h2 : cssStrEq superSpec b qb c qc = true) :
    cssStrEq superSpec a qa c qc = true := by
  simp [cssStrEq, superSpec] at *
  rw [h1, h2]

theorem Attr.isSuper_refl (q : SuperQuirks) (a : Attr) : Attr.isSuper q a a = true := by
  simp [Attr.isSuper, cssStrEq_refl]

theorem Attr.isSuper_spec_trans {a b c : Attr}
    (h1 : Attr.isSuper superSpec a b = true) (h2 : Attr.isSuper superSpec b c = true) :
    Attr.isSuper superSpec a c = true := by
  simp only [Attr.isSuper, Bool.and_eq_true, decide_eq_true_eq] at *
  obtain ⟨⟨⟨n1, o1⟩, v1⟩, m1⟩ := h1
  obtain ⟨⟨⟨n2, o2⟩, v2⟩, m2⟩ := h2
  exact ⟨⟨⟨n1.trans n2, o1.trans o2⟩, cssStrEq_spec_trans v1 v2⟩, m1.trans m2⟩

theorem Attr.isSuper_trans_of {q : SuperQuirks} (hq : q.attrQuoteMix = false) {a b c : Attr}
    (h1 : Attr.isSuper q a b = true) (h2 : Attr.isSuper q b c = true) :
    Attr.isSuper q a c = true := by
  simp only [Attr.isSuper, cssStrEq, hq, Bool.false_and, Bool.false_eq_true, if_false,
    Bool.and_eq_true, decide_eq_true_eq] at *
  obtain ⟨⟨⟨n1, o1⟩, v1⟩, m1⟩ := h1
  obtain ⟨⟨⟨n2, o2⟩, v2⟩, m2⟩ := h2
  exact ⟨⟨⟨n1.trans n2, o1.trans o2⟩, v1.trans v2⟩, m1.trans m2⟩

/-- A relation on attributes that the proofs need: reflexive and transitive. -/
structure AttrPreorder (A : Attr → Attr → Bool) : Prop where
  refl : ∀ a, A a a = true
  trans : ∀ a b c, A a b = true → A b c = true → A a c = true

theorem attr_spec_preorder : AttrPreorder (Attr.isSuper superSpec) :=
  ⟨Attr.isSuper_refl _, fun _ _ _ => Attr.isSuper_spec_trans⟩

/-! ### element types -/

theorem matchName_refl (a : List Char) : matchName a a = true := by simp [matchName]

theorem matchName_trans {a b c : List Char} (h1 : matchName a b = true) (h2 : matchName b c = true) :
    matchName a c = true := by
  simp only [matchName, Bool.or_eq_true, decide_eq_true_eq] at *
  rcases h1 with h1 | h1
  · exact Or.inl h1
  · rcases h2 with h2 | h2
    · exact Or.inl (h1.trans h2)
    · exact Or.inr (h1.trans h2)

theorem elemIsSuper_refl (e : List Char) : elemIsSuper e e = true := by
  simp [elemIsSuper, matchName_refl]

theorem elemIsSuper_trans {a b c : List Char} (h1 : elemIsSuper a b = true) (h2 : elemIsSuper b c = true) :
    elemIsSuper a c = true := by
  simp only [elemIsSuper, Bool.and_eq_true] at *
  exact ⟨matchName_trans h1.1 h2.1, matchName_trans h1.2 h2.2⟩

theorem takeWhile_dropWhile_bar (e : List Char) (h : e.contains '|' = true) :
    e = e.takeWhile (· ≠ '|') ++ '|' :: (e.dropWhile (· ≠ '|')).drop 1 := by
  induction e with
  | nil => simp at h
  | cons x xs ih =>
    by_cases hx : x = '|'
    · subst hx; simp [List.takeWhile, List.dropWhile]
    · have : xs.contains '|' = true := by
        simp only [List.contains_cons, Bool.or_eq_true, beq_iff_eq] at h
        rcases h with h | h
        · exact absurd h.symm hx
        · exact h
      have ih := ih this
      simp only [List.takeWhile, List.dropWhile, hx, ne_eq, not_false_eq_true, decide_true,
        List.cons_append]
      rw [← ih]

/-- an element type that is a superselector of `*` / `*|*` is itself `*` / `*|*` -/
theorem elemIsAny_of_super {e s : List Char} (hs : elemIsAny s = true) (h : elemIsSuper e s = true) :
    elemIsAny e = true := by
  have key : ∀ x : List Char, matchName x ['*'] = true → x = ['*'] := by
    intro x hx; simp [matchName] at hx; exact hx
  have hs2 : (elemSplitNs s).1.getD ['*'] = ['*'] ∧ (elemSplitNs s).2 = ['*'] := by
    simp only [elemIsAny, Bool.or_eq_true, decide_eq_true_eq] at hs
    rcases hs with hs | hs <;> subst hs <;> decide
  simp only [elemIsSuper, Bool.and_eq_true] at h
  rw [hs2.1, hs2.2] at h
  have h1 := key _ h.1
  have h2 := key _ h.2
  unfold elemSplitNs at h1 h2
  by_cases hc : e.contains '|' = true
  · simp only [hc, if_true, Option.getD_some] at h1 h2
    have := takeWhile_dropWhile_bar e hc
    rw [h1, h2] at this
    simp [elemIsAny, this]
  · simp only [hc] at h1 h2
    simp at h2
    simp [elemIsAny, h2]

theorem elemClause_refl (a : Option (List Char)) : elemClause a a = true := by
  cases a <;> simp [elemClause, elemIsSuper_refl]

theorem elemClause_trans {a b c : Option (List Char)} (h1 : elemClause a b = true)
    (h2 : elemClause b c = true) : elemClause a c = true := by
  cases a with
  | none => simp [elemClause]
  | some e =>
    simp only [elemClause, Bool.or_eq_true] at h1 ⊢
    rcases h1 with h1 | h1
    · exact Or.inl h1
    · cases b with
      | none => simp at h1
      | some s =>
        simp only at h1
        simp only [elemClause, Bool.or_eq_true] at h2
        rcases h2 with h2 | h2
        · exact Or.inl (elemIsAny_of_super h2 h1)
        · cases c with
          | none => simp at h2
          | some t => exact Or.inr (elemIsSuper_trans h1 h2)

/-! ### pseudo-class arguments and pseudo selectors, over the argument relation `R` -/

/-- `R` is transitive -/
def RTrans (R : SelSet → SelSet → Bool) : Prop :=
  ∀ X Y Z, R X Y = true → R Y Z = true → R X Z = true

theorem PArg.isSuperW_refl {R : SelSet → SelSet → Bool} {a : PArg}
    (h : ∀ X, a = .sel X → R X X = true) : PArg.isSuperW R a a = true := by
  cases a with
  | sel X => simp only [PArg.isSuperW]; exact h X rfl
  | other s => simp [PArg.isSuperW]
  | none => simp [PArg.isSuperW]

theorem PArg.isSuperW_trans {R : SelSet → SelSet → Bool} (hR : RTrans R) {a b c : PArg}
    (h1 : PArg.isSuperW R a b = true) (h2 : PArg.isSuperW R b c = true) :
    PArg.isSuperW R a c = true := by
  cases a <;> cases b <;> cases c <;> simp_all [PArg.isSuperW]
  exact hR _ _ _ h1 h2

theorem PArg.isSuperW_congr {R R' : SelSet → SelSet → Bool} {a b : PArg}
    (h : ∀ X Y, a = .sel X → b = .sel Y → R X Y = R' X Y) :
    PArg.isSuperW R a b = PArg.isSuperW R' a b := by
  cases a <;> cases b <;> simp [PArg.isSuperW]
  exact h _ _ rfl rfl

theorem Pseudo.isSuperW_refl {R : SelSet → SelSet → Bool} {p : Pseudo}
    (h : ∀ X, p.arg = .sel X → R X X = true) : Pseudo.isSuperW R p p = true := by
  unfold Pseudo.isSuperW
  simp only [bne_self_eq_false, ne_eq, not_true_eq_false, decide_false, Bool.or_self,
    Bool.false_eq_true, if_false]
  split
  · exact PArg.isSuperW_refl h
  · split
    · exact PArg.beq_refl _
    · exact PArg.isSuperW_refl h

theorem Pseudo.isSuperW_name {R : SelSet → SelSet → Bool} {p q : Pseudo}
    (h : Pseudo.isSuperW R p q = true) : p.isElement = q.isElement ∧ p.name = q.name := by
  unfold Pseudo.isSuperW at h
  split at h
  · simp at h
  · next hc =>
    simp only [ne_eq, Bool.or_eq_true, bne_iff_ne, decide_eq_true_eq, not_or, Decidable.not_not] at hc
    exact hc

theorem Pseudo.isSuperW_trans {R : SelSet → SelSet → Bool} (hR : RTrans R) {p q r : Pseudo}
    (h1 : Pseudo.isSuperW R p q = true) (h2 : Pseudo.isSuperW R q r = true) :
    Pseudo.isSuperW R p r = true := by
  obtain ⟨e1, n1⟩ := Pseudo.isSuperW_name h1
  obtain ⟨e2, n2⟩ := Pseudo.isSuperW_name h2
  unfold Pseudo.isSuperW at h1 h2 ⊢
  unfold Pseudo.nameIn at *
  rw [← n1] at h2
  simp only [e1, e2, n1, n2, bne_self_eq_false, ne_eq, not_true_eq_false, decide_false,
    Bool.or_self, Bool.false_eq_true, if_false] at h1 h2 ⊢
  rw [← n2, ← n1] at *
  split
  · next hn =>
    simp only [hn, if_true] at h1 h2
    exact PArg.isSuperW_trans hR h2 h1
  · next hn =>
    simp only [hn, Bool.false_eq_true, if_false] at h1 h2
    split
    · next hc =>
      simp only [hc, if_true] at h1 h2
      rw [PArg.beq_eq _ _ h1]; exact h2
    · next hc =>
      simp only [hc, Bool.false_eq_true, if_false] at h1 h2
      exact PArg.isSuperW_trans hR h1 h2

theorem Pseudo.isSuperW_congr {R R' : SelSet → SelSet → Bool} {p q : Pseudo}
    (h : ∀ X Y, p.arg = .sel X → q.arg = .sel Y → R X Y = R' X Y ∧ R Y X = R' Y X) :
    Pseudo.isSuperW R p q = Pseudo.isSuperW R' p q := by
  unfold Pseudo.isSuperW
  split
  · rfl
  · split
    · exact PArg.isSuperW_congr fun X Y hX hY => (h Y X hY hX).2
    · split
      · rfl
      · exact PArg.isSuperW_congr fun X Y hX hY => (h X Y hX hY).1

/-! ### compounds -/

theorem peClause_refl {R : SelSet → SelSet → Bool} {a : Option Pseudo}
    (h : ∀ p, a = some p → Pseudo.isSuperW R p p = true) : peClause R a a = true := by
  cases a with
  | none => simp [peClause]
  | some p => simp only [peClause]; exact h p rfl

theorem peClause_trans {R : SelSet → SelSet → Bool} (hR : RTrans R) {a b c : Option Pseudo}
    (h1 : peClause R a b = true) (h2 : peClause R b c = true) : peClause R a c = true := by
  cases a <;> cases b <;> cases c <;> simp_all [peClause]
  exact Pseudo.isSuperW_trans hR h1 h2

theorem Compound.isSuperG_refl {A : Attr → Attr → Bool} {R : SelSet → SelSet → Bool} {c : Compound}
    (hA : ∀ a ∈ c.attrs, A a a = true) (hP : ∀ p ∈ c.pseudos, Pseudo.isSuperW R p p = true) :
    Compound.isSuperG A R c c = true := by
  simp only [Compound.isSuperG, Bool.and_eq_true]
  refine ⟨⟨⟨⟨⟨⟨elemClause_refl _, allAny_eq_refl _⟩, allAny_eq_refl _⟩, ?_⟩, allAny_refl hA⟩,
    allAny_refl hP⟩, ?_⟩
  · cases c.id <;> simp
  · apply peClause_refl
    intro p hp
    exact hP p (List.mem_of_find?_eq_some hp)

theorem Compound.isSuperG_trans {A : Attr → Attr → Bool} {R : SelSet → SelSet → Bool}
    (hA : ∀ a b c, A a b = true → A b c = true → A a c = true) (hR : RTrans R) {a b c : Compound}
    (h1 : Compound.isSuperG A R a b = true) (h2 : Compound.isSuperG A R b c = true) :
    Compound.isSuperG A R a c = true := by
  simp only [Compound.isSuperG, Bool.and_eq_true] at *
  obtain ⟨⟨⟨⟨⟨⟨e1, p1⟩, c1⟩, i1⟩, a1⟩, s1⟩, x1⟩ := h1
  obtain ⟨⟨⟨⟨⟨⟨e2, p2⟩, c2⟩, i2⟩, a2⟩, s2⟩, x2⟩ := h2
  refine ⟨⟨⟨⟨⟨⟨elemClause_trans e1 e2, allAny_eq_trans p1 p2⟩, allAny_eq_trans c1 c2⟩, ?_⟩,
    allAny_trans (fun x _ y _ z _ => hA x y z) a1 a2⟩,
    allAny_trans (fun x _ y _ z _ => Pseudo.isSuperW_trans hR) s1 s2⟩, peClause_trans hR x1 x2⟩
  cases hi : a.id with
  | none => simp
  | some i =>
    simp only [hi, decide_eq_true_eq] at i1
    simp only [i1, decide_eq_true_eq] at i2
    simp [i2]

theorem Compound.isSuperG_congr {A A' : Attr → Attr → Bool} {R R' : SelSet → SelSet → Bool}
    {a b : Compound} (hA : ∀ x ∈ a.attrs, ∀ y ∈ b.attrs, A x y = A' x y)
    (hP : ∀ p ∈ a.pseudos, ∀ q ∈ b.pseudos, Pseudo.isSuperW R p q = Pseudo.isSuperW R' p q) :
    Compound.isSuperG A R a b = Compound.isSuperG A' R' a b := by
  unfold Compound.isSuperG
  rw [allAny_congr hA, allAny_congr hP]
  congr 1
  unfold peClause Compound.pseudoElement
  cases ha : a.pseudos.find? Pseudo.isElement with
  | none => rfl
  | some aa =>
    cases hb : b.pseudos.find? Pseudo.isElement with
    | none => rfl
    | some ba => exact hP aa (List.mem_of_find?_eq_some ha) ba (List.mem_of_find?_eq_some hb)

end Sel
