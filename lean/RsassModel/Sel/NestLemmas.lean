/-
Helper lemmas for Theorems/C19.lean (round-robin merge, `Selector::nest` printing,
`&` elimination).  Proof file: may be imported by theorem files only.
-/
import RsassModel.Sel.Nest

namespace Sel

/-! ### Round robin over a full matrix -/

section RoundRobin
variable {α β γ : Type}

/-- the rows `inners.map (fun i => outers.map (f · i))` of `CssSelectorSet::nest` -/
def matrixRows (f : α → β → γ) (outers : List α) (inners : List β) : List (List γ) :=
  inners.map (fun i => outers.map (fun o => f o i))

theorem heads_matrixRows (f : α → β → γ) (o : α) (os : List α) (inners : List β) :
    heads (matrixRows f (o :: os) inners) = inners.map (f o) := by
  induction inners with
  | nil => rfl
  | cons i is ih => simp [matrixRows, heads] at ih ⊢; exact ih

theorem tails_matrixRows (f : α → β → γ) (o : α) (os : List α) (inners : List β) :
    tails (matrixRows f (o :: os) inners) = matrixRows f os inners := by
  induction inners with
  | nil => rfl
  | cons i is ih => simp [matrixRows, tails] at ih ⊢; exact ih

theorem allEmpty_matrixRows_cons (f : α → β → γ) (o : α) (os : List α) (inners : List β) :
    allEmpty (matrixRows f (o :: os) inners) = inners.isEmpty := by
  cases inners with
  | nil => rfl
  | cons i is => simp [matrixRows, allEmpty]

theorem allEmpty_matrixRows_nil (f : α → β → γ) (inners : List β) :
    allEmpty (matrixRows f [] inners) = true := by
  induction inners with
  | nil => rfl
  | cons i is ih => simp [matrixRows, allEmpty] at ih ⊢; exact ih

theorem maxLen_matrixRows (f : α → β → γ) (os : List α) (inners : List β) :
    maxLen (matrixRows f os inners) = if inners.isEmpty then 0 else os.length := by
  induction inners with
  | nil => rfl
  | cons i is ih =>
    simp only [matrixRows, List.map_cons, maxLen, List.length_map, List.isEmpty_cons] at ih ⊢
    rw [ih]; split <;> simp

theorem roundRobinAux_matrixRows (f : α → β → γ) (inners : List β) :
    ∀ (os : List α) (fuel : Nat), os.length ≤ fuel →
      roundRobinAux fuel (matrixRows f os inners) = os.flatMap (fun o => inners.map (f o)) := by
  intro os
  induction os with
  | nil =>
    intro fuel _
    cases fuel with
    | zero => rfl
    | succ n => simp [roundRobinAux, allEmpty_matrixRows_nil]
  | cons o os ih =>
    intro fuel h
    cases fuel with
    | zero => simp at h
    | succ n =>
      have hn : os.length ≤ n := by simpa using h
      cases hin : inners with
      | nil => simp [roundRobinAux, matrixRows, allEmpty]
      | cons i is =>
        have := ih n hn
        rw [hin] at this
        simp only [roundRobinAux, allEmpty_matrixRows_cons, List.isEmpty_cons, Bool.false_eq_true,
          if_false, heads_matrixRows, tails_matrixRows, this, List.flatMap_cons]

end RoundRobin

end Sel

namespace Sel

/-! ### `Selector::nest` -/

theorem Compound.print_of_isEmpty (cm : Bool) (c : Compound) (h : c.isEmpty = true) :
    Compound.print cm c = [] := by
  cases c with
  | mk b e p cl i a ps =>
    simp [Compound.isEmpty] at h
    obtain ⟨⟨⟨⟨⟨⟨hb, he⟩, hp⟩, hc⟩, hi⟩, ha⟩, hps⟩ := h
    subst hb; subst he; subst hp; subst hc; subst hi; subst ha; subst hps
    simp [Compound.print, printPlaceholders, printClasses, printAttrs, Pseudo.printList]

theorem Selector.nest_compound (o i : Selector) : (o.nest i).compound = i.compound := by
  cases i with
  | leaf c => simp only [Selector.nest]; split <;> rfl
  | rel k r c =>
    simp only [Selector.nest]
    split
    · rfl
    · split
      · split <;> rfl
      · rfl

theorem Selector.nest_isLocalEmpty (o i : Selector) : (o.nest i).isLocalEmpty = i.isLocalEmpty := by
  simp [Selector.isLocalEmpty, Selector.nest_compound]

theorem Selector.not_rootLike_of_not_localEmpty (o : Selector) (h : o.isLocalEmpty = false) :
    o.isRootLike = false := by
  simp [Selector.isRootLike, h]

theorem Selector.print_nest (o : Selector) (ho : o.isLocalEmpty = false) :
    ∀ i : Selector, i.innerOk = true →
      Selector.print false (o.nest i) = Selector.print false o ++ ' ' :: Selector.print false i
  | .leaf c, _ => by
    have hr := Selector.not_rootLike_of_not_localEmpty o ho
    simp [Selector.nest, hr, Selector.print, relText, Rel.symbol]
  | .rel k r c, hi => by
    have hr := Selector.not_rootLike_of_not_localEmpty o ho
    simp only [Selector.innerOk, Bool.and_eq_true, Bool.not_eq_true', Bool.or_eq_true] at hi
    obtain ⟨⟨hc, hrk⟩, hk⟩ := hi
    have ih := Selector.print_nest o ho r hrk
    simp only [Selector.nest, hr, Bool.false_eq_true, if_false, Selector.nest_isLocalEmpty]
    cases hre : r.isLocalEmpty with
    | false =>
      simp only [Bool.false_eq_true, if_false, Selector.print, ih, Selector.nest_isLocalEmpty, hre]
      simp [List.append_assoc]
    | true =>
      -- `r` is a lone empty compound: a leading combinator
      cases r with
      | rel k2 r2 c2 =>
        simp [Selector.innerOk, Selector.isLocalEmpty, Selector.compound] at hrk hre
        simp [hre] at hrk
      | leaf c0 =>
        have hc0 : c0.isEmpty = true := by simpa [Selector.isLocalEmpty, Selector.compound] using hre
        have hkne : k ≠ .ancestor := by
          rcases hk with h | h
          · simp [hre] at h
          · simpa using h
        simp only [if_true, Selector.nest, hr, Bool.false_eq_true, if_false]
        cases k with
        | ancestor => exact absurd rfl hkne
        | parent => simp [Selector.print, relText, Rel.symbol, ho, hre, Compound.print_of_isEmpty _ _ hc0]
        | sibling => simp [Selector.print, relText, Rel.symbol, ho, hre, Compound.print_of_isEmpty _ _ hc0]
        | adjacent => simp [Selector.print, relText, Rel.symbol, ho, hre, Compound.print_of_isEmpty _ _ hc0]

end Sel

namespace Sel

theorem roundRobin_matrixRows {α β γ : Type} (f : α → β → γ) (os : List α) (inners : List β) :
    roundRobin (matrixRows f os inners) = os.flatMap (fun o => inners.map (f o)) := by
  unfold roundRobin
  cases hin : inners with
  | nil => simp [matrixRows, maxLen, roundRobinAux]
  | cons i is =>
    apply roundRobinAux_matrixRows
    rw [maxLen_matrixRows]; simp

theorem flatMap_congr_mem {α β : Type} (l : List α) (f g : α → List β) (h : ∀ x ∈ l, f x = g x) :
    l.flatMap f = l.flatMap g := by
  induction l with
  | nil => rfl
  | cons x xs ih =>
    simp only [List.flatMap_cons]
    rw [h x (List.mem_cons_self ..), ih (fun y hy => h y (List.mem_cons_of_mem _ hy))]

theorem nestRows_no_amp (q : NestQuirks) (self backref : SelSet) (inners : SelSet)
    (h : ∀ i ∈ inners, i.hasBackref = false) :
    inners.map (nestRow q self backref) = matrixRows (fun o i => Selector.nest o i) self inners := by
  unfold matrixRows
  apply List.map_congr_left
  intro i hi
  simp [nestRow, h i hi]

/-! ### single-compound `&` forms under the specification flags -/

theorem printClasses_append (a b : List (List Char)) :
    printClasses (a ++ b) = printClasses a ++ printClasses b := by
  induction a with
  | nil => rfl
  | cons x xs ih => simp [printClasses, ih]

theorem printPlaceholders_append (a b : List (List Char)) :
    printPlaceholders (a ++ b) = printPlaceholders a ++ printPlaceholders b := by
  induction a with
  | nil => rfl
  | cons x xs ih => simp [printPlaceholders, ih]

theorem printAttrs_append (a b : List Attr) : printAttrs (a ++ b) = printAttrs a ++ printAttrs b := by
  induction a with
  | nil => rfl
  | cons x xs ih => simp [printAttrs, ih]

theorem Pseudo.printList_append (cm : Bool) (a b : List Pseudo) :
    Pseudo.printList cm (a ++ b) = Pseudo.printList cm a ++ Pseudo.printList cm b := by
  induction a with
  | nil => simp [Pseudo.printList]
  | cons x xs ih => simp [Pseudo.printList, ih]

theorem printClassName_append (x sfx : List Char) (hx : x ≠ []) :
    printClassName (x ++ sfx) = printClassName x ++ sfx := by
  cases x with
  | nil => exact absurd rfl hx
  | cons c rest => simp only [List.cons_append, printClassName]; split <;> simp

theorem printClasses_appendToLast (cl : List (List Char)) (sfx : List Char) (hne : cl ≠ [])
    (hall : ∀ x ∈ cl, x ≠ []) : printClasses (appendToLast cl sfx) = printClasses cl ++ sfx := by
  have hrev : cl = cl.dropLast ++ [cl.getLast hne] := (List.dropLast_concat_getLast hne).symm
  have hlast : cl.getLast hne ≠ [] := hall _ (List.getLast_mem hne)
  have : appendToLast cl sfx = cl.dropLast ++ [cl.getLast hne ++ sfx] := by
    unfold appendToLast
    conv => lhs; rw [hrev]
    simp
  rw [this, printClasses_append]
  conv => rhs; rw [hrev, printClasses_append]
  simp [printClasses, printClassName_append _ _ hlast]

end Sel

namespace Sel

theorem Selector.print_setCompound_of (cm : Bool) (s : Selector) (c' : Compound) (t : List Char)
    (h : Compound.print cm c' = Compound.print cm s.compound ++ t) :
    Selector.print cm (s.setCompound c') = Selector.print cm s ++ t := by
  cases s with
  | leaf c => simpa [Selector.setCompound, Selector.print, Selector.compound] using h
  | rel k r c =>
    simp only [Selector.setCompound, Selector.print, Selector.compound] at h ⊢
    rw [h]; simp [List.append_assoc]

theorem appendToLast_isEmpty (cl : List (List Char)) (sfx : List Char) (hne : cl ≠ []) :
    (appendToLast cl sfx).isEmpty = false := by
  unfold appendToLast
  cases h : cl.reverse with
  | nil => simp at h; exact absurd h hne
  | cons x rest => simp

/-- `&sfx` against an outer compound that ends in a class: the class name is extended -/
theorem Compound.print_append_suffix_class (cm : Bool) (e : Option (List Char)) (p cl : List (List Char))
    (i : Option (List Char)) (sfx : List Char) (hne : cl ≠ []) (hall : ∀ x ∈ cl, x ≠ []) :
    ∀ k, ∃ ap, Compound.appendWith k (.mk false e p cl i [] []) (.mk false (some sfx) [] [] none [] []) = some ap ∧
      Compound.print cm ap = Compound.print cm (.mk false e p cl i [] []) ++ sfx := by
  intro k
  have hcl : cl.isEmpty = false := by cases cl <;> simp_all
  have h2 := appendToLast_isEmpty cl sfx hne
  have h3 := printClasses_appendToLast cl sfx hne hall
  cases e with
  | none =>
    refine ⟨_, by simp [Compound.appendWith, Compound.mergeInto, mergeId, Compound.elem, Compound.appendSuffix, hcl]; rfl, ?_⟩
    simp [Compound.print, h3, printAttrs, Pseudo.printList, printPlaceholders]
  | some e =>
    by_cases hs : elemShown e p cl i 0 = true
    · refine ⟨_, by simp [Compound.appendWith, Compound.mergeInto, mergeId, Compound.elem, Compound.appendSuffix, hcl, hs]; rfl, ?_⟩
      have hs' : elemShown e (p ++ []) (appendToLast cl sfx ++ []) i 0 = true := by
        simp [elemShown, hcl, h2] at hs ⊢; exact hs
      simp [Compound.print, h3, printAttrs, Pseudo.printList, printPlaceholders, hs] at hs' ⊢
      simp [hs']
    · have hs0 : elemShown e p cl i 0 = false := by simpa using hs
      refine ⟨_, by simp [Compound.appendWith, Compound.mergeInto, mergeId, Compound.elem, Compound.appendSuffix, hcl, hs0]; rfl, ?_⟩
      simp [Compound.print, h3, printAttrs, Pseudo.printList, printPlaceholders, hs0]

end Sel

namespace Sel

/-! ### `:not(&)` under the specification flags -/

theorem Compound.append_empty (cm : Bool) (k : Bool) (c : Compound) (hb : c.backref = false) :
    ∃ ap, Compound.appendWith k c (.mk false none [] [] none [] []) = some ap ∧
      Compound.print cm ap = Compound.print cm c := by
  cases c with
  | mk b e p cl i a ps =>
    simp only [Compound.backref] at hb
    subst hb
    cases e with
    | none => exact ⟨_, by simp [Compound.appendWith, Compound.mergeInto, mergeId, Compound.elem]; rfl, by simp [Compound.print]⟩
    | some e =>
      by_cases hs : elemShown e p cl i ps.length = true
      · exact ⟨_, by simp [Compound.appendWith, Compound.mergeInto, mergeId, Compound.elem, hs]; rfl, by simp [Compound.print, hs]⟩
      · have hs0 : elemShown e p cl i ps.length = false := by simpa using hs
        exact ⟨_, by simp [Compound.appendWith, Compound.mergeInto, mergeId, Compound.elem, hs0]; rfl, by simp [Compound.print, hs0]⟩

theorem roundRobinAux_singleton {α : Type} (row : List α) :
    ∀ fuel, row.length ≤ fuel → roundRobinAux fuel [row] = row := by
  induction row with
  | nil => intro fuel _; cases fuel <;> simp [roundRobinAux, allEmpty]
  | cons x xs ih =>
    intro fuel h
    cases fuel with
    | zero => simp at h
    | succ n =>
      have := ih n (by simpa using h)
      simp [roundRobinAux, allEmpty, heads, tails, this]

theorem roundRobin_singleton {α : Type} (row : List α) : roundRobin [row] = row := by
  unfold roundRobin
  apply roundRobinAux_singleton
  simp [maxLen]

theorem Selector.printList_map_congr (cm : Bool) (f : Selector → Selector) :
    ∀ l : List Selector, (∀ s ∈ l, Selector.print cm (f s) = Selector.print cm s) →
      Selector.printList cm (l.map f) = Selector.printList cm l
  | [], _ => rfl
  | [s], h => by simp [Selector.printList, h s]
  | s :: t :: rest, h => by
    have ih := Selector.printList_map_congr cm f (t :: rest) (fun x hx => h x (List.mem_cons_of_mem _ hx))
    simp only [List.map_cons] at ih ⊢
    simp only [Selector.printList, ih, h s (List.mem_cons_self ..)]

theorem resolveOneList_spec_amp (cm : Bool) (q : NestQuirks) (hq : q.ampViaUnify = false) :
    ∀ ctx : SelSet, (∀ s ∈ ctx, s.compound.backref = false) →
      ∃ f : Selector → Selector, resolveOneList q (.mk false none [] [] none [] []) ctx = ctx.map f ∧
        ∀ s ∈ ctx, Selector.print cm (f s) = Selector.print cm s := by
  intro ctx h
  refine ⟨fun s => match Compound.appendWith (!q.appendIdLastWins) s.compound (.mk false none [] [] none [] []) with
    | some ap => s.setCompound ap | none => s, ?_, ?_⟩
  · induction ctx with
    | nil => rfl
    | cons s ss ih =>
      obtain ⟨ap, hap, _⟩ := Compound.append_empty cm (!q.appendIdLastWins) s.compound (h s (List.mem_cons_self ..))
      have := ih (fun x hx => h x (List.mem_cons_of_mem _ hx))
      rw [resolveOneList, this]
      simp only [resolveOne, hap, hq, Bool.false_eq_true, if_false, List.map_cons, List.singleton_append]
  · intro s hs
    obtain ⟨ap, hap, hp⟩ := Compound.append_empty cm (!q.appendIdLastWins) s.compound (h s hs)
    simp only [hap]
    exact by simpa using Selector.print_setCompound_of cm s ap [] (by simpa using hp)

end Sel
