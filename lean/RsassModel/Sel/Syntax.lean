/-
Selector AST shared by C19, C22, C23, C24, C25 (namespace `Sel`).  Import-free.

Mirrors /repo/rsass/src/css/selectors/*.rs:

  Rust                                            Lean
  ----------------------------------------------  ---------------------------------------------
  selector.rs   enum RelKind                      Sel.Rel
  attribute.rs  struct Attribute                  Sel.Attr  (val : CssString = text + quotes)
  elemtype.rs   struct ElemType { s }             `List Char` (field `elem` of a compound)
  compound.rs   struct CompoundSelector           Sel.Compound   (7 fields, same order)
  pseudo.rs     struct Pseudo { name, arg, element }   Sel.Pseudo
  pseudo.rs     enum Arg { Selector, Other, None }     Sel.PArg
  selector.rs   struct Selector { rel_of: Option<Box<(RelKind, Selector)>>, compound }
                                                  Sel.Selector: `leaf c` (rel_of = None),
                                                  `rel k of c` (rel_of = Some((k, of)))
  selectorset.rs struct SelectorSet { s: Vec<Selector> }   Sel.SelSet := List Selector
  cssselectorset.rs CssSelectorSet (no backrefs)  also `SelSet` (+ `SelSet.hasBackref = false`)

All text is `List Char` (code points), see DESIGN 4.2.

The four types `Selector`, `Compound`, `Pseudo`, `PArg` are mutually inductive and nested
through `List` (a pseudo-class argument is a selector list).  Functions over them are written
as `mutual` structural recursions with explicit list helpers (`…List`), which keeps them
kernel-reducible (`decide`, `rfl`) and gives `fun_induction` principles.

STABILITY: other families import this file.  Names here are only ever added, never renamed.
-/
namespace Sel

/-- selector.rs `enum RelKind` (AdjacentSibling = `adjacent`). -/
inductive Rel where
  | ancestor | parent | sibling | adjacent
  deriving DecidableEq, Repr, Inhabited

/-- selector.rs `RelKind::symbol`: `None` for the ancestor (whitespace) relation. -/
def Rel.symbol : Rel → Option Char
  | .ancestor => none
  | .parent => some '>'
  | .sibling => some '~'
  | .adjacent => some '+'

/-- value/quotes.rs `enum Quotes`. -/
inductive Quote where
  | none | dbl | sgl
  deriving DecidableEq, Repr, Inhabited

/-- attribute.rs `struct Attribute { name, op, val: CssString, modifier }`.
`op = []` (and `val = []`, `quotes = none`) for a bare `[name]`. -/
structure Attr where
  name : List Char
  op : List Char
  val : List Char
  quotes : Quote
  modifier : Option Char
  deriving DecidableEq, Repr, Inhabited

mutual
  /-- selector.rs `struct Selector { rel_of, compound }`; the compound is the *rightmost*
  compound of the complex selector, `of` is everything to its left. -/
  inductive Selector where
    | leaf (c : Compound)
    | rel (kind : Rel) (of : Selector) (c : Compound)
  /-- compound.rs `struct CompoundSelector` (fields in declaration order; `backref:
  Option<()>` is a `Bool`). -/
  inductive Compound where
    | mk (backref : Bool) (elem : Option (List Char)) (placeholders : List (List Char))
         (classes : List (List Char)) (id : Option (List Char)) (attrs : List Attr)
         (pseudos : List Pseudo)
  /-- pseudo.rs `struct Pseudo { name, arg, element }`. -/
  inductive Pseudo where
    | mk (name : List Char) (arg : PArg) (element : Bool)
  /-- pseudo.rs `enum Arg`. -/
  inductive PArg where
    | sel (s : List Selector)
    | other (s : List Char)
    | none
end

/-- selectorset.rs `SelectorSet { s: Vec<Selector> }` / cssselectorset.rs `CssSelectorSet`. -/
abbrev SelSet := List Selector

deriving instance Repr for Selector, Compound, Pseudo, PArg

/-! ### Field access -/

def Compound.backref : Compound → Bool | .mk b _ _ _ _ _ _ => b
def Compound.elem : Compound → Option (List Char) | .mk _ e _ _ _ _ _ => e
def Compound.placeholders : Compound → List (List Char) | .mk _ _ p _ _ _ _ => p
def Compound.classes : Compound → List (List Char) | .mk _ _ _ c _ _ _ => c
def Compound.id : Compound → Option (List Char) | .mk _ _ _ _ i _ _ => i
def Compound.attrs : Compound → List Attr | .mk _ _ _ _ _ a _ => a
def Compound.pseudos : Compound → List Pseudo | .mk _ _ _ _ _ _ p => p

def Compound.setBackref (b : Bool) : Compound → Compound
  | .mk _ e p c i a ps => .mk b e p c i a ps
def Compound.setElem (e : Option (List Char)) : Compound → Compound
  | .mk b _ p c i a ps => .mk b e p c i a ps
def Compound.setPseudos (ps : List Pseudo) : Compound → Compound
  | .mk b e p c i a _ => .mk b e p c i a ps

def Pseudo.name : Pseudo → List Char | .mk n _ _ => n
def Pseudo.arg : Pseudo → PArg | .mk _ a _ => a
def Pseudo.element : Pseudo → Bool | .mk _ _ e => e

/-- the rightmost compound (`self.compound`) -/
def Selector.compound : Selector → Compound
  | .leaf c => c
  | .rel _ _ c => c

/-- `self.rel_of` -/
def Selector.relOf : Selector → Option (Rel × Selector)
  | .leaf _ => none
  | .rel k s _ => some (k, s)

/-- build a selector from `rel_of` and `compound` as the Rust struct literal does -/
def Selector.ofParts : Option (Rel × Selector) → Compound → Selector
  | none, c => .leaf c
  | some (k, s), c => .rel k s c

def Selector.setCompound (c : Compound) : Selector → Selector
  | .leaf _ => .leaf c
  | .rel k s _ => .rel k s c

/-- `CompoundSelector::default()` -/
def Compound.empty : Compound := .mk false none [] [] none [] []

/-- `Selector::default()` — the root selector -/
def Selector.root : Selector := .leaf Compound.empty

instance : Inhabited Compound := ⟨Compound.empty⟩
instance : Inhabited Selector := ⟨Selector.root⟩
instance : Inhabited PArg := ⟨PArg.none⟩
instance : Inhabited Pseudo := ⟨.mk [] .none false⟩

/-- compound.rs `CompoundSelector::is_empty` -/
def Compound.isEmpty : Compound → Bool
  | .mk b e p c i a ps => !b && e.isNone && p.isEmpty && c.isEmpty && i.isNone && a.isEmpty && ps.isEmpty

/-- selector.rs `Selector::is_local_empty` -/
def Selector.isLocalEmpty (s : Selector) : Bool := s.compound.isEmpty

/-- selector.rs `Selector::is_complex` -/
def Selector.isComplex : Selector → Bool
  | .leaf _ => false
  | .rel _ _ _ => true

/-- number of compounds in the chain (≥ 1) -/
def Selector.length : Selector → Nat
  | .leaf _ => 1
  | .rel _ s _ => s.length + 1

/-- `SelectorSet::root()` -/
def SelSet.root : SelSet := [Selector.root]

/-! ### Structural equality (`#[derive(PartialEq, Eq)]` on all selector types) -/

mutual
  def Selector.beq : Selector → Selector → Bool
    | .leaf c, .leaf d => Compound.beq c d
    | .rel k s c, .rel l t d => decide (k = l) && Selector.beq s t && Compound.beq c d
    | _, _ => false
  termination_by structural x => x
  def Compound.beq : Compound → Compound → Bool
    | .mk b e p c i a ps, .mk b' e' p' c' i' a' ps' =>
      decide (b = b') && decide (e = e') && decide (p = p') && decide (c = c') && decide (i = i')
        && decide (a = a') && Pseudo.beqList ps ps'
  termination_by structural x => x
  def Pseudo.beq : Pseudo → Pseudo → Bool
    | .mk n a e, .mk n' a' e' => decide (n = n') && PArg.beq a a' && decide (e = e')
  termination_by structural x => x
  def PArg.beq : PArg → PArg → Bool
    | .sel s, .sel t => Selector.beqList s t
    | .other s, .other t => decide (s = t)
    | .none, .none => true
    | _, _ => false
  termination_by structural x => x
  def Pseudo.beqList : List Pseudo → List Pseudo → Bool
    | [], [] => true
    | p :: ps, q :: qs => Pseudo.beq p q && Pseudo.beqList ps qs
    | _, _ => false
  termination_by structural x => x
  def Selector.beqList : List Selector → List Selector → Bool
    | [], [] => true
    | s :: ss, t :: ts => Selector.beq s t && Selector.beqList ss ts
    | _, _ => false
  termination_by structural x => x
end

instance : BEq Selector := ⟨Selector.beq⟩
instance : BEq Compound := ⟨Compound.beq⟩
instance : BEq Pseudo := ⟨Pseudo.beq⟩
instance : BEq PArg := ⟨PArg.beq⟩

/-! ### Back-references -/

mutual
  /-- selector.rs `Selector::has_backref` -/
  def Selector.hasBackref : Selector → Bool
    | .leaf c => Compound.hasBackref c
    | .rel _ s c => Compound.hasBackref c || Selector.hasBackref s
  /-- compound.rs `CompoundSelector::has_backref` -/
  def Compound.hasBackref : Compound → Bool
    | .mk b _ _ _ _ _ ps => b || Pseudo.hasBackrefList ps
  /-- pseudo.rs `Pseudo::has_backref` -/
  def Pseudo.hasBackref : Pseudo → Bool
    | .mk _ a _ => PArg.hasBackref a
  def PArg.hasBackref : PArg → Bool
    | .sel s => Selector.hasBackrefList s
    | _ => false
  /-- `self.pseudo.iter().any(Pseudo::has_backref)` -/
  def Pseudo.hasBackrefList : List Pseudo → Bool
    | [] => false
    | p :: ps => Pseudo.hasBackref p || Pseudo.hasBackrefList ps
  /-- selectorset.rs `SelectorSet::has_backref` -/
  def Selector.hasBackrefList : List Selector → Bool
    | [] => false
    | s :: ss => Selector.hasBackref s || Selector.hasBackrefList ss
end

def SelSet.hasBackref (s : SelSet) : Bool := Selector.hasBackrefList s

/-! ### Pseudo-class name classes (pseudo.rs `name_in`, `is_pseudo_element`, …) -/

/-- `name.strip_suffix(end).is_some_and(|s| s.ends_with('-'))` -/
def stripSuffixDash (name suffix : List Char) : Bool :=
  let n := name.length
  let k := suffix.length
  decide (k < n) && decide (name.drop (n - k) = suffix) && decide ((name.take (n - k)).getLast? = some '-')

/-- pseudo.rs `fn name_in`: exact match, or for a vendor-prefixed name (`-x-known`) a known
suffix preceded by `-`. -/
def nameIn (name : List Char) (known : List (List Char)) : Bool :=
  if name.head? = some '-' then known.any (fun e => stripSuffixDash name e)
  else known.contains name

def Pseudo.nameIn (p : Pseudo) (known : List String) : Bool :=
  Sel.nameIn p.name (known.map String.toList)

/-- pseudo.rs `fn is_pseudo_element` (css2 pseudo-elements written with one colon) -/
def isPseudoElementName (n : List Char) : Bool :=
  (["after", "before", "file-selector-button", "first-letter", "first-line", "grammar-error",
    "marker", "placeholder", "selection", "spelling-error", "target-text"].map String.toList).contains n

/-- pseudo.rs `Pseudo::is_element` -/
def Pseudo.isElement (p : Pseudo) : Bool := p.element || isPseudoElementName p.name

/-- pseudo.rs `Pseudo::is_rootish` -/
def Pseudo.isRootish (p : Pseudo) : Bool := p.nameIn ["host", "host-context", "root", "scope"]
/-- pseudo.rs `Pseudo::is_host` -/
def Pseudo.isHost (p : Pseudo) : Bool := p.nameIn ["host", "host-context"]
/-- pseudo.rs `Pseudo::is_hover` -/
def Pseudo.isHover (p : Pseudo) : Bool := p.name = "hover".toList

/-- compound.rs `CompoundSelector::is_rootish` -/
def Compound.isRootish (c : Compound) : Bool := c.pseudos.any Pseudo.isRootish
/-- compound.rs `CompoundSelector::pseudo_element` -/
def Compound.pseudoElement (c : Compound) : Option Pseudo := c.pseudos.find? Pseudo.isElement
/-- compound.rs `CompoundSelector::has_id` -/
def Compound.hasId (c : Compound) : Bool := c.id.isSome

/-! ### Element types (elemtype.rs) -/

/-- elemtype.rs `ElemType::is_any` -/
def elemIsAny (e : List Char) : Bool := e = ['*'] || e = ['*', '|', '*']

/-- elemtype.rs `ElemType::cant_append` -/
def elemCantAppend (e : List Char) : Bool := e.head? = some '*' || e.head? = some '|'

/-- elemtype.rs `ElemType::split_ns` (`split_once('|')`) -/
def elemSplitNs (e : List Char) : Option (List Char) × List Char :=
  if e.contains '|' then (some (e.takeWhile (· ≠ '|')), (e.dropWhile (· ≠ '|')).drop 1)
  else (none, e)

/-- compound.rs `CompoundSelector::cant_append` -/
def Compound.cantAppend (c : Compound) : Bool :=
  c.isEmpty || (match c.elem with | some e => elemCantAppend e | none => false)

/-! ### Convenience constructors (used by drivers, examples and generators) -/

/-- a compound with just an element type -/
def Compound.ofElem (e : String) : Compound := .mk false (some e.toList) [] [] none [] []
/-- a compound with just one class -/
def Compound.ofClass (c : String) : Compound := .mk false none [] [c.toList] none [] []
/-- a compound with just one placeholder -/
def Compound.ofPlaceholder (p : String) : Compound := .mk false none [p.toList] [] none [] []
/-- the bare `&` -/
def Compound.amp : Compound := .mk true none [] [] none [] []

/-- build a selector from its leftmost compound and the following (relation, compound) steps -/
def Selector.ofChain (first : Compound) : List (Rel × Compound) → Selector
  | steps => steps.foldl (fun acc (kc : Rel × Compound) => .rel kc.1 acc kc.2) (.leaf first)

/-- the chain of a selector, leftmost compound first: inverse of `ofChain` -/
def Selector.toChain : Selector → Compound × List (Rel × Compound)
  | .leaf c => (c, [])
  | .rel k s c => let (f, steps) := s.toChain; (f, steps ++ [(k, c)])

end Sel
