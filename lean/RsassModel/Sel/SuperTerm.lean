/-
Selector terms on the line protocol of the C23 / C24 drivers (namespace `Sel.Term`).

The Python generator (props/selgen.py) prints one selector object twice: as SCSS text for
rsass and as the token stream below for the model, so both sides see the same selector.
Tokens are separated by single spaces; names are hex (UTF-8), `-` is the empty string.

  set  := "[" sel* "]"
  sel  := "(" comp { rel comp } ")"          rel ∈ d > ~ +      (leftmost compound first)
  comp := "{" item* "}"
  item := "&" | "e" H | "%" H | "." H | "#" H | "a" H H H Q M | ":" H E arg
  Q    := n | d | s                           M := "-" | H (one char)      E := 0 | 1
  arg  := "n" | "o" H | "s" set
-/
import RsassModel.Basic.Proto
import RsassModel.Sel.Syntax

namespace Sel.Term

def unhex (s : String) : List Char := if s = "-" then [] else (Proto.stringOfHex s).toList

structure CompAcc where
  backref : Bool := false
  elem : Option (List Char) := none
  placeholders : List (List Char) := []
  classes : List (List Char) := []
  id : Option (List Char) := none
  attrs : List Attr := []
  pseudos : List Pseudo := []

def CompAcc.done (a : CompAcc) : Compound :=
  .mk a.backref a.elem a.placeholders.reverse a.classes.reverse a.id a.attrs.reverse a.pseudos.reverse

def relOfTok : String → Option Rel
  | "d" => some .ancestor
  | ">" => some .parent
  | "~" => some .sibling
  | "+" => some .adjacent
  | _ => none

def quoteOfTok : String → Option Quote
  | "n" => some .none
  | "d" => some .dbl
  | "s" => some .sgl
  | _ => none

mutual
  partial def parseSet : List String → Option (SelSet × List String)
    | "[" :: rest => parseSels rest []
    | _ => none
  partial def parseSels (toks : List String) (acc : List Selector) : Option (SelSet × List String) :=
    match toks with
    | "]" :: rest => some (acc.reverse, rest)
    | "(" :: rest =>
      match parseComp rest with
      | some (c, rest) =>
        match parseChain rest (.leaf c) with
        | some (s, rest) => parseSels rest (s :: acc)
        | none => none
      | none => none
    | _ => none
  partial def parseChain (toks : List String) (acc : Selector) : Option (Selector × List String) :=
    match toks with
    | ")" :: rest => some (acc, rest)
    | r :: rest =>
      match relOfTok r, parseComp rest with
      | some k, some (c, rest) => parseChain rest (.rel k acc c)
      | _, _ => none
    | [] => none
  partial def parseComp : List String → Option (Compound × List String)
    | "{" :: rest => parseItems rest {}
    | _ => none
  partial def parseItems (toks : List String) (acc : CompAcc) : Option (Compound × List String) :=
    match toks with
    | "}" :: rest => some (acc.done, rest)
    | "&" :: rest => parseItems rest { acc with backref := true }
    | "e" :: h :: rest => parseItems rest { acc with elem := some (unhex h) }
    | "%" :: h :: rest => parseItems rest { acc with placeholders := unhex h :: acc.placeholders }
    | "." :: h :: rest => parseItems rest { acc with classes := unhex h :: acc.classes }
    | "#" :: h :: rest => parseItems rest { acc with id := some (unhex h) }
    | "a" :: n :: o :: v :: q :: m :: rest =>
      match quoteOfTok q with
      | some q =>
        let att : Attr := Attr.mk (unhex n) (unhex o) (unhex v) q (unhex m).head?
        parseItems rest { acc with attrs := att :: acc.attrs }
      | none => none
    | ":" :: n :: e :: rest =>
      match parseArg rest with
      | some (a, rest) =>
        parseItems rest { acc with pseudos := Pseudo.mk (unhex n) a (e == "1") :: acc.pseudos }
      | none => none
    | _ => none
  partial def parseArg : List String → Option (PArg × List String)
    | "n" :: rest => some (.none, rest)
    | "o" :: h :: rest => some (.other (unhex h), rest)
    | "s" :: rest =>
      match parseSet rest with
      | some (s, rest) => some (.sel s, rest)
      | none => none
    | _ => none
end

/-- a whole protocol field holding one selector list -/
def setOfField (f : String) : Option SelSet :=
  match parseSet ((f.splitOn " ").filter (· ≠ "")) with
  | some (s, []) => some s
  | _ => none

end Sel.Term
