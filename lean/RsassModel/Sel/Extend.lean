/-
C24 model, part 2 (namespace `Sel`): extend, replace, append and the `selector.*` functions.

  Rust                                                     Lean
  -------------------------------------------------------  -----------------------------------
  compound.rs   CompoundSelector::dedup                    Sel.Compound.dedup
  selector.rs   Selector::extend                           Sel.extendStep / Sel.Selector.extendW
  selectorset.rs SelectorSet::extend (+ check_extend_complex)  Sel.SelSet.extendW / Sel.SelSet.extend
  selector.rs   Selector::replace                          Sel.replaceStep / Sel.replaceTop / Sel.Selector.replaceD
  compound.rs   replace_in_pseudo, pseudo.rs Pseudo::replace   Sel.Compound.replaceInPseudoD / Sel.Pseudo.replaceD
  selectorset.rs SelectorSet::replace                      Sel.SelSet.replaceW / Sel.SelSet.replace
  selector.rs   Selector::append                           Sel.Selector.appendSel
  cssselectorset.rs CssSelectorSet::append                 Sel.SelSet.append
  sass/functions/selector.rs nest / append                 Sel.fnNest / Sel.fnAppend
  (rule nesting `a { b {..} }`, `a { &b {..} }`)           Sel.ruleNest  (Sel/Nest.lean `Ctx.nest`)

Extend and replace are written over the superselector test `S` and the unifier `U` of two
complex selectors, so that the list-plumbing laws hold for every `S`, `U`.
-/
import RsassModel.Sel.Unify
import RsassModel.Sel.Nest

namespace Sel

/-! ### compound.rs `dedup` -/

/-- compound.rs `CompoundSelector::dedup(&mut self, original)`; `A` = derived `==` on attributes -/
def Compound.dedup (A : Attr → Attr → Bool) (self original : Compound) : Compound :=
  match self with
  | .mk b e p c i a ps =>
    .mk b
      (if decide (original.elem = e) && !(match e with | none => true | some x => elemIsAny x) then none else e)
      (p.filter fun x => !original.placeholders.contains x)
      (c.filter fun x => !original.classes.contains x)
      (if decide (original.id = i) then none else i)
      (a.filter fun x => !original.attrs.any fun o => A x o)
      (ps.filter fun x => !original.pseudos.any fun o => x == o)

/-! ### extend -/

/-- the closure of `Selector::extend`'s `flat_map` for one `original` -/
def extendStep (S : Selector → Selector → Bool) (U : Selector → Selector → List Selector)
    (D : Compound → Compound → Compound) (extender : SelSet) (original s : Selector) : List Selector :=
  if S original s then
    let s' := s.setCompound (D s.compound original.compound)
    s :: (extender.flatMap fun r => U s' r).filter fun r => !S s r
  else [s]

/-- selector.rs `Selector::extend` -/
def Selector.extendW (S : Selector → Selector → Bool) (U : Selector → Selector → List Selector)
    (D : Compound → Compound → Compound) (extendee extender : SelSet) (self : Selector) : List Selector :=
  extendee.foldl (fun result original => result.flatMap (extendStep S U D extender original)) [self]

/-- selectorset.rs `check_extend_complex` -/
def checkExtendComplex (s : SelSet) : Bool := s.all fun x => !x.isComplex

/-- selectorset.rs `SelectorSet::extend`; `none` = "Can't extend complex selector" -/
def SelSet.extendW (S : Selector → Selector → Bool) (U : Selector → Selector → List Selector)
    (D : Compound → Compound → Compound) (self extendee extender : SelSet) : Option SelSet :=
  if checkExtendComplex extendee then some (self.flatMap (Selector.extendW S U D extendee extender))
  else none

/-! ### replace -/

def replaceStep (S : Selector → Selector → Bool) (U : Selector → Selector → List Selector)
    (D : Compound → Compound → Compound) (replacement : SelSet) (original s : Selector) : List Selector :=
  if S original s then
    let s' := s.setCompound (D s.compound original.compound)
    replacement.flatMap fun r => U s' r
  else [s]

/-- selector.rs `Selector::replace` after `replace_in_pseudo` -/
def replaceTop (S : Selector → Selector → Bool) (U : Selector → Selector → List Selector)
    (D : Compound → Compound → Compound) (original replacement : SelSet) (self : Selector) : List Selector :=
  original.foldl (fun result o => result.flatMap (replaceStep S U D replacement o)) [self]

def replacePseudoNames : List String := ["is", "matches", "not", "any", "where", "has", "host", "host-context"]

mutual
  /-- selector.rs `Selector::replace` (only the rightmost compound's pseudos are entered) -/
  def Selector.replaceD (S : Selector → Selector → Bool) (U : Selector → Selector → List Selector)
      (D : Compound → Compound → Compound) (o r : SelSet) : Selector → List Selector
    | .leaf c => replaceTop S U D o r (.leaf (Compound.replaceInPseudoD S U D o r c))
    | .rel k s c => replaceTop S U D o r (.rel k s (Compound.replaceInPseudoD S U D o r c))
  /-- compound.rs `CompoundSelector::replace_in_pseudo` -/
  def Compound.replaceInPseudoD (S : Selector → Selector → Bool) (U : Selector → Selector → List Selector)
      (D : Compound → Compound → Compound) (o r : SelSet) : Compound → Compound
    | .mk b e p c i a ps => .mk b e p c i a (Pseudo.replaceListD S U D o r ps)
  /-- pseudo.rs `Pseudo::replace` -/
  def Pseudo.replaceD (S : Selector → Selector → Bool) (U : Selector → Selector → List Selector)
      (D : Compound → Compound → Compound) (o r : SelSet) : Pseudo → Pseudo
    | .mk n a e =>
      if nameIn n (replacePseudoNames.map String.toList) then .mk n (PArg.replaceD S U D o r a) e
      else .mk n a e
  def PArg.replaceD (S : Selector → Selector → Bool) (U : Selector → Selector → List Selector)
      (D : Compound → Compound → Compound) (o r : SelSet) : PArg → PArg
    | .sel s => .sel (Selector.replaceListD S U D o r s)
    | .other s => .other s
    | .none => .none
  def Pseudo.replaceListD (S : Selector → Selector → Bool) (U : Selector → Selector → List Selector)
      (D : Compound → Compound → Compound) (o r : SelSet) : List Pseudo → List Pseudo
    | [] => []
    | p :: ps => Pseudo.replaceD S U D o r p :: Pseudo.replaceListD S U D o r ps
  /-- selectorset.rs `SelectorSet::replace` body (`flat_map`) -/
  def Selector.replaceListD (S : Selector → Selector → Bool) (U : Selector → Selector → List Selector)
      (D : Compound → Compound → Compound) (o r : SelSet) : List Selector → List Selector
    | [] => []
    | s :: ss => Selector.replaceD S U D o r s ++ Selector.replaceListD S U D o r ss
end

/-- selectorset.rs `SelectorSet::replace`; `none` = "Can't extend complex selector" -/
def SelSet.replaceW (S : Selector → Selector → Bool) (U : Selector → Selector → List Selector)
    (D : Compound → Compound → Compound) (self original replacement : SelSet) : Option SelSet :=
  if checkExtendComplex original then some (Selector.replaceListD S U D original replacement self) else none

/-- `selector.extend($selector, $extendee, $extender)` -/
def SelSet.extend (q : UnifyQuirks) (self extendee extender : SelSet) : Option SelSet :=
  SelSet.extendW (Selector.isSuperF q.sup) (Selector.unify q) (Compound.dedup (Attr.isSuper q.sup))
    self extendee extender

/-- `selector.replace($selector, $original, $replacement)` -/
def SelSet.replace (q : UnifyQuirks) (self original replacement : SelSet) : Option SelSet :=
  SelSet.replaceW (Selector.isSuperF q.sup) (Selector.unify q) (Compound.dedup (Attr.isSuper q.sup))
    self original replacement

/-! ### append -/

/-- selector.rs `Selector::append(&self, other)`; `none` = an `AppendError`.  `app` is
`CompoundSelector::append` (print both, parse the concatenation — Sel/Nest.lean). -/
def Selector.appendSel (app : Compound → Compound → Option Compound) (self : Selector) : Selector → Option Selector
  | .rel k r c =>
    if self.isLocalEmpty then none
    else match Selector.appendSel app self r with
      | some x => some (.rel k x c)
      | none => none
  | .leaf c =>
    if self.isLocalEmpty then none
    else if c.cantAppend then none
    else match app self.compound c with
      | some x => some (self.setCompound x)
      | none => none

/-- `.collect::<Result<_, _>>()`: all results, or the (first) error -/
def allSome {α : Type} : List (Option α) → Option (List α)
  | [] => some []
  | none :: _ => none
  | some x :: rest => (allSome rest).map (x :: ·)

/-- cssselectorset.rs `CssSelectorSet::append` -/
def SelSet.appendW (app : Compound → Compound → Option Compound) (self ext : SelSet) : Option SelSet :=
  allSome (self.flatMap fun b => ext.map fun e => Selector.appendSel app b e)

/-- `selector.append($a, $b)` -/
def fnAppend (a b : SelSet) : Option SelSet := SelSet.appendW Compound.append a b

/-! ### the function forms and rule nesting -/

/-- `selector.nest($a, $b)`: `first.nest(e, &first)` -/
def fnNest (q : NestQuirks) (a b : SelSet) : SelSet := SelSet.nest q a b a

/-- the selector emitted for `a { b { … } }` at top level: transform.rs nests `a` in the root
context, then `b` in the context made of the result -/
def ruleNest (q : NestQuirks) (a b : SelSet) : SelSet :=
  (Ctx.ofSet (Ctx.root.nest q a)).nest q b

/-- `From<SelectorSet> for Value`: the root / empty list becomes `null` -/
def SelSet.isNullValue (s : SelSet) : Bool := s.isEmpty || SelSet.isRoot s

/-- `&` + the simple suffix `c` (a compound without `&`) as the inner selector of `a { &c {…} }` -/
def ampSuffix (c : Compound) : SelSet := [.leaf (c.setBackref true)]

end Sel
