/-
Helper lemmas for Theorems/C22.lean.
-/
import RsassModel.Sel.Placeholder

namespace Sel

def Opt.toOption {α : Type} : Opt α → Option α
  | .some a => Option.some a
  | _ => Option.none

def Opt.isAny {α : Type} : Opt α → Bool
  | .any => true
  | _ => false

def Opt.isNone {α : Type} : Opt α → Bool
  | .none => true
  | _ => false

/-- the result of `collect_pos` on a list without `Any`: the `Some` values, in order -/
def posResult {α : Type} (r : List α) : Opt (List α) := if r.isEmpty then .none else .some r

theorem collectPosAux_noAny {α : Type} :
    ∀ (l : List (Opt α)) (acc : List α), (∀ x ∈ l, x.isAny = false) →
      collectPosAux l acc = posResult (acc.reverse ++ l.filterMap Opt.toOption)
  | [], acc, _ => by simp [collectPosAux, posResult]
  | .some a :: rest, acc, h => by
    rw [collectPosAux, collectPosAux_noAny rest (a :: acc) (fun x hx => h x (List.mem_cons_of_mem _ hx))]
    simp [Opt.toOption, List.filterMap_cons]
  | .any :: rest, acc, h => by
    have := h .any (List.mem_cons_self ..)
    simp [Opt.isAny] at this
  | .none :: rest, acc, h => by
    rw [collectPosAux, collectPosAux_noAny rest acc (fun x hx => h x (List.mem_cons_of_mem _ hx))]
    simp [Opt.toOption, List.filterMap_cons]

theorem collectNegAux_none {α : Type} :
    ∀ (pre : List (Opt α)) (post : List (Opt α)) (acc : List α),
      collectNegAux (pre ++ .none :: post) acc = .none
  | [], post, acc => by simp [collectNegAux]
  | .some a :: rest, post, acc => by
    simp only [List.cons_append, collectNegAux]; exact collectNegAux_none rest post _
  | .any :: rest, post, acc => by
    simp only [List.cons_append, collectNegAux]; exact collectNegAux_none rest post _
  | .none :: rest, post, acc => by simp [collectNegAux]

theorem Selector.noPlaceholder_ne_any (q : PhQuirks) (s : Selector) :
    (Selector.noPlaceholder q s).isAny = false := by
  cases s with
  | leaf c => simp only [Selector.noPlaceholder]; split <;> rfl
  | rel k r c =>
    simp only [Selector.noPlaceholder]
    split
    · rfl
    · split
      · rfl
      · split <;> rfl

theorem Selector.noPlaceholderList_noAny (q : PhQuirks) :
    ∀ (l : List Selector), ∀ x ∈ Selector.noPlaceholderList q l, x.isAny = false
  | [], x, hx => by simp [Selector.noPlaceholderList] at hx
  | s :: ss, x, hx => by
    simp only [Selector.noPlaceholderList, List.mem_cons] at hx
    rcases hx with h | h
    · rw [h]; exact Selector.noPlaceholder_ne_any q s
    · exact Selector.noPlaceholderList_noAny q ss x h

theorem Selector.noPlaceholderList_eq_map (q : PhQuirks) :
    ∀ l : List Selector, Selector.noPlaceholderList q l = l.map (Selector.noPlaceholder q)
  | [] => rfl
  | s :: ss => by simp [Selector.noPlaceholderList, Selector.noPlaceholderList_eq_map q ss]

theorem Pseudo.noPlaceholderList_eq_map (q : PhQuirks) :
    ∀ l : List Pseudo, Pseudo.noPlaceholderList q l = l.map (Pseudo.noPlaceholder q)
  | [] => rfl
  | s :: ss => by simp [Pseudo.noPlaceholderList, Pseudo.noPlaceholderList_eq_map q ss]

/-- some compound of the chain satisfies `f` -/
def Selector.anyCompound (f : Compound → Bool) : Selector → Bool
  | .leaf c => f c
  | .rel _ r c => f c || Selector.anyCompound f r

theorem Selector.noPlaceholder_none_of_compound (q : PhQuirks) :
    ∀ s : Selector, s.anyCompound (fun c => (Compound.noPlaceholder q c).isNone) = true →
      Selector.noPlaceholder q s = .none
  | .leaf c, h => by
    simp only [Selector.anyCompound] at h
    simp only [Selector.noPlaceholder]
    cases hc : Compound.noPlaceholder q c <;> simp_all [Opt.isNone]
  | .rel k r c, h => by
    simp only [Selector.anyCompound, Bool.or_eq_true] at h
    simp only [Selector.noPlaceholder]
    cases hc : Compound.noPlaceholder q c with
    | none => rfl
    | any =>
      have hr : Selector.anyCompound (fun c => (Compound.noPlaceholder q c).isNone) r = true := by
        rcases h with h | h
        · simp [hc, Opt.isNone] at h
        · exact h
      have := Selector.noPlaceholder_none_of_compound q r hr
      simp only [this]
      split <;> rfl
    | some c' =>
      have hr : Selector.anyCompound (fun c => (Compound.noPlaceholder q c).isNone) r = true := by
        rcases h with h | h
        · simp [hc, Opt.isNone] at h
        · exact h
      have := Selector.noPlaceholder_none_of_compound q r hr
      simp only [this]
      split <;> rfl

theorem Compound.noPlaceholder_of_placeholders (q : PhQuirks) (c : Compound) (h : c.placeholders ≠ []) :
    Compound.noPlaceholder q c = .none := by
  cases c with
  | mk b e p cl i a ps =>
    simp only [Compound.placeholders] at h
    have : p.isEmpty = false := by cases p <;> simp_all
    simp [Compound.noPlaceholder, this]

theorem filterMap_all_none {α β : Type} (f : α → Option β) :
    ∀ l : List α, (∀ x ∈ l, f x = none) → l.filterMap f = []
  | [], _ => rfl
  | x :: xs, h => by
    simp [List.filterMap_cons, h x (List.mem_cons_self ..),
      filterMap_all_none f xs (fun y hy => h y (List.mem_cons_of_mem _ hy))]

end Sel

namespace Sel

theorem collectNegAux_somes {α : Type} :
    ∀ (l : List α) (acc : List α),
      collectNegAux (l.map Opt.some) acc
        = if (acc.reverse ++ l).isEmpty then Opt.any else Opt.some (acc.reverse ++ l)
  | [], acc => by simp [collectNegAux]
  | x :: xs, acc => by
    simp only [List.map_cons, collectNegAux]
    rw [collectNegAux_somes xs (x :: acc)]
    simp

theorem collectPosAux_somes {α : Type} :
    ∀ (l : List α) (acc : List α),
      collectPosAux (l.map Opt.some) acc
        = if (acc.reverse ++ l).isEmpty then Opt.none else Opt.some (acc.reverse ++ l)
  | [], acc => by simp [collectPosAux]
  | x :: xs, acc => by
    simp only [List.map_cons, collectPosAux]
    rw [collectPosAux_somes xs (x :: acc)]
    simp

theorem map_noLeadingCombinator (l : List Selector) (h : ∀ s ∈ l, s.hasLeadingCombinator = false) :
    l.map Selector.noLeadingCombinator = l.map Opt.some := by
  apply List.map_congr_left
  intro s hs
  simp [Selector.noLeadingCombinator, h s hs]

mutual
  theorem Selector.noPlaceholder_phFree (q : PhQuirks) :
      ∀ s : Selector, s.phFree = true → Selector.noPlaceholder q s = .some s
    | .leaf c, h => by
      simp only [Selector.phFree] at h
      simp [Selector.noPlaceholder, Compound.noPlaceholder_phFree q c h]
    | .rel k r c, h => by
      simp only [Selector.phFree, Bool.and_eq_true, Bool.not_eq_true'] at h
      obtain ⟨⟨hc, hne⟩, hr⟩ := h
      simp [Selector.noPlaceholder, Compound.noPlaceholder_phFree q c hc, hne,
        Selector.noPlaceholder_phFree q r hr]
  theorem Compound.noPlaceholder_phFree (q : PhQuirks) :
      ∀ c : Compound, c.phFree = true → Compound.noPlaceholder q c = .some c
    | .mk b e p cl i a ps, h => by
      simp only [Compound.phFree, Bool.and_eq_true] at h
      obtain ⟨hp, hps⟩ := h
      simp only [Compound.noPlaceholder, hp, Bool.not_true, Bool.false_eq_true, if_false,
        Pseudo.noPlaceholderList_phFree q ps hps, collectNegAux_somes]
      cases ps with
      | nil => simp
      | cons x xs => simp
  theorem Pseudo.noPlaceholder_phFree (q : PhQuirks) :
      ∀ p : Pseudo, p.phFree = true → Pseudo.noPlaceholder q p = .some p
    | .mk n (.sel s) e, h => by
      simp only [Pseudo.phFree, PArg.phFree, Bool.and_eq_true, Bool.not_eq_true'] at h
      obtain ⟨hne, hs⟩ := h
      obtain ⟨h1, h2⟩ := Selector.noPlaceholderList_phFree q s hs
      have hne' : s ≠ [] := by intro hh; simp [hh] at hne
      simp only [Pseudo.noPlaceholder, h1, collectPosAux_somes, List.reverse_nil, List.nil_append, hne,
        Bool.false_eq_true, if_false]
      split
      · simp [map_noLeadingCombinator s h2, collectPosAux_somes, hne]
      · rfl
    | .mk n (.other s) e, _ => by simp [Pseudo.noPlaceholder]
    | .mk n .none e, _ => by simp [Pseudo.noPlaceholder]
  theorem Pseudo.noPlaceholderList_phFree (q : PhQuirks) :
      ∀ ps : List Pseudo, Pseudo.phFreeList ps = true → Pseudo.noPlaceholderList q ps = ps.map Opt.some
    | [], _ => rfl
    | p :: ps, h => by
      simp only [Pseudo.phFreeList, Bool.and_eq_true] at h
      simp [Pseudo.noPlaceholderList, Pseudo.noPlaceholder_phFree q p h.1,
        Pseudo.noPlaceholderList_phFree q ps h.2]
  theorem Selector.noPlaceholderList_phFree (q : PhQuirks) :
      ∀ ss : List Selector, Selector.phFreeList ss = true →
        Selector.noPlaceholderList q ss = ss.map Opt.some ∧ ∀ s ∈ ss, s.hasLeadingCombinator = false
    | [], _ => ⟨rfl, by simp⟩
    | s :: ss, h => by
      simp only [Selector.phFreeList, Bool.and_eq_true, Bool.not_eq_true'] at h
      obtain ⟨⟨hs, hl⟩, hss⟩ := h
      obtain ⟨ih1, ih2⟩ := Selector.noPlaceholderList_phFree q ss hss
      refine ⟨by simp [Selector.noPlaceholderList, Selector.noPlaceholder_phFree q s hs, ih1], ?_⟩
      intro x hx
      rcases List.mem_cons.mp hx with h | h
      · rw [h]; exact hl
      · exact ih2 x h
end

end Sel

namespace Sel

theorem Selector.anyCompound_mono (f g : Compound → Bool) (h : ∀ c, f c = true → g c = true) :
    ∀ s : Selector, s.anyCompound f = true → s.anyCompound g = true
  | .leaf c, hs => by simp only [Selector.anyCompound] at hs ⊢; exact h c hs
  | .rel k r c, hs => by
    simp only [Selector.anyCompound, Bool.or_eq_true] at hs ⊢
    rcases hs with hs | hs
    · exact Or.inl (h c hs)
    · exact Or.inr (Selector.anyCompound_mono f g h r hs)

end Sel

namespace Sel

/-! ### nothing that survives the filter contains a placeholder -/

theorem collectNegAux_mem {α : Type} :
    ∀ (l : List (Opt α)) (acc r : List α), collectNegAux l acc = .some r →
      ∀ x ∈ r, x ∈ acc ∨ Opt.some x ∈ l
  | [], acc, r, h, x, hx => by
    simp only [collectNegAux] at h
    split at h
    · cases h
    · cases h; left; simpa using hx
  | .some a :: rest, acc, r, h, x, hx => by
    simp only [collectNegAux] at h
    rcases collectNegAux_mem rest (a :: acc) r h x hx with h1 | h1
    · rcases List.mem_cons.mp h1 with h2 | h2
      · right; rw [h2]; exact List.mem_cons_self ..
      · left; exact h2
    · right; exact List.mem_cons_of_mem _ h1
  | .any :: rest, acc, r, h, x, hx => by
    simp only [collectNegAux] at h
    rcases collectNegAux_mem rest acc r h x hx with h1 | h1
    · left; exact h1
    · right; exact List.mem_cons_of_mem _ h1
  | .none :: rest, acc, r, h, x, hx => by simp [collectNegAux] at h

theorem collectPosAux_mem {α : Type} :
    ∀ (l : List (Opt α)) (acc r : List α), collectPosAux l acc = .some r →
      ∀ x ∈ r, x ∈ acc ∨ Opt.some x ∈ l
  | [], acc, r, h, x, hx => by
    simp only [collectPosAux] at h
    split at h
    · cases h
    · cases h; left; simpa using hx
  | .some a :: rest, acc, r, h, x, hx => by
    simp only [collectPosAux] at h
    rcases collectPosAux_mem rest (a :: acc) r h x hx with h1 | h1
    · rcases List.mem_cons.mp h1 with h2 | h2
      · right; rw [h2]; exact List.mem_cons_self ..
      · left; exact h2
    · right; exact List.mem_cons_of_mem _ h1
  | .any :: rest, acc, r, h, x, hx => by simp [collectPosAux] at h
  | .none :: rest, acc, r, h, x, hx => by
    simp only [collectPosAux] at h
    rcases collectPosAux_mem rest acc r h x hx with h1 | h1
    · left; exact h1
    · right; exact List.mem_cons_of_mem _ h1

theorem Pseudo.hasPhList_false_of_forall : ∀ l : List Pseudo, (∀ x ∈ l, x.hasPh = false) → Pseudo.hasPhList l = false
  | [], _ => rfl
  | p :: ps, h => by
    simp [Pseudo.hasPhList, h p (List.mem_cons_self ..),
      Pseudo.hasPhList_false_of_forall ps (fun x hx => h x (List.mem_cons_of_mem _ hx))]

theorem Selector.hasPhList_false_of_forall : ∀ l : List Selector, (∀ x ∈ l, x.hasPh = false) → Selector.hasPhList l = false
  | [], _ => rfl
  | p :: ps, h => by
    simp [Selector.hasPhList, h p (List.mem_cons_self ..),
      Selector.hasPhList_false_of_forall ps (fun x hx => h x (List.mem_cons_of_mem _ hx))]

theorem mem_map_noLeadingCombinator (t : List Selector) (x : Selector)
    (h : Opt.some x ∈ t.map Selector.noLeadingCombinator) : x ∈ t := by
  rcases List.mem_map.mp h with ⟨y, hy, hxy⟩
  simp only [Selector.noLeadingCombinator] at hxy
  split at hxy
  · cases hxy
  · cases hxy; exact hy

mutual
  theorem Selector.noPlaceholder_hasPh (q : PhQuirks) :
      ∀ (s t : Selector), Selector.noPlaceholder q s = .some t → t.hasPh = false
    | .leaf c, t, h => by
      simp only [Selector.noPlaceholder] at h
      cases hc : Compound.noPlaceholder q c with
      | some c' =>
        rw [hc] at h; cases h
        simpa [Selector.hasPh] using Compound.noPlaceholder_hasPh q c c' hc
      | any => rw [hc] at h; cases h; rfl
      | none => rw [hc] at h; cases h
    | .rel k r c, t, h => by
      simp only [Selector.noPlaceholder] at h
      cases hc : Compound.noPlaceholder q c with
      | none => rw [hc] at h; cases h
      | any =>
        rw [hc] at h
        simp only at h
        split at h
        · cases h
        · cases hr : Selector.noPlaceholder q r with
          | some r' =>
            rw [hr] at h; cases h
            have := Selector.noPlaceholder_hasPh q r r' hr
            simp [Selector.hasPh, this]; rfl
          | any => rw [hr] at h; cases h; rfl
          | none => rw [hr] at h; cases h
      | some c' =>
        rw [hc] at h
        simp only at h
        have hc' := Compound.noPlaceholder_hasPh q c c' hc
        split at h
        · cases h
        · cases hr : Selector.noPlaceholder q r with
          | some r' =>
            rw [hr] at h; cases h
            have := Selector.noPlaceholder_hasPh q r r' hr
            simp [Selector.hasPh, this, hc']
          | any => rw [hr] at h; cases h; simpa [Selector.hasPh] using hc'
          | none => rw [hr] at h; cases h
  theorem Compound.noPlaceholder_hasPh (q : PhQuirks) :
      ∀ (c c' : Compound), Compound.noPlaceholder q c = .some c' → c'.hasPh = false
    | .mk b e p cl i a ps, c', h => by
      simp only [Compound.noPlaceholder] at h
      split at h
      · cases h
      · rename_i hp
        have hp' : p.isEmpty = true := by simpa using hp
        cases hn : collectNegAux (Pseudo.noPlaceholderList q ps) [] with
        | none => rw [hn] at h; cases h
        | any =>
          rw [hn] at h; cases h
          split
          · simp [Compound.hasPh, hp', Pseudo.hasPhList]
          · simp only [Compound.orUniversal]
            split <;> simp [Compound.hasPh, Compound.setElem, hp', Pseudo.hasPhList]
        | some ps' =>
          rw [hn] at h; cases h
          have : ∀ x ∈ ps', x.hasPh = false := by
            intro x hx
            rcases collectNegAux_mem _ _ _ hn x hx with h1 | h1
            · simp at h1
            · exact Pseudo.noPlaceholderList_hasPh q ps x h1
          simp [Compound.hasPh, hp', Pseudo.hasPhList_false_of_forall ps' this]
  theorem Pseudo.noPlaceholder_hasPh (q : PhQuirks) :
      ∀ (p p' : Pseudo), Pseudo.noPlaceholder q p = .some p' → p'.hasPh = false
    | .mk n (.sel s) e, p', h => by
      simp only [Pseudo.noPlaceholder] at h
      cases hs : collectPosAux (Selector.noPlaceholderList q s) [] with
      | none => rw [hs] at h; cases hn : nameIn n [['n', 'o', 't']] <;> rw [hn] at h <;> cases h
      | any => rw [hs] at h; cases hn : nameIn n [['n', 'o', 't']] <;> rw [hn] at h <;> cases h
      | some t =>
        rw [hs] at h
        have ht : ∀ x ∈ t, x.hasPh = false := by
          intro x hx
          rcases collectPosAux_mem _ _ _ hs x hx with h1 | h1
          · simp at h1
          · exact Selector.noPlaceholderList_hasPh q s x h1
        simp only at h
        split at h
        · cases hl : collectPosAux (List.map Selector.noLeadingCombinator t) [] with
          | none => rw [hl] at h; cases h
          | any => rw [hl] at h; cases h
          | some t' =>
            rw [hl] at h; cases h
            have : ∀ x ∈ t', x.hasPh = false := by
              intro x hx
              rcases collectPosAux_mem _ _ _ hl x hx with h1 | h1
              · simp at h1
              · exact ht x (mem_map_noLeadingCombinator t x h1)
            simp [Pseudo.hasPh, PArg.hasPh, Selector.hasPhList_false_of_forall t' this]
        · cases h
          simp [Pseudo.hasPh, PArg.hasPh, Selector.hasPhList_false_of_forall t ht]
    | .mk n (.other s) e, p', h => by simp only [Pseudo.noPlaceholder] at h; cases h; rfl
    | .mk n .none e, p', h => by simp only [Pseudo.noPlaceholder] at h; cases h; rfl
  theorem Pseudo.noPlaceholderList_hasPh (q : PhQuirks) :
      ∀ (ps : List Pseudo) (x : Pseudo), Opt.some x ∈ Pseudo.noPlaceholderList q ps → x.hasPh = false
    | [], x, h => by simp [Pseudo.noPlaceholderList] at h
    | p :: ps, x, h => by
      simp only [Pseudo.noPlaceholderList, List.mem_cons] at h
      rcases h with h | h
      · exact Pseudo.noPlaceholder_hasPh q p x h.symm
      · exact Pseudo.noPlaceholderList_hasPh q ps x h
  theorem Selector.noPlaceholderList_hasPh (q : PhQuirks) :
      ∀ (ss : List Selector) (x : Selector), Opt.some x ∈ Selector.noPlaceholderList q ss → x.hasPh = false
    | [], x, h => by simp [Selector.noPlaceholderList] at h
    | s :: ss, x, h => by
      simp only [Selector.noPlaceholderList, List.mem_cons] at h
      rcases h with h | h
      · exact Selector.noPlaceholder_hasPh q s x h.symm
      · exact Selector.noPlaceholderList_hasPh q ss x h
end

end Sel
