/-
Helper lemmas for Theorems/C25.lean: the name lexer on plain text and on the printer's
digit escape.
-/
import RsassModel.Sel.Parse

namespace Sel

/-- a name made of plain characters only (`selector_plain_part` characters) -/
def isPlainName (q : LexQuirks) (n : List Char) : Bool := !n.isEmpty && n.all (isPlainChar q)

/-- the lexer stops at `stop`: end of text or a character that cannot continue a name -/
def stopsName (q : LexQuirks) (rest : List Char) : Bool :=
  match rest with
  | [] => true
  | c :: _ => !isPlainChar q c && c != '\\' && c != '#'

theorem nameTail_plain (q : LexQuirks) (hash : Bool) :
    ∀ (n acc rest : List Char) (fuel : Nat), n.all (isPlainChar q) = true → stopsName q rest = true →
      n.length < fuel → nameTail q hash fuel acc (n ++ rest) = (acc ++ n, rest)
  | [], acc, rest, fuel, _, hs, hf => by
    cases fuel with
    | zero => simp at hf
    | succ f =>
      cases rest with
      | nil => simp [nameTail]
      | cons c r =>
        simp only [stopsName, Bool.and_eq_true, Bool.not_eq_true', bne_iff_ne, ne_eq] at hs
        obtain ⟨⟨h1, h2⟩, h3⟩ := hs
        simp [nameTail, h1, h2, h3]
  | x :: xs, acc, rest, fuel, hn, hs, hf => by
    cases fuel with
    | zero => simp at hf
    | succ f =>
      simp only [List.all_cons, Bool.and_eq_true] at hn
      have := nameTail_plain q hash xs (acc ++ [x]) rest f hn.2 hs (by simpa using hf)
      simp [nameTail, hn.1, this]

/-- plain names lex to themselves -/
theorem cssName_plain (q : LexQuirks) (hash : Bool) (n rest : List Char) (hn : isPlainName q n = true)
    (hs : stopsName q rest = true) : cssName q hash (n ++ rest) = some (n, rest) := by
  cases n with
  | nil => simp [isPlainName] at hn
  | cons x xs =>
    simp only [isPlainName, List.isEmpty_cons, Bool.not_false, Bool.true_and, List.all_cons,
      Bool.and_eq_true] at hn
    have := nameTail_plain q hash xs [x] rest ((xs ++ rest).length + 1) hn.2 hs (by simp; omega)
    simp only [List.length_append] at this
    simp [cssName, hn.1, this]

end Sel
