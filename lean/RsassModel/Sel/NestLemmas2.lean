/-
Helper lemmas for Theorems/C19.lean, part 2: no `&` survives `resolve_ref`; declarations keep
their source order.  Proof file (no new model definitions except proof-side predicates).
-/
import RsassModel.Sel.NestLemmas

namespace Sel

/-! ### `hasBackref` on lists -/

theorem Pseudo.hasBackrefList_false_iff : ∀ l : List Pseudo,
    Pseudo.hasBackrefList l = false ↔ ∀ x ∈ l, x.hasBackref = false
  | [] => by simp [Pseudo.hasBackrefList]
  | p :: ps => by
    simp [Pseudo.hasBackrefList, Pseudo.hasBackrefList_false_iff ps]

theorem Selector.hasBackrefList_false_iff : ∀ l : List Selector,
    Selector.hasBackrefList l = false ↔ ∀ x ∈ l, x.hasBackref = false
  | [] => by simp [Selector.hasBackrefList]
  | p :: ps => by
    simp [Selector.hasBackrefList, Selector.hasBackrefList_false_iff ps]

theorem Compound.hasBackref_mk (b : Bool) (e p c i a ps) :
    (Compound.mk b e p c i a ps).hasBackref = (b || Pseudo.hasBackrefList ps) := by
  simp [Compound.hasBackref]

/-! ### `append` keeps a compound free of `&` -/

theorem Compound.appendSuffix_hasBackref (a r : Compound) (sfx : List Char)
    (ha : a.hasBackref = false) (h : a.appendSuffix sfx = some r) : r.hasBackref = false := by
  cases a with
  | mk b e p c i ats ps =>
    simp only [Compound.hasBackref_mk, Bool.or_eq_false_iff] at ha
    obtain ⟨hb, hps⟩ := ha
    subst hb
    rw [Pseudo.hasBackrefList_false_iff] at hps
    simp only [Compound.appendSuffix] at h
    split at h
    · -- last pseudo has no argument: its name is extended
      rename_i n el rest hrev
      cases h
      have hps' : ps = rest.reverse ++ [Pseudo.mk n .none el] := by
        have := congrArg List.reverse hrev
        simpa using this
      simp only [Compound.hasBackref_mk, Bool.false_or]
      rw [Pseudo.hasBackrefList_false_iff]
      intro x hx
      rcases List.mem_append.mp hx with h1 | h1
      · exact hps x (by rw [hps']; exact List.mem_append_left _ h1)
      · simp only [List.mem_singleton] at h1
        subst h1
        simp [Pseudo.hasBackref, PArg.hasBackref]
    · cases h
    · have hall : Pseudo.hasBackrefList ps = false := (Pseudo.hasBackrefList_false_iff ps).mpr hps
      split at h
      · cases h
      · split at h
        · cases h; simp [Compound.hasBackref_mk, hall]
        · split at h
          · cases h; simp [Compound.hasBackref_mk, hall]
          · split at h
            · cases h; simp [Compound.hasBackref_mk, hall]
            · split at h
              · split at h
                · cases h
                · cases h; simp [Compound.hasBackref_mk, hall]
              · cases h; simp [Compound.hasBackref_mk, hall]

theorem Compound.mergeInto_hasBackref (k : Bool) (a2 : Option Compound) (b ap : Compound)
    (ha : ∀ a, a2 = some a → a.hasBackref = false) (hb : Pseudo.hasBackrefList b.pseudos = false)
    (h : Compound.mergeInto k a2 b = some ap) : ap.hasBackref = false := by
  cases a2 with
  | none => simp [Compound.mergeInto] at h
  | some a =>
    have haa := ha a rfl
    cases a with
    | mk b1 e1 p1 c1 i1 a1 ps1 =>
      cases b with
      | mk b2 e2 p2 c2 i2 at2 ps2 =>
        simp only [Compound.mergeInto, Option.some.injEq] at h
        subst h
        simp only [Compound.hasBackref_mk, Bool.or_eq_false_iff] at haa
        simp only [Compound.pseudos] at hb
        rw [Pseudo.hasBackrefList_false_iff] at hb
        have h1 := (Pseudo.hasBackrefList_false_iff ps1).mp haa.2
        simp only [Compound.hasBackref_mk, Bool.false_or]
        rw [Pseudo.hasBackrefList_false_iff]
        intro x hx
        rcases List.mem_append.mp hx with h | h
        · exact h1 x h
        · exact hb x h

theorem Compound.appendWith_hasBackref (k : Bool) (a b ap : Compound) (ha : a.hasBackref = false)
    (hb : Pseudo.hasBackrefList b.pseudos = false) (h : Compound.appendWith k a b = some ap) :
    ap.hasBackref = false := by
  cases a with
  | mk bk e p c i ats ps =>
    have key : ∀ a1 : Compound, a1.hasBackref = false → ∀ a', (match b.elem with
        | none => some a1 | some sfx => a1.appendSuffix sfx) = some a' → a'.hasBackref = false := by
      intro a1 h1 a' ha'
      split at ha'
      · cases ha'; exact h1
      · exact Compound.appendSuffix_hasBackref _ _ _ h1 ha'
    simp only [Compound.appendWith] at h
    refine Compound.mergeInto_hasBackref k _ b ap ?_ hb h
    intro a' ha'
    refine key _ ?_ a' ha'
    simpa [Compound.hasBackref_mk] using ha

theorem Compound.unifyEmpty_hasBackref (o u : Compound) (ho : Pseudo.hasBackrefList o.pseudos = false)
    (h : o.unifyEmpty = some u) : u.hasBackref = false := by
  cases o with
  | mk b e p c i ats ps =>
    simp only [Compound.pseudos] at ho
    rw [Pseudo.hasBackrefList_false_iff] at ho
    simp only [Compound.unifyEmpty] at h
    cases hpe : ps.find? Pseudo.isElement with
    | none =>
      simp only [hpe] at h
      split at h
      · cases h
      · cases h
        simp only [Compound.hasBackref_mk, Bool.false_or]
        rw [Pseudo.hasBackrefList_false_iff]
        intro x hx
        exact ho x (List.mem_filter.mp hx).1
    | some pe =>
      simp only [hpe] at h
      split at h
      · cases h
      · cases h
        simp only [Compound.hasBackref_mk, Bool.false_or]
        rw [Pseudo.hasBackrefList_false_iff]
        intro x hx
        rcases List.mem_append.mp hx with h1 | h1
        · exact ho x (List.mem_filter.mp h1).1
        · simp only [List.mem_singleton] at h1
          subst h1
          exact ho _ (List.mem_of_find?_eq_some hpe)

theorem Selector.hasBackref_setCompound (s : Selector) (c : Compound) (hs : s.hasBackref = false)
    (hc : c.hasBackref = false) : (s.setCompound c).hasBackref = false := by
  cases s with
  | leaf c0 => simpa [Selector.setCompound, Selector.hasBackref] using hc
  | rel k r c0 =>
    simp only [Selector.hasBackref, Bool.or_eq_false_iff] at hs
    simp [Selector.setCompound, Selector.hasBackref, hc, hs.2]

theorem Selector.compound_hasBackref (s : Selector) (hs : s.hasBackref = false) : s.compound.hasBackref = false := by
  cases s with
  | leaf c => simpa [Selector.hasBackref, Selector.compound] using hs
  | rel k r c =>
    simp only [Selector.hasBackref, Bool.or_eq_false_iff] at hs
    simpa [Selector.compound] using hs.1

theorem resolveOne_hasBackref (q : NestQuirks) (s : Selector) (c : Compound) (hs : s.hasBackref = false)
    (hc : Pseudo.hasBackrefList c.pseudos = false) : ∀ r ∈ resolveOne q s c, r.hasBackref = false := by
  intro r hr
  simp only [resolveOne] at hr
  cases hap : Compound.appendWith (!q.appendIdLastWins) s.compound c with
  | none => simp [hap] at hr
  | some ap =>
    have hapb := Compound.appendWith_hasBackref _ _ _ _ (Selector.compound_hasBackref s hs) hc hap
    simp only [hap] at hr
    split at hr
    · cases hu : ap.unifyEmpty with
      | none => simp [hu] at hr
      | some u =>
        have hub := Compound.unifyEmpty_hasBackref ap u (by
          cases ap with
          | mk b e p cl i a ps =>
            simp only [Compound.hasBackref_mk, Bool.or_eq_false_iff] at hapb
            simpa [Compound.pseudos] using hapb.2) hu
        simp only [hu] at hr
        cases s with
        | leaf c0 =>
          simp only [List.mem_singleton] at hr
          subst hr
          simpa [Selector.hasBackref] using hub
        | rel k r0 c0 =>
          simp only [Selector.hasBackref, Bool.or_eq_false_iff] at hs
          by_cases hue : u.isEmpty = true
          · simp [hue] at hr
          · simp only [hue, Bool.false_eq_true, if_false, List.mem_singleton] at hr
            subst hr
            simp [Selector.hasBackref, hub, hs.2]
    · simp only [List.mem_singleton] at hr
      subst hr
      exact Selector.hasBackref_setCompound s ap hs hapb

theorem resolveOneList_hasBackref (q : NestQuirks) (c : Compound) (hc : Pseudo.hasBackrefList c.pseudos = false) :
    ∀ ctx : SelSet, (∀ s ∈ ctx, s.hasBackref = false) → ∀ r ∈ resolveOneList q c ctx, r.hasBackref = false
  | [], _, r, hr => by simp [resolveOneList] at hr
  | s :: ss, h, r, hr => by
    simp only [resolveOneList, List.mem_append] at hr
    rcases hr with h1 | h1
    · exact resolveOne_hasBackref q s c (h s (List.mem_cons_self ..)) hc r h1
    · exact resolveOneList_hasBackref q c hc ss (fun x hx => h x (List.mem_cons_of_mem _ hx)) r h1

theorem resolveCompound_hasBackref (q : NestQuirks) (ctx : SelSet) (hctx : ∀ s ∈ ctx, s.hasBackref = false)
    (c : Compound) (hc : Pseudo.hasBackrefList c.pseudos = false) :
    ∀ r ∈ resolveCompound q ctx c, r.hasBackref = false := by
  intro r hr
  simp only [resolveCompound] at hr
  split at hr
  · refine resolveOneList_hasBackref q _ ?_ ctx hctx r hr
    cases c; simpa [Compound.setBackref, Compound.pseudos] using hc
  · rename_i hb
    simp only [List.mem_singleton] at hr
    subst hr
    cases c with
    | mk b e p cl i a ps =>
      simp only [Compound.backref, Bool.not_eq_true] at hb
      simp only [Compound.pseudos] at hc
      simp [Selector.hasBackref, Compound.hasBackref_mk, hb, hc]

theorem Selector.attachDeepest_hasBackref (k : Rel) (rel : Selector) (hrel : rel.hasBackref = false) :
    ∀ r : Selector, r.hasBackref = false → (Selector.attachDeepest k rel r).hasBackref = false
  | .leaf c, h => by
    simp only [Selector.hasBackref] at h
    simp [Selector.attachDeepest, Selector.hasBackref, h, hrel]
  | .rel k' s c, h => by
    simp only [Selector.hasBackref, Bool.or_eq_false_iff] at h
    simp [Selector.attachDeepest, Selector.hasBackref, h.1,
      Selector.attachDeepest_hasBackref k rel hrel s h.2]

theorem attachAll_hasBackref (k : Rel) (result : List Selector) (hres : ∀ r ∈ result, r.hasBackref = false) :
    ∀ rels : List Selector, (∀ r ∈ rels, r.hasBackref = false) →
      ∀ x ∈ attachAll k rels result, x.hasBackref = false
  | [], _, x, hx => by simp [attachAll] at hx
  | rel :: more, h, x, hx => by
    simp only [attachAll, List.mem_append, List.mem_map] at hx
    rcases hx with ⟨r, hr, rfl⟩ | h1
    · exact Selector.attachDeepest_hasBackref k rel (h rel (List.mem_cons_self ..)) r (hres r hr)
    · exact attachAll_hasBackref k result hres more (fun y hy => h y (List.mem_cons_of_mem _ hy)) x h1

/-! ### round robin only rearranges -/

theorem mem_heads {α : Type} : ∀ (rows : List (List α)) (x : α), x ∈ heads rows → ∃ row ∈ rows, x ∈ row
  | [], x, h => by simp [heads] at h
  | [] :: rows, x, h => by
    simp only [heads] at h
    obtain ⟨row, hr, hx⟩ := mem_heads rows x h
    exact ⟨row, List.mem_cons_of_mem _ hr, hx⟩
  | (y :: ys) :: rows, x, h => by
    simp only [heads, List.mem_cons] at h
    rcases h with h | h
    · exact ⟨y :: ys, List.mem_cons_self .., by rw [h]; exact List.mem_cons_self ..⟩
    · obtain ⟨row, hr, hx⟩ := mem_heads rows x h
      exact ⟨row, List.mem_cons_of_mem _ hr, hx⟩

theorem mem_tails {α : Type} : ∀ (rows : List (List α)) (row' : List α), row' ∈ tails rows →
    ∃ row ∈ rows, ∀ x ∈ row', x ∈ row
  | [], row', h => by simp [tails] at h
  | row :: rows, row', h => by
    simp only [tails, List.mem_cons] at h
    rcases h with h | h
    · exact ⟨row, List.mem_cons_self .., fun x hx => List.mem_of_mem_tail (by rw [h] at hx; exact hx)⟩
    · obtain ⟨r, hr, hx⟩ := mem_tails rows row' h
      exact ⟨r, List.mem_cons_of_mem _ hr, hx⟩

theorem mem_roundRobinAux {α : Type} : ∀ (fuel : Nat) (rows : List (List α)) (x : α),
    x ∈ roundRobinAux fuel rows → ∃ row ∈ rows, x ∈ row
  | 0, rows, x, h => by simp [roundRobinAux] at h
  | fuel + 1, rows, x, h => by
    simp only [roundRobinAux] at h
    split at h
    · simp at h
    · rcases List.mem_append.mp h with h1 | h1
      · exact mem_heads rows x h1
      · obtain ⟨row', hr', hx'⟩ := mem_roundRobinAux fuel (tails rows) x h1
        obtain ⟨row, hr, hsub⟩ := mem_tails rows row' hr'
        exact ⟨row, hr, hsub x hx'⟩

theorem mem_roundRobin {α : Type} (rows : List (List α)) (x : α) (h : x ∈ roundRobin rows) :
    ∃ row ∈ rows, x ∈ row := mem_roundRobinAux _ rows x h

end Sel

namespace Sel

/-! ### no `&` survives `resolve_ref` -/

section
variable (q : NestQuirks) (ctx : SelSet) (hctx : ∀ s ∈ ctx, s.hasBackref = false)
include hctx

mutual
  theorem Selector.resolveRef_noBackref :
      ∀ (s r : Selector), r ∈ Selector.resolveRef q ctx s → r.hasBackref = false
    | .leaf c, r, hr => by
      simp only [Selector.resolveRef] at hr
      exact resolveCompound_hasBackref q ctx hctx _ (Compound.resolveInPseudo_noBackref c) r hr
    | .rel k s c, r, hr => by
      simp only [Selector.resolveRef] at hr
      exact attachAll_hasBackref k _
        (resolveCompound_hasBackref q ctx hctx _ (Compound.resolveInPseudo_noBackref c))
        _ (fun x hx => Selector.resolveRef_noBackref s x hx) r hr
  theorem Compound.resolveInPseudo_noBackref :
      ∀ c : Compound, Pseudo.hasBackrefList (Compound.resolveInPseudo q ctx c).pseudos = false
    | .mk b e p cl i a ps => by
      simp only [Compound.resolveInPseudo, Compound.pseudos]
      exact Pseudo.resolveRefList_noBackref ps
  theorem Pseudo.resolveRef_noBackref :
      ∀ p : Pseudo, (Pseudo.resolveRef q ctx p).hasBackref = false
    | .mk n (.sel s) e => by
      simp only [Pseudo.resolveRef, PArg.resolveRef, Pseudo.hasBackref, PArg.hasBackref]
      rw [Selector.hasBackrefList_false_iff]
      intro x hx
      obtain ⟨row, hrow, hxr⟩ := mem_roundRobin _ x hx
      exact Selector.resolveRefRows_noBackref s row hrow x hxr
    | .mk n (.other s) e => by simp [Pseudo.resolveRef, PArg.resolveRef, Pseudo.hasBackref, PArg.hasBackref]
    | .mk n .none e => by simp [Pseudo.resolveRef, PArg.resolveRef, Pseudo.hasBackref, PArg.hasBackref]
  theorem Pseudo.resolveRefList_noBackref :
      ∀ ps : List Pseudo, Pseudo.hasBackrefList (Pseudo.resolveRefList q ctx ps) = false
    | [] => rfl
    | p :: ps => by
      simp [Pseudo.resolveRefList, Pseudo.hasBackrefList, Pseudo.resolveRef_noBackref p,
        Pseudo.resolveRefList_noBackref ps]
  theorem Selector.resolveRefRows_noBackref :
      ∀ (ss : List Selector) (row : List Selector), row ∈ Selector.resolveRefRows q ctx ss →
        ∀ x ∈ row, x.hasBackref = false
    | [], row, h => by simp [Selector.resolveRefRows] at h
    | s :: ss, row, h => by
      simp only [Selector.resolveRefRows, List.mem_cons] at h
      rcases h with h | h
      · intro x hx; rw [h] at hx; exact Selector.resolveRef_noBackref s x hx
      · exact Selector.resolveRefRows_noBackref ss row h
end

end

/-- every result of resolving a `&` compound is an outer selector with its last compound replaced
by `outer compound ++ the rest of the & compound` -/
theorem resolveOneList_spec_shape (c : Compound) :
    ∀ (ctx : SelSet) (r : Selector), r ∈ resolveOneList nestSpec c ctx →
      ∃ s ∈ ctx, ∃ ap, Compound.appendWith true s.compound c = some ap ∧ r = s.setCompound ap
  | [], r, hr => by simp [resolveOneList] at hr
  | s :: ss, r, hr => by
    simp only [resolveOneList, List.mem_append] at hr
    rcases hr with h | h
    · have hq : nestSpec.ampViaUnify = false := rfl
      have hi : (!nestSpec.appendIdLastWins) = true := rfl
      simp only [resolveOne, hq, hi, Bool.false_eq_true, if_false] at h
      cases hap : Compound.appendWith true s.compound c with
      | none => simp [hap] at h
      | some ap =>
        simp only [hap, List.mem_singleton] at h
        exact ⟨s, List.mem_cons_self .., ap, hap, h⟩
    · obtain ⟨s', hs', ap, hap, hr'⟩ := resolveOneList_spec_shape c ss r h
      exact ⟨s', List.mem_cons_of_mem _ hs', ap, hap, hr'⟩

/-! ### declarations keep their source order -/

mutual
  /-- declaration names of a rule item, in source order (depth first) -/
  def Item.declNames : Item → List (List Char)
    | .decl _ => []          -- a declaration outside any rule is not part of the model's output
    | .rule _ body => Item.bodyNames body
    | .atRoot _ body => Item.bodyNames body
  def Item.bodyNames : List Item → List (List Char)
    | [] => []
    | .decl d :: rest => d :: Item.bodyNames rest
    | .rule s b :: rest => Item.declNames (.rule s b) ++ Item.bodyNames rest
    | .atRoot s b :: rest => Item.declNames (.atRoot s b) ++ Item.bodyNames rest
end

/-- all declaration names of a list of emitted blocks, first block first -/
def blockNames (bs : List Block) : List (List Char) := bs.flatMap (fun b => b.2)

theorem blockNames_pushDecl (sel : SelSet) (d : List Char) (o : Bool) (out : List Block) :
    blockNames (pushDecl sel d o out).reverse = blockNames out.reverse ++ [d] := by
  cases o with
  | false => simp [pushDecl, blockNames]
  | true =>
    cases out with
    | nil => simp [pushDecl, blockNames]
    | cons b rest => cases b; simp [pushDecl, blockNames]

mutual
  theorem Item.eval_names (q : NestQuirks) :
      ∀ (it : Item) (ctx : Ctx) (out : List Block),
        blockNames (Item.eval q ctx out it).reverse = blockNames out.reverse ++ Item.declNames it
    | .decl _, ctx, out => by simp [Item.eval, Item.declNames]
    | .rule sels body, ctx, out => by
      simp only [Item.eval, Item.declNames]
      exact Item.evalBody_names q body _ _ _ _
    | .atRoot sels body, ctx, out => by
      simp only [Item.eval, Item.declNames]
      exact Item.evalBody_names q body _ _ _ _
  theorem Item.evalBody_names (q : NestQuirks) :
      ∀ (body : List Item) (ctx : Ctx) (sel : SelSet) (o : Bool) (out : List Block),
        blockNames (Item.evalBody q ctx sel o out body).reverse = blockNames out.reverse ++ Item.bodyNames body
    | [], ctx, sel, o, out => by simp [Item.evalBody, Item.bodyNames]
    | .decl d :: rest, ctx, sel, o, out => by
      simp only [Item.evalBody, Item.bodyNames]
      rw [Item.evalBody_names q rest, blockNames_pushDecl]
      simp
    | .rule s b :: rest, ctx, sel, o, out => by
      simp only [Item.evalBody, Item.bodyNames]
      rw [Item.evalBody_names q rest, Item.eval_names q (.rule s b)]
      simp
    | .atRoot s b :: rest, ctx, sel, o, out => by
      simp only [Item.evalBody, Item.bodyNames]
      rw [Item.evalBody_names q rest, Item.eval_names q (.atRoot s b)]
      simp
end

theorem evalSheet_names (q : NestQuirks) : ∀ (items : List Item) (out : List Block),
    blockNames (evalSheet q items out).reverse = blockNames out.reverse ++ items.flatMap Item.declNames
  | [], out => by simp [evalSheet]
  | it :: rest, out => by
    simp only [evalSheet, List.flatMap_cons]
    rw [evalSheet_names q rest, Item.eval_names]
    simp

end Sel

namespace Sel

theorem Item.evalBody_decls_open (q : NestQuirks) (ctx : Ctx) (sel : SelSet) (out : List Block) :
    ∀ (ds acc : List (List Char)),
      Item.evalBody q ctx sel true ((sel, acc) :: out) (ds.map Item.decl) = (sel, acc ++ ds) :: out
  | [], acc => by simp [Item.evalBody]
  | d :: ds, acc => by
    simp only [List.map_cons, Item.evalBody, pushDecl]
    rw [Item.evalBody_decls_open q ctx sel out ds (acc ++ [d])]
    simp

theorem Item.evalBody_decls (q : NestQuirks) (ctx : Ctx) (sel : SelSet) (out : List Block)
    (d : List Char) (ds : List (List Char)) :
    Item.evalBody q ctx sel false out ((d :: ds).map Item.decl) = (sel, d :: ds) :: out := by
  simp only [List.map_cons, Item.evalBody, pushDecl]
  rw [Item.evalBody_decls_open q ctx sel out ds [d]]
  simp

end Sel

namespace Sel

/-- `&sfx` against an outer compound that ends in an id (no class, attribute or pseudo) -/
theorem Compound.print_append_suffix_id (cm : Bool) (e : Option (List Char)) (p : List (List Char))
    (i sfx : List Char) :
    ∀ k, ∃ ap, Compound.appendWith k (.mk false e p [] (some i) [] []) (.mk false (some sfx) [] [] none [] []) = some ap ∧
      Compound.print cm ap = Compound.print cm (.mk false e p [] (some i) [] []) ++ sfx := by
  intro k
  cases e with
  | none =>
    refine ⟨_, by simp [Compound.appendWith, Compound.mergeInto, mergeId, Compound.elem, Compound.appendSuffix]; rfl, ?_⟩
    simp [Compound.print, printClasses, printAttrs, Pseudo.printList]
  | some e =>
    by_cases hs : elemShown e p [] (some i) 0 = true
    · refine ⟨_, by simp [Compound.appendWith, Compound.mergeInto, mergeId, Compound.elem, Compound.appendSuffix, hs]; rfl, ?_⟩
      have hs' : elemShown e (p ++ []) [] (some (i ++ sfx)) 0 = true := by
        simp [elemShown] at hs ⊢; exact hs
      simp [Compound.print, printClasses, printAttrs, Pseudo.printList, hs] at hs' ⊢
      simp [hs']
    · have hs0 : elemShown e p [] (some i) 0 = false := by simpa using hs
      refine ⟨_, by simp [Compound.appendWith, Compound.mergeInto, mergeId, Compound.elem, Compound.appendSuffix, hs0]; rfl, ?_⟩
      simp [Compound.print, printClasses, printAttrs, Pseudo.printList, hs0]

/-- `&sfx` against an outer compound that is an element type only (not `*`-ending) -/
theorem Compound.print_append_suffix_elem (cm : Bool) (e sfx : List Char) (hstar : e.getLast? ≠ some '*')
    (hany : elemIsAny e = false) :
    ∀ k, ∃ ap, Compound.appendWith k (.mk false (some e) [] [] none [] []) (.mk false (some sfx) [] [] none [] []) = some ap ∧
      Compound.print cm ap = Compound.print cm (.mk false (some e) [] [] none [] []) ++ sfx := by
  intro k
  have hs : elemShown e [] [] none 0 = true := by simp [elemShown]
  refine ⟨_, by simp [Compound.appendWith, Compound.mergeInto, mergeId, Compound.elem, Compound.appendSuffix, hs, hstar]; rfl, ?_⟩
  simp [Compound.print, printClasses, printAttrs, Pseudo.printList, printPlaceholders, elemShown, hany]

end Sel
