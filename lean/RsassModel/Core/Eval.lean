/-
Core/Eval.lean — the evaluator of the fragment, mirroring

  output/transform.rs   handle_body / handle_item       exec … (fn := false)
  variablescope.rs      ScopeRef::eval_body              exec … (fn := true)
  sass/value.rs         Value::do_evaluate               evalExpr
  sass/call_args.rs     CallArgs::evaluate               evalNamed, evalPos (named first!)
  sass/formal_args.rs   FormalArgs::eval                 Args.bindPlan + runBinds
  sass/callable.rs      Closure::eval_value              callClosure (kind fnArgs)
  sass/mixin.rs         MixinDecl::get, define_content   callClosure (kind mixinArgs / contentArgs)
  variablescope.rs      define_content / get_content     getContent

Which item kind runs its body in which scope (as the code has it; `Cfg.sq` flags):
  Rule → sub_selectors, AtMedia/AtRule → sub, For → sub per iteration, While → one sub,
  If → same scope, Each → same scope with store/restore of the loop variable,
  function bodies: If/Each/For → same scope, While → sub.
With the structural flags off (`spec`) the bodies of @if (and of @if inside functions) get
a flow scope of their own and every round of @each (and of @each/@for inside functions)
runs in a fresh flow scope, as @for does.

Every recursive function consumes `fuel` on each call (structural recursion on `fuel`).
The output is the list of emitted declarations `(property name, value text)`.
-/
import RsassModel.Core.Args
namespace Core

structure Cfg where
  sq : ScopeQuirks
  aq : ArgQuirks
  /-- spec evaluator: stop with `Err.unspec` when a lookup would have to decide whether a
  variable first declared inside an ended flow-control block is visible -/
  ghosts : Bool := false
deriving Repr, Inhabited

def specCfg : Cfg := { sq := specScopeQuirks, aq := specArgQuirks, ghosts := true }
def asisCfg : Cfg := { sq := asisScopeQuirks, aq := asisArgQuirks, ghosts := false }

structure St where
  heap : Heap
  out : Emitted := []
deriving Repr, Inhabited

def St.init : St := { heap := Heap.init }

abbrev R (α : Type) := Except Err (α × St)

/-- `Scope::get_mixin` / `get_function`: own map, then the parent's. -/
def lookupMixin (h : Heap) (s : Nat) (m : Name) : Option Closure :=
  (chain h s).findSome? fun i => match h[i]? with
    | some sc => getAssoc m sc.mixins
    | none => none

def lookupFn (h : Heap) (s : Nat) (f : Name) : Option Closure :=
  (chain h s).findSome? fun i => match h[i]? with
    | some sc => getAssoc f sc.fns
    | none => none

/-- `Scope::get_content`: own slot, then the parent's. -/
def getContent (h : Heap) (s : Nat) : Option ContentDecl :=
  (chain h s).findSome? fun i => match h[i]? with
    | some sc => sc.content
    | none => none

def setContent (h : Heap) (s : Nat) (c : ContentDecl) : Heap :=
  h.modify s fun sc => { sc with content := some c }

def defineMixin (h : Heap) (s : Nat) (m : Name) (c : Closure) : Heap :=
  h.modify s fun sc => { sc with mixins := setAssoc m c sc.mixins }

def defineFn (h : Heap) (s : Nat) (f : Name) (c : Closure) : Heap :=
  h.modify s fun sc => { sc with fns := setAssoc f c sc.fns }

/-- `ValueRange::new` + its iterator (value/range.rs), unitless integers. -/
def forRange (a b : Int) (incl : Bool) : List Int :=
  let step : Int := if b ≥ a then 1 else -1
  let to := if incl then b + step else b
  let n := if step = 1 then (to - a).toNat else (a - to).toNat
  (List.range n).map fun (k : Nat) => a + step * Int.ofNat k

def atomOf : V → Option Atom
  | .atom a => some a
  | _ => none

/-- read of `$x` in scope `s` -/
def readVar (cfg : Cfg) (s : Nat) (x : Name) (st : St) : R V :=
  if cfg.ghosts && ghostRead st.heap s x then .error (.unspec st.out)
  else match lookup st.heap s x with
    | some v => .ok (v, st)
    | none => .error .err                     -- ScopeError::UndefinedVariable

/-- `VariableDeclaration::evaluate` after the value is known -/
def assign (cfg : Cfg) (s : Nat) (x : Name) (v : V) (dflt glob : Bool) (st : St) : R Unit :=
  if cfg.ghosts && ghostAssign st.heap s x dflt glob then .error (.unspec st.out)
  else
    let h1 := setVariable cfg.sq st.heap s x v dflt glob
    .ok ((), { st with heap := if cfg.ghosts then ghostMark st.heap h1 s x dflt glob else h1 })

mutual

def evalExpr : Nat → Cfg → Nat → Expr → St → R V
  | 0, _, _, _, _ => .error .fuel
  | fuel + 1, cfg, s, e, st =>
    match e with
    | .null => .ok (.null, st)
    | .num n => .ok (.num n, st)
    | .bool b => .ok (.atom (.bool b), st)
    | .ident i => .ok (.atom (.str i), st)
    | .qstr i => .ok (.atom (.qstr i), st)
    | .blist xs comma =>
      match evalList fuel cfg s xs st with
      | .error e => .error e
      | .ok (vs, st) =>
        match atomsOf vs with
        | some as => .ok (.blist as comma, st)
        | none => .error .unmodelled
    | .var x => readVar cfg s (normName x) st
    | .add a b =>
      match evalExpr fuel cfg s a st with
      | .error e => .error e
      | .ok (va, st) =>
        match evalExpr fuel cfg s b st with
        | .error e => .error e
        | .ok (vb, st) =>
          match va, vb with
          | .atom (.num x), .atom (.num y) => .ok (.num (x + y), st)
          | _, _ => .error .unmodelled
    | .lt a b =>
      match evalExpr fuel cfg s a st with
      | .error e => .error e
      | .ok (va, st) =>
        match evalExpr fuel cfg s b st with
        | .error e => .error e
        | .ok (vb, st) =>
          match va, vb with
          | .atom (.num x), .atom (.num y) => .ok (.atom (.bool (decide (x < y))), st)
          | _, _ => .error .unmodelled
    | .eq a b =>
      match evalExpr fuel cfg s a st with
      | .error e => .error e
      | .ok (va, st) =>
        match evalExpr fuel cfg s b st with
        | .error e => .error e
        | .ok (vb, st) =>
          match va, vb with
          | .atom x, .atom y => .ok (.atom (.bool (decide (x = y))), st)
          -- a scalar never equals a list / map / argument list
          | .atom _, _ => .ok (.atom (.bool false), st)
          | _, .atom _ => .ok (.atom (.bool false), st)
          | _, _ => .error .unmodelled
    | .list xs comma =>
      match evalList fuel cfg s xs st with
      | .error e => .error e
      | .ok (vs, st) =>
        match atomsOf vs with
        | some as => .ok (.list as comma, st)
        | none => .error .unmodelled
    | .map kv =>
      match evalList fuel cfg s (kv.map (·.2)) st with
      | .error e => .error e
      | .ok (vs, st) =>
        match atomsOf vs with
        | some as =>
          let keys := kv.map (·.1)
          if keys.eraseDups.length ≠ keys.length then .error .err   -- "Duplicate key."
          else .ok (.map (keys.zip as), st)
        | none => .error .unmodelled
    | .inspect a =>
      match evalExpr fuel cfg s a st with
      | .error e => .error e
      | .ok (v, st) => .ok (.atom (.str v.inspect), st)
    | .keywords a =>
      match evalExpr fuel cfg s a st with
      | .error e => .error e
      | .ok (v, st) =>
        match v with
        | .arglist _ named => .ok (.map (named.map fun (k, a) => (showName k, a)), st)
        | _ => .error .err                    -- "is not an argument list"
    | .call f args =>
      -- `args.evaluate(scope)` first, then `scope.get_function(name)`
      match evalNamed fuel cfg s args [] st with
      | .error e => .error e
      | .ok (named, st) =>
        match evalPos fuel cfg s args { pos := [], named := named } st with
        | .error e => .error e
        | .ok (ca, st) =>
          match lookupFn st.heap s (normName f) with
          | none => .error .unmodelled          -- plain CSS function / built-in: outside the fragment
          | some clo =>
            match callClosure fuel cfg .fnArgs true clo ca none st with
            | .error e => .error e
            | .ok (ov, st) => .ok (ov.getD .null, st)     -- `.unwrap_or(Value::Null)`

def evalList : Nat → Cfg → Nat → List Expr → St → R (List V)
  | 0, _, _, _, _ => .error .fuel
  | _ + 1, _, _, [], st => .ok ([], st)
  | fuel + 1, cfg, s, e :: r, st =>
    match evalExpr fuel cfg s e st with
    | .error e => .error e
    | .ok (v, st) =>
      match evalList fuel cfg s r st with
      | .error e => .error e
      | .ok (vs, st) => .ok (v :: vs, st)

/-- first pass of `CallArgs::evaluate`: the named arguments, in source order -/
def evalNamed : Nat → Cfg → Nat → Args → List (Name × V) → St → R (List (Name × V))
  | 0, _, _, _, _, _ => .error .fuel
  | _ + 1, _, _, [], acc, st => .ok (acc, st)
  | fuel + 1, cfg, s, (k, e) :: r, acc, st =>
    match k with
    | .named n =>
      match evalExpr fuel cfg s e st with
      | .error e => .error e
      | .ok (v, st) => evalNamed fuel cfg s r (omInsert (normName n) v acc).1 st
    | _ => evalNamed fuel cfg s r acc st

/-- second pass: positional arguments and `...` arguments, in source order -/
def evalPos : Nat → Cfg → Nat → Args → CallArgs → St → R CallArgs
  | 0, _, _, _, _, _ => .error .fuel
  | _ + 1, _, _, [], acc, st => .ok (acc, st)
  | fuel + 1, cfg, s, (k, e) :: r, acc, st =>
    match k with
    | .named _ => evalPos fuel cfg s r acc st
    | .pos =>
      match evalExpr fuel cfg s e st with
      | .error e => .error e
      | .ok (v, st) => evalPos fuel cfg s r { acc with pos := acc.pos ++ [v] } st
    | .splat =>
      match evalExpr fuel cfg s e st with
      | .error e => .error e
      | .ok (v, st) =>
        match spread acc v with
        | .error e => .error e
        | .ok acc => evalPos fuel cfg s r acc st

/-- the `argscope.define(..)` sequence of `FormalArgs::eval`, defaults evaluated in the
argscope `a` itself (so they see the parameters bound before them) -/
def runBinds : Nat → Cfg → Nat → List (Name × Binding) → St → R Unit
  | 0, _, _, _, _ => .error .fuel
  | _ + 1, _, _, [], st => .ok ((), st)
  | fuel + 1, cfg, a, (x, b) :: r, st =>
    match b with
    | .val v => runBinds fuel cfg a r { st with heap := insertLocal st.heap a x v }
    | .dflt e =>
      match evalExpr fuel cfg a e st with
      | .error e => .error e
      | .ok (v, st) => runBinds fuel cfg a r { st with heap := insertLocal st.heap a x v }

/-- Call of a user function (`Closure::eval_value`), a mixin (`MixinDecl::get` +
`define_content` + body) or a content block: two fresh scopes below the closure's
*definition* scope — `sub_selectors(decl.scope, sel)` and the argscope — then the body. -/
def callClosure : Nat → Cfg → Kind → Bool → Closure → CallArgs → Option ContentDecl → St → R (Option V)
  | 0, _, _, _, _, _, _, _ => .error .fuel
  | fuel + 1, cfg, kind, fn, clo, ca, content, st =>
    let (h1, c0) := alloc st.heap clo.scope .callee false
    let (h2, a) := alloc h1 c0 kind false
    match bindPlan cfg.aq clo.ps ca with
    | .error e => .error e
    | .ok plan =>
      match runBinds fuel cfg a plan.binds { st with heap := h2 } with
      | .error e => .error e
      | .ok (_, st) =>
        let restOk : Option Heap :=
          match plan.rest with
          | none => some st.heap
          | some (r, rv) => (rv.toV).map fun v => insertLocal st.heap a r v
        match restOk with
        | none => .error .unmodelled
        | some h3 =>
          let h4 := match content with
            | some c => setContent h3 a c
            | none => h3
          exec fuel cfg fn a clo.body { st with heap := h4 }

/-- `handle_body` (fn = false) / `eval_body` (fn = true); result `some v` = `@return v` reached -/
def exec : Nat → Cfg → Bool → Nat → List Stmt → St → R (Option V)
  | 0, _, _, _, _, _ => .error .fuel
  | _ + 1, _, _, _, [], st => .ok (none, st)
  | fuel + 1, cfg, fn, s, stmt :: rest, st =>
    match execStmt fuel cfg fn s stmt st with
    | .error e => .error e
    | .ok (some v, st) => .ok (some v, st)           -- first @return wins
    | .ok (none, st) => exec fuel cfg fn s rest st

def execStmt : Nat → Cfg → Bool → Nat → Stmt → St → R (Option V)
  | 0, _, _, _, _, _ => .error .fuel
  | fuel + 1, cfg, fn, s, stmt, st =>
    match stmt with
    | .decl x e dflt glob =>
      match evalExpr fuel cfg s e st with
      | .error e => .error e
      | .ok (v, st) =>
        match assign cfg s (normName x) v dflt glob st with
        | .error e => .error e
        | .ok (_, st) => .ok (none, st)
    | .ret e =>
      if fn then
        match evalExpr fuel cfg s e st with
        | .error e => .error e
        | .ok (v, st) => .ok (some v, st)
      else .error .err                               -- Invalid::AtRule
    | .emit p e =>
      if fn then .error .unmodelled else
      match evalExpr fuel cfg s e st with
      | .error e => .error e
      | .ok (v, st) =>
        match v.emit with
        | .omit => .ok (none, st)
        | .text t => .ok (none, { st with out := st.out ++ [(p, t)] })
        | .unmodelled => .error .unmodelled
    | .rule body =>
      if fn then .error .unmodelled else
      let (h, t) := alloc st.heap s .rule false
      exec fuel cfg false t body { st with heap := h }
    | .media body =>
      if fn then .error .unmodelled else
      let (h, t) := alloc st.heap s .media false
      exec fuel cfg false t body { st with heap := h }
    | .atrule body =>
      if fn then .error .unmodelled else
      let (h, t) := alloc st.heap s .atrule false
      exec fuel cfg false t body { st with heap := h }
    | .ifS c t e =>
      match evalExpr fuel cfg s c st with
      | .error e => .error e
      | .ok (v, st) =>
        let body := if v.isTrue then t else e
        let same := if fn then cfg.sq.fnNoFlowScopes else cfg.sq.noIfScope
        if same then exec fuel cfg fn s body st
        else
          let (h, f) := alloc st.heap s (if fn then .fnFlow else .ifBlock) true
          exec fuel cfg fn f body { st with heap := h }
    | .each x e body =>
      let x := normName x
      let same := if fn then cfg.sq.fnNoFlowScopes else cfg.sq.noEachScope
      if same then
        -- transform.rs: `let pushed = scope.store_local_values(names);` (not in eval_body)
        let pushed := storeLocal st.heap s x
        match evalExpr fuel cfg s e st with
        | .error e => .error e
        | .ok (v, st) =>
          match v with
          | .map _ => .error .unmodelled
          | _ =>
            match loopSame fuel cfg fn s x v.items body st with
            | .error e => .error e
            | .ok (some r, st) => .ok (some r, st)
            | .ok (none, st) =>
              .ok (none, if fn then st else { st with heap := restoreLocal st.heap s x pushed })
      else
        match evalExpr fuel cfg s e st with
        | .error e => .error e
        | .ok (v, st) =>
          match v with
          | .map _ => .error .unmodelled
          | _ =>
            -- a flow scope per round, as for `@for` (whether a variable first declared in one
            -- round is visible in the next is not specified; the ghost marks make it `unspec`)
            loopFresh fuel cfg fn s (if fn then .fnFlow else .eachLoop) x v.items body st
    | .forS x a b incl body =>
      match evalExpr fuel cfg s a st with
      | .error e => .error e
      | .ok (va, st) =>
        match evalExpr fuel cfg s b st with
        | .error e => .error e
        | .ok (vb, st) =>
          match va, vb with
          | .atom (.num ia), .atom (.num ib) =>
            let vals := (forRange ia ib incl).map V.num
            if fn && cfg.sq.fnNoFlowScopes then loopSame fuel cfg fn s (normName x) vals body st
            else loopFresh fuel cfg fn s (if fn then .fnFlow else .forIter) (normName x) vals body st
          | _, _ => .error .unmodelled
    | .whileS c body =>
      let (h, w) := alloc st.heap s (if fn then .fnWhile else .whileLoop) true
      loopWhile fuel cfg fn w c body { st with heap := h }
    | .mixin m ps body =>
      if fn then .error .unmodelled else
      .ok (none, { st with heap := defineMixin st.heap s (normName m) { ps := ps, body := body, scope := s } })
    | .func f ps body =>
      if fn then .error .unmodelled else
      .ok (none, { st with heap := defineFn st.heap s (normName f) { ps := ps, body := body, scope := s } })
    | .incl m args hasBlock usingPs block =>
      if fn then .error .unmodelled else
      match lookupMixin st.heap s (normName m) with
      | none => .error .err                          -- "Undefined mixin."
      | some clo =>
        match evalNamed fuel cfg s args [] st with
        | .error e => .error e
        | .ok (named, st) =>
          match evalPos fuel cfg s args { pos := [], named := named } st with
          | .error e => .error e
          | .ok (ca, st) =>
            -- `mixin.define_content(&scope, body)`: the block closes over the include-site scope `s`
            let content := if hasBlock then ContentDecl.block { ps := usingPs, body := block, scope := s }
                           else ContentDecl.noBody
            match callClosure fuel cfg .mixinArgs false clo ca (some content) st with
            | .error e => .error e
            | .ok (_, st) => .ok (none, st)
    | .content args =>
      if fn then .error .unmodelled else
      match getContent st.heap s with
      | none => .ok (none, st)
      | some .noBody => .ok (none, st)               -- `Mixin::empty`: nothing, arguments not even evaluated
      | some (.block clo) =>
        match evalNamed fuel cfg s args [] st with
        | .error e => .error e
        | .ok (named, st) =>
          match evalPos fuel cfg s args { pos := [], named := named } st with
          | .error e => .error e
          | .ok (ca, st) =>
            match callClosure fuel cfg .contentArgs false clo ca none st with
            | .error e => .error e
            | .ok (_, st) => .ok (none, st)

/-- loop whose variable is defined in the scope the body runs in (`scope.define(name, value)`) -/
def loopSame : Nat → Cfg → Bool → Nat → Name → List V → List Stmt → St → R (Option V)
  | 0, _, _, _, _, _, _, _ => .error .fuel
  | _ + 1, _, _, _, _, [], _, st => .ok (none, st)
  | fuel + 1, cfg, fn, s, x, v :: vs, body, st =>
    match exec fuel cfg fn s body { st with heap := insertLocal st.heap s x v } with
    | .error e => .error e
    | .ok (some r, st) => .ok (some r, st)
    | .ok (none, st) => loopSame fuel cfg fn s x vs body st

/-- loop with a fresh sub-scope per iteration (`let scope = ScopeRef::sub(scope.clone())`) -/
def loopFresh : Nat → Cfg → Bool → Nat → Kind → Name → List V → List Stmt → St → R (Option V)
  | 0, _, _, _, _, _, _, _, _ => .error .fuel
  | _ + 1, _, _, _, _, _, [], _, st => .ok (none, st)
  | fuel + 1, cfg, fn, s, kind, x, v :: vs, body, st =>
    let (h, f) := alloc st.heap s kind true
    match exec fuel cfg fn f body { st with heap := insertLocal (markLoopVar h f x) f x v } with
    | .error e => .error e
    | .ok (some r, st) => .ok (some r, st)
    | .ok (none, st) => loopFresh fuel cfg fn s kind x vs body st

/-- `while cond.evaluate(scope)?.is_true() { body }` in the loop's own scope `w` -/
def loopWhile : Nat → Cfg → Bool → Nat → Expr → List Stmt → St → R (Option V)
  | 0, _, _, _, _, _, _ => .error .fuel
  | fuel + 1, cfg, fn, w, c, body, st =>
    match evalExpr fuel cfg w c st with
    | .error e => .error e
    | .ok (v, st) =>
      if v.isTrue then
        match exec fuel cfg fn w body st with
        | .error e => .error e
        | .ok (some r, st) => .ok (some r, st)
        | .ok (none, st) => loopWhile fuel cfg fn w c body st
      else .ok (none, st)

end

/-- a whole stylesheet -/
def runProgram (cfg : Cfg) (fuel : Nat) (prog : List Stmt) : Except Err Emitted :=
  match exec fuel cfg false 0 prog St.init with
  | .error e => .error e
  | .ok (_, st) => .ok st.out

end Core
