/-
Core/Args.lean — argument lists and their binding to formal parameters.

Rust ↔ Lean
  sass::CallArgs::new          (sass/call_args.rs)   staticArgErr      (parse-time errors)
  sass::CallArgs::evaluate     (sass/call_args.rs)   spread            (one `...` argument), the
                                                     named-first order lives in Eval.evalArgs
  css::CallArgs                (css/call_args.rs)    CallArgs, takePositional, onlyNamed
  OrderMap::insert/remove      (ordermap.rs)         omInsert / omRemove
  FormalArgs::eval             (sass/formal_args.rs) bindPlan  (the decisions)  +  Eval.runPlan
                                                     (the `argscope.define(..)` sequence)
`bindPlan` separates *what gets bound to what* from the evaluation of default
expressions: the code interleaves them (`default.do_evaluate(argscope)` inside the loop),
`Eval.runPlan` replays the plan in the same left-to-right order, so the observable
behaviour (values, presence of an error) is the same.
-/
import RsassModel.Core.Scope
namespace Core

abbrev Emitted := List (List Char × List Char)

inductive Err
  | err                     -- any Sass error (messages are not modelled)
  | unmodelled              -- the program left the modelled fragment: no opinion
  | fuel
  | unspec (out : Emitted)  -- spec evaluator: the run reached an unspecified region (Scope.lean ghosts)
deriving Repr, Inhabited, DecidableEq

/-- `css::CallArgs`: evaluated call arguments; `named` is an `OrderMap` keyed by
normalised names. -/
structure CallArgs where
  pos : List V := []
  named : List (Name × V) := []
deriving Repr, DecidableEq, Inhabited

def hasKey {β} (x : Name) (m : List (Name × β)) : Bool := (getAssoc x m).isSome

/-- `OrderMap::insert`: replace in place (returns `true` = there was an old value) or push. -/
def omInsert (x : Name) (v : V) (m : List (Name × V)) : List (Name × V) × Bool :=
  (setAssoc x v m, hasKey x m)

/-- `OrderMap::remove` -/
def omRemove (x : Name) (m : List (Name × V)) : Option V × List (Name × V) :=
  (getAssoc x m, eraseAssoc x m)

/-- `sass::CallArgs::new`: duplicate named argument, or a positional (non-splat)
argument after a named one, is a parse error of the whole stylesheet. -/
def staticArgErr : List Name → List ArgKind → Bool
  | _, [] => false
  | seen, .named n :: r => seen.contains (normName n) || staticArgErr (normName n :: seen) r
  | seen, .pos :: r => !seen.isEmpty || staticArgErr seen r
  | seen, .splat :: r => staticArgErr seen r

/-- One `expr...` argument (`Some([one])` arm of `CallArgs::evaluate`). -/
def spread (acc : CallArgs) : V → Except Err CallArgs
  | .arglist pos named =>
    -- result.positional.extend(args.positional); named: insert, duplicate ⇒ error
    let rec addNamed (m : List (Name × V)) : List (Name × Atom) → Except Err (List (Name × V))
      | [] => .ok m
      | (k, a) :: r =>
        let (m', old) := omInsert k (.atom a) m
        if old then .error .err else addNamed m' r
    match addNamed acc.named named with
    | .error e => .error e
    | .ok m => .ok { pos := acc.pos ++ pos.map V.atom, named := m }
  | .map kv =>
    -- add_from_value_map: `self.named.insert(s.value().into(), v)` — overwrites silently
    .ok { acc with named := kv.foldl (fun m (k, a) => (omInsert (normName k) (.atom a) m).1) acc.named }
  | .list xs _ => .ok { acc with pos := acc.pos ++ xs.map V.atom }
  | .blist xs _ => .ok { acc with pos := acc.pos ++ xs.map V.atom }
  | .atom .null => .ok acc
  | v => .ok { acc with pos := acc.pos ++ [v] }

/-! ### binding -/

structure ArgQuirks where
  /-- formal_args.rs `eval`, varargs branch: a named argument that names a parameter
  already bound by position is not reported; it ends up among the rest keywords. -/
  restSwallowsDup : Bool := false
  /-- css/call_args.rs `only_named`: if nothing positional is left and the only named
  argument carries the rest parameter's own name, its value *becomes* the rest value. -/
  onlyNamedRest : Bool := false
deriving Repr, DecidableEq, Inhabited

def specArgQuirks : ArgQuirks := {}
def asisArgQuirks : ArgQuirks := { restSwallowsDup := true, onlyNamedRest := true }

inductive Binding
  | val (v : V)            -- from a positional or named argument
  | dflt (e : Expr)        -- the parameter's default, to be evaluated in the callee scope
deriving Repr, Inhabited

inductive RestVal
  | direct (v : V)                                      -- `only_named`
  | arglist (pos : List V) (named : List (Name × V))    -- `args.into()`
deriving Repr, Inhabited, DecidableEq

structure Plan where
  binds : List (Name × Binding)         -- in parameter order
  rest : Option (Name × RestVal)
deriving Repr, Inhabited

/-- the loop `for (name, default) in &self.0[positional.len()..]` -/
def bindRemaining : List (Name × Option Expr) → List (Name × V) →
    Except Err (List (Name × Binding) × List (Name × V))
  | [], named => .ok ([], named)
  | (p, d) :: r, named =>
    match omRemove (normName p) named with
    | (some v, named') =>
      match bindRemaining r named' with
      | .ok (bs, nm) => .ok ((normName p, .val v) :: bs, nm)
      | .error e => .error e
    | (none, _) =>
      match d with
      | some e =>
        match bindRemaining r named with
        | .ok (bs, nm) => .ok ((normName p, .dflt e) :: bs, nm)
        | .error e => .error e
      | none => .error .err          -- ArgsError::Missing

/-- `FormalArgs::eval` — the decisions. -/
def bindPlan (q : ArgQuirks) (ps : Params) (c : CallArgs) : Except Err Plan :=
  let n := ps.ps.length
  -- `if !self.is_varargs() { if args.len() > n { TooMany / TooManyPos } }`
  if ps.rest.isNone && c.pos.length + c.named.length > n then .error .err
  -- specified, absent from the code: "passed both by position and by name"
  else if !q.restSwallowsDup && (ps.ps.take c.pos.length).any (fun p => hasKey (normName p.1) c.named) then .error .err
  else
    let positional := c.pos.take n          -- take_positional
    let restPos := c.pos.drop n
    let b1 := (ps.ps.take positional.length).zip positional |>.map fun (p, v) => (normName p.1, Binding.val v)
    match bindRemaining (ps.ps.drop positional.length) c.named with
    | .error e => .error e
    | .ok (b2, named') =>
      match ps.rest with
      | some r =>
        let rv :=
          if q.onlyNamedRest && restPos.isEmpty && named'.length == 1 then
            match getAssoc (normName r) named' with
            | some v => RestVal.direct v
            | none => RestVal.arglist restPos named'
          else RestVal.arglist restPos named'
        .ok { binds := b1 ++ b2, rest := some (normName r, rv) }
      | none =>
        -- check_no_named
        if named'.isEmpty then .ok { binds := b1 ++ b2, rest := none } else .error .err

/-- The property's error conditions, stated outright (dart-sass `ArgumentDeclaration.verify`):
too many positional / passed by position and by name / missing / unknown name. -/
def specArgError (ps : Params) (c : CallArgs) : Bool :=
  let k := c.pos.length
  (ps.rest.isNone && k > ps.ps.length)
  || (ps.ps.take k).any (fun p => hasKey (normName p.1) c.named)
  || (ps.ps.drop k).any (fun p => !hasKey (normName p.1) c.named && p.2.isNone)
  || (ps.rest.isNone && c.named.any (fun kv => !(ps.ps.any fun p => normName p.1 = kv.1)))

/-- rest value as a Sass value; argument lists hold scalars only in this fragment. -/
def atomsOf : List V → Option (List Atom)
  | [] => some []
  | .atom a :: r => (atomsOf r).map (a :: ·)
  | _ => none

def namedAtomsOf : List (Name × V) → Option (List (Name × Atom))
  | [] => some []
  | (k, .atom a) :: r => (namedAtomsOf r).map ((k, a) :: ·)
  | _ => none

def RestVal.toV : RestVal → Option V
  | .direct v => some v
  | .arglist pos named =>
    match atomsOf pos, namedAtomsOf named with
    | some p, some n => some (.arglist p n)
    | _, _ => none

end Core
