/-
Core/Term.lean — reader for the program *terms* emitted by the Python generators
(props/core_gen.py prints the same generator object once as SCSS for rsass and once as
this prefix term), and the canonical text of a result.  Driver-side plumbing: no theorem
depends on it.

  prog  ::= (prog stmt*)
  stmt  ::= (decl x e d g) | (emit p e) | (rule stmt*) | (media stmt*) | (atrule stmt*)
          | (if e (then stmt*) (else stmt*)) | (each x e stmt*) | (for x a b incl stmt*)
          | (while e stmt*) | (mixin m params stmt*) | (func f params stmt*) | (ret e)
          | (incl m (args arg*) hasBlock params stmt*) | (content arg*)
  params::= (params (p x) | (p x e) … [(rest x)])
  arg   ::= (p e) | (n x e) | (s e)
  e     ::= null | true | false | <int> | $x | 'ident | "quoted | (blist c|s e*) | (+ a b) | (< a b) | (== a b)
          | (list c|s e*) | (map (k e)*) | (call f arg*) | (inspect e) | (keywords e)
-/
import RsassModel.Core.Eval
namespace Core

inductive SX
  | atom (s : String)
  | node (xs : List SX)
deriving Repr, Inhabited

def tokenize (s : String) : List String :=
  let rec go (cs : List Char) (cur : List Char) (acc : List String) : List String :=
    match cs with
    | [] => (if cur.isEmpty then acc else String.ofList cur.reverse :: acc).reverse
    | c :: r =>
      if c = '(' || c = ')' then
        let acc := if cur.isEmpty then acc else String.ofList cur.reverse :: acc
        go r [] (String.ofList [c] :: acc)
      else if c = ' ' || c = '\n' then
        go r [] (if cur.isEmpty then acc else String.ofList cur.reverse :: acc)
      else go r (c :: cur) acc
  go s.toList [] []

/-- parse one S-expression; returns the rest of the tokens -/
partial def parseSX : List String → Except String (SX × List String)
  | [] => .error "unexpected end"
  | "(" :: r =>
    let rec items (ts : List String) (acc : List SX) : Except String (SX × List String) :=
      match ts with
      | [] => .error "missing )"
      | ")" :: r => .ok (.node acc.reverse, r)
      | ts => match parseSX ts with
        | .error e => .error e
        | .ok (x, r) => items r (x :: acc)
    items r []
  | ")" :: _ => .error "unexpected )"
  | t :: r => .ok (.atom t, r)

def isIntTok (s : String) : Bool :=
  let cs := s.toList
  let ds := if cs.head? = some '-' then cs.drop 1 else cs
  !ds.isEmpty && ds.all Char.isDigit

def intOfTok (s : String) : Int :=
  let cs := s.toList
  if cs.head? = some '-' then - Int.ofNat (String.ofList (cs.drop 1)).toNat!
  else Int.ofNat s.toNat!

mutual
partial def toExpr : SX → Except String Expr
  | .atom "null" => .ok .null
  | .atom "true" => .ok (.bool true)
  | .atom "false" => .ok (.bool false)
  | .atom t =>
    match t.toList with
    | '$' :: n => .ok (.var n)
    | '\'' :: n => .ok (.ident n)
    | '"' :: n => .ok (.qstr n)
    | _ => if isIntTok t then .ok (.num (intOfTok t)) else .error ("bad expr atom " ++ t)
  | .node [.atom "+", a, b] => do .ok (.add (← toExpr a) (← toExpr b))
  | .node [.atom "<", a, b] => do .ok (.lt (← toExpr a) (← toExpr b))
  | .node [.atom "==", a, b] => do .ok (.eq (← toExpr a) (← toExpr b))
  | .node (.atom "list" :: .atom sep :: xs) => do .ok (.list (← xs.mapM toExpr) (sep == "c"))
  | .node (.atom "blist" :: .atom sep :: xs) => do .ok (.blist (← xs.mapM toExpr) (sep == "c"))
  | .node (.atom "map" :: kvs) => do
    let kv ← kvs.mapM fun
      | .node [.atom k, e] => do .ok (k.toList, ← toExpr e)
      | _ => .error "bad map entry"
    .ok (.map kv)
  | .node (.atom "call" :: .atom f :: args) => do .ok (.call f.toList (← args.mapM toArg))
  | .node [.atom "inspect", e] => do .ok (.inspect (← toExpr e))
  | .node [.atom "keywords", e] => do .ok (.keywords (← toExpr e))
  | _ => .error "bad expr"

partial def toArg : SX → Except String (ArgKind × Expr)
  | .node [.atom "p", e] => do .ok (.pos, ← toExpr e)
  | .node [.atom "n", .atom x, e] => do .ok (.named x.toList, ← toExpr e)
  | .node [.atom "s", e] => do .ok (.splat, ← toExpr e)
  | _ => .error "bad arg"
end

def toParams : SX → Except String Params
  | .node (.atom "params" :: ps) =>
    let rec go (ps : List SX) (acc : List (Name × Option Expr)) : Except String Params :=
      match ps with
      | [] => .ok { ps := acc.reverse, rest := none }
      | [.node [.atom "rest", .atom x]] => .ok { ps := acc.reverse, rest := some x.toList }
      | .node [.atom "p", .atom x] :: r => go r ((x.toList, none) :: acc)
      | .node [.atom "p", .atom x, e] :: r =>
        match toExpr e with
        | .ok e => go r ((x.toList, some e) :: acc)
        | .error m => .error m
      | _ => .error "bad param"
    go ps []
  | _ => .error "bad params"

def boolTok : SX → Bool
  | .atom "1" => true
  | _ => false

partial def toStmt : SX → Except String Stmt
  | .node [.atom "decl", .atom x, e, d, g] => do .ok (.decl x.toList (← toExpr e) (boolTok d) (boolTok g))
  | .node [.atom "emit", .atom p, e] => do .ok (.emit p.toList (← toExpr e))
  | .node (.atom "rule" :: b) => do .ok (.rule (← b.mapM toStmt))
  | .node (.atom "media" :: b) => do .ok (.media (← b.mapM toStmt))
  | .node (.atom "atrule" :: b) => do .ok (.atrule (← b.mapM toStmt))
  | .node [.atom "if", c, .node (.atom "then" :: t), .node (.atom "else" :: e)] => do
    .ok (.ifS (← toExpr c) (← t.mapM toStmt) (← e.mapM toStmt))
  | .node (.atom "each" :: .atom x :: e :: b) => do .ok (.each x.toList (← toExpr e) (← b.mapM toStmt))
  | .node (.atom "for" :: .atom x :: a :: b :: incl :: body) => do
    .ok (.forS x.toList (← toExpr a) (← toExpr b) (boolTok incl) (← body.mapM toStmt))
  | .node (.atom "while" :: c :: b) => do .ok (.whileS (← toExpr c) (← b.mapM toStmt))
  | .node (.atom "mixin" :: .atom m :: ps :: b) => do .ok (.mixin m.toList (← toParams ps) (← b.mapM toStmt))
  | .node (.atom "func" :: .atom f :: ps :: b) => do .ok (.func f.toList (← toParams ps) (← b.mapM toStmt))
  | .node [.atom "ret", e] => do .ok (.ret (← toExpr e))
  | .node (.atom "incl" :: .atom m :: .node (.atom "args" :: args) :: hb :: ps :: b) => do
    .ok (.incl m.toList (← args.mapM toArg) (boolTok hb) (← toParams ps) (← b.mapM toStmt))
  | .node (.atom "content" :: args) => do .ok (.content (← args.mapM toArg))
  | _ => .error "bad stmt"

def parseProgram (s : String) : Except String (List Stmt) :=
  match parseSX (tokenize s) with
  | .error e => .error e
  | .ok (.node (.atom "prog" :: b), []) => b.mapM toStmt
  | .ok _ => .error "bad program"

/-! parse-time argument errors (`sass::CallArgs::new`) anywhere in the stylesheet -/
mutual
partial def exprArgErr : Expr → Bool
  | .add a b | .lt a b | .eq a b => exprArgErr a || exprArgErr b
  | .list xs _ => xs.any exprArgErr
  | .blist xs _ => xs.any exprArgErr
  | .map kv => kv.any fun p => exprArgErr p.2
  | .call _ args => argsArgErr args
  | .inspect e | .keywords e => exprArgErr e
  | _ => false
partial def argsArgErr (args : Args) : Bool :=
  staticArgErr [] (args.map (·.1)) || args.any fun a => exprArgErr a.2
end

def paramsArgErr (ps : Params) : Bool :=
  ps.ps.any fun p => match p.2 with
    | some e => exprArgErr e
    | none => false

partial def stmtArgErr : Stmt → Bool
  | .decl _ e _ _ | .emit _ e | .ret e => exprArgErr e
  | .rule b | .media b | .atrule b => b.any stmtArgErr
  | .ifS c t e => exprArgErr c || t.any stmtArgErr || e.any stmtArgErr
  | .each _ e b => exprArgErr e || b.any stmtArgErr
  | .forS _ a b _ body => exprArgErr a || exprArgErr b || body.any stmtArgErr
  | .whileS c b => exprArgErr c || b.any stmtArgErr
  | .mixin _ ps b | .func _ ps b => paramsArgErr ps || b.any stmtArgErr
  | .incl _ args _ ps b => argsArgErr args || paramsArgErr ps || b.any stmtArgErr
  | .content args => argsArgErr args

/-! canonical result text: `ok:` + `name=value;`* | `err` | `unmodelled` | `unspec:` + prefix | `fuel` -/

def showEmitted (out : Emitted) : String :=
  String.ofList (out.flatMap fun (p, v) => p ++ ['='] ++ v ++ [';'])

def showResult : Except Err Emitted → String
  | .ok out => "ok:" ++ showEmitted out
  | .error .err => "err"
  | .error .unmodelled => "unmodelled"
  | .error .fuel => "fuel"
  | .error (.unspec out) => "unspec:" ++ showEmitted out

def defaultFuel : Nat := 20000

def runTerm (cfg : Cfg) (prog : List Stmt) : String :=
  if prog.any stmtArgErr then "err" else showResult (runProgram cfg defaultFuel prog)

end Core
